import Driver.Common
import OrdModel.Server.Content
/- Line handlers for the content engine (property C19).  Stateful: `case`, `ins`, `cfg` lines build the
`View` and `Config`; `view`/`satview` lines echo the view (compared with what the real `Index` returns);
`req` lines are answered by `Ord.Server.Content.respond`; `content.oracle.*` lines evaluate the property's
predicates on the implementation's own responses; `crawl.*` lines are answered from the generated route
table. -/
namespace Driver.Content
open Ord.Server Ord.Server.Csp Ord.Server.Content

structure St where
  ins : Array (Nat × Ins) := #[]
  brotli : Array (Bytes × Option Bytes) := #[]
  sats : Array (Nat × Array Nat) := #[]
  hasSat : Bool := true
  origin : Option String := none
  decompress : Bool := false
  hidden : List Nat := []

def St.view (s : St) : View :=
  { ins := fun id => (s.ins.find? (fun p => p.1 == id)).map (·.2)
    sat := fun n => match s.sats.find? (fun p => p.1 == n) with
      | some p => p.2.toList
      | none => []
    hasSatIndex := s.hasSat
    brotli := fun b => match s.brotli.find? (fun p => p.1 == b) with
      | some p => p.2
      | none => none }

def St.cfg (s : St) : Config :=
  { origin := s.origin, decompress := s.decompress, hidden := s.hidden, fixes := Fixes.current }

/-- `key=value` lookup among tokens -/
def field (ts : List String) (key : String) : Option String :=
  let pre := key ++ "="
  (ts.find? (·.startsWith pre)).map (fun t => (t.drop pre.length).toString)

def optHex (s : String) : Option (Option Bytes) :=
  if s == "none" then some none else (Driver.parseHex s).map some

def showOptHex : Option Bytes → String
  | none => "none"
  | some b => Driver.toHex b

def parseNatList (s : String) : Option (List Nat) :=
  if s == "-" then some [] else (s.splitOn ",").mapM String.toNat?

def showIdList (l : List Nat) : String :=
  if l.isEmpty then "-" else ",".intercalate (l.map toString)

def parseInt (s : String) : Option Int :=
  if s.startsWith "-" then (s.drop 1).toString.toNat?.map (fun n => -(n : Int)) else s.toNat?.map (fun n => (n : Int))

def showCsp (l : List String) : String :=
  if l.isEmpty then "-" else ",".intercalate (l.map (fun v => Driver.toHex v.toUTF8.toList))

def showBody : Body → String
  | .raw bs => "raw:" ++ Driver.toHex bs
  | .tmpl k none => "tmpl:" ++ k
  | .tmpl k (some id) => "tmpl:" ++ k ++ ":#" ++ toString id
  | .msg t => "msg:" ++ Driver.toHex t
  | .opaque => "-"

/-- leading/trailing optional whitespace of a header value does not survive HTTP/1.1 -/
def wireValue (b : Bytes) : Bytes := Content.wire b

def showResponse (r : Response) : String :=
  s!"{r.status}|ct={Driver.toHex (wireValue r.contentType)}|ce={showOptHex (r.contentEncoding.map wireValue)}|cc={match r.cacheControl with | none => "none" | some c => c.text}|csp={showCsp r.csp}|body={showBody r.body}"

def parseReq (ts : List String) : Option Request := do
  let ae ← optHex (← field ts "ae")
  -- transport: optional whitespace around a request header value does not reach the handler
  some { acceptEncoding := ae.map Content.wire }

def parseIdArg (s : String) : Option (Option Nat) :=
  if s == "bad" then some none else s.toNat?.map some

def parseRoute : List String → Option Route
  | "content" :: a :: _ => (parseIdArg a).map .content
  | "undelegated" :: a :: _ => (parseIdArg a).map .undelegated
  | "preview" :: a :: _ => (parseIdArg a).map .preview
  | "satcontent" :: a :: b :: _ =>
    if a == "bad" || b == "bad" then some (.satContent none)
    else do some (.satContent (some (← a.toNat?, ← parseInt b)))
  | _ => none

def parseSeen (ts : List String) : Option Seen := do
  let status ← (← field ts "status").toNat?
  let ct ← Driver.parseHex (← field ts "ct")
  let ce ← optHex (← field ts "ce")
  let cc ← field ts "cc"
  let cspS ← field ts "csp"
  let csp ← if cspS == "-" then some [] else (cspS.splitOn ",").mapM Driver.parseHexText
  let body ← Driver.parseHex (← field ts "body")
  some { status, contentType := ct, contentEncoding := ce,
         cacheControl := if cc == "none" then none else some (cc.replace "_" " "), csp, body }

def routeTemplates : List (String × String) :=
  match servedEntries Generated.routerDefs Generated.servedVar with
  | none => []
  | some es => es.filterMap (fun e => e.path.map (fun p => ((match e.method with | .get => "GET" | .post => "POST"), p)))

def handle (s : St) (ts : List String) : St × Option String :=
  match ts with
  | "case" :: rest =>
    ({ hasSat := field rest "sats" != some "0" }, some "ok")
  | "ins" :: _ => (s, some "ok")
  | "view" :: _ :: "absent" :: _ => (s, some "ok")
  | "view" :: n :: rest =>
    let r : Option St := do
      let n ← n.toNat?
      let body ← optHex (← field rest "body")
      let ct ← optHex (← field rest "ct")
      let ce ← optHex (← field rest "ce")
      let delS ← field rest "del"
      let del ← if delS == "none" then some none else delS.toNat?.map some
      let brS ← field rest "br"
      let s1 := { s with ins := s.ins.push (n, { body, contentType := ct, contentEncoding := ce, delegate := del }) }
      match body with
      | none => some s1
      | some b =>
        if brS == "err" then some { s1 with brotli := s1.brotli.push (b, none) }
        else do some { s1 with brotli := s1.brotli.push (b, some (← Driver.parseHex brS)) }
    match r with
    | some s' => (s', some "ok")
    | none => (s, none)
  | "satview" :: n :: l :: _ =>
    match n.toNat?, parseNatList l with
    | some n, some l => ({ s with sats := s.sats.push (n, l.toArray) }, some "ok")
    | _, _ => (s, none)
  | "cfg" :: rest =>
    let r : Option St := do
      let o ← field rest "origin"
      let origin ← if o == "none" then some none else (Driver.parseHexText o).map some
      let hidden ← parseNatList (← field rest "hidden")
      some { s with origin, decompress := field rest "decompress" == some "1", hidden }
    match r with
    | some s' => (s', some "ok")
    | none => (s, none)
  | "req" :: rest =>
    (s, do
      let route ← parseRoute rest
      let req ← parseReq rest
      some (showResponse (respond s.cfg s.view route req)))
  | "content.oracle.csp" :: rest =>
    (s, do some (toString !(← parseSeen rest).csp.isEmpty))
  | "content.oracle.hidden.direct" :: rest | "content.oracle.hidden.viadelegate" :: rest =>
    (s, do some (toString (oracleHidden s.cfg s.view (← parseSeen rest))))
  | "content.oracle.faithful" :: rest =>
    (s, do
      let seen ← parseSeen rest
      let req ← parseReq rest
      let route ← parseRoute rest
      match route with
      | .content (some id) | .preview (some id) => some (toString (oracleFaithful s.cfg s.view true id req seen))
      | .undelegated (some id) => some (toString (oracleFaithful s.cfg s.view false id req seen))
      | .satContent (some (sat, idx)) =>
        match satIndexed (s.view.sat sat) idx with
        | some id => some (toString (oracleFaithful s.cfg s.view true id req seen))
        | none => some "false"
      | _ => some "false")
  | "content.oracle.notimmutable" :: idx :: rest =>
    (s, do some (toString (oracleNotImmutable (← parseInt idx) (← parseSeen rest))))
  | ["crawl.routes"] => (s, some (toString routeTemplates.length))
  | "crawl.oracle.csp" :: _method :: tmpl :: rest =>
    (s, do
      let t ← Driver.parseHexText tmpl
      let known := t == "<fallback>" || routeTemplates.any (fun p => p.2 == t)
      if !known then some "unknown-route" else
      some (toString ((field rest "csp").map (fun c => c != "-") == some true)))
  | _ => (s, none)

end Driver.Content
