import Driver.Index
/-
Driver of work stream P6 "flags" (property C15) on signet (non-zero first inscription height).
The engine `eng_flagsx` compares real indexes opened with different optional-index flags on the
same chain; the comparisons are evaluated here on the implementation's own outputs:
  flagsx.scenario …                 → "ok"   (parameters of the case; used by --replay)
  flagsx.skipped …                  → "ok"   (quick tier)
  flagsx.oracle.same <a> <b> …      → "true" iff the two projection digests are equal
  flagsx.oracle.lostsat <a> <b> …   → "true" iff the two satpoints are equal
  flagsx.oracle.true <v> …          → "true" iff v = "1"
Every other line (cfg / block / tx / endblock / dump …) goes to the index model, which is fed
the sparse chain and answers with its own sections: the 000 index (values of spent prefix
outputs fetched from the node) against local tracking.
-/
namespace Driver.Flagsx

def handle (_s : Driver.Index.S) : List String → Option String
  | "flagsx.scenario" :: _ => some "ok"
  | "flagsx.skipped" :: _ => some "ok"
  | "flagsx.oracle.same" :: a :: b :: _ => some (toString (a == b))
  | "flagsx.oracle.lostsat" :: a :: b :: _ => some (toString (a == b))
  | "flagsx.oracle.true" :: v :: _ => some (toString (v == "1"))
  | _ => none

end Driver.Flagsx
