import Driver.Index
import OrdModel.Index.Projection
import OrdModel.Generated.FirstIndexHeight
/-
Driver of work stream P6 "flags" (property C15) on signet (non-zero first inscription height).
The engine `eng_flagsx` compares real indexes opened with different optional-index flags on the
same chain; the comparisons are evaluated here on the implementation's own outputs:
  flagsx.scenario …                 → "ok"   (parameters of the case; used by --replay)
  flagsx.skipped …                  → "ok"   (quick tier)
  flagsx.oracle.same <a> <b> …      → "true" iff the two projection digests are equal
  flagsx.oracle.lostsat <a> <b> …   → "true" iff the two satpoints are equal
  flagsx.oracle.true <v> …          → "true" iff v = "1"
Every other line (cfg / block / tx / endblock / dump …) goes to the index model, which is fed
the sparse chain and answers with its own sections: the 000 index (values of spent prefix
outputs fetched from the node) against local tracking.

`endblock` applies the block *as the configuration sees it* (`applyBlockTracked`): a block below
`first_index_height` reaches the real index header-only, so the rune updater sees none of its
transactions; its output values are tracked locally (that is the specification of the node-fetch
path).  `first_index_height` follows the source: `Generated.runesLowerFirstIndexHeight` is
re-extracted from `Index::open` on every run (tools/extractors/first_index_height.py) — false
on the unchanged code (the prefix rune of finding S2 is invisible to the 000 index, and to this
model), true with notes/fix-C15-runes-first-index-height.diff applied (both see it).
-/
namespace Driver.Flagsx
open Ord Ord.Index

def handle (_s : Driver.Index.S) : List String → Option String
  | "flagsx.scenario" :: _ => some "ok"
  | "flagsx.skipped" :: _ => some "ok"
  | "flagsx.oracle.same" :: a :: b :: _ => some (toString (a == b))
  | "flagsx.oracle.lostsat" :: a :: b :: _ => some (toString (a == b))
  | "flagsx.oracle.true" :: v :: _ => some (toString (v == "1"))
  | _ => none

/-- the source's `first_index_height` rule -/
def fixed : Bool := Ord.Index.Generated.runesLowerFirstIndexHeight

/-- `Driver.Index.step`, except that `endblock` folds `applyBlockTracked fixed` instead of
`applyBlock` (same bookkeeping of the pending block, the events and a failed block) -/
def step (s : Driver.Index.S) (ts : List String) : Driver.Index.S × String :=
  match handle s ts with
  | some out => (s, out)
  | none =>
    match ts, s.pending with
    | ["endblock"], some b =>
      let blk := { b with txs := s.txs.reverse }
      match applyBlockTracked fixed s.cfg s.st blk with
      | .ok (st', evs) => ({ s with st := st', pending := none, txs := [], events := s.events ++ evs }, "ok")
      | .panic site => ({ s with pending := none, txs := [], events := [], dead := some site }, s!"panic {site}")
      | .err e => ({ s with pending := none, txs := [], events := [], dead := some e }, s!"err {e}")
    | _, _ => Driver.Index.step s ts

end Driver.Flagsx
