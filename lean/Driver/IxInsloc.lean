import Driver.Index
import Driver.IndexRows
import OrdModel.Index.OracleInsloc
/-
Driver extension of the index group `insloc` (C03, C04).

Queries answered from the model state:
  ix.satpoint <id>     ix.entry <id>     ix.reported <id>     ix.findsat <id>     ix.insout <outpoint>
Oracle predicates evaluated on the implementation's own rows / answers:
  ix.oracle.inspartition <sats> <envelope-count> <utxo rows|ins rows>
  ix.oracle.onsat <utxo rows|ins rows>
  ix.oracle.charms <sats> <op-return outpoints> <utxo rows|ins rows>
  ix.oracle.lost <id> <reported charms> <reported satpoint> <satpoint>
  ix.oracle.find <seq> <sat> <find(sat)> <satpoint>
  ix.oracle.envwf <height> {<#inputs>:<envelope inputs>}
-/
namespace Driver.IxInsloc
open Ord Ord.Index Ord.Index.Insloc Driver.Index

def parseOutPoint (s : String) : Option OutPoint :=
  match s.splitOn ":" with
  | [t, v] => do some ⟨← parseHexNat t, ← v.toNat?⟩
  | _ => none

def parseSatPoint (s : String) : Option SatPoint :=
  match s.splitOn ":" with
  | [t, v, o] => do some ⟨⟨← parseHexNat t, ← v.toNat?⟩, ← o.toNat?⟩
  | _ => none

def parseId (s : String) : Option InscriptionId :=
  match s.splitOn "i" with
  | [t, i] => do some ⟨← parseHexNat t, ← i.toNat?⟩
  | _ => none

def parsePair (sep : String) (s : String) : Option (Nat × Nat) :=
  match s.splitOn sep with
  | [a, b] => do some (← a.toNat?, ← b.toNat?)
  | _ => none

def seqOfId (st : State) (id : InscriptionId) : Option Nat := AL.get st.id2seq id

def renderSp : Option SatPoint → String
  | some sp => sp.render
  | none => "-"

/-! ### the implementation's rows as a `State` (only the tables the predicates read) -/

def utxoOfRow (r : List String) : Option (OutPoint × UtxoEntry) :=
  match r with
  | o :: _ => do
    let op ← parseOutPoint o
    let value ← Rows.fieldNat "value" r
    let ranges ← match Rows.field "ranges" r with
      | none => some []
      | some s => (Rows.commaList s).mapM (parsePair "-")
    let ins ← match Rows.field "ins" r with
      | none => some []
      | some s => (Rows.commaList s).mapM (parsePair "@")
    some (op, ⟨value, ranges, [], ins⟩)
  | [] => none

def entryOfRow (r : List String) : Option (Nat × InsEntry) :=
  match r with
  | k :: _ => do
    let key ← k.toNat?
    let charms ← Rows.fieldNat "charms" r
    let seq ← Rows.fieldNat "seq" r
    let id ← (Rows.field "id" r).bind parseId
    let sat ← (Rows.field "sat" r).bind optNat?
    some (key, { (default : InsEntry) with charms := charms, seq := seq, id := id, sat := sat })
  | [] => none

def spOfRow (r : List String) : Option (Nat × SatPoint) :=
  match r with
  | [s, sp] => do some (← s.toNat?, ← parseSatPoint sp)
  | _ => none

/-- entries must be keyed `0 … n-1` (position = sequence number) -/
def entriesInOrder (l : List (Nat × InsEntry)) : Option (List InsEntry) :=
  let sorted := l.mergeSort (fun a b => a.1 ≤ b.1)
  let rec go : Nat → List (Nat × InsEntry) → Option (List InsEntry)
    | _, [] => some []
    | i, (k, e) :: rest => if k == i && e.seq == i then (go (i + 1) rest).map (e :: ·) else none
  go 0 sorted

def stateOfRows (ts : List String) : Option State := do
  let rs := Rows.rows ts
  let utxo ← (Rows.withHead "utxo" rs).mapM utxoOfRow
  let es ← (Rows.withHead "entry" rs).mapM entryOfRow
  let entries ← entriesInOrder es
  let sps ← (Rows.withHead "seq2satpoint" rs).mapM spOfRow
  some { utxo := utxo, entries := entries, seq2sp := sps }

def parseOutPoints (s : String) : Option (List OutPoint) := (Rows.commaList s).mapM parseOutPoint

def envwfTok (t : String) : Option Bool :=
  match t.splitOn ":" with
  | [n, l] => do
    let n ← n.toNat?
    let l ← (Rows.commaList l).mapM (·.toNat?)
    some (envelopeInputsWF n l)
  | _ => none

def handle (s : S) : List String → Option String
  | ["ix.satpoint", id] => some <|
    match parseId id with
    | none => "bad-op"
    | some id => renderSp ((seqOfId s.st id).bind (AL.get s.st.seq2sp))
  | ["ix.findsat", id] => some <|
    -- C03: `find(entry.sat)` is where the model has the inscription
    match parseId id with
    | none => "bad-op"
    | some id => renderSp ((seqOfId s.st id).bind (AL.get s.st.seq2sp))
  | ["ix.entry", id] => some <|
    match parseId id with
    | none => "bad-op"
    | some id =>
      match (seqOfId s.st id).bind (fun q => s.st.entries[q]?) with
      | none => "-"
      | some e => s!"seq={e.seq} charms={e.charms} sat={optNat e.sat}"
  | ["ix.reported", id] => some <|
    match parseId id with
    | none => "bad-op"
    | some id =>
      match seqOfId s.st id with
      | none => "-"
      | some q =>
        match s.st.entries[q]?, AL.get s.st.seq2sp q with
        | some e, some sp => s!"charms={reportedCharms e sp} satpoint={sp.render}"
        | _, _ => "-"
  | ["ix.insout", o] => some <|
    match parseOutPoint o with
    | none => "bad-op"
    | some op =>
      if !s.cfg.indexInscriptions then "none" else
      match AL.get s.st.utxo op with
      | none => "-"
      | some e =>
        joinOr ((sortByKey (·.1) e.ins).map (fun q =>
          match s.st.entries[q.1]? with
          | some en => en.id.render
          | none => "missing-entry")) ","
  | ["ix.oracle.lost", _, charms, reported, sp] => some <|
    match charms.toNat?, parseSatPoint reported, parseSatPoint sp with
    | some c, some r, some p =>
      -- reported lost ⇔ at the null pseudo-output (an unbound inscription may carry the Lost
      -- bit it was created with); reported unbound ⇔ at the unbound pseudo-output
      toString (r == p && (p.outpoint == OutPoint.unbound || hasCharm c charmLost == p.outpoint.isNull)
        && (hasCharm c charmUnbound == (p.outpoint == OutPoint.unbound)))
    | _, _, _ => "bad-op"
  /- C03 last clause, ground truth from the real parser and the generator's values: an
     inscription revealed on a zero-value input or carrying an unrecognized even field has the
     Unbound charm, no sat, and sits at the unbound pseudo-output.  (It stays there: the
     pseudo-output is never spent.) -/
  | ["ix.oracle.unbound", _, even, zero, charms, sat, sp] => some <|
    match charms.toNat?, parseSatPoint sp with
    | some c, some p =>
      toString (!(even == "1" || zero == "1") ||
        (hasCharm c charmUnbound && sat == "-" && p.outpoint == OutPoint.unbound))
    | _, _ => if even == "1" || zero == "1" then "false" else "true"
  | ["ix.oracle.find", _, _, found, sp] => some <|
    match parseSatPoint found, parseSatPoint sp with
    | some f, some p => toString (f == p)
    | _, _ => "false"
  | "ix.oracle.inspartition" :: sats :: count :: rows => some <|
    match count.toNat?, stateOfRows rows with
    | some n, some st =>
      let cfg := { s.cfg with indexSats := sats == "1" }
      toString (insPartitionedB cfg st && st.entries.length == n)
    | _, _ => "bad-rows"
  | "ix.oracle.onsat" :: rows => some <|
    match stateOfRows rows with
    | some st => toString (onSatB st)
    | none => "bad-rows"
  | "ix.oracle.charms" :: sats :: opret :: rows => some <|
    match parseOutPoints opret, stateOfRows rows with
    | some os, some st => toString (charmsOkB (sats == "1") os st)
    | _, _ => "bad-rows"
  | "ix.oracle.envwf" :: _ :: toks => some <|
    match toks.mapM envwfTok with
    | some bs => toString (bs.all id)
    | none => "bad-op"
  | _ => none

end Driver.IxInsloc
