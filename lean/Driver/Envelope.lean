import Driver.Common
import OrdModel.Codec.Envelope
/- Line handlers for the envelope engine (`eng_envelope`, property C27).  `none` = not ours. -/
namespace Driver.Envelope
open Ord Ord.ScriptW5 Ord.Envelope

def optHex : Option Bytes → String
  | none => "~"
  | some b => toHex b

def parseOptHex (s : String) : Option (Option Bytes) :=
  if s == "~" then some none else (parseHex s).map some

def bit (b : Bool) : String := if b then "1" else "0"

def renderParents (ps : List Bytes) : String :=
  ps.foldl (fun acc p => acc ++ "/" ++ toHex p) "p"

def parseParents (s : String) : Option (List Bytes) :=
  match s.splitOn "/" with
  | "p" :: rest => rest.mapM parseHex
  | _ => none

/-- `body,ce,ct,delegate,metadata,metaprotocol,parents,pointer,properties,pe,rune` -/
def renderFields (i : Inscription) : String :=
  ",".intercalate [optHex i.body, optHex i.contentEncoding, optHex i.contentType, optHex i.delegate,
    optHex i.metadata, optHex i.metaprotocol, renderParents i.parents, optHex i.pointer,
    optHex i.properties, optHex i.propertyEncoding, optHex i.rune]

def parseFields (s : String) : Option Inscription :=
  match s.splitOn "," with
  | [b, ce, ct, d, md, mp, ps, ptr, pr, pe, r] => do
    some { body := ← parseOptHex b, contentEncoding := ← parseOptHex ce, contentType := ← parseOptHex ct,
           delegate := ← parseOptHex d, metadata := ← parseOptHex md, metaprotocol := ← parseOptHex mp,
           parents := ← parseParents ps, pointer := ← parseOptHex ptr, properties := ← parseOptHex pr,
           propertyEncoding := ← parseOptHex pe, rune := ← parseOptHex r }
  | _ => none

/-- `input:offset:<pushnum stutter dup incomplete uneven>:fields` -/
def renderParsed (e : Parsed) : String :=
  s!"{e.input}:{e.offset}:{bit e.pushnum}{bit e.stutter}{bit e.payload.duplicateField}{bit e.payload.incompleteField}{bit e.payload.unrecognizedEvenField}:{renderFields e.payload}"

def renderRaw (e : Raw) : String :=
  s!"{e.input}:{e.offset}:{bit e.pushnum}{bit e.stutter}:{renderParents e.payload}"

def renderList {α : Type} (f : α → String) (xs : List α) : String :=
  xs.foldl (fun acc x => acc ++ " " ++ f x) s!"ok {xs.length}"

def renderOutcome {α : Type} (f : α → String) : Outcome (List α) → String
  | .ok xs => renderList f xs
  | .err e => s!"err {e}"
  | .panic _ => "panic"

/-- `w <k> e1 … ek w <k> …` → list of witnesses -/
partial def parseWitnesses : List String → Option (List (List Bytes))
  | [] => some []
  | "w" :: k :: rest => do
    let k ← k.toNat?
    if rest.length < k then none
    let elems ← (rest.take k).mapM parseHex
    let more ← parseWitnesses (rest.drop k)
    some (elems :: more)
  | _ => none

def renderIdOpt : Outcome (Option InscriptionId) → String
  | .ok none => "none"
  | .ok (some id) => s!"some {toHex id.txid} {id.index}"
  | .err e => s!"err {e}"
  | .panic _ => "panic"

def renderPtr : Option Nat → String
  | none => "none"
  | some n => s!"some {n}"

def handle : List String → Option String
  | "env.tx" :: rest =>
    match parseWitnesses rest with
    | some ws => some (renderOutcome renderParsed (fromWitnesses ws))
    | none => some "bad-op"
  | "env.raw" :: rest =>
    match parseWitnesses rest with
    | some ws => some (renderOutcome renderRaw (rawFromWitnesses 0 ws))
    | none => some "bad-op"
  | ["env.instr", h] =>
    -- the instruction stream itself: `P<hex>` push, `O<byte>` opcode, `E` error
    match parseHex h with
    | some bs =>
      some ((instructions bs).foldl (fun acc it => acc ++ " " ++ (match it with
        | .ok (.push b) => "P" ++ toHex b
        | .ok (.op b) => "O" ++ toHex [b]
        | .error => "E")) "ok")
    | none => some "bad-op"
  | "env.build" :: pre :: inscs =>
    match parseHex pre, inscs.mapM parseFields with
    | some pre, some is =>
      if is.all buildable then some (toHex (pre ++ batchRevealScript is)) else some "panic"
    | _, _ => some "bad-op"
  | "env.oracle.rt" :: input :: k :: rest =>
    -- round trip on the implementation's own answer: the `k` inscriptions, then the tokens the
    -- implementation printed for `env.tx` on the script it built for them
    match input.toNat?, k.toNat? with
    | some input, some k =>
      match (rest.take k).mapM parseFields with
      | some is =>
        let expected := renderList renderParsed (expectedEnvelopes input 0 is)
        some (toString (expected == " ".intercalate (rest.drop k)))
      | none => some "bad-op"
    | _, _ => some "bad-op"
  | ["env.oracle.total", status] => some (toString (status == "ok"))
  | ["env.ptr", p] =>
    match p.toNat? with
    | some p =>
      if p < 2 ^ 64 then
        let v := pointerValue p
        some s!"{toHex v} {renderPtr (pointerOf (some v))}"
      else some "bad-op"
    | none => some "bad-op"
  | ["env.ptrdec", h] =>
    match parseHex h with
    | some v => some (renderPtr (pointerOf (some v)))
    | none => some "bad-op"
  | ["env.oracle.ptr", p, _, res] => some (toString (res == s!"some:{p}"))
  | ["env.id", txid, index] =>
    match parseHex txid, index.toNat? with
    | some txid, some index =>
      if txid.length = 32 ∧ index < 2 ^ 32 then
        let v := InscriptionId.value { txid, index }
        some s!"{toHex v} {renderIdOpt (InscriptionId.fromValue v)}"
      else some "bad-op"
    | _, _ => some "bad-op"
  | ["env.idfrom", h] =>
    match parseHex h with
    | some v => some (renderIdOpt (InscriptionId.fromValue v))
    | none => some "bad-op"
  | ["env.oracle.id", txid, index, _, res] => some (toString (res == s!"some:{txid}:{index}"))
  | "env.parents" :: vs =>
    match vs.mapM parseHex with
    | some vs =>
      match parentsOf vs with
      | .ok ids => some (ids.foldl (fun acc id => acc ++ s!" {toHex id.txid}:{id.index}") s!"ok {ids.length}")
      | .err e => some s!"err {e}"
      | .panic _ => some "panic"
    | none => some "bad-op"
  | _ => none

end Driver.Envelope
