import Driver.Common
import OrdModel.Index.Render
/-
Driver for the index model: a stateful line protocol.
  cfg sats=0|1 addr=0|1 tx=0|1 ins=0|1 runes=0|1 first_ins=N jubilee=N first_rune=N   (resets the state)
  block <height> <time> <hash-hex> <minimum-rune>
  tx …                                   (see parseTx)
  endblock                               → "ok" | "panic <site>" | "err <e>"
  dump <section>                         → rows joined by '|'
  events                                 → events of the last block joined by '|'
-/
namespace Driver.Index
open Ord Ord.Index

def parseHexNat (s : String) : Option Nat :=
  s.toList.foldlM (fun acc c => do let d ← hexDigit c; pure (acc * 16 + d)) 0

def optNat? (s : String) : Option (Option Nat) :=
  if s == "-" then some none else s.toNat?.map some

def parsePush (s : String) : Option (List UInt8) :=
  if s == "_" then some [] else parseHex s

def parsePushes (s : String) : Option (List (List UInt8)) :=
  if s == "-" then some [] else (s.splitOn ",").mapM parsePush

def parseIdList (s : String) : Option (List InscriptionId) :=
  if s == "-" then some [] else
  (s.splitOn ",").mapM (fun p => match p.splitOn ":" with
    | [t, i] => do some ⟨← parseHexNat t, ← i.toNat?⟩
    | _ => none)

def parseRuneId (s : String) : Option RuneId :=
  match s.splitOn ":" with
  | [b, t] => do some ⟨← b.toNat?, ← t.toNat?⟩
  | _ => none

def optRuneId? (s : String) : Option (Option RuneId) :=
  if s == "-" then some none else (parseRuneId s).map some

def parseTerms (s : String) : Option (Option Terms) :=
  if s == "-" then some none else
  match s.splitOn "," with
  | [a, c, hs, he, os, oe] => do
    some (some ⟨← optNat? a, ← optNat? c, ← optNat? hs, ← optNat? he, ← optNat? os, ← optNat? oe⟩)
  | _ => none

def parseEtching (s : String) : Option (Option Etching) :=
  if s == "-" then some none else
  match s.splitOn "." with
  | [d, p, r, sp, sy, tu, te] => do
    some (some ⟨← optNat? d, ← optNat? p, ← optNat? r, ← optNat? sp, ← optNat? sy, ← parseTerms te, tu == "1"⟩)
  | _ => none

def parseEdicts (s : String) : Option (List Edict) :=
  if s == "-" then some [] else
  (s.splitOn ";").mapM (fun e => match e.splitOn ":" with
    | [b, t, a, o] => do some ⟨⟨← b.toNat?, ← t.toNat?⟩, ← a.toNat?, ← o.toNat?⟩
    | _ => none)

def parseArtifact (s : String) : Option (Option Artifact) :=
  if s == "-" then some none else
  match s.splitOn "/" with
  | ["C", r, m] => do some (some (.cenotaph (← optNat? r) (← optRuneId? m)))
  | ["R", p, m, e, ed] => do
    some (some (.runestone (← parseEdicts ed) (← parseEtching e) (← optRuneId? m) (← optNat? p)))
  | _ => none

def takeN {α : Type} (k : Nat) (f : List String → Option (α × List String)) : Nat → List String → List α → Option (List α × List String)
  | 0, ts, acc => some (acc.reverse, ts)
  | n + 1, ts, acc => do
    let (a, rest) ← f ts
    takeN k f n rest (a :: acc)

def parseIn : List String → Option (TxIn × List String)
  | t :: v :: tap :: conf :: pushes :: rest => do
    some (⟨⟨← parseHexNat t, ← v.toNat?⟩, tap == "1", ← optNat? conf, ← parsePushes pushes⟩, rest)
  | _ => none

def parseOut : List String → Option (TxOut × List String)
  | v :: o :: s :: rest => do some (⟨← v.toNat?, o == "1", ← parseHex s⟩, rest)
  | _ => none

def flagAt (s : String) (i : Nat) : Bool := (s.toList.getD i '0') == '1'

def parseEnv : List String → Option (Envelope × List String)
  | i :: o :: f :: pf :: p :: ps :: rest => do
    some (⟨← i.toNat?, ← o.toNat?, flagAt f 0, flagAt f 1, flagAt f 2, flagAt f 3, flagAt f 4, flagAt f 5, flagAt f 6,
           pf == "1", ← optNat? p, ← parseIdList ps⟩, rest)
  | _ => none

/-- `tx <txid> <size> <nin> {prev-txid vout taproot conf pushes} <nout> {value opret script}
       <nenv> {input offset flags7 ptrfield pointer parents} <artifact>` -/
def parseTx : List String → Option Tx
  | txid :: size :: nin :: rest => do
    let (ins, rest) ← takeN 0 parseIn (← nin.toNat?) rest []
    match rest with
    | nout :: rest => do
      let (outs, rest) ← takeN 0 parseOut (← nout.toNat?) rest []
      match rest with
      | nenv :: rest => do
        let (envs, rest) ← takeN 0 parseEnv (← nenv.toNat?) rest []
        match rest with
        | [art] => some ⟨← parseHexNat txid, ins, outs, envs, ← parseArtifact art, ← size.toNat?⟩
        | _ => none
      | _ => none
    | _ => none
  | _ => none

def parseCfg (ts : List String) : Option Cfg := do
  let kv := ts.filterMap (fun t => match t.splitOn "=" with | [k, v] => some (k, v) | _ => none)
  let get (k : String) : Option Nat := (kv.find? (·.1 == k)).bind (·.2.toNat?)
  some ⟨(← get "sats") == 1, (← get "addr") == 1, (← get "tx") == 1, (← get "ins") == 1, (← get "runes") == 1,
        ← get "first_ins", ← get "jubilee", ← get "first_rune"⟩

structure S where
  cfg : Cfg := default
  st : State := {}
  pending : Option Block := none
  /-- transactions of the pending block, reversed -/
  txs : List Tx := []
  events : List Event := []
  /-- a block panicked: the state is the one before that block -/
  dead : Option String := none
  deriving Inhabited

/-- consecutive RuneBurned events come out of a HashMap: order them canonically -/
def canonEvents (evs : List String) : List String :=
  let rec go : List String → List String → List String → List String
    | [], run, acc => acc ++ sortStrings run
    | e :: rest, run, acc =>
      if e.startsWith "RuneBurned" then go rest (run ++ [e]) acc
      else go rest [] (acc ++ sortStrings run ++ [e])
  go evs [] []

def step (s : S) : List String → S × String
  | "cfg" :: ts =>
    match parseCfg ts with
    | some c => ({ cfg := c }, "ok")
    | none => (s, "bad-op")
  | ["block", h, t, hash, minr] =>
    match h.toNat?, t.toNat?, parseHexNat hash, minr.toNat? with
    | some h, some t, some hash, some m => ({ s with pending := some ⟨h, t, hash, m, []⟩, txs := [] }, "ok")
    | _, _, _, _ => (s, "bad-op")
  | "tx" :: ts =>
    match parseTx ts with
    | some tx => ({ s with txs := tx :: s.txs }, "ok")
    | none => (s, "bad-op")
  | ["endblock"] =>
    match s.pending with
    | none => (s, "bad-op")
    | some b =>
      let blk := { b with txs := s.txs.reverse }
      match applyBlock s.cfg s.st blk with
      | .ok (st', evs) => ({ s with st := st', pending := none, txs := [], events := s.events ++ evs }, "ok")
      | .panic site => ({ s with pending := none, txs := [], events := [], dead := some site }, s!"panic {site}")
      | .err e => ({ s with pending := none, txs := [], events := [], dead := some e }, s!"err {e}")
  | ["dump", name] => (s, renderSection s.cfg s.st name)
  -- C16 on the implementation's own outcome (the generated chain is valid by construction)
  | ["index.oracle.nofail", _, _, outcome] => (s, toString (outcome == "ok" && s.dead.isNone))
  -- events of all blocks indexed since the previous `events` request (one update call)
  | ["events"] => ({ s with events := [] }, joinOr (canonEvents (s.events.map renderEvent)) "|")
  | _ => (s, "bad-op")

end Driver.Index

namespace Driver.Index

/-- Compose the core index step with read-only extension handlers (queries / oracle predicates
of one property group; `none` = not one of ours).  Each property group has its own driver exe
`drv_ix_<group>` whose main is `Driver.run (withExt <group>.handle) {}`. -/
def withExt (ext : S → List String → Option String) (s : S) (ts : List String) : S × String :=
  match ext s ts with
  | some out => (s, out)
  | none => step s ts

end Driver.Index
