import Driver.Index
import Driver.IndexRows
import OrdModel.Index.OracleMisc
/- C17 handlers: `ix.addr`, `ix.oracle.addr`, `ix.oracle.addrchain` (see harness/ix_misc/src/c17.rs) -/
namespace Driver.IxMiscC17
open Ord Ord.Index Driver.Index

/-- split the remaining tokens of a request line at the `##` separators -/
def splitSections (ts : List String) : List (List String) :=
  let rec go : List String → List String → List (List String) → List (List String)
    | [], cur, acc => (acc ++ [cur])
    | t :: rest, cur, acc => if t == "##" then go rest [] (acc ++ [cur]) else go rest (cur ++ [t]) acc
  go ts [] []

def addrRows (ts : List String) : List (String × List String) :=
  (Driver.Rows.withHead "script2outpoints" (Driver.Rows.rows ts)).filterMap (fun r => match r with
    | [s, ops] => some (s, Driver.Rows.commaList ops)
    | _ => none)

/-- `(outpoint, value, script)` of every utxo row -/
def utxoRows (ts : List String) : List (String × String × String) :=
  (Driver.Rows.withHead "utxo" (Driver.Rows.rows ts)).filterMap (fun r => match r with
    | op :: rest => some (op, (Driver.Rows.field "value" rest).getD "?", (Driver.Rows.field "script" rest).getD "?")
    | _ => none)

/-- `(outpoint, value, script, origin)` rows of the chain's unspent outputs -/
def quads (ts : List String) : List (String × String × String × String) :=
  (Driver.Rows.rows ts).filterMap (fun r => match r with | [a, b, c, d] => some (a, b, c, d) | _ => none)

def pairs (ts : List String) : List (String × String) :=
  (Driver.Rows.rows ts).filterMap (fun r => match r with | [a, b] => some (a, b) | _ => none)

def handle (s : S) : List String → Option String
  | ["ix.addr", script] =>
    match parseHex script with
    | none => some "bad-op"
    | some sc =>
      let ops := sortStrings ((s.st.script2out.filter (fun x => x.1 == sc)).map (·.2.render))
      some (joinOr ops ",")
  | "ix.oracle.addr" :: ts =>
    match splitSections ts with
    | [a, u] =>
      let addr := addrRows a
      let utxo := (utxoRows u).map (fun r => (r.1, r.2.2))
      -- every row of both sections must have been understood
      let parsedAll := addr.length == (Driver.Rows.rows a).length && utxo.length == (Driver.Rows.rows u).length
      some (toString (parsedAll && OracleMisc.addrOk addr utxo))
    | _ => some "bad-op"
  | "ix.oracle.addrchain" :: ts =>
    match splitSections ts with
    | [u, e, n] =>
      let utxo := utxoRows u
      let ex := quads e
      let parsedAll := utxo.length == (Driver.Rows.rows u).length && ex.length == (Driver.Rows.rows e).length
        && (pairs n).length == (Driver.Rows.rows n).length
      let genesis := (ex.filter (fun r => r.2.2.2 == "g")).map (·.1)
      some (toString (parsedAll && OracleMisc.addrChainOk utxo (ex.map (fun r => (r.1, r.2.1, r.2.2.1))) genesis (pairs n)))
    | _ => some "bad-op"
  | _ => none

end Driver.IxMiscC17
