import Driver.Runestone
def main : IO Unit :=
  Driver.runPure fun ts => (Driver.Runestone.handle ts).getD "bad-op"
