import Driver.Rune
def main : IO Unit :=
  Driver.runPure fun ts => (Driver.Rune.handle ts).getD "bad-op"
