import Driver.Offer
def main : IO Unit :=
  Driver.runPure fun ts => (Driver.Offer.handle ts).getD "bad-op"
