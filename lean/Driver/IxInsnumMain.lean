import Driver.IxInsnum
def main : IO Unit := Driver.run (Driver.Index.withExt Driver.IxInsnum.handle) {}
