import Driver.Index
import Driver.IndexRows
import OrdModel.Index.OracleInsnum
/-
Driver handlers of the index property group "insnum" (C05, C06, C07).
Queries (`ix.c05.*`, `ix.c06.*`, `ix.c07.*`) are answered from the model state; oracle lines
(`ix.oracle.*`) evaluate the executable conclusions of `OrdModel/Index/OracleInsnum.lean` on the
implementation's own dump rows, which arrive after a `#` token.
-/
namespace Driver.IxInsnum
open Ord Ord.Index Ord.Index.Insnum Driver.Index

def parseId (s : String) : Option InscriptionId :=
  match s.splitOn "i" with
  | [t, i] => do some ⟨← parseHexNat t, ← i.toNat?⟩
  | _ => none

def parseIdColon (s : String) : Option InscriptionId :=
  match s.splitOn ":" with
  | [t, i] => do some ⟨← parseHexNat t, ← i.toNat?⟩
  | _ => none

def natList (s : String) : Option (List Nat) := (Driver.Rows.commaList s).mapM (·.toNat?)

def idList (s : String) : Option (List InscriptionId) := (Driver.Rows.commaList s).mapM parseId

def parseEntryRow (r : List String) : Option (Nat × InsEntry) :=
  match r with
  | key :: rest => do
    let f (k : String) : Option String := Driver.Rows.field k rest
    let sat ← match ← f "sat" with
      | "-" => some none
      | x => x.toNat?.map some
    some (← key.toNat?,
      { charms := ← (← f "charms").toNat?, fee := ← (← f "fee").toNat?, height := ← (← f "height").toNat?,
        hidden := (← f "hidden") == "true", id := ← parseId (← f "id"), number := ← (← f "number").toInt?,
        parents := ← natList (← f "parents"), sat := sat, seq := ← (← f "seq").toNat?,
        timestamp := ← (← f "timestamp").toNat? })
  | [] => none

def pairRows (head : String) (rs : List (List String)) : Option (List (Nat × Nat)) :=
  (Driver.Rows.withHead head rs).mapM (fun r => match r with
    | [a, b] => do some (← a.toNat?, ← b.toNat?)
    | _ => none)

def multiRows (head : String) (rs : List (List String)) : Option (List (Nat × Nat)) := do
  let groups ← (Driver.Rows.withHead head rs).mapM (fun r => match r with
    | [a, b] => do
      let k ← a.toNat?
      let vs ← natList b
      some (vs.map (fun v => (k, v)))
    | _ => none)
  some groups.flatten

/-- the implementation's `ins` (+ `stats`) rows as a model `State`; entry rows are put in key
order and the key is required to be the position (`dom seqToEntry = [0,n)`) -/
def stateOfRows (rs : List (List String)) : Option State := do
  let ents ← (Driver.Rows.withHead "entry" rs).mapM parseEntryRow
  let sorted := ents.mergeSort (fun a b => a.1 ≤ b.1)
  if !((Ord.Index.enumFrom 0 sorted).all (fun (i, (k, _)) => i == k)) then none
  let id2seq ← (Driver.Rows.withHead "id2seq" rs).mapM (fun r => match r with
    | [a, b] => do some (← parseId a, ← b.toNat?)
    | _ => none)
  let num2seq ← (Driver.Rows.withHead "num2seq" rs).mapM (fun r => match r with
    | [a, b] => do some (← a.toInt?, ← b.toNat?)
    | _ => none)
  let stat (name : String) : Nat :=
    ((Driver.Rows.withHead "statistic" rs).findSome? (fun r => match r with
      | [n, v] => if n == name then v.toNat? else none
      | _ => none)).getD 0
  some { entries := sorted.map (·.2), id2seq := id2seq, num2seq := num2seq,
         sat2seq := ← multiRows "sat2seq" rs, children := ← multiRows "children" rs,
         coll2latest := ← pairRows "collection2latest" rs, latest2coll := ← multiRows "latest2collection" rs,
         height2lastseq := ← pairRows "height2lastseq" rs,
         blessed := stat "BlessedInscriptions", cursed := stat "CursedInscriptions" }

def onRows (ts : List String) (f : State → Bool) : Option String :=
  match stateOfRows (Driver.Rows.rows ts) with
  | some st => some (toString (f st))
  | none => some "bad-rows"

def renderIds (l : List InscriptionId) : String := joinOr (l.map (·.render)) ","

def renderPage : Option (List InscriptionId × Bool) → String
  | some (ids, more) => s!"{renderIds ids};{more}"
  | none => "panic"

def parseCell (s : String) : Option ChildCell :=
  match s.splitOn ";" with
  | [c, ps, pids, fl] => do
    let v (x : String) (k : String) : Option String := if x.startsWith (k ++ "=") then some (x.drop (k.length + 1)).toString else none
    some ⟨← (← v c "c").toNat?, ← natList (← v ps "ps"), ← idList (← v pids "pids"), ← idList (← v fl "fl")⟩
  | _ => none

def parsePairs (s : String) : Option (List (Nat × Nat)) :=
  (Driver.Rows.commaList s).mapM (fun c => match c.splitOn ":" with
    | [a, b] => do some (← a.toNat?, ← b.toNat?)
    | _ => none)

def handle (s : S) : List String → Option String
  -- C05
  | ["ix.c05.entry", id] => some (match parseIdColon id with
    | some i => (match entryById s.st i with | some e => renderEntry e | none => "none")
    | none => "bad-op")
  | ["ix.c05.inblock", h] => some (match h.toNat? with
    | some h => (match inscriptionsInBlock s.st h with | some ids => renderIds ids | none => "err")
    | none => "bad-op")
  | ["ix.c05.page", size, index] => some (match size.toNat?, index.toNat? with
    | some a, some b => renderPage (some (inscriptionsPaginated s.st a b))
    | _, _ => "bad-op")
  | "ix.oracle.dense" :: "#" :: ts => onRows ts denseOk
  | "ix.oracle.inverse" :: "#" :: ts => onRows ts inverseOk
  | "ix.oracle.jubilee" :: j :: "#" :: ts => (match j.toNat? with
    | some j => onRows ts (jubileeOk j)
    | none => some "bad-op")
  | "ix.oracle.ids" :: txs :: "#" :: ts =>
    (match (Driver.Rows.commaList txs).mapM (fun c => match c.splitOn ":" with
        | [t, m, h] => do some (← parseHexNat t, ← m.toNat?, ← h.toNat?)
        | _ => none) with
    | some txs => onRows ts (idsOk txs)
    | none => some "bad-op")
  | ["ix.oracle.feelast", _, cells] => some (match parsePairs cells with
    | some l => toString (feeLastOk l)
    | none => "bad-op")
  -- C06
  | ["ix.c06.bysat", sat] => some (match sat.toNat? with
    | some n => (match idsBySat s.st n with | some ids => renderIds ids | none => "panic")
    | none => "bad-op")
  | ["ix.oracle.reinscription", _, _, cells] => some (match parsePairs cells with
    | some l => toString (reinscriptionOk (l.map (fun (a, b) => (a, b == 1))))
    | none => "bad-op")
  | "ix.oracle.cleanfirst" :: seqs :: "#" :: ts => (match natList seqs with
    | some l => onRows ts (cleanFirstOk l)
    | none => some "bad-op")
  -- C07
  | ["ix.c07.children", seq, size, page] => some (match seq.toNat?, size.toNat?, page.toNat? with
    | some a, some b, some c => renderPage (childrenPaginated s.st a b c)
    | _, _, _ => "bad-op")
  | ["ix.c07.parents", seq, size, page] => some (match seq.toNat?, size.toNat?, page.toNat? with
    | some a, some b, some c => renderPage (parentsPaginated s.st a b c)
    | _, _, _ => "bad-op")
  | ["ix.c07.collections", size, page] => some (match size.toNat?, page.toNat? with
    | some b, some c => renderPage (collectionsPaginated s.st b c)
    | _, _ => "bad-op")
  | "ix.oracle.parents" :: _ :: cells => some (
    if cells == ["-"] then "true" else
    match cells.mapM parseCell with
    | some cs => toString (parentsOk cs)
    | none => "bad-op")
  | "ix.oracle.children" :: "#" :: ts => onRows ts childrenOk
  | "ix.oracle.latestchild" :: "#" :: ts => onRows ts latestOk
  | _ => none

end Driver.IxInsnum
