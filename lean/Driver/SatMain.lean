import Driver.Sat
def main : IO Unit :=
  Driver.runPure fun ts => (Driver.Sat.handle ts).getD "bad-op"
