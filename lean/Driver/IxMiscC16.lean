import Driver.Index
import Driver.IndexRows
import OrdModel.Index.Valid
/- C16 handlers (indexing never fails): the generator's notion of "valid chain" is tied to
`OrdModel/Index/Valid.lean`'s, so that `index.oracle.nofail = false` on a chain that `validChain`
accepts is a C16 violation and not a generator artefact.

  ix.oracle.validblock <case> <height> <ntx> {txid nin {prev-txid vout spent-value} nout {value}}
      → `Valid.checkBlock` on the block alone, with the UTXO set reconstructed from the spent
        values on the line (outputs created inside the block excluded); envelopes / runestones /
        node answers are not on the line (those rules are evaluated by `validchain`)
  ix.oracle.validchain <case> <height> ## block h time hash min ## tx … ## tx … ## block …
      → `Valid.validChain` on the whole chain so far (full `tx` lines as in the block protocol) -/
namespace Driver.IxMiscC16
open Ord Ord.Index Driver.Index

def splitSections (ts : List String) : List (List String) :=
  let rec go : List String → List String → List (List String) → List (List String)
    | [], cur, acc => (cur.reverse :: acc).reverse
    | t :: rest, cur, acc => if t == "##" then go rest [] (cur.reverse :: acc) else go rest (t :: cur) acc
  go ts [] []

/-- `prev-txid vout value` -/
def parseVIn : List String → Option ((TxIn × Nat) × List String)
  | t :: v :: val :: rest => do
    some ((⟨⟨← parseHexNat t, ← v.toNat?⟩, false, some 0, []⟩, ← val.toNat?), rest)
  | _ => none

def parseVOut : List String → Option (TxOut × List String)
  | v :: rest => do some (⟨← v.toNat?, false, []⟩, rest)
  | _ => none

/-- `txid nin {prev-txid vout value} nout {value}` -/
def parseVTx : List String → Option ((Tx × List (OutPoint × Nat)) × List String)
  | txid :: nin :: rest => do
    let (ins, rest) ← takeN 0 parseVIn (← nin.toNat?) rest []
    match rest with
    | nout :: rest => do
      let (outs, rest) ← takeN 0 parseVOut (← nout.toNat?) rest []
      some ((⟨← parseHexNat txid, ins.map (·.1), outs, [], none, 0⟩, ins.map (fun (i, v) => (i.prev, v))), rest)
    | _ => none
  | _ => none

/-- the UTXO set the block needs: every spent `(outpoint, value)` on the line once, except
outputs created inside the block and null previous outputs -/
def neededUtxos (txids : List Txid) (spent : List (OutPoint × Nat)) : Valid.Utxos :=
  spent.foldl (fun acc (op, v) =>
    if op.isNull || txids.contains op.txid || (Valid.lookup acc op).isSome then acc else acc ++ [(op, v)]) []

def validBlockLine (height : Nat) (ts : List String) : Option Bool :=
  match ts with
  | ntx :: rest => do
    let (txs, rest) ← takeN 0 parseVTx (← ntx.toNat?) rest []
    if !rest.isEmpty then none else
    let blk : Block := ⟨height, 0, 0, 0, txs.map (·.1)⟩
    let st : Valid.VState :=
      { height := height, utxos := neededUtxos (txs.map (·.1.txid)) (txs.flatMap (·.2)) }
    some (Valid.checkBlock st blk).isSome
  | _ => none

/-- sections `block h t hash min`, `tx …` → blocks in order -/
def parseChain (secs : List (List String)) : Option (List Block) :=
  let rec go : List (List String) → Option Block → List Tx → List Block → Option (List Block)
    | [], cur, txs, acc =>
      match cur with
      | some b => some (({ b with txs := txs.reverse } :: acc).reverse)
      | none => some acc.reverse
    | ("block" :: [h, t, hash, minr]) :: rest, cur, txs, acc =>
      match h.toNat?, t.toNat?, parseHexNat hash, minr.toNat? with
      | some h, some t, some hash, some m =>
        let acc' := match cur with | some b => { b with txs := txs.reverse } :: acc | none => acc
        go rest (some ⟨h, t, hash, m, []⟩) [] acc'
      | _, _, _, _ => none
    | ("tx" :: ts) :: rest, cur, txs, acc =>
      match cur, parseTx ts with
      | some b, some tx => go rest (some b) (tx :: txs) acc
      | _, _ => none
    | _ :: _, _, _, _ => none
  go secs none [] []

def handle (_s : S) : List String → Option String
  | "ix.oracle.validblock" :: _case :: h :: ts =>
    match h.toNat? with
    | none => some "bad-op"
    | some h =>
      match validBlockLine h ts with
      | some b => some (toString b)
      | none => some "bad-op"
  | "ix.oracle.validchain" :: _case :: _h :: "##" :: ts =>
    match parseChain (splitSections ts) with
    | some chain => some (toString (Valid.validChain chain))
    | none => some "bad-op"
  | _ => none

end Driver.IxMiscC16
