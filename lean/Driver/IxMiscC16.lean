import Driver.Index
import Driver.IndexRows
/- C16 handlers (indexing never fails) -/
namespace Driver.IxMiscC16
open Ord Ord.Index Driver.Index

def handle (_s : S) : List String → Option String
  | _ => none

end Driver.IxMiscC16
