import Driver.Builder
def main : IO Unit :=
  Driver.run (σ := Driver.Builder.State)
    (fun st ts => let (st', o) := Driver.Builder.handle st ts; (st', o.getD "bad-op")) {}
