import Driver.Index
import Driver.IndexRows
import OrdModel.Index.OracleSats
/-
Driver handlers of the `sats` group (C01, C02).

  ix.dupcase <case_seed>               → ok   (stream `dup`: names the crafted duplicate-txid case
                                                that follows; the engine replays by this seed)
Queries (answered from the model state after the last `endblock`):
  ix.list <txid>:<vout>                → none | - | a-b,c-d
  ix.find <sat>                        → none | <txid>:<vout>:<offset> | panic
  ix.find_range <start> <end>          → none | err | panic | start:size@satpoint,… (sorted by start) | -
  ix.rare                              → sat@satpoint,… (sorted by sat) | -
  ix.rare_one <sat>                    → none | satpoint
Oracles (evaluated on the implementation's rows carried by the request line):
  ix.oracle.fifo {B <height> <ntx> {<txid> <nin> {<txid>:<vout>} <nout> {<value>}}} P {<outpoint>=<ranges>} N {<outpoint>=<ranges>}
  ix.oracle.partition <height> D <ranges> R {<outpoint> <value> <ranges>}
  ix.oracle.rare_complete R {<outpoint>=<ranges>} S {<sat>=<satpoint>}
  ix.oracle.rare_sound    R {<outpoint>=<ranges>} S {<sat>=<satpoint>}
-/
namespace Driver.IxSats
open Ord Ord.Index Driver.Index

def parseOutPoint (s : String) : Option OutPoint :=
  match s.splitOn ":" with
  | [t, v] => do some ⟨← parseHexNat t, ← v.toNat?⟩
  | _ => none

def parseSatPoint (s : String) : Option SatPoint :=
  match s.splitOn ":" with
  | [t, v, o] => do some ⟨⟨← parseHexNat t, ← v.toNat?⟩, ← o.toNat?⟩
  | _ => none

def parseRanges (s : String) : Option Ranges :=
  if s == "-" then some [] else
  (s.splitOn ",").mapM (fun r => match r.splitOn "-" with
    | [a, b] => do some (← a.toNat?, ← b.toNat?)
    | _ => none)

def renderRanges (rs : Ranges) : String := joinOr (rs.map (fun (a, b) => s!"{a}-{b}")) ","

/-- `<outpoint>=<ranges>` -/
def parseRow (s : String) : Option (OutPoint × Ranges) :=
  match s.splitOn "=" with
  | [o, r] => do some (← parseOutPoint o, ← parseRanges r)
  | _ => none

def parseSpRow (s : String) : Option (Nat × SatPoint) :=
  match s.splitOn "=" with
  | [a, b] => do some (← a.toNat?, ← parseSatPoint b)
  | _ => none

def renderFro (f : FindRangeOutput) : String := s!"{f.start}:{f.size}@{f.satpoint.render}"

def takeTokens : Nat → List String → Option (List String × List String)
  | 0, ts => some ([], ts)
  | _ + 1, [] => none
  | n + 1, t :: ts => do
    let (a, rest) ← takeTokens n ts
    some (t :: a, rest)

/-- `<txid> <nin> {<outpoint>} <nout> {<value>}` -/
def parseBTx : List String → Option (Bip.BTx × List String)
  | txid :: nin :: rest => do
    let (ins, rest) ← takeTokens (← nin.toNat?) rest
    match rest with
    | nout :: rest => do
      let (vals, rest) ← takeTokens (← nout.toNat?) rest
      some (⟨← parseHexNat txid, ← ins.mapM parseOutPoint, ← vals.mapM (·.toNat?)⟩, rest)
    | [] => none
  | _ => none

def parseBTxs : Nat → List String → Option (List Bip.BTx × List String)
  | 0, ts => some ([], ts)
  | n + 1, ts => do
    let (t, rest) ← parseBTx ts
    let (more, rest) ← parseBTxs n rest
    some (t :: more, rest)

/-- `{B <height> <ntx> tx…}` up to the `P` token; fuel = number of tokens -/
def parseBlocks : Nat → List String → Option (List OBlock × List String)
  | 0, _ => none
  | fuel + 1, ts =>
    match ts with
    | "B" :: h :: n :: rest => do
      let (txs, rest) ← parseBTxs (← n.toNat?) rest
      match txs with
      | cb :: others => do
        let (more, rest) ← parseBlocks fuel rest
        some (⟨← h.toNat?, cb, others⟩ :: more, rest)
      | [] => none
    | "P" :: rest => some ([], rest)
    | _ => none

def splitAt (sep : String) (ts : List String) : List String × List String :=
  (ts.takeWhile (· != sep), (ts.dropWhile (· != sep)).drop 1)

def parsePRows : Nat → List String → Option (List PRow)
  | _, [] => some []
  | 0, _ => none
  | fuel + 1, o :: v :: r :: rest => do
    let more ← parsePRows fuel rest
    some (⟨← parseOutPoint o, ← v.toNat?, ← parseRanges r⟩ :: more)
  | _, _ => none

def outcomeStr {α : Type} (f : α → String) : Outcome α → String
  | .ok a => f a
  | .err _ => "err"
  | .panic _ => "panic"

def handle (s : S) : List String → Option String
  | ["ix.dupcase", _] => some "ok"
  | ["ix.list", o] =>
    some (match parseOutPoint o with
      | none => "bad-op"
      | some op => match list s.cfg s.st op with
        | none => "none"
        | some rs => renderRanges rs)
  | ["ix.find", sat] =>
    some (match sat.toNat? with
      | none => "bad-op"
      | some n => outcomeStr (fun r => match r with | none => "none" | some sp => sp.render) (find s.st n))
  | ["ix.find_range", a, b] =>
    some (match a.toNat?, b.toNat? with
      | some a, some b =>
        outcomeStr (fun r => match r with
          | none => "none"
          | some hits => joinOr ((hits.mergeSort (fun x y => x.start ≤ y.start)).map renderFro) ",") (findRange s.st a b)
      | _, _ => "bad-op")
  | ["ix.rare"] =>
    some (joinOr (((rareSatSatpoints s.st).mergeSort (fun x y => x.1 ≤ y.1)).map (fun (n, sp) => s!"{n}@{sp.render}")) ",")
  | ["ix.rare_one", sat] =>
    some (match sat.toNat? with
      | none => "bad-op"
      | some n => match rareSatSatpoint s.st n with | none => "none" | some sp => sp.render)
  | "ix.oracle.fifo" :: ts =>
    some (match parseBlocks (ts.length + 1) ts with
      | none => "bad-op"
      | some (blocks, rest) =>
        let (p, n) := splitAt "N" rest
        match p.mapM parseRow, n.mapM parseRow with
        | some prev, some new => toString (fifoOracle blocks prev new)
        | _, _ => "bad-op")
  | "ix.oracle.partition" :: h :: "D" :: d :: "R" :: ts =>
    some (match h.toNat?, parseRanges d, parsePRows (ts.length + 1) ts with
      | some h, some d, some rows => toString (partitionOracle h rows d)
      | _, _, _ => "bad-op")
  | "ix.oracle.rare_complete" :: "R" :: ts =>
    some (let (r, sp) := splitAt "S" ts
      match r.mapM parseRow, sp.mapM parseSpRow with
      | some rows, some m => toString (rareComplete rows m)
      | _, _ => "bad-op")
  | "ix.oracle.rare_sound" :: "R" :: ts =>
    some (let (r, sp) := splitAt "S" ts
      match r.mapM parseRow, sp.mapM parseSpRow with
      | some rows, some m =>
        match rareUnsound rows m with
        | none => "true"
        | some (sat, sp, actual) =>
          s!"false stale-row sat={sat} reported={sp.render} actual={match actual with | some a => a.render | none => "nowhere"}"
      | _, _ => "bad-op")
  | _ => none

end Driver.IxSats
