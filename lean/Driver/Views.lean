import Driver.Index
import Driver.IndexRows
import OrdModel.Server.Views
import OrdModel.Server.Oracle
import OrdModel.Generated.ViewsFixes
/-
Driver extension of work stream "views" (C18): every explorer JSON route / recursive endpoint is
answered from the MODEL state the index driver has built from the block lines.

Queries (answer = canonical text of the view; `404` / `500` / `panic` for the other outcomes):
  v.ins <id|num|sat>:<query> <child|-> <node>     GET /inscription/<query>[/<child>]
  v.rins <id> <node>                              GET /r/inscription/<id>
  v.out <outpoint> <node>                         GET /output/<outpoint>
  v.utxo <outpoint>                               GET /r/utxo/<outpoint>
  v.children <id> <page>                          GET /children/<id>/<page>, /r/children/<id>/<page>
  v.rchildins <id> <page>                         GET /r/children/<id>/inscriptions/<page>
  v.rparents <id> <page>                          GET /r/parents/<id>/<page>
  v.rparentins <id> <page>                        GET /r/parents/<id>/inscriptions/<page>
  v.rsat <sat> <page>                             GET /r/sat/<sat>/<page>
  v.rsatat <sat> <index>                          GET /r/sat/<sat>/at/<index>
  v.insblock <height> <page>                      GET /inscriptions/block/<height>/<page>
  v.latest <page>                                 GET /inscriptions/<page>
  v.galleries <page>                              GET /galleries/<page>
  v.sat <sat> <node>                              GET /sat/<sat>
  v.block <height>                                GET /block/<height>
  v.rune <rune-number>                            GET /rune/<name>
  v.runeid <block:tx>   v.runenum <n>             get_rune_by_id / get_rune_by_number
  v.runes <page>                                  GET /runes/<page>
  v.address <script-hex>                          GET /address/<address>
  v.height     v.hash <height|->                  GET /r/blockheight, /r/blockhash[/<height>]
`<node>` = `-` (the node does not know the outpoint's transaction) or
`<value>,<script-hex>,<addressable 0|1>,<unspent 0|1>`.

Oracle lines (evaluated on the implementation's own rows / answers):
  v.oracle.same <a> <b>
  v.oracle.out <outpoint> <node> <impl view tokens…> || <impl dump rows>
  v.oracle.ins <id> <node> <impl view tokens…> || <impl dump rows>
  v.oracle.located <ids in the output view> <ids whose stored satpoint is in the output>
  v.oracle.pages <size> <full> <items/more> …
  v.oracle.signed <full> <i>:<answer> …
-/
namespace Driver.Views
open Ord Ord.Index Ord.Server Driver.Index

/-- the repairs present in the source (re-extracted on every run by tools/extractors/views_fixes.py) -/
def fx : Fixes := ⟨Generated.pageOverflowFixed, Generated.nullOutpointFixed⟩

def parseOutPoint (s : String) : Option OutPoint :=
  match s.splitOn ":" with
  | [t, v] => do some ⟨← parseHexNat t, ← v.toNat?⟩
  | _ => none

def parseSatPoint (s : String) : Option SatPoint :=
  match s.splitOn ":" with
  | [t, v, o] => do some ⟨⟨← parseHexNat t, ← v.toNat?⟩, ← o.toNat?⟩
  | _ => none

def parseId (s : String) : Option InscriptionId :=
  match s.splitOn "i" with
  | [t, i] => do some ⟨← parseHexNat t, ← i.toNat?⟩
  | _ => none

def parseInt (s : String) : Option Int :=
  if s.startsWith "-" then (s.drop 1).toString.toNat?.map (fun n => -(n : Int)) else s.toNat?.map (fun n => (n : Int))

def parseNode (s : String) : Option (Option NodeOut) :=
  if s == "-" then some none else
  match s.splitOn "," with
  | [v, sc, a, u] => do some (some ⟨← v.toNat?, ← parseHex sc, a == "1", u == "1"⟩)
  | _ => none

/-! ### rendering -/

def optS {α : Type} (f : α → String) : Option α → String
  | some a => f a
  | none => "-"

def ids (l : List InscriptionId) : String := joinOr (l.map (·.render)) ","

def optList {α : Type} (f : List α → String) : Option (List α) → String
  | none => "none"
  | some l => f l

def spaced (s : Spaced) : String := s!"{s.1}.{s.2}"

def pile (p : Pile) : String := s!"{spaced p.spaced}.{p.amount}.{p.divisibility}.{optNat p.symbol}"

def piles (l : List Pile) : String := joinOr (l.map pile) ","

def ranges (l : List (Nat × Nat)) : String := joinOr (l.map (fun (a, b) => s!"{a}-{b}")) ","

def resp {α : Type} (f : α → String) : Resp α → String
  | .ok a => s!"ok {f a}"
  | .notFound => "404"
  | .internal => "500"
  | .panic _ => "panic"

def insView (v : InsView) : String :=
  s!"id={v.id.render} number={v.number} height={v.height} fee={v.fee} sat={optNat v.sat} satpoint={v.satpoint.render} ts={v.timestamp} charms={v.charms} value={optNat v.value} addr={optS bytesHex v.address} parents={ids v.parents} children={ids v.children} child_count={v.childCount} next={optS (·.render) v.next} prev={optS (·.render) v.previous} rune={optS spaced v.rune}"

def rInsView (v : RInsView) : String :=
  s!"id={v.id.render} number={v.number} height={v.height} fee={v.fee} sat={optNat v.sat} satpoint={v.satpoint.render} output={v.satpoint.outpoint.render} ts={v.timestamp} charms={v.charms} value={optNat v.value} addr={optS bytesHex v.address}"

def relView (v : RelView) : String :=
  s!"{v.id.render}/{v.number}/{v.height}/{v.fee}/{optNat v.sat}/{v.satpoint.render}/{v.satpoint.outpoint.render}/{v.timestamp}/{v.charms}"

def outView (v : OutView) : String :=
  s!"indexed={v.indexed} ins={optList ids v.inscriptions} runes={optList piles v.runes} ranges={optList ranges v.satRanges} spent={v.spent} value={v.value} script={bytesHex v.script} addr={v.hasAddress}"

def utxoView (v : UtxoView) : String :=
  s!"ins={optList ids v.inscriptions} runes={optList piles v.runes} ranges={optList ranges v.satRanges} value={v.value}"

def page {α : Type} (f : List α → String) (p : Page α) : String :=
  s!"items={f p.items} more={p.more} page={p.page}"

def satView (v : SatView) : String :=
  s!"ins={ids v.inscriptions} satpoint={optS (·.render) v.satpoint} addr={optS bytesHex v.address} charms={v.charms}"

def blockView (v : BlockView) : String :=
  s!"best={v.bestHeight} hash={txidHex v.hash} height={v.height} ins={ids v.inscriptions} runes={joinOr (v.runes.map spaced) ","}"

def runeView (v : RuneView) : String :=
  s!"{renderRune v.id v.entry} mintable={v.mintable} parent={optS (·.render) v.parent}"

def addressView (v : AddressView) : String :=
  let r := optList (fun l => joinOr (l.map (fun (s, a, d, sy) => s!"{spaced s}.{a}.{d}.{optNat sy}")) ",") v.runes
  s!"outs={joinOr (v.outputs.map (·.render)) ","} ins={optList ids v.inscriptions} sat={v.satBalance} runes={r}"

/-! ### the implementation's rows as a `State` (for the oracle lines) -/

def parsePair (sep : String) (s : String) : Option (Nat × Nat) :=
  match s.splitOn sep with
  | [a, b] => do some (← a.toNat?, ← b.toNat?)
  | _ => none

def utxoOfRow (r : List String) : Option (OutPoint × UtxoEntry) :=
  match r with
  | o :: _ => do
    let op ← parseOutPoint o
    let value ← Rows.fieldNat "value" r
    let rs ← match Rows.field "ranges" r with
      | none => some []
      | some s => (Rows.commaList s).mapM (parsePair "-")
    let ins ← match Rows.field "ins" r with
      | none => some []
      | some s => (Rows.commaList s).mapM (parsePair "@")
    let script ← match Rows.field "script" r with
      | none => some []
      | some s => parseHex s
    some (op, ⟨value, rs, script, ins⟩)
  | [] => none

def entryOfRow (r : List String) : Option InsEntry := do
  let charms ← Rows.fieldNat "charms" r
  let seq ← Rows.fieldNat "seq" r
  let id ← (Rows.field "id" r).bind parseId
  let sat ← (Rows.field "sat" r).bind optNat?
  let number ← (Rows.field "number" r).bind parseInt
  let fee ← Rows.fieldNat "fee" r
  let height ← Rows.fieldNat "height" r
  let ts ← Rows.fieldNat "timestamp" r
  let parents ← (Rows.field "parents" r).bind (fun s => (Rows.commaList s).mapM (·.toNat?))
  some { charms, fee, height, hidden := false, id, number, parents, sat, seq, timestamp := ts }

/-- entries placed at their sequence number; positions without a row hold a placeholder -/
def placeEntries (es : List InsEntry) : List InsEntry :=
  let n := es.foldl (fun m e => max m (e.seq + 1)) 0
  (List.range n).map (fun i => (es.find? (·.seq == i)).getD { (default : InsEntry) with seq := i })

def parseRuneIdS (s : String) : Option RuneId := parseRuneId s

def termsOfS (s : String) : Option (Option Terms) :=
  if s == "-" then some none else
  match s.splitOn "/" with
  | [a, c, h, o] =>
    match a.splitOn ":", c.splitOn ":", h.splitOn ":", o.splitOn ":" with
    | [_, a], [_, c], [_, hs, he], [_, os, oe] => do
      some (some ⟨← optNat? a, ← optNat? c, ← optNat? hs, ← optNat? he, ← optNat? os, ← optNat? oe⟩)
    | _, _, _, _ => none
  | _ => none

def runeOfRow (r : List String) : Option (RuneId × RuneEntry) :=
  match r with
  | k :: _ => do
    let id ← parseRuneId k
    some (id, { block := ← Rows.fieldNat "block" r, burned := ← Rows.fieldNat "burned" r,
                divisibility := ← Rows.fieldNat "divisibility" r,
                etching := ← (Rows.field "etching" r).bind parseHexNat,
                mints := ← Rows.fieldNat "mints" r, number := ← Rows.fieldNat "number" r,
                premine := ← Rows.fieldNat "premine" r, rune := ← Rows.fieldNat "rune" r,
                spacers := ← Rows.fieldNat "spacers" r, symbol := ← (Rows.field "symbol" r).bind optNat?,
                terms := ← (Rows.field "terms" r).bind termsOfS,
                timestamp := ← Rows.fieldNat "timestamp" r, turbo := (Rows.field "turbo" r) == some "true" })
  | [] => none

def balancesOfRow (r : List String) : Option (OutPoint × List (RuneId × Nat)) :=
  match r with
  | [o, bs] => do
    let op ← parseOutPoint o
    let l ← (Rows.commaList bs).mapM (fun b => match b.splitOn "=" with
      | [id, a] => do some (← parseRuneId id, ← a.toNat?)
      | _ => none)
    some (op, l)
  | _ => none

def multiOfRow (r : List String) : Option (List (Nat × Nat)) :=
  match r with
  | [k, vs] => do
    let k ← k.toNat?
    (Rows.commaList vs).mapM (fun v => v.toNat?.map (fun v => (k, v)))
  | _ => none

/-- the tables the views read, from the implementation's dump rows -/
def stateOfRows (rs : List (List String)) : Option State := do
  let utxo ← (Rows.withHead "utxo" rs).mapM utxoOfRow
  let entries ← (Rows.withHead "entry" rs).mapM entryOfRow
  let id2seq ← (Rows.withHead "id2seq" rs).mapM (fun r => match r with
    | [i, s] => do some (← parseId i, ← s.toNat?) | _ => none)
  let num2seq ← (Rows.withHead "num2seq" rs).mapM (fun r => match r with
    | [n, s] => do some (← parseInt n, ← s.toNat?) | _ => none)
  let seq2sp ← (Rows.withHead "seq2satpoint" rs).mapM (fun r => match r with
    | [s, sp] => do some (← s.toNat?, ← parseSatPoint sp) | _ => none)
  let children ← (Rows.withHead "children" rs).mapM multiOfRow
  let sat2seq ← (Rows.withHead "sat2seq" rs).mapM multiOfRow
  let seq2rune ← (Rows.withHead "seq2runeid" rs).mapM (fun r => match r with
    | [s, id] => do some (← s.toNat?, ← parseRuneId id) | _ => none)
  let runes ← (Rows.withHead "rune" rs).mapM runeOfRow
  let balances ← (Rows.withHead "balances" rs).mapM balancesOfRow
  some { utxo, entries := placeEntries entries, id2seq, num2seq, seq2sp, children := children.flatten,
         sat2seq := sat2seq.flatten, seq2rune, runeEntries := runes, balances }

/-- split the tokens of an oracle line at `||` -/
def splitBar (ts : List String) : List String × List String :=
  (ts.takeWhile (· ≠ "||"), (ts.dropWhile (· ≠ "||")).drop 1)

def idList (s : String) : Option (List InscriptionId) := (Rows.commaList s).mapM parseId

def parsePageTok (s : String) : Option (List String × Bool) :=
  match s.splitOn "/" with
  | [items, more] => some (Rows.commaList items, more == "true")
  | _ => none

/-! ### handlers -/

def natOr (s : String) : Option Nat := s.toNat?

def handle (s : S) (ts : List String) : Option String :=
  let st := s.st
  let cfg := s.cfg
  match ts with
  | ["v.ins", q, child, node] => do
    let query ← match q.splitOn ":" with
      | ["id", i] => (parseId i).map InsQuery.id
      | ["num", n] => (parseInt n).map InsQuery.number
      | ["sat", n] => n.toNat?.map InsQuery.sat
      | _ => none
    let child ← optNat? child
    let node ← parseNode node
    some (resp insView (inscriptionInfo st query child node))
  | ["v.rins", i, node] => do
    some (resp rInsView (rInscription fx st (← parseId i) (← parseNode node)))
  | ["v.out", o, node] => do
    some (resp outView (outputView cfg st (← parseOutPoint o) (← parseNode node)))
  | ["v.utxo", o] => do some (resp utxoView (Server.utxoView cfg st (← parseOutPoint o)))
  | ["v.children", i, p] => do some (resp (page ids) (childrenPage fx st (← parseId i) (← p.toNat?)))
  | ["v.rparents", i, p] => do some (resp (page ids) (parentsPage fx st (← parseId i) (← p.toNat?)))
  | ["v.rchildins", i, p] => do
    some (resp (page (fun l => joinOr (l.map relView) ",")) (childInscriptionsPage fx st (← parseId i) (← p.toNat?)))
  | ["v.rparentins", i, p] => do
    some (resp (page (fun l => joinOr (l.map relView) ",")) (parentInscriptionsPage fx st (← parseId i) (← p.toNat?)))
  | ["v.rsat", n, p] => do some (resp (page ids) (satPage cfg st (← n.toNat?) (← p.toNat?)))
  | ["v.rsatat", n, i] => do some (resp (optS (·.render)) (satAt cfg st (← n.toNat?) (← parseInt i)))
  | ["v.insblock", h, p] => do some (resp (page ids) (inBlockPage st (← h.toNat?) (← p.toNat?)))
  | ["v.latest", p] => do some (resp (page ids) (latestPage st (← p.toNat?)))
  | ["v.galleries", p] => do some (resp (page ids) (galleriesPage st (← p.toNat?)))
  | ["v.sat", n, node] => do some (resp satView (Server.satView fx st (← n.toNat?) (← parseNode node)))
  | ["v.block", h] => do some (resp blockView (Server.blockView st (← h.toNat?)))
  | ["v.rune", r] => do some (resp runeView (Server.runeView cfg st (← r.toNat?)))
  | ["v.runeid", i] => do some (optNat (runeOfId st (← parseRuneId i)))
  | ["v.runenum", n] => do some (optNat (runeOfNumber st (← n.toNat?)))
  | ["v.runes", p] => do
    let pg := runesPage st (← p.toNat?)
    some s!"ok items={joinOr (pg.items.map (·.render)) ","} more={pg.more} page={pg.page}"
  | ["v.address", sc] => do some (resp addressView (Server.addressView cfg st (← parseHex sc)))
  | ["v.height"] => some (optNat (blockHeight st))
  | ["v.hash", h] => do some (optS txidHex (blockHash st (← optNat? h)))
  -- oracle lines
  | ["v.oracle.same", a, b] => some (toString (a == b))
  | "v.oracle.out" :: o :: node :: rest => do
    let (view, rows) := splitBar rest
    let st' ← stateOfRows (Rows.rows rows)
    some (toString (resp outView (outputView cfg st' (← parseOutPoint o) (← parseNode node)) == " ".intercalate view))
  | "v.oracle.ins" :: i :: node :: rest => do
    let (view, rows) := splitBar rest
    let st' ← stateOfRows (Rows.rows rows)
    some (toString (resp insView (inscriptionInfo st' (.id (← parseId i)) none (← parseNode node)) == " ".intercalate view))
  | ["v.oracle.located", a, b] => do
    some (toString (locatedOk (← idList a) (← idList b)))
  | "v.oracle.pages" :: size :: full :: pages => do
    some (toString (pagesOk (← size.toNat?) (Rows.commaList full) (← pages.mapM parsePageTok)))
  | "v.oracle.signed" :: full :: answers => do
    let l := Rows.commaList full
    let as ← answers.mapM (fun a => match a.splitOn ":" with
      | [i, x] => do some (← parseInt i, if x == "-" then none else some x)
      | _ => none)
    some (toString (signedOk l as))
  | ["v.oracle.served", _, _, _, status] => some (toString (status == "200"))
  | ["v.oracle.beyond", _, len, pg, answer] => do
    -- a page at or beyond the end of a listing of `len` items answers an empty page
    let len ← len.toNat?
    let pg ← pg.toNat?
    some (toString (decide (pg * PAGE < len) || answer == "200:0:false"))
  | "v.oracle.inblock" :: marks :: rest => do
    -- marks: h:lastseq,…   rest: n (number of entries) then h=ids…
    let ms ← (Rows.commaList marks).mapM (parsePair ":")
    match rest with
    | n :: answers => do
      let n ← n.toNat?
      let as ← answers.mapM (fun a => match a.splitOn "=" with
        | [h, l] => do some (← h.toNat?, ← (Rows.commaList l).mapM (·.toNat?))
        | _ => none)
      some (toString (inBlockOk ms n as))
    | [] => none
  | _ => none

end Driver.Views
