import Driver.Common
import OrdModel.Num.RuneName
import OrdModel.Num.SpacedRune
import OrdModel.Num.Unlock
import OrdModel.Num.RuneId
/- Line handlers for the rune engine (`eng_rune`): streams `name` (C32), `unlock` (C33),
`runeparse` (rune part of C31).  `none` = not one of ours. -/
namespace Driver.Rune
open Ord

/-- text → hex of its UTF-8 bytes -/
def hexOfChars (cs : List Char) : String := toHex (String.ofList cs).toUTF8.toList

def textArg (h : String) : Option (List Char) := (parseHexText h).map (·.toList)

def renderNat : Outcome Nat → String := Outcome.render toString
def renderPair : Outcome (Nat × Nat) → String := Outcome.render fun (a, b) => s!"{a} {b}"

/-- implementation answers inside oracle lines: spaces replaced by ':' -/
def parseOutcomeNat (s : String) : Option (Outcome Nat) :=
  match s.splitOn ":" with
  | ["ok", v] => do some (.ok (← v.toNat?))
  | "err" :: rest => some (.err (" ".intercalate rest))
  | "panic" :: rest => some (.panic (" ".intercalate rest))
  | _ => none

def parseOutcomePair (s : String) : Option (Outcome (Nat × Nat)) :=
  match s.splitOn ":" with
  | ["ok", a, b] => do some (.ok (← a.toNat?, ← b.toNat?))
  | "err" :: rest => some (.err (" ".intercalate rest))
  | "panic" :: rest => some (.panic (" ".intercalate rest))
  | _ => none

def optNat (s : String) : Option (Option Nat) :=
  if s == "-" then some none else s.toNat?.map some

def bool? : String → Option Bool
  | "true" => some true | "false" => some false | _ => none

def u128? (s : String) : Option Nat := do
  let n ← s.toNat?
  if n < 2 ^ 128 then some n else none

def u32? (s : String) : Option Nat := do
  let n ← s.toNat?
  if n < 2 ^ 32 then some n else none

def u64? (s : String) : Option Nat := do
  let n ← s.toNat?
  if n < 2 ^ 64 then some n else none

def handleName : List String → Option String
  | ["rune.print", n] => do
    let n ← u128? n
    some (String.ofList (Rune.print n))
  | ["rune.parse", h] => do
    let s ← textArg h
    some (renderNat (Rune.parse s))
  | ["rune.commit", n] => do
    let n ← u128? n
    some (toHex (Rune.commitment n))
  | ["rune.isreserved", n] => do
    let n ← u128? n
    some (toString (Rune.isReserved n))
  | ["rune.reserved", b, t] => do
    let b ← u64? b
    let t ← u32? t
    some (renderNat (Rune.reserved b t))
  | ["rune.const", "RESERVED"] => some (toString Rune.RESERVED)
  | ["spaced.print", n, sp] => do
    let n ← u128? n
    let sp ← u32? sp
    some (hexOfChars (SpacedRune.print n sp))
  | ["spaced.parse", h] => do
    let s ← textArg h
    some (renderPair (SpacedRune.parse s))
  -- property predicates on the implementation's own outputs
  | ["rune.oracle.rt", n, name, back] => do
    let n ← u128? n
    let back ← parseOutcomeNat back
    some (toString (Rune.checkRoundTrip n name.toList back))
  | ["rune.oracle.strrt", h, v, printed] => do
    let s ← textArg h
    let v ← u128? v
    some (toString (Rune.checkStringRoundTrip s v printed.toList))
  | ["rune.oracle.commit", n, h] => do
    let n ← u128? n
    let bs ← parseHex h
    some (toString (Rune.checkCommitment n bs))
  | ["rune.oracle.reserved", n, r] => do
    let n ← u128? n
    let r ← bool? r
    some (toString (Rune.checkReserved n r))
  | ["spaced.oracle.strrt", h, n, sp, printed] => do
    let s ← textArg h
    let n ← u128? n
    let sp ← u32? sp
    let printed ← textArg printed
    some (toString (SpacedRune.checkStringRoundTrip s n sp printed))
  | ["spaced.oracle.rt", n, sp, printed, back] => do
    let n ← u128? n
    let sp ← u32? sp
    let printed ← textArg printed
    let back ← parseOutcomePair back
    some (toString (SpacedRune.checkRoundTrip n sp printed back))
  | _ => none

def handleUnlock : List String → Option String
  | ["unlock.first", net] => do
    let net ← Unlock.Network.ofString? net
    some (toString (Unlock.firstRuneHeight net))
  | ["unlock.min", net, h] => do
    let net ← Unlock.Network.ofString? net
    let h ← u32? h
    some (toString (Unlock.minimumAtHeight net h))
  | ["unlock.height", net, r] => do
    let net ← Unlock.Network.ofString? net
    let r ← u128? r
    some (match Unlock.unlockHeight r net with | none => "none" | some h => s!"some {h}")
  | ["unlock.step", k] => do
    let k ← k.toNat?
    if k ≤ 12 then some (toString (Unlock.STEPS.getD k 0)) else none
  | ["unlock.oracle.mono", _net, _h, m0, m1] => do
    let m0 ← u128? m0
    let m1 ← u128? m1
    some (toString (Unlock.checkMono m0 m1))
  | ["unlock.oracle.least", _net, r, hgt, mAt, mBefore] => do
    let r ← u128? r
    let hgt ← optNat hgt
    let mAt ← optNat mAt
    let mBefore ← optNat mBefore
    some (toString (Unlock.checkLeast r hgt mAt mBefore))
  | ["unlock.oracle.ends", _net, mFirst, mLast] => do
    let a ← u128? mFirst
    let b ← u128? mLast
    some (toString (Unlock.checkEnds a b))
  | _ => none

def handleParse : List String → Option String
  | ["runeparse.rune", h] => do
    let s ← textArg h
    some (renderNat (Rune.parse s))
  | ["runeparse.spaced", h] => do
    let s ← textArg h
    some (renderPair (SpacedRune.parse s))
  | ["runeparse.id", h] => do
    let s ← textArg h
    some (renderPair (RuneId.parse s))
  | ["runeparse.oracle.rune", h, ans] => do
    let s ← textArg h
    let a ← parseOutcomeNat ans
    some (toString (Rune.checkAnswer s a))
  | ["runeparse.oracle.spaced", h, ans] => do
    let s ← textArg h
    let a ← parseOutcomePair ans
    some (toString (SpacedRune.checkAnswer s a))
  | ["runeparse.oracle.id", h, ans] => do
    let s ← textArg h
    let a ← parseOutcomePair ans
    some (toString (RuneId.checkAnswer s a))
  | _ => none

def handle (ts : List String) : Option String :=
  match ts with
  | op :: _ =>
    if op.startsWith "rune." || op.startsWith "spaced." then handleName ts
    else if op.startsWith "unlock." then handleUnlock ts
    else if op.startsWith "runeparse." then handleParse ts
    else none
  | [] => none

end Driver.Rune
