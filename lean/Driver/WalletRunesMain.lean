import Driver.WalletRunes
def main : IO Unit :=
  Driver.runPure fun ts => (Driver.WalletRunes.handle ts).getD "bad-op"
