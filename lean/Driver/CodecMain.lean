import Driver.Codec
def main : IO Unit :=
  Driver.runPure fun ts => (Driver.Codec.handle ts).getD "bad-op"
