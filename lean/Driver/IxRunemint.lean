import Driver.Index
import Driver.IndexRows
import OrdModel.Index.OracleRunemint
/-
Driver handlers of the `runemint` group (C10, C11).
  ix.runes                                  → "b:t,name,number,mints;…"
  ix.rune <name>                            → "b:t number=N etching=<txid> parent=0|1" | "none"
  ix.runebyid <b:t>                         → name | "none"
  ix.etching <txid>                         → "name:spacers" | "none"
  ix.mintable <b:t> <height>                → "ok:<amount>" | "unmintable" | "start:s" | "end:e" | "cap:c" | "none"
  ix.oracle.mintcap <rune rows>             → Bool
  ix.oracle.mintwindow <h> <attempts> ## <prev rune rows> ## <cur rune rows>
  ix.oracle.etching <h> <minimum> <count> ## <names> ## <etching txs> ## <new rune rows>
  ix.oracle.runenumbers <h> <rune | rune2id | txid2rune | statistic Runes rows>
-/
namespace Driver.IxRunemint
open Ord Ord.Index Ord.Index.Runemint Driver.Index Driver.Rows

def optTok (s : String) : Option (Option Nat) := if s == "-" then some none else s.toNat?.map some

/-- "amount:A/cap:C/height:a:b/offset:c:d" | "-" -/
def parseTermsRow (s : String) : Option (Option Terms) :=
  if s == "-" then some none else
  match s.splitOn "/" with
  | [a, c, h, o] =>
    match a.splitOn ":", c.splitOn ":", h.splitOn ":", o.splitOn ":" with
    | ["amount", a], ["cap", c], ["height", hs, he], ["offset", os, oe] => do
      some (some ⟨← optTok a, ← optTok c, ← optTok hs, ← optTok he, ← optTok os, ← optTok oe⟩)
    | _, _, _, _ => none
  | _ => none

/-- a `rune …` dump row without its head token -/
def parseRuneRow (r : List String) : Option (RuneId × RuneEntry) :=
  match r with
  | id :: rest => do
    let id ← parseRuneId id
    let terms ← parseTermsRow (← field "terms" rest)
    let sym ← optTok (← field "symbol" rest)
    some (id, {
      block := ← fieldNat "block" rest, burned := ← fieldNat "burned" rest,
      divisibility := ← fieldNat "divisibility" rest, etching := ← parseHexNat (← field "etching" rest),
      mints := ← fieldNat "mints" rest, number := ← fieldNat "number" rest, premine := ← fieldNat "premine" rest,
      rune := ← fieldNat "rune" rest, spacers := ← fieldNat "spacers" rest, symbol := sym, terms := terms,
      timestamp := ← fieldNat "timestamp" rest, turbo := (← field "turbo" rest) == "true" })
  | [] => none

def parseRuneRows (rs : List (List String)) : Option (List (RuneId × RuneEntry)) :=
  (withHead "rune" rs).mapM parseRuneRow

/-- split a token list at every "##" -/
def splitSections (ts : List String) : List (List String) :=
  let rec go : List String → List String → List (List String) → List (List String)
    | [], cur, acc => (cur.reverse :: acc).reverse
    | t :: rest, cur, acc => if t == "##" then go rest [] (cur.reverse :: acc) else go rest (t :: cur) acc
  go ts [] []

def sortById {α : Type} (l : List (RuneId × α)) : List (RuneId × α) :=
  l.mergeSort (fun a b => a.1.lt b.1 || a.1 == b.1)

def parseAttempts (s : String) : Option (List (Nat × RuneId)) :=
  (commaList s).mapM (fun a => match a.splitOn ":" with
    | [t, b, x] => do some (← t.toNat?, ⟨← b.toNat?, ← x.toNat?⟩)
    | _ => none)

def parseInFacts (s : String) : Option (List InFacts) :=
  if s == "-" then some [] else
  (s.splitOn "/").mapM (fun i => match i.splitOn "," with
    | [tap, conf, pushes] => do
      let ps ← if pushes == "-" then some [] else (pushes.splitOn ".").mapM parsePush
      some ⟨tap == "1", ← optTok conf, ps⟩
    | _ => none)

def parseEtchTx (r : List String) : Option EtchTx := do
  some ⟨← fieldNat "t" r, ← parseHexNat (← field "txid" r), (← field "kind" r) == "C", ← optTok (← field "name" r),
        ← field "terms" r, ← parseInFacts (← field "ins" r)⟩

def newRowOf (x : RuneId × RuneEntry) (termsText : String) : NewRow :=
  ⟨x.1, x.2.rune, x.2.etching, x.2.number, x.2.block, termsText⟩

def boolStr (b : Option Bool) : String := match b with | some b => toString b | none => "bad-rows"

def handle (s : S) : List String → Option String
  | ["ix.runes"] =>
    some (joinOr ((sortById s.st.runeEntries).map (fun (id, e) => s!"{id.render},{e.rune},{e.number},{e.mints}")) ";")
  | ["ix.rune", n] => do
    let n ← n.toNat?
    match AL.get s.st.rune2id n with
    | none => some "none"
    | some id =>
      match AL.get s.st.runeEntries id with
      | none => some "panic:unwrap"
      | some e =>
        let parent := (AL.get s.st.id2seq ⟨e.etching, 0⟩).isSome
        some s!"{id.render} number={e.number} etching={txidHex e.etching} parent={if parent then 1 else 0}"
  | ["ix.runebyid", id] => do
    let id ← parseRuneId id
    some (match AL.get s.st.runeEntries id with | some e => toString e.rune | none => "none")
  | ["ix.etching", txid] => do
    let t ← parseHexNat txid
    match AL.get s.st.txid2rune t with
    | none => some "none"
    | some r =>
      match (AL.get s.st.rune2id r).bind (AL.get s.st.runeEntries) with
      | none => some "panic:unwrap"
      | some e => some s!"{e.rune}:{e.spacers}"
  | ["ix.mintable", id, h] => do
    let id ← parseRuneId id
    let h ← h.toNat?
    some (match AL.get s.st.runeEntries id with
      | some e => renderMintable (mintableE e h)
      | none => "none")
  | "ix.oracle.mintcap" :: ts => some (boolStr (do
      let rows ← parseRuneRows (rows ts)
      some (mintCapOk rows)))
  | "ix.oracle.mintwindow" :: h :: att :: "##" :: ts => some (boolStr (do
      match splitSections ts with
      | [prev, cur] =>
        let prev ← parseRuneRows (rows prev)
        let cur ← parseRuneRows (rows cur)
        some (mintWindowOk (← h.toNat?) (← parseAttempts att) prev cur)
      | _ => none))
  | "ix.oracle.etching" :: h :: minimum :: count :: "##" :: ts => some (boolStr (do
      match splitSections ts with
      | [[names], etx, newRows] =>
        let taken ← (commaList names).mapM (·.toNat?)
        let etx ← (rows etx).mapM parseEtchTx
        let raw := withHead "rune" (rows newRows)
        let parsed ← raw.mapM parseRuneRow
        let texts ← raw.mapM (fun r => field "terms" r)
        let news := (parsed.zip texts).map (fun (x, t) => newRowOf x t)
        some (etchingOk (← h.toNat?) (← minimum.toNat?) (← count.toNat?) taken etx
          (news.mergeSort (fun a b => a.id.lt b.id || a.id == b.id)))
      | _ => none))
  | "ix.oracle.runenumbers" :: h :: ts => some (boolStr (do
      let rs := rows ts
      let runes ← parseRuneRows rs
      let r2i ← (withHead "rune2id" rs).mapM (fun r => match r with
        | [n, id] => do some (← n.toNat?, ← parseRuneId id)
        | _ => none)
      let t2r ← (withHead "txid2rune" rs).mapM (fun r => match r with
        | [t, n] => do some (← parseHexNat t, ← n.toNat?)
        | _ => none)
      let stat := ((withHead "statistic" rs).findSome? (fun r => match r with
        | ["Runes", n] => n.toNat?
        | _ => none)).getD 0
      some (runeNumbersOk (← h.toNat?) (sortById runes) r2i t2r stat)))
  | _ => none

end Driver.IxRunemint
