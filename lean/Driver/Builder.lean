import Driver.Common
import OrdModel.Wallet.Builder
import OrdModel.Wallet.BuilderCond
import OrdModel.Generated.BuilderFixes
/- Line handlers for the builder engine (property C20).  Stateful: `builder.fee` lines announce
the dense table `fee(0..N)` of one fee rate (keyed by the rate's f64 bits); `builder.build`
lines refer to it. -/
namespace Driver.Builder
open Ord Ord.Builder

/-- the repairs present in the source (regenerated from /repo on every run) -/
def fixes : Fixes := { subOverflow := Generated.subOverflowFixed, zeroBurn := Generated.zeroBurnFixed }

structure State where
  tables : List (String × Array Nat) := []

def splitC (s : String) : List String := if s == "-" then [] else s.splitOn ","

def parseNats (s : String) : Option (List Nat) := (splitC s).mapM String.toNat?

/-- run-length table: items `v` or `v*k` -/
def parseTable (s : String) : Option (Array Nat) := do
  let mut acc : Array Nat := #[]
  for item in splitC s do
    match item.splitOn "*" with
    | [v] => acc := acc.push (← v.toNat?)
    | [v, k] =>
      let v ← v.toNat?
      let k ← k.toNat?
      acc := acc ++ Array.replicate k v
    | _ => none
  return acc

def monotone (t : Array Nat) : Bool := Id.run do
  let mut ok := true
  for i in [1:t.size] do
    if t[i]! < t[i-1]! then ok := false
  return ok

/-- `id:len:dust:opret:addr` -/
def parseScript (s : String) : Option (Script × Nat) :=
  match s.splitOn ":" with
  | i :: l :: d :: o :: a :: _ => do
    some ({ id := ← i.toNat?, len := ← l.toNat?, opReturn := o == "1", addr := a == "1" }, ← d.toNat?)
  | _ => none

def parseTarget (s : String) : Option Target :=
  if s == "P" then some .postage
  else if s.startsWith "V" then (s.drop 1).toNat?.map .value
  else if s.startsWith "E" then (s.drop 1).toNat?.map .exact
  else none

def parsePair (s : String) : Option (Nat × Nat) :=
  match s.splitOn ":" with
  | a :: b :: _ => do some (← a.toNat?, ← b.toNat?)
  | _ => none

def parsePairs (s : String) : Option (List (Nat × Nat)) := (splitC s).mapM parsePair

structure Case where
  w : Wallet
  r : Request
  dust : Script → Nat

def parseCase (rcp c0 c1 tgt out am ins lk ru : String) : Option Case := do
  let (rs, rd) ← parseScript rcp
  let (s0, d0) ← parseScript c0
  let (s1, d1) ← parseScript c1
  let table := [(rs.id, rd), (s0.id, d0), (s1.id, d1)]
  let dust := fun (s : Script) => match table.lookup s.id with | some d => d | none => 0
  let w : Wallet := { amounts := ← parsePairs am, inscriptions := ← parsePairs ins,
                      locked := ← parseNats lk, runic := ← parseNats ru }
  let r : Request := { outgoing := ← parsePair out, recipient := rs, change0 := s0, change1 := s1,
                       target := ← parseTarget tgt }
  some { w, r, dust }

def siteClass (s : String) : String := (s.splitOn "@").head!

def renderOuts (outs : List TxOut) : String :=
  if outs.isEmpty then "-" else ",".intercalate (outs.map fun o => s!"{o.1.id}:{o.2}")

def renderIns (ins : List Nat) : String :=
  if ins.isEmpty then "-" else ",".intercalate (ins.map toString)

def renderOutcome (sep : String) : Outcome Tx → String
  | .ok tx => s!"ok{sep}{renderIns tx.inputs}{sep}{renderOuts tx.outputs}"
  | .err e => s!"err{sep}{e}"
  | .panic s => s!"panic{sep}{siteClass s}"

/-- scripts of a rendered transaction are looked up by id among recipient / change -/
def parseTxOuts (c : Case) (s : String) : Option (List TxOut) :=
  (splitC s).mapM fun item =>
    match item.splitOn ":" with
    | [i, v] => do
      let v ← v.toNat?
      match i.toNat? with
      | some i =>
        let sc := [c.r.recipient, c.r.change0, c.r.change1].find? (·.id == i)
        some (sc.getD { id := i, len := 0, opReturn := false, addr := false }, v)
      | none => some ({ id := 1000000, len := 0, opReturn := false, addr := false }, v)
    | _ => none

/-- upper bound on any vsize the builder can ask a fee for -/
def maxVsize (c : Case) : Nat :=
  vsize (c.w.amounts.length + 1)
    [(c.r.recipient, 0), (c.r.change0, 0), (c.r.change1, 0)] + ADDITIONAL_OUTPUT_VBYTES + 64

def failed (xs : List (String × Bool)) : String :=
  let bad := xs.filter (!·.2)
  if bad.isEmpty then "true" else "false:" ++ ",".intercalate (bad.map (·.1))

/-- Bool rendering of hypothesis `WF` of `c20_no_panic_partial` -/
def wfBool (env : Env) (w : Wallet) (r : Request) : Bool :=
  (env.fixes.subOverflow || (match w.amounts.lookup r.outgoing.1 with | some v => v != 0 | none => true))
  && w.amounts.all (fun kv => decide (kv.2 < U64) && decide (env.dust r.change0 + kv.2 < U64))
  && w.inscriptions.all (fun sp => decide (sp.2 + env.dust r.change1 < U64))
  && decide (w.amounts.map (·.1)).Nodup && decide (walletTotal w < U64)
  && !r.change0.opReturn && !r.change1.opReturn

/-- Bool rendering of hypothesis `Funded`: the nine `Cond` fields on the state after `add_value` -/
def fundedBool (env : Env) (w : Wallet) (r : Request) : Bool :=
  match stages1234 env w r with
  | .ok s4 =>
    match s4.outputs.getLast?, s4.unused with
    | some (sc, R), c :: _ =>
      if sc = r.recipient then (condBits env r s4.inputs.length s4.outputs.dropLast R c).all id else true
    | _, _ => true
  | _ => true

def handle (st : State) : List String → State × Option String
  | ["builder.fee", bits, table] =>
    match parseTable table with
    | some t =>
      if monotone t && t.all (· < U64) then
        ({ tables := (bits, t) :: st.tables.filter (·.1 != bits) }, some s!"ok {t.size}")
      else (st, some "not-monotone")
    | none => (st, some "bad-op")
  | ["builder.build", bits, rcp, c0, c1, tgt, out, am, ins, lk, ru] =>
    match st.tables.lookup bits, parseCase rcp c0 c1 tgt out am ins lk ru with
    | some t, some c =>
      if maxVsize c < t.size then
        let env : Env := { fee := fun n => t[n]!, dust := c.dust, fixes := fixes }
        (st, some (renderOutcome " " (build env c.w c.r)))
      else (st, some "bad-op fee-table-too-short")
    | none, _ => (st, some "bad-op no-fee-table")
    | _, none => (st, some "bad-op")
  -- hypotheses of `c20_no_panic_partial` against the implementation's outcome:
  -- a panic must violate `WF ∧ Funded`; a returned transaction must satisfy `Funded`
  | ["builder.oracle.partial", bits, rcp, c0, c1, tgt, out, am, ins, lk, ru, outcome] =>
    match st.tables.lookup bits, parseCase rcp c0 c1 tgt out am ins lk ru with
    | some t, some c =>
      if maxVsize c < t.size then
        let env : Env := { fee := fun n => t[n]!, dust := c.dust, fixes := fixes }
        if outcome.startsWith "panic" then
          (st, some (if wfBool env c.w c.r && fundedBool env c.w c.r then "false:hypotheses-hold" else "true"))
        else if outcome.startsWith "ok" then
          (st, some (if fundedBool env c.w c.r then "true" else "false:ok-but-not-funded"))
        else (st, some "true")
      else (st, some "bad-op fee-table-too-short")
    | none, _ => (st, some "bad-op no-fee-table")
    | _, none => (st, some "bad-op")
  -- the announced table of a rate equals `n·num/den` rounded half away from zero
  | ["builder.oracle.feeformula", bits, num, den] =>
    match st.tables.lookup bits, num.toNat?, den.toNat? with
    | some t, some num, some den =>
      (st, some (toString (den != 0 && (List.range t.size).all fun n => t[n]! == (2 * num * n + den) / (2 * den))))
    | _, _, _ => (st, some "bad-op")
  -- what-if: the model with both proposed repairs present (not used by the check)
  | ["builder.fixed", bits, rcp, c0, c1, tgt, out, am, ins, lk, ru] =>
    match st.tables.lookup bits, parseCase rcp c0 c1 tgt out am ins lk ru with
    | some t, some c =>
      let env : Env := { fee := fun n => t[n]!, dust := c.dust, fixes := { subOverflow := true, zeroBurn := true } }
      (st, some (renderOutcome " " (build env c.w c.r)))
    | _, _ => (st, some "bad-op")
  -- debugging aid: like `builder.build` but panics are rendered with their full site name
  | ["builder.site", bits, rcp, c0, c1, tgt, out, am, ins, lk, ru] =>
    match st.tables.lookup bits, parseCase rcp c0 c1 tgt out am ins lk ru with
    | some t, some c =>
      let env : Env := { fee := fun n => t[n]!, dust := c.dust, fixes := fixes }
      match build env c.w c.r with
      | .panic s => (st, some s!"panic {s}")
      | o => (st, some (renderOutcome " " o))
    | _, _ => (st, some "bad-op")
  -- property predicate on the implementation's own outcome
  | ["builder.oracle.c20", rcp, c0, c1, tgt, out, am, ins, lk, ru, fees, outcome] =>
    match parseCase rcp c0 c1 tgt out am ins lk ru with
    | none => (st, some "bad-op")
    | some c =>
      match outcome.splitOn "/" with
      | ["err", _] => (st, some "true")
      | ["panic", _] => (st, some "false:panic")
      | ["ok", is, os] =>
        match parseNats is, parseTxOuts c os, (fees.splitOn ":").mapM String.toNat? with
        | some is, some os, some [vs, fvs, f43] =>
          let env : Env := { fee := fun n => if n = ADDITIONAL_OUTPUT_VBYTES then f43 else fvs, dust := c.dust }
          let tx : Tx := { inputs := is, outputs := os }
          (st, some (failed [
            ("vsize", vsize is.length os == vs),
            ("a", decide (PostA c.w c.r tx)), ("b", decide (PostB c.w c.r tx)),
            ("c", decide (PostC c.w c.r tx)), ("d", decide (PostD c.r tx)),
            ("e", decide (PostE env tx)), ("f", decide (PostF env c.r tx)),
            ("g", decide (PostG env c.w tx)), ("nodup", decide tx.inputs.Nodup)]))
        | _, _, _ => (st, some "bad-op")
      | _ => (st, some "bad-op")
  | _ => (st, none)

end Driver.Builder
