import Driver.Store
def main : IO Unit := Driver.run Driver.Store.step {}
