import Driver.Common
import OrdModel.Codec.Varint
/- Line handlers for the codec engine.  `none` = not one of ours. -/
namespace Driver.Codec
open Ord

def varintResult : Except Varint.Err (Nat × Nat) → String
  | .ok (v, k) => s!"ok {v} {k}"
  | .error e => s!"err {e.toString}"

def parseResult (s : String) : Option (Except Varint.Err (Nat × Nat)) :=
  match s.splitOn ":" with
  | ["ok", v, k] => do some (.ok (← v.toNat?, ← k.toNat?))
  | ["err", "overlong"] => some (.error .overlong)
  | ["err", "overflow"] => some (.error .overflow)
  | ["err", "unterminated"] => some (.error .unterminated)
  | _ => none

def handle : List String → Option String
  | ["varint.enc", n] =>
    match n.toNat? with
    | some k => if k < 2 ^ 128 then some (toHex (Varint.encode k)) else some "bad-op"
    | none => some "bad-op"
  | ["varint.dec", h] =>
    match parseHex h with
    | some bs => some (varintResult (Varint.decode bs))
    | none => some "bad-op"
  -- property predicates evaluated on the implementation's own outputs
  | ["varint.oracle.rt", n, enc, restLen, res] =>
    match n.toNat?, parseHex enc, restLen.toNat?, parseResult res with
    | some n, some enc, some _, some r =>
      some (toString (decide (0 < enc.length ∧ enc.length ≤ 19) && varintResult r == varintResult (.ok (n, enc.length))))
    | _, _, _, _ => some "bad-op"
  | ["varint.oracle.dec", h, res] =>
    match parseHex h, parseResult res with
    | some bs, some r => some (toString (Varint.checkAnswer bs r))
    | _, _ => some "bad-op"
  | _ => none

end Driver.Codec
