import Driver.Common
import OrdModel.Wallet.Batch
import OrdModel.Wallet.BatchCommit
import OrdModel.Generated.BatchFix
/- Line handlers for the batch engine (C21).  `none` = not one of ours. -/
namespace Driver.Batch
open Ord Ord.Batch

def natList (s : String) : Option (List Nat) :=
  if s == "-" then some [] else (s.splitOn ",").mapM String.toNat?

def showList (l : List Nat) : String :=
  if l.isEmpty then "-" else ",".intercalate (l.map toString)

def parseMode : String → Option Mode
  | "same" => some .sameSat
  | "satpoints" => some .satPoints
  | "separate" => some .separateOutputs
  | "shared" => some .sharedOutput
  | _ => none

def parsePair (s : String) : Option (Nat × Nat) :=
  match s.splitOn ":" with
  | [a, b] => do some (← a.toNat?, ← b.toNat?)
  | _ => none

def pairList (s : String) : Option (List (Nat × Nat)) :=
  if s == "-" then some [] else (s.splitOn ",").mapM parsePair

def showPairs (l : List (Nat × Nat)) : String :=
  if l.isEmpty then "-" else ",".intercalate (l.map fun p => s!"{p.1}:{p.2}")

def parseSpec (mode entries parents premine : String) : Option Spec := do
  let mode ← parseMode mode
  let entries ← natList entries
  let parents ← pairList parents
  let premine ← (if premine == "none" then some none else premine.toNat?.map some)
  some { mode, entries, parents, premine }

def reportedAll (s : Spec) : List (Nat × Nat) := (List.range s.entries.length).map s.reported

def runeTok (s : Spec) : String :=
  match s.runeVout with
  | some v => toString v
  | none => "none"

/-- `<txid>i<k>@<txid>:<vout>:<offset>` → (txid, k, location text) -/
def splitIdLoc (s : String) : Option (String × Nat × String) :=
  match s.splitOn "@" with
  | [id, loc] =>
    match id.splitOn "i" with
    | [txid, k] => do some (txid, ← k.toNat?, loc)
    | _ => none
  | _ => none

def strList (s : String) : List String := if s == "-" then [] else s.splitOn ","

def checkLocated (n : Nat) (reported indexed : List String) : Bool :=
  reported.length == n && reported == indexed &&
    ((List.range n).zip reported).all fun (k, r) =>
      match splitIdLoc r with
      | some (txid, idx, loc) => idx == k && loc.startsWith (txid ++ ":")
      | none => false

def checkPlacement (outs ptrs : List Nat) (inputStart : Nat) (indexed : List String) : Bool :=
  ptrs.length == indexed.length &&
    (ptrs.zip indexed).all fun (p, ix) =>
      match locate outs (revealOffset p inputStart outs.sum) with
      | some (j, o) => ix == s!"{j}:{o}"
      | none => false

/-- no runic, no locked input; an inscribed input only for a reinscription, only one, and only if
    every inscription in it sits on the sat being reinscribed (first digit `1`; `2` = the output also
    carries an inscription elsewhere, which the commit would move) -/
def checkCommit (reinscribe : Bool) (flags : List String) : Bool :=
  flags.all (fun f => f == "000" || (reinscribe && f == "100")) &&
    (flags.filter (· == "100")).length ≤ 1

/-! ### the commit guard (`OrdModel.Wallet.BatchCommit`); an outpoint is the text `txid:vout` -/

open Ord.BatchCommit in
/-- `txid:vout:offset` -/
def parseSatpoint (s : String) : Option (String × Nat) :=
  match s.splitOn ":" with
  | [t, v, o] => do some (t ++ ":" ++ v, ← o.toNat?)
  | _ => none

def showSatpoint (sp : String × Nat) : String := s!"{sp.1}:{sp.2}"

/-- `txid:vout/value/<locked><runic>` -/
def parseUtxo (s : String) : Option (Ord.BatchCommit.Utxo String) :=
  match s.splitOn "/" with
  | [op, v, "00"] => do some ⟨op, ← v.toNat?, false, false⟩
  | [op, v, "01"] => do some ⟨op, ← v.toNat?, false, true⟩
  | [op, v, "10"] => do some ⟨op, ← v.toNat?, true, false⟩
  | [op, v, "11"] => do some ⟨op, ← v.toNat?, true, true⟩
  | _ => none

/-- `observe`: `dry` = the satpoint only; `real` = satpoint and `reinscription`; `later` = the
implementation got past the guard and failed afterwards (nothing but the passing is observable) -/
def guardAnswer (observe : String) :
    Except (Ord.BatchCommit.GuardError String) ((String × Nat) × Bool) → String
  | .ok (s, r) =>
    if observe == "later" then "ok-later"
    else if observe == "real" then s!"ok {showSatpoint s} {if r then 1 else 0}"
    else s!"ok {showSatpoint s}"
  | .error .noCardinals => "err no-cardinals"
  | .error (.alreadyInscribed hit) => s!"err already-inscribed {showSatpoint hit}"
  | .error .notAReinscription => "err not-a-reinscription"

def handle : List String → Option String
  | ["batch.guard", reinscribe, explicit, utxos, ins, observe] =>
    match (if explicit == "none" then some none else (parseSatpoint explicit).map some),
        (strList utxos).mapM parseUtxo, (strList ins).mapM parseSatpoint with
    | some ex, some us, some is =>
      if (reinscribe == "0" || reinscribe == "1") && (observe == "dry" || observe == "real" || observe == "later") then
        some (guardAnswer observe (Ord.BatchCommit.commitGuard ⟨us, is⟩ (reinscribe == "1") ex))
      else some "bad-op"
    | _, _, _ => some "bad-op"
  | ["batch.probe.dup_parents", _] => some "ok"
  /- `inputOps` = the parents' and satpoints' outpoints as the generator knows them -/
  | ["batch.layout.dry", mode, entries, parents, premine, inputOps] =>
    match parseSpec mode entries parents premine with
    | some s =>
      if acceptsInputs Generated.duplicateInputFixed (strList inputOps) [] then
        some s!"ok inputs={s.commitInput + 1} outs={showList s.revealOutputs} rep={showPairs (reportedAll s)} rune={runeTok s}"
      else some "err duplicate-reveal-input"
    | none => some "bad-op"
  /- a reveal that spends an output twice can never be mined (so nothing it reports comes true) -/
  | ["batch.oracle.inputs_distinct", inputOps] =>
    some (toString (minable (strList inputOps) []))
  | ["batch.layout", mode, entries, parents, premine] =>
    match parseSpec mode entries parents premine with
    | some s =>
      some s!"ok inputs={s.commitInput + 1} commit_input={s.commitInput} outs={showList s.revealOutputs} ptrs={showList s.pointers} rep={showPairs (reportedAll s)} rune={runeTok s}"
    | none => some "bad-op"
  /- C21 clause 1 on the implementation's report and the real index's answers -/
  | ["batch.oracle.located", n, reported, indexed, flag] =>
    match n.toNat? with
    | some n => some (toString (flag == "0" && checkLocated n (strList reported) (strList indexed)))
    | none => some "bad-op"
  /- the placement rule the theorems use, on the implementation's own reveal transaction -/
  | ["batch.oracle.placement", outs, ptrs, inputStart, indexed] =>
    match natList outs, natList ptrs, inputStart.toNat? with
    | some outs, some ptrs, some inputStart => some (toString (checkPlacement outs ptrs inputStart (strList indexed)))
    | _, _, _ => some "bad-op"
  | ["batch.oracle.parents", k, l] =>
    match k.toNat? with
    | some k => some (toString ((strList l).length == k && (strList l).all (· == "1/1/1")))
    | none => some "bad-op"
  | ["batch.oracle.commit", reinscribe, flags] =>
    some (toString (checkCommit (reinscribe == "1") (strList flags)))
  | ["batch.oracle.rune", _, flags] => some (toString (flags == "11111"))
  | "batch.unexpected" :: _ => some "unexpected"
  | _ => none

end Driver.Batch
