import Driver.Common
/- Helpers to read the implementation's dump rows (`Index::verif_dump`) back on the Lean side,
for oracle predicates that are evaluated on the implementation's own state.
A section arrives as the remainder of the request line: rows joined by '|', tokens by ' '. -/
namespace Driver.Rows

/-- rows of a section given the remaining tokens of the request line -/
def rows (ts : List String) : List (List String) :=
  let joined := " ".intercalate ts
  if joined == "-" ∨ joined == "" then [] else (joined.splitOn "|").map (fun r => (r.splitOn " ").filter (· ≠ ""))

/-- rows whose first token is `head`, without that token -/
def withHead (head : String) (rs : List (List String)) : List (List String) :=
  rs.filterMap (fun r => match r with | h :: rest => if h == head then some rest else none | [] => none)

/-- value of `key=` among the tokens of a row -/
def field (key : String) (r : List String) : Option String :=
  r.findSome? (fun t => if t.startsWith (key ++ "=") then some ((t.drop (key.length + 1)).toString) else none)

def fieldNat (key : String) (r : List String) : Option Nat := (field key r).bind (·.toNat?)

/-- "a,b,c" → list ("-" = empty) -/
def commaList (s : String) : List String := if s == "-" ∨ s == "" then [] else s.splitOn ","

end Driver.Rows
