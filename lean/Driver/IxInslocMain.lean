import Driver.IxInsloc
def main : IO Unit := Driver.run (Driver.Index.withExt Driver.IxInsloc.handle) {}
