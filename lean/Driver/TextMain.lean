import Driver.Text
def main : IO Unit :=
  Driver.runPure fun ts => (Driver.Text.handle ts).getD "bad-op"
