import Driver.IxRunemint
def main : IO Unit := Driver.run (Driver.Index.withExt Driver.IxRunemint.handle) {}
