import Driver.Batch
def main : IO Unit :=
  Driver.runPure fun ts => (Driver.Batch.handle ts).getD "bad-op"
