import Driver.Common
import OrdModel.Codec.Entry
import OrdModel.Codec.UtxoEntry
/- Line handlers for the storage engine (C35).  `none` = not one of ours. -/
namespace Driver.Storage
open Ord Ord.Entry Ord.Utxo

def optNat (s : String) : Option (Option Nat) :=
  if s == "x" then some none else s.toNat?.map some

def showOpt : Option Nat → String
  | none => "x"
  | some n => toString n

def parseBool (s : String) : Option Bool :=
  if s == "true" then some true else if s == "false" then some false else none

def parseCsvNat (s : String) : Option (List Nat) :=
  if s == "-" then some [] else (s.splitOn ",").mapM (·.toNat?)

def showCsvNat (l : List Nat) : String :=
  if l.isEmpty then "-" else ",".intercalate (l.map toString)

def hex32 (s : String) : Option (List UInt8) := do
  let b ← parseHex s
  if b.length = 32 then some b else none

def hexN (n : Nat) (s : String) : Option (List UInt8) := do
  let b ← parseHex s
  if b.length = n then some b else none

/-- struct rendering `T:amount:cap:h0:h1:o0:o1` -/
def parseTerms (s : String) : Option (Option Terms) :=
  if s == "none" then some none else
  match s.splitOn ":" with
  | ["T", a, c, h0, h1, o0, o1] => do
    some (some { amount := ← optNat a, cap := ← optNat c, height := (← optNat h0, ← optNat h1),
                 offset := (← optNat o0, ← optNat o1) })
  | _ => none

def showTerms : Option Terms → String
  | none => "none"
  | some t => s!"T:{showOpt t.amount}:{showOpt t.cap}:{showOpt t.height.1}:{showOpt t.height.2}:{showOpt t.offset.1}:{showOpt t.offset.2}"

/-- tuple rendering `V:cap:h0:h1:amount:o0:o1` -/
def parseTermsV (s : String) : Option (Option TermsValue) :=
  if s == "none" then some none else
  match s.splitOn ":" with
  | ["V", c, h0, h1, a, o0, o1] => do
    some (some (← optNat c, (← optNat h0, ← optNat h1), ← optNat a, (← optNat o0, ← optNat o1)))
  | _ => none

def showTermsV : Option TermsValue → String
  | none => "none"
  | some (c, (h0, h1), a, (o0, o1)) =>
    s!"V:{showOpt c}:{showOpt h0}:{showOpt h1}:{showOpt a}:{showOpt o0}:{showOpt o1}"

def showHeader (h : Header) : String :=
  s!"{h.version} {toHex h.prev} {toHex h.merkle} {h.time} {h.bits} {h.nonce}"

def showRuneEntry (e : RuneEntry) : String :=
  s!"{e.block} {e.burned} {e.divisibility} {toHex e.etching} {e.mints} {e.number} {e.premine} {e.rune} {e.spacers} {showOpt e.symbol} {showTerms e.terms} {e.timestamp} {e.turbo}"

def showRuneEntryValue (v : RuneEntryValue) : String :=
  s!"{v.block} {v.burned} {v.divisibility} {v.etching.1} {v.etching.2} {v.mints} {v.number} {v.premine} {v.spacedRune.1} {v.spacedRune.2} {showOpt v.symbol} {showTermsV v.terms} {v.timestamp} {v.turbo}"

def showInsEntry (e : InscriptionEntry) : String :=
  s!"{e.charms} {e.fee} {e.height} {e.hidden} {toHex e.id.txid} {e.id.index} {e.inscriptionNumber} {showCsvNat e.parents} {showOpt e.sat} {e.sequenceNumber} {e.timestamp}"

def showInsEntryValue (v : InscriptionEntryValue) : String :=
  s!"{v.charms} {v.fee} {v.height} {v.hidden} {v.id.1} {v.id.2.1} {v.id.2.2} {v.inscriptionNumber} {showCsvNat v.parents} {showOpt v.sat} {v.sequenceNumber} {v.timestamp}"

/-! utxo -/

def parseFlags (s : String) : Option Flags :=
  match s.toList with
  | [a, b, c] =>
    if (a == 's' || a == '-') && (b == 'a' || b == '-') && (c == 'i' || c == '-') then
      some ⟨a == 's', b == 'a', c == 'i'⟩
    else none
  | _ => none

def parsePair (s : String) : Option (Nat × Nat) :=
  match s.splitOn ":" with
  | [a, b] => do some (← a.toNat?, ← b.toNat?)
  | _ => none

def parsePairs (s : String) : Option (List (Nat × Nat)) :=
  if s == "-" then some [] else (s.splitOn ",").mapM parsePair

def showPairs (l : List (Nat × Nat)) : String :=
  if l.isEmpty then "-" else ",".intercalate (l.map fun p => s!"{p.1}:{p.2}")

def parseOp (s : String) : Option Op :=
  match s.splitOn ":" with
  | ["v", n] => n.toNat?.map Op.value
  | ["r", h] => (parseHex h).map Op.satRanges
  | ["s", h] => (parseHex h).map Op.scriptPubkey
  | ["I", h] => (parseHex h).map Op.inscriptions
  | ["i", a, b] => do some (Op.inscription (← a.toNat?) (← b.toNat?))
  | _ => none

def showOptHex : Option (List UInt8) → String
  | none => "none"
  | some b => toHex b

def showParsedFields (f : Flags) (p : Parsed) : String :=
  let r := match p.sats with
    | .ranges r => if f.sats then toHex r else "none"
    | .value _ => "none"
  s!"{r} {showOptHex p.script} {showOptHex p.inscriptions}"

/-- what `ord::index::verif::utxo_parse` does after `parse`: the three accessors under the flags -/
def parseView (f : Flags) (bs : List UInt8) : Outcome String :=
  match parse f bs with
  | .err e => .err e
  | .panic s => .panic s
  | .ok p =>
    match (if f.sats then satRanges p else .ok []) with
    | .err e => .err e
    | .panic s => .panic s
    | .ok _ =>
      match (if f.addresses then scriptPubkey p else .ok []) with
      | .err e => .err e
      | .panic s => .panic s
      | .ok _ =>
        match (if f.inscriptions then inscriptionsRaw p else .ok []) with
        | .err e => .err e
        | .panic s => .panic s
        | .ok _ => .ok (showParsedFields f p)

def bindO {α β : Type} (x : Outcome α) (g : α → Outcome β) : Outcome β := Outcome.bind x g

def parseTriple (s : String) : Option ((Nat × Nat) × Nat) :=
  match s.splitOn ":" with
  | [a, b, c] => do some ((← a.toNat?, ← b.toNat?), ← c.toNat?)
  | _ => none

def parseTriples (s : String) : Option (List ((Nat × Nat) × Nat)) :=
  if s == "-" then some [] else (s.splitOn ",").mapM parseTriple

def showTriple (x : (Nat × Nat) × Nat) : String := s!"{x.1.1}:{x.1.2}:{x.2}"

def showTriples (l : List ((Nat × Nat) × Nat)) : String :=
  if l.isEmpty then "-" else ",".intercalate (l.map showTriple)

def showRanges (l : List (Nat × Nat)) : String := showPairs l

/-- the view the property promises for an entry `e` under flags `f`, in the rendering of
`storage.utxo.parse` / `.total` / `.pins` -/
def expectedParse (f : Flags) (e : Utxo.Entry) : String :=
  let r := if f.sats then toHex e.ranges else "none"
  let s := if f.addresses then toHex e.script else "none"
  let i := if f.inscriptions then toHex (encodeInscriptions e.inscriptions) else "none"
  s!"ok:{r}:{s}:{i}"

def expectedPins (f : Flags) (e : Utxo.Entry) : String :=
  if f.inscriptions then s!"ok:{showPairs e.inscriptions}" else "panic:none"

def sumRangeLens (bs : List UInt8) : Nat :=
  (decodeRanges bs).foldl (fun acc r => acc + (r.2 - r.1)) 0

def expectedTotal (f : Flags) (e : Utxo.Entry) (got : String) : Bool :=
  if f.sats then
    let t := sumRangeLens e.ranges
    if t < 2 ^ 64 then got == s!"ok:{t}" else true
  else got == s!"ok:{e.value}"

def entryOk (e : Utxo.Entry) : Bool :=
  e.value < 2 ^ 64 && e.ranges.length % 11 == 0 &&
  e.inscriptions.all (fun i => i.1 < 2 ^ 32 && i.2 < 2 ^ 64)

def mkEntry (v r s i : String) : Option Utxo.Entry := do
  some { value := ← v.toNat?, ranges := ← parseHex r, script := ← parseHex s, inscriptions := ← parsePairs i }

def splitHalf (l : List String) : List String × List String :=
  (l.take (l.length / 2), l.drop (l.length / 2))

def handle : List String → Option String
  -- SatRange
  | ["storage.satrange.store", a, b] =>
    match a.toNat?, b.toNat? with
    | some a, some b =>
      if a < 2 ^ 64 ∧ b < 2 ^ 64 then some ((satRangeStore (a, b)).render toHex) else some "bad-op"
    | _, _ => some "bad-op"
  | ["storage.satrange.load", h] =>
    match hexN 11 h with
    | some bs => let r := satRangeLoad bs; some s!"{r.1} {r.2}"
    | none => some "bad-op"
  | ["storage.oracle.rt.satrange", a, b, st, ld] =>
    match a.toNat?, b.toNat? with
    | some a, some b =>
      if satRangeGuard (a, b) then
        some (toString (st.startsWith "ok:" && (st.drop 3).toString.length == 22 && ld == s!"{a}:{b}"))
      else if b < a then some (toString (st == "panic:sub-overflow"))
      else some "true"
    | _, _ => some "bad-op"
  -- consensus layouts
  | ["storage.header.store", v, p, m, t, b, n] =>
    match v.toInt?, hex32 p, hex32 m, t.toNat?, b.toNat?, n.toNat? with
    | some v, some p, some m, some t, some b, some n => some (toHex (headerStore ⟨v, p, m, t, b, n⟩))
    | _, _, _, _, _, _ => some "bad-op"
  | ["storage.header.load", h] =>
    match hexN 80 h with
    | some bs => some (showHeader (headerLoad bs))
    | none => some "bad-op"
  | ["storage.outpoint.store", t, v] =>
    match hex32 t, v.toNat? with
    | some t, some v => some (toHex (outPointStore ⟨t, v⟩))
    | _, _ => some "bad-op"
  | ["storage.outpoint.load", h] =>
    match hexN 36 h with
    | some bs => let o := outPointLoad bs; some s!"{toHex o.txid} {o.vout}"
    | none => some "bad-op"
  | ["storage.satpoint.store", t, v, o] =>
    match hex32 t, v.toNat?, o.toNat? with
    | some t, some v, some o => some (toHex (satPointStore ⟨⟨t, v⟩, o⟩))
    | _, _, _ => some "bad-op"
  | ["storage.satpoint.load", h] =>
    match hexN 44 h with
    | some bs => let s := satPointLoad bs; some s!"{toHex s.outpoint.txid} {s.outpoint.vout} {s.offset}"
    | none => some "bad-op"
  | ["storage.txid.store", t] =>
    match hex32 t with
    | some t => some (toHex (txidStore t))
    | none => some "bad-op"
  | ["storage.txid.load", t] =>
    match hex32 t with
    | some t => some (toHex (txidLoad t))
    | none => some "bad-op"
  -- tuple values
  | ["storage.insid.store", t, i] =>
    match hex32 t, i.toNat? with
    | some t, some i => let v := inscriptionIdStore ⟨t, i⟩; some s!"{v.1} {v.2.1} {v.2.2}"
    | _, _ => some "bad-op"
  | ["storage.insid.load", a, b, i] =>
    match a.toNat?, b.toNat?, i.toNat? with
    | some a, some b, some i => let x := inscriptionIdLoad (a, b, i); some s!"{toHex x.txid} {x.index}"
    | _, _, _ => some "bad-op"
  | ["storage.runeid.store", b, t] =>
    match b.toNat?, t.toNat? with
    | some b, some t => let v := runeIdStore ⟨b, t⟩; some s!"{v.1} {v.2}"
    | _, _ => some "bad-op"
  | ["storage.runeid.load", b, t] =>
    match b.toNat?, t.toNat? with
    | some b, some t => let v := runeIdLoad (b, t); some s!"{v.block} {v.tx}"
    | _, _ => some "bad-op"
  | ["storage.rune.store", n] =>
    match n.toNat? with
    | some n => some (toString (runeStore n))
    | none => some "bad-op"
  | ["storage.rune.load", n] =>
    match n.toNat? with
    | some n => some (toString (runeLoad n))
    | none => some "bad-op"
  | ["storage.runeentry.store", bl, bu, d, e, mi, nu, pr, ru, sp, sy, te, ti, tu] =>
    match bl.toNat?, bu.toNat?, d.toNat?, hex32 e, mi.toNat?, nu.toNat?, pr.toNat?, ru.toNat?,
      sp.toNat?, optNat sy, parseTerms te, ti.toNat?, parseBool tu with
    | some bl, some bu, some d, some e, some mi, some nu, some pr, some ru, some sp, some sy, some te,
      some ti, some tu =>
      some (showRuneEntryValue (runeEntryStore ⟨bl, bu, d, e, mi, nu, pr, ru, sp, sy, te, ti, tu⟩))
    | _, _, _, _, _, _, _, _, _, _, _, _, _ => some "bad-op"
  | ["storage.runeentry.load", bl, bu, d, lo, hi, mi, nu, pr, ru, sp, sy, te, ti, tu] =>
    match bl.toNat?, bu.toNat?, d.toNat?, lo.toNat?, hi.toNat?, mi.toNat?, nu.toNat?, pr.toNat?,
      ru.toNat?, sp.toNat?, optNat sy, parseTermsV te, ti.toNat?, parseBool tu with
    | some bl, some bu, some d, some lo, some hi, some mi, some nu, some pr, some ru, some sp, some sy,
      some te, some ti, some tu =>
      some (showRuneEntry (runeEntryLoad ⟨bl, bu, d, (lo, hi), mi, nu, pr, (ru, sp), sy, te, ti, tu⟩))
    | _, _, _, _, _, _, _, _, _, _, _, _, _, _ => some "bad-op"
  | ["storage.insentry.store", ch, fe, he, hi, tx, ix, nu, pa, sa, sq, ts] =>
    match ch.toNat?, fe.toNat?, he.toNat?, parseBool hi, hex32 tx, ix.toNat?, nu.toInt?, parseCsvNat pa,
      optNat sa, sq.toNat?, ts.toNat? with
    | some ch, some fe, some he, some hi, some tx, some ix, some nu, some pa, some sa, some sq, some ts =>
      some (showInsEntryValue (inscriptionEntryStore ⟨ch, fe, he, hi, ⟨tx, ix⟩, nu, pa, sa, sq, ts⟩))
    | _, _, _, _, _, _, _, _, _, _, _ => some "bad-op"
  | ["storage.insentry.load", ch, fe, he, hi, lo, hh, ix, nu, pa, sa, sq, ts] =>
    match ch.toNat?, fe.toNat?, he.toNat?, parseBool hi, lo.toNat?, hh.toNat?, ix.toNat?, nu.toInt?,
      parseCsvNat pa, optNat sa, sq.toNat?, ts.toNat? with
    | some ch, some fe, some he, some hi, some lo, some hh, some ix, some nu, some pa, some sa, some sq,
      some ts =>
      some (showInsEntry (inscriptionEntryLoad ⟨ch, fe, he, hi, (lo, hh, ix), nu, pa, sa, sq, ts⟩))
    | _, _, _, _, _, _, _, _, _, _, _, _ => some "bad-op"
  -- utxo entries
  | "storage.utxo.ops" :: fl :: ops =>
    match parseFlags fl, ops.mapM parseOp with
    | some f, some ops => some ((runOps f ops).render toHex)
    | _, _ => some "bad-op"
  | ["storage.utxo.build", fl, v, r, s, i] =>
    match parseFlags fl, mkEntry v r s i with
    | some f, some e => some ((build f e).render toHex)
    | _, _ => some "bad-op"
  | ["storage.utxo.layout", fl, v, r, s, i] =>
    match parseFlags fl, mkEntry v r s i with
    | some f, some e => some (toHex (layout f e))
    | _, _ => some "bad-op"
  | ["storage.utxo.parse", fl, h] =>
    match parseFlags fl, parseHex h with
    | some f, some bs => some ((parseView f bs).render id)
    | _, _ => some "bad-op"
  | ["storage.utxo.total", fl, h] =>
    match parseFlags fl, parseHex h with
    | some f, some bs => some ((bindO (parse f bs) totalValue).render toString)
    | _, _ => some "bad-op"
  | ["storage.utxo.pins", fl, h] =>
    match parseFlags fl, parseHex h with
    | some f, some bs => some ((bindO (parse f bs) parseInscriptions).render showPairs)
    | _, _ => some "bad-op"
  | ["storage.utxo.merged", fl, a, b] =>
    match parseFlags fl, parseHex a, parseHex b with
    | some f, some a, some b => some ((merged f a b).render toHex)
    | _, _, _ => some "bad-op"
  | ["storage.utxo.empty", fl] =>
    match parseFlags fl with
    | some f => some ((Utxo.empty f).render toHex)
    | none => some "bad-op"
  | ["storage.ranges.dec", h] =>
    match parseHex h with
    | some bs => some (showRanges (decodeRanges bs))
    | none => some "bad-op"
  -- property predicate on the implementation's answers: parse/total/pins of build(e) give e back
  | ["storage.oracle.rt.utxo", fl, v, r, s, i, pa, ta, ia] =>
    match parseFlags fl, mkEntry v r s i with
    | some f, some e =>
      if entryOk e then
        some (toString (pa == expectedParse f e && expectedTotal f e ta && ia == expectedPins f e))
      else some "true"
    | _, _ => some "bad-op"
  -- merged keeps every range and inscription of both (entries of the special outpoints:
  -- empty script, zero value)
  | ["storage.oracle.merged.utxo", fl, ra, ia, rb, ib, pa, pi] =>
    match parseFlags fl, parseHex ra, parsePairs ia, parseHex rb, parsePairs ib with
    | some f, some ra, some ia, some rb, some ib =>
      let e : Utxo.Entry := ⟨0, ra ++ rb, [], ia ++ ib⟩
      some (toString (pa == expectedParse f e && pi == expectedPins f e))
    | _, _, _, _, _ => some "bad-op"
  -- rune balances
  | ["storage.balances.enc", l] =>
    match parseTriples l with
    | some l => some (toHex (encodeBalances l))
    | none => some "bad-op"
  | ["storage.balances.dec", h] =>
    match parseHex h with
    | some bs => some ((decodeBalances bs).render showTriples)
    | none => some "bad-op"
  | ["storage.balance.dec1", h] =>
    match parseHex h with
    | some bs => some ((decodeBalance bs).render fun x => s!"{showTriple x.1} {x.2}")
    | none => some "bad-op"
  -- generic round-trip oracle: the second half of the tokens (the implementation's
  -- `load (store x)`, or `decode (encode x)`) must equal the first half (x)
  | "storage.oracle.rt" :: _kind :: rest =>
    let (a, b) := splitHalf rest
    some (toString (rest.length % 2 == 0 && a == b))
  | _ => none

end Driver.Storage
