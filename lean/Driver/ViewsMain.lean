import Driver.Views
def main : IO Unit := Driver.run (Driver.Index.withExt Driver.Views.handle) {}
