import Driver.Index
import Driver.IndexRows
import OrdModel.Index.OracleRunesupply
/-
Driver extension of the `runesupply` group (C08, C09).

Read-only queries (answered from the MODEL state after the last `endblock`):
  ix.rs.balances                  → model `balances` table, canonical rows   (impl: get_rune_balances())
  ix.rs.runes                     → model rune entries, canonical rows       (impl: runes())
Oracle lines (evaluated on the IMPLEMENTATION's rows given in the request):
  ix.oracle.conserved <flags> ; <runes-section rows>
        flags = outpoint=0|1,… for every balances outpoint (1 = OP_RETURN output), "-" if none
  ix.rs.begin <runes-section rows of the previous probe>      → "ok"   (sets the spec-level state)
  ix.oracle.alloc <h> <i> <txid> <ins> <outs> <artifact> <etched> <obs> <burned>
        ins  = txid:vout,… | "-"        outs = string of 0/1 (1 = OP_RETURN) | "-"
        obs  = v:=id=amt+id=amt (row) | v:=- (no row) | v:? (spent in this block), joined by ',' | "-"
        burned = id=amt+id=amt (the transaction's RuneBurned events) | "-" (none) | "?" (no events)
        → "true" iff `Spec.allocate` on (input rows, artifact, outputs) gives the observed rows and burns
  ix.oracle.blockend <runes-section rows now>
        → "true" iff the spec-level state equals the implementation's balances / burned / mints
-/
namespace Driver.IxRunesupply
open Ord Ord.Index Ord.Index.Spec Ord.Index.Oracle Driver.Index

def parseOutPoint (s : String) : Option OutPoint :=
  match s.splitOn ":" with
  | [t, v] => do some ⟨← parseHexNat t, ← v.toNat?⟩
  | _ => none

def parseBalPairs (sep : String) (s : String) : Option Balances :=
  if s == "-" ∨ s == "" then some [] else
  (s.splitOn sep).mapM (fun p => match p.splitOn "=" with
    | [id, a] => do some (← parseRuneId id, ← a.toNat?)
    | _ => none)

/-- `amount:A/cap:C/height:S:E/offset:S:E` -/
def parseTermsRow (s : String) : Option (Option Terms) :=
  if s == "-" then some none else
  match s.splitOn "/" with
  | [a, c, hgt, off] =>
    match a.splitOn ":", c.splitOn ":", hgt.splitOn ":", off.splitOn ":" with
    | ["amount", a], ["cap", c], ["height", hs, he], ["offset", os, oe] => do
      some (some ⟨← optNat? a, ← optNat? c, ← optNat? hs, ← optNat? he, ← optNat? os, ← optNat? oe⟩)
    | _, _, _, _ => none
  | _ => none

/-- a `rune` row without its head token -/
def parseRuneRow (r : List String) : Option (RuneId × RuneEntry) :=
  match r with
  | id :: rest => do
    let id ← parseRuneId id
    let n (k : String) : Option Nat := Driver.Rows.fieldNat k rest
    let terms ← parseTermsRow (← Driver.Rows.field "terms" rest)
    some (id, ⟨← n "block", ← n "burned", ← n "divisibility", 0, ← n "mints", ← n "number", ← n "premine",
               ← n "rune", ← n "spacers", none, terms, ← n "timestamp", false⟩)
  | [] => none

def parseBalRow (r : List String) : Option (OutPoint × Balances) :=
  match r with
  | [op, bs] => do some (← parseOutPoint op, ← parseBalPairs "," bs)
  | _ => none

/-- (entries, balances) of an implementation `runes` section -/
def parseSection (ts : List String) : Option (List (RuneId × RuneEntry) × List (OutPoint × Balances)) := do
  let rs := Driver.Rows.rows ts
  let ents ← (Driver.Rows.withHead "rune" rs).mapM parseRuneRow
  let bals ← (Driver.Rows.withHead "balances" rs).mapM parseBalRow
  some (ents, bals)

def renderRow (row : Balances) : String :=
  joinOr (row.map (fun (id, b) => s!"{id.render}={b}")) ","

def renderBalRows (bals : List (OutPoint × Balances)) : List String :=
  sortStrings (bals.map (fun (o, row) => s!"{o.render} {renderRow row}"))

/-- the entry fields this group cares about -/
def renderEnt (id : RuneId) (e : RuneEntry) : String :=
  s!"{id.render} block={e.block} burned={e.burned} mints={e.mints} premine={e.premine} terms={renderTerms e.terms}"

def renderEnts (ents : List (RuneId × RuneEntry)) : List String :=
  sortStrings (ents.map (fun (id, e) => renderEnt id e))

def parseFlags (s : String) : Option (List (OutPoint × Bool)) :=
  if s == "-" then some [] else
  (s.splitOn ",").mapM (fun p => match p.splitOn "=" with
    | [o, f] => do some (← parseOutPoint o, f == "1")
    | _ => none)

def parseOuts (s : String) : List Bool := if s == "-" then [] else s.toList.map (· == '1')

def parseIns (s : String) : Option (List OutPoint) :=
  if s == "-" then some [] else (s.splitOn ",").mapM parseOutPoint

def parseObs (s : String) : Option (List (Nat × Obs)) :=
  if s == "-" then some [] else
  (s.splitOn ",").mapM (fun p =>
    match p.splitOn ":=" with
    | [v, row] => do some (← v.toNat?, Obs.row (← parseBalPairs "+" row))
    | _ => match p.splitOn ":" with
      | [v, "?"] => do some (← v.toNat?, Obs.unknown)
      | _ => none)

/-- read-only handlers -/
def handle (s : S) : List String → Option String
  | ["ix.rs.balances"] => some (joinOr (renderBalRows s.st.balances) "|")
  | ["ix.rs.runes"] => some (joinOr (renderEnts s.st.runeEntries) "|")
  | "ix.oracle.conserved" :: flags :: ";" :: rows =>
    match parseFlags flags, parseSection rows with
    | some fl, some (ents, bals) =>
      -- an outpoint without a flag counts as OP_RETURN (the probe must classify every row)
      some (toString (conservedB ents bals (fun o => (AL.get fl o).getD true)))
    | _, _ => some "bad-op"
  | _ => none

structure XS where
  s : S := {}
  x : SpecState := {}
  deriving Inhabited

def step (xs : XS) (ts : List String) : XS × String :=
  match ts with
  | "ix.rs.begin" :: rows =>
    match parseSection rows with
    | some (ents, bals) => ({ xs with x := ⟨bals, ents⟩ }, "ok")
    | none => (xs, "bad-op")
  | ["ix.oracle.alloc", h, i, txid, ins, outs, art, etched, obs, burned] =>
    match h.toNat?, i.toNat?, parseHexNat txid, parseIns ins, parseArtifact art, parseObs obs,
          (if burned == "?" then some none else (parseBalPairs "+" burned).map some) with
    | some h, some i, some txid, some ins, some art, some obs, some burnedObs =>
      let (x', o) := specTx xs.x h i txid ins (parseOuts outs) art (etched == "1")
      let ans := match o.problem with
        | some p => s!"false:{p}"
        | none =>
          if obsAgree o.rows obs && burnAgree o.burned burnedObs then "true"
          else s!"false:spec={joinOr (o.rows.filterMap (fun (v, r) => if r.isEmpty then none else some s!"{v}:={renderRow r}")) ";"}/burned={renderRow o.burned}"
      ({ xs with x := x' }, ans)
    | _, _, _, _, _, _, _ => (xs, "bad-op")
  | "ix.oracle.blockend" :: rows =>
    match parseSection rows with
    | some (ents, bals) =>
      let a := renderBalRows xs.x.cur
      let b := renderBalRows bals
      let ea := renderEnts xs.x.ents
      let eb := renderEnts ents
      let ans :=
        if a != b then s!"false:balances:spec={joinOr a ";"}"
        else if ea != eb then s!"false:entries:spec={joinOr ea ";"}"
        else "true"
      (xs, ans)
    | none => (xs, "bad-op")
  | _ =>
    match handle xs.s ts with
    | some out => (xs, out)
    | none =>
      let (s', o) := Driver.Index.step xs.s ts
      ({ xs with s := s' }, o)

end Driver.IxRunesupply
