import Driver.Common
import OrdModel.Settings
/-
Line handlers for the settings engine (`eng_settings`, property C36).

Value tokens: `-` = None, `n<dec>`, `s<hex utf8>` (`s-` = empty string), `t`/`f`, `l<id>,<id>…`
(`l` = Some(∅)).  A record is a run of `field=token` tokens (absent field = None/false).  Sections
of a request are introduced by single capital letters (`A B F E X C R`).
-/
namespace Driver.Settings
open Ord.Settings

/-! ### rendering -/

def hexOfString (s : String) : String := toHex s.toUTF8.data.toList

def renderVal : Val → String
  | .text s => "s" ++ hexOfString s
  | .num n => "n" ++ toString n
  | .chain c => "s" ++ hexOfString c.name

def insertSorted (x : String) : List String → List String
  | [] => [x]
  | y :: ys => if x < y then x :: y :: ys else if x == y then y :: ys else y :: insertSorted x ys

def sortDedup (l : List String) : List String := l.foldr insertSorted []

def renderFV : FV → String
  | .opt none => "-"
  | .opt (some v) => renderVal v
  | .switch b => if b then "t" else "f"
  | .set none => "-"
  | .set (some l) => "l" ++ ",".intercalate (sortDedup (l.map InscriptionId.render))

def renderSettings (s : Settings) : String :=
  " ".intercalate (Field.all.map fun f => f.name ++ "=" ++ renderFV (s.get f))

def renderErr : Err → String
  | .envParse k => "env:" ++ k
  | .noHomeDir => "no-home-dir" | .noDataDir => "no-data-dir"
  | .configOpen => "config-open" | .configDeserialize => "config-deserialize"
  | .noRpcUsername => "no-rpc-username" | .noRpcPassword => "no-rpc-password"
  | .noUsername => "no-username" | .noPassword => "no-password"
  | .clap => "clap"

def renderResult : Except Err Settings → String
  | .ok s => "ok " ++ renderSettings s
  | .error e => "err " ++ renderErr e

/-! ### parsing records -/

def Settings.set (s : Settings) : Field → FV → Option Settings
  | .bitcoinDataDir, .opt none => some { s with bitcoinDataDir := none }
  | .bitcoinDataDir, .opt (some (.text v)) => some { s with bitcoinDataDir := some v }
  | .bitcoinRpcLimit, .opt none => some { s with bitcoinRpcLimit := none }
  | .bitcoinRpcLimit, .opt (some (.num v)) => some { s with bitcoinRpcLimit := some v }
  | .bitcoinRpcPassword, .opt none => some { s with bitcoinRpcPassword := none }
  | .bitcoinRpcPassword, .opt (some (.text v)) => some { s with bitcoinRpcPassword := some v }
  | .bitcoinRpcUrl, .opt none => some { s with bitcoinRpcUrl := none }
  | .bitcoinRpcUrl, .opt (some (.text v)) => some { s with bitcoinRpcUrl := some v }
  | .bitcoinRpcUsername, .opt none => some { s with bitcoinRpcUsername := none }
  | .bitcoinRpcUsername, .opt (some (.text v)) => some { s with bitcoinRpcUsername := some v }
  | .chain, .opt none => some { s with chain := none }
  | .chain, .opt (some (.chain v)) => some { s with chain := some v }
  | .commitInterval, .opt none => some { s with commitInterval := none }
  | .commitInterval, .opt (some (.num v)) => some { s with commitInterval := some v }
  | .config, .opt none => some { s with config := none }
  | .config, .opt (some (.text v)) => some { s with config := some v }
  | .configDir, .opt none => some { s with configDir := none }
  | .configDir, .opt (some (.text v)) => some { s with configDir := some v }
  | .cookieFile, .opt none => some { s with cookieFile := none }
  | .cookieFile, .opt (some (.text v)) => some { s with cookieFile := some v }
  | .dataDir, .opt none => some { s with dataDir := none }
  | .dataDir, .opt (some (.text v)) => some { s with dataDir := some v }
  | .heightLimit, .opt none => some { s with heightLimit := none }
  | .heightLimit, .opt (some (.num v)) => some { s with heightLimit := some v }
  | .hidden, .set v => some { s with hidden := v }
  | .httpPort, .opt none => some { s with httpPort := none }
  | .httpPort, .opt (some (.num v)) => some { s with httpPort := some v }
  | .index, .opt none => some { s with index := none }
  | .index, .opt (some (.text v)) => some { s with index := some v }
  | .indexAddresses, .switch b => some { s with indexAddresses := b }
  | .indexCacheSize, .opt none => some { s with indexCacheSize := none }
  | .indexCacheSize, .opt (some (.num v)) => some { s with indexCacheSize := some v }
  | .indexRunes, .switch b => some { s with indexRunes := b }
  | .indexSats, .switch b => some { s with indexSats := b }
  | .indexTransactions, .switch b => some { s with indexTransactions := b }
  | .integrationTest, .switch b => some { s with integrationTest := b }
  | .maxSavepoints, .opt none => some { s with maxSavepoints := none }
  | .maxSavepoints, .opt (some (.num v)) => some { s with maxSavepoints := some v }
  | .noIndexInscriptions, .switch b => some { s with noIndexInscriptions := b }
  | .savepointInterval, .opt none => some { s with savepointInterval := none }
  | .savepointInterval, .opt (some (.num v)) => some { s with savepointInterval := some v }
  | .serverPassword, .opt none => some { s with serverPassword := none }
  | .serverPassword, .opt (some (.text v)) => some { s with serverPassword := some v }
  | .serverUrl, .opt none => some { s with serverUrl := none }
  | .serverUrl, .opt (some (.text v)) => some { s with serverUrl := some v }
  | .serverUsername, .opt none => some { s with serverUsername := none }
  | .serverUsername, .opt (some (.text v)) => some { s with serverUsername := some v }
  | _, _ => none

def splitEq (tok : String) : Option (String × String) :=
  match tok.splitOn "=" with
  | [a, b] => some (a, b)
  | _ => none

def parseIdStrict (s : String) : Option InscriptionId :=
  match parseInscriptionId s with
  | some i => if i.render == s then some i else none
  | none => none

/-- token → field value, given the field (which fixes the expected shape) -/
def parseTok (f : Field) (tok : String) : Option FV :=
  match f.kind, tok.toList with
  | .opt, ['-'] => some (.opt none)
  | .opt, 'n' :: ds =>
    match f with
    | .bitcoinRpcLimit | .commitInterval | .heightLimit | .httpPort | .indexCacheSize
    | .maxSavepoints | .savepointInterval => (String.ofList ds).toNat?.map (fun n => .opt (some (.num n)))
    | _ => none
  | .opt, 's' :: h =>
    match parseHexText (String.ofList h) with
    | none => none
    | some s =>
      match f with
      | .chain => (Chain.fromStr s).map (fun c => .opt (some (.chain c)))
      | .bitcoinRpcLimit | .commitInterval | .heightLimit | .httpPort | .indexCacheSize
      | .maxSavepoints | .savepointInterval => none
      | _ => some (.opt (some (.text s)))
  | .switch, ['t'] => some (.switch true)
  | .switch, ['f'] => some (.switch false)
  | .set, ['-'] => some (.set none)
  | .set, ['l'] => some (.set (some []))
  | .set, 'l' :: rest =>
    (((String.ofList rest).splitOn ",").mapM parseIdStrict).map (fun l => .set (some l))
  | _, _ => none

def fieldByName (n : String) : Option Field := Field.all.find? (fun f => f.name == n)

def parseRecord (toks : List String) : Option Settings :=
  toks.foldlM (init := ({} : Settings)) fun s tok => do
    let (n, v) ← splitEq tok
    let f ← fieldByName n
    let fv ← parseTok f v
    Settings.set s f fv

/-! ### sections -/

def isMarker (t : String) : Bool :=
  t == "A" || t == "B" || t == "F" || t == "E" || t == "X" || t == "C" || t == "R"

/-- split a token list at marker tokens: `[(marker, tokens until the next marker)]` -/
def sections : List String → List (String × List String)
  | [] => []
  | t :: ts =>
    let rec go (m : String) (cur : List String) : List String → List (String × List String)
      | [] => [(m, cur.reverse)]
      | x :: xs => if isMarker x then (m, cur.reverse) :: go x [] xs else go m (x :: cur) xs
    if isMarker t then go t [] ts else []

def section? (ss : List (String × List String)) (m : String) : Option (List String) :=
  (ss.find? (·.1 == m)).map (·.2)

/-! ### flags -/

def optText (tok : Option String) : Option String := tok.bind parseHexText

/-- one `--name[=value]` argument applied to the option record; `none` = clap rejects it -/
def applyFlag (o : Options) (name : String) (val : Option String) : Option Options :=
  let num (w : Nat) : Option Nat := val.bind fun v =>
    match v.toNat? with
    | some n => if n < 2 ^ w && toString n == v then some n else none
    | none => none
  match name, val with
  | "bitcoin-data-dir", some v => if o.bitcoinDataDir.isSome || v.isEmpty then none else some { o with bitcoinDataDir := some v }
  | "bitcoin-rpc-password", some v => if o.bitcoinRpcPassword.isSome then none else some { o with bitcoinRpcPassword := some v }
  | "bitcoin-rpc-url", some v => if o.bitcoinRpcUrl.isSome then none else some { o with bitcoinRpcUrl := some v }
  | "bitcoin-rpc-username", some v => if o.bitcoinRpcUsername.isSome then none else some { o with bitcoinRpcUsername := some v }
  | "bitcoin-rpc-limit", some _ => if o.bitcoinRpcLimit.isSome then none else (num 32).map fun n => { o with bitcoinRpcLimit := some n }
  | "chain", some v => if o.chainArgument.isSome then none else (Chain.fromClap v).map fun c => { o with chainArgument := some c }
  | "commit-interval", some _ => if o.commitInterval.isSome then none else (num 64).map fun n => { o with commitInterval := some n }
  | "savepoint-interval", some _ => if o.savepointInterval.isSome then none else (num 64).map fun n => { o with savepointInterval := some n }
  | "max-savepoints", some _ => if o.maxSavepoints.isSome then none else (num 64).map fun n => { o with maxSavepoints := some n }
  | "config", some v => if o.config.isSome || v.isEmpty then none else some { o with config := some v }
  | "config-dir", some v => if o.configDir.isSome || v.isEmpty then none else some { o with configDir := some v }
  | "cookie-file", some v => if o.cookieFile.isSome || v.isEmpty then none else some { o with cookieFile := some v }
  | "data-dir", some v => if o.dataDir.isSome || v.isEmpty then none else some { o with dataDir := some v }
  | "datadir", some v => if o.dataDir.isSome || v.isEmpty then none else some { o with dataDir := some v }
  | "height-limit", some _ => if o.heightLimit.isSome then none else (num 32).map fun n => { o with heightLimit := some n }
  | "index", some v => if o.index.isSome || v.isEmpty then none else some { o with index := some v }
  | "index-addresses", none => if o.indexAddresses then none else some { o with indexAddresses := true }
  | "index-cache-size", some _ => if o.indexCacheSize.isSome then none else (num 64).map fun n => { o with indexCacheSize := some n }
  | "index-runes", none => if o.indexRunes then none else some { o with indexRunes := true }
  | "index-sats", none => if o.indexSats then none else some { o with indexSats := true }
  | "index-transactions", none => if o.indexTransactions then none else some { o with indexTransactions := true }
  | "integration-test", none => if o.integrationTest then none else some { o with integrationTest := true }
  | "no-index-inscriptions", none => if o.noIndexInscriptions then none else some { o with noIndexInscriptions := true }
  | "noindex_inscriptions", none => if o.noIndexInscriptions then none else some { o with noIndexInscriptions := true }
  | "server-password", some v => if o.serverPassword.isSome then none else some { o with serverPassword := some v }
  | "server-username", some v => if o.serverUsername.isSome then none else some { o with serverUsername := some v }
  | "regtest", none => if o.regtest then none else some { o with regtest := true }
  | "signet", none => if o.signet then none else some { o with signet := true }
  | "testnet", none => if o.testnet then none else some { o with testnet := true }
  | "testnet4", none => if o.testnet4 then none else some { o with testnet4 := true }
  | _, _ => none

/-- the `chains` argument group: at most one of `--chain --signet --regtest --testnet --testnet4` -/
def chainGroupOk (o : Options) : Bool :=
  (o.chainArgument.isSome.toNat + o.signet.toNat + o.regtest.toNat + o.testnet.toNat + o.testnet4.toNat) ≤ 1

/-- `none` = malformed request; `some none` = clap error -/
def parseFlags (toks : List String) : Option (Option Options) := do
  let mut o : Option Options := some {}
  for tok in toks do
    let (name, val) ← match tok.splitOn "=" with
      | [n] => some (n, (none : Option String))
      | [n, h] => (parseHexText h).map fun v => (n, some v)
      | _ => none
    o := o.bind fun o => applyFlag o name val
  return o.bind fun o => if chainGroupOk o then some o else none

/-! ### environment, file system, parameters -/

def parsePairs (toks : List String) : Option (List (String × String)) :=
  toks.mapM fun tok => do
    let (k, v) ← splitEq tok
    let k ← parseHexText k
    let v ← parseHexText v
    pure (k, v)

/-- a `BTreeMap` built from pairs: a later duplicate replaces an earlier one -/
def envOfPairs (kvs : List (String × String)) : EnvMap := fun key =>
  (kvs.reverse.find? (fun kv => kv.1 == key)).map (·.2)

/-- all `C` sections → lookup function -/
def parseFiles (ss : List (String × List String)) : Option FileSystem := do
  let entries ← (ss.filter (fun s => s.1 == "C" && !s.2.isEmpty)).mapM fun (_, toks) =>
    match toks with
    | p :: "bad" :: _ => (parseHexText p).map fun p => (p, FileState.bad)
    | p :: "ok" :: rec => do
      let p ← parseHexText p
      let c ← parseRecord rec
      pure (p, FileState.ok c)
    | _ => none
  pure fun path => ((entries.find? (fun e => e.1 == path)).map (·.2)).getD .absent

def parseOptText (tok : String) : Option (Option String) :=
  match tok.toList with
  | ['-'] => some none
  | 's' :: h => (parseHexText (String.ofList h)).map some
  | _ => none

def parseParams (home data mem : String) : Option Params := do
  let h ← parseOptText home
  let d ← parseOptText data
  let m ← mem.toNat?
  pure ⟨h, d, m⟩

/-! ### handlers -/

def parseResult (toks : List String) : Option (Except String Settings) :=
  match toks with
  | "ok" :: rec => (parseRecord rec).map .ok
  | ["err", e] => some (.error e)
  | _ => none

/-- C36 on an implementation answer.  `ok`: every field satisfies `fieldSpec`.  A credential
error: the corresponding pair is unbalanced in the merged sources.  Other errors are not expected
on oracle lines (the intended sources are valid). -/
def oracle (p : Params) (fl en cf : Settings) : Except String Settings → String
  | .ok r =>
    match allFieldsSpec p fl en cf r with
    | [] => "true"
    | bad => "false:" ++ ",".intercalate (bad.map Field.name)
  | .error e =>
    let w (f : Field) := (firstSome [fl.getOpt f, en.getOpt f, cf.getOpt f]).isSome
    let rpcBad := w .bitcoinRpcUsername != w .bitcoinRpcPassword
    let ok :=
      if e == "no-rpc-username" then !w .bitcoinRpcUsername && w .bitcoinRpcPassword
      else if e == "no-rpc-password" then w .bitcoinRpcUsername && !w .bitcoinRpcPassword
      else if e == "no-username" then !rpcBad && !w .serverUsername && w .serverPassword
      else if e == "no-password" then !rpcBad && w .serverUsername && !w .serverPassword
      else false
    if ok then "true" else "false:" ++ e

def handle (ts : List String) : Option String :=
  match ts with
  | "settings.or" :: rest =>
    let ss := sections rest
    match (section? ss "A").bind parseRecord, (section? ss "B").bind parseRecord with
    | some a, some b => some ("ok " ++ renderSettings (a.or b))
    | _, _ => some "bad-op"
  | "settings.fromenv" :: rest =>
    match parsePairs rest with
    | some kvs => some (renderResult (fromEnv (envOfPairs kvs)))
    | none => some "bad-op"
  | "settings.fromopts" :: rest =>
    match parseFlags rest with
    | some (some o) => some (renderResult (.ok (fromOptions o)))
    | some none => some (renderResult (.error .clap))
    | none => some "bad-op"
  | "settings.defaults" :: home :: data :: mem :: rest =>
    let ss := sections rest
    match parseParams home data mem, (section? ss "A").bind parseRecord with
    | some p, some a => some (renderResult (a.orDefaults p))
    | _, _ => some "bad-op"
  | "settings.merge" :: home :: data :: mem :: rest =>
    let ss := sections rest
    match parseParams home data mem, (section? ss "F").bind parseFlags, (section? ss "E").bind parsePairs, parseFiles ss with
    | some p, some o, some kvs, some fs =>
      match o with
      | none => some (renderResult (.error .clap))
      | some o => some (renderResult (merge p fs o (envOfPairs kvs)))
    | _, _, _, _ => some "bad-op"
  | "settings.load" :: home :: data :: mem :: rest =>
    let ss := sections rest
    match parseParams home data mem, (section? ss "F").bind parseFlags, (section? ss "X").bind parsePairs, parseFiles ss with
    | some p, some o, some vars, some fs =>
      match o with
      | none => some (renderResult (.error .clap))
      | some o => some (renderResult (load p fs o vars))
    | _, _, _, _ => some "bad-op"
  | "settings.oracle.prec" :: home :: data :: mem :: rest =>
    let ss := sections rest
    match parseParams home data mem, (section? ss "F").bind parseRecord, (section? ss "E").bind parseRecord,
          (section? ss "C").bind parseRecord, (section? ss "R").bind parseResult with
    | some p, some fl, some en, some cf, some r => some (oracle p fl en cf r)
    | _, _, _, _, _ => some "bad-op"
  | _ => none

end Driver.Settings
