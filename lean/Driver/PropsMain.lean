import Driver.Props
def main : IO Unit :=
  Driver.runPure fun ts => (Driver.Props.handle ts).getD "bad-op"
