import Driver.Common
import OrdModel.Wallet.Offer
/- Line handlers for the offer engine (C24).  `none` = not one of ours. -/
namespace Driver.Offer
open Ord Ord.Offer

def splitList (s : String) (sep : String) : List String :=
  if s == "-" then [] else s.splitOn sep

def parseWitness (s : String) : Option (List (List UInt8)) :=
  if s == "e" then some [] else (s.splitOn ".").mapM parseHex

def parseOptBytes (s : String) : Option (Option (List UInt8)) :=
  if s == "none" then some none else (parseHex s).map some

def parseOptWitness (s : String) : Option (Option (List (List UInt8))) :=
  if s == "none" then some none else (parseWitness s).map some

/-- `outpoint|scriptsig|witness|other` -/
def parsePIn (s : String) : Option PIn :=
  match s.splitOn "|" with
  | [op, sc, w, o] => do
    let sc ← parseOptBytes sc
    let w ← parseOptWitness w
    some { outpoint := op, finalScriptSig := sc, finalScriptWitness := w, otherSigs := o != "0" }
  | _ => none

/-- `outpoint|scriptsig|witness` -/
def parseTIn (s : String) : Option TIn :=
  match s.splitOn "|" with
  | [op, sc, w] => do
    let sc ← parseHex sc
    let w ← parseWitness w
    some { outpoint := op, scriptSig := sc, witness := w }
  | _ => none

/-- `outpoint|ids|runes` -/
def parseInfo (s : String) : Option (OutPoint × OutInfo) :=
  match s.splitOn "|" with
  | [op, i, r] => do
    let ins : Option (List InsId) := if i == "none" then none else some (splitList i ",")
    let runes ← (if r == "none" then some none else r.toNat?.map some)
    some (op, { inscriptions := ins, runes := runes })
  | _ => none

def parseView (unspent locked info : String) : Option View := do
  let info ← (splitList info ";").mapM parseInfo
  some { unspent := splitList unspent ",", locked := splitList locked ",", info := info }

def parseIns (s : String) : Option (List PIn) := (splitList s ";").mapM parsePIn

def parseSim (s : String) : Option (Option Int) :=
  if s == "err" then some none else s.toInt?.map some

def parseFin (s : String) : Option Fin :=
  if s == "processErr" then some .processErr
  else if s == "finalizeErr" then some .finalizeErr
  else if s == "noHex" then some .noHex
  else if s == "undecodable" then some .undecodable
  else if s.startsWith "tx:" then ((splitList (s.drop 3).toString ";").mapM parseTIn).map .tx
  else none

def opAt (ins : List PIn) (k : Nat) : String :=
  match ins[k]? with
  | some i => i.outpoint
  | none => "?"

/-- error classes that name an input are rendered with that input's outpoint, which is what
the implementation's message carries -/
def renderErr (ins : List PIn) : Err → String
  | .sellerSigned k => s!"seller-signed:{opAt ins k}"
  | .buyerUnsigned k => s!"buyer-unsigned:{opAt ins k}"
  | .buyerSigChanged k => s!"buyer-sig-changed:{opAt ins k}"
  | e => e.toString

/-- `<outcome> rpc=<walletprocesspsbt called><sendrawtransaction called>` -/
def render (ins : List PIn) : Result → String
  | .rejected e => s!"err {renderErr ins e} rpc=00"
  | .dryOk => "dry-ok rpc=00"
  | .signedRejected .process => "err process rpc=10"
  | .signedRejected .send => "err send rpc=11"
  | .signedRejected e => s!"err {renderErr ins e} rpc=10"
  | .broadcast => "broadcast rpc=11"

def handle : List String → Option String
  | ["offer.world", _, _] => some "ok"
  -- an undecodable PSBT: both decode steps precede everything else
  | ["offer.undecodable", _, _, _, _] => some "err decode rpc=00"
  | ["offer.accept", dry, named, amount, unspent, locked, info, ins, sim, fin, send, _] =>
    match amount.toNat?, parseView unspent locked info, parseIns ins, parseSim sim, parseFin fin with
    | some amount, some v, some ins, some sim, some fin =>
      some (render ins (accept (dry == "1") v named amount sim ins fin (send == "1")))
    | _, _, _, _, _ => some "bad-op"
  /- C24 clause 1 on the implementation's own outcome and the generator's ground truth:
     asked to sign (observed `walletprocesspsbt`) or approved in a dry run ⇒ advertised trade -/
  | ["offer.oracle.sign", _dry, named, amount, unspent, locked, info, ins, sim, outcome, processed] =>
    match amount.toNat?, parseView unspent locked info, parseIns ins, parseSim sim with
    | some amount, some v, some ins, some sim =>
      let approved := processed == "1" || outcome == "dry-ok" || outcome == "broadcast"
      some (toString (!approved || advertised v named amount sim ins))
    | _, _, _, _ => some "bad-op"
  /- per-position facts on the implementation's outcome: an approval means the ONE wallet input
     (at its real position) is unsigned and every other position is signed; an error naming a
     signed seller input names the wallet input and it is signed; an error naming an unsigned
     buyer input names a non-wallet position that is unsigned -/
  | ["offer.oracle.positions", unspent, locked, ins, outcome] =>
    match parseView unspent locked "-", parseIns ins with
    | some v, some ins =>
      let seller := sellerIndex v ins
      let pre := fun (p : String) => if outcome.startsWith p then some (outcome.drop p.length).toString else none
      if outcome == "dry-ok" || outcome == "broadcast" || outcome.startsWith "err_buyer-sig-changed:"
          || outcome == "err_seller-not-signed" then
        match seller with
        | some idx => some (toString (othersSigned idx ins 0))
        | none => some "false"
      else match pre "err_seller-signed:", pre "err_buyer-unsigned:", seller with
        | some op, _, some idx => some (toString (namesInput idx true false op ins 0))
        | _, some op, some idx => some (toString (namesInput idx false true op ins 0))
        | some _, _, none => some "false"
        | _, some _, none => some "false"
        | none, none, _ => some "true"
    | _, _ => some "bad-op"
  /- a dry run or a rejection never asks the node to sign or broadcast and leaves the mempool
     empty; a broadcast did both and left exactly one transaction -/
  | ["offer.oracle.quiet", dry, outcome, rpc, mempool] =>
    let ok :=
      if outcome == "broadcast" then dry == "0" && rpc == "11" && mempool == "1"
      else if dry == "1" then rpc == "00" && mempool == "0"
      else mempool == "0" && (rpc == "00" || rpc == "10")
    some (toString ok)
  /- C24 clause 2 on the transaction found in the node's mempool -/
  | ["offer.oracle.broadcast", unspent, locked, ins, tins, sameTxid] =>
    match parseView unspent locked "-", parseIns ins, (splitList tins ";").mapM parseTIn with
    | some v, some ins, some tins =>
      match sellerIndex v ins with
      | some idx => some (toString (sameTxid == "1" && unchangedAfter idx ins tins 0))
      | none => some "false"
    | _, _, _ => some "bad-op"
  | _ => none

end Driver.Offer
