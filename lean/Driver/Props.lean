import Driver.Common
import OrdModel.Codec.Decompress
/- Line handlers for the props engine (C28).  `none` = not one of ours.

Canonical text form of a `Properties` value (shared with harness/props/src/render.rs), as a
sequence of space separated tokens:
  P <txids-hex> <attrs> G <n> <item>*n
  <attrs> = A <title-hex | ~> <k> (<name-hex> <trait>)*k
  <item>  = I <txid-hex>:<index> | ~   <index | ~>   <attrs>
  <trait> = b0 | b1 | n | i<int> | s<hex>
-/
namespace Driver.Props
open Ord Ord.Cbor Ord.Props

def renderTrait : Trait → String
  | .bool b => if b then "b1" else "b0"
  | .int i => s!"i{i}"
  | .null => "n"
  | .str s => "s" ++ toHex s

def renderAttrs (a : Attributes) : List String :=
  ["A", (match a.title with | some t => toHex t | none => "~"), toString a.traits.length]
  ++ a.traits.flatMap (fun p => [toHex p.1, renderTrait p.2])

def renderItem (i : Item) : List String :=
  ["I", (match i.id with | some id => toHex id.txid ++ ":" ++ toString id.index | none => "~"),
        (match i.index with | some n => toString n | none => "~")]
  ++ renderAttrs i.attributes

def renderPropsToks (p : Properties) : List String :=
  ["P", toHex p.txids] ++ renderAttrs p.attributes ++ ["G", toString p.gallery.length]
  ++ p.gallery.flatMap renderItem

def renderProps (p : Properties) : String := " ".intercalate (renderPropsToks p)

def parseTrait (s : String) : Option Trait :=
  match s.toList with
  | ['b', '0'] => some (.bool false)
  | ['b', '1'] => some (.bool true)
  | ['n'] => some .null
  | 'i' :: r => (String.ofList r).toInt?.map .int
  | 's' :: r => (parseHex (String.ofList r)).map .str
  | _ => none

def parseTraits : Nat → List String → Option (List (Bytes × Trait) × List String)
  | 0, ts => some ([], ts)
  | k + 1, n :: v :: ts => do
    let name ← parseHex n
    let tr ← parseTrait v
    let (rest, ts') ← parseTraits k ts
    some ((name, tr) :: rest, ts')
  | _, _ => none

def parseAttrs : List String → Option (Attributes × List String)
  | "A" :: t :: k :: ts => do
    let title ← if t == "~" then some none else (parseHex t).map some
    let k ← k.toNat?
    let (traits, ts') ← parseTraits k ts
    some ({ title := title, traits := traits }, ts')
  | _ => none

def parseId (s : String) : Option (Option InscriptionId) :=
  if s == "~" then some none else
  match s.splitOn ":" with
  | [h, i] => do
    let txid ← parseHex h
    let index ← i.toNat?
    some (some { txid := txid, index := index })
  | _ => none

def parseItems : Nat → List String → Option (List Item × List String)
  | 0, ts => some ([], ts)
  | n + 1, "I" :: id :: idx :: ts => do
    let id ← parseId id
    let index ← if idx == "~" then some none else idx.toNat?.map some
    let (a, ts1) ← parseAttrs ts
    let (rest, ts2) ← parseItems n ts1
    some ({ id := id, attributes := a, index := index } :: rest, ts2)
  | _, _ => none

def parseProps : List String → Option (Properties × List String)
  | "P" :: tx :: ts => do
    let txids ← parseHex tx
    let (a, ts1) ← parseAttrs ts
    match ts1 with
    | "G" :: n :: ts2 => do
      let n ← n.toNat?
      let (items, ts3) ← parseItems n ts2
      some ({ gallery := items, attributes := a, txids := txids }, ts3)
    | _ => none
  | _ => none

def optHex : Option Bytes → String
  | none => "none"
  | some b => toHex b

def splitSlash (ts : List String) : List (List String) :=
  let rec go : List String → List String → List (List String) → List (List String)
    | [], cur, acc => (cur.reverse :: acc).reverse
    | "/" :: r, cur, acc => go r [] (cur.reverse :: acc)
    | t :: r, cur, acc => go r (t :: cur) acc
  go ts [] []

def parseChunks (s : String) : Option (List (Option Nat)) :=
  if s == "-" then some [] else
  (s.splitOn ",").mapM fun t => if t == "e" then some none else t.toNat?.map some

def handle : List String → Option String
  | "props.inline" :: ts =>
    match parseProps ts with
    | some (p, []) => some (optHex (toInline p))
    | _ => some "bad-op"
  | "props.packed" :: ts =>
    match parseProps ts with
    | some (p, []) =>
      match toPacked p with
      | .ok o => some (optHex o)
      | .err e => some s!"err {e}"
      | .panic _ => some "panic"
    | _ => some "bad-op"
  | ["props.dec", h] =>
    match parseHex h with
    | some bs =>
      match decProperties bs with
      | .ok p => some ("ok " ++ renderProps p)
      | .err _ => some "err"
      | .panic s => some s!"panic {s}"
    | none => some "bad-op"
  | ["props.from", h] =>
    match parseHex h with
    | some bs =>
      match fromCbor bs with
      | .ok p => some (renderProps p)
      | .err e => some s!"err {e}"
      | .panic s => some s!"panic {s}"
    | none => some "bad-op"
  | ["props.utf8", h] =>
    match parseHex h with
    | some bs => some (toString (validUtf8 bs))
    | none => some "bad-op"
  | ["props.skip", h] =>
    match parseHex h with
    | some bs =>
      match skip bs with
      | .ok r => some s!"ok {bs.length - r.length}"
      | .err _ => some "err"
      | .panic s => some s!"panic {s}"
    | none => some "bad-op"
  | ["props.idvalue", h, i] =>
    match parseHex h, i.toNat? with
    | some tx, some i => some (toHex (idValue { txid := tx, index := i }))
    | _, _ => some "bad-op"
  | ["props.decomp", inputLen, chunks] =>
    match inputLen.toNat?, parseChunks chunks with
    | some n, some cs =>
      match decompressLen (decompressMax n) cs 0 with
      | some k => some s!"some {k}"
      | none => some "none"
    | _, _ => some "bad-op"
  -- property predicates evaluated on the implementation's own outputs
  | "props.oracle.rt" :: ts =>
    match splitSlash ts with
    | [p, [inl], p1, [pk], p2] =>
      match parseProps p with
      | some (pp, []) =>
        if !wfProps pp then some "true" else
        let isDef := propsIsDefault pp
        some (toString (
          if isDef then inl == "none" && pk == "none"
          else inl != "none" && pk != "none" && pk != "panic" && p1 == p && p2 == p))
      | _ => some "bad-op"
    | _ => some "bad-op"
  | ["props.oracle.total", _, res] => some (toString (res != "panic"))
  | ["props.oracle.bound", inputLen, res] =>
    match inputLen.toNat? with
    | some n =>
      if res == "none" then some "true" else
      match res.toNat? with
      | some k => some (toString (decide (k ≤ min (30 * n) 4000000)))
      | none => some "bad-op"
    | none => some "bad-op"
  | ["props.oracle.unkenc", enc, isDefault] =>
    -- an encoding other than "br" must give the default value; "br" must decode the sample
    some (toString (if enc == "6272" then isDefault == "false" else isDefault == "true"))
  | "props.oracle.encrt" :: _ :: _ :: _ :: ts =>
    -- props.oracle.encrt <compress> <len=…> <ratio=…> <P> / <value> <encoding> / <P'>
    match splitSlash ts with
    | [p, [v, _], p1] =>
      match parseProps p with
      | some (pp, []) =>
        if !wfProps pp then some "true"
        else if propsIsDefault pp then some (toString (v == "none"))
        else some (toString (p1 == p))
      | _ => some "bad-op"
    | [_, ["err"], _] => some "true"
    | _ => some "bad-op"
  | _ => none

end Driver.Props
