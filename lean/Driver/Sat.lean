import Driver.Common
import OrdModel.Num.SatSpec
/- Line handlers for the sat engine (`eng_sat`): streams `sat` (C29), `notation` (C30),
`satparse` (sat part of C31).  `none` = not one of ours. -/
namespace Driver.Sat
open Ord Ord.SatNotation

def panicClass (site : String) : String := (site.splitOn "@").headD "other"

/-- field rendering: a value, or `panic:<class>` -/
def fld {α : Type} (f : α → String) : Outcome α → String
  | .ok a => f a
  | .err e => s!"err:{e}"
  | .panic s => s!"panic:{panicClass s}"

def chars (cs : List Char) : String := if cs.isEmpty then "-" else String.ofList cs

def degStr (d : Degree) : String := s!"{d.hour}.{d.minute}.{d.second}.{d.third}"

def attrsLine (n : Nat) : String :=
  let e := Sat.epoch n
  s!"e={e} pos={Sat.epochPosition n} h={fld toString (Sat.heightO n)} t={fld toString (Sat.thirdO n)} " ++
  s!"cy={Sat.cycle n} pe={fld toString (Sat.periodO n)} deg={fld degStr (Degree.ofSatO n)} " ++
  s!"dec={fld (fun (p : Nat × Nat) => s!"{p.1}.{p.2}") (Sat.decimalO n)} " ++
  s!"r={fld Rarity.name (Rarity.ofSatO n)} c={Sat.common n} ch={fld toString (Sat.charmsO n)} " ++
  s!"n={fld chars (Sat.nameO n)}"

def rarityOfName (s : String) : Option Rarity := Rarity.all.find? (fun r => r.name == s)

def natList (s : String) (sep : String) : Option (List Nat) := (s.splitOn sep).mapM String.toNat?

def kv (key : String) (tok : String) : Option String :=
  if tok.startsWith (key ++ "=") then some (tok.drop (key.length + 1)).toString else none

def parseAttrs : List String → Option SatSpec.Attrs
  | [e, pos, h, t, cy, pe, deg, dec, r, c, ch, n] => do
    let e ← (← kv "e" e).toNat?
    let pos ← (← kv "pos" pos).toNat?
    let h ← (← kv "h" h).toNat?
    let t ← (← kv "t" t).toNat?
    let cy ← (← kv "cy" cy).toNat?
    let pe ← (← kv "pe" pe).toNat?
    let deg ← natList (← kv "deg" deg) "."
    let dec ← natList (← kv "dec" dec) "."
    let r ← rarityOfName (← kv "r" r)
    let c ← match (← kv "c" c) with | "true" => some true | "false" => some false | _ => none
    let ch ← (← kv "ch" ch).toNat?
    let n ← kv "n" n
    match deg, dec with
    | [a, b, c', d], [x, y] =>
      some { epoch := e, epochPos := pos, height := h, third := t, cycle := cy, period := pe,
             degree := ⟨a, b, c', d⟩, decimal := (x, y), rarity := r, common := c, charms := ch,
             name := if n == "-" then [] else n.toList }
    | _, _ => none
  | _ => none

def resultStr : Outcome Nat → String
  | .ok v => s!"ok {v}"
  | .err e => s!"err {e}"
  | .panic s => s!"panic {panicClass s}"

/-- implementation result token `ok:<n>` / `err:<kind>` / `panic:<class>` -/
def parseResult (s : String) : Option (Outcome Nat) :=
  match s.splitOn ":" with
  | "ok" :: [v] => v.toNat?.map .ok
  | "err" :: rest => some (.err (":".intercalate rest))
  | "panic" :: rest => some (.panic (":".intercalate rest))
  | _ => none

def parseFloatClass : List String → Option FloatClass
  | [] => some .unknown
  | ["ferr"] => some .parseErr
  | ["nan"] => some .nan
  | ["neg"] => some .neg
  | ["over"] => some .over
  | ["in", n] => n.toNat?.map .inRange
  | _ => none

def hexChars (h : String) : Option (List Char) := (parseHexText h).map String.toList

def rtOne (print : Outcome (List Char)) : String :=
  match print with
  | .ok cs => (resultStr (fromStr cs .unknown)).replace " " ":"
  | .err e => s!"err:{e}"
  | .panic s => s!"panic:{panicClass s}"

def printDecimalO (n : Nat) : Outcome (List Char) :=
  match Sat.decimalO n with
  | .ok (h, k) => .ok (printDecimal h k)
  | .err e => .err e
  | .panic p => .panic p

def printDegreeO (n : Nat) : Outcome (List Char) :=
  match Degree.ofSatO n with
  | .ok d => .ok (printDegree d)
  | .err e => .err e
  | .panic p => .panic p

def hexOf (cs : List Char) : String := toHex (String.ofList cs).toUTF8.toList

def handle : List String → Option String
  /- C29: tables -/
  | ["table.const"] =>
    some s!"{Epoch.SUPPLY} {Epoch.LAST} {Epoch.COIN_VALUE} {Epoch.CYCLE_EPOCHS} {Epoch.DIFFCHANGE_INTERVAL} {Epoch.SUBSIDY_HALVING_INTERVAL} {Epoch.FIRST_POST_SUBSIDY} {Epoch.startingSats.length}"
  | ["table.epoch", e] =>
    match e.toNat? with
    | some e => some s!"{Epoch.startingSat e} {Epoch.subsidy e} {fld toString (Epoch.startingHeightO e)}"
    | none => some "bad-op"
  | ["table.rarity", i] =>
    match i.toNat? with
    | some i => match Rarity.all[i]? with
      | some r => some s!"{r.name} {r.supply} {r.toU8}"
      | none => some "none"
    | none => some "bad-op"
  | ["table.charm", i] =>
    match i.toNat? with
    | some i => match Charm.all[i]? with
      | some c => some s!"{c.name} {c.bit} {c.flag}"
      | none => some "none"
    | none => some "bad-op"
  | ["height.attrs", h] =>
    match h.toNat? with
    | some h => some s!"{Height.startingSat h} {Height.subsidy h} {Epoch.ofHeight h} {Height.periodOffset h}"
    | none => some "bad-op"
  | ["sat.attrs", n] =>
    match n.toNat? with
    | some n => some (attrsLine n)
    | none => some "bad-op"
  | "sat.oracle.attrs" :: n :: rest =>
    match n.toNat?, parseAttrs rest with
    | some n, some a => some (toString (decide (n < SatSpec.supply) && SatSpec.checkAttrs n a))
    | _, _ => some "bad-op"
  | ["height.oracle.start", h, start, sub, next] =>
    match h.toNat?, start.toNat?, sub.toNat?, next.toNat? with
    | some h, some s, some b, some n => some (toString (SatSpec.checkHeight h s b n))
    | _, _, _, _ => some "bad-op"
  | ["table.oracle.supply", supply, counts] =>
    -- SUPPLY and the rarity table against the closed-form counts
    match supply.toNat?, natList counts "," with
    | some s, some [c, u, r, e, l, m] =>
      some (toString (s == SatSpec.supply && m == 1 && l == 6930000 / 1260000 &&
        e == 6930000 / 210000 - (l + m) && r == (6930000 + 2015) / 2016 - (l + m) &&
        u == 6930000 - (r + e + l + m) && c == s - 6930000))
    | _, _ => some "bad-op"
  /- C30: notations -/
  | ["notation.print", n] =>
    match n.toNat? with
    | some n =>
      some s!"{hexOf (printInteger n)} {fld hexOf (printDecimalO n)} {fld hexOf (printDegreeO n)} {fld hexOf (Sat.nameO n)}"
    | none => some "bad-op"
  | ["notation.rt", n] =>
    match n.toNat? with
    | some n =>
      some s!"{rtOne (.ok (printInteger n))} {rtOne (printDecimalO n)} {rtOne (printDegreeO n)} {rtOne (Sat.nameO n)}"
    | none => some "bad-op"
  | "notation.oracle.rt" :: n :: parsed =>
    -- every notation the implementation printed parsed back (by the implementation) to `n`
    match n.toNat? with
    | some n => some (toString (decide (n < SatSpec.supply) && parsed.length == 4 && parsed.all (· == s!"ok:{n}")))
    | none => some "bad-op"
  | ["notation.oracle.pct", n, parsed] =>
    match n.toNat? with
    | some n => some (toString (parsed == s!"ok:{n}"))
    | none => some "bad-op"
  /- C31 (sat part): Sat::from_str -/
  | op :: h :: fc =>
    if op.startsWith "satparse.oracle." then
      match fc with
      | h' :: rest =>
        -- h = label, h' = hex text, rest = [float class…] ++ [impl result]
        match hexChars h', rest.getLast?, parseFloatClass rest.dropLast with
        | some cs, some res, some fc =>
          match parseResult res with
          | some r =>
            if op == "satparse.oracle.total" then some (toString (!r.isPanic))
            else if op == "satparse.oracle.sound" then
              some (toString (match r with | .ok v => denotes cs fc v | _ => true))
            else some "bad-op"
          | none => some "bad-op"
        | _, _, _ => some "bad-op"
      | [] => some "bad-op"
    else if op.startsWith "satparse." then
      match hexChars h, parseFloatClass fc with
      | some cs, some fc =>
        if op == "satparse." ++ (dispatch cs).toString then some (resultStr (fromStr cs fc))
        else some s!"label-mismatch {(dispatch cs).toString}"
      | _, _ => some "bad-op"
    else none
  | _ => none

end Driver.Sat
