import Driver.IxSats
def main : IO Unit := Driver.run (Driver.Index.withExt Driver.IxSats.handle) {}
