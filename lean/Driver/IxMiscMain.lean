import Driver.IxMisc
def main : IO Unit := Driver.run (Driver.Index.withExt Driver.IxMisc.handle) {}
