import Driver.IxMiscC17
import Driver.IxMiscC37
import Driver.IxMiscC16
/- Extension handlers of the `ixmisc` index group: C17 (address index), C37 (event replay),
C16 (indexing never fails); one sub-module per property. -/
namespace Driver.IxMisc

def handle (s : Driver.Index.S) (ts : List String) : Option String :=
  match Driver.IxMiscC17.handle s ts with
  | some r => some r
  | none =>
    match Driver.IxMiscC37.handle s ts with
    | some r => some r
    | none => Driver.IxMiscC16.handle s ts

end Driver.IxMisc
