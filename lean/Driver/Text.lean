import Driver.Common
import OrdModel.Num.Pile
/- Line handlers for the text engine (`eng_text`): decimal amounts, pile printing, and the
text parsers of work stream "text".  `none` = not one of ours. -/
namespace Driver.Text
open Ord Ord.Text

/-- panic sites are `class@detail`; only the class travels on the wire -/
def panicClass (site : String) : String := (site.splitOn "@").headD site

def renderOutcome {α : Type} (f : α → String) : Outcome α → String
  | .ok a => s!"ok {f a}"
  | .err e => s!"err {e.replace " " "-"}"
  | .panic s => s!"panic {panicClass s}"

def hexOfChars (cs : List Char) : String := toHex (String.ofList cs).toUTF8.data.toList

def textArg (h : String) : Option (List Char) := (parseHexText h).map String.toList

def decStr (d : Decimal.Dec) : String := s!"{d.value} {d.scale}"

/-- `ok:105:2` / `err:…` / `panic:…` tokens as produced by the harness (`' '` → `':'`) -/
def splitRes (s : String) : List String := s.splitOn ":"

def handleDecimal : List String → Option String
  | ["dec.parse", h] =>
    match textArg h with
    | some s => some (renderOutcome decStr (Decimal.fromStr s))
    | none => some "bad-op"
  | ["dec.toint", v, sc, d] =>
    match v.toNat?, sc.toNat?, d.toNat? with
    | some v, some sc, some d => some (renderOutcome toString (Decimal.toInteger ⟨v, sc⟩ d))
    | _, _, _ => some "bad-op"
  | ["dec.display", v, sc] =>
    match v.toNat?, sc.toNat? with
    | some v, some sc => some (renderOutcome hexOfChars (Decimal.display ⟨v, sc⟩))
    | _, _ => some "bad-op"
  | ["pile.num", a, d] =>
    match a.toNat?, d.toNat? with
    | some a, some d => some (renderOutcome hexOfChars (Pile.printNumber a d))
    | _, _ => some "bad-op"
  -- C34 clause 1 on the implementation's own outputs: the printed number denotes a / 10^d and
  -- parsing it back at divisibility d gave `ok a`
  | ["c34.oracle.rt", a, d, printed, res] =>
    match a.toNat?, d.toNat?, textArg printed with
    | some a, some d, some s =>
      let denotesOk := match Decimal.denotation? s with
        | some (num, den) => num * 10 ^ d == a * 10 ^ den
        | none => false
      some (toString (denotesOk && res == s!"ok:{a}"))
    | _, _, _ => some "bad-op"
  -- C34 clause 2 / C31 (decimal): the implementation's parse answer and conversion answer
  | ["c34.oracle.toint", h, d, pres, tres] =>
    match textArg h, d.toNat? with
    | some s, some d =>
      match splitRes pres with
      | ["ok", v, sc] =>
        match v.toNat?, sc.toNat? with
        | some v, some sc =>
          if !Decimal.accepts s v sc then some "false" else
          match Decimal.denotation? s, splitRes tres with
          | some (num, den), ["ok", n] =>
            match n.toNat? with
            | some n => some (toString (n * 10 ^ den == num * 10 ^ d && n < Decimal.U128))
            | none => some "bad-op"
          | some (num, den), ["err", "excessive-precision"] =>
            -- justified: denoted · 10^d is not an integer
            some (toString ((num * 10 ^ d) % 10 ^ den != 0))
          | some (num, den), ["err", "amount-out-of-range"] =>
            some (toString (decide (Decimal.U128 * 10 ^ den ≤ num * 10 ^ d)))
          | some (num, den), ["err", "divisibility-out-of-range"] =>
            -- only possible for divisibilities outside 0..=38
            some (toString (decide (38 < d) || decide (Decimal.U128 * 10 ^ den ≤ num * 10 ^ d)))
          | _, _ => some "false"
        | _, _ => some "bad-op"
      | "err" :: _ => some "true"      -- rejecting is always allowed
      | _ => some "false"              -- panic
    | _, _ => some "bad-op"
  -- C31 (decimal): never panics; accepts only what the string denotes
  | ["c31.oracle.dec", h, pres] =>
    match textArg h with
    | some s =>
      match splitRes pres with
      | ["ok", v, sc] =>
        match v.toNat?, sc.toNat? with
        | some v, some sc => some (toString (Decimal.accepts s v sc))
        | _, _ => some "bad-op"
      | "err" :: _ => some "true"
      | _ => some "false"
    | none => some "bad-op"
  | _ => none

def handle (ts : List String) : Option String :=
  handleDecimal ts

end Driver.Text
