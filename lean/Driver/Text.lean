import Driver.Common
import OrdModel.Num.Pile
import OrdModel.Num.Decimal_fixed
import OrdModel.Text.Outgoing
import OrdModel.Text.Query
/- Line handlers for the text engine (`eng_text`): decimal amounts, pile printing, and the
text parsers of work stream "text".  `none` = not one of ours. -/
namespace Driver.Text
open Ord Ord.Text

/-- panic sites are `class@detail`; only the class travels on the wire -/
def panicClass (site : String) : String := (site.splitOn "@").headD site

def renderOutcome {α : Type} (f : α → String) : Outcome α → String
  | .ok a => s!"ok {f a}"
  | .err e => s!"err {e.replace " " "-"}"
  | .panic s => s!"panic {panicClass s}"

def hexOfChars (cs : List Char) : String := toHex (String.ofList cs).toUTF8.data.toList

def textArg (h : String) : Option (List Char) := (parseHexText h).map String.toList

def decStr (d : Decimal.Dec) : String := s!"{d.value} {d.scale}"

/-- `ok:105:2` / `err:…` / `panic:…` tokens as produced by the harness (`' '` → `':'`) -/
def splitRes (s : String) : List String := s.splitOn ":"

/-- **SWITCH**: the model of `Decimal::from_str` that `dec.parse` (the real code) is compared with.
Before the repair (`notes/fix-decimal.diff`): `Decimal.fromStr`.  Since the repair was applied to
/repo: `DecimalFixed.fromStr`. -/
def decFromStr : List Char → Outcome Decimal.Dec := DecimalFixed.fromStr

def handleDecimal : List String → Option String
  | ["dec.parse", h] =>
    match textArg h with
    | some s => some (renderOutcome decStr (decFromStr s))
    | none => some "bad-op"
  | ["decfix.parse", h] =>
    match textArg h with
    | some s => some (renderOutcome decStr (DecimalFixed.fromStr s))
    | none => some "bad-op"
  | ["dec.toint", v, sc, d] =>
    match v.toNat?, sc.toNat?, d.toNat? with
    | some v, some sc, some d => some (renderOutcome toString (Decimal.toInteger ⟨v, sc⟩ d))
    | _, _, _ => some "bad-op"
  | ["dec.display", v, sc] =>
    match v.toNat?, sc.toNat? with
    | some v, some sc => some (renderOutcome hexOfChars (Decimal.display ⟨v, sc⟩))
    | _, _ => some "bad-op"
  | ["pile.num", a, d] =>
    match a.toNat?, d.toNat? with
    | some a, some d => some (renderOutcome hexOfChars (Pile.printNumber a d))
    | _, _ => some "bad-op"
  -- C34 clause 1 on the implementation's own outputs: the printed number denotes a / 10^d and
  -- parsing it back at divisibility d gave `ok a`
  | ["c34.oracle.rt", a, d, printed, res] =>
    match a.toNat?, d.toNat?, textArg printed with
    | some a, some d, some s =>
      let denotesOk := match Decimal.denotation? s with
        | some (num, den) => num * 10 ^ d == a * 10 ^ den
        | none => false
      some (toString (denotesOk && res == s!"ok:{a}"))
    | _, _, _ => some "bad-op"
  -- C34 clause 2 / C31 (decimal): the implementation's parse answer and conversion answer
  | ["c34.oracle.toint", h, d, pres, tres] =>
    match textArg h, d.toNat? with
    | some s, some d =>
      match splitRes pres with
      | ["ok", v, sc] =>
        match v.toNat?, sc.toNat? with
        | some v, some sc =>
          if !Decimal.accepts s v sc then some "false" else
          match Decimal.denotation? s, splitRes tres with
          | some (num, den), ["ok", n] =>
            match n.toNat? with
            | some n => some (toString (n * 10 ^ den == num * 10 ^ d && n < Decimal.U128))
            | none => some "bad-op"
          | some (num, den), ["err", "excessive-precision"] =>
            -- justified: denoted · 10^d is not an integer
            some (toString ((num * 10 ^ d) % 10 ^ den != 0))
          | some (num, den), ["err", "amount-out-of-range"] =>
            some (toString (decide (Decimal.U128 * 10 ^ den ≤ num * 10 ^ d)))
          | some (num, den), ["err", "divisibility-out-of-range"] =>
            -- only possible for divisibilities outside 0..=38
            some (toString (decide (38 < d) || decide (Decimal.U128 * 10 ^ den ≤ num * 10 ^ d)))
          | _, _ => some "false"
        | _, _ => some "bad-op"
      | "err" :: _ => some "true"      -- rejecting is always allowed
      | _ => some "false"              -- panic
    | _, _ => some "bad-op"
  -- C31 (decimal): never panics; accepts only what the string denotes
  | ["c31.oracle.dec", h, pres] =>
    match textArg h with
    | some s =>
      match splitRes pres with
      | ["ok", v, sc] =>
        match v.toNat?, sc.toNat? with
        | some v, some sc => some (toString (Decimal.accepts s v sc))
        | _, _ => some "bad-op"
      | "err" :: _ => some "true"
      | _ => some "false"
    | none => some "bad-op"
  | _ => none

/-! ### the other text parsers -/

def spStr (v : SatPoint.Val) : String := s!"{String.ofList v.txid}:{v.vout}:{v.offset}"
def iidStr (v : InscriptionId.Val) : String := s!"{String.ofList v.txid}i{v.index}"

def outStr : Outgoing.Val → String
  | .amountDelegated => "amount"
  | .inscriptionId v => s!"inscription {iidStr v}"
  | .rune v sc r sp => s!"rune {v} {sc} {r} {sp}"
  | .sat n => s!"sat {n}"
  | .satPoint v => s!"satpoint {spStr v}"

def qbStr : Query.Block → String
  | .height h => s!"height {h}"
  | .hash h => s!"hash {String.ofList h}"

def qiStr : Query.Inscription → String
  | .id v => s!"id {iidStr v}"
  | .number n => s!"number {n}"
  | .sat n => s!"sat {n}"

def qrStr : Query.Rune → String
  | .spaced r sp => s!"spaced {r} {sp}"
  | .id b t => s!"id {b} {t}"
  | .number n => s!"number {n}"

def rangesStr (f : Char → Bool) : String := Id.run do
  -- maximal runs of code points (surrogates skipped, as `char::from_u32` does) on which `f` holds
  let mut out : Array String := #[]
  let mut start : Option Nat := none
  let mut last : Nat := 0
  for cp in [0:0x110000] do
    if 0xD800 ≤ cp ∧ cp ≤ 0xDFFF then continue
    if f (Char.ofNat cp) then
      match start with
      | some _ =>
        if last + 1 == cp then last := cp
        else
          out := out.push s!"{start.get!}-{last}"
          start := some cp; last := cp
      | none => start := some cp; last := cp
  match start with
  | some st => out := out.push s!"{st}-{last}"
  | none => pure ()
  return ",".intercalate out.toList

def parseSp (t : String) : Option SatPoint.Val :=
  match t.splitOn ":" with
  | [tx, v, o] => do some ⟨tx.toList, ← v.toNat?, ← o.toNat?⟩
  | _ => none

def parseIid (t : String) : Option InscriptionId.Val :=
  match t.splitOn "i" with
  | [tx, ix] => do some ⟨tx.toList, ← ix.toNat?⟩
  | _ => none

/-- independent semantics of a sat name: bijective base 26, `SUPPLY − value` -/
def satNameCheck (s : List Char) (n : Nat) : Bool :=
  1 ≤ s.length && s.all Regex.isLower &&
  (let v := s.foldl (fun a c => a * 26 + (c.toNat - 96)) 0
   decide (v ≤ Sub.SUPPLY) && n == Sub.SUPPLY - v)

/-- independent semantics of a spaced rune: letters in bijective base 26 minus one; spacer bit
`k` set iff a spacer follows letter `k`; no leading / trailing / doubled spacer -/
def spacedRuneCheck (s : List Char) (r sp : Nat) : Bool :=
  let letters := s.filter Sub.isUpper
  let okChars := s.all (fun c => Sub.isUpper c || c == '.' || c == '•')
  let v := letters.foldl (fun a c => a * 26 + (c.toNat - 64)) 0
  -- positions: walk the string, collecting `lettersBefore - 1` for each spacer
  let (bits, _, good) := s.foldl (fun (st : List Nat × Nat × Bool) c =>
      let (bits, n, good) := st
      if Sub.isUpper c then (bits, n + 1, good)
      else if n = 0 ∨ bits.contains (n - 1) then (bits, n, false)
      else ((n - 1) :: bits, n, good)) ([], 0, true)
  okChars && good && letters ≠ [] && !bits.contains (letters.length - 1) &&
  r + 1 == v && r < 2 ^ 128 && sp == bits.foldl (fun a k => a + 2 ^ k) 0

def intTok (t : String) : Option Int :=
  if t.startsWith "-" then (t.drop 1).toNat?.map (fun n => - Int.ofNat n) else t.toNat?.map Int.ofNat

def oracleParsers : List String → Option String
  | ["c31.oracle.sp", h, res] =>
    match textArg h, res.splitOn "|" with
    | some s, ["ok", v] => match parseSp v with
      | some v => some (toString (SatPoint.check s v))
      | none => some "bad-op"
    | some _, "err" :: _ => some "true"
    | some _, _ => some "false"
    | none, _ => some "bad-op"
  | ["c31.oracle.iid", h, res] =>
    match textArg h, res.splitOn "|" with
    | some s, ["ok", v] => match parseIid v with
      | some v => some (toString (InscriptionId.check s v))
      | none => some "bad-op"
    | some _, "err" :: _ => some "true"
    | some _, _ => some "false"
    | none, _ => some "bad-op"
  | ["c31.oracle.out", h, res] =>
    match textArg h, res.splitOn "|" with
    | some s, ["ok", "sat", n] => some (toString (match n.toNat? with | some n => satNameCheck s n | none => false))
    | some s, ["ok", "satpoint", v] => some (toString (match parseSp v with | some v => SatPoint.check s v | none => false))
    | some s, ["ok", "inscription", v] => some (toString (match parseIid v with | some v => InscriptionId.check s v | none => false))
    | some s, ["ok", "rune", v, sc, r, sp] =>
      match v.toNat?, sc.toNat?, r.toNat?, sp.toNat? with
      | some v, some sc, some r, some sp =>
        -- `NUMBER ws* : ws* NAME`
        match splitOnce ':' s with
        | some (a, b) =>
          let num := (a.reverse.dropWhile Regex.isUSpace).reverse
          let name := b.dropWhile Regex.isUSpace
          some (toString (Decimal.accepts num v sc && spacedRuneCheck name r sp))
        | none => some "false"
      | _, _, _, _ => some "bad-op"
    | some _, ["delegated", "amount"] => some "true"
    | some _, "err" :: _ => some "true"
    | some _, _ => some "false"
    | none, _ => some "bad-op"
  | ["c31.oracle.qb", h, res] =>
    match textArg h, res.splitOn "|" with
    | some s, ["ok", "height", n] =>
      some (toString (match n.toNat? with
        | some n => numeralVal? s == some n && n < 2 ^ 32 && utf8Len s != 64
        | none => false))
    | some s, ["ok", "hash", v] =>
      some (toString (s.length == 64 && s.all isHexDigit && v.toList == s.map toLowerAscii))
    | some _, "err" :: _ => some "true"
    | some _, _ => some "false"
    | none, _ => some "bad-op"
  | ["c31.oracle.qi", h, res] =>
    match textArg h, res.splitOn "|" with
    | some s, ["ok", "id", v] => some (toString (match parseIid v with | some v => InscriptionId.check s v | none => false))
    | some s, ["ok", "number", n] =>
      some (toString (match intTok n with
        | some n => signedNumeralVal? s == some n && decide (-(2:Int) ^ 31 ≤ n) && decide (n < (2:Int) ^ 31)
        | none => false))
    | some s, ["ok", "sat", n] => some (toString (match n.toNat? with | some n => satNameCheck s n | none => false))
    | some _, "err" :: _ => some "true"
    | some _, _ => some "false"
    | none, _ => some "bad-op"
  | ["c31.oracle.qr", h, res] =>
    match textArg h, res.splitOn "|" with
    | some s, ["ok", "id", b, t] =>
      match b.toNat?, t.toNat?, splitOnce ':' s with
      | some b, some t, some (bs, ts) =>
        some (toString (numeralVal? bs == some b && numeralVal? ts == some t && b < 2 ^ 64 && t < 2 ^ 32))
      | _, _, _ => some "false"
    | some s, ["ok", "number", n] =>
      some (toString (match n.toNat? with | some n => numeralVal? s == some n && n < 2 ^ 64 | none => false))
    | some s, ["ok", "spaced", r, sp] =>
      some (toString (match r.toNat?, sp.toNat? with | some r, some sp => spacedRuneCheck s r sp | _, _ => false))
    | some _, "err" :: _ => some "true"
    | some _, _ => some "false"
    | none, _ => some "bad-op"
  | _ => none

def handleParsers : List String → Option String
  | ["sp.parse", h] => (textArg h).map (fun s => renderOutcome spStr (SatPoint.parse s))
  | ["iid.parse", h] => (textArg h).map (fun s => renderOutcome iidStr (InscriptionId.parse s))
  | ["out.parse", h] =>
    (textArg h).map (fun s =>
      match Outgoing.parse s with
      | .ok .amountDelegated => "delegated amount"
      | r => renderOutcome outStr r)
  | ["qb.parse", h] => (textArg h).map (fun s => renderOutcome qbStr (Query.parseBlock s))
  | ["qi.parse", h] => (textArg h).map (fun s => renderOutcome qiStr (Query.parseInscription s))
  | ["qr.parse", h] => (textArg h).map (fun s => renderOutcome qrStr (Query.parseRune s))
  | ["re.table.digit"] => some (rangesStr Regex.isUDigit)
  | ["re.table.space"] => some (rangesStr Regex.isUSpace)
  | ts => oracleParsers ts

def handle (ts : List String) : Option String :=
  match handleDecimal ts with
  | some r => some r
  | none => handleParsers ts

end Driver.Text
