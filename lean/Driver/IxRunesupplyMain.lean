import Driver.IxRunesupply
def main : IO Unit := Driver.run Driver.IxRunesupply.step {}
