import Driver.Flagsx
def main : IO Unit := Driver.run (Driver.Index.withExt Driver.Flagsx.handle) {}
