import Driver.Flagsx
def main : IO Unit := Driver.run Driver.Flagsx.step {}
