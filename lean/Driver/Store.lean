import Driver.Index
import OrdModel.Index.Store
import OrdModel.Store.Protocol
/-
Driver for the concrete (cache + commit) layer.  Same block lines as the index driver, but
`endblock` indexes into the cache without flushing and `commit` flushes, mirroring where the
real updater committed (taken from the implementation's trace points).
  store.oracle.same <a> <b> …   → "true" iff the two content digests are equal
-/
namespace Driver.Store
open Ord Ord.Index Driver.Index

structure SS where
  cfg : Cfg := default
  store : Ord.Index.Store := {}
  pending : Option Block := none
  txs : List Tx := []
  dead : Option String := none
  /-- commit/savepoint/reorg protocol model (block ids instead of content) -/
  pset : Ord.Store.Settings := ⟨5000, 10, 2, false⟩
  pdb : Ord.Store.Db := Ord.Store.Db.empty
  deriving Inhabited

def renderEv : Ord.Store.Ev → String
  | .commit h => s!"C{h}"
  | .savepointDeleted h => s!"D{h}"
  | .savepointCreated h => s!"S{h}"
  | .restored h => s!"R{h}"

def natList (s : String) : Option (List Nat) :=
  if s == "-" then some [] else (s.splitOn ",").mapM (·.toNat?)

def step (s : SS) : List String → SS × String
  | "cfg" :: ts =>
    match parseCfg ts with
    | some c => ({ cfg := c }, "ok")
    | none => (s, "bad-op")
  | ["block", h, t, hash, minr] =>
    match h.toNat?, t.toNat?, parseHexNat hash, minr.toNat? with
    | some h, some t, some hash, some m => ({ s with pending := some ⟨h, t, hash, m, []⟩, txs := [] }, "ok")
    | _, _, _, _ => (s, "bad-op")
  | "tx" :: ts =>
    match parseTx ts with
    | some tx => ({ s with txs := tx :: s.txs }, "ok")
    | none => (s, "bad-op")
  | ["endblock"] =>
    match s.pending with
    | none => (s, "bad-op")
    | some b =>
      let blk := { b with txs := s.txs.reverse }
      match indexBlockC s.cfg s.store blk with
      | .ok (st', _) => ({ s with store := st', pending := none, txs := [] }, "ok")
      | .panic site => ({ s with pending := none, txs := [], dead := some site }, s!"panic {site}")
      | .err e => ({ s with pending := none, txs := [], dead := some e }, s!"err {e}")
  | ["commit"] => ({ s with store := s.store.commit s.cfg }, "ok")
  -- a reorg rollback / reopen after a crash: uncommitted work is gone; the harness re-sends
  -- the blocks from the committed height on, so only the cache needs dropping here
  | ["reset", h] =>
    match h.toNat? with
    | some _ => (s, "bad-op")
    | none => (s, "bad-op")
  | ["dump", name] => (s, renderSection s.cfg s.store.st name)
  | ["proto.reset", ci, si, ms, integ] =>
    match ci.toNat?, si.toNat?, ms.toNat? with
    | some ci, some si, some ms => ({ s with pset := ⟨ci, si, ms, integ == "1"⟩, pdb := Ord.Store.Db.empty }, "ok")
    | _, _, _ => (s, "bad-op")
  -- a fresh process reopened the database: nothing in the protocol state changes
  | ["proto.update", headers, rounds, node] =>
    match headers.toNat?, rounds.toNat?, natList node with
    | some hd, some rounds, some node =>
      let (db, evs, out) := Ord.Store.update s.pset hd node rounds s.pdb []
      let o := match out with | .ok => "ok" | .unrecoverable => "unrecoverable" | .outOfFuel => "hang"
      let evs' := if out == .outOfFuel then [] else evs
      ({ s with pdb := db },
        s!"{o} chain={joinOr (db.cur.chain.map toString) ","} lastsp={db.cur.lastSavepointHeight} ev={joinOr (evs'.map renderEv) ","}")
    | _, _, _ => (s, "bad-op")
  | "store.oracle.same" :: a :: b :: _ => (s, toString (a == b))
  | "store.oracle.true" :: v :: _ => (s, toString (v == "1"))
  | _ => (s, "bad-op")

end Driver.Store
