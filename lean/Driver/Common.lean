/-
Shared plumbing for the model drivers: one request per line on stdin, one answer per line on
stdout.  Tokens are separated by single spaces; byte strings are lower-case hex ("-" = empty).
-/
namespace Driver

def hexDigit (c : Char) : Option Nat :=
  if '0' ≤ c ∧ c ≤ '9' then some (c.toNat - '0'.toNat)
  else if 'a' ≤ c ∧ c ≤ 'f' then some (c.toNat - 'a'.toNat + 10)
  else if 'A' ≤ c ∧ c ≤ 'F' then some (c.toNat - 'A'.toNat + 10)
  else none

def parseHexAux : List Char → List UInt8 → Option (List UInt8)
  | [], acc => some acc.reverse
  | [_], _ => none
  | a :: b :: rest, acc =>
    match hexDigit a, hexDigit b with
    | some x, some y => parseHexAux rest (UInt8.ofNat (x * 16 + y) :: acc)
    | _, _ => none

/-- "-" is the empty byte string -/
def parseHex (s : String) : Option (List UInt8) :=
  if s == "-" then some [] else parseHexAux s.toList []

def hexChar (n : Nat) : Char :=
  if n < 10 then Char.ofNat ('0'.toNat + n) else Char.ofNat ('a'.toNat + n - 10)

def toHex (bs : List UInt8) : String :=
  if bs.isEmpty then "-" else
  String.ofList (bs.foldr (fun b acc => hexChar (b.toNat / 16) :: hexChar (b.toNat % 16) :: acc) [])

/-- hex-encoded UTF-8 text → String (the harness hex-encodes every text argument so that
spaces, newlines and non-ASCII survive the line protocol) -/
def parseHexText (s : String) : Option String := do
  let bs ← parseHex s
  String.fromUTF8? (ByteArray.mk bs.toArray)

def tokens (line : String) : List String :=
  (line.trimAscii.toString.splitOn " ").filter (· ≠ "")

partial def loop (h : IO.FS.Stream) (out : IO.FS.Stream) (step : σ → List String → σ × String) (s : σ) : IO Unit := do
  let line ← h.getLine
  if line.isEmpty then
    out.flush
    return ()
  let (s', o) := step s (tokens line)
  out.putStrLn o
  loop h out step s'

def run (step : σ → List String → σ × String) (init : σ) : IO Unit := do
  let stdin ← IO.getStdin
  let stdout ← IO.getStdout
  loop stdin stdout step init

/-- stateless variant -/
def runPure (step : List String → String) : IO Unit :=
  run (σ := Unit) (fun _ ts => ((), step ts)) ()

end Driver
