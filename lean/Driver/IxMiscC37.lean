import Driver.Index
import Driver.IndexRows
/- C37 handlers (event replay) -/
namespace Driver.IxMiscC37
open Ord Ord.Index Driver.Index

def handle (_s : S) : List String → Option String
  | _ => none

end Driver.IxMiscC37
