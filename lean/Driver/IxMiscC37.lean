import Driver.Index
import Driver.IndexRows
import Driver.IxMiscC17
import OrdModel.Index.Replay
/- C37 handlers (event replay): `ix.oracle.replay` (see harness/ix_misc/src/c37.rs).

  ix.oracle.replay <cumulative implementation events, '|'-separated>
     ## <chain: one row per block `<height> <ntx> {<txid> <nin> {<prev-txid>:<vout>} <opreturn flags|->}`>
     ## <implementation `ins` rows> ## <implementation `runes` rows> ## <UnboundInscriptions>

The handler parses the event text (`renderEvent` format), rebuilds a skeleton chain (txid,
inputs, OP_RETURN flag per output), runs `Ord.Index.replay` (the function the C37 theorems are
about) and compares with the projection read from the implementation's own dump rows. -/
namespace Driver.IxMiscC37
open Ord Ord.Index Driver.Index

def parseOutPoint (s : String) : Option OutPoint :=
  match s.splitOn ":" with
  | [t, v] => do some ⟨← parseHexNat t, ← v.toNat?⟩
  | _ => none

def parseSatPoint (s : String) : Option SatPoint :=
  match s.splitOn ":" with
  | [t, v, o] => do some ⟨⟨← parseHexNat t, ← v.toNat?⟩, ← o.toNat?⟩
  | _ => none

def parseInsId (s : String) : Option InscriptionId :=
  match s.splitOn "i" with
  | [t, n] => do some ⟨← parseHexNat t, ← n.toNat?⟩
  | _ => none

/-- one event in `renderEvent` / `env::render_event` text, already split into tokens -/
def parseEvent (r : List String) : Option Event :=
  let f := fun k => Driver.Rows.field k r
  let n := fun k => Driver.Rows.fieldNat k r
  match r with
  | "InscriptionCreated" :: _ => do
    let loc ← f "loc"
    let loc ← if loc == "-" then some none else (parseSatPoint loc).map some
    let parents ← (Driver.Rows.commaList (← f "parents")).mapM parseInsId
    some (.inscriptionCreated (← n "h") (← n "charms") (← (f "id").bind parseInsId) loc parents (← n "seq"))
  | "InscriptionTransferred" :: _ => do
    some (.inscriptionTransferred (← n "h") (← (f "id").bind parseInsId) (← (f "new").bind parseSatPoint)
      (← (f "old").bind parseSatPoint) (← n "seq"))
  | "RuneBurned" :: _ => do
    some (.runeBurned (← n "amount") (← n "h") (← (f "rune").bind parseRuneId) (← (f "txid").bind parseHexNat))
  | "RuneEtched" :: _ => do
    some (.runeEtched (← n "h") (← (f "rune").bind parseRuneId) (← (f "txid").bind parseHexNat))
  | "RuneMinted" :: _ => do
    some (.runeMinted (← n "amount") (← n "h") (← (f "rune").bind parseRuneId) (← (f "txid").bind parseHexNat))
  | "RuneTransferred" :: _ => do
    some (.runeTransferred (← n "amount") (← n "h") (← (f "outpoint").bind parseOutPoint)
      (← (f "rune").bind parseRuneId) (← (f "txid").bind parseHexNat))
  | _ => none

def parsePrev : List String → Option (TxIn × List String)
  | p :: rest => do some (⟨← parseOutPoint p, false, none, []⟩, rest)
  | _ => none

/-- `<txid> <nin> {prev} <flags|->` -/
def parseSkelTx : List String → Option (Tx × List String)
  | txid :: nin :: rest => do
    let (ins, rest) ← takeN 0 parsePrev (← nin.toNat?) rest []
    match rest with
    | flags :: rest =>
      let outs : List TxOut := if flags == "-" then [] else flags.toList.map (fun c => ⟨0, c == '1', []⟩)
      some (⟨← parseHexNat txid, ins, outs, [], none, 0⟩, rest)
    | _ => none
  | _ => none

def parseSkelBlock : List String → Option Block
  | h :: ntx :: rest => do
    let (txs, rest) ← takeN 0 parseSkelTx (← ntx.toNat?) rest []
    if rest.isEmpty then some ⟨← h.toNat?, 0, 0, 0, txs⟩ else none
  | _ => none

def parseBalRow (s : String) : Option (List (RuneId × Nat)) :=
  (Driver.Rows.commaList s).mapM (fun p => match p.splitOn "=" with
    | [id, a] => do some (← parseRuneId id, ← a.toNat?)
    | _ => none)

/-- the projection (`Ord.Index.project`) read from the implementation's dump rows -/
def projectRows (ins runes : List (List String)) (unbound : Nat) : Option ReplayState := do
  let loc ← (Driver.Rows.withHead "seq2satpoint" ins).mapM (fun r => match r with
    | [s, sp] => do some (← s.toNat?, ← parseSatPoint sp)
    | _ => none)
  let entries ← (Driver.Rows.withHead "entry" ins).mapM (fun r => match r with
    | s :: rest => do
      some (← s.toNat?, ← Driver.Rows.fieldNat "charms" rest, ← (Driver.Rows.field "id" rest).bind parseInsId)
    | _ => none)
  let rs ← (Driver.Rows.withHead "rune" runes).mapM (fun r => match r with
    | id :: rest => do
      some (← parseRuneId id, ← Driver.Rows.fieldNat "mints" rest, ← Driver.Rows.fieldNat "burned" rest)
    | _ => none)
  let bal ← (Driver.Rows.withHead "balances" runes).mapM (fun r => match r with
    | [op, row] => do some (← parseOutPoint op, ← parseBalRow row)
    | _ => none)
  some { loc := loc, charms := entries.map (fun e => (e.1, e.2.1)), ids := entries.map (fun e => (e.1, e.2.2)),
         unbound := unbound, runes := rs.map (·.1), mints := rs.map (fun r => (r.1, r.2.1)),
         burned := rs.map (fun r => (r.1, r.2.2)), balances := bal, leftover := 0 }

def handle (s : S) : List String → Option String
  | "ix.oracle.replay" :: ts =>
    match Driver.IxMiscC17.splitSections ts with
    | [e, c, i, r, [u]] =>
      match (Driver.Rows.rows e).mapM parseEvent, (Driver.Rows.rows c).mapM parseSkelBlock,
            projectRows (Driver.Rows.rows i) (Driver.Rows.rows r) (u.toNat?.getD 0), u.toNat? with
      | some evs, some chain, some proj, some _ =>
        let rs := replay s.cfg evs chain
        if rs.agrees proj then some "true" else some s!"false {rs.diff proj}"
      | none, _, _, _ => some "bad-events"
      | _, none, _, _ => some "bad-chain"
      | _, _, none, _ => some "bad-rows"
      | _, _, _, none => some "bad-unbound"
    | _ => some "bad-op"
  | _ => none

end Driver.IxMiscC37
