import Driver.Index
def main : IO Unit := Driver.run Driver.Index.step {}
