import Driver.Content
def main : IO Unit :=
  Driver.run (σ := Driver.Content.St)
    (fun st ts => let (st', o) := Driver.Content.handle st ts; (st', o.getD "bad-op")) {}
