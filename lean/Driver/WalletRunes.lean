import Driver.Common
import OrdModel.Wallet.RuneTx
import OrdModel.Wallet.Lock
import OrdModel.Generated.FundCallOrder
/- Line handlers for the wallet-runes engine (properties C22, C23).

Recipe token (the whole wallet world):  rn=<name>:<div>[:<amt>:<cap>],…/out=<sats>:<ins>:<lock>:<ri>=<amt>+…,…
Outpoint rank = position in the recipe (all wallet outputs are outputs 1.. of one transaction). -/
namespace Driver.WalletRunes
open Ord Ord.Index Ord.Wallet

def splitC (s : String) : List String := if s == "-" then [] else s.splitOn ","

structure ROut where
  value : Nat
  ins : Nat
  locked : Bool
  runes : List (Nat × Nat)   -- (rune index, amount)

structure Recipe where
  names : List Nat
  outs : List ROut

def parseKV (sep : String) (s : String) : Option (Nat × Nat) :=
  match s.splitOn sep with
  | [a, b] => do some (← a.toNat?, ← b.toNat?)
  | _ => none

def parseKVs (itemSep kvSep : String) (s : String) : Option (List (Nat × Nat)) :=
  if s == "-" then some [] else (s.splitOn itemSep).mapM (parseKV kvSep)

def parseROut (s : String) : Option ROut :=
  match s.splitOn ":" with
  | [v, i, l, rs] => do some ⟨← v.toNat?, ← i.toNat?, l == "1", ← parseKVs "+" "=" rs⟩
  | _ => none

def parseRecipe (s : String) : Option Recipe :=
  match s.splitOn "/out=" with
  | [a, b0] =>
    let b := (b0.splitOn "/fi=").headD b0
    if !a.startsWith "rn=" then none else do
    let names ← (splitC (a.drop 3).toString).mapM (fun r => (r.splitOn ":").head?.bind String.toNat?)
    let outs ← (splitC b).mapM parseROut
    some ⟨names, outs⟩
  | _ => none

def parseId (s : String) : Option RuneId := (parseKV ":" s).map fun (b, t) => ⟨b, t⟩

/-- `b:t,b:t,…` ids of the recipe's runes in recipe order -/
def parseIds (s : String) : Option (List RuneId) := (splitC s).mapM parseId

def nameOf (rc : Recipe) (i : Nat) : Nat := rc.names.getD i 0

/-- name → id as a total function (unknown names → 0:0, never used) -/
def idsFn (rc : Recipe) (ids : List RuneId) (n : Nat) : RuneId :=
  match (rc.names.zip ids).find? (fun p => p.1 == n) with
  | some p => p.2
  | none => ⟨0, 0⟩

def inventory (rc : Recipe) : List RuneTx.WOut :=
  rc.outs.map fun o => ⟨o.runes.map (fun p => (nameOf rc p.1, p.2)), o.ins != 0⟩

def insertByName (p : Nat × Nat) : List (Nat × Nat) → List (Nat × Nat)
  | [] => [p]
  | x :: xs => if p.1 ≤ x.1 then p :: x :: xs else x :: insertByName p xs

/-- `BTreeMap<Rune, u128>` key order -/
def sortByName (l : List (Nat × Nat)) : List (Nat × Nat) := l.foldr insertByName []

def joinC (l : List String) : String := if l.isEmpty then "-" else ",".intercalate l

def renderOut : RuneTx.OutK → String
  | .stone => "R"
  | .change v => s!"W:{v}"
  | .dest k v => s!"D{k}:{v}"

def idLe (a b : RuneId) : Bool := a.block < b.block || (a.block == b.block && a.tx ≤ b.tx)

def insertEdict (e : Edict) : List Edict → List Edict
  | [] => [e]
  | x :: xs => if idLe e.id x.id then e :: x :: xs else x :: insertEdict e xs

def renderEdict (e : Edict) : String := s!"{e.id.block}:{e.id.tx}:{e.amount}:{e.output}"

/-- canonical text of the funded transaction: the model's layout plus the node's change output
(always present with the mock node: it over-collects), whose value is masked -/
def renderTx (t : RuneTx.Tx) : String :=
  let ins := joinC (t.inputs.map (fun i => toString i.1))
  let outs := joinC (t.outs.map renderOut ++ ["W:*"])
  let edicts := if t.stone then joinC ((t.edicts.foldr insertEdict []).map renderEdict) else "none"
  s!"in={ins} outs={outs} edicts={edicts}"

def renderOutcome : Outcome RuneTx.Tx → String
  | .ok t => s!"ok {renderTx t}"
  | .err e => s!"err {e}"
  | .panic s =>
    if s.startsWith "assert_eq!(Runestone::decipher" then "panic decipher"
    else if s.startsWith "required.checked_add" then "panic required-overflow"
    else s!"panic {s}"

/-- `<k>/<value|->/<dust>/<ri>=<amt>+…` -/
def parseSplitOut (rc : Recipe) (s : String) : Option RuneTx.SplitOut :=
  match s.splitOn "/" with
  | [_k, v, d, rs] => do
    let value ← if v == "-" then some none else v.toNat?.map some
    let runes ← parseKVs "+" "=" rs
    some ⟨sortByName (runes.map fun p => (nameOf rc p.1, p.2)), value, ← d.toNat?⟩
  | _ => none

def parseSplit (rc : Recipe) (s : String) : Option (List RuneTx.SplitOut) :=
  if s == "-" then some [] else (s.splitOn ";").mapM (parseSplitOut rc)

/-! ## oracle helpers -/

def lookupId (m : List (RuneId × Nat)) (q : RuneId) : Nat :=
  ((m.filter (fun p => p.1 == q)).map (·.2)).sum

/-- `b:t=amt+b:t=amt` -/
def parseIdAmts (s : String) : Option (List (RuneId × Nat)) :=
  if s == "-" then some [] else
  (s.splitOn "+").mapM fun item =>
    match item.splitOn "=" with
    | [i, a] => do some (← parseId i, ← a.toNat?)
    | _ => none

def parseIdAmtsList (s : String) : Option (List (List (RuneId × Nat))) :=
  if s == "none" then some [] else (s.splitOn ";").mapM parseIdAmts

def parseEdict (s : String) : Option Edict :=
  match s.splitOn ":" with
  | [b, t, a, o] => do some ⟨⟨← b.toNat?, ← t.toNat?⟩, ← a.toNat?, ← o.toNat?⟩
  | _ => none

/-- `none` | `cenotaph` | `<edicts|->/<pointer|->` -/
def parseMsg (s : String) : Option Spec.Message :=
  if s == "none" then some .none
  else if s == "cenotaph" then some .cenotaph
  else match s.splitOn "/" with
    | [es, p] => do
      let edicts ← (splitC es).mapM parseEdict
      let pointer ← if p == "-" then some none else p.toNat?.map some
      some (.runestone edicts pointer)
    | _ => none

def sumNat (l : List Nat) : Nat := l.foldl (· + ·) 0

/-- The C22 predicate on one observed run.
`kinds`: per output `R` (OP_RETURN), `W` (wallet-owned script), `D` (recipient script), `?`;
`pre`: units of each rune id held by the transaction's inputs per the index before;
`post`: per output, units held per the index after the transaction was mined;
`req`: send/burn: one list `[(id, amount)]`; split: one list per split output. -/
def movedOk (cmd : String) (kinds : List String) (msg : Spec.Message) (pre : List (RuneId × Nat))
    (post : List (List (RuneId × Nat))) (req : List (List (RuneId × Nat))) : Bool :=
  let opret := kinds.map (· == "R")
  let n := kinds.length
  let idsAll := (pre.map (·.1) ++ (post.flatMap (·.map (·.1))) ++ (req.flatMap (·.map (·.1)))).eraseDups
  let idxs := List.range n
  let dIdx := idxs.filter (fun v => kinds.getD v "" == "D")
  let wIdx := idxs.filter (fun v => kinds.getD v "" == "W")
  let postAt (v : Nat) (q : RuneId) : Nat := lookupId (post.getD v []) q
  post.length == n && Spec.wellFormedB n msg &&
  idsAll.all fun q =>
    let u0 := lookupId pre q
    let res := Spec.allocate opret msg none q u0
    -- the index moved the runes as the protocol says (C09 on this very transaction)
    let protocolOk := idxs.all (fun v => res.out v == postAt v q)
    let toW := sumNat (wIdx.map (postAt · q))
    let total := sumNat (idxs.map (postAt · q))
    let burned := u0 - total
    let reqAll := sumNat (req.map (lookupId · q))
    protocolOk && total ≤ u0 &&
    (if cmd == "burn" then
       dIdx.isEmpty && burned == reqAll && toW + reqAll == u0
     else
       dIdx.length == req.length &&
       (dIdx.zip req).all (fun p => postAt p.1 q == lookupId p.2 q) &&
       burned == 0 && toW + reqAll == u0)

def parseNats (s : String) : Option (List Nat) := (splitC s).mapM String.toNat?

def insertNat (a : Nat) : List Nat → List Nat
  | [] => [a]
  | x :: xs => if a ≤ x then a :: x :: xs else x :: insertNat a xs

def sortDedup (l : List Nat) : List Nat := (l.eraseDups).foldr insertNat []

def renderNats (l : List Nat) : String := joinC (l.map toString)

def handle : List String → Option String
  | ["wr.send", recipe, _cs, ids, ri, amt, dest, postage] =>
    match parseRecipe recipe, parseIds ids, postage.toNat? with
    | some rc, some idl, some p =>
      -- text that is not a `Decimal` is rejected by the argument parser, before anything else
      if amt == "unparsable" then some "err amount" else
      match ri.toNat? with
      | none => some "err not-etched"
      | some i =>
        match amt.toNat? with
        | none => some "err amount"
        | some a =>
          some (renderOutcome (RuneTx.sendOrBurn Generated.zeroAmountFixed (inventory rc) (idsFn rc idl)
            (nameOf rc i) a (dest == "1") p))
    | _, _, _ => some "bad-op"
  | ["wr.split", recipe, _cs, ids, nolimit, postage, changeDust, desc] =>
    match parseRecipe recipe, parseIds ids, changeDust.toNat? with
    | some rc, some idl, some cd =>
      if desc == "err" then some "err load" else
      match parseSplit rc desc with
      | some outs =>
        let p := if postage == "-" then none else postage.toNat?
        some (renderOutcome (RuneTx.split (inventory rc) (idsFn rc idl) (nolimit == "1") p cd outs))
      | none => some "bad-op"
    | _, _, _ => some "bad-op"
  -- the argument of `lockunspent`, as a set
  | ["wr.lock", _rc, _cs, utxos, inscribed, runic, locked] =>
    match parseNats utxos, parseNats inscribed, parseNats runic, parseNats locked with
    | some u, some i, some r, some l => some (renderNats (sortDedup (Lock.toLock ⟨u, i, r, l⟩)))
    | _, _, _, _ => some "bad-op"
  | ["wr.oracle.cardinal", _rc, _cs, _cmd, utxos, inscribed, runic, locked, lockedNow, inputs, subject] =>
    match parseNats utxos, parseNats inscribed, parseNats runic, parseNats locked, parseNats lockedNow,
          parseNats inputs, parseNats subject with
    | some u, some i, some r, some l, some ln, some ins, some sub =>
      some (toString (Lock.oracle ⟨u, i, r, l⟩ ln ins sub))
    | _, _, _, _, _, _, _ => some "bad-op"
  | ["wr.oracle.zero", _rc, _cs, _cmd, amt, result] =>
    match amt.toNat? with
    | some a => some (toString (a != 0 || result == "err"))
    | none => some "bad-op"
  | ["wr.oracle.moved", _rc, _cs, cmd, _amt, kinds, msg, pre, post, req] =>
    match parseMsg msg, parseIdAmts pre, parseIdAmtsList post, parseIdAmtsList req with
    | some m, some pr, some po, some rq => some (toString (movedOk cmd (splitC kinds) m pr po rq))
    | _, _, _, _ => some "bad-op"
  | _ => none

end Driver.WalletRunes
