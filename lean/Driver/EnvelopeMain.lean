import Driver.Envelope
def main : IO Unit :=
  Driver.runPure fun ts => (Driver.Envelope.handle ts).getD "bad-op"
