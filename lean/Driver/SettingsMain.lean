import Driver.Settings
def main : IO Unit :=
  Driver.runPure fun ts => (Driver.Settings.handle ts).getD "bad-op"
