import Driver.Storage
def main : IO Unit :=
  Driver.runPure fun ts => (Driver.Storage.handle ts).getD "bad-op"
