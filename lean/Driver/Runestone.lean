import Driver.Common
import OrdModel.Codec.RunestoneSpec
/- Line handlers for the runestone engine (property C25).  `none` = not one of ours.

Canonical text forms (shared with `harness/runestone`):
  artifact  := `none` | `R|<etching>|<mint>|<pointer>|<edicts>` | `C|<flaw>|<rune>|<mint>`
  etching   := `-` | `E:<div>:<premine>:<rune>:<spacers>:<symbol>:<turbo 0/1>:<terms>`
  terms     := `-` | `T/<amount>/<cap>/<hstart>/<hend>/<ostart>/<oend>`
  mint      := `-` | `<block>:<tx>`      pointer, every optional number := `-` | decimal
  edicts    := `-` | `<block>:<tx>:<amount>:<output>,…`
-/
namespace Driver.Runestone
open Ord Ord.Script Ord.Runestone

def optNat : Option Nat → String
  | none => "-"
  | some v => toString v

def renderId (i : RuneId) : String := s!"{i.block}:{i.tx}"

def optId : Option RuneId → String
  | none => "-"
  | some i => renderId i

def renderTerms : Option Terms → String
  | none => "-"
  | some t => s!"T/{optNat t.amount}/{optNat t.cap}/{optNat t.heightStart}/{optNat t.heightEnd}/{optNat t.offsetStart}/{optNat t.offsetEnd}"

def renderEtching : Option Etching → String
  | none => "-"
  | some e =>
    s!"E:{optNat e.divisibility}:{optNat e.premine}:{optNat e.rune}:{optNat e.spacers}:{optNat e.symbol}:{if e.turbo then 1 else 0}:{renderTerms e.terms}"

def renderEdicts (es : List Edict) : String :=
  if es.isEmpty then "-" else
  ",".intercalate (es.map fun e => s!"{e.id.block}:{e.id.tx}:{e.amount}:{e.output}")

def Flaw.name : Flaw → String
  | .edictOutput => "edict-output" | .edictRuneId => "edict-rune-id"
  | .invalidScript => "invalid-script" | .opcode => "opcode"
  | .supplyOverflow => "supply-overflow" | .trailingIntegers => "trailing-integers"
  | .truncatedField => "truncated-field" | .unrecognizedEvenTag => "unrecognized-even-tag"
  | .unrecognizedFlag => "unrecognized-flag" | .varint => "varint"

def optFlaw : Option Flaw → String
  | none => "-"
  | some f => Flaw.name f

def renderRunestone (r : Runestone) : String :=
  s!"R|{renderEtching r.etching}|{optId r.mint}|{optNat r.pointer}|{renderEdicts r.edicts}"

def renderArtifact : Option Artifact → String
  | none => "none"
  | some (.runestone r) => renderRunestone r
  | some (.cenotaph c) => s!"C|{optFlaw c.flaw}|{optNat c.etching}|{optId c.mint}"

/-! parsing -/

def pOptNat (s : String) : Option (Option Nat) :=
  if s == "-" then some none else s.toNat?.map some

def pId (s : String) : Option RuneId :=
  match s.splitOn ":" with
  | [b, t] => do some ⟨← b.toNat?, ← t.toNat?⟩
  | _ => none

def pOptId (s : String) : Option (Option RuneId) :=
  if s == "-" then some none else (pId s).map some

def pTerms (s : String) : Option (Option Terms) :=
  if s == "-" then some none else
  match s.splitOn "/" with
  | ["T", a, c, hs, he, os, oe] => do
    some (some ⟨← pOptNat a, ← pOptNat c, ← pOptNat hs, ← pOptNat he, ← pOptNat os, ← pOptNat oe⟩)
  | _ => none

def pEtching (s : String) : Option (Option Etching) :=
  if s == "-" then some none else
  match s.splitOn ":" with
  | ["E", d, p, r, sp, sy, tu, te] => do
    let turbo ← (if tu == "1" then some true else if tu == "0" then some false else none)
    some (some ⟨← pOptNat d, ← pOptNat p, ← pOptNat r, ← pOptNat sp, ← pOptNat sy, ← pTerms te, turbo⟩)
  | _ => none

def pEdict (s : String) : Option Edict :=
  match s.splitOn ":" with
  | [b, t, a, o] => do some ⟨⟨← b.toNat?, ← t.toNat?⟩, ← a.toNat?, ← o.toNat?⟩
  | _ => none

def pEdicts (s : String) : Option (List Edict) :=
  if s == "-" then some [] else (s.splitOn ",").mapM pEdict

def pRunestone (s : String) : Option Runestone :=
  match s.splitOn "|" with
  | ["R", e, m, p, es] => do some ⟨← pEdicts es, ← pEtching e, ← pOptId m, ← pOptNat p⟩
  | _ => none

def pFlaw (s : String) : Option Flaw :=
  [Flaw.edictOutput, .edictRuneId, .invalidScript, .opcode, .supplyOverflow, .trailingIntegers,
   .truncatedField, .unrecognizedEvenTag, .unrecognizedFlag, .varint].find? (fun f => Flaw.name f == s)

def pOptFlaw (s : String) : Option (Option Flaw) :=
  if s == "-" then some none else (pFlaw s).map some

def pArtifact (s : String) : Option (Option Artifact) :=
  if s == "none" then some none else
  match s.splitOn "|" with
  | ["C", f, r, m] => do some (some (.cenotaph ⟨← pOptNat r, ← pOptFlaw f, ← pOptId m⟩))
  | "R" :: _ => (pRunestone s).map (fun r => some (.runestone r))
  | _ => none

def renderItem : Item → String
  | .ok (.push bs) => s!"p:{toHex bs}"
  | .ok (.op b) => s!"o:{b.toNat}"
  | .err => "err"

/-- the transaction of a request: the given scripts, padded with empty scripts up to `n` outputs -/
def txScripts (n : Nat) (scripts : List (List UInt8)) : List (List UInt8) :=
  scripts ++ List.replicate (n - scripts.length) []

def parseScripts (hs : List String) : Option (List (List UInt8)) := hs.mapM parseHex

def outcome {α : Type} (f : α → String) : Outcome α → String := Outcome.render f

/-- payload integers of a transaction, when it has a valid payload with valid varints -/
def txInts (scripts : List (List UInt8)) : Option (List Nat) :=
  match payload scripts with
  | some (.valid p) => match integers p with | .ok ints => some ints | .error _ => none
  | _ => none

def handle : List String → Option String
  | ["script.instructions", h] =>
    match parseHex h with
    | some bs => some (" ".intercalate ("I" :: (instructions bs).map renderItem))
    | none => some "bad-op"
  | ["script.pushslice", h] =>
    match parseHex h with
    | some bs => some (outcome toHex (pushSlice bs))
    | none => some "bad-op"
  | "runestone.decipher" :: n :: hs =>
    match n.toNat?, parseScripts hs with
    | some n, some ss => some (outcome renderArtifact (decipher (txScripts n ss)))
    | _, _ => some "bad-op"
  | ["runestone.encipher", r] =>
    match pRunestone r with
    | some r => if r.typed then some (outcome toHex (encipher r)) else some "bad-op"
    | none => some "bad-op"
  -- property predicates evaluated on the implementation's own outputs
  -- round trip: `art` is what the implementation deciphered from a transaction with `n` outputs
  -- whose first OP_RETURN OP_13 output is the implementation's encipherment of `r`
  | ["runestone.oracle.rt", n, r, art] =>
    match n.toNat?, pRunestone r, pArtifact art with
    | some n, some r, some a =>
      some (toString (!(r.typed && r.wf n) || renderArtifact a == renderArtifact (some (.runestone r.sorted))))
    | _, _, _ => some "bad-op"
  -- nothing unless an output starts with OP_RETURN OP_13, something otherwise
  | "runestone.oracle.none" :: art :: n :: hs =>
    match pArtifact art, n.toNat?, parseScripts hs with
    | some a, some n, some ss => some (toString (a.isNone == !anyMagic (txScripts n ss)))
    | _, _, _ => some "bad-op"
  -- the flaw is the first violation in the documented order
  | "runestone.oracle.flaw" :: art :: n :: hs =>
    match pArtifact art, n.toNat?, parseScripts hs with
    | some (some a), some n, some ss => some (toString (optFlaw a.flaw == optFlaw (specFlaw (txScripts n ss))))
    | some none, some _, some _ => some "true"
    | _, _, _ => some "bad-op"
  -- runestone or cenotaph, the artifact keeps the etched name and the mint
  | "runestone.oracle.keeps" :: art :: n :: hs =>
    match pArtifact art, n.toNat?, parseScripts hs with
    | some (some a), some n, some ss =>
      match txInts (txScripts n ss) with
      | some ints =>
        let fs := fieldPairs ints
        some (toString (optNat a.rune == optNat (specRune fs) && optId a.mint == optId (specMint fs)))
      | none => some (toString (a.rune.isNone && a.mint.isNone))
    | some none, some _, some _ => some "true"
    | _, _, _ => some "bad-op"
  | _ => none

end Driver.Runestone
