import OrdModel.Basic.Outcome
import OrdModel.Codec.Varint
import OrdModel.Proofs.Varint
import OrdModel.Theorems.C26
