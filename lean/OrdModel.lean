import OrdModel.Basic
import OrdModel.Codec.Varint
import OrdModel.Proofs.Varint
import OrdModel.Theorems.C26
