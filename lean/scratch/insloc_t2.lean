import OrdModel.Index.OracleInsloc
open Ord Ord.Index

theorem OutPoint.beq_iff (a b : OutPoint) : (a == b) = true ↔ a = b := by
  cases a; cases b
  simp only [BEq.beq, instBEqOutPoint.beq]
  simp

instance : LawfulBEq OutPoint where
  eq_of_beq {a b} h := (OutPoint.beq_iff a b).1 h
  rfl {a} := (OutPoint.beq_iff a a).2 rfl

theorem SatPoint.beq_iff (a b : SatPoint) : (a == b) = true ↔ a = b := by
  cases a; cases b
  simp only [BEq.beq, instBEqSatPoint.beq]
  simp

instance : LawfulBEq SatPoint where
  eq_of_beq {a b} h := (SatPoint.beq_iff a b).1 h
  rfl {a} := (SatPoint.beq_iff a a).2 rfl
