import OrdModel.Index.Block
namespace Ord.Index
open Outcome

theorem linkParents_utxo (seq : Nat) (ps : List InscriptionId) (st : State) (ids : List InscriptionId) (seqs : List Nat)
    (st' : State) (ids' : List InscriptionId) (seqs' : List Nat)
    (h : linkParents seq ps st ids seqs = .ok (st', ids', seqs')) : st'.utxo = st.utxo := by
  induction ps generalizing st ids seqs with
  | nil => simp only [linkParents, Outcome.ok.injEq, Prod.mk.injEq] at h; rw [← h.1]
  | cons p ps ih =>
    simp only [linkParents] at h
    split at h
    · exact ih _ _ _ h
    · split at h
      · cases h
      · have := ih _ _ _ h
        rw [this]; split <;> rfl

def SpecialEmpty (ctx : InsCtx) : Prop :=
  (∀ e, ctx.nullEntry = some e → e.ranges = []) ∧ (∀ e, ctx.unboundEntry = some e → e.ranges = [])

set_option maxHeartbeats 1000000 in
theorem uil_frame (cfg : Cfg) (height time : Nat) (ir : Option (List (Nat × Nat))) (fl : Flotsam) (sp : SatPoint)
    (opr : Bool) (tgt : Target) (ls ls' : LocState)
    (h : updateInscriptionLocation cfg height time ir fl sp opr tgt ls = .ok ls') :
    ls'.st.utxo = ls.st.utxo := by
  unfold updateInscriptionLocation at h
  simp only [] at h
  repeat' split at h
  all_goals (try cases h)
  all_goals trace_state
  all_goals sorry
end Ord.Index
