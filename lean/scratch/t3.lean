import OrdModel.Proofs.TextDecimal
open Ord Ord.Text Ord.Decimal
example : Pile.printNumber 1100 3 = .ok "1.1".toList := by
  simp [Pile.printNumber, printScaled, stripZeros, padZeros, natDigits, digitChar, U128]
example : Pile.printNumber (2 ^ 128 - 1) 38 = .ok "3.40282366920938463463374607431768211455".toList := by
  simp [Pile.printNumber, printScaled, stripZeros, padZeros, natDigits, digitChar, U128]
