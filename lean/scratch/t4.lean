import OrdModel.Text.RustParse
open Ord.Text
example (c : Char) (h : c.toNat < 128) : c.utf8Size = 1 := by
  rw [Char.utf8Size_eq_one_iff]
  have : c.val.toNat < 128 := h
  rw [UInt32.le_iff_toNat_le]
  have : (127 : UInt32).toNat = 127 := by decide
  omega
