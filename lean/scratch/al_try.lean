import OrdModel.Index.State
namespace Ord.Index
namespace AL
variable {κ ν : Type} [BEq κ] [LawfulBEq κ]

def keys (l : List (κ × ν)) : List κ := l.map (·.1)
@[simp] theorem keys_nil : keys ([] : List (κ × ν)) = [] := rfl
@[simp] theorem keys_cons (k : κ) (v : ν) (l : List (κ × ν)) : keys ((k, v) :: l) = k :: keys l := rfl

theorem get_set (l : List (κ × ν)) (k k' : κ) (v : ν) :
    get (set l k v) k' = if k = k' then some v else get l k' := by
  induction l with
  | nil => simp [get, set]
  | cons p rest ih =>
    obtain ⟨k0, v0⟩ := p
    simp only [set, get]
    split <;> grind [get]

theorem get_eq_none_iff (l : List (κ × ν)) (k : κ) : get l k = none ↔ k ∉ keys l := by
  induction l with
  | nil => simp [get]
  | cons p rest ih =>
    obtain ⟨k0, v0⟩ := p
    simp only [get, keys_cons]
    split <;> grind

theorem mem_of_get {l : List (κ × ν)} {k : κ} {v : ν} (h : get l k = some v) : (k, v) ∈ l := by
  induction l with
  | nil => simp [get] at h
  | cons p rest ih =>
    obtain ⟨k0, v0⟩ := p
    simp only [get] at h
    split at h <;> grind

theorem mem_keys_of_mem {l : List (κ × ν)} {k : κ} {v : ν} (h : (k, v) ∈ l) : k ∈ keys l :=
  List.mem_map.2 ⟨(k, v), h, rfl⟩

theorem get_of_mem {l : List (κ × ν)} (hn : (keys l).Nodup) {k : κ} {v : ν} (h : (k, v) ∈ l) : get l k = some v := by
  induction l with
  | nil => cases h
  | cons p rest ih =>
    obtain ⟨k0, v0⟩ := p
    simp only [keys_cons, List.nodup_cons] at hn
    simp only [get]
    rcases List.mem_cons.1 h with h | h
    · cases h; simp
    · have := mem_keys_of_mem h
      split <;> grind

theorem get_erase_ne (l : List (κ × ν)) {k k' : κ} (h : k ≠ k') : get (erase l k) k' = get l k' := by
  induction l with
  | nil => simp [erase]
  | cons p rest ih =>
    obtain ⟨k0, v0⟩ := p
    simp only [erase, get]
    split <;> grind [get]

theorem keys_erase_subset (l : List (κ × ν)) (k x : κ) (h : x ∈ keys (erase l k)) : x ∈ keys l := by
  induction l with
  | nil => simp [erase] at h
  | cons p rest ih =>
    obtain ⟨k0, v0⟩ := p
    simp only [erase] at h
    split at h <;> grind [keys_cons]

theorem get_erase_self (l : List (κ × ν)) (k : κ) (hn : (keys l).Nodup) : get (erase l k) k = none := by
  induction l with
  | nil => simp [erase, get]
  | cons p rest ih =>
    obtain ⟨k0, v0⟩ := p
    simp only [keys_cons, List.nodup_cons] at hn
    simp only [erase]
    split
    · rename_i h; have : k0 = k := by simpa using h
      subst this; exact (get_eq_none_iff rest k0).2 hn.1
    · rename_i h; simp only [get, h]; exact ih hn.2

theorem nodup_erase (l : List (κ × ν)) (k : κ) (hn : (keys l).Nodup) : (keys (erase l k)).Nodup := by
  induction l with
  | nil => simpa [erase] using hn
  | cons p rest ih =>
    obtain ⟨k0, v0⟩ := p
    simp only [keys_cons, List.nodup_cons] at hn
    simp only [erase]
    split
    · exact hn.2
    · simp only [keys_cons, List.nodup_cons]
      exact ⟨fun h => hn.1 (keys_erase_subset rest k k0 h), ih hn.2⟩

theorem mem_keys_set (l : List (κ × ν)) (k : κ) (v : ν) (x : κ) :
    x ∈ keys (set l k v) ↔ x = k ∨ x ∈ keys l := by
  induction l with
  | nil => simp [set, keys]
  | cons p rest ih =>
    obtain ⟨k0, v0⟩ := p
    simp only [set]
    split <;> grind [keys_cons]

theorem nodup_set (l : List (κ × ν)) (k : κ) (v : ν) (hn : (keys l).Nodup) : (keys (set l k v)).Nodup := by
  induction l with
  | nil => simp [set, keys]
  | cons p rest ih =>
    obtain ⟨k0, v0⟩ := p
    simp only [keys_cons, List.nodup_cons] at hn
    simp only [set]
    split
    · rename_i h; have : k0 = k := by simpa using h
      subst this; simp only [keys_cons, List.nodup_cons]; exact hn
    · rename_i h
      simp only [keys_cons, List.nodup_cons]
      refine ⟨fun hm => ?_, ih hn.2⟩
      rcases (mem_keys_set rest k v k0).1 hm with h' | h'
      · subst h'; simp at h
      · exact hn.1 h'
end AL

theorem mem_insertUnique {α : Type} [BEq α] [LawfulBEq α] (l : List α) (a x : α) :
    x ∈ insertUnique l a ↔ x ∈ l ∨ x = a := by
  unfold insertUnique
  split <;> grind

theorem nodup_insertUnique {α : Type} [BEq α] [LawfulBEq α] (l : List α) (a : α) (hn : l.Nodup) :
    (insertUnique l a).Nodup := by
  unfold insertUnique
  split
  · exact hn
  · rename_i h
    have : a ∉ l := by simpa using h
    grind [List.nodup_append]
end Ord.Index
