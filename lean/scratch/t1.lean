import OrdModel.Num.Pile
open Ord Ord.Text Ord.Decimal

theorem digitChar_spec (n : Nat) : isDigit (digitChar n) = true ∧ digitVal (digitChar n) = n % 10 ∧ digitChar n ≠ '.' := by
  unfold digitChar
  have h : n % 10 < 10 := Nat.mod_lt _ (by omega)
  generalize n % 10 = m at h ⊢
  match m, h with
  | 0, _ | 1, _ | 2, _ | 3, _ | 4, _ | 5, _ | 6, _ | 7, _ | 8, _ | 9, _ => decide
  | k + 10, h => omega

example (a b c d e : Nat) (h : c = d * e) : (a * b + d) * (c) = a*b*d*e + d*d*e := by
  subst h; grind

example (iv q sig tz len: Nat) (h : len = sig + tz) : (iv*10^sig + q) * 10^len = (iv * 10^len + q * 10^tz) * 10^sig := by
  subst h
  rw [Nat.pow_add]; grind
