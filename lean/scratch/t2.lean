import OrdModel.Text.RustParse
namespace Ord.Text
theorem decFold_append (acc : Nat) (a b : List Char) :
    decFold acc (a ++ b) = decFold (decFold acc a) b := by
  show List.foldl _ _ _ = List.foldl _ (List.foldl _ _ _) _
  exact List.foldl_append
theorem decFold_cons (acc : Nat) (c : Char) (cs : List Char) :
    decFold acc (c :: cs) = decFold (acc * 10 + digitVal c) cs := rfl
end Ord.Text
