import OrdModel.Proofs.IndexInslocLoc
namespace Ord.Index.Insloc
open Ord Ord.Index Outcome

/-- the fields of the state `linkParents` and the rest of the entry bookkeeping never touch -/
structure Frame (a b : State) : Prop where
  utxo : b.utxo = a.utxo
  seq2sp : b.seq2sp = a.seq2sp
  unbound : b.unbound = a.unbound
  lostSats : b.lostSats = a.lostSats

theorem Frame.refl (a : State) : Frame a a := ⟨rfl, rfl, rfl, rfl⟩
theorem Frame.trans {a b c : State} (h1 : Frame a b) (h2 : Frame b c) : Frame a c :=
  ⟨h2.utxo.trans h1.utxo, h2.seq2sp.trans h1.seq2sp, h2.unbound.trans h1.unbound, h2.lostSats.trans h1.lostSats⟩

theorem linkParents_frame (seq : Nat) (ps : List InscriptionId) (st : State) (ids : List InscriptionId)
    (seqs : List Nat) (st' : State) (ids' : List InscriptionId) (seqs' : List Nat)
    (h : linkParents seq ps st ids seqs = .ok (st', ids', seqs')) :
    Frame st st' ∧ st'.entries = st.entries := by
  induction ps generalizing st ids seqs with
  | nil => simp [linkParents] at h; obtain ⟨rfl, _, _⟩ := h; exact ⟨Frame.refl _, rfl⟩
  | cons p rest ih =>
    simp only [linkParents] at h
    split at h
    · exact ih _ _ _ h
    · split at h
      · simp at h
      · have := ih _ _ _ h
        refine ⟨Frame.trans ?_ this.1, this.2.trans ?_⟩
        · split <;> exact ⟨rfl, rfl, rfl, rfl⟩
        · split <;> rfl

def flSeq (n : Nat) (fl : Flotsam) : Nat := match fl.origin with | .old s _ => s | .new .. => n
def flUnbound (fl : Flotsam) : Bool :=
  match fl.origin with | .new _ _ _ _ _ _ u _ => u | .old .. => false
def flSat (rs : Option (List (Nat × Nat))) (fl : Flotsam) : Option Nat :=
  if flUnbound fl then none else match rs with | none => none | some r => (den r)[fl.offset]?

/-- the block-scoped fields of the updater that the entry bookkeeping never touches -/
structure CtxFrame (a b : InsCtx) : Prop where
  flotsam : b.flotsam = a.flotsam
  reward : b.reward = a.reward
  lostSats : b.lostSats = a.lostSats
  nullEntry : b.nullEntry = a.nullEntry
  unboundEntry : b.unboundEntry = a.unboundEntry

theorem locStep_old (height time : Nat) (rs : Option (List (Nat × Nat))) (fl : Flotsam) (sp : SatPoint)
    (opr : Bool) (ls : LocState) (seq : Nat) (osp : SatPoint) (ho : fl.origin = .old seq osp)
    (u : Bool) (q : Nat) (st' : State) (ctx' : InsCtx)
    (h : locStep height time rs fl sp opr ls = .ok (u, q, st', ctx')) :
    u = false ∧ q = seq ∧ Frame ls.st st' ∧ CtxFrame ls.ctx ctx' ∧
    st'.entries.length = ls.st.entries.length ∧
    (∀ i, i ≠ seq → st'.entries[i]? = ls.st.entries[i]?) ∧
    (∀ e, ls.st.entries[seq]? = some e → ∃ e', st'.entries[seq]? = some e' ∧ e'.sat = e.sat ∧ e'.seq = e.seq ∧
        (opr = true → hasCharm e'.charms charmBurned = true) ∧
        (opr = false → e' = e)) := by
  unfold locStep at h
  rw [ho] at h
  simp only [locStepOld] at h
  split at h
  · next hn =>
    split at h
    · simp at h
    · simp only [ok.injEq, Prod.mk.injEq] at h
      obtain ⟨rfl, rfl, rfl, rfl⟩ := h
      exact ⟨rfl, rfl, Frame.refl _, ⟨rfl, rfl, rfl, rfl, rfl⟩, rfl, fun _ _ => rfl, fun e he => by simp [hn] at he⟩
  · next entry hs =>
    simp only [ok.injEq, Prod.mk.injEq] at h
    obtain ⟨rfl, rfl, rfl, rfl⟩ := h
    refine ⟨rfl, rfl, ?_, ⟨rfl, rfl, rfl, rfl, rfl⟩, ?_, ?_, ?_⟩
    · split <;> exact ⟨rfl, rfl, rfl, rfl⟩
    · split <;> simp
    · intro i hi; split
      · simp only [List.getElem?_set]; split
        · next h => exact absurd h.symm hi
        · rfl
      · rfl
    · intro e he
      rw [hs] at he; cases he
      cases opr with
      | false => exact ⟨entry, by simpa using hs, rfl, rfl, by simp, fun _ => rfl⟩
      | true =>
        have hlt : seq < ls.st.entries.length := by
          rcases Nat.lt_or_ge seq ls.st.entries.length with h | h
          · exact h
          · simp [List.getElem?_eq_none h] at hs
        refine ⟨{ entry with charms := setCharm entry.charms charmBurned }, by simp [List.getElem?_set, hlt], rfl, rfl, ?_, by simp⟩
        intro _
        simp only [hasCharm, setCharm, charmBurned]
        by_cases hb : entry.charms / 4096 % 2 = 1
        · simp [hb]
        · simp only [hb, ↓reduceIte, beq_iff_eq]; omega


theorem hasCharm_setCharm_self (c b : Nat) (hb : b = 16 ∨ b = 256 ∨ b = 1024 ∨ b = 4096) :
    hasCharm (setCharm c b) b = true := by
  rcases hb with rfl | rfl | rfl | rfl <;>
  · simp only [hasCharm, setCharm, beq_iff_eq]
    split <;> omega

theorem hasCharm_setCharm_keep (c b B : Nat) (hb : b = 16 ∨ b = 256 ∨ b = 1024)
    (hB : B = 4096 ∨ B = 16 ∨ B = 256) (hne : b ≠ B) (h : hasCharm c B = true) :
    hasCharm (setCharm c b) B = true := by
  rcases hb with rfl | rfl | rfl <;> rcases hB with rfl | rfl | rfl <;>
    first
    | exact absurd rfl hne
    | (simp only [hasCharm, setCharm, beq_iff_eq] at h ⊢
       split <;> omega)


theorem newSat_spec (rs : Option (List (Nat × Nat))) (unb : Bool) (off : Nat) (sat : Option Nat)
    (h : newSat rs unb off = .ok sat) :
    sat = if unb then none else match rs with | none => none | some r => (den r)[off]? := by
  unfold newSat at h
  split at h
  · simp at h; simp [*]
  · next hu =>
    simp only [hu]
    split at h
    · simp at h; simp [h]
    · next r =>
      split at h
      · next s hs =>
        simp at h; subst h
        exact ((calculateSat_ok_iff r off s).1 hs).symm
      · simp at h
      · simp at h

theorem hasCharm_keepIf (b : Bool) (c bit B : Nat) (hb : bit = 16 ∨ bit = 256 ∨ bit = 1024)
    (hB : B = 4096 ∨ B = 16 ∨ B = 256) (hne : bit ≠ B) (h : hasCharm c B = true) :
    hasCharm (if b = true then setCharm c bit else c) B = true := by
  split
  · exact hasCharm_setCharm_keep c bit B hb hB hne h
  · exact h

theorem newCharms_spec (cursed reins opr isNull unb vind : Bool) (sat : Option Nat) :
    (opr = true → hasCharm (newCharms cursed reins opr isNull unb vind sat) charmBurned = true) ∧
    (isNull = true → hasCharm (newCharms cursed reins opr isNull unb vind sat) charmLost = true) ∧
    (unb = true → hasCharm (newCharms cursed reins opr isNull unb vind sat) charmUnbound = true) := by
  simp only [newCharms, charmBurned, charmLost, charmUnbound, charmVindicated]
  refine ⟨?_, ?_, ?_⟩
  · rintro rfl
    simp only [↓reduceIte]
    apply hasCharm_keepIf _ _ _ _ (by simp) (by simp) (by simp)
    apply hasCharm_keepIf _ _ _ _ (by simp) (by simp) (by simp)
    apply hasCharm_keepIf _ _ _ _ (by simp) (by simp) (by simp)
    exact hasCharm_setCharm_self _ _ (by simp)
  · rintro rfl
    simp only [↓reduceIte]
    apply hasCharm_keepIf _ _ _ _ (by simp) (by simp) (by simp)
    apply hasCharm_keepIf _ _ _ _ (by simp) (by simp) (by simp)
    exact hasCharm_setCharm_self _ _ (by simp)
  · rintro rfl
    simp only [↓reduceIte]
    apply hasCharm_keepIf _ _ _ _ (by simp) (by simp) (by simp)
    exact hasCharm_setCharm_self _ _ (by simp)

theorem homeStep_frame (st5 : State) (hidden : Bool) (hc seq : Nat) (id : InscriptionId) :
    Frame st5 (homeStep st5 hidden hc seq id).1 ∧ (homeStep st5 hidden hc seq id).1.entries = st5.entries := by
  unfold homeStep
  split
  · exact ⟨Frame.refl _, rfl⟩
  · split <;> exact ⟨⟨rfl, rfl, rfl, rfl⟩, rfl⟩

theorem locStepNewTail_spec (height time : Nat) (fl : Flotsam) (sp : SatPoint) (opr : Bool)
    (ls : LocState) (cursed : Bool) (fee : Nat) (gallery hidden : Bool) (parents : List InscriptionId)
    (reins unb vind : Bool) (number : Int) (seq : Nat) (st1 : State) (sat : Option Nat)
    (u : Bool) (q : Nat) (st' : State) (ctx' : InsCtx)
    (h : locStepNewTail height time fl sp opr ls cursed fee gallery hidden parents reins unb vind
      number seq st1 sat = .ok (u, q, st', ctx')) :
    u = unb ∧ q = seq ∧ Frame st1 st' ∧ CtxFrame ls.ctx ctx' ∧
    ∃ entry, st'.entries = st1.entries ++ [entry] ∧ entry.seq = seq ∧ entry.id = fl.id ∧
      entry.sat = sat ∧
      entry.charms = newCharms cursed reins opr sp.outpoint.isNull unb vind sat := by
  unfold locStepNewTail at h
  simp only at h
  split at h
  · simp at h
  · simp at h
  · next st3 pids pseqs hlp =>
    obtain ⟨hf3, he3⟩ := linkParents_frame _ _ _ _ _ _ _ _ hlp
    have hf2 : Frame st1 st3 := by
      refine Frame.trans ?_ hf3
      split <;> exact ⟨rfl, rfl, rfl, rfl⟩
    have he2 : st3.entries = st1.entries := by
      rw [he3]; split <;> rfl
    simp only [ok.injEq, Prod.mk.injEq] at h
    obtain ⟨rfl, rfl, rfl, rfl⟩ := h
    have hh := homeStep_frame
    refine ⟨rfl, rfl, ?_, ⟨rfl, rfl, rfl, rfl, rfl⟩, ?_⟩
    · refine Frame.trans hf2 (Frame.trans ?_ (hh _ _ _ _ _).1)
      split <;> exact ⟨rfl, rfl, rfl, rfl⟩
    · refine ⟨⟨newCharms cursed reins opr sp.outpoint.isNull unb vind sat, fee, height, hidden, fl.id,
        number, pseqs, sat, seq, time⟩, ?_, rfl, rfl, rfl, rfl⟩
      rw [(hh _ _ _ _ _).2]
      simp only
      congr 1
      rw [← he2]; split <;> rfl

theorem locStep_new (height time : Nat) (rs : Option (List (Nat × Nat))) (fl : Flotsam) (sp : SatPoint)
    (opr : Bool) (ls : LocState) (cursed : Bool) (fee : Nat) (gallery hidden : Bool)
    (parents : List InscriptionId) (reins unb vind : Bool)
    (hn : fl.origin = .new cursed fee gallery hidden parents reins unb vind)
    (u : Bool) (q : Nat) (st' : State) (ctx' : InsCtx)
    (h : locStep height time rs fl sp opr ls = .ok (u, q, st', ctx')) :
    u = unb ∧ q = ls.st.entries.length ∧ Frame ls.st st' ∧ CtxFrame ls.ctx ctx' ∧
    ∃ entry, st'.entries = ls.st.entries ++ [entry] ∧ entry.seq = q ∧ entry.id = fl.id ∧
      entry.sat = flSat rs fl ∧
      (opr = true → hasCharm entry.charms charmBurned = true) ∧
      (sp.outpoint.isNull = true → hasCharm entry.charms charmLost = true) ∧
      (unb = true → hasCharm entry.charms charmUnbound = true) := by
  unfold locStep at h
  rw [hn] at h
  cases cursed <;> simp only [locStepNew, Bool.false_eq_true, ↓reduceIte] at h
  all_goals
    split at h
    · simp at h
    · split at h
      · simp at h
      · simp at h
      · next sat hsat =>
        have hs := newSat_spec _ _ _ _ hsat
        obtain ⟨rfl, rfl, hf, hcf, entry, he, h1, h2, h3, h4⟩ := locStepNewTail_spec _ _ _ _ _ _ _ _ _ _ _ _ _ _ _ _ _ _ _ _ _ _ h
        refine ⟨rfl, rfl, ⟨hf.utxo, hf.seq2sp, hf.unbound, hf.lostSats⟩, hcf, entry, he, h1, h2, ?_, ?_⟩
        · rw [h3, hs]; simp [flSat, flUnbound, hn]
        · rw [h4]; exact newCharms_spec _ _ _ _ _ _ _

end Ord.Index.Insloc
