import OrdModel.Proofs.IndexInslocLoc
namespace Ord.Index.Insloc
open Ord Ord.Index Outcome

/-- the fields of the state `linkParents` and the rest of the entry bookkeeping never touch -/
structure Frame (a b : State) : Prop where
  utxo : b.utxo = a.utxo
  seq2sp : b.seq2sp = a.seq2sp
  unbound : b.unbound = a.unbound
  lostSats : b.lostSats = a.lostSats

theorem Frame.refl (a : State) : Frame a a := ⟨rfl, rfl, rfl, rfl⟩
theorem Frame.trans {a b c : State} (h1 : Frame a b) (h2 : Frame b c) : Frame a c :=
  ⟨h2.utxo.trans h1.utxo, h2.seq2sp.trans h1.seq2sp, h2.unbound.trans h1.unbound, h2.lostSats.trans h1.lostSats⟩

theorem linkParents_frame (seq : Nat) (ps : List InscriptionId) (st : State) (ids : List InscriptionId)
    (seqs : List Nat) (st' : State) (ids' : List InscriptionId) (seqs' : List Nat)
    (h : linkParents seq ps st ids seqs = .ok (st', ids', seqs')) :
    Frame st st' ∧ st'.entries = st.entries := by
  induction ps generalizing st ids seqs with
  | nil => simp [linkParents] at h; obtain ⟨rfl, _, _⟩ := h; exact ⟨Frame.refl _, rfl⟩
  | cons p rest ih =>
    simp only [linkParents] at h
    split at h
    · exact ih _ _ _ h
    · split at h
      · simp at h
      · have := ih _ _ _ h
        refine ⟨Frame.trans ?_ this.1, this.2.trans ?_⟩
        · split <;> exact ⟨rfl, rfl, rfl, rfl⟩
        · split <;> rfl
end Ord.Index.Insloc
