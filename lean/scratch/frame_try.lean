import OrdModel.Index.AddrSpec
import OrdModel.Proofs.IndexMiscAL
/-
Group `ixmisc`, C17: frame lemmas — the inscription updater and the rune updater never touch
OUTPOINT_TO_UTXO_ENTRY / SCRIPT_PUBKEY_TO_OUTPOINT, the inscription updater only appends to the
`ins` lists of the output entries it is given, and the special-outpoint cache entries it builds
carry the empty script.
-/
namespace Ord.Index
open Outcome

/-- the part of a utxo entry the inscription updater never touches -/
def UtxoEntry.base (e : UtxoEntry) : Nat × List (Nat × Nat) × List UInt8 := (e.value, e.ranges, e.script)

/-- the special-outpoint cache entries of the block carry the empty script -/
def InsCtx.SpecialOk (c : InsCtx) : Prop :=
  (∀ e, c.nullEntry = some e → e.script = []) ∧ (∀ e, c.unboundEntry = some e → e.script = [])

theorem linkParents_frame (seq : Nat) (ps : List InscriptionId) (st : State) (ids : List InscriptionId) (seqs : List Nat)
    (r : State × List InscriptionId × List Nat) (h : linkParents seq ps st ids seqs = .ok r) :
    r.1.utxo = st.utxo ∧ r.1.script2out = st.script2out := by
  induction ps generalizing st ids seqs with
  | nil => simp [linkParents] at h; subst h; simp
  | cons p rest ih =>
    simp only [linkParents] at h
    split at h
    · exact ih _ _ _ h
    · split at h
      · simp at h
      · have := ih _ _ _ h
        split at this <;> simpa using this

theorem map_base_set_pushIns (outs : List UtxoEntry) (v : Nat) (e : UtxoEntry) (seq off : Nat)
    (h : outs[v]? = some e) : (outs.set v (pushIns e seq off)).map UtxoEntry.base = outs.map UtxoEntry.base := by
  rw [List.map_set]
  have : (pushIns e seq off).base = e.base := rfl
  rw [this]
  apply List.ext_getElem?
  intro i
  simp only [List.getElem?_set, List.getElem?_map, List.length_map]
  split
  · rename_i hi; subst hi
    split
    · simp [h]
    · rename_i hl; simp at hl; rw [List.getElem?_eq_none hl] at h; cases h
  · rfl

/-- the `step` part of `update_inscription_location` leaves the address-index tables and the
special-outpoint cache entries alone -/
def StepFrame (ls : LocState) (r : Bool × Nat × State × InsCtx) : Prop :=
  r.2.2.1.utxo = ls.st.utxo ∧ r.2.2.1.script2out = ls.st.script2out ∧
  r.2.2.2.nullEntry = ls.ctx.nullEntry ∧ r.2.2.2.unboundEntry = ls.ctx.unboundEntry

theorem uil_frame (cfg : Cfg) (height time : Nat) (ir : Option (List (Nat × Nat))) (fl : Flotsam) (sp : SatPoint)
    (opr : Bool) (target : Target) (ls ls' : LocState)
    (h : updateInscriptionLocation cfg height time ir fl sp opr target ls = .ok ls') :
    ls'.st.utxo = ls.st.utxo ∧ ls'.st.script2out = ls.st.script2out ∧
    ls'.outs.map UtxoEntry.base = ls.outs.map UtxoEntry.base ∧ (ls.ctx.SpecialOk → ls'.ctx.SpecialOk) := by
  unfold updateInscriptionLocation at h
  extract_lets _ _ step at h
  have hstep : ∀ r, step = .ok r → StepFrame ls r := by
    intro r hr
    simp -zeta only [step] at hr
    clear h
    clear step
    split at hr
    · -- old
      split at hr
      · split at hr
        · simp at hr
        · cases hr; exact ⟨rfl, rfl, rfl, rfl⟩
      · extract_lets st1 at hr
        cases hr
        refine ⟨?_, ?_, rfl, rfl⟩ <;> (simp only [st1]; split <;> rfl)
    · -- new
      rename_i cursed fee gallery hidden parents reinscription unbound vindicated horigin
      by_cases hc : (if cursed = true then ls.st.cursed else ls.st.blessed) ≥ 2147483648
      · rw [if_pos hc] at hr; simp at hr
      · rw [if_neg hc] at hr
        extract_lets number st0 seq st1 satO c0 c1 at hr
        clear_value satO
        split at hr
        · simp at hr
        · simp at hr
        · extract_lets c2 c3 c4 c5 charms st2 at hr
          split at hr
          · simp at hr
          · simp at hr
          · rename_i st3 pids pseqs hlp
            have hf := linkParents_frame _ _ _ _ _ _ hlp
            extract_lets st4 ev entry st5 at hr
            have h2 : st2.utxo = ls.st.utxo ∧ st2.script2out = ls.st.script2out := by
              simp only [st2, st1, st0]
              constructor <;> (split <;> split <;> rfl)
            have hf1 : st3.utxo = ls.st.utxo := hf.1.trans h2.1
            have hf2 : st3.script2out = ls.st.script2out := hf.2.trans h2.2
            have h5 : st5.utxo = ls.st.utxo ∧ st5.script2out = ls.st.script2out := by
              simp only [st5, st4]
              constructor <;> (split <;> assumption)
            split at hr
            · obtain rfl := Outcome.ok.inj hr; exact ⟨h5.1, h5.2, rfl, rfl⟩
            · split at hr <;> (obtain rfl := Outcome.ok.inj hr; exact ⟨h5.1, h5.2, rfl, rfl⟩)
  clear_value step
  split at h
  · cases h
  · cases h
  · rename_i unbound seq st ctx
    obtain ⟨hu, hr, hn, hub⟩ := hstep _ rfl
    simp only at hu hr hn hub
    split at h
    · extract_lets off e at h
      cases h
      refine ⟨hu, hr, rfl, ?_⟩
      intro hok
      refine ⟨fun e' he' => hok.1 e' (hn ▸ he'), fun e' he' => ?_⟩
      simp only [Option.some.injEq] at he'
      subst he'
      show e.script = []
      simp only [e]
      cases hue : ctx.unboundEntry with
      | none => rfl
      | some x => exact hok.2 x (hub ▸ hue)
    · split at h
      · split at h
        · cases h
        · rename_i vout e he
          cases h
          exact ⟨hu, hr, map_base_set_pushIns _ _ _ _ _ he, fun hok => ⟨fun e' he' => hok.1 e' (hn ▸ he'), fun e' he' => hok.2 e' (hub ▸ he')⟩⟩
      · split at h
        · cases h
        · extract_lets e at h
          cases h
          refine ⟨hu, hr, rfl, ?_⟩
          intro hok
          refine ⟨fun e' he' => ?_, fun e' he' => hok.2 e' (hub ▸ he')⟩
          simp only [Option.some.injEq] at he'
          subst he'
          show e.script = []
          simp only [e]
          cases hne : ctx.nullEntry with
          | none => rfl
          | some x => exact hok.1 x (hn ▸ hne)

/-- what `index_inscriptions` may change: nothing of the address-index tables, nothing of the
value / ranges / script of the output entries; special-outpoint entries keep the empty script -/
def LocFrame (ls ls' : LocState) : Prop :=
  ls'.st.utxo = ls.st.utxo ∧ ls'.st.script2out = ls.st.script2out ∧
  ls'.outs.map UtxoEntry.base = ls.outs.map UtxoEntry.base ∧ (ls.ctx.SpecialOk → ls'.ctx.SpecialOk)

theorem LocFrame.refl (ls : LocState) : LocFrame ls ls := ⟨rfl, rfl, rfl, id⟩

theorem LocFrame.trans {a b c : LocState} (h1 : LocFrame a b) (h2 : LocFrame b c) : LocFrame a c :=
  ⟨h2.1.trans h1.1, h2.2.1.trans h1.2.1, h2.2.2.1.trans h1.2.2.1, fun h => h2.2.2.2 (h1.2.2.2 h)⟩

theorem applyLocations_frame (cfg : Cfg) (height time : Nat) (ir : Option (List (Nat × Nat)))
    (locs : List (SatPoint × Flotsam × Bool)) (ls ls' : LocState)
    (h : applyLocations cfg height time ir locs ls = .ok ls') : LocFrame ls ls' := by
  induction locs generalizing ls with
  | nil => simp only [applyLocations, Outcome.ok.injEq] at h; subst h; exact LocFrame.refl _
  | cons p rest ih =>
    obtain ⟨sp, fl, opr⟩ := p
    simp only [applyLocations] at h
    split at h
    · simp at h
    · simp at h
    · rename_i ls1 h1
      exact LocFrame.trans (uil_frame _ _ _ _ _ _ _ _ _ _ h1) (ih _ h)

theorem applyLost_frame (cfg : Cfg) (height time : Nat) (ir : Option (List (Nat × Nat))) (ov : Nat)
    (fls : List Flotsam) (ls ls' : LocState)
    (h : applyLost cfg height time ir ov fls ls = .ok ls') : LocFrame ls ls' := by
  induction fls generalizing ls with
  | nil => simp only [applyLost, Outcome.ok.injEq] at h; subst h; exact LocFrame.refl _
  | cons fl rest ih =>
    simp only [applyLost] at h
    split at h
    · simp at h
    · simp at h
    · rename_i ls1 h1
      exact LocFrame.trans (uil_frame _ _ _ _ _ _ _ _ _ _ h1) (ih _ h)

theorem indexInscriptions_frame (cfg : Cfg) (height time : Nat) (tx : Tx) (inputs : List (TxIn × UtxoEntry))
    (ir : Option (List (Nat × Nat))) (ls ls' : LocState)
    (h : indexInscriptions cfg height time tx inputs ir ls = .ok ls') : LocFrame ls ls' := by
  unfold indexInscriptions at h
  extract_lets jubilant totalOut hasNew src st1 isCoinbase src2 ctx1 at h
  have h0 : LocFrame ls { st := st1, ctx := ctx1, outs := ls.outs } := by
    refine ⟨?_, ?_, rfl, ?_⟩
    · simp only [st1]; split <;> rfl
    · simp only [st1]; split <;> rfl
    · intro hok
      simp only [ctx1]
      split
      · exact hok
      · exact hok
  clear_value st1 ctx1
  split at h
  · simp at h
  · simp at h
  · rename_i sc hsc
    extract_lets at h
    split at h
    · simp at h
    · split at h
      · simp at h
      · split at h
        rename_i locs rest outputValue hao
        split at h
        · simp at h
        · simp at h
        · rename_i ls2 h2
          have f2 := LocFrame.trans h0 (applyLocations_frame _ _ _ _ _ _ _ h2)
          split at h
          · split at h
            · simp at h
            · simp at h
            · rename_i ls3 h3
              have f3 := LocFrame.trans f2 (applyLost_frame _ _ _ _ _ _ _ _ h3)
              split at h
              · simp at h
              · obtain rfl := Outcome.ok.inj h
                exact ⟨f3.1, f3.2.1, f3.2.2.1, fun hok => f3.2.2.2 hok⟩
          · split at h
            · simp at h
            · obtain rfl := Outcome.ok.inj h
              exact ⟨f2.1, f2.2.1, f2.2.2.1, fun hok => f2.2.2.2 hok⟩
end Ord.Index
