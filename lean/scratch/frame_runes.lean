import OrdModel.Proofs.IndexMiscAddrFrame
namespace Ord.Index
open Outcome

/-- the rune updater leaves the address-index tables alone -/
def AddrSame (a b : State) : Prop := b.utxo = a.utxo ∧ b.script2out = a.script2out

theorem AddrSame.refl (a : State) : AddrSame a a := ⟨rfl, rfl⟩
theorem AddrSame.trans {a b c : State} (h1 : AddrSame a b) (h2 : AddrSame b c) : AddrSame a c :=
  ⟨h2.1.trans h1.1, h2.2.trans h1.2⟩

theorem takeInputs_frame (ins : List TxIn) (st : State) (un : Balances) (r : State × Balances)
    (h : takeInputs ins st un = .ok r) : AddrSame st r.1 := by
  induction ins generalizing st un with
  | nil => simp only [takeInputs, Outcome.ok.injEq] at h; subst h; exact AddrSame.refl _
  | cons i rest ih =>
    simp only [takeInputs] at h
    split at h
    · exact ih _ _ h
    · split at h
      · have := ih _ _ h; exact ⟨this.1, this.2⟩
      · simp at h
      · simp at h

theorem mint_frame (st : State) (height : Nat) (id : RuneId) : AddrSame st (mint st height id).1 := by
  unfold mint
  split
  · exact AddrSame.refl _
  · split
    · exact AddrSame.refl _
    · exact ⟨rfl, rfl⟩

theorem etched_frame (st : State) (blk : Block) (i : Nat) (tx : Tx) (art : Artifact) (r : State × Option (RuneId × Nat))
    (h : etched st blk i tx art = .ok r) : AddrSame st r.1 := by
  unfold etched at h
  extract_lets named at h
  clear_value named
  split at h
  · obtain rfl := Outcome.ok.inj h; exact AddrSame.refl _
  · split at h
    · obtain rfl := Outcome.ok.inj h; exact AddrSame.refl _
    · split at h
      · simp at h
      · simp at h
      · obtain rfl := Outcome.ok.inj h; exact AddrSame.refl _
      · obtain rfl := Outcome.ok.inj h; exact AddrSame.refl _
  · obtain rfl := Outcome.ok.inj h; exact ⟨rfl, rfl⟩

theorem createRuneEntry_frame (st : State) (blk : Block) (tx : Tx) (art : Artifact) (id : RuneId) (rune : Nat) :
    AddrSame st (createRuneEntry st blk tx art id rune).1 := by
  unfold createRuneEntry
  extract_lets number entry st1 st2
  show AddrSame st st2
  simp only [st2]
  split
  · exact ⟨rfl, rfl⟩
  · exact ⟨rfl, rfl⟩

theorem writeOutputs_frame (blk : Block) (tx : Tx) (l : List (Nat × Balances)) (st : State) (burned : Balances)
    (evs : List Event) (r : State × Balances × List Event)
    (h : writeOutputs blk tx l st burned evs = .ok r) : AddrSame st r.1 := by
  induction l generalizing st burned evs with
  | nil => simp only [writeOutputs, Outcome.ok.injEq] at h; subst h; exact AddrSame.refl _
  | cons p rest ih =>
    obtain ⟨vout, bs⟩ := p
    simp only [writeOutputs] at h
    repeat' (split at h)
    all_goals first | (have := ih _ _ _ h; exact ⟨this.1, this.2⟩) | (simp at h; done)

theorem flushBurned_frame (bb : Balances) (st st' : State) (h : flushBurned bb st = .ok st') : AddrSame st st' := by
  induction bb generalizing st with
  | nil => simp only [flushBurned, Outcome.ok.injEq] at h; subst h; exact AddrSame.refl _
  | cons p rest ih =>
    obtain ⟨id, b⟩ := p
    simp only [flushBurned] at h
    split at h
    · simp at h
    · split at h
      · simp at h
      · have := ih _ h; exact ⟨this.1, this.2⟩

end Ord.Index

namespace Ord.Index
open Outcome

theorem indexRunesTx_frame (st : State) (blk : Block) (i : Nat) (tx : Tx) (bb : Balances)
    (r : State × Balances × List Event) (h : indexRunesTx st blk i tx bb = .ok r) : AddrSame st r.1 := by
  unfold indexRunesTx at h
  split at h
  · simp at h
  · simp at h
  · rename_i st0 un0 h0
    have f0 := takeInputs_frame _ _ _ _ h0
    simp only at f0
    extract_lets alloc0 phase1 at h
    have hp1 : ∀ q, phase1 = .ok q → AddrSame st0 q.1 := by
      intro q hq
      simp -zeta only [phase1] at hq
      clear h phase1
      split at hq
      · obtain rfl := Outcome.ok.inj hq; exact AddrSame.refl _
      · rename_i art hart
        extract_lets mintId at hq
        clear_value mintId
        cases mintId with
        | none =>
          simp -zeta only [] at hq
          have hst : AddrSame st0 st0 := AddrSame.refl _
          split at hq
          · simp at hq
          · simp at hq
          · rename_i st2 et he
            have fe := etched_frame _ _ _ _ _ _ he
            extract_lets afterEdicts at hq
            clear_value afterEdicts
            split at hq
            · simp at hq
            · simp at hq
            · split at hq
              · obtain rfl := Outcome.ok.inj hq
                exact AddrSame.trans (AddrSame.trans hst fe) (createRuneEntry_frame _ _ _ _ _ _)
              · obtain rfl := Outcome.ok.inj hq
                exact AddrSame.trans hst fe
        | some id =>
          have hm := mint_frame st0 blk.height id
          cases hmint : mint st0 blk.height id with
          | mk s o =>
            rw [hmint] at hm
            simp only at hm
            cases o with
            | none =>
              simp -zeta only [hmint] at hq
              split at hq
              · simp at hq
              · simp at hq
              · rename_i st2 et he
                have fe := etched_frame _ _ _ _ _ _ he
                extract_lets afterEdicts at hq
                clear_value afterEdicts
                split at hq
                · simp at hq
                · simp at hq
                · split at hq
                  · obtain rfl := Outcome.ok.inj hq
                    exact AddrSame.trans (AddrSame.trans hm fe) (createRuneEntry_frame _ _ _ _ _ _)
                  · obtain rfl := Outcome.ok.inj hq
                    exact AddrSame.trans hm fe
            | some amount =>
              simp -zeta only [hmint] at hq
              split at hq
              · simp at hq
              · simp at hq
              · skip
                split at hq
                · simp at hq
                · simp at hq
                · rename_i st2 et he
                  have fe := etched_frame _ _ _ _ _ _ he
                  extract_lets afterEdicts at hq
                  clear_value afterEdicts
                  split at hq
                  · simp at hq
                  · simp at hq
                  · split at hq
                    · obtain rfl := Outcome.ok.inj hq
                      exact AddrSame.trans (AddrSame.trans hm fe) (createRuneEntry_frame _ _ _ _ _ _)
                    · obtain rfl := Outcome.ok.inj hq
                      exact AddrSame.trans hm fe
    clear_value phase1
    split at h
    · simp at h
    · simp at h
    · rename_i st3 un alloc evs
      have f3 := f0.trans (hp1 _ rfl)
      simp only at f3
      extract_lets phase2 at h
      clear_value phase2
      split at h
      · simp at h
      · simp at h
      · split at h
        · simp at h
        · simp at h
        · rename_i st4 burned evs2 hw
          have f4 := writeOutputs_frame _ _ _ _ _ _ _ hw
          simp only at f4
          split at h
          · simp at h
          · simp at h
          · obtain rfl := Outcome.ok.inj h
            exact f3.trans f4

theorem indexRunesBlock_go_frame (blk : Block) (l : List (Nat × Tx)) (st : State) (bb : Balances) (evs : List Event)
    (r : State × Balances × List Event) (h : indexRunesBlock.go blk l st bb evs = .ok r) : AddrSame st r.1 := by
  induction l generalizing st bb evs with
  | nil => simp only [indexRunesBlock.go, Outcome.ok.injEq] at h; subst h; exact AddrSame.refl _
  | cons p rest ih =>
    obtain ⟨i, tx⟩ := p
    simp only [indexRunesBlock.go] at h
    split at h
    · simp at h
    · simp at h
    · rename_i st' bb' evs' h1
      exact (indexRunesTx_frame _ _ _ _ _ _ h1).trans (ih _ _ _ h)

theorem indexRunesBlock_frame (st : State) (blk : Block) (r : State × List Event)
    (h : indexRunesBlock st blk = .ok r) : AddrSame st r.1 := by
  unfold indexRunesBlock at h
  split at h
  · simp at h
  · simp at h
  · rename_i st1 bb evs h1
    have f1 := indexRunesBlock_go_frame _ _ _ _ _ _ h1
    split at h
    · simp at h
    · simp at h
    · rename_i st2 h2
      obtain rfl := Outcome.ok.inj h
      exact f1.trans (flushBurned_frame _ _ _ h2)

end Ord.Index
