import Driver.Codec
import Driver.Common
