#!/bin/bash
# usage: .lb.sh OrdModel/Proofs/File.lean  -- compile one file to olean under a memory cap
cd /verif/lean
f="$1"; m="${f%.lean}"
ulimit -v 14000000
export LEAN_NUM_THREADS=1
exec lake env lean -j 1 "$f" -o ".lake/build/lib/lean/$m.olean" -i ".lake/build/lib/lean/$m.ilean"
