import OrdModel.Index.Run
namespace Ord.Index
open Outcome
def Within {α : Type} (S : List String) : Outcome α → Prop
  | .ok _ => True
  | .err _ => False
  | .panic s => s ∈ S
def residual : List String := ["lot overflow", "b"]
theorem t : "lot overflow" ∈ residual := by simp [residual]
theorem t2 : "b" ∈ residual := by decide
theorem addLot_within (m : Balances) (id : RuneId) (a : Nat) : Within residual (addLot m id a) := by
  unfold addLot
  split
  · trivial
  · simp [Within, residual]
end Ord.Index
