import OrdModel.Generated.PanicSites
import OrdModel.Index.PanicSitesExpected
open Ord.Index
theorem t1 : PanicSites.sites = PanicSitesExpected.expected := by rfl
theorem t2 : PanicSites.sites = PanicSitesExpected.expected := by decide
#print axioms t1
#print axioms t2
