import OrdModel.Index.Render
import OrdModel.Server.Pagination
/-
Explorer JSON routes and recursive endpoints as FUNCTIONS OF the index `State`
(src/subcommand/server.rs, src/subcommand/server/r.rs, the accessors of src/index.rs).

Everything the handlers read from the node rather than from the index (the `TxOut` of an
outpoint, whether `gettxout` still knows it) is a parameter (`NodeOut`), supplied by the harness
from the mock node.  Content fields (`content_type`, `content_length`, `delegate`, `metaprotocol`,
`properties`, `effective_content_type`) are re-parsed from the reveal transaction by the real
code and are not functions of the index state: they are outside these views (C19 / C27 cover them).
redb multimaps iterate their values in key order: the children of a parent and the inscriptions
on a sat are listed by ascending sequence number (= creation order).
-/
namespace Ord.Server
open Ord Ord.Index

/-- HTTP-level outcome of a handler -/
inductive Resp (α : Type) where
  | ok (a : α)
  /-- 404 -/
  | notFound
  /-- 500 (`ServerError::Internal`) -/
  | internal
  /-- handler panicked (connection dropped) -/
  | panic (site : String)
  deriving Repr, Inhabited

/-- which of the proposed C18 repairs the source has (`Generated/ViewsFixes.lean`, re-extracted from
the source text on every run) -/
structure Fixes where
  /-- `notes/fix-C18-page-overflow.diff`: saturating page arithmetic in the children / parents accessors -/
  pageOverflow : Bool
  /-- `notes/fix-C18-null-outpoint.diff`: `r::inscription` / `Server::sat` treat the null outpoint like
  the unbound outpoint -/
  nullOutpoint : Bool
  deriving Repr, Inhabited, DecidableEq

/-- the unchanged tree -/
def Fixes.none : Fixes := ⟨false, false⟩
/-- both patches applied -/
def Fixes.all : Fixes := ⟨true, true⟩

/-- what the node says about one outpoint -/
structure NodeOut where
  value : Nat
  script : List UInt8
  /-- `chain.address_from_script` succeeds -/
  addressable : Bool
  /-- `gettxout` (include_mempool) returns it -/
  unspent : Bool
  deriving Repr, Inhabited

/-! ### table readers -/

def idOfSeq (st : State) (s : Nat) : Option InscriptionId := (st.entries[s]?).map (·.id)

/-- `.map(|seq| entry.unwrap().id)` over a list of sequence numbers; `none` = an `unwrap` panics -/
def idsOfSeqs (st : State) (l : List Nat) : Option (List InscriptionId) := l.mapM (idOfSeq st)

/-- values of the multimap `SEQUENCE_NUMBER_TO_CHILDREN` under `seq`, in redb order -/
def childrenOf (st : State) (seq : Nat) : List Nat :=
  sortNats ((st.children.filter (·.1 == seq)).map (·.2))

/-- values of the multimap `SAT_TO_SEQUENCE_NUMBER` under `sat`, in redb order -/
def seqsOfSat (st : State) (sat : Nat) : List Nat :=
  sortNats ((st.sat2seq.filter (·.1 == sat)).map (·.2))

/-- `(rune, spacers)` -/
abbrev Spaced := Nat × Nat

def Spaced.le (a b : Spaced) : Bool := a.1 < b.1 || (a.1 == b.1 && a.2 ≤ b.2)

structure Pile where
  spaced : Spaced
  amount : Nat
  divisibility : Nat
  symbol : Option Nat
  deriving Repr, Inhabited, BEq, DecidableEq

/-- `get_rune_balances_for_output`: the stored balance rows of the outpoint, each resolved through
its rune entry, as a `BTreeMap<SpacedRune, Pile>` (sorted by key; `none` = an `unwrap` panics) -/
def runeBalances (st : State) (op : OutPoint) : Option (List Pile) :=
  match AL.get st.balances op with
  | none => some []
  | some rows =>
    let resolve : RuneId × Nat → Option Pile := fun (id, amount) =>
      match AL.get st.runeEntries id with
      | some (e : RuneEntry) => some ⟨(e.rune, e.spacers), amount, e.divisibility, e.symbol⟩
      | none => none
    match rows.mapM resolve with
    | some (ps : List Pile) => some (ps.mergeSort (fun a b => Spaced.le a.spaced b.spaced))
    | none => none

/-- `inscriptions_on_output`: the entry's `(seq, offset)` list sorted by sequence number -/
def insOnOutput (st : State) (op : OutPoint) : Option (List (SatPoint × InscriptionId)) :=
  match AL.get st.utxo op with
  | none => some []
  | some e =>
    (e.ins.mergeSort (fun a b => a.1 ≤ b.1)).mapM (fun (s, off) => (idOfSeq st s).map (fun id => (⟨op, off⟩, id)))

/-! ### output views -/

structure OutView where
  indexed : Bool
  inscriptions : Option (List InscriptionId)
  runes : Option (List Pile)
  satRanges : Option (List (Nat × Nat))
  spent : Bool
  value : Nat
  script : List UInt8
  /-- the address is present (it is then the address of `script`) -/
  hasAddress : Bool
  deriving Repr, Inhabited

/-- `Index::list` -/
def listRanges (cfg : Cfg) (st : State) (op : OutPoint) : Option (List (Nat × Nat)) :=
  if cfg.indexSats then (AL.get st.utxo op).map (·.ranges) else none

def insForOutput (cfg : Cfg) (st : State) (op : OutPoint) : Option (Option (List InscriptionId)) :=
  if cfg.indexInscriptions then (insOnOutput st op).map (fun l => some (l.map (·.2))) else some none

def runesForOutput (cfg : Cfg) (st : State) (op : OutPoint) : Option (Option (List Pile)) :=
  if cfg.indexRunes then (runeBalances st op).map some else some none

/-- `Index::get_output_info` → `GET /output/<outpoint>` (JSON) -/
def outputView (cfg : Cfg) (st : State) (op : OutPoint) (node : Option NodeOut) : Resp OutView :=
  let ranges := listRanges cfg st op
  let base : Option (Bool × Bool × Nat × List UInt8 × Bool) :=
    if op.isSpecial then
      some (true, false, (ranges.map rangesValue).getD 0, [], false)
    else
      node.map (fun n => ((AL.get st.utxo op).isSome, !n.unspent, n.value, n.script, n.addressable))
  match base with
  | none => .notFound
  | some (indexed, spent, value, script, addr) =>
    match insForOutput cfg st op, runesForOutput cfg st op with
    | some ins, some runes => .ok ⟨indexed, ins, runes, ranges, spent, value, script, addr⟩
    | _, _ => .panic "unwrap"

structure UtxoView where
  inscriptions : Option (List InscriptionId)
  runes : Option (List Pile)
  satRanges : Option (List (Nat × Nat))
  value : Nat
  deriving Repr, Inhabited

/-- `Index::get_utxo_recursive` → `GET /r/utxo/<outpoint>` -/
def utxoView (cfg : Cfg) (st : State) (op : OutPoint) : Resp UtxoView :=
  match AL.get st.utxo op with
  | none => .notFound
  | some e =>
    match insForOutput cfg st op, runesForOutput cfg st op with
    | some ins, some runes => .ok ⟨ins, runes, listRanges cfg st op, e.totalValue cfg⟩
    | _, _ => .panic "unwrap"

/-! ### inscription views -/

inductive InsQuery where
  | id (i : InscriptionId)
  | number (n : Int)
  | sat (s : Nat)
  deriving Repr, Inhabited

def resolveQuery (st : State) : InsQuery → Option Nat
  | .id i => AL.get st.id2seq i
  | .number n => AL.get st.num2seq n
  | .sat s => (seqsOfSat st s).head?

structure InsView where
  id : InscriptionId
  number : Int
  height : Nat
  fee : Nat
  sat : Option Nat
  satpoint : SatPoint
  timestamp : Nat
  /-- bit set of charms -/
  charms : Nat
  value : Option Nat
  /-- script whose address is shown -/
  address : Option (List UInt8)
  parents : List InscriptionId
  children : List InscriptionId
  childCount : Nat
  next : Option InscriptionId
  previous : Option InscriptionId
  rune : Option Spaced
  deriving Repr, Inhabited

/-- `Index::inscription_info` → `GET /inscription/<query>[/<child>]` (JSON).  `node` is the node's
`TxOut` for the inscription's current outpoint (`none` = the node does not know the transaction). -/
def inscriptionInfo (st : State) (q : InsQuery) (child : Option Nat) (node : Option NodeOut) : Resp InsView :=
  match resolveQuery st q with
  | none => .notFound
  | some seq0 =>
    let seq? := match child with
      | none => some seq0
      | some k => (childrenOf st seq0)[k]?
    match seq? with
    | none => .notFound
    | some seq =>
      match st.entries[seq]?, AL.get st.seq2sp seq with
      | some e, some sp =>
        let special := sp.outpoint == OutPoint.unbound || sp.outpoint == OutPoint.null
        if !special && node.isNone then .notFound else
        let out : Option NodeOut := if special then none else node
        let kids := childrenOf st seq
        let rune? : Option (Option Spaced) := match AL.get st.seq2rune seq with
          | none => some none
          | some rid => (AL.get st.runeEntries rid).map (fun r => some (r.rune, r.spacers))
        match idsOfSeqs st (kids.take 4), idsOfSeqs st (e.parents.take 4), rune?,
              (if seq = 0 then some none else (idOfSeq st (seq - 1)).map some) with
        | some children, some parents, some rune, some previous =>
          .ok { id := e.id, number := e.number, height := e.height, fee := e.fee, sat := e.sat, satpoint := sp,
                timestamp := e.timestamp,
                charms := if sp.outpoint == OutPoint.null then setCharm e.charms charmLost else e.charms,
                value := out.map (·.value),
                address := out.bind (fun o => if o.addressable then some o.script else none),
                parents := parents, children := children, childCount := kids.length,
                next := idOfSeq st (seq + 1), previous := previous, rune := rune }
        | _, _, _, _ => .panic "unwrap"
      | _, _ => .panic "unwrap"

structure RInsView where
  id : InscriptionId
  number : Int
  height : Nat
  fee : Nat
  sat : Option Nat
  satpoint : SatPoint
  timestamp : Nat
  charms : Nat
  value : Option Nat
  address : Option (List UInt8)
  deriving Repr, Inhabited

/-- `r::inscription` → `GET /r/inscription/<id>`.  Unrepaired, only the unbound outpoint is
special-cased: for an inscription at the null outpoint the handler asks for the all-zero
transaction and answers 404; with `fx.nullOutpoint` the null outpoint is answered like the unbound
one (no output: no value, no address).  The stored charms are reported as they are (no `Lost`). -/
def rInscription (fx : Fixes) (st : State) (id : InscriptionId) (node : Option NodeOut) : Resp RInsView :=
  match AL.get st.id2seq id with
  | none => .notFound
  | some seq =>
    match st.entries[seq]?, AL.get st.seq2sp seq with
    | some e, some sp =>
      if sp.outpoint == OutPoint.unbound || (fx.nullOutpoint && sp.outpoint == OutPoint.null) then
        .ok ⟨id, e.number, e.height, e.fee, e.sat, sp, e.timestamp, e.charms, none, none⟩
      else match (if sp.outpoint == OutPoint.null then none else node) with
        | none => .notFound
        | some o => .ok ⟨id, e.number, e.height, e.fee, e.sat, sp, e.timestamp, e.charms, some o.value,
                         if o.addressable then some o.script else none⟩
    | _, _ => .panic "unwrap"

structure RelView where
  id : InscriptionId
  number : Int
  height : Nat
  fee : Nat
  sat : Option Nat
  satpoint : SatPoint
  timestamp : Nat
  charms : Nat
  deriving Repr, Inhabited

/-- `get_relative_inscription` -/
def relativeInscription (st : State) (id : InscriptionId) : Resp RelView :=
  match AL.get st.id2seq id with
  | none => .notFound
  | some seq =>
    match st.entries[seq]?, AL.get st.seq2sp seq with
    | some e, some sp => .ok ⟨id, e.number, e.height, e.fee, e.sat, sp, e.timestamp, e.charms⟩
    | _, _ => .notFound

/-! ### listings -/

structure Page (α : Type) where
  items : List α
  more : Bool
  page : Nat
  deriving Repr, Inhabited

def PAGE : Nat := 100

def entryOfId (st : State) (id : InscriptionId) : Option InsEntry :=
  (AL.get st.id2seq id).bind (fun s => st.entries[s]?)

/-- the full child listing of a parent, in creation order -/
def childIds (st : State) (seq : Nat) : Option (List InscriptionId) := idsOfSeqs st (childrenOf st seq)

/-- `get_children_by_sequence_number_paginated` behind `GET /children/<id>[/<page>]` (JSON) and
`GET /r/children/<id>[/<page>]` -/
def childrenPage (fx : Fixes) (st : State) (id : InscriptionId) (page : Nat) : Resp (Page InscriptionId) :=
  match entryOfId st id with
  | none => .notFound
  | some e =>
    match pageKids fx.pageOverflow (childrenOf st e.seq) PAGE page with
    | .panic s => .panic s
    | .err _ => .internal
    | .ok (seqs, more) =>
      match idsOfSeqs st seqs with
      | some ids => .ok ⟨ids, more, page⟩
      | none => .panic "unwrap"

/-- `get_parents_by_sequence_number_paginated` behind `GET /r/parents/<id>[/<page>]` -/
def parentsPage (fx : Fixes) (st : State) (id : InscriptionId) (page : Nat) : Resp (Page InscriptionId) :=
  match entryOfId st id with
  | none => .notFound
  | some e =>
    match pageKids fx.pageOverflow e.parents PAGE page with
    | .panic s => .panic s
    | .err _ => .internal
    | .ok (seqs, more) =>
      match idsOfSeqs st seqs with
      -- `page_index = u32::try_from(page)` else 500
      | some ids => if page < 2 ^ 32 then .ok ⟨ids, more, page⟩ else .internal
      | none => .panic "unwrap"

def relViews (st : State) (ids : List InscriptionId) : Resp (List RelView) :=
  ids.foldr (fun id acc => match relativeInscription st id, acc with
    | .ok v, .ok vs => .ok (v :: vs)
    | .ok _, other => other
    | .notFound, _ => .notFound
    | .internal, _ => .internal
    | .panic s, _ => .panic s) (.ok [])

/-- `GET /r/children/<id>/inscriptions[/<page>]` -/
def childInscriptionsPage (fx : Fixes) (st : State) (id : InscriptionId) (page : Nat) : Resp (Page RelView) :=
  match childrenPage fx st id page with
  | .ok p => (match relViews st p.items with
    | .ok vs => .ok ⟨vs, p.more, page⟩ | .notFound => .notFound | .internal => .internal | .panic s => .panic s)
  | .notFound => .notFound | .internal => .internal | .panic s => .panic s

/-- `GET /r/parents/<id>/inscriptions[/<page>]` (no `u32` conversion of the page here) -/
def parentInscriptionsPage (fx : Fixes) (st : State) (id : InscriptionId) (page : Nat) : Resp (Page RelView) :=
  match entryOfId st id with
  | none => .notFound
  | some e =>
    match pageKids fx.pageOverflow e.parents PAGE page with
    | .panic s => .panic s
    | .err _ => .internal
    | .ok (seqs, more) =>
      match idsOfSeqs st seqs with
      | none => .panic "unwrap"
      | some ids => (match relViews st ids with
        | .ok vs => .ok ⟨vs, more, page⟩ | .notFound => .notFound | .internal => .internal | .panic s => .panic s)

/-- `get_inscription_ids_by_sat_paginated` behind `GET /r/sat/<n>[/<page>]` -/
def satPage (cfg : Cfg) (st : State) (sat page : Nat) : Resp (Page InscriptionId) :=
  if !cfg.indexSats then .notFound else
  let (seqs, more) := pageSat (seqsOfSat st sat) PAGE page
  match idsOfSeqs st seqs with
  | some ids => .ok ⟨ids, more, page⟩
  | none => .panic "unwrap"

/-- `get_inscription_id_by_sat_indexed` behind `GET /r/sat/<n>/at/<index>` -/
def satAt (cfg : Cfg) (st : State) (sat : Nat) (i : Int) : Resp (Option InscriptionId) :=
  if !cfg.indexSats then .notFound else
  match nthSigned (seqsOfSat st sat) i with
  | none => .ok none
  | some s => match idOfSeq st s with
    | some id => .ok (some id)
    | none => .panic "unwrap"

/-- `get_inscriptions_in_block`: ids with sequence numbers from the mark of the previous height
(0 when there is none) up to, excluding, the mark of this height; `none` = a gap (500) -/
def inBlock (st : State) (h : Nat) : Option (List InscriptionId) :=
  match AL.get st.height2lastseq h with
  | none => some []
  | some newest =>
    let oldest := (AL.get st.height2lastseq (h - 1)).getD 0
    idsOfSeqs st ((List.range (newest - oldest)).map (· + oldest))

/-- `GET /inscriptions/block/<height>[/<page>]` (JSON) -/
def inBlockPage (st : State) (h page : Nat) : Resp (Page InscriptionId) :=
  match inBlock st h with
  | none => .internal
  | some ids => let (items, more) := pageSat ids PAGE page; .ok ⟨items, more, page⟩

/-- `get_inscriptions_paginated` behind `GET /inscriptions[/<page>]` (JSON) -/
def latestPage (st : State) (page : Nat) : Resp (Page InscriptionId) :=
  let (seqs, more) := latestSeqs st.entries.length PAGE page
  match idsOfSeqs st seqs with
  | some ids => .ok ⟨ids, more, page⟩
  | none => .panic "unwrap"

/-- `get_galleries_paginated` behind `GET /galleries[/<page>]` (JSON): newest first -/
def galleriesPage (st : State) (page : Nat) : Resp (Page InscriptionId) :=
  let (seqs, more) := pageSat (sortNats st.gallery).reverse PAGE page
  match idsOfSeqs st seqs with
  | some ids => .ok ⟨ids, more, page⟩
  | none => .panic "unwrap"

/-! ### sat, block, rune views -/

structure SatView where
  inscriptions : List InscriptionId
  satpoint : Option SatPoint
  address : Option (List UInt8)
  /-- `sat.charms()` -/
  charms : Nat
  deriving Repr, Inhabited

/-- the satpoint `GET /sat/<sat>` shows: the rare-sat table's, else the first inscription's -/
def satSatpoint (st : State) (sat : Nat) : Option SatPoint :=
  match AL.get st.sat2sp sat with
  | some sp => some sp
  | none => (seqsOfSat st sat).head?.bind (fun s => AL.get st.seq2sp s)

/-- `Server::sat` (JSON), index-derived fields.  Unrepaired, a satpoint at the null outpoint makes
the handler ask for the all-zero transaction: `could not get transaction for sat` (500); with
`fx.nullOutpoint` it is answered like the unbound outpoint (no address). -/
def satView (fx : Fixes) (st : State) (sat : Nat) (node : Option NodeOut) : Resp SatView :=
  match idsOfSeqs st (seqsOfSat st sat) with
  | none => .panic "unwrap"
  | some ids =>
    match satSatpoint st sat with
    | none => .ok ⟨ids, none, none, satCharms sat⟩
    | some sp =>
      if sp.outpoint == OutPoint.unbound || (fx.nullOutpoint && sp.outpoint == OutPoint.null) then
        .ok ⟨ids, some sp, none, satCharms sat⟩
      else match (if sp.outpoint == OutPoint.null then none else node) with
        | none => .internal
        | some o => .ok ⟨ids, some sp, if o.addressable then some o.script else none, satCharms sat⟩

structure BlockView where
  bestHeight : Nat
  hash : Nat
  height : Nat
  inscriptions : List InscriptionId
  runes : List Spaced
  deriving Repr, Inhabited

def RuneId.le (a b : RuneId) : Bool := a.block < b.block || (a.block == b.block && a.tx ≤ b.tx)

/-- rune entries in table (key) order -/
def runesSorted (st : State) : List (RuneId × RuneEntry) :=
  st.runeEntries.mergeSort (fun a b => RuneId.le a.1 b.1)

/-- `get_runes_in_block` -/
def runesInBlock (st : State) (h : Nat) : List Spaced :=
  ((runesSorted st).filter (fun (id, _) => id.block == h)).map (fun (_, e) => (e.rune, e.spacers))

/-- `Server::block` by height (JSON), index-derived fields; the block itself comes from the node
(`none` hash = the node has no such block) -/
def blockView (st : State) (h : Nat) : Resp BlockView :=
  match AL.get st.headers h with
  | none => .notFound
  | some hash =>
    match inBlock st h with
    | none => .internal
    | some ids => .ok ⟨st.height - 1, hash, h, ids, runesInBlock st h⟩

structure RuneView where
  id : RuneId
  entry : RuneEntry
  mintable : Bool
  parent : Option InscriptionId
  deriving Repr, Inhabited

/-- `Index::rune` + `Server::rune` (JSON) for a rune name -/
def runeView (cfg : Cfg) (st : State) (rune : Nat) : Resp RuneView :=
  if !cfg.indexRunes then .notFound else
  match AL.get st.rune2id rune with
  | none => .notFound
  | some id =>
    match AL.get st.runeEntries id with
    | none => .panic "unwrap"
    | some e =>
      let parent : InscriptionId := ⟨e.etching, 0⟩
      .ok ⟨id, e, (e.mintable st.height).isSome, if (AL.get st.id2seq parent).isSome then some parent else none⟩

/-- `get_rune_by_id` / `get_rune_by_number` -/
def runeOfId (st : State) (id : RuneId) : Option Nat := (AL.get st.runeEntries id).map (·.rune)
def runeOfNumber (st : State) (n : Nat) : Option Nat := ((runesSorted st)[n]?).map (·.2.rune)

/-- `runes_paginated(50, page)` behind `GET /runes[/<page>]` (JSON): newest first, look-ahead kept -/
def runesPage (st : State) (page : Nat) : Page RuneId :=
  let (items, more) := pageNoPop ((runesSorted st).reverse.map (·.1)) 50 page
  ⟨items, more, page⟩

/-! ### address view -/

/-- 32 bytes of a txid in internal (little-endian) order: `bitcoin::Txid`'s `Ord` -/
def txidBytesLE (t : Txid) : List Nat := (List.range 32).map (fun i => (t / 256 ^ i) % 256)

def lexLe : List Nat → List Nat → Bool
  | [], _ => true
  | _ :: _, [] => false
  | a :: as, b :: bs => a < b || (a == b && lexLe as bs)

def OutPoint.leBytes (a b : OutPoint) : Bool :=
  if a.txid == b.txid then a.vout ≤ b.vout else lexLe (txidBytesLE a.txid) (txidBytesLE b.txid)

structure AddressView where
  outputs : List OutPoint
  inscriptions : Option (List InscriptionId)
  satBalance : Nat
  runes : Option (List (Spaced × Nat × Nat × Option Nat))
  deriving Repr, Inhabited

/-- fold of `get_aggregated_rune_balances_for_outputs` (amounts of the same rune are added) -/
def aggregate (ps : List Pile) : List (Spaced × Nat × Nat × Option Nat) :=
  let keys := (ps.map (·.spaced)).eraseDups.mergeSort Spaced.le
  keys.filterMap (fun k =>
    match ps.filter (·.spaced == k) with
    | [] => none
    | p :: rest => some (k, (p :: rest).foldl (fun acc q => acc + q.amount) 0, p.divisibility, p.symbol))

/-- `Server::address_info` (JSON `GET /address/<address>`) for the address of `script` -/
def addressView (cfg : Cfg) (st : State) (script : List UInt8) : Resp AddressView :=
  if !cfg.indexAddresses then .notFound else
  let outs := ((st.script2out.filter (·.1 == script)).map (·.2)).mergeSort OutPoint.leBytes
  let bal := outs.foldl (fun acc o => acc + ((AL.get st.utxo o).map (·.totalValue cfg)).getD 0) 0
  -- the per-output accessors answer `None` without the index; they are not reached for no outputs
  let ins? : Option (Option (List InscriptionId)) :=
    if cfg.indexInscriptions || outs.isEmpty then (outs.mapM (fun o => (insOnOutput st o).map (·.map (·.2)))).map (fun ls => some ls.flatten)
    else some none
  let runes? : Option (Option (List (Spaced × Nat × Nat × Option Nat))) :=
    if cfg.indexRunes || outs.isEmpty then (outs.mapM (runeBalances st)).map (fun ls => some (aggregate ls.flatten))
    else some none
  match ins?, runes? with
  | some ins, some runes => .ok ⟨outs, ins, bal, runes⟩
  | _, _ => .panic "unwrap"

/-! ### chain tip -/

/-- `GET /r/blockheight`, `/blockheight` -/
def blockHeight (st : State) : Option Nat := if st.height = 0 then none else some (st.height - 1)

/-- `GET /r/blockhash/<h>`, `/blockhash/<h>`; `none` height = the tip -/
def blockHash (st : State) (h : Option Nat) : Option Nat :=
  match h with
  | some h => AL.get st.headers h
  | none => (blockHeight st).bind (AL.get st.headers)

end Ord.Server
