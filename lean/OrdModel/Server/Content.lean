/-
M-Server, part 2: the content-serving decision as a pure function.

  `respond : Config → View → Route → Request → Response`

* `contentResponse`  ↔ src/subcommand/server/r.rs `content_response`
* `contentInner`     ↔ r.rs `content_inner`               (`/content/<id>`, `/r/sat/<sat>/at/<i>/content`)
* `undelegated`      ↔ r.rs `undelegated_content`         (`/r/undelegated-content/<id>`)
* `preview`          ↔ src/subcommand/server.rs `Server::preview`   (`/preview/<id>`)
* `satAtIndexContent`↔ r.rs `sat_at_index_content` + src/index.rs `get_inscription_id_by_sat_indexed`
* `acceptable`       ↔ src/subcommand/server/accept_encoding.rs `AcceptEncoding::is_acceptable`
* `Ins.ceHeader`, `Ins.ctHeader`, `Ins.media` ↔ src/inscriptions/inscription.rs `content_encoding()`,
  `content_type()` + the `.parse::<HeaderValue>()` of `content_response`, `media()`
* `applyLayers`      ↔ the layers of `Server::run` that touch the modelled header (table re-extracted from the
  source on every run: Generated/ServerLayers.lean)
* `Config.fixes`     ↔ whether `content_inner` / `preview` test the *delegate* against the hidden list too
  (notes/fix-C19-hidden-delegate.diff); read from the source text on every run: Generated/ContentFixes.lean

`View` is what the handlers read from the index (`get_inscription_by_id`, `get_inscription_id_by_sat_indexed`,
`has_sat_index`); brotli decompression is the abstract parameter `View.brotli` (`none` = decoder error).
`Response.served` is a ghost field: the inscription whose body bytes the response was built from.

Core Lean only (compiled into drv_content).
-/
import OrdModel.Server.Csp
import OrdModel.Generated.ServerLayers
import OrdModel.Generated.ContentFixes

namespace Ord.Server.Content
open Ord.Server.Csp

abbrev Id := Nat
abbrev Bytes := List UInt8

def strBytes (s : String) : Bytes := s.toUTF8.toList

def validUtf8 (bs : Bytes) : Bool := ByteArray.validateUTF8 (ByteArray.mk bs.toArray)

/-- the fields of an `Inscription` the handlers look at -/
structure Ins where
  body : Option Bytes
  contentType : Option Bytes
  contentEncoding : Option Bytes
  /-- `Inscription::delegate()` (already `None` when the field does not decode to an id) -/
  delegate : Option Id
  deriving Repr, DecidableEq

structure View where
  /-- `Index::get_inscription_by_id` -/
  ins : Id → Option Ins
  /-- inscriptions on a sat in sequence-number order (`SAT_TO_SEQUENCE_NUMBER`) -/
  sat : Nat → List Id
  hasSatIndex : Bool
  /-- `brotli::Decompressor::read_to_end`; `none` = error -/
  brotli : Bytes → Option Bytes

structure Fixes where
  /-- `content_inner` also tests the delegate against the hidden list -/
  contentInner : Bool
  /-- `Server::preview` also tests the delegate against the hidden list -/
  preview : Bool
  deriving Repr, DecidableEq

def Fixes.none : Fixes := { contentInner := false, preview := false }
def Fixes.all : Fixes := { contentInner := true, preview := true }
/-- what the source text currently has -/
def Fixes.current : Fixes :=
  { contentInner := Generated.contentInnerChecksDelegate, preview := Generated.previewChecksDelegate }

structure Config where
  /-- `--csp-origin` -/
  origin : Option String
  /-- `--decompress` -/
  decompress : Bool
  /-- `Settings::hidden` -/
  hidden : List Id
  fixes : Fixes

inductive CacheControl | immutable | noStore
  deriving DecidableEq, Repr

def CacheControl.text : CacheControl → String
  | .immutable => "public, max-age=1209600, immutable"
  | .noStore => "no-store"

inductive Body
  /-- bytes read from an inscription body (as stored, or brotli-decompressed) -/
  | raw (bs : Bytes)
  /-- a preview page (`templates/preview-*.html`) naming the requested inscription -/
  | tmpl (kind : String) (id : Option Id)
  /-- an error message -/
  | msg (text : Bytes)
  /-- not compared (rejections produced by axum's extractors) -/
  | opaque
  deriving DecidableEq, Repr

structure Response where
  status : Nat
  contentType : Bytes
  contentEncoding : Option Bytes
  cacheControl : Option CacheControl
  csp : List String
  body : Body
  /-- ghost: the inscription whose body the response was built from -/
  served : Option Id
  deriving Repr

/-! ## requests and routes -/

structure Request where
  /-- the first `Accept-Encoding` header value, raw bytes -/
  acceptEncoding : Option Bytes

inductive Route
  /-- `/content/<id>`; `none` = the path segment is not an inscription id -/
  | content (id : Option Id)
  /-- `/r/undelegated-content/<id>` -/
  | undelegated (id : Option Id)
  /-- `/preview/<id>` -/
  | preview (id : Option Id)
  /-- `/r/sat/<sat>/at/<index>/content`; `none` = a path segment does not parse -/
  | satContent (arg : Option (Nat × Int))
  /-- any other route, the fallback, or a rejected method: `h` is whatever its handler answers -/
  | other (h : Response)

/-! ## text helpers -/

def idText (id : Id) : Bytes := strBytes ("#" ++ toString id)

def textPlain : Bytes := strBytes "text/plain; charset=utf-8"
def textHtml : Bytes := strBytes "text/html;charset=utf-8"
def octetStream : Bytes := strBytes "application/octet-stream"
def brotliName : Bytes := strBytes "br"

/-- `ServerError::NotFound(message)` -/
def notFound (message : Bytes) : Response :=
  { status := 404, contentType := textPlain, contentEncoding := none, cacheControl := some .noStore,
    csp := [], body := .msg message, served := none }

/-- `ServerError::Internal(_)` -/
def internalError : Response :=
  { status := 500, contentType := textPlain, contentEncoding := none, cacheControl := none,
    csp := [], body := .msg (strBytes "Internal Server Error"), served := none }

/-- axum `Path` rejection -/
def badRequest : Response :=
  { status := 400, contentType := textPlain, contentEncoding := none, cacheControl := none,
    csp := [], body := .opaque, served := none }

/-- `PreviewUnknownHtml.into_response()` without further headers -/
def previewUnknownBare : Response :=
  { status := 200, contentType := textHtml, contentEncoding := none, cacheControl := none,
    csp := [], body := .tmpl "unknown" none, served := none }

/-- `ServerError::NotAcceptable { .. }` -/
def notAcceptable (ae : Option Bytes) (e : Bytes) : Response :=
  let head := strBytes "inscription content encoding `" ++ e ++ strBytes "` is not acceptable."
  let tail := match ae with
    | some a => strBytes " `Accept-Encoding` header: `" ++ a ++ strBytes "`"
    | none => strBytes " `Accept-Encoding` header not present"
  { status := 406, contentType := textPlain, contentEncoding := none, cacheControl := none,
    csp := [], body := .msg (head ++ tail), served := none }

/-! ## accept-encoding -/

/-- the extractor: `value.to_str().unwrap_or_default()` -/
def aeString (ae : Option Bytes) : Option Bytes :=
  ae.map (fun v => if v.all visibleAscii then v else [])

/-- `str::split(sep)` on bytes: never empty -/
def splitOn (sep : UInt8) : Bytes → List Bytes
  | [] => [[]]
  | b :: rest =>
    if b == sep then [] :: splitOn sep rest
    else match splitOn sep rest with
      | [] => [[b]]
      | h :: t => (b :: h) :: t

def isWs (b : UInt8) : Bool := b == 32 || b == 9

/-- `str::trim` on a visible-ASCII string (only space and tab can occur) -/
def trim (bs : Bytes) : Bytes := ((bs.dropWhile isWs).reverse.dropWhile isWs).reverse

/-- `AcceptEncoding::is_acceptable` (`ae` is the extracted string) -/
def acceptable (ae : Option Bytes) (e : Bytes) : Bool :=
  e.all visibleAscii &&
  (splitOn 44 (ae.getD [])).any (fun v => trim ((splitOn 59 v).headD []) == e)

/-! ## inscription accessors -/

/-- `Inscription::content_encoding()` -/
def Ins.ceHeader (i : Ins) : Option Bytes :=
  match i.contentEncoding with
  | none => none
  | some bs =>
    let s := if validUtf8 bs then bs else []
    if validHeaderValue s then some s else none

/-- `inscription.content_type().and_then(|t| t.parse().ok()).unwrap_or("application/octet-stream")` -/
def Ins.ctHeader (i : Ins) : Bytes :=
  match i.contentType with
  | none => octetStream
  | some bs => if validUtf8 bs && validHeaderValue bs then bs else octetStream

def lookupMedia (table : List (String × Media)) (ct : Bytes) : Media :=
  match table with
  | [] => .unknown
  | (s, m) :: rest => if strBytes s == ct then m else lookupMedia rest ct

/-- `Inscription::media()` -/
def Ins.media (i : Ins) : Media :=
  match i.body with
  | none => .unknown
  | some _ =>
    match i.contentType with
    | none => .unknown
    | some bs => if validUtf8 bs then lookupMedia Generated.mediaTable bs else .unknown

/-! ## handlers -/

/-- `content_response`; `none` = `Ok(None)`, responses with status ≠ 200 are the `Err` branches.
`id` is only used for the ghost field. -/
def contentResponse (cfg : Config) (view : View) (id : Id) (i : Ins) (req : Request) (cache : Bool) :
    Option Response :=
  match contentCsp cfg.origin with
  | none => some internalError
  | some csp =>
    let ae := aeString req.acceptEncoding
    let base : Response :=
      { status := 200, contentType := i.ctHeader, contentEncoding := none,
        cacheControl := some (if cache then .immutable else .noStore), csp := csp, body := .opaque,
        served := some id }
    match i.ceHeader with
    | some e =>
      if acceptable ae e then
        match i.body with
        | none => none
        | some b => some { base with contentEncoding := some e, body := .raw b }
      else if cfg.decompress && e == brotliName then
        match i.body with
        | none => none
        | some b =>
          match view.brotli b with
          | none => some internalError
          | some d => some { base with body := .raw d }
      else some (notAcceptable ae e)
    | none =>
      match i.body with
      | none => none
      | some b => some { base with body := .raw b }

/-- `.ok_or_not_found(|| format!("inscription {id} content"))` -/
def orContentNotFound (id : Id) : Option Response → Response
  | some r => r
  | none => notFound (strBytes "inscription " ++ idText id ++ strBytes " content not found")

/-- `content_inner` -/
def contentInner (cfg : Config) (view : View) (id : Id) (req : Request) (cache : Bool) : Response :=
  if cfg.hidden.contains id then previewUnknownBare
  else match view.ins id with
  | none => notFound (strBytes "inscription " ++ idText id ++ strBytes " not found")
  | some i =>
    match i.delegate with
    | some d =>
      if cfg.fixes.contentInner && cfg.hidden.contains d then previewUnknownBare
      else match view.ins d with
      | none => notFound (strBytes "delegate " ++ idText id ++ strBytes " not found")
      | some di => orContentNotFound id (contentResponse cfg view d di req cache)
    | none => orContentNotFound id (contentResponse cfg view id i req cache)

/-- `undelegated_content` -/
def undelegated (cfg : Config) (view : View) (id : Id) (req : Request) : Response :=
  if cfg.hidden.contains id then previewUnknownBare
  else match view.ins id with
  | none => notFound (strBytes "inscription " ++ idText id ++ strBytes " not found")
  | some i => orContentNotFound id (contentResponse cfg view id i req true)

/-- the non-iframe arm of `Server::preview` -/
def previewPage (cfg : Config) (id : Id) (m : Media) : Response :=
  match previewCsp cfg.origin m with
  | none => internalError
  | some v =>
    { status := 200, contentType := textHtml, contentEncoding := none, cacheControl := none, csp := [v],
      body := (match m with | .unknown => .tmpl "unknown" none | _ => .tmpl m.name (some id)), served := none }

/-- `Server::preview` (the inscription entry lookup succeeds exactly when `get_inscription_by_id` does) -/
def preview (cfg : Config) (view : View) (id : Id) (req : Request) : Response :=
  if cfg.hidden.contains id then previewUnknownBare
  else match view.ins id with
  | none => notFound (strBytes "inscription " ++ idText id ++ strBytes " not found")
  | some i =>
    let go (sid : Id) (si : Ins) : Response :=
      match si.media with
      | .iframe => orContentNotFound id (contentResponse cfg view sid si req true)
      | m => previewPage cfg id m
    match i.delegate with
    | some d =>
      if cfg.fixes.preview && cfg.hidden.contains d then previewUnknownBare
      else match view.ins d with
      | none => notFound (strBytes "delegate " ++ idText id ++ strBytes " not found")
      | some di => go d di
    | none => go id i

/-- `Index::get_inscription_id_by_sat_indexed`: `nth` / `nth_back` -/
def satIndexed (ids : List Id) (index : Int) : Option Id :=
  if index < 0 then ids.reverse[(index + 1).natAbs]? else ids[index.natAbs]?

/-- `sat_at_index_content` -/
def satAtIndexContent (cfg : Config) (view : View) (sat : Nat) (index : Int) (req : Request) : Response :=
  if !view.hasSatIndex then notFound (strBytes "this server has no sat index")
  else match satIndexed (view.sat sat) index with
  | none => notFound (strBytes ("inscription on sat " ++ toString sat ++ " not found"))
  | some id => contentInner cfg view id req (decide (index ≥ 0))

/-- `Sat::LAST` -/
def lastSat : Nat := 2099999997689999

/-- the handler of a route, before any layer -/
def handler (cfg : Config) (view : View) (route : Route) (req : Request) : Response :=
  match route with
  | .content none | .undelegated none | .preview none | .satContent none => badRequest
  | .content (some id) => contentInner cfg view id req true
  | .undelegated (some id) => undelegated cfg view id req
  | .preview (some id) => preview cfg view id req
  | .satContent (some (sat, index)) =>
    -- `Path<(DeserializeFromStr<Sat>, isize)>`: integer sat notation above `Sat::LAST` and indices outside
    -- `isize` are rejected by the extractor
    if sat > lastSat || index < -(2 ^ 63 : Int) || index ≥ (2 ^ 63 : Int) then badRequest
    else satAtIndexContent cfg view sat index req
  | .other h => h

/-! ## layers -/

/-- effect of one layer on the modelled fields -/
def applyLayer (r : Response) : LayerKind → Response
  | .cspIfNotPresent => if r.csp.isEmpty then { r with csp := [Generated.defaultCspValue] } else r
  | .cspOverriding => { r with csp := [Generated.defaultCspValue] }
  | _ => r

def applyLayers (ls : List LayerKind) (r : Response) : Response := ls.foldl applyLayer r

/-- the layers around the fallback of the served router = the outer layers common to every route
(`Theorems/C19.lean` proves that every route has them as a suffix and nothing CSP-relevant inside) -/
def outerLayers : List LayerKind :=
  match servedEntries Generated.routerDefs Generated.servedVar with
  | none => []
  | some es => match es.find? (fun e => e.path.isNone) with
    | none => []
    | some e => e.layers

def respondWith (layers : List LayerKind) (cfg : Config) (view : View) (route : Route) (req : Request) : Response :=
  applyLayers layers (handler cfg view route req)

/-- the explorer's answer on a modelled route (no proxy, no basic-auth credentials configured) -/
def respond (cfg : Config) (view : View) (route : Route) (req : Request) : Response :=
  respondWith outerLayers cfg view route req

/-! ## executable oracles (evaluated by the driver on the implementation's own responses) -/

/-- what a client sees of a response -/
structure Seen where
  status : Nat
  contentType : Bytes
  contentEncoding : Option Bytes
  cacheControl : Option String
  csp : List String
  body : Bytes

/-- a header value as it arrives over HTTP/1.1: optional whitespace around it is not part of the value -/
def wire (b : Bytes) : Bytes := trim b

/-- clause 1+2 for one candidate inscription `i` (the requested one or its delegate): the 200 answer is its
body with its content type, and the encoding table was followed -/
def faithfulFor (cfg : Config) (view : View) (i : Ins) (req : Request) (s : Seen) : Bool :=
  s.contentType == wire i.ctHeader &&
  match i.body with
  | none => false
  | some b =>
    match i.ceHeader with
    | none => s.contentEncoding.isNone && s.body == b
    | some e =>
      if acceptable (aeString req.acceptEncoding) e then s.contentEncoding == some (wire e) && s.body == b
      else cfg.decompress && e == brotliName && s.contentEncoding.isNone && view.brotli b == some s.body

/-- clause 2, refusal side: a 406 is only given when the encoding is neither acceptable nor decompressible -/
def refusalFor (cfg : Config) (i : Ins) (req : Request) : Bool :=
  match i.ceHeader with
  | none => false
  | some e => !acceptable (aeString req.acceptEncoding) e && !(cfg.decompress && e == brotliName)

/-- candidates whose body a route may serve for a requested id -/
def candidates (view : View) (delegating : Bool) (id : Id) : List Ins :=
  match view.ins id with
  | none => []
  | some i =>
    if delegating then
      match i.delegate with
      | some d => (view.ins d).toList
      | none => [i]
    else [i]

/-- oracle for clauses 1 and 2 on a response with a raw body (status 200, not a preview page) or a 406 -/
def oracleFaithful (cfg : Config) (view : View) (delegating : Bool) (id : Id) (req : Request) (s : Seen) : Bool :=
  if s.status == 200 then (candidates view delegating id).any (fun i => faithfulFor cfg view i req s)
  else if s.status == 406 then (candidates view delegating id).any (fun i => refusalFor cfg i req)
  else true

/-- oracle for clause 4: the bytes seen are not the body (stored or decompressed) of a hidden inscription
that has a body.  (The harness gives every inscription a distinct, non-empty body.) -/
def oracleHidden (cfg : Config) (view : View) (s : Seen) : Bool :=
  cfg.hidden.all (fun x =>
    match view.ins x with
    | none => true
    | some i =>
      match i.body with
      | none => true
      | some b => s.body != b && view.brotli b != some s.body)

/-- oracle for clause 5 -/
def oracleNotImmutable (index : Int) (s : Seen) : Bool :=
  index ≥ 0 || s.cacheControl != some CacheControl.immutable.text

end Ord.Server.Content
