import OrdModel.Server.Views
/-
Executable forms of the C18 clauses, evaluated by the driver on the implementation's own answers
(`v.oracle.*` lines).  `Theorems/C18.lean` proves that the model's listings satisfy them.
-/
namespace Ord.Server
open Ord Ord.Index

/-- the output view lists exactly the inscriptions whose stored satpoint lies in the output:
same set, no repetition -/
def locatedOk {α : Type} [DecidableEq α] (view located : List α) : Bool :=
  view.all (fun a => decide (a ∈ located)) && located.all (fun a => decide (a ∈ view)) &&
  decide (view.length = located.length)

/-- a run of pages `0, 1, …, k` of one listing, fetched up to and including the first page after
`more = false`: the pages concatenate to the full list, every page holds at most `size` items,
`more` says exactly whether the next page is non-empty, and the last fetched page is empty. -/
def pagesChain {α : Type} : List (List α × Bool) → Bool
  | [] => true
  | [(items, more)] => items.isEmpty && !more
  | (_, more) :: (next :: rest) => (more == !next.1.isEmpty) && pagesChain (next :: rest)

def pagesOk {α : Type} [DecidableEq α] (size : Nat) (full : List α) (pages : List (List α × Bool)) : Bool :=
  decide ((pages.map (·.1)).flatten = full) && pages.all (fun p => decide (p.1.length ≤ size)) &&
  !pages.isEmpty && pagesChain pages

/-- signed indexing answers: `i ≥ 0` is the `i`-th, `-k` the `k`-th from the end, `none` outside -/
def signedOk {α : Type} [DecidableEq α] (l : List α) (answers : List (Int × Option α)) : Bool :=
  answers.all (fun (i, a) => decide (nthSigned l i = a))

/-- sequence numbers between the mark of the previous height (0 when there is none) and the mark
of this height, ascending -/
def inBlockSeqs (marks : List (Nat × Nat)) (h : Nat) : List Nat :=
  match AL.get marks h with
  | none => []
  | some newest =>
    let oldest := (AL.get marks (h - 1)).getD 0
    (List.range (newest - oldest)).map (· + oldest)

/-- every in-block answer (as sequence numbers) is the run between the two marks -/
def inBlockOk (marks : List (Nat × Nat)) (_n : Nat) (answers : List (Nat × List Nat)) : Bool :=
  answers.all (fun (h, seqs) => decide (seqs = inBlockSeqs marks h))

end Ord.Server
