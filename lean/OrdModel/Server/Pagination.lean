import OrdModel.Basic.Outcome
/-
Pagination idioms of the explorer (src/index.rs accessors and src/subcommand/server.rs handlers).

* `pageOf`      — `iter.skip(page * size).take(size + 1)`, `more = len > size`, `pop()` if more
                  (`get_children_by_sequence_number_paginated`, `get_parents_by_sequence_number_paginated`,
                  `get_inscription_ids_by_sat_paginated`, `inscriptions_in_block_paginated`,
                  `get_galleries_paginated`).
* `pageChecked` — the same with the **unchecked** `page_index * page_size` of the children / parents
                  accessors (usize, 64 bit): a panic branch in the dev profile.
* `pageKids`    — the children / parents accessors: `pageChecked`, or `pageSat` once
                  `notes/fix-C18-page-overflow.diff` is applied (flag from `Generated/ViewsFixes.lean`).
* `pageSat`     — `page_index.saturating_mul(page_size)` (sat listing, in-block listing, galleries).
* `pageNoPop`   — `runes_paginated`: takes `size + 1` and does **not** pop the extra entry.
* `nthSigned`   — `get_inscription_id_by_sat_indexed`: `nth(i)` for `i ≥ 0`,
                  `nth_back((i + 1).abs_diff(0))` for `i < 0`.
* `latestSeqs`  — `get_inscriptions_paginated`: window `[start - size, start]` below
                  `start = last - size * page`, newest first (all subtractions saturating).
-/
namespace Ord.Server

def USIZE : Nat := 2 ^ 64

/-- skip `page * size`, take `size + 1`, report whether the extra one was there, drop it -/
def pageOf {α : Type} (l : List α) (size page : Nat) : List α × Bool :=
  let w := (l.drop (page * size)).take (size + 1)
  (w.take size, decide (size < w.length))

/-- children / parents accessors: `page_index * page_size` is an unchecked `usize` product -/
def pageChecked {α : Type} (l : List α) (size page : Nat) : Outcome (List α × Bool) :=
  if page * size < USIZE then .ok (pageOf l size page) else .panic "page_index * page_size"

/-- `skip(page.saturating_mul(size))` on a 64-bit counter -/
def pageSat {α : Type} (l : List α) (size page : Nat) : List α × Bool :=
  let skip := if page * size < USIZE then page * size else USIZE - 1
  let w := (l.drop skip).take (size + 1)
  (w.take size, decide (size < w.length))

/-- the children / parents accessors as the source has them: with the repair
`notes/fix-C18-page-overflow.diff` (`fixed`) the skip is `page_index.saturating_mul(page_size)`,
without it the unchecked product -/
def pageKids {α : Type} (fixed : Bool) (l : List α) (size page : Nat) : Outcome (List α × Bool) :=
  if fixed then .ok (pageSat l size page) else pageChecked l size page

/-- `runes_paginated`: the look-ahead entry is returned with the page -/
def pageNoPop {α : Type} (l : List α) (size page : Nat) : List α × Bool :=
  let w := (l.drop (page * size)).take (size + 1)
  (w, decide (size < w.length))

/-- `nth` / `nth_back` with a signed index: `-1` is the last element, `-k` the `k`-th from the end -/
def nthSigned {α : Type} (l : List α) (i : Int) : Option α :=
  if i < 0 then l.reverse[(i + 1).natAbs]? else l[i.toNat]?

/-- descending run `hi, hi-1, …` of length `n` -/
def downFrom (hi : Nat) : Nat → List Nat
  | 0 => []
  | n + 1 => hi :: downFrom (hi - 1) n

/-- `get_inscriptions_paginated(size, page)` on a table holding the keys `0 … n-1`: the sequence
numbers listed (newest first) and `more`.  `last = n - 1` (`unwrap_or_default` on the empty
table), `start = last ∸ size * page`, `end = start ∸ size`, the inclusive key range
`end ..= start` reversed, `more = len > size`, the oldest popped if `more`. -/
def latestSeqs (n size page : Nat) : List Nat × Bool :=
  if n = 0 then ([], false) else
  let last := n - 1
  let start := last - size * page
  let stop := start - size
  let len := start - stop + 1
  let more := decide (size < len)
  (downFrom start (if more then len - 1 else len), more)

end Ord.Server
