/-
M-Server, part 1: media kinds, Content-Security-Policy values and the router/layer structure.

* `Media`                         ↔ src/inscriptions/media.rs `enum Media` (table itself: Generated/ServerLayers.lean)
* `previewCspDefault`, `previewCsp` ↔ src/subcommand/server/server_config.rs `preview_content_security_policy`
* `contentCspSources`, `contentCsp` ↔ src/subcommand/server/r.rs `content_response` (first `match &server_config.csp_origin`)
* `LayerKind`, `Step`, `RouterDef`, `evalDefs` ↔ the `Router` calls of `Server::run` (axum semantics: `.layer` wraps
  the routes and the fallback that exist when it is called; `.merge` copies the other router's routes with
  the layers they already have)

Core Lean only (compiled into drv_content).
-/
namespace Ord.Server.Csp

/-! ## media -/

inductive Language | css | javaScript | json | python | yaml
  deriving DecidableEq, Repr

inductive ImageRendering | auto | pixelated
  deriving DecidableEq, Repr

inductive Media
  | audio | code (l : Language) | font | iframe | image (r : ImageRendering) | markdown | model | pdf | text
  | unknown | video
  deriving DecidableEq, Repr

def Language.name : Language → String
  | .css => "css" | .javaScript => "javascript" | .json => "json" | .python => "python" | .yaml => "yaml"

def ImageRendering.name : ImageRendering → String
  | .auto => "auto" | .pixelated => "pixelated"

/-- name used in the canonical text of a preview page -/
def Media.name : Media → String
  | .audio => "audio" | .code l => "code:" ++ l.name | .font => "font" | .iframe => "iframe"
  | .image r => "image:" ++ r.name | .markdown => "markdown" | .model => "model" | .pdf => "pdf"
  | .text => "text" | .unknown => "unknown" | .video => "video"

/-! ## header values -/

/-- `http::header::value::is_valid` : what `HeaderValue::from_str` accepts -/
def validHeaderByte (b : UInt8) : Bool := (b ≥ 32 && b != 127) || b == 9

/-- `http::header::value::is_visible_ascii` : what `HeaderValue::to_str` accepts -/
def visibleAscii (b : UInt8) : Bool := (b ≥ 32 && b < 127) || b == 9

def validHeaderValue (bs : List UInt8) : Bool := bs.all validHeaderByte

def validHeaderString (s : String) : Bool := validHeaderValue s.toUTF8.toList

/-! ## preview policy (server_config.rs) -/

/-- the `default` of `preview_content_security_policy`; `none` is the `Media::Iframe` error branch -/
def previewCspDefault : Media → Option String
  | .audio => some "default-src 'self'"
  | .code _ => some "script-src-elem 'self' https://cdn.jsdelivr.net"
  | .font => some "script-src-elem 'self'; style-src 'self' 'unsafe-inline'"
  | .iframe => none
  | .image _ => some "default-src 'self' 'unsafe-inline'"
  | .markdown => some "script-src-elem 'self' https://cdn.jsdelivr.net"
  | .model => some "script-src-elem 'self' https://ajax.googleapis.com"
  | .pdf => some "script-src-elem 'self' https://cdn.jsdelivr.net"
  | .text => some "default-src 'self'"
  | .unknown => some "default-src 'self'"
  | .video => some "default-src 'self'"

/-- result of `preview_content_security_policy`: `none` = `Err` (500) -/
def previewCsp (origin : Option String) (m : Media) : Option String :=
  match previewCspDefault m with
  | none => none
  | some d =>
    match origin with
    | none => some d
    | some o =>
      let v := d.replace "'self'" o
      if validHeaderString v then some v else none

/-! ## content policy (r.rs content_response) -/

/-- one source expression of the content policy -/
inductive Src
  | self                      -- 'self'
  | path (p : String)         -- <origin><p>, origin = `*:*` or the configured `--csp-origin`
  | unsafeEval | unsafeInline | data | blob
  deriving DecidableEq, Repr

/-- the paths an inscription may load from: its own content and the recursive endpoints -/
def recursivePaths : List String :=
  ["/content/", "/blockheight", "/blockhash", "/blockhash/", "/blocktime", "/r/"]

def scriptSources : List Src := [.unsafeEval, .unsafeInline, .data, .blob]

/-- sources of the first header without `--csp-origin` -/
def selfSources : List Src := .self :: scriptSources

/-- sources of the second header without `--csp-origin`, and of the only header with it -/
def pathSources : List Src := recursivePaths.map .path ++ scriptSources

def Src.render (origin : String) : Src → String
  | .self => "'self'"
  | .path p => origin ++ p
  | .unsafeEval => "'unsafe-eval'"
  | .unsafeInline => "'unsafe-inline'"
  | .data => "data:"
  | .blob => "blob:"

def renderPolicy (origin : String) (ss : List Src) : String :=
  "default-src " ++ " ".intercalate (ss.map (Src.render origin))

/-- the policies `content_response` attaches, as (origin text, sources) -/
def contentPolicies (origin : Option String) : List (String × List Src) :=
  match origin with
  | none => [("", selfSources), ("*:*", pathSources)]
  | some o => [(o, pathSources)]

/-- header values.  Without `--csp-origin` they are `HeaderValue::from_static` constants; with it the value is
built by `format!` and `HeaderValue::from_str` may fail: `none` (500) -/
def contentCsp : Option String → Option (List String)
  | none => some [renderPolicy "" selfSources, renderPolicy "*:*" pathSources]
  | some o =>
    let v := renderPolicy o pathSources
    if validHeaderString v then some [v] else none

/-! ## router structure (Server::run) -/

inductive LayerKind
  | extension | cspIfNotPresent | cspOverriding | hstsOverriding | setOtherIfNotPresent | setOtherOverriding
  | cors | compression | proxyFn | bodyLimit
  deriving DecidableEq, Repr

inductive Method | get | post
  deriving DecidableEq, Repr

inductive Step
  | route (m : Method) (path : String) (inner : List LayerKind)
  | merge (var : Nat)
  | fallback
  | layer (l : LayerKind)
  | withState
  deriving Repr

structure RouterDef where
  var : Nat
  base : Option Nat
  steps : List Step
  deriving Repr

/-- a route (or the fallback: `path = none`) with the layers around it, innermost first -/
structure Entry where
  method : Method
  path : Option String
  layers : List LayerKind
  deriving Repr

abbrev Env := List (Nat × List Entry)

def Env.get (env : Env) (v : Nat) : Option (List Entry) :=
  match env with
  | [] => none
  | (k, es) :: rest => if k == v then some es else Env.get rest v

def applyStep (env : Env) (cur : List Entry) : Step → Option (List Entry)
  | .route m p inner => some (cur ++ [{ method := m, path := some p, layers := inner }])
  | .merge v => (env.get v).map (fun es => cur ++ es)
  | .fallback => some (cur ++ [{ method := .get, path := none, layers := [] }])
  | .layer l => some (cur.map (fun e => { e with layers := e.layers ++ [l] }))
  | .withState => some cur

def applySteps (env : Env) (cur : List Entry) : List Step → Option (List Entry)
  | [] => some cur
  | s :: rest =>
    match applyStep env cur s with
    | none => none
    | some cur' => applySteps env cur' rest

/-- evaluate the statements in order; a later `let` of the same variable shadows the earlier one -/
def evalDefs (env : Env) : List RouterDef → Option Env
  | [] => some env
  | d :: rest =>
    let start : Option (List Entry) := match d.base with
      | none => some []
      | some b => env.get b
    match start with
    | none => none
    | some cur =>
      match applySteps env cur d.steps with
      | none => none
      | some es => evalDefs ((d.var, es) :: env) rest

/-- entries of the served router -/
def servedEntries (defs : List RouterDef) (v : Nat) : Option (List Entry) :=
  match evalDefs [] defs with
  | none => none
  | some env => env.get v

/-- does the layer stack (innermost first) guarantee a CSP header on the way out, and leave a header the
handler set itself untouched?  The `if_not_present` layer must be there and nothing after (outside) it may
override the header. -/
def cspGuaranteed : List LayerKind → Bool
  | [] => false
  | .cspIfNotPresent :: rest => !(rest.contains .cspOverriding)
  | _ :: rest => cspGuaranteed rest

/-- no layer replaces a CSP header the handler set -/
def cspPreserved (ls : List LayerKind) : Bool := !(ls.contains .cspOverriding)

/-- the layers that act on the modelled response fields, outermost last -/
def cspRelevant (ls : List LayerKind) : List LayerKind :=
  ls.filter (fun l => l == .cspIfNotPresent || l == .cspOverriding)

/-- every route and the fallback of the served router sit inside the `if_not_present` CSP layer, no layer
overrides a policy set by a handler, and all of them see the same CSP-relevant layers as the fallback -/
def allRoutesWrapped (defs : List RouterDef) (v : Nat) : Bool :=
  match servedEntries defs v with
  | none => false
  | some es =>
    match es.find? (fun e => e.path.isNone) with
    | none => false
    | some fb =>
      es.all (fun e => cspGuaranteed e.layers && cspPreserved e.layers && cspRelevant e.layers == cspRelevant fb.layers)

end Ord.Server.Csp
