import OrdModel.Num.RuneName
import OrdModel.Generated.SpacedRuneFix
/-
Model of `crates/ordinals/src/spaced_rune.rs`.

Rust `FromStr`:
```
for c in s.chars() { match c {
  'A'..='Z' => rune.push(c),
  '.' | '•' => { let flag = 1 << rune.len().checked_sub(1).ok_or(LeadingSpacer)?;   // u32 shift
                 if spacers & flag != 0 { return Err(DoubleSpacer) }  spacers |= flag }
  _ => return Err(Character(c)) } }
if 32 - spacers.leading_zeros() >= rune.len().try_into().unwrap() { return Err(TrailingSpacer) }
Ok(SpacedRune { rune: rune.parse().map_err(Error::Rune)?, spacers })
```
`1 << k` on `u32` with `k ≥ 32` panics in the dev profile ("attempt to shift left with
overflow"); `usize → u32` `try_into().unwrap()` panics for `len ≥ 2^32`.

The repair `notes/fix-spaced-rune-shl.diff` replaces the two sites by
`u32::try_from(shift).ok().and_then(|s| 1u32.checked_shl(s)).ok_or(Error::Rune(rune::Error::Range))?`
and `rune.len().try_into().unwrap_or(u32::MAX)`.  Both variants are modelled (`parseWith fixed`);
which one the source currently has is re-read from the source text on every run
(`tools/extractors/spaced_rune_fix.py` → `Generated.SpacedRuneFix.shlFixed`) and `parse` follows it.

Rust `Display`: the rune's name, with `•` after character `i` iff `i < len-1` and bit `i` of
`spacers` is set.
-/
namespace Ord.SpacedRune
open Ord Ord.Rune

def bullet : Char := '•'

def isSpacer (c : Char) : Bool := c == '.' || c == bullet

/-- `32 - spacers.leading_zeros()` for a `u32`: number of significant bits -/
def bitLen (n : Nat) : Nat := if n = 0 then 0 else Nat.log2 n + 1

/-- the `for` loop; `letters` holds the pushed letters in reverse, `spacers` the mask;
`fixed` ⇔ the repaired code (shift ≥ 32 is `Error::Rune(Range)` instead of a panic) -/
def parseLoopWith (fixed : Bool) (letters : List Char) (spacers : Nat) :
    List Char → Outcome (List Char × Nat)
  | [] => .ok (letters.reverse, spacers)
  | c :: cs =>
    if isUpper c then parseLoopWith fixed (c :: letters) spacers cs
    else if isSpacer c then
      if letters.length = 0 then .err "leading"
      else
        let k := letters.length - 1
        if k ≥ 32 then (if fixed then .err "range" else .panic "shl")
        else if spacers.testBit k then .err "double"
        else parseLoopWith fixed letters (spacers ||| 2 ^ k) cs
    else .err s!"character {c.toNat}"

/-- `impl FromStr for SpacedRune`, unchanged (`fixed = false`) or repaired (`fixed = true`) -/
def parseWith (fixed : Bool) (s : List Char) : Outcome (Nat × Nat) :=
  match parseLoopWith fixed [] 0 s with
  | .ok (letters, spacers) =>
    if fixed = false ∧ letters.length ≥ 2 ^ 32 then .panic "try_into"   -- `.try_into().unwrap()`
    else if bitLen spacers ≥ min letters.length (2 ^ 32 - 1) then .err "trailing"
    else
      match Rune.parse letters with
      | .ok r => .ok (r, spacers)
      | .err e => .err e
      | .panic p => .panic p
  | .err e => .err e
  | .panic p => .panic p

/-- the code as it currently is in /repo -/
def parseLoop : List Char → Nat → List Char → Outcome (List Char × Nat) :=
  parseLoopWith Ord.Generated.SpacedRuneFix.shlFixed

/-- `impl FromStr for SpacedRune` as it currently is in /repo -/
def parse (s : List Char) : Outcome (Nat × Nat) := parseWith Ord.Generated.SpacedRuneFix.shlFixed s

/-- body of `Display`: `i` = index of the head character -/
def interleave (spacers : Nat) : Nat → List Char → List Char
  | _, [] => []
  | _, [c] => [c]
  | i, c :: c' :: cs =>
    if spacers.testBit i then c :: bullet :: interleave spacers (i + 1) (c' :: cs)
    else c :: interleave spacers (i + 1) (c' :: cs)

/-- `impl Display for SpacedRune` -/
def print (rune spacers : Nat) : List Char := interleave spacers 0 (Rune.print rune)

/-- both spacer characters read the same -/
def normalize (s : List Char) : List Char := s.map fun c => if c == '.' then bullet else c

/-- executable form of the C32 spaced round-trip conclusion, on implementation outputs:
`printed` is what was displayed for `(rune, spacers)`, `back` what was parsed from it -/
def checkRoundTrip (rune spacers : Nat) (printed : List Char) (back : Outcome (Nat × Nat)) : Bool :=
  let letters := printed.filter isUpper
  bij letters == rune + 1 &&
  back == .ok (rune, spacers % 2 ^ (letters.length - 1)) &&
  printed == interleave spacers 0 letters

/-- `s` was accepted as `(rune, spacers)` and that pair printed as `printed`
(conclusion of `c32_spaced_print_parse`) -/
def checkStringRoundTrip (s : List Char) (rune spacers : Nat) (printed : List Char) : Bool :=
  let letters := s.filter isUpper
  bij letters == rune + 1 && spacers < 2 ^ (letters.length - 1) && printed == normalize s

/-- executable form of the C31 soundness conclusion for `SpacedRune::from_str`, on an
implementation answer for input `s` -/
def checkAnswer (s : List Char) : Outcome (Nat × Nat) → Bool
  | .ok (r, sp) =>
    let letters := s.filter isUpper
    !letters.isEmpty && bij letters == r + 1 && r < U128 && sp < 2 ^ (letters.length - 1) &&
      normalize s == interleave sp 0 letters
  | .err _ => true
  | .panic _ => false

end Ord.SpacedRune
