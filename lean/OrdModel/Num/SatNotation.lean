/-
Model of the text side of `crates/ordinals/src/sat.rs`: the printers (`Display` of `Sat`,
`DecimalSat`, `Degree`, and `Sat::name`) and `impl FromStr for Sat` with its helpers
`from_name`, `from_degree`, `from_decimal`, `from_percentile`.

Text is `List Char`.  `str::parse::<u32/u64>` is modelled by `parseUInt` (core's
`from_str_radix`: optional leading `+`, a lone sign is an invalid digit, ASCII digits only,
positive overflow detected per digit).  Every u32/u64 arithmetic step of the parsers is
width-checked (`Outcome.addW/mulW/subW`, dev profile ⇒ panic).

Floating point: `from_percentile` parses an `f64`; Lean cannot compute with IEEE doubles in the
kernel, so the result of `text[..len-1].parse::<f64>()` and of the range computation is passed
in as a `FloatClass` by the harness (the real code's own f64 arithmetic); the model decides
acceptance from the class exactly as the Rust comparisons do (`NaN < 0.0` and `NaN > last` are
both false, `NaN as u64 = 0`).
-/
import OrdModel.Num.Degree
namespace Ord.SatNotation
open Ord Ord.Epoch

/-! ## integers -/

inductive IntErr where
  | empty | invalid | overflow
  deriving Repr, DecidableEq, Inhabited

def IntErr.toString : IntErr → String
  | .empty => "ParseInt:empty" | .invalid => "ParseInt:invalid" | .overflow => "ParseInt:overflow"

def isDigit (c : Char) : Bool := decide ('0'.toNat ≤ c.toNat) && decide (c.toNat ≤ '9'.toNat)

def digitVal (c : Char) : Nat := c.toNat - '0'.toNat

/-- digit loop of `from_str_radix` at width `w`: invalid digit is reported at the offending
character, positive overflow as soon as the accumulated value leaves the width -/
def parseDigits (w : Nat) : List Char → Nat → Except IntErr Nat
  | [], acc => .ok acc
  | c :: cs, acc =>
    if isDigit c then
      let a := acc * 10 + digitVal c
      if a < 2 ^ w then parseDigits w cs a else .error .overflow
    else .error .invalid

/-- `str::parse::<uN>()` for an unsigned type of `w` bits -/
def parseUInt (w : Nat) : List Char → Except IntErr Nat
  | [] => .error .empty
  | c :: rest =>
    if rest.isEmpty && (c == '+' || c == '-') then .error .invalid
    else if c == '+' then parseDigits w rest 0
    else parseDigits w (c :: rest) 0

def digitChar (d : Nat) : Char := Char.ofNat ('0'.toNat + d)

def decDigitsAux (n : Nat) (acc : List Char) : List Char :=
  if h : n < 10 then digitChar n :: acc
  else decDigitsAux (n / 10) (digitChar (n % 10) :: acc)
termination_by n
decreasing_by omega

/-- `Display` of an unsigned integer -/
def decDigits (n : Nat) : List Char := decDigitsAux n []

/-- `str::split_once(c)`: split at the first occurrence -/
def splitOnce (d : Char) : List Char → Option (List Char × List Char)
  | [] => none
  | c :: cs =>
    if c = d then some ([], cs)
    else match splitOnce d cs with
      | some (a, b) => some (c :: a, b)
      | none => none

/-! ## printers -/

def degreeSym : Char := '°'
def minuteSym : Char := '′'
def secondSym : Char := '″'
def thirdSym : Char := '‴'

/-- `Display for Sat` (derive_more `Display` on the newtype) -/
def printInteger (s : Nat) : List Char := decDigits s

/-- `Display for DecimalSat` -/
def printDecimal (h k : Nat) : List Char := decDigits h ++ '.' :: decDigits k

/-- `Display for Degree` -/
def printDegree (d : Degree) : List Char :=
  decDigits d.hour ++ degreeSym :: (decDigits d.minute ++ minuteSym ::
    (decDigits d.second ++ secondSym :: (decDigits d.third ++ [thirdSym])))

/-! ## parsers -/

def isAsciiLower (c : Char) : Bool := decide ('a'.toNat ≤ c.toNat) && decide (c.toNat ≤ 'z'.toNat)

/-- the `for c in s.chars()` loop of `Sat::from_name`; returns `x`.
`x = x * 26 + c as u64 - 'a' as u64 + 1` is evaluated left to right in u64. -/
def fromNameLoop : List Char → Nat → Outcome Nat
  | [], x => .ok x
  | c :: cs, x =>
    if isAsciiLower c then
      match Outcome.mulW 64 "mul@from_name" x 26 with
      | .ok a =>
        match Outcome.addW 64 "add@from_name:+c" a c.toNat with
        | .ok b =>
          match Outcome.subW "sub@from_name:-a" b 'a'.toNat with
          | .ok d =>
            match Outcome.addW 64 "add@from_name:+1" d 1 with
            | .ok x' => if x' > SUPPLY then .err "NameRange" else fromNameLoop cs x'
            | .err e => .err e
            | .panic p => .panic p
          | .err e => .err e
          | .panic p => .panic p
        | .err e => .err e
        | .panic p => .panic p
      | .err e => .err e
      | .panic p => .panic p
    else .err "NameCharacter"

/-- `Sat::from_name` -/
def fromName (cs : List Char) : Outcome Nat :=
  match fromNameLoop cs 0 with
  | .ok x => Outcome.subW "sub@from_name:supply-x" SUPPLY x
  | .err e => .err e
  | .panic p => .panic p

/-- `Height::starting_sat() + offset` (`impl Add<u64> for Sat`, u64 addition) -/
def satAt (h k : Nat) : Outcome Nat :=
  Outcome.addW 64 "add@sat.add" (Height.startingSat h) k

/-- `Sat::from_decimal` -/
def fromDecimal (cs : List Char) : Outcome Nat :=
  match splitOnce '.' cs with
  | none => .err "MissingPeriod"
  | some (hs, os) =>
    match parseUInt 32 hs with
    | .error e => .err e.toString
    | .ok h =>
      match parseUInt 64 os with
      | .error e => .err e.toString
      | .ok k =>
        if k ≥ Height.subsidy h then .err "BlockOffset" else satAt h k

/-- the arithmetic of `from_degree` between the three component parses and the `‴` split:
cycle start epoch, the 336-relationship, epoch, height — all in u32 -/
def degreeHeight (cycle epochOffset periodOffset : Nat) : Outcome Nat :=
  match Outcome.mulW 32 "mul@from_degree:cycle*6" cycle CYCLE_EPOCHS with
  | .ok cycleStartEpoch =>
    -- `period_offset + SUBSIDY_HALVING_INTERVAL * CYCLE_EPOCHS - epoch_offset`
    match Outcome.addW 32 "add@from_degree:relationship" periodOffset (SUBSIDY_HALVING_INTERVAL * CYCLE_EPOCHS) with
    | .ok r0 =>
      match Outcome.subW "sub@from_degree:relationship" r0 epochOffset with
      | .ok relationship =>
        if relationship % 336 ≠ 0 then .err "EpochPeriodMismatch"
        else
          let since := relationship % DIFFCHANGE_INTERVAL / 336
          match Outcome.addW 32 "add@from_degree:epoch" cycleStartEpoch since with
          | .ok epoch =>
            match Outcome.mulW 32 "mul@from_degree:epoch*210000" epoch SUBSIDY_HALVING_INTERVAL with
            | .ok eh => Outcome.addW 32 "add@from_degree:height" eh epochOffset
            | .err e => .err e
            | .panic p => .panic p
          | .err e => .err e
          | .panic p => .panic p
      | .err e => .err e
      | .panic p => .panic p
    | .err e => .err e
    | .panic p => .panic p
  | .err e => .err e
  | .panic p => .panic p

/-- the tail of `from_degree`: optional `‴` part, trailing characters, block offset -/
def degreeTail (height : Nat) (rest : List Char) : Outcome Nat :=
  let finish (blockOffset : Nat) (rest : List Char) : Outcome Nat :=
    if !rest.isEmpty then .err "TrailingCharacters"
    else if blockOffset ≥ Height.subsidy height then .err "BlockOffset"
    else satAt height blockOffset
  match splitOnce thirdSym rest with
  | some (bo, rest') =>
    match parseUInt 64 bo with
    | .error e => .err e.toString
    | .ok k => finish k rest'
  | none => finish 0 rest

/-- `Sat::from_degree` -/
def fromDegree (cs : List Char) : Outcome Nat :=
  match splitOnce degreeSym cs with
  | none => .err "MissingDegree"
  | some (cyc, rest) =>
    match parseUInt 32 cyc with
    | .error e => .err e.toString
    | .ok cycle =>
      match splitOnce minuteSym rest with
      | none => .err "MissingMinute"
      | some (eo, rest) =>
        match parseUInt 32 eo with
        | .error e => .err e.toString
        | .ok epochOffset =>
          if epochOffset ≥ SUBSIDY_HALVING_INTERVAL then .err "EpochOffset"
          else
            match splitOnce secondSym rest with
            | none => .err "MissingSecond"
            | some (po, rest) =>
              match parseUInt 32 po with
              | .error e => .err e.toString
              | .ok periodOffset =>
                if periodOffset ≥ DIFFCHANGE_INTERVAL then .err "PeriodOffset"
                else
                  match degreeHeight cycle epochOffset periodOffset with
                  | .ok height => degreeTail height rest
                  | .err e => .err e
                  | .panic p => .panic p

/-- What the real f64 arithmetic of `from_percentile` did with the text before the final `%`
(supplied by the harness): `parseErr` = `parse::<f64>()` failed; `nan`; `neg` = `< 0.0`;
`over` = `(p / 100 * last).round() > last` (includes +∞); `inRange n` = otherwise, with
`n = round(..) as u64`. `unknown` = no class was supplied. -/
inductive FloatClass where
  | unknown | parseErr | nan | neg | over
  | inRange (n : Nat)
  deriving Repr, DecidableEq, Inhabited

/-- `Sat::from_percentile` -/
def fromPercentile (cs : List Char) (fc : FloatClass) : Outcome Nat :=
  if cs.getLast? ≠ some '%' then .err "Percentile"
  else match fc with
    | .unknown => .err "model:no-float-class"
    | .parseErr => .err "ParseFloat"
    | .nan => .ok 0            -- both comparisons false, `NaN as u64` = 0
    | .neg => .err "Percentile"
    | .over => .err "Percentile"
    | .inRange n => .ok n

/-- the final arm of `Sat::from_str` -/
def fromInteger (cs : List Char) : Outcome Nat :=
  match parseUInt 64 cs with
  | .error e => .err e.toString
  | .ok n => if n > LAST then .err "IntegerRange" else .ok n

inductive Notation where
  | name | degree | percentile | decimal | integer
  deriving Repr, DecidableEq, Inhabited

def Notation.toString : Notation → String
  | .name => "name" | .degree => "degree" | .percentile => "percentile"
  | .decimal => "decimal" | .integer => "integer"

/-- the dispatch of `impl FromStr for Sat` -/
def dispatch (cs : List Char) : Notation :=
  if cs.any isAsciiLower then .name
  else if cs.contains degreeSym then .degree
  else if cs.contains '%' then .percentile
  else if cs.contains '.' then .decimal
  else .integer

/-- `impl FromStr for Sat` -/
def fromStr (cs : List Char) (fc : FloatClass) : Outcome Nat :=
  match dispatch cs with
  | .name => fromName cs
  | .degree => fromDegree cs
  | .percentile => fromPercentile cs fc
  | .decimal => fromDecimal cs
  | .integer => fromInteger cs

/-! ## grammar semantics ("denotes"), independent of the parsers' arithmetic

Numerals are `+?[0-9]+` read as unbounded naturals. -/

def numeralValue : List Char → Nat → Nat
  | [], acc => acc
  | c :: cs, acc => numeralValue cs (acc * 10 + digitVal c)

/-- value of a numeral `+?[0-9]+`, `none` if the text is not one -/
def numeral? (cs : List Char) : Option Nat :=
  let ds := match cs with
    | c :: rest => if c == '+' then rest else cs
    | [] => []
  if !ds.isEmpty && ds.all isDigit then some (numeralValue ds 0) else none

/-- bijective base-26 value of a letter string (`a`=1 … `z`=26, most significant first) -/
def nameValue : List Char → Nat → Nat
  | [], acc => acc
  | c :: cs, acc => nameValue cs (acc * 26 + (c.toNat - 'a'.toNat + 1))

def denotesInteger (cs : List Char) (v : Nat) : Bool :=
  match numeral? cs with
  | some n => n == v && decide (v < SUPPLY)
  | none => false

def denotesName (cs : List Char) (v : Nat) : Bool :=
  !cs.isEmpty && cs.all isAsciiLower && decide (nameValue cs 0 ≤ SUPPLY) &&
    v == SUPPLY - nameValue cs 0

/-- `h.k` denotes the sat at offset `k < subsidy h` of block `h` -/
def denotesDecimal (cs : List Char) (v : Nat) : Bool :=
  match splitOnce '.' cs with
  | none => false
  | some (hs, os) =>
    match numeral? hs, numeral? os with
    | some h, some k => decide (k < Height.subsidy h) && v == Height.startingSat h + k
    | _, _ => false

/-- `c°m′s″t‴` (the `t‴` part may be omitted = 0) denotes the sat `v < SUPPLY` whose degree,
computed forwards from `v` (`Sat::degree`), is `(c, m, s, t)` -/
def denotesDegree (cs : List Char) (v : Nat) : Bool :=
  match splitOnce degreeSym cs with
  | none => false
  | some (a, r1) =>
    match splitOnce minuteSym r1 with
    | none => false
    | some (b, r2) =>
      match splitOnce secondSym r2 with
      | none => false
      | some (c, r3) =>
        let t? : Option Nat := match splitOnce thirdSym r3 with
          | some (d, r4) => if r4.isEmpty then numeral? d else none
          | none => if r3.isEmpty then some 0 else none
        match numeral? a, numeral? b, numeral? c, t? with
        | some hour, some minute, some second, some third =>
          decide (v < SUPPLY) &&
            decide (Degree.ofHeightThird (Sat.heightN v) (Sat.thirdN v) = ⟨hour, minute, second, third⟩)
        | _, _, _, _ => false

/-- percentile: the value is whatever the real f64 computation produced, but only a finite,
non-negative, in-range percentage denotes a sat -/
def denotesPercentile (cs : List Char) (fc : FloatClass) (v : Nat) : Bool :=
  cs.getLast? == some '%' &&
  match fc with
  | .inRange n => n == v && decide (v < SUPPLY)
  | _ => false

def denotes (cs : List Char) (fc : FloatClass) (v : Nat) : Bool :=
  match dispatch cs with
  | .name => denotesName cs v
  | .degree => denotesDegree cs v
  | .percentile => denotesPercentile cs fc v
  | .decimal => denotesDecimal cs v
  | .integer => denotesInteger cs v

end Ord.SatNotation
