/-
Model of the text side of `crates/ordinals/src/sat.rs`: the printers (`Display` of `Sat`,
`DecimalSat`, `Degree`, and `Sat::name`) and `impl FromStr for Sat` with its helpers
`from_name`, `from_degree`, `from_decimal`, `from_percentile`.

Text is `List Char`.  `str::parse::<u32/u64>` is modelled by `parseUInt` (core's
`from_str_radix`: optional leading `+`, a lone sign is an invalid digit, ASCII digits only,
positive overflow detected per digit).  Every u32/u64 arithmetic step of the parsers is
width-checked (`Outcome.addW/mulW/subW`, dev profile ⇒ panic).

Floating point: `from_percentile` parses an `f64`; Lean cannot compute with IEEE doubles in the
kernel, so the result of `text[..len-1].parse::<f64>()` and of the range computation is passed
in as a `FloatClass` by the harness (the real code's own f64 arithmetic); the model decides
acceptance from the class exactly as the Rust comparisons do (`NaN < 0.0` and `NaN > last` are
both false, `NaN as u64 = 0`).
-/
import OrdModel.Num.Degree
import OrdModel.Generated.SatFix
namespace Ord.SatNotation
open Ord Ord.Epoch

/-! ## integers -/

inductive IntErr where
  | empty | invalid | overflow
  deriving Repr, DecidableEq, Inhabited

def IntErr.toString : IntErr → String
  | .empty => "ParseInt:empty" | .invalid => "ParseInt:invalid" | .overflow => "ParseInt:overflow"

def isDigit (c : Char) : Bool := decide ('0'.toNat ≤ c.toNat) && decide (c.toNat ≤ '9'.toNat)

def digitVal (c : Char) : Nat := c.toNat - '0'.toNat

/-- digit loop of `from_str_radix` at width `w`: invalid digit is reported at the offending
character, positive overflow as soon as the accumulated value leaves the width -/
def parseDigits (w : Nat) : List Char → Nat → Except IntErr Nat
  | [], acc => .ok acc
  | c :: cs, acc =>
    if isDigit c then
      let a := acc * 10 + digitVal c
      if a < 2 ^ w then parseDigits w cs a else .error .overflow
    else .error .invalid

/-- `str::parse::<uN>()` for an unsigned type of `w` bits -/
def parseUInt (w : Nat) : List Char → Except IntErr Nat
  | [] => .error .empty
  | c :: rest =>
    if rest.isEmpty && (c == '+' || c == '-') then .error .invalid
    else if c == '+' then parseDigits w rest 0
    else parseDigits w (c :: rest) 0

def digitChar (d : Nat) : Char := Char.ofNat ('0'.toNat + d)

def decDigitsAux (n : Nat) (acc : List Char) : List Char :=
  if h : n < 10 then digitChar n :: acc
  else decDigitsAux (n / 10) (digitChar (n % 10) :: acc)
termination_by n
decreasing_by omega

/-- `Display` of an unsigned integer -/
def decDigits (n : Nat) : List Char := decDigitsAux n []

/-- `str::split_once(c)`: split at the first occurrence -/
def splitOnce (d : Char) : List Char → Option (List Char × List Char)
  | [] => none
  | c :: cs =>
    if c = d then some ([], cs)
    else match splitOnce d cs with
      | some (a, b) => some (c :: a, b)
      | none => none

/-! ## printers -/

def degreeSym : Char := '°'
def minuteSym : Char := '′'
def secondSym : Char := '″'
def thirdSym : Char := '‴'

/-- `Display for Sat` (derive_more `Display` on the newtype) -/
def printInteger (s : Nat) : List Char := decDigits s

/-- `Display for DecimalSat` -/
def printDecimal (h k : Nat) : List Char := decDigits h ++ '.' :: decDigits k

/-- `Display for Degree` -/
def printDegree (d : Degree) : List Char :=
  decDigits d.hour ++ degreeSym :: (decDigits d.minute ++ minuteSym ::
    (decDigits d.second ++ secondSym :: (decDigits d.third ++ [thirdSym])))

/-! ## parsers -/

def isAsciiLower (c : Char) : Bool := decide ('a'.toNat ≤ c.toNat) && decide (c.toNat ≤ 'z'.toNat)

/-- the `for c in s.chars()` loop of `Sat::from_name`; returns `x`.
`x = x * 26 + c as u64 - 'a' as u64 + 1` is evaluated left to right in u64. -/
def fromNameLoop : List Char → Nat → Outcome Nat
  | [], x => .ok x
  | c :: cs, x =>
    if isAsciiLower c then
      match Outcome.mulW 64 "mul@from_name" x 26 with
      | .ok a =>
        match Outcome.addW 64 "add@from_name:+c" a c.toNat with
        | .ok b =>
          match Outcome.subW "sub@from_name:-a" b 'a'.toNat with
          | .ok d =>
            match Outcome.addW 64 "add@from_name:+1" d 1 with
            | .ok x' => if x' > SUPPLY then .err "NameRange" else fromNameLoop cs x'
            | .err e => .err e
            | .panic p => .panic p
          | .err e => .err e
          | .panic p => .panic p
        | .err e => .err e
        | .panic p => .panic p
      | .err e => .err e
      | .panic p => .panic p
    else .err "NameCharacter"

/-- `Sat::from_name` -/
def fromName (cs : List Char) : Outcome Nat :=
  match fromNameLoop cs 0 with
  | .ok x => Outcome.subW "sub@from_name:supply-x" SUPPLY x
  | .err e => .err e
  | .panic p => .panic p

/-- `Height::starting_sat() + offset` (`impl Add<u64> for Sat`, u64 addition) -/
def satAt (h k : Nat) : Outcome Nat :=
  Outcome.addW 64 "add@sat.add" (Height.startingSat h) k

/-- `Sat::from_decimal` -/
def fromDecimal (cs : List Char) : Outcome Nat :=
  match splitOnce '.' cs with
  | none => .err "MissingPeriod"
  | some (hs, os) =>
    match parseUInt 32 hs with
    | .error e => .err e.toString
    | .ok h =>
      match parseUInt 64 os with
      | .error e => .err e.toString
      | .ok k =>
        if k ≥ Height.subsidy h then .err "BlockOffset" else satAt h k

/-- the arithmetic of `from_degree` between the three component parses and the `‴` split:
cycle start epoch, the 336-relationship, epoch, height — all in u32, each step width-checked
in source order (written as a chain of guards: the value of every step is the plain `Nat`
expression once its guard has passed) -/
def degreeHeight (cycle epochOffset periodOffset : Nat) : Outcome Nat :=
  -- `cycle_number * CYCLE_EPOCHS`
  if ¬ cycle * CYCLE_EPOCHS < 2 ^ 32 then .panic "mul@from_degree:cycle*6"
  -- `period_offset + SUBSIDY_HALVING_INTERVAL * CYCLE_EPOCHS - epoch_offset`
  else if ¬ periodOffset + SUBSIDY_HALVING_INTERVAL * CYCLE_EPOCHS < 2 ^ 32 then
    .panic "add@from_degree:relationship"
  else if ¬ epochOffset ≤ periodOffset + SUBSIDY_HALVING_INTERVAL * CYCLE_EPOCHS then
    .panic "sub@from_degree:relationship"
  else if (periodOffset + SUBSIDY_HALVING_INTERVAL * CYCLE_EPOCHS - epochOffset) % 336 ≠ 0 then
    .err "EpochPeriodMismatch"
  -- `epoch = cycle_start_epoch + relationship % DIFFCHANGE_INTERVAL / HALVING_INCREMENT`
  else if ¬ cycle * CYCLE_EPOCHS +
      (periodOffset + SUBSIDY_HALVING_INTERVAL * CYCLE_EPOCHS - epochOffset) % DIFFCHANGE_INTERVAL / 336 < 2 ^ 32 then
    .panic "add@from_degree:epoch"
  -- `Height(epoch * SUBSIDY_HALVING_INTERVAL + epoch_offset)`
  else if ¬ (cycle * CYCLE_EPOCHS +
      (periodOffset + SUBSIDY_HALVING_INTERVAL * CYCLE_EPOCHS - epochOffset) % DIFFCHANGE_INTERVAL / 336) *
        SUBSIDY_HALVING_INTERVAL < 2 ^ 32 then
    .panic "mul@from_degree:epoch*210000"
  else if ¬ (cycle * CYCLE_EPOCHS +
      (periodOffset + SUBSIDY_HALVING_INTERVAL * CYCLE_EPOCHS - epochOffset) % DIFFCHANGE_INTERVAL / 336) *
        SUBSIDY_HALVING_INTERVAL + epochOffset < 2 ^ 32 then
    .panic "add@from_degree:height"
  else .ok ((cycle * CYCLE_EPOCHS +
      (periodOffset + SUBSIDY_HALVING_INTERVAL * CYCLE_EPOCHS - epochOffset) % DIFFCHANGE_INTERVAL / 336) *
        SUBSIDY_HALVING_INTERVAL + epochOffset)

/-- u32 `saturating_*` result -/
def sat32 (x : Nat) : Nat := if x < 2 ^ 32 then x else 2 ^ 32 - 1

/-- `degreeHeight` after notes/fix-sat-degree-overflow.diff: `saturating_mul` / `saturating_add`
for the cycle start epoch, the epoch and the height (the relationship line is unchanged) -/
def degreeHeightFixed (cycle epochOffset periodOffset : Nat) : Outcome Nat :=
  if ¬ periodOffset + SUBSIDY_HALVING_INTERVAL * CYCLE_EPOCHS < 2 ^ 32 then
    .panic "add@from_degree:relationship"
  else if ¬ epochOffset ≤ periodOffset + SUBSIDY_HALVING_INTERVAL * CYCLE_EPOCHS then
    .panic "sub@from_degree:relationship"
  else if (periodOffset + SUBSIDY_HALVING_INTERVAL * CYCLE_EPOCHS - epochOffset) % 336 ≠ 0 then
    .err "EpochPeriodMismatch"
  else .ok (sat32 (sat32 (sat32 (sat32 (cycle * CYCLE_EPOCHS) +
      (periodOffset + SUBSIDY_HALVING_INTERVAL * CYCLE_EPOCHS - epochOffset) % DIFFCHANGE_INTERVAL / 336) *
        SUBSIDY_HALVING_INTERVAL) + epochOffset))

/-- the code as it is (`fixed = false`) or with the repair applied (`fixed = true`) -/
def degreeHeightWith : Bool → Nat → Nat → Nat → Outcome Nat
  | true => degreeHeightFixed
  | false => degreeHeight

/-- the tail of `from_degree`: optional `‴` part, trailing characters, block offset -/
def degreeTail (height : Nat) (rest : List Char) : Outcome Nat :=
  let finish (blockOffset : Nat) (rest : List Char) : Outcome Nat :=
    if !rest.isEmpty then .err "TrailingCharacters"
    else if blockOffset ≥ Height.subsidy height then .err "BlockOffset"
    else satAt height blockOffset
  match splitOnce thirdSym rest with
  | some (bo, rest') =>
    match parseUInt 64 bo with
    | .error e => .err e.toString
    | .ok k => finish k rest'
  | none => finish 0 rest

/-- `Sat::from_degree` (`fixed`: with notes/fix-sat-degree-overflow.diff applied) -/
def fromDegreeWith (fixed : Bool) (cs : List Char) : Outcome Nat :=
  match splitOnce degreeSym cs with
  | none => .err "MissingDegree"
  | some (cyc, rest) =>
    match parseUInt 32 cyc with
    | .error e => .err e.toString
    | .ok cycle =>
      match splitOnce minuteSym rest with
      | none => .err "MissingMinute"
      | some (eo, rest) =>
        match parseUInt 32 eo with
        | .error e => .err e.toString
        | .ok epochOffset =>
          if epochOffset ≥ SUBSIDY_HALVING_INTERVAL then .err "EpochOffset"
          else
            match splitOnce secondSym rest with
            | none => .err "MissingSecond"
            | some (po, rest) =>
              match parseUInt 32 po with
              | .error e => .err e.toString
              | .ok periodOffset =>
                if periodOffset ≥ DIFFCHANGE_INTERVAL then .err "PeriodOffset"
                else
                  match degreeHeightWith fixed cycle epochOffset periodOffset with
                  | .ok height => degreeTail height rest
                  | .err e => .err e
                  | .panic p => .panic p

/-- What the real f64 arithmetic of `from_percentile` did with the text before the final `%`
(supplied by the harness): `parseErr` = `parse::<f64>()` failed; `nan`; `neg` = `< 0.0`;
`over` = `(p / 100 * last).round() > last` (includes +∞); `inRange n` = otherwise, with
`n = round(..) as u64`. `unknown` = no class was supplied. -/
inductive FloatClass where
  | unknown | parseErr | nan | neg | over
  | inRange (n : Nat)
  deriving Repr, DecidableEq, Inhabited

/-- `Sat::from_percentile` (`fixed`: with notes/fix-sat-percentile-nan.diff applied, NaN is
rejected by the sign check) -/
def fromPercentileWith (fixed : Bool) (cs : List Char) (fc : FloatClass) : Outcome Nat :=
  if cs.getLast? ≠ some '%' then .err "Percentile"
  else match fc with
    | .unknown => .err "model:no-float-class"
    | .parseErr => .err "ParseFloat"
    | .nan => if fixed then .err "Percentile"
      else .ok 0            -- both comparisons false, `NaN as u64` = 0
    | .neg => .err "Percentile"
    | .over => .err "Percentile"
    | .inRange n =>
      -- `over` is exactly `n > last`, so the harness can only report an in-range `n`
      if n > LAST then .err "model:float-class-inconsistent" else .ok n

/-- the final arm of `Sat::from_str` -/
def fromInteger (cs : List Char) : Outcome Nat :=
  match parseUInt 64 cs with
  | .error e => .err e.toString
  | .ok n => if n > LAST then .err "IntegerRange" else .ok n

inductive Notation where
  | name | degree | percentile | decimal | integer
  deriving Repr, DecidableEq, Inhabited

def Notation.toString : Notation → String
  | .name => "name" | .degree => "degree" | .percentile => "percentile"
  | .decimal => "decimal" | .integer => "integer"

/-- the dispatch of `impl FromStr for Sat` -/
def dispatch (cs : List Char) : Notation :=
  if cs.any isAsciiLower then .name
  else if cs.contains degreeSym then .degree
  else if cs.contains '%' then .percentile
  else if cs.contains '.' then .decimal
  else .integer

/-- `impl FromStr for Sat`, parametrised by which of the two C31 repairs are applied -/
def fromStrWith (degreeFixed percentileFixed : Bool) (cs : List Char) (fc : FloatClass) : Outcome Nat :=
  match dispatch cs with
  | .name => fromName cs
  | .degree => fromDegreeWith degreeFixed cs
  | .percentile => fromPercentileWith percentileFixed cs fc
  | .decimal => fromDecimal cs
  | .integer => fromInteger cs

/-- `impl FromStr for Sat` as it is in the source tree: the two flags are re-extracted from
`crates/ordinals/src/sat.rs` on every run (`tools/extractors/sat_fix.py`) -/
def fromStr (cs : List Char) (fc : FloatClass) : Outcome Nat :=
  fromStrWith Ord.Generated.SatFix.degreeFixed Ord.Generated.SatFix.percentileFixed cs fc

/-! ## grammar semantics ("denotes"), independent of the parsers' arithmetic

Numerals are `+?[0-9]+` read as unbounded naturals. -/

def numeralValue : List Char → Nat → Nat
  | [], acc => acc
  | c :: cs, acc => numeralValue cs (acc * 10 + digitVal c)

/-- value of a numeral `+?[0-9]+`, `none` if the text is not one -/
def numeral? (cs : List Char) : Option Nat :=
  let ds := match cs with
    | c :: rest => if c == '+' then rest else cs
    | [] => []
  if !ds.isEmpty && ds.all isDigit then some (numeralValue ds 0) else none

/-- bijective base-26 value of a letter string (`a`=1 … `z`=26, most significant first) -/
def nameValue : List Char → Nat → Nat
  | [], acc => acc
  | c :: cs, acc => nameValue cs (acc * 26 + (c.toNat - 'a'.toNat + 1))

def denotesInteger (cs : List Char) (v : Nat) : Bool :=
  match numeral? cs with
  | some n => n == v && decide (v < SUPPLY)
  | none => false

def denotesName (cs : List Char) (v : Nat) : Bool :=
  !cs.isEmpty && cs.all isAsciiLower && decide (nameValue cs 0 ≤ SUPPLY) &&
    v == SUPPLY - nameValue cs 0

/-- `h.k` denotes the sat at offset `k < subsidy h` of block `h` -/
def denotesDecimal (cs : List Char) (v : Nat) : Bool :=
  match splitOnce '.' cs with
  | none => false
  | some (hs, os) =>
    match numeral? hs, numeral? os with
    | some h, some k => decide (k < Height.subsidy h) && v == Height.startingSat h + k
    | _, _ => false

/-- `c°m′s″t‴` (the `t‴` part may be omitted = 0) denotes the sat `v < SUPPLY` whose degree,
computed forwards from `v` (`Sat::degree`), is `(c, m, s, t)` -/
def denotesDegree (cs : List Char) (v : Nat) : Bool :=
  match splitOnce degreeSym cs with
  | none => false
  | some (a, r1) =>
    match splitOnce minuteSym r1 with
    | none => false
    | some (b, r2) =>
      match splitOnce secondSym r2 with
      | none => false
      | some (c, r3) =>
        let t? : Option Nat := match splitOnce thirdSym r3 with
          | some (d, r4) => if r4.isEmpty then numeral? d else none
          | none => if r3.isEmpty then some 0 else none
        match numeral? a, numeral? b, numeral? c, t? with
        | some hour, some minute, some second, some third =>
          decide (v < SUPPLY) &&
            decide (Degree.ofHeightThird (Sat.heightN v) (Sat.thirdN v) = ⟨hour, minute, second, third⟩)
        | _, _, _, _ => false

/-- percentile: the value is whatever the real f64 computation produced, but only a finite,
non-negative, in-range percentage denotes a sat -/
def denotesPercentile (cs : List Char) (fc : FloatClass) (v : Nat) : Bool :=
  cs.getLast? == some '%' &&
  match fc with
  | .inRange n => n == v && decide (v < SUPPLY)
  | _ => false

def denotes (cs : List Char) (fc : FloatClass) (v : Nat) : Bool :=
  match dispatch cs with
  | .name => denotesName cs v
  | .degree => denotesDegree cs v
  | .percentile => denotesPercentile cs fc v
  | .decimal => denotesDecimal cs v
  | .integer => denotesInteger cs v

end Ord.SatNotation
