import OrdModel.Num.Decimal
/-
Model of `Decimal::from_str` **after the proposed repair** (`/verif/notes/fix-decimal.diff`):

  * the fractional part must consist of ASCII digits only (else `invalid digit found in string`);
  * trailing zeros are trimmed *before* parsing (`trim_end_matches('0')`), so neither the
    `10^trailing_zeros` division nor `u32::try_from(..).unwrap()` exists any more;
  * the scale is `u8::try_from(significant.len())` with an error (`excessive precision`) instead of
    `unwrap`;
  * `value = 10^scale · integer + decimal` uses `checked_pow` / `checked_mul` / `checked_add`
    (`decimal out of range`).

`to_integer`, `Display` and the integer-only path are unchanged (shared with `Decimal.lean`).
To switch the check to the repaired code: see `notes/C31.md` ("after the fix").
-/
namespace Ord.DecimalFixed
open Ord Ord.Text Ord.Decimal

/-- `decimal.trim_end_matches('0')` -/
def trimZeros (s : List Char) : List Char := s.take (s.length - trailingZeros s)

def parseFraction (decimal : List Char) : Outcome (Nat × Nat) :=
  if decimal = [] then .ok (0, 0)
  else if !allDigits decimal then .err "invalid digit found in string"
  else
    let sig := trimZeros decimal
    if sig = [] then .ok (0, 0)
    else match parseUnsigned 128 sig with
      | .error e => .err (intErr e)
      | .ok d =>
        if 256 ≤ sig.length then .err "excessive precision" else .ok (d, sig.length)

def fromStr (s : List Char) : Outcome Dec :=
  match splitOnce '.' s with
  | some (integer, decimal) =>
    if integer = [] ∧ decimal = [] then .err "empty decimal"
    else
      match (if integer = [] then .ok 0 else parseUnsigned 128 integer) with
      | .error e => .err (intErr e)
      | .ok i =>
        match parseFraction decimal with
        | .err e => .err e
        | .panic p => .panic p
        | .ok (d, scale) =>
          if U128 ≤ 10 ^ scale ∨ U128 ≤ i * 10 ^ scale ∨ U128 ≤ i * 10 ^ scale + d then
            .err "decimal out of range"
          else .ok ⟨i * 10 ^ scale + d, scale⟩
  | none =>
    match parseUnsigned 128 s with
    | .error e => .err (intErr e)
    | .ok v => .ok ⟨v, 0⟩

end Ord.DecimalFixed
