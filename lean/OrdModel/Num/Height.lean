/-
Model of `crates/ordinals/src/height.rs`.  `Height(u32)`; all of `subsidy`, `starting_sat`,
`period_offset` are total for every u32 (`epoch * 210000 ≤ h`, so the u32 subtraction cannot
underflow, and the u64 result is at most SUPPLY: proved in `Proofs/SatBasic.lean`).
-/
import OrdModel.Num.Epoch
namespace Ord.Height
open Ord.Epoch

/-- `Height::subsidy` -/
def subsidy (h : Nat) : Nat := Epoch.subsidy (Epoch.ofHeight h)

/-- `Height::starting_sat` -/
def startingSat (h : Nat) : Nat :=
  let e := Epoch.ofHeight h
  Epoch.startingSat e + (h - Epoch.startingHeight e) * Epoch.subsidy e

/-- `Height::period_offset` -/
def periodOffset (h : Nat) : Nat := h % DIFFCHANGE_INTERVAL

end Ord.Height
