/-
Model of the numeric part of `crates/ordinals/src/sat.rs` (`Sat(u64)`).

Every function that can panic in the dev profile has an `Outcome`-valued model (suffix `O`)
whose panic branches are exactly the Rust ones:
* `height`: `epoch_position / subsidy` divides by zero for sats ≥ SUPPLY (epoch 33),
  `u32::try_from(..).unwrap()`, `Height + u32`;
* `third`: `% subsidy` likewise;
* `name`: `SUPPLY - self.0` underflows for sats > SUPPLY;
* `palindrome`: `reversed * 10 + n % 10` can overflow u64 for 20-digit sats.
The pure versions (`heightN`, `thirdN`, …) are what the `O` versions return when they do not
panic; `Proofs/SatBasic.lean` proves `s < SUPPLY → heightO s = .ok (heightN s)` etc.
-/
import OrdModel.Num.Height
namespace Ord.Sat
open Ord.Epoch Ord

/-- `Sat::epoch` -/
def epoch (s : Nat) : Nat := Epoch.ofSat s

/-- `Sat::epoch_position` (`self.0 - epoch.starting_sat().0`; never underflows, proved) -/
def epochPosition (s : Nat) : Nat := s - Epoch.startingSat (epoch s)

def heightN (s : Nat) : Nat :=
  Epoch.startingHeight (epoch s) + epochPosition s / Epoch.subsidy (epoch s)

def thirdN (s : Nat) : Nat := epochPosition s % Epoch.subsidy (epoch s)

/-- `Sat::height` -/
def heightO (s : Nat) : Outcome Nat :=
  let e := epoch s
  match Epoch.startingHeightO e with
  | .ok sh =>
    if Epoch.subsidy e = 0 then .panic "divzero@sat.height"
    else
      let q := epochPosition s / Epoch.subsidy e
      if q < 2 ^ 32 then Outcome.addW 32 "add@height.add" sh q
      else .panic "unwrap@sat.height:try_from"
  | .err x => .err x
  | .panic x => .panic x

/-- `Sat::third` -/
def thirdO (s : Nat) : Outcome Nat :=
  let e := epoch s
  if Epoch.subsidy e = 0 then .panic "remzero@sat.third"
  else .ok (epochPosition s % Epoch.subsidy e)

/-- `Sat::cycle` -/
def cycle (s : Nat) : Nat := epoch s / CYCLE_EPOCHS

/-- `Sat::period` -/
def periodO (s : Nat) : Outcome Nat :=
  match heightO s with
  | .ok h => .ok (h / DIFFCHANGE_INTERVAL)
  | .err x => .err x
  | .panic x => .panic x

/-- `Sat::nineball` -/
def nineball (s : Nat) : Bool :=
  decide (50 * COIN_VALUE * 9 ≤ s) && decide (s < 50 * COIN_VALUE * 10)

/-- loop of `Sat::palindrome`; `fuel` bounds the number of digits (a u64 has at most 20) -/
def reverseDigitsO : Nat → Nat → Nat → Outcome Nat
  | 0, _, rev => .ok rev
  | fuel + 1, n, rev =>
    if n = 0 then .ok rev
    else
      match Outcome.mulW 64 "mul@sat.palindrome" rev 10 with
      | .ok m =>
        match Outcome.addW 64 "add@sat.palindrome" m (n % 10) with
        | .ok r => reverseDigitsO fuel (n / 10) r
        | .err x => .err x
        | .panic x => .panic x
      | .err x => .err x
      | .panic x => .panic x

/-- `Sat::palindrome` -/
def palindromeO (s : Nat) : Outcome Bool :=
  match reverseDigitsO 20 s 0 with
  | .ok r => .ok (s == r)
  | .err x => .err x
  | .panic x => .panic x

/-- `u64::is_multiple_of` (`rhs = 0` ⇒ `self == 0`) -/
def isMultipleOf (a b : Nat) : Bool := if b = 0 then a == 0 else a % b == 0

/-- `Sat::coin` -/
def coin (s : Nat) : Bool := isMultipleOf s COIN_VALUE

/-- `Sat::common` (the fast path first, then the full calculation) -/
def common (s : Nat) : Bool :=
  if s < Epoch.startingSat 10 && !isMultipleOf s (Epoch.subsidy 9) then true
  else
    let e := epoch s
    !isMultipleOf (s - Epoch.startingSat e) (Epoch.subsidy e)

def letter (i : Nat) : Char := Char.ofNat ('a'.toNat + i)

/-- the `while x > 0` loop of `Sat::name`, producing the final (reversed) order directly:
each step's letter ends up in front of the letters pushed before it -/
def nameAux (x : Nat) (acc : List Char) : List Char :=
  if h : x = 0 then acc
  else nameAux ((x - 1) / 26) (letter ((x - 1) % 26) :: acc)
termination_by x
decreasing_by omega

/-- `Sat::name` -/
def nameO (s : Nat) : Outcome (List Char) :=
  match Outcome.subW "sub@sat.name" SUPPLY s with
  | .ok x => .ok (nameAux x [])
  | .err x => .err x
  | .panic x => .panic x

end Ord.Sat
