/-
Specification-level definitions for C29/C30, written without reference to the
implementation's table or if-chains: what "numbered consecutively in mining order", "the
attributes implied by height and offset" and "the documented rarity classes" mean.  The
theorems of `Theorems/C29.lean` relate the model of the code (`Epoch`, `Height`, `Sat`,
`Degree`, `Rarity`, `Charm`) to these; the driver evaluates `checkAttrs`/`checkHeight` on the
*implementation's* outputs (oracle lines).
-/
import OrdModel.Num.SatNotation
namespace Ord.SatSpec
open Ord

/-- block subsidy by the halving rule: 50 BTC, halved (integer division) every 210 000 blocks,
nothing from the 33rd halving on -/
def blockSubsidy (h : Nat) : Nat :=
  if h / 210000 < 33 then 5000000000 / 2 ^ (h / 210000) else 0

/-- number of sats mined before block `h` (mining order: block after block) -/
def minedBefore : Nat → Nat
  | 0 => 0
  | h + 1 => minedBefore h + blockSubsidy h

/-- sats mined in the first `e` whole epochs -/
def epochSum : Nat → Nat
  | 0 => 0
  | e + 1 => epochSum e + 210000 * blockSubsidy (e * 210000)

/-- closed form of `minedBefore` (proved equal: `SatSpec.minedBeforeFast_eq`) -/
def minedBeforeFast (h : Nat) : Nat :=
  epochSum (h / 210000) + (h % 210000) * blockSubsidy h

/-- total supply = everything ever mined -/
def supply : Nat := minedBeforeFast 6930000

/-- the documented rarity classes, as a function of (height, offset) -/
def rarity (h k : Nat) : Rarity :=
  if k ≠ 0 then .common
  else if h = 0 then .mythic
  else if h % 1260000 = 0 then .legendary
  else if h % 210000 = 0 then .epic
  else if h % 2016 = 0 then .rare
  else .uncommon

/-- number of `n < N` satisfying `p` -/
def countBelow (p : Nat → Bool) : Nat → Nat
  | 0 => 0
  | n + 1 => countBelow p n + (if p n then 1 else 0)

def isPalindrome (n : Nat) : Bool :=
  let ds := SatNotation.decDigits n
  ds == ds.reverse

/-- charm flag word implied by the sat number and its (height, offset) -/
def charms (n h k : Nat) : Nat :=
  (if 45000000000 ≤ n ∧ n < 50000000000 then 2 ^ 5 else 0) +
  (if isPalindrome n then 2 ^ 13 else 0) +
  (if n % 100000000 = 0 then 2 ^ 0 else 0) +
  (match rarity h k with
   | .common => 0 | .uncommon => 2 ^ 9 | .rare => 2 ^ 6 | .epic => 2 ^ 2
   | .legendary => 2 ^ 3 | .mythic => 2 ^ 11)

/-- everything ord reports for sat `n` -/
structure Attrs where
  epoch : Nat
  epochPos : Nat
  height : Nat
  third : Nat
  cycle : Nat
  period : Nat
  degree : Degree
  decimal : Nat × Nat
  rarity : Rarity
  common : Bool
  charms : Nat
  name : List Char

/-- the property's predicate for one sat `n < supply` on reported attributes `a` -/
def checkAttrs (n : Nat) (a : Attrs) : Bool :=
  let h := a.height
  let k := a.third
  n == minedBeforeFast h + k && decide (k < blockSubsidy h) &&
  a.epoch == h / 210000 &&
  a.epochPos == (h % 210000) * blockSubsidy h + k &&
  a.cycle == h / 1260000 &&
  a.period == h / 2016 &&
  decide (a.degree = ⟨h / 1260000, h % 210000, h % 2016, k⟩) &&
  a.decimal == (h, k) &&
  decide (a.rarity = rarity h k) &&
  a.common == decide (rarity h k = .common) &&
  a.charms == charms n h k &&
  !a.name.isEmpty && a.name.all SatNotation.isAsciiLower &&
  SatNotation.nameValue a.name 0 + n == supply

/-- the property's predicate for one height on the reported `starting_sat`, `subsidy` and the
next height's `starting_sat` -/
def checkHeight (h start sub next : Nat) : Bool :=
  start == minedBeforeFast h && sub == blockSubsidy h && next == start + sub &&
  (if h < 6930000 then decide (start < next) else start == supply && next == supply)

end Ord.SatSpec
