import OrdModel.Basic.Outcome
/-
Model of `impl FromStr for RuneId` (`crates/ordinals/src/rune_id.rs`):
```
let (height, index) = s.split_once(':').ok_or(Error::Separator)?;
Ok(Self { block: height.parse().map_err(Error::Block)?, tx: index.parse().map_err(Error::Transaction)? })
```
and of the standard library's `<u64|u32 as FromStr>::from_str` (radix 10, unsigned):
empty ⇒ `Empty`; a lone `+` or `-` ⇒ `InvalidDigit`; one leading `+` is skipped (a leading `-`
is not, so it is an invalid digit); then per byte: not an ASCII digit ⇒ `InvalidDigit`, else
`checked_mul(10)` / `checked_add(d)` failing ⇒ `PosOverflow`.  No whitespace, no `_`.
`RuneId::from_str` does **not** apply `RuneId::new`'s rule (block 0 ⇒ tx 0): `"0:5"` is accepted.
-/
namespace Ord.RuneId
open Ord

def isDigit (c : Char) : Bool := 48 ≤ c.toNat && c.toNat ≤ 57

def digitVal (c : Char) : Nat := c.toNat - 48

/-- digit loop of `from_ascii_radix` at bit width `w` -/
def uintLoop (w : Nat) (acc : Nat) : List Char → Outcome Nat
  | [] => .ok acc
  | c :: cs =>
    if !isDigit c then .err "invalid"
    else if acc * 10 ≥ 2 ^ w then .err "overflow"
    else if acc * 10 + digitVal c ≥ 2 ^ w then .err "overflow"
    else uintLoop w (acc * 10 + digitVal c) cs

/-- `str::parse::<uW>()` -/
def parseUInt (w : Nat) (s : List Char) : Outcome Nat :=
  match s with
  | [] => .err "empty"
  | [c] => if c = '+' ∨ c = '-' then .err "invalid" else uintLoop w 0 [c]
  | c :: cs => if c = '+' then uintLoop w 0 cs else uintLoop w 0 (c :: cs)

/-- `s.split_once(':')` -/
def splitColon : List Char → Option (List Char × List Char)
  | [] => none
  | c :: cs =>
    if c = ':' then some ([], cs)
    else match splitColon cs with
      | some (a, b) => some (c :: a, b)
      | none => none

/-- `impl FromStr for RuneId` -/
def parse (s : List Char) : Outcome (Nat × Nat) :=
  match splitColon s with
  | none => .err "separator"
  | some (h, i) =>
    match parseUInt 64 h with
    | .ok b =>
      (match parseUInt 32 i with
       | .ok t => .ok (b, t)
       | .err e => .err ("tx " ++ e)
       | .panic p => .panic p)
    | .err e => .err ("block " ++ e)
    | .panic p => .panic p

/-- value of a digit string over unbounded `Nat` (most significant first) -/
def decValue (s : List Char) : Nat := s.foldl (fun a c => a * 10 + digitVal c) 0

/-- grammar semantics: `s` is an optional `+` followed by one or more ASCII digits whose
decimal value is `v` -/
def denotesUInt (s : List Char) (v : Nat) : Prop :=
  ∃ ds, (s = ds ∨ s = '+' :: ds) ∧ ds ≠ [] ∧ (∀ c ∈ ds, isDigit c = true) ∧ decValue ds = v

/-- executable form of `denotesUInt` -/
def checkUInt (s : List Char) (v : Nat) : Bool :=
  let ds := match s with | '+' :: r => r | _ => s
  !ds.isEmpty && ds.all isDigit && decValue ds == v

/-- executable form of the C31 soundness conclusion for `RuneId`, on an implementation answer -/
def checkAnswer (s : List Char) : Outcome (Nat × Nat) → Bool
  | .ok (b, t) =>
    (match splitColon s with
     | some (h, i) => checkUInt h b && checkUInt i t && b < 2 ^ 64 && t < 2 ^ 32
     | none => false)
  | .err _ => true
  | .panic _ => false

end Ord.RuneId
