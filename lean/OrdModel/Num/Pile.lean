import OrdModel.Num.Decimal
/-
Model of the number part of `Pile`'s `Display` (`/repo/crates/ordinals/src/pile.rs`):

  `cutoff = 10u128.checked_pow(divisibility).unwrap()`; `whole = amount / cutoff`;
  `fractional = amount % cutoff`; zero ⇒ `{whole}`; else strip trailing zeros of `fractional`
  decrementing `width` (initially `divisibility`) and print `{whole}.{fractional:0>width$}`.

The suffix `\u{A0}` + symbol is not part of the number and is stripped by the harness.
-/
namespace Ord.Pile
open Ord Ord.Decimal

def printNumber (amount divisibility : Nat) : Outcome (List Char) :=
  if U128 ≤ 10 ^ divisibility then .panic "unwrap@10u128.checked_pow(divisibility)"
  else printScaled amount divisibility

end Ord.Pile
