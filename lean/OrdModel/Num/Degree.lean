/-
Model of `crates/ordinals/src/degree.rs`, `decimal_sat.rs`, `rarity.rs`, `charm.rs` and
`Sat::charms`.
-/
import OrdModel.Num.Sat
namespace Ord

structure Degree where
  hour : Nat
  minute : Nat
  second : Nat
  third : Nat
  deriving Repr, DecidableEq, Inhabited

namespace Degree
open Ord.Epoch

/-- the body of `impl From<Sat> for Degree`, given height and third -/
def ofHeightThird (h k : Nat) : Degree :=
  { hour := h / (CYCLE_EPOCHS * SUBSIDY_HALVING_INTERVAL)
    minute := h % SUBSIDY_HALVING_INTERVAL
    second := h % DIFFCHANGE_INTERVAL
    third := k }

/-- `impl From<Sat> for Degree` (`sat.height()` is evaluated first, then `sat.third()`) -/
def ofSatO (s : Nat) : Outcome Degree :=
  match Sat.heightO s with
  | .ok h =>
    match Sat.thirdO s with
    | .ok k => .ok (ofHeightThird h k)
    | .err x => .err x
    | .panic x => .panic x
  | .err x => .err x
  | .panic x => .panic x

end Degree

/-- `DecimalSat { height, offset }` -/
def Sat.decimalO (s : Nat) : Outcome (Nat × Nat) :=
  match Sat.heightO s with
  | .ok h =>
    match Sat.thirdO s with
    | .ok k => .ok (h, k)
    | .err x => .err x
    | .panic x => .panic x
  | .err x => .err x
  | .panic x => .panic x

inductive Rarity where
  | common | uncommon | rare | epic | legendary | mythic
  deriving Repr, DecidableEq, Inhabited

namespace Rarity

def all : List Rarity := [common, uncommon, rare, epic, legendary, mythic]

/-- `Rarity::supply` -/
def supply : Rarity → Nat
  | common => 2099999990760000
  | uncommon => 6926535
  | rare => 3432
  | epic => 27
  | legendary => 5
  | mythic => 1

/-- `impl From<Rarity> for u8` -/
def toU8 : Rarity → Nat
  | common => 0 | uncommon => 1 | rare => 2 | epic => 3 | legendary => 4 | mythic => 5

def name : Rarity → String
  | common => "common" | uncommon => "uncommon" | rare => "rare" | epic => "epic"
  | legendary => "legendary" | mythic => "mythic"

/-- the if-chain of `impl From<Sat> for Rarity` on a degree -/
def ofDegree (d : Degree) : Rarity :=
  if d.hour = 0 ∧ d.minute = 0 ∧ d.second = 0 ∧ d.third = 0 then mythic
  else if d.minute = 0 ∧ d.second = 0 ∧ d.third = 0 then legendary
  else if d.minute = 0 ∧ d.third = 0 then epic
  else if d.second = 0 ∧ d.third = 0 then rare
  else if d.third = 0 then uncommon
  else common

/-- `impl From<Sat> for Rarity` -/
def ofSatO (s : Nat) : Outcome Rarity :=
  match Degree.ofSatO s with
  | .ok d => .ok (ofDegree d)
  | .err x => .err x
  | .panic x => .panic x

end Rarity

inductive Charm where
  | coin | cursed | epic | legendary | lost | nineball | rare | reinscription | unbound
  | uncommon | vindicated | mythic | burned | palindrome
  deriving Repr, DecidableEq, Inhabited

namespace Charm

/-- discriminants of `enum Charm` -/
def bit : Charm → Nat
  | coin => 0 | cursed => 1 | epic => 2 | legendary => 3 | lost => 4 | nineball => 5
  | rare => 6 | reinscription => 7 | unbound => 8 | uncommon => 9 | vindicated => 10
  | mythic => 11 | burned => 12 | palindrome => 13

/-- `Charm::ALL` (display order) -/
def all : List Charm := [coin, uncommon, rare, epic, legendary, mythic, nineball, palindrome,
  reinscription, cursed, unbound, lost, vindicated, burned]

def name : Charm → String
  | coin => "coin" | cursed => "cursed" | epic => "epic" | legendary => "legendary"
  | lost => "lost" | nineball => "nineball" | rare => "rare" | reinscription => "reinscription"
  | unbound => "unbound" | uncommon => "uncommon" | vindicated => "vindicated"
  | mythic => "mythic" | burned => "burned" | palindrome => "palindrome"

/-- `Charm::flag` -/
def flag (c : Charm) : Nat := 2 ^ c.bit

/-- the rarity arm of `Sat::charms` -/
def ofRarity : Rarity → Nat
  | .common => 0
  | .epic => flag epic
  | .legendary => flag legendary
  | .mythic => flag mythic
  | .rare => flag rare
  | .uncommon => flag uncommon

end Charm

/-- the flag word of `Sat::charms` from its four ingredients; the four groups use distinct bits,
so `|=` is addition -/
def Sat.charmsOf (nine pal coin : Bool) (r : Rarity) : Nat :=
  (if nine then Charm.nineball.flag else 0) + (if pal then Charm.palindrome.flag else 0) +
  (if coin then Charm.coin.flag else 0) + Charm.ofRarity r

/-- `Sat::charms` (evaluation order: nineball, palindrome, coin, rarity) -/
def Sat.charmsO (s : Nat) : Outcome Nat :=
  match Sat.palindromeO s with
  | .ok pal =>
    match Rarity.ofSatO s with
    | .ok r => .ok (Sat.charmsOf (Sat.nineball s) pal (Sat.coin s) r)
    | .err x => .err x
    | .panic x => .panic x
  | .err x => .err x
  | .panic x => .panic x

end Ord
