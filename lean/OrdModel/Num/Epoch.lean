/-
Model of `crates/ordinals/src/epoch.rs` and the constants of `crates/ordinals/src/lib.rs`
(`COIN_VALUE`, `CYCLE_EPOCHS`) and bitcoin's `DIFFCHANGE_INTERVAL`, `SUBSIDY_HALVING_INTERVAL`.

Values are `Nat`.  Everything here is total in the Rust code as well, except
`Epoch::starting_height` (`self.0 * SUBSIDY_HALVING_INTERVAL` in u32), which is modelled with an
explicit overflow branch (`startingHeightO`).  The table and the constants are compared
exhaustively against the real crate on every run (stream `sat`, ops `table.*`).
-/
import OrdModel.Basic.Outcome
namespace Ord.Epoch

def COIN_VALUE : Nat := 100000000
def CYCLE_EPOCHS : Nat := 6
def DIFFCHANGE_INTERVAL : Nat := 2016
def SUBSIDY_HALVING_INTERVAL : Nat := 210000
/-- `Sat::SUPPLY` -/
def SUPPLY : Nat := 2099999997690000
/-- `Sat::LAST` -/
def LAST : Nat := SUPPLY - 1

/-- `Epoch::STARTING_SATS` -/
def startingSats : List Nat := [
  0,
  1050000000000000,
  1575000000000000,
  1837500000000000,
  1968750000000000,
  2034375000000000,
  2067187500000000,
  2083593750000000,
  2091796875000000,
  2095898437500000,
  2097949218750000,
  2098974609270000,
  2099487304530000,
  2099743652160000,
  2099871825870000,
  2099935912620000,
  2099967955890000,
  2099983977420000,
  2099991988080000,
  2099995993410000,
  2099997995970000,
  2099998997250000,
  2099999497890000,
  2099999748210000,
  2099999873370000,
  2099999935950000,
  2099999967240000,
  2099999982780000,
  2099999990550000,
  2099999994330000,
  2099999996220000,
  2099999997060000,
  2099999997480000,
  2099999997690000]

/-- `Epoch::FIRST_POST_SUBSIDY` -/
def FIRST_POST_SUBSIDY : Nat := 33

/-- `Epoch::subsidy`: `(50 * COIN_VALUE) >> epoch` below epoch 33, else 0 -/
def subsidy (e : Nat) : Nat :=
  if e < FIRST_POST_SUBSIDY then (50 * COIN_VALUE) >>> e else 0

/-- `Epoch::starting_sat`: table lookup, falling back to the last entry -/
def startingSat (e : Nat) : Nat :=
  match startingSats[e]? with
  | some s => s
  | none => startingSats.getLastD 0

/-- `Epoch::starting_height` as a number (no width) -/
def startingHeight (e : Nat) : Nat := e * SUBSIDY_HALVING_INTERVAL

/-- `Epoch::starting_height` with the u32 multiplication checked (dev profile) -/
def startingHeightO (e : Nat) : Outcome Nat :=
  Outcome.mulW 32 "mul@epoch.starting_height" e SUBSIDY_HALVING_INTERVAL

/-- the if-chain of `impl From<Sat> for Epoch`: the first `i ≥ 1` with `sat < STARTING_SATS[i]`
gives `Epoch(i-1)`; falling off the end gives `Epoch(33)` -/
def ofSatAux : List Nat → Nat → Nat → Nat
  | [], _, e => e
  | b :: bs, s, e => if s < b then e else ofSatAux bs s (e + 1)

/-- `impl From<Sat> for Epoch` -/
def ofSat (s : Nat) : Nat := ofSatAux (startingSats.drop 1) s 0

/-- `impl From<Height> for Epoch` -/
def ofHeight (h : Nat) : Nat := h / SUBSIDY_HALVING_INTERVAL

end Ord.Epoch
