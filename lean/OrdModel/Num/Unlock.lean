import OrdModel.Num.RuneName
/-
Model of the unlock schedule in `crates/ordinals/src/rune.rs`: `STEPS`, `first_rune_height`,
`minimum_at_height`, `unlock_height`.

```
fn minimum_at_height(network, height) {
  let offset = height.0.saturating_add(1);
  let start = first_rune_height(network);  let end = start + SUBSIDY_HALVING_INTERVAL;
  if offset < start { return STEPS[12] }   if offset >= end { return 0 }
  let progress = offset.saturating_sub(start);
  let length = 12u32.saturating_sub(progress / INTERVAL);
  let end = STEPS[length - 1];  let start = STEPS[length];
  let remainder = progress % INTERVAL;
  start - ((start - end) * remainder / INTERVAL) }
fn unlock_height(self, network) {
  if self.is_reserved() { return None }   if self.0 >= STEPS[12] { return Some(0) }
  let i = STEPS.iter().position(|&step| self.0 < step).unwrap();
  let start = STEPS[i];  let end = i.checked_sub(1).map(|i| STEPS[i]).unwrap_or_default();
  let interval = start - end;  let progress = start - self.0;
  Some(first_rune_height(network) + (12 - i) * INTERVAL + (progress * INTERVAL - 1) / interval) }
```
Plain `Nat` arithmetic (C33 is not a totality property); that none of the subtractions
truncates, no index is out of range and no division is by zero on any input is the separate
theorem `c33_well_defined` (so the truncating `Nat` operations coincide with the Rust ones).
-/
namespace Ord.Unlock
open Ord.Rune

inductive Network where
  | bitcoin | testnet | testnet4 | signet | regtest
  deriving Repr, DecidableEq, Inhabited

def Network.all : List Network := [.bitcoin, .testnet, .testnet4, .signet, .regtest]

def Network.ofString? : String → Option Network
  | "bitcoin" => some .bitcoin | "testnet" => some .testnet | "testnet4" => some .testnet4
  | "signet" => some .signet | "regtest" => some .regtest | _ => none

/-- `SUBSIDY_HALVING_INTERVAL` -/
def HALVING : Nat := 210000
/-- `Rune::UNLOCK_INTERVAL = SUBSIDY_HALVING_INTERVAL / 12` -/
def INTERVAL : Nat := 17500
/-- `Rune::UNLOCKED` -/
def UNLOCKED : Nat := 12

/-- `Rune::STEPS` -/
def STEPS : List Nat := [
  0,
  26,
  702,
  18278,
  475254,
  12356630,
  321272406,
  8353082582,
  217180147158,
  5646683826134,
  146813779479510,
  3817158266467286,
  99246114928149462,
  2580398988131886038,
  67090373691429037014,
  1744349715977154962390,
  45353092615406029022166,
  1179180408000556754576342,
  30658690608014475618984918,
  797125955808376366093607894,
  20725274851017785518433805270,
  538857146126462423479278937046,
  14010285799288023010461252363222,
  364267430781488598271992561443798,
  9470953200318703555071806597538774,
  246244783208286292431866971536008150,
  6402364363415443603228541259936211926,
  166461473448801533683942072758341510102]

/-- `Rune::first_rune_height` -/
def firstRuneHeight : Network → Nat
  | .bitcoin => HALVING * 4
  | .regtest => HALVING * 0
  | .signet => HALVING * 0
  | .testnet => HALVING * 12
  | .testnet4 => HALVING * 0

/-- the interpolation, as a function of `progress = offset - start < 210000` -/
def interp (progress : Nat) : Nat :=
  let length := UNLOCKED - progress / INTERVAL
  let e := STEPS.getD (length - 1) 0
  let s := STEPS.getD length 0
  let remainder := progress % INTERVAL
  s - (s - e) * remainder / INTERVAL

/-- `minimum_at_height` for a chain whose first rune height is `first`; `height` is a `u32` -/
def minimumAt (first height : Nat) : Nat :=
  let offset := min (height + 1) (2 ^ 32 - 1)
  let start := first
  let end_ := start + HALVING
  if offset < start then STEPS.getD UNLOCKED 0
  else if offset ≥ end_ then 0
  else interp (offset - start)

def minimumAtHeight (net : Network) (height : Nat) : Nat := minimumAt (firstRuneHeight net) height

/-- `unlock_height` for a chain whose first rune height is `first` -/
def unlockAt (first r : Nat) : Option Nat :=
  if r ≥ RESERVED then none
  else if r ≥ STEPS.getD UNLOCKED 0 then some 0
  else
    let i := STEPS.findIdx (fun s => decide (r < s))
    let s := STEPS.getD i 0
    let e := if i = 0 then 0 else STEPS.getD (i - 1) 0
    let interval := s - e
    let progress := s - r
    some (first + (UNLOCKED - i) * INTERVAL + (progress * INTERVAL - 1) / interval)

def unlockHeight (r : Nat) (net : Network) : Option Nat := unlockAt (firstRuneHeight net) r

/-! executable forms of the C33 conclusions, evaluated on implementation outputs -/

/-- `m0 = min(h)`, `m1 = min(h+1)` as answered by the implementation -/
def checkMono (m0 m1 : Nat) : Bool := m1 ≤ m0

/-- `hgt` = reported unlock height of `r`, `mAt` = implementation's minimum at `hgt`,
`mBefore` = its minimum at `hgt - 1` (absent when `hgt = 0`) -/
def checkLeast (r : Nat) (hgt : Option Nat) (mAt : Option Nat) (mBefore : Option Nat) : Bool :=
  match hgt with
  | none => decide (r ≥ bij firstReservedName - 1)
  | some h =>
    decide (r < bij firstReservedName - 1) &&
    (match mAt with | some m => decide (m ≤ r) | none => false) &&
    (if h = 0 then true else match mBefore with | some m => decide (r < m) | none => false)

/-- 13 letters etchable at the first rune block; everything etchable when the schedule completes -/
def checkEnds (mFirst mLast : Nat) : Bool :=
  decide (mFirst + 1 ≤ bij (List.replicate 13 'A')) && mLast == 0

end Ord.Unlock
