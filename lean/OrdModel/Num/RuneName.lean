import OrdModel.Basic.Outcome
/-
Model of `crates/ordinals/src/rune.rs`: `Display for Rune`, `FromStr for Rune`, `commitment`,
`is_reserved`, `reserved`.

Rust `Display`: `n == u128::MAX` ⇒ the literal `BCGDENLQRQWDSLRUGSNLBTMFIJAV` (because `n += 1`
would overflow); otherwise `n += 1; while n > 0 { push(ALPHABET[(n-1) % 26]); n = (n-1)/26 }` and
the pushed symbols are written in reverse.

Rust `FromStr`: `x = 0; for (i,c) in chars { if i > 0 { x = x.checked_add(1)? }; x =
x.checked_mul(26)?; match c { 'A'..='Z' => x = x.checked_add(c - 'A')?, _ => Err(Character(c)) } }`
with `?` mapping `None` to `Error::Range`.  Note `""` ⇒ `Ok(Rune(0))`.

Values are unbounded `Nat`; the 128-bit width appears only in the checked operations.
-/
namespace Ord.Rune

def U128 : Nat := 2 ^ 128
def MAX : Nat := 2 ^ 128 - 1

/-- `Rune::RESERVED` -/
def RESERVED : Nat := 6402364363415443603228541259936211926

def isUpper (c : Char) : Bool := 65 ≤ c.toNat && c.toNat ≤ 90

/-- `c as u128 - 'A' as u128` -/
def digit (c : Char) : Nat := c.toNat - 65

/-- `"ABCDEFGHIJKLMNOPQRSTUVWXYZ".chars().nth(d).unwrap()` for `d < 26` -/
def letter (d : Nat) : Char := Char.ofNat (65 + d)

/-- the `while n > 0` loop of `Display`: symbols in the order they are pushed (least
significant first); `n` is the already incremented value -/
def symbolRev (n : Nat) : List Char :=
  if n = 0 then [] else letter ((n - 1) % 26) :: symbolRev ((n - 1) / 26)
termination_by n
decreasing_by omega

/-- the generic branch of `Display` (valid for every `Nat`) -/
def printGen (n : Nat) : List Char := (symbolRev (n + 1)).reverse

/-- the literal written for `u128::MAX` -/
def maxName : List Char :=
  ['B','C','G','D','E','N','L','Q','R','Q','W','D','S','L','R','U','G','S','N','L','B','T','M','F','I','J','A','V']

/-- `impl Display for Rune` -/
def print (n : Nat) : List Char := if n = MAX then maxName else printGen n

/-- loop of `Rune::from_str`; `first` ⇔ `i == 0`, `x` the accumulator -/
def parseLoop (first : Bool) (x : Nat) : List Char → Outcome Nat
  | [] => .ok x
  | c :: cs =>
    let x1 := if first then x else x + 1
    if x1 ≥ U128 then .err "range"            -- checked_add(1)
    else if x1 * 26 ≥ U128 then .err "range"  -- checked_mul(26)
    else if isUpper c then
      let x3 := x1 * 26 + digit c
      if x3 ≥ U128 then .err "range"          -- checked_add(c - 'A')
      else parseLoop false x3 cs
    else .err s!"character {c.toNat}"

/-- `impl FromStr for Rune` -/
def parse (s : List Char) : Outcome Nat := parseLoop true 0 s

/-- Denotation of a name over unbounded `Nat`: bijective base 26 with digits `A=1 … Z=26`
(most significant first).  A non-empty name `s` denotes the rune `n` iff `bij s = n + 1`. -/
def bij (s : List Char) : Nat := s.foldl (fun y c => y * 26 + (digit c + 1)) 0

/-- the same value with the least significant symbol first -/
def bijRev : List Char → Nat
  | [] => 0
  | c :: cs => bijRev cs * 26 + (digit c + 1)

/-! ### commitment -/

/-- `n.to_le_bytes()` truncated to `k` bytes -/
def leBytes : Nat → Nat → List UInt8
  | 0, _ => []
  | k + 1, n => UInt8.ofNat (n % 256) :: leBytes k (n / 256)

/-- drop trailing zero bytes (`while end > 0 && bytes[end-1] == 0 { end -= 1 }`) -/
def stripZeros : List UInt8 → List UInt8
  | [] => []
  | b :: bs =>
    match stripZeros bs with
    | [] => if b.toNat = 0 then [] else [b]
    | r => b :: r

/-- `Rune::commitment` -/
def commitment (n : Nat) : List UInt8 := stripZeros (leBytes 16 n)

/-- little-endian value of a byte string -/
def leValue : List UInt8 → Nat
  | [] => 0
  | b :: bs => b.toNat + 256 * leValue bs

/-! ### reserved -/

/-- `Rune::is_reserved` -/
def isReserved (n : Nat) : Bool := decide (n ≥ RESERVED)

/-- `Rune::reserved(block, tx)`: `RESERVED.checked_add((block << 32) | tx).unwrap()` -/
def reserved (block tx : Nat) : Outcome Nat :=
  let v := RESERVED + ((block <<< 32) ||| tx)
  if v < U128 then .ok v else .panic "reserved.checked_add.unwrap"

/-- the first 27-letter name -/
def firstReservedName : List Char := List.replicate 27 'A'

/-! ### executable forms of the C32 conclusions (evaluated on implementation outputs) -/

def allUpper (s : List Char) : Bool := s.all isUpper

/-- `name` is what the implementation printed for `n`, `back` what it parsed from that -/
def checkRoundTrip (n : Nat) (name : List Char) (back : Outcome Nat) : Bool :=
  !name.isEmpty && allUpper name && bij name == n + 1 && back == .ok n

/-- `s` was accepted with value `v` and `v` printed as `printed` -/
def checkStringRoundTrip (s : List Char) (v : Nat) (printed : List Char) : Bool :=
  s.isEmpty || (allUpper s && bij s == v + 1 && printed == s)

def checkCommitment (n : Nat) (bs : List UInt8) : Bool :=
  leValue bs == n && bs.length ≤ 16 &&
    (match bs.getLast? with | some b => b.toNat != 0 | none => true)

def checkReserved (n : Nat) (r : Bool) : Bool :=
  r == decide (bij firstReservedName ≤ n + 1)

/-- executable form of the C31 soundness conclusion for `Rune::from_str` -/
def checkAnswer (s : List Char) : Outcome Nat → Bool
  | .ok v => (s.isEmpty && v == 0) || (allUpper s && bij s == v + 1 && v < U128)
  | .err _ => true
  | .panic _ => false

end Ord.Rune
