import OrdModel.Basic.Outcome
import OrdModel.Text.RustParse
/-
Model of `/repo/src/decimal.rs` **as it is** (panic branches included; dev profile, overflow
checks on).

`Decimal { value: u128, scale: u8 }`.

`from_str(s)`:
  `s.split_once('.')`:
  * `Some((integer, decimal))`: both empty ⇒ `empty decimal`;
    `integer` empty ⇒ 0 else `integer.parse::<u128>()?`;
    `decimal` empty ⇒ `(0, 0)` else
      `trailing_zeros` = number of trailing `'0'` chars, `significant_digits = chars − trailing_zeros`,
      `decimal.parse::<u128>()? / 10u128.checked_pow(u32::try_from(trailing_zeros).unwrap())
          .context("excessive trailing zeros")?`, `u8::try_from(significant_digits).unwrap()`;
    `value: integer * 10u128.pow(scale) + decimal` (unchecked `pow`, `*`, `+`).
  * `None`: `s.parse::<u128>()?`, scale 0.

`to_integer(self, divisibility: u8)`: `divisibility.checked_sub(scale)` else `excessive precision`;
`10u128.checked_pow(diff)` else `divisibility out of range`; `value.checked_mul(..)` else `amount
out of range`.

`Display`: `10u128.checked_pow(scale)` else `fmt::Error`; integer part; if the fraction is non-zero
`.` and the fraction zero-padded to `scale` digits with trailing zeros stripped.
-/
namespace Ord.Decimal
open Ord Ord.Text

structure Dec where
  value : Nat
  scale : Nat
  deriving Repr, DecidableEq, Inhabited

def U128 : Nat := 2 ^ 128

def intErr (e : IntErr) : String := "int:" ++ e.toString

/-- `decimal.chars().rev().take_while(|c| *c == '0').count()` -/
def trailingZeros (s : List Char) : Nat := (s.reverse.takeWhile (· == '0')).length

/-- the fractional part of `from_str`: `(decimal, scale)` -/
def parseFraction (decimal : List Char) : Outcome (Nat × Nat) :=
  if decimal = [] then .ok (0, 0)
  else
    let tz := trailingZeros decimal
    let sig := decimal.length - tz
    match parseUnsigned 128 decimal with
    | .error e => .err (intErr e)
    | .ok d =>
      if 2 ^ 32 ≤ tz then .panic "unwrap@u32::try_from(trailing_zeros)"
      else if U128 ≤ 10 ^ tz then .err "excessive trailing zeros"
      else if 256 ≤ sig then .panic "unwrap@u8::try_from(significant_digits)"
      else .ok (d / 10 ^ tz, sig)

/-- `Decimal::from_str` -/
def fromStr (s : List Char) : Outcome Dec :=
  match splitOnce '.' s with
  | some (integer, decimal) =>
    if integer = [] ∧ decimal = [] then .err "empty decimal"
    else
      match (if integer = [] then .ok 0 else parseUnsigned 128 integer) with
      | .error e => .err (intErr e)
      | .ok i =>
        match parseFraction decimal with
        | .err e => .err e
        | .panic p => .panic p
        | .ok (d, scale) =>
          if U128 ≤ 10 ^ scale then .panic "mul@10u128.pow(scale)"
          else if U128 ≤ i * 10 ^ scale then .panic "mul@integer*10^scale"
          else if U128 ≤ i * 10 ^ scale + d then .panic "add@integer*10^scale+decimal"
          else .ok ⟨i * 10 ^ scale + d, scale⟩
  | none =>
    match parseUnsigned 128 s with
    | .error e => .err (intErr e)
    | .ok v => .ok ⟨v, 0⟩

/-- `Decimal::to_integer` (total: checked arithmetic everywhere) -/
def toInteger (dec : Dec) (divisibility : Nat) : Outcome Nat :=
  if divisibility < dec.scale then .err "excessive precision"
  else if U128 ≤ 10 ^ (divisibility - dec.scale) then .err "divisibility out of range"
  else if U128 ≤ dec.value * 10 ^ (divisibility - dec.scale) then .err "amount out of range"
  else .ok (dec.value * 10 ^ (divisibility - dec.scale))

/-! ### printing (shared with `Pile`) -/

def digitChar (n : Nat) : Char :=
  match n % 10 with
  | 0 => '0' | 1 => '1' | 2 => '2' | 3 => '3' | 4 => '4'
  | 5 => '5' | 6 => '6' | 7 => '7' | 8 => '8' | _ => '9'

/-- decimal digits of `n`, most significant first (`{n}` of an unsigned integer) -/
def natDigits (n : Nat) : List Char :=
  if n < 10 then [digitChar n] else natDigits (n / 10) ++ [digitChar n]
termination_by n
decreasing_by omega

/-- `while fraction.is_multiple_of(10) { fraction /= 10; width -= 1 }` for `fraction > 0`.
`width -= 1` on `usize` panics below zero; fuel = `fraction` bounds the loop. -/
def stripZeros : Nat → Nat → Nat → Outcome (Nat × Nat)
  | 0, _, _ => .panic "fuel@strip"
  | fuel + 1, frac, width =>
    if frac % 10 = 0 then
      if width = 0 then .panic "sub@width-=1"
      else stripZeros fuel (frac / 10) (width - 1)
    else .ok (frac, width)

/-- `{x:0>width$}`: right-aligned, zero-filled, never truncated -/
def padZeros (width : Nat) (ds : List Char) : List Char :=
  List.replicate (width - ds.length) '0' ++ ds

/-- common body of `Pile`/`Decimal` Display: `whole[.fraction]` at `scale` decimals -/
def printScaled (amount scale : Nat) : Outcome (List Char) :=
  let cutoff := 10 ^ scale
  let whole := amount / cutoff
  let frac := amount % cutoff
  if frac = 0 then .ok (natDigits whole)
  else
    match stripZeros frac frac scale with
    | .ok (f, w) => .ok (natDigits whole ++ '.' :: padZeros w (natDigits f))
    | .err e => .err e
    | .panic p => .panic p

/-- `Decimal`'s `Display` (`fmt::Error` when `10^scale` overflows) -/
def display (d : Dec) : Outcome (List Char) :=
  if U128 ≤ 10 ^ d.scale then .err "fmt" else printScaled d.value d.scale

/-! ### grammar-level semantics, independent of `fromStr`

A decimal amount is `I`, `I.`, `.F` or `I.F` where `I` is a numeral (optional `+`, digits) and
`F` a non-empty digit string; it denotes the rational `num / 10^den`. -/

/-- `s` denotes `num / 10 ^ den` -/
def Denotes (s : List Char) (num den : Nat) : Prop :=
  (Numeral s num ∧ den = 0) ∨
  ∃ i f, s = i ++ '.' :: f ∧ allDigits f = true ∧ den = f.length ∧ ¬ (i = [] ∧ f = []) ∧
    ∃ iv, (i = [] ∧ iv = 0 ∨ Numeral i iv) ∧ num = iv * 10 ^ f.length + decVal f

/-- executable version: `some (num, den)` -/
def denotation? (s : List Char) : Option (Nat × Nat) :=
  match splitOnce '.' s with
  | none => (numeralVal? s).map (·, 0)
  | some (i, f) =>
    if i = [] ∧ f = [] then none
    else if !allDigits f then none
    else
      match (if i = [] then some 0 else numeralVal? i) with
      | none => none
      | some iv => some (iv * 10 ^ f.length + decVal f, f.length)

/-- the C31/C34 acceptance predicate for an implementation answer `(value, scale)` on input `s`:
the string is in the grammar and denotes exactly `value / 10^scale`. -/
def accepts (s : List Char) (value scale : Nat) : Bool :=
  match denotation? s with
  | none => false
  | some (num, den) => value * 10 ^ den == num * 10 ^ scale && value < U128 && scale < 256

end Ord.Decimal
