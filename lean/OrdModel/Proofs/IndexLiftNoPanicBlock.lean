import OrdModel.Proofs.IndexLiftNoPanicTx
import OrdModel.Proofs.IndexLiftInsBlock
/-
C16 lift, part 7: the coinbase transaction, the walk over the transactions of a block
(`indexTxs` in `index_utxo_entries` order), the commit (`flushCache`), and the block-boundary
invariant `Bnd` tying an index state to the `Valid.VState` of the chain indexed so far:
`indexUtxoEntries` never fails on the next block accepted by `Valid.checkBlock`, and `applyBlock`
re-establishes `Bnd`.
-/
namespace Ord.Index.NoPanic
open Ord Ord.Index Outcome Sched

/-! ### the coinbase -/

def PCb (ls ls' : LocState) : Prop :=
  InsOut ls ls' ∧ ls'.st.cursed + ls'.st.blessed = ls.st.cursed + ls.st.blessed + countNew ls.ctx.flotsam ∧
  ls'.ctx.flotsam = []

theorem coinbaseShape_input (cb : Tx) (h : Valid.coinbaseShape cb = true) :
    ∃ i, cb.inputs = [i] ∧ i.prev.isNull = true := by
  unfold Valid.coinbaseShape at h
  split at h
  · rename_i i hi
    simp only [Bool.and_eq_true] at h
    exact ⟨i, hi, h.1⟩
  · cases h

theorem coinbaseWithinReward_sum (height fees : Nat) (cb : Tx) (h : Valid.coinbaseWithinReward height fees cb = true) :
    (cb.outputs.map (·.value)).sum ≤ subsidy height + fees := by
  simp only [Valid.coinbaseWithinReward, Bool.and_eq_true, decide_eq_true_eq] at h
  have := h.1.1
  rw [sum_eq] at this
  exact this

/-- **the coinbase of a block accepted by `Valid.checkBlock`** is indexed without failure -/
theorem indexTx_valid_cb (cfg : Cfg) (blk : Block) (insOn : Bool) (cb : Tx)
    (u : Valid.Utxos) (fees budget : Nat) (seen : List Txid) (bc : BlockCtx)
    (hmid : Mid cfg blk.height insOn u fees budget bc) (huwf : UWF seen u)
    (hshape : Valid.coinbaseShape cb = true) (hwf : Valid.txWellFormed cb = true)
    (hrew : Valid.coinbaseWithinReward blk.height fees cb = true) (hfresh : cb.txid ∉ seen)
    (hbud : budget < 2147483648) :
    ∃ bc', indexTx cfg blk insOn 0 cb bc = .ok bc' ∧
      Core cfg (u ++ Valid.newOutputs cb.txid (Valid.outValues cb)) budget bc' ∧
      UWF (cb.txid :: seen) (u ++ Valid.newOutputs cb.txid (Valid.outValues cb)) := by
  obtain ⟨hnz, _⟩ := wellFormed_facts cb hwf
  obtain ⟨i, hi, hnull⟩ := coinbaseShape_input cb hshape
  have hsum := coinbaseWithinReward_sum _ _ _ hrew
  generalize hV : subsidy blk.height + fees = V at hsum
  obtain ⟨bc3, outs3, hmidok, _, hon, hoff⟩ := indexTxMid_valid cfg blk insOn 0 cb bc
    (cb.inputs.map (fun i => (i, UtxoEntry.empty))) V PCb
    (by intro hS; rw [if_pos rfl, hmid.cbIn hS, hV])
    hsum
    (by
      intro hi' st2 outs2 ir hss hl he hir
      have hrw : bc.ins.reward = V := by rw [hmid.reward hi', hV]
      obtain ⟨ls', h1, h2, h3, h4⟩ := indexInscriptions_cb cfg blk.height blk.time cb i ir ⟨st2, bc.ins, outs2⟩
        hi hnull
        ⟨hmid.ids.congr hss.1 hss.2.1, fun e he' p hp => by rw [he e he'] at hp; cases hp⟩
        hl
        (by show _ ≤ bc.ins.reward; rw [hrw]; exact hsum)
        (by intro rs hrs; show _ = bc.ins.reward; rw [hrw]; exact hir rs hrs)
        (by
          show st2.cursed + st2.blessed + countNew bc.ins.flotsam < 2147483648
          rw [hss.2.2.1, hss.2.2.2]
          have := hmid.count
          omega)
        (by
          intro f hf
          show OldOK st2.entries.length f
          rw [hss.1]
          exact hmid.flSeq f hf)
        hmid.flOff
      exact ⟨ls', h1, h2, h3, h4⟩)
  have hfr := indexTxMid_frame _ _ _ _ _ _ _ _ _ hmidok
  have hpw := indexTxMid_pw _ _ _ _ _ _ _ _ _ hmidok
  have hutxo : bc3.st.utxo = bc.st.utxo := congrArg Tri.utxo hfr.1
  have hs2o : bc3.st.script2out = bc.st.script2out := congrArg Tri.script2out hfr.1
  have hside : IdsOK bc3.st ∧ bc.st.entries.length ≤ bc3.st.entries.length ∧
      (∀ e ∈ outs3, ∀ p ∈ e.ins, p.1 < bc3.st.entries.length) ∧
      (∀ f ∈ bc3.ins.flotsam, OldOK bc3.st.entries.length f) ∧
      bc3.st.cursed + bc3.st.blessed + countNew bc3.ins.flotsam ≤ budget := by
    cases hi' : insOn with
    | true =>
      obtain ⟨st2, outs2, ls', hss, ⟨hio, hcnt, hfl⟩, e1, e2, e3⟩ := hon hi'
      rw [e1, e2, e3]
      refine ⟨hio.inv.ids, ?_, hio.inv.outs, hio.flSeq, ?_⟩
      · have := hio.len
        simp only at this
        rw [hss.1] at this
        exact this
      · simp only at hcnt
        rw [hss.2.2.1, hss.2.2.2] at hcnt
        rw [hfl]
        have := hmid.count
        simp only [countNew, List.filter_nil, List.length_nil] at *
        omega
    | false =>
      obtain ⟨hs3, hi3, he3⟩ := hoff hi'
      rw [hi3]
      refine ⟨hmid.ids.congr hs3.1 hs3.2.1, by rw [hs3.1]; exact Nat.le_refl _, ?_, ?_, ?_⟩
      · intro e he p hp
        rw [he3 e he] at hp; cases hp
      · rw [hs3.1]; exact hmid.flSeq
      · rw [hs3.2.2.1, hs3.2.2.2]
        exact hmid.count
  obtain ⟨hids3, hlen3, hseq3, hfl3, hcnt3⟩ := hside
  rw [indexTx_eq, if_pos rfl]
  simp only
  rw [hmidok]
  refine ⟨_, rfl, ⟨?_, ?_, hids3, hfl3, hcnt3⟩, huwf.addOutputs cb.txid _ hfresh hnz⟩
  · show URel cfg bc3.st.entries.length _ bc3.st.utxo bc3.st.script2out (cacheIns cb.txid outs3 bc3.cache)
    rw [hutxo, hs2o, hfr.2]
    exact urel_cacheIns cfg _ u _ _ _ cb outs3 seen (hmid.urel.mono hlen3) huwf hfresh hpw hseq3
  · show (AL.keys (cacheIns cb.txid outs3 bc3.cache)).Nodup
    rw [cacheIns_eq_cacheOuts, hfr.2]
    exact nodup_cacheOuts _ _ _ hmid.cnodup

/-! ### the non-coinbase transactions of a block, in order -/

theorem indexTxs_valid (cfg : Cfg) (blk : Block) (insOn : Bool) (rest : List Tx) (k : Nat) (hk : k ≠ 0)
    (u uF : Valid.Utxos) (fees feesF budget : Nat) (seen : List Txid) (bc : BlockCtx)
    (hmid : Mid cfg blk.height insOn u fees budget bc) (huwf : UWF seen u)
    (hct : Valid.checkTxs blk.height rest u fees = some (uF, feesF))
    (hfresh : (rest.map (·.txid) ++ seen).Nodup)
    (hbud : budget + Valid.sum (rest.map (·.envelopes.length)) < 2147483648) :
    ∃ bc', indexTxs cfg blk insOn (enumFrom k rest) bc = .ok bc' ∧
      Mid cfg blk.height insOn uF feesF (budget + Valid.sum (rest.map (·.envelopes.length))) bc' ∧
      UWF (rest.map (·.txid) ++ seen) uF := by
  induction rest generalizing k u fees budget seen bc with
  | nil =>
    simp only [Valid.checkTxs, Option.some.injEq, Prod.mk.injEq] at hct
    obtain ⟨rfl, rfl⟩ := hct
    exact ⟨bc, rfl, by simpa [Valid.sum] using hmid, by simpa using huwf⟩
  | cons tx rest ih =>
    simp only [Valid.checkTxs] at hct
    split at hct
    · cases hct
    · rename_i u1 fee hctx
      simp only [List.map_cons, List.cons_append, List.nodup_cons, Valid.sum] at hfresh hbud ⊢
      have hf1 : tx.txid ∉ seen := fun h => hfresh.1 (List.mem_append_right _ h)
      obtain ⟨bc1, h1, m1, w1⟩ := indexTx_valid_tx cfg blk insOn k hk tx u u1 fee fees budget seen bc hmid huwf hctx hf1
        (by omega)
      simp only [enumFrom, indexTxs, h1]
      obtain ⟨bc2, h2, m2, w2⟩ := ih (k + 1) (by omega) u1 (fees + fee) (budget + tx.envelopes.length) (tx.txid :: seen) bc1
        m1 w1 hct
        (by
          have : List.Perm (rest.map (·.txid) ++ tx.txid :: seen) (tx.txid :: (rest.map (·.txid) ++ seen)) :=
            List.perm_middle
          exact this.nodup_iff.2 (List.nodup_cons.2 hfresh))
        (by omega)
      refine ⟨bc2, h2, ?_, w2.mono ?_⟩
      · have : budget + tx.envelopes.length + Valid.sum (rest.map (·.envelopes.length)) =
            budget + (tx.envelopes.length + Valid.sum (rest.map (·.envelopes.length))) := by omega
        rw [← this]; exact m2
      · intro t ht
        simp only [List.mem_append, List.mem_cons] at ht ⊢
        rcases ht with ht | ht | ht
        · exact Or.inr (Or.inl ht)
        · exact Or.inl ht
        · exact Or.inr (Or.inr ht)

theorem indexTxs_append_ok (cfg : Cfg) (blk : Block) (insOn : Bool) (a b : List (Nat × Tx)) (bc bc1 : BlockCtx)
    (h : indexTxs cfg blk insOn a bc = .ok bc1) :
    indexTxs cfg blk insOn (a ++ b) bc = indexTxs cfg blk insOn b bc1 := by
  induction a generalizing bc with
  | nil => simp only [indexTxs, Outcome.ok.injEq] at h; subst h; rfl
  | cons p a ih =>
    obtain ⟨i, tx⟩ := p
    simp only [List.cons_append, indexTxs] at h ⊢
    split at h
    · cases h
    · cases h
    · rename_i bc2 h2
      exact ih bc2 h

/-! ### the commit -/

theorem flushCache_get_other (cfg : Cfg) (c : Cache) (st : State) (op : OutPoint) (h : ∀ p ∈ c, p.1 ≠ op) :
    AL.get (flushCache cfg st c).utxo op = AL.get st.utxo op := by
  induction c generalizing st with
  | nil => rfl
  | cons p rest ih =>
    obtain ⟨k, e⟩ := p
    rw [flushCache_cons, ih _ (fun q hq => h q (List.mem_cons_of_mem _ hq)), flushEntry_utxo,
      AL.get_set_ne _ _ (h (k, e) List.mem_cons_self)]

theorem flushCache_rows_mono (cfg : Cfg) (c : Cache) (st : State) (x : List UInt8 × OutPoint)
    (h : x ∈ st.script2out) : x ∈ (flushCache cfg st c).script2out := by
  induction c generalizing st with
  | nil => exact h
  | cons p rest ih =>
    obtain ⟨k, e⟩ := p
    rw [flushCache_cons]
    apply ih
    rw [flushEntry_script2out]
    split
    · exact (mem_insertUnique _ _ _).2 (Or.inl h)
    · exact h

theorem flushCache_rows_new (cfg : Cfg) (ha : cfg.indexAddresses = true) (c : Cache) (st : State) (op : OutPoint)
    (e : UtxoEntry) (hm : (op, e) ∈ c) (hsp : op.isSpecial = false) :
    (e.script, op) ∈ (flushCache cfg st c).script2out := by
  induction c generalizing st with
  | nil => cases hm
  | cons p rest ih =>
    obtain ⟨k, e'⟩ := p
    rw [flushCache_cons]
    rcases List.mem_cons.1 hm with hm | hm
    · simp only [Prod.mk.injEq] at hm
      obtain ⟨rfl, rfl⟩ := hm
      apply flushCache_rows_mono
      rw [flushEntry_script2out, if_pos ha, eff_nonspecial _ hsp]
      exact (mem_insertUnique _ _ _).2 (Or.inr rfl)
    · exact ih _ hm

theorem endState_insSame (cfg : Cfg) (blk : Block) (insOn : Bool) (bc : BlockCtx) :
    InsSame bc.st (endState cfg blk insOn bc).1 := by
  unfold endState
  cases insOn <;> cases bc.lostRanges.isEmpty <;> exact ⟨rfl, rfl, rfl, rfl⟩

theorem specialOf_special (n u : Option UtxoEntry) : ∀ p ∈ specialOf n u, p.1.isSpecial = true := by
  intro p hp
  unfold specialOf at hp
  rcases List.mem_append.1 hp with hp | hp
  · cases n with
    | none => cases hp
    | some e => simp only [List.mem_singleton] at hp; subst hp; exact isSpecial_null
  · cases u with
    | none => cases hp
    | some e => simp only [List.mem_singleton] at hp; subst hp; exact isSpecial_unbound

/-! ### block boundaries -/

/-- the index state after a chain vs. the `Valid.VState` after the same chain -/
structure Bnd (cfg : Cfg) (vs : Valid.VState) (st : State) : Prop where
  urel : URel cfg st.entries.length vs.utxos st.utxo st.script2out []
  uwf : UWF vs.txids vs.utxos
  tnodup : vs.txids.Nodup
  ids : IdsOK st
  count : st.cursed + st.blessed ≤ vs.envelopes

theorem Bnd.init (cfg : Cfg) : Bnd cfg {} {} :=
  ⟨(fun op v h => by simp [AL.get] at h), UWF.nil _, (by simp),
   ⟨(fun e he => by cases he), (fun id seq h => by simp [AL.get] at h)⟩, Nat.le_refl _⟩

/-- **The sat / address / inscription pass never fails on the next block of a valid chain**, and
leaves a state that satisfies the boundary invariant against the spec state after the block. -/
theorem indexUtxoEntries_valid (cfg : Cfg) (st : State) (blk : Block) (vs vs' : Valid.VState)
    (hb : Bnd cfg vs st) (hc : Valid.checkBlock vs blk = some vs') :
    ∃ r, indexUtxoEntries cfg st blk = .ok r ∧ Bnd cfg vs' r.1 := by
  obtain ⟨cb, rest, txids, uF, feesF, htxs, hshape, hwfcb, hfreshT, hct, hrew, henv, rfl⟩ := checkBlock_full vs vs' blk hc
  obtain ⟨hte, htn⟩ := freshTxids_spec _ _ _ hfreshT hb.tnodup
  rw [htxs] at hte htn henv
  simp only [List.map_cons, List.cons_append, List.nodup_cons, Valid.sum] at htn henv
  have hmax : Valid.maxInscriptions < 2147483648 := by decide
  rw [Sched.indexUtxoEntries_eq]
  have hord : Sched.blockOrder blk = enumFrom 1 rest ++ [(0, cb)] := by
    unfold Sched.blockOrder
    rw [htxs]
    simp [enumFrom]
  rw [hord]
  -- the invariant at the start of the block
  have hmid0 : Mid cfg blk.height (insOnOf cfg blk) vs.utxos 0 vs.envelopes (bc0A cfg st blk) := by
    refine ⟨⟨hb.urel, (by simp [bc0A, AL.keys]), hb.ids, (fun f hf => by cases hf), ?_⟩, ?_, (fun _ => rfl),
      (fun f hf => by cases hf)⟩
    · show st.cursed + st.blessed + countNew [] ≤ vs.envelopes
      simp only [countNew, List.filter_nil, List.length_nil, Nat.add_zero]
      exact hb.count
    · intro hS
      show rangesValue (coinbaseInputsOf cfg blk) = subsidy blk.height + 0
      unfold coinbaseInputsOf
      split
      · rw [rangesValue_cons, rangesValue_nil]; omega
      · rename_i hn
        rw [rangesValue_nil]
        have : ¬ subsidy blk.height > 0 := fun h => hn ⟨hS, h⟩
        omega
  obtain ⟨bc1, h1, m1, w1⟩ := indexTxs_valid cfg blk (insOnOf cfg blk) rest 1 (by omega) vs.utxos uF 0 feesF vs.envelopes
    vs.txids (bc0A cfg st blk) hmid0 hb.uwf hct htn.2 (by omega)
  have hcbfresh : cb.txid ∉ rest.map (·.txid) ++ vs.txids := htn.1
  obtain ⟨bc, h2, c2, w2⟩ := indexTx_valid_cb cfg blk (insOnOf cfg blk) cb uF feesF _ _ bc1 m1 w1 hshape hwfcb hrew
    hcbfresh (by omega)
  rw [indexTxs_append_ok _ _ _ _ _ _ _ h1]
  simp only [indexTxs, h2]
  refine ⟨_, rfl, ?_⟩
  generalize hE : endState cfg blk (insOnOf cfg blk) bc = E
  have hEs : InsSame bc.st E.1 := hE ▸ endState_insSame _ _ _ _
  have hEt : tri E.1 = tri bc.st := hE ▸ endState_tri _ _ _ _
  simp only
  have hcore := flushCache_core cfg (bc.cache ++ specialOf E.2 bc.ins.unboundEntry) E.1
  have hFs : InsSame bc.st (flushCache cfg E.1 (bc.cache ++ specialOf E.2 bc.ins.unboundEntry)) :=
    hEs.trans (InsSame.of_core hcore)
  refine ⟨?_, ?_, ?_, c2.ids.congr hFs.1 hFs.2.1, ?_⟩
  · -- every unspent output is in the committed table, with its row
    intro op v hg
    show (∃ e, AL.get [] op = some e ∧ _) ∨ _
    right
    refine ⟨rfl, ?_⟩
    simp only at hg
    have hnsp : op.isSpecial = false := isSpecial_false_of_txid (w2.of_get hg).2
    have hspecial : ∀ p ∈ specialOf E.2 bc.ins.unboundEntry, p.1 ≠ op := by
      intro p hp he
      have := specialOf_special _ _ p hp
      rw [he, hnsp] at this; cases this
    have hget : AL.get (flushCache cfg E.1 (bc.cache ++ specialOf E.2 bc.ins.unboundEntry)).utxo op =
        (match AL.get bc.cache op with
         | some e => some (eff E.1.utxo op e)
         | none => AL.get E.1.utxo op) := by
      rw [flushCache_append, flushCache_get_other _ _ _ _ hspecial]
      exact get_flushCache_utxo _ _ _ c2.cnodup _
    have hrows : ∀ x, x ∈ (flushCache cfg E.1 bc.cache).script2out →
        x ∈ (flushCache cfg E.1 (bc.cache ++ specialOf E.2 bc.ins.unboundEntry)).script2out := by
      intro x hx
      rw [flushCache_append]
      exact flushCache_rows_mono _ _ _ _ hx
    rw [hget, hFs.1]
    have hu : E.1.utxo = bc.st.utxo := congrArg Tri.utxo hEt
    have hs : E.1.script2out = bc.st.script2out := congrArg Tri.script2out hEt
    rcases c2.urel op v hg with ⟨e, hce, hre⟩ | ⟨hcn, e, hte', hre, hrow⟩
    · rw [hce]
      simp only
      rw [eff_nonspecial _ hnsp]
      refine ⟨e, rfl, hre, fun ha => ?_⟩
      apply hrows
      exact flushCache_rows_new cfg ha _ _ _ _ (AL.mem_of_get hce) hnsp
    · rw [hcn]
      simp only
      rw [hu]
      refine ⟨e, hte', hre, fun ha => ?_⟩
      apply hrows
      apply flushCache_rows_mono
      rw [hs]
      exact hrow ha
  · -- spec side
    show UWF txids _
    rw [hte]
    refine w2.mono ?_
    intro t ht
    rw [List.mem_append, List.mem_reverse, List.map_cons]
    rcases List.mem_cons.1 ht with rfl | ht
    · exact Or.inl List.mem_cons_self
    · rcases List.mem_append.1 ht with ht | ht
      · exact Or.inl (List.mem_cons_of_mem _ ht)
      · exact Or.inr ht
  · show txids.Nodup
    rw [hte]
    have : (cb.txid :: (rest.map (·.txid) ++ vs.txids)).Nodup := List.nodup_cons.2 htn
    refine (List.Perm.nodup_iff ?_).2 this
    have h1 : List.Perm ((cb.txid :: rest.map (·.txid)).reverse ++ vs.txids) ((cb.txid :: rest.map (·.txid)) ++ vs.txids) :=
      (List.reverse_perm _).append_right _
    simpa using h1
  · show _ ≤ vs.envelopes + Valid.sum (blk.txs.map (·.envelopes.length))
    rw [htxs]
    simp only [List.map_cons, Valid.sum]
    rw [hFs.2.2.1, hFs.2.2.2]
    have := c2.count
    omega

end Ord.Index.NoPanic
