import OrdModel.Proofs.IndexMiscNoPanic
import OrdModel.Proofs.IndexSchedTx
/-
C16, part 6: the sat / address / inscription pass (`indexUtxoEntries`) never returns an `err`
and panics only at one of the sites in `utxoResidualSites` — for every configuration, state and
block (a purely structural walk; no validity hypothesis).  Uses the rfl-equal decompositions of
the C12 / C37 streams (`uil_eq`, `uilStep_new`, `indexInscriptions_eq`, `indexTx_eq`).
-/
namespace Ord.Index
open Outcome Sched

/-- `residualSites` without the three rune-updater sites: the failure sites of the sat / address /
inscription pass, none of which is discharged yet at chain level -/
def utxoResidualSites : List String := [
  "script pubkey entry not found",
  "assert!(!self.index.have_full_utxo_index())",
  "insufficient inputs for transaction outputs",
  "total_input_value - total_output_value",
  "total_input_value - output_value",
  "self.reward - output_value",
  "calculate_sat: unreachable!()",
  "id_to_sequence_number.get(id).unwrap()",
  "sequence_number_to_entry.get(initial).unwrap()",
  "sequence_number_to_entry.get(sequence_number).unwrap()",
  "sequence_number_to_entry.get(parent_sequence_number).unwrap()",
  "sequence_number_to_entry.get(&sequence_number).unwrap()",
  "inscription count try_into::<i32>().unwrap()"]

/-- sites of the pass that are discharged here by local reasoning (no chain invariant): a new
flotsam implies `id_counter ≥ 1`; lost flotsam is sent to the null outpoint, which is special;
`assignOutputs` only names existing outputs and the output-entry list has one element per output -/
def utxoLocalSites : List String := [
  "output_utxo_entries[vout]",
  "division by zero",
  "assert!(Index::is_special_outpoint(satpoint.outpoint))"]

abbrev U := utxoResidualSites

theorem utxoResidual_subset : ∀ s ∈ utxoResidualSites, s ∈ residualSites := by
  intro s hs
  simp only [utxoResidualSites, List.mem_cons, List.not_mem_nil, or_false] at hs
  rcases hs with rfl | rfl | rfl | rfl | rfl | rfl | rfl | rfl | rfl | rfl | rfl | rfl | rfl <;>
    simp [residualSites]

theorem residual_split : ∀ s ∈ residualSites,
    s ∈ utxoResidualSites ∨ s ∈ utxoLocalSites ∨ s ∈ runeResidualSites := by
  intro s hs
  simp only [residualSites, List.mem_cons, List.not_mem_nil, or_false] at hs
  rcases hs with rfl | rfl | rfl | rfl | rfl | rfl | rfl | rfl | rfl | rfl | rfl | rfl | rfl | rfl | rfl | rfl | rfl | rfl | rfl <;>
    simp [utxoResidualSites, utxoLocalSites, runeResidualSites]

/-- scan invariant: a new flotsam has been counted -/
def ScanOk (sc : ScanState) : Prop := sc.floating.any isNew = true → 0 < sc.idCounter

/-! ### inscription updater -/

theorem curseOf_U (st : State) (env : Envelope) (ins : List (Nat × InscriptionId × Nat)) (off : Nat) :
    Within U (curseOf st env ins off) := by
  unfold curseOf
  repeat' split
  all_goals first | trivial | simp [WithinP, utxoResidualSites]

theorem scanOld_U (st : State) (prev : OutPoint) (base : Nat) (l : List (Nat × Nat)) (sc : ScanState)
    (hsc : ScanOk sc) : WithinP U ScanOk (scanOld st prev base l sc) := by
  induction l generalizing sc with
  | nil => simpa [scanOld, WithinP] using hsc
  | cons p rest ih =>
    obtain ⟨seq, off⟩ := p
    simp only [scanOld]
    split
    · simp [WithinP, utxoResidualSites]
    · apply ih
      intro h
      apply hsc
      simpa [List.any_append, isNew] using h

theorem scanNew_U (st : State) (jub : Bool) (txid : Txid) (ii off iv tot : Nat) (envs : List Envelope)
    (sc : ScanState) (hsc : ScanOk sc) : WithinP U ScanOk (scanNew st jub txid ii off iv tot envs sc) := by
  induction envs generalizing sc with
  | nil => simpa [scanNew, WithinP, ScanOk] using hsc
  | cons env rest ih =>
    simp only [scanNew]
    split
    · simpa [WithinP, ScanOk] using hsc
    · have h := curseOf_U st env sc.inscribed off
      split
      · rename_i heq; exact h.panic_mem heq
      · rename_i heq; exact h.not_err heq
      · apply ih
        intro _
        exact Nat.succ_pos _

theorem scanInputs_U (cfg : Cfg) (st : State) (jub : Bool) (txid : Txid) (height tot : Nat)
    (l : List (TxIn × UtxoEntry)) (i : Nat) (sc : ScanState) (hsc : ScanOk sc) :
    WithinP U ScanOk (scanInputs cfg st jub txid height tot l i sc) := by
  induction l generalizing i sc with
  | nil => simpa [scanInputs, WithinP] using hsc
  | cons p rest ih =>
    obtain ⟨txin, entry⟩ := p
    simp only [scanInputs]
    split
    · exact ih _ _ hsc
    · have h1 := scanOld_U st txin.prev sc.totalInputValue (sortByKey (·.1) entry.ins) sc hsc
      split
      · rename_i heq; exact h1.panic_mem heq
      · rename_i heq; exact h1.not_err heq
      · rename_i sc1 heq1
        have hsc1 : ScanOk sc1 := h1.of_ok heq1
        have h2 := scanNew_U st jub txid i sc1.totalInputValue (entry.totalValue cfg) tot sc1.envelopes
          { sc1 with totalInputValue := sc1.totalInputValue + entry.totalValue cfg } hsc1
        split
        · rename_i heq; exact h2.panic_mem heq
        · rename_i heq; exact h2.not_err heq
        · rename_i sc3 heq3
          exact ih _ _ (h2.of_ok heq3)

theorem calculateSat_U (rs : List (Nat × Nat)) (off io : Nat) : Within U (calculateSat rs off io) := by
  induction rs generalizing off with
  | nil => simp [calculateSat, WithinP, utxoResidualSites]
  | cons r rest ih =>
    obtain ⟨s, e⟩ := r
    simp only [calculateSat]
    split
    · trivial
    · exact ih _

theorem nsSat_U (ir : Option (List (Nat × Nat))) (unbound : Bool) (offset : Nat) : Within U (nsSat ir unbound offset) := by
  unfold nsSat
  repeat' split
  all_goals first
    | trivial
    | (rename_i heq; exact (calculateSat_U _ _ _).panic_mem heq)
    | (rename_i heq; exact (calculateSat_U _ _ _).not_err heq)

theorem linkParents_U (seq : Nat) (ps : List InscriptionId) (st : State) (ids : List InscriptionId) (seqs : List Nat) :
    Within U (linkParents seq ps st ids seqs) := by
  induction ps generalizing st ids seqs with
  | nil => simp [linkParents, WithinP]
  | cons p rest ih =>
    simp only [linkParents]
    split
    · exact ih _ _ _
    · split
      · simp [WithinP, utxoResidualSites]
      · exact ih _ _ _

theorem uilStep_U (height time : Nat) (ir : Option (List (Nat × Nat))) (fl : Flotsam) (sp : SatPoint) (opr : Bool)
    (ls : LocState) : Within U (uilStep height time ir fl sp opr ls) := by
  obtain ⟨id, offset, origin⟩ := fl
  cases origin with
  | old seq oldSp =>
    unfold uilStep
    simp only []
    repeat' split
    all_goals first | trivial | simp [WithinP, utxoResidualSites]
  | new cursed fee gallery hidden parents reinscription unbound vindicated =>
    rw [uilStep_new]
    cases cursed <;> simp only [Bool.false_eq_true, if_false, if_true] <;>
    · split
      · simp [WithinP, utxoResidualSites]
      · split
        · rename_i heq; exact (nsSat_U _ _ _).panic_mem heq
        · rename_i heq; exact (nsSat_U _ _ _).not_err heq
        · split
          · rename_i heq; exact (linkParents_U _ _ _ _ _).panic_mem heq
          · rename_i heq; exact (linkParents_U _ _ _ _ _).not_err heq
          · trivial

theorem uilFinish_U (sp : SatPoint) (tgt : Target) (outs : List UtxoEntry) (r : Bool × Nat × State × InsCtx)
    (hsp : tgt = .null → sp.outpoint.isSpecial = true) (hv : ∀ v, tgt = .output v → v < outs.length) :
    WithinP U (fun ls' => ls'.outs.length = outs.length) (uilFinish sp tgt outs r) := by
  obtain ⟨unbound, seq, st, ctx⟩ := r
  unfold uilFinish
  simp only []
  repeat' split
  all_goals first
    | (simp [WithinP]; done)
    | (simp [WithinP, utxoResidualSites]; done)
    | (exfalso; rename_i hh; have := hsp rfl; simp [this] at hh)
    | (exfalso; rename_i hh; have := hv _ rfl; simp at hh; omega)

theorem uil_U (cfg : Cfg) (height time : Nat) (ir : Option (List (Nat × Nat))) (fl : Flotsam) (sp : SatPoint)
    (opr : Bool) (tgt : Target) (ls : LocState) (hsp : tgt = .null → sp.outpoint.isSpecial = true)
    (hv : ∀ v, tgt = .output v → v < ls.outs.length) :
    WithinP U (fun ls' => ls'.outs.length = ls.outs.length)
      (updateInscriptionLocation cfg height time ir fl sp opr tgt ls) := by
  rw [uil_eq]
  have h1 := uilStep_U height time ir fl sp opr ls
  split
  · rename_i heq; exact h1.panic_mem heq
  · rename_i heq; exact h1.not_err heq
  · exact uilFinish_U _ _ _ _ hsp hv

theorem applyLocations_U (cfg : Cfg) (height time : Nat) (ir : Option (List (Nat × Nat)))
    (l : List (SatPoint × Flotsam × Bool)) (ls : LocState)
    (hl : ∀ p ∈ l, p.1.outpoint.vout < ls.outs.length) :
    WithinP U (fun ls' => ls'.outs.length = ls.outs.length) (applyLocations cfg height time ir l ls) := by
  induction l generalizing ls with
  | nil => simp [applyLocations, WithinP]
  | cons p rest ih =>
    obtain ⟨sp, fl, opr⟩ := p
    simp only [applyLocations]
    have h1 := uil_U cfg height time ir fl sp opr (.output sp.outpoint.vout) ls (fun h => by cases h)
      (fun v hv => by cases hv; exact hl _ List.mem_cons_self)
    split
    · rename_i heq; exact h1.panic_mem heq
    · rename_i heq; exact h1.not_err heq
    · rename_i ls' heq
      have hlen : ls'.outs.length = ls.outs.length := h1.of_ok heq
      have := ih ls' (fun p hp => by rw [hlen]; exact hl p (List.mem_cons_of_mem _ hp))
      rw [hlen] at this
      exact this

theorem applyLost_U (cfg : Cfg) (height time : Nat) (ir : Option (List (Nat × Nat))) (ov : Nat)
    (l : List Flotsam) (ls : LocState) : Within U (applyLost cfg height time ir ov l ls) := by
  induction l generalizing ls with
  | nil => simp [applyLost, WithinP]
  | cons fl rest ih =>
    simp only [applyLost]
    have h1 := uil_U cfg height time ir fl ⟨OutPoint.null, ls.ctx.lostSats + fl.offset - ov⟩ false .null ls (fun _ => rfl)
      (fun v hv => by cases hv)
    split
    · rename_i heq; exact h1.panic_mem heq
    · rename_i heq; exact h1.not_err heq
    · exact ih _

/-- `assignOutputs` only produces satpoints on existing outputs -/
theorem assignOutputs_vout (txid : Txid) (outs : List TxOut) (vout ov : Nat) (fls : List Flotsam)
    (acc : List (SatPoint × Flotsam × Bool)) (n : Nat) (hn : vout + outs.length = n)
    (hacc : ∀ p ∈ acc, p.1.outpoint.vout < n) :
    ∀ p ∈ (assignOutputs txid outs vout ov fls acc).1, p.1.outpoint.vout < n := by
  induction outs generalizing vout ov fls acc with
  | nil => simpa [assignOutputs] using hacc
  | cons o os ih =>
    simp only [assignOutputs]
    apply ih
    · simp only [List.length_cons] at hn; omega
    · intro p hp
      simp only [List.mem_append, List.mem_map] at hp
      rcases hp with hp | ⟨f, _, rfl⟩
      · exact hacc p hp
      · simp only [List.length_cons] at hn
        show vout < n
        omega

theorem iiFinish_U (cfg : Cfg) (height time : Nat) (ir : Option (List (Nat × Nat))) (isCb : Bool)
    (totalIn ov : Nat) (rest : List Flotsam) (ls2 : LocState) :
    Within U (iiFinish cfg height time ir isCb totalIn ov rest ls2) := by
  unfold iiFinish
  split
  · have h1 := applyLost_U cfg height time ir ov rest ls2
    split
    · rename_i heq; exact h1.panic_mem heq
    · rename_i heq; exact h1.not_err heq
    · split
      · simp [WithinP, utxoResidualSites]
      · trivial
  · split
    · simp [WithinP, utxoResidualSites]
    · trivial

theorem indexInscriptions_U (cfg : Cfg) (height time : Nat) (tx : Tx) (inputs : List (TxIn × UtxoEntry))
    (ir : Option (List (Nat × Nat))) (ls : LocState) (hlen : ls.outs.length = tx.outputs.length) :
    Within U (indexInscriptions cfg height time tx inputs ir ls) := by
  rw [indexInscriptions_eq]
  have h1 := scanInputs_U cfg ls.st (decide (height ≥ cfg.jubileeHeight)) tx.txid height
    (tx.outputs.foldl (fun a o => a + o.value) 0) inputs 0 { envelopes := tx.envelopes }
    (by intro h; simp at h)
  split
  · rename_i heq; exact h1.panic_mem heq
  · rename_i heq; exact h1.not_err heq
  · rename_i sc hsceq
    have hsc : ScanOk sc := h1.of_ok hsceq
    split
    · simp [WithinP, utxoResidualSites]
    · split
      · rename_i hz
        exfalso
        have := hsc hz.1
        omega
      · split
        rename_i locs rest ov hassign
        have hlocs : ∀ p ∈ locs, p.1.outpoint.vout < (iiStart cfg tx ls).outs.length := by
          have := assignOutputs_vout tx.txid tx.outputs 0 0 (iiSorted tx sc ls.ctx.flotsam) [] tx.outputs.length
            (by simp) (fun p hp => by cases hp)
          rw [hassign] at this
          intro p hp
          have h3 := this p hp
          simpa [iiStart, hlen] using h3
        have h2 := applyLocations_U cfg height time ir locs (iiStart cfg tx ls) hlocs
        split
        · rename_i heq; exact h2.panic_mem heq
        · rename_i heq; exact h2.not_err heq
        · exact iiFinish_U _ _ _ _ _ _ _ _ _

/-! ### block level -/

theorem takeInputEntries_U (cfg : Cfg) (ins : List TxIn) (bc : BlockCtx) (acc : List (TxIn × UtxoEntry)) :
    Within U (takeInputEntries cfg ins bc acc) := by
  induction ins generalizing bc acc with
  | nil => simp [takeInputEntries, WithinP]
  | cons i rest ih =>
    simp only [takeInputEntries]
    repeat' split
    all_goals first | exact ih _ _ | simp [WithinP, utxoResidualSites]

theorem indexTransactionSatsAux_length (values : List Nat) (vout : Nat) (q : List (Nat × Nat)) (t : TxSats)
    (h : indexTransactionSatsAux values vout q = some t) : t.outputs.length = values.length := by
  induction values generalizing vout q t with
  | nil => simp only [indexTransactionSatsAux, Option.some.injEq] at h; subst h; rfl
  | cons v vs ih =>
    simp only [indexTransactionSatsAux] at h
    split at h
    · cases h
    · split at h
      · cases h
      · rename_i t' ht'
        simp only [Option.some.injEq] at h
        subst h
        simp [ih _ _ _ ht']

theorem indexTxMid_U (cfg : Cfg) (blk : Block) (insOn : Bool) (txOffset : Nat) (tx : Tx) (bc1 : BlockCtx)
    (inputs : List (TxIn × UtxoEntry)) : Within U (indexTxMid cfg blk insOn txOffset tx bc1 inputs) := by
  have tail : ∀ (bc2 : BlockCtx) (outs2 : List UtxoEntry) (inRanges : Option (List (Nat × Nat))),
      outs2.length = tx.outputs.length →
      Within U (if insOn = true then
        match indexInscriptions cfg blk.height blk.time tx inputs inRanges { st := bc2.st, ctx := bc2.ins, outs := outs2 } with
        | .panic s => (.panic s : Outcome (BlockCtx × List UtxoEntry))
        | .err e => .err e
        | .ok ls => .ok ({ bc2 with st := ls.st, ins := ls.ctx }, ls.outs)
      else .ok (bc2, outs2)) := by
    intro bc2 outs2 inRanges hlen2
    split
    · have h := indexInscriptions_U cfg blk.height blk.time tx inputs inRanges { st := bc2.st, ctx := bc2.ins, outs := outs2 } hlen2
      split
      · rename_i heq; exact h.panic_mem heq
      · rename_i heq; exact h.not_err heq
      · trivial
    · trivial
  unfold indexTxMid
  simp only []
  cases hS : cfg.indexSats with
  | false =>
    simp only [Bool.false_eq_true, if_false]
    apply tail
    split <;> simp
  | true =>
    simp only [if_true]
    cases hits : indexTransactionSats (tx.outputs.map (·.value))
        (if txOffset = 0 then bc1.coinbaseInputs else inputs.flatMap (fun (x : TxIn × UtxoEntry) => x.2.ranges)) with
    | none => simp [WithinP, utxoResidualSites]
    | some r =>
      simp only []
      apply tail
      have hr : r.outputs.length = tx.outputs.length := by
        have := indexTransactionSatsAux_length _ _ _ _ hits
        simpa using this
      split <;> simp [hr]

theorem indexTx_U (cfg : Cfg) (blk : Block) (insOn : Bool) (txOffset : Nat) (tx : Tx) (bc : BlockCtx) :
    Within U (indexTx cfg blk insOn txOffset tx bc) := by
  rw [indexTx_eq]
  have h1 : Within U (if txOffset = 0 then Outcome.ok (bc, tx.inputs.map (fun i => (i, UtxoEntry.empty)))
             else takeInputEntries cfg tx.inputs bc []) := by
    split
    · trivial
    · exact takeInputEntries_U _ _ _ _
  split
  · rename_i heq; exact h1.panic_mem heq
  · rename_i heq; exact h1.not_err heq
  · rename_i bc1 inputs _
    have h2 := indexTxMid_U cfg blk insOn txOffset tx bc1 inputs
    split
    · rename_i heq; exact h2.panic_mem heq
    · rename_i heq; exact h2.not_err heq
    · trivial

theorem indexTxs_U (cfg : Cfg) (blk : Block) (insOn : Bool) (l : List (Nat × Tx)) (bc : BlockCtx) :
    Within U (indexTxs cfg blk insOn l bc) := by
  induction l generalizing bc with
  | nil => simp [indexTxs, WithinP]
  | cons p rest ih =>
    obtain ⟨i, tx⟩ := p
    simp only [indexTxs]
    have h1 := indexTx_U cfg blk insOn i tx bc
    split
    · rename_i heq; exact h1.panic_mem heq
    · rename_i heq; exact h1.not_err heq
    · exact ih _

/-- **The sat / address / inscription pass of any block, any state, any configuration** never
returns an error and panics only at a site in `utxoResidualSites`. -/
theorem indexUtxoEntries_U (cfg : Cfg) (st : State) (blk : Block) : Within U (indexUtxoEntries cfg st blk) := by
  unfold indexUtxoEntries
  simp only []
  have h1 := fun insOn l bc => indexTxs_U cfg blk insOn l bc
  split
  · rename_i heq; exact (h1 _ _ _).panic_mem heq
  · rename_i heq; exact (h1 _ _ _).not_err heq
  · repeat' split
    all_goals trivial

end Ord.Index
