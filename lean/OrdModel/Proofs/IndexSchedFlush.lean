import OrdModel.Proofs.IndexSchedDefs
/-
C12 helper lemmas 1: what `flushEntry` / `flushCache` do to the `utxo` table and the script
index, as finite maps; the table invariant `TInv` (no duplicate keys, script rows exactly for
table-resident entries, special entries carry the empty script) and the cache invariant `CInv`.
-/
namespace Ord.Index.Sched
open Ord Ord.Index Outcome

/-- merge an optional later entry into an optional earlier one (`UtxoEntryBuf::merged`) -/
def mo (a b : Option UtxoEntry) : Option UtxoEntry :=
  match a, b with
  | none, b => b
  | some p, none => some p
  | some p, some e => some (UtxoEntry.merged p e)

theorem merged_assoc (a b c : UtxoEntry) :
    UtxoEntry.merged (UtxoEntry.merged a b) c = UtxoEntry.merged a (UtxoEntry.merged b c) := by
  simp [UtxoEntry.merged, Nat.add_assoc, List.append_assoc]

@[simp] theorem mo_none_left (b : Option UtxoEntry) : mo none b = b := by cases b <;> rfl
@[simp] theorem mo_none_right (a : Option UtxoEntry) : mo a none = a := by cases a <;> rfl
theorem mo_assoc (a b c : Option UtxoEntry) : mo (mo a b) c = mo a (mo b c) := by
  cases a <;> cases b <;> cases c <;> simp [mo, merged_assoc]

/-- the entry `flushEntry` writes for `(op, e)` on top of table `tbl` -/
def eff (tbl : List (OutPoint × UtxoEntry)) (op : OutPoint) (e : UtxoEntry) : UtxoEntry :=
  if op.isSpecial then
    match AL.get tbl op with
    | some old => UtxoEntry.merged old e
    | none => e
  else e

theorem eff_special {tbl : List (OutPoint × UtxoEntry)} {op : OutPoint} (e : UtxoEntry)
    (h : op.isSpecial = true) : some (eff tbl op e) = mo (AL.get tbl op) (some e) := by
  unfold eff; rw [if_pos h]; cases AL.get tbl op <;> rfl

theorem eff_nonspecial {tbl : List (OutPoint × UtxoEntry)} {op : OutPoint} (e : UtxoEntry)
    (h : op.isSpecial = false) : eff tbl op e = e := by
  unfold eff; simp [h]

theorem flushEntry_utxo (cfg : Cfg) (st : State) (op : OutPoint) (e : UtxoEntry) :
    (flushEntry cfg st op e).utxo = AL.set st.utxo op (eff st.utxo op e) := by
  unfold flushEntry eff
  cases cfg.indexAddresses <;> cases cfg.indexInscriptions <;> rfl

theorem flushEntry_script2out (cfg : Cfg) (st : State) (op : OutPoint) (e : UtxoEntry) :
    (flushEntry cfg st op e).script2out =
      if cfg.indexAddresses then insertUnique st.script2out ((eff st.utxo op e).script, op) else st.script2out := by
  unfold flushEntry eff
  cases cfg.indexAddresses <;> cases cfg.indexInscriptions <;> rfl

theorem flushEntry_seq2sp (cfg : Cfg) (st : State) (op : OutPoint) (e : UtxoEntry) :
    (flushEntry cfg st op e).seq2sp =
      if cfg.indexInscriptions then
        (eff st.utxo op e).ins.foldl (fun m (p : Nat × Nat) => AL.set m p.1 ⟨op, p.2⟩) st.seq2sp
      else st.seq2sp := by
  unfold flushEntry eff
  cases cfg.indexAddresses <;> cases cfg.indexInscriptions <;> rfl

theorem flushEntry_core (cfg : Cfg) (st : State) (op : OutPoint) (e : UtxoEntry) :
    core (flushEntry cfg st op e) = core st := by
  unfold flushEntry
  cases cfg.indexAddresses <;> cases cfg.indexInscriptions <;> rfl

theorem flushCache_nil (cfg : Cfg) (st : State) : flushCache cfg st [] = st := rfl
theorem flushCache_cons (cfg : Cfg) (st : State) (op : OutPoint) (e : UtxoEntry) (c : Cache) :
    flushCache cfg st ((op, e) :: c) = flushCache cfg (flushEntry cfg st op e) c := rfl

theorem flushCache_append (cfg : Cfg) (st : State) (c1 c2 : Cache) :
    flushCache cfg st (c1 ++ c2) = flushCache cfg (flushCache cfg st c1) c2 := by
  simp [flushCache, List.foldl_append]

theorem flushCache_core (cfg : Cfg) (c : Cache) (st : State) : core (flushCache cfg st c) = core st := by
  induction c generalizing st with
  | nil => rfl
  | cons p rest ih => obtain ⟨op, e⟩ := p; rw [flushCache_cons, ih, flushEntry_core]

/-- flushing is a function of the three tables only, and writes only them -/
theorem flushCache_W (cfg : Cfg) (c : Cache) (st : State) (x : Tri) :
    flushCache cfg (W st x) c = W st (tri (flushCache cfg (W st x) c)) := by
  have h := flushCache_core cfg c (W st x)
  have := eq_W_of_core h.symm
  rw [W_W] at this
  exact this

/-- the `utxo` table after a flush, as a finite map -/
theorem get_flushCache_utxo (cfg : Cfg) (c : Cache) (st : State) (hn : (AL.keys c).Nodup) (op : OutPoint) :
    AL.get (flushCache cfg st c).utxo op =
      match AL.get c op with
      | some e => some (eff st.utxo op e)
      | none => AL.get st.utxo op := by
  induction c generalizing st with
  | nil => rfl
  | cons p rest ih =>
    obtain ⟨k, v⟩ := p
    simp only [AL.keys_cons, List.nodup_cons] at hn
    rw [flushCache_cons, ih _ hn.2, flushEntry_utxo]
    by_cases hk : k = op
    · subst hk
      have : AL.get rest k = none := (AL.get_eq_none_iff rest k).2 hn.1
      simp [this, AL.get, AL.get_set_self]
    · have hko : (k == op) = false := by simpa using hk
      simp only [AL.get, hko, Bool.false_eq_true, if_false]
      cases hr : AL.get rest op with
      | none => simp [AL.get_set_ne _ _ hk]
      | some e =>
        simp only
        unfold eff
        rw [AL.get_set_ne _ _ hk]

/-- table invariant -/
structure TInv (cfg : Cfg) (x : Tri) : Prop where
  nodup : (AL.keys x.utxo).Nodup
  rows : cfg.indexAddresses = true → ∀ scr op, (scr, op) ∈ x.script2out ↔ ∃ e, AL.get x.utxo op = some e ∧ e.script = scr
  spScript : ∀ op e, op.isSpecial = true → AL.get x.utxo op = some e → e.script = []

/-- cache invariant relative to a table -/
structure CInv (tbl : List (OutPoint × UtxoEntry)) (c : Cache) : Prop where
  nodup : (AL.keys c).Nodup
  disj : ∀ op, op.isSpecial = false → op ∈ AL.keys c → AL.get tbl op = none
  spScript : ∀ op e, op.isSpecial = true → AL.get c op = some e → e.script = []

theorem merged_script (a b : UtxoEntry) : (UtxoEntry.merged a b).script = [] := rfl

theorem TInv.after_flushEntry {cfg : Cfg} {st : State} (h : TInv cfg (tri st)) (op : OutPoint) (e : UtxoEntry)
    (hfresh : op.isSpecial = false → AL.get st.utxo op = none)
    (hsp : op.isSpecial = true → e.script = []) :
    TInv cfg (tri (flushEntry cfg st op e)) := by
  have hu := flushEntry_utxo cfg st op e
  have hs := flushEntry_script2out cfg st op e
  -- the script of the written entry
  have heff : ∀ o, AL.get st.utxo op = some o → (eff st.utxo op e).script = o.script := by
    intro o ho
    cases hsp' : op.isSpecial with
    | false => rw [hfresh hsp'] at ho; cases ho
    | true =>
      have h1 := h.spScript op o hsp' ho
      unfold eff; simp only [hsp', if_true, ho]; rw [merged_script, h1]
  have heffsp : op.isSpecial = true → (eff st.utxo op e).script = [] := by
    intro hsp'
    unfold eff; simp only [hsp', if_true]
    cases AL.get st.utxo op with
    | none => exact hsp hsp'
    | some o => rfl
  refine ⟨?_, ?_, ?_⟩
  · show (AL.keys (flushEntry cfg st op e).utxo).Nodup
    rw [hu]; exact AL.nodup_set _ _ _ h.nodup
  · intro ha scr op'
    show (scr, op') ∈ (flushEntry cfg st op e).script2out ↔ ∃ e', AL.get (flushEntry cfg st op e).utxo op' = some e' ∧ e'.script = scr
    rw [hs, hu, if_pos ha, mem_insertUnique, AL.get_set]
    have hrows := h.rows ha scr op'
    simp only [tri] at hrows
    by_cases hk : op = op'
    · subst hk
      simp only [beq_self_eq_true, if_true, Option.some.injEq, exists_eq_left', Prod.mk.injEq, and_true]
      constructor
      · rintro (hm | rfl)
        · obtain ⟨o, ho, hos⟩ := hrows.1 hm
          rw [heff o ho, hos]
        · rfl
      · intro h1; exact Or.inr h1.symm
    · have hko : (op == op') = false := by simpa using hk
      simp only [hko, Bool.false_eq_true, if_false, Prod.mk.injEq]
      rw [hrows]
      constructor
      · rintro (hm | ⟨_, h2⟩)
        · exact hm
        · exact absurd h2.symm hk
      · intro hm; exact Or.inl hm
  · intro op' e' hsp' hg
    have hg : AL.get (flushEntry cfg st op e).utxo op' = some e' := hg
    rw [hu, AL.get_set] at hg
    by_cases hk : op = op'
    · subst hk
      simp only [beq_self_eq_true, if_true, Option.some.injEq] at hg
      rw [← hg]; exact heffsp hsp'
    · have hko : (op == op') = false := by simpa using hk
      simp only [hko, Bool.false_eq_true, if_false] at hg
      exact h.spScript op' e' hsp' hg

theorem TInv.after_flushCache {cfg : Cfg} (c : Cache) {st : State} (h : TInv cfg (tri st)) (hc : CInv st.utxo c) :
    TInv cfg (tri (flushCache cfg st c)) := by
  induction c generalizing st with
  | nil => exact h
  | cons p rest ih =>
    obtain ⟨k, v⟩ := p
    rw [flushCache_cons]
    have hn := hc.nodup
    simp only [AL.keys_cons, List.nodup_cons] at hn
    apply ih
    · apply h.after_flushEntry
      · intro hsp; exact hc.disj k hsp (by simp)
      · intro hsp; exact hc.spScript k v hsp (by simp [AL.get])
    · refine ⟨hn.2, ?_, ?_⟩
      · intro op hsp hmem
        have hne : k ≠ op := fun hk => hn.1 (hk ▸ hmem)
        rw [flushEntry_utxo, AL.get_set_ne _ _ hne]
        exact hc.disj op hsp (by simp [hmem])
      · intro op e hsp hg
        have hmem : op ∈ AL.keys rest := by
          apply Classical.byContradiction
          intro hcon
          rw [(AL.get_eq_none_iff rest op).2 hcon] at hg; cases hg
        have hne : k ≠ op := fun hk => hn.1 (hk ▸ hmem)
        have hko : (k == op) = false := by simpa using hne
        exact hc.spScript op e hsp (by simp [AL.get, hko, hg])

end Ord.Index.Sched
