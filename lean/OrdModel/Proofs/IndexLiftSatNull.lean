import OrdModel.Proofs.IndexLiftSatExactChain
/-
Sat-side lift, part 9 (block invariants used by C02's rare-sat clause and by C03):

* `NullLen st`: the sat ranges stored under the null outpoint add up to the LostSats statistic
  (`rangesValue (null entry) = lostSats`), in every reachable state (sat index on) of a chain in
  which no transaction but a block's first spends a special outpoint and no txid is zero;
* the FIFO equation of `indexTransactionSats` read pointwise (`fifo_pointwise`): the sat at
  input-concatenation offset `k` ends up at offset `k − prefix` of the output whose value interval
  contains `k`, or at offset `k − Σ outputs` of the leftover.
-/
namespace Ord.Index
open Outcome Ord.Index.Sched

/-- ranges stored under an outpoint (none: no ranges) -/
def rangesAt (tbl : List (OutPoint × UtxoEntry)) (op : OutPoint) : Ranges :=
  ((AL.get tbl op).map (·.ranges)).getD []

/-- `rangesValue (null entry) = lostSats` -/
def NullLen (st : State) : Prop := lenR (rangesAt st.utxo OutPoint.null) = st.lostSats

/-- what the chain must satisfy for `NullLen`: no zero txid, and only a block's first transaction
may name a special outpoint as an input -/
structure BlockPlain (blk : Block) : Prop where
  nonzero : ∀ tx ∈ blk.txs, tx.txid ≠ 0
  noSpecialSpend : ∀ tx ∈ blk.txs.drop 1, ∀ i ∈ tx.inputs, i.prev.isSpecial = false

theorem takeInputEntries_get_other (cfg : Cfg) (ins : List TxIn) (bc : BlockCtx) (acc : List (TxIn × UtxoEntry))
    (bc' : BlockCtx) (acc' : List (TxIn × UtxoEntry)) (op : OutPoint) (hne : ∀ i ∈ ins, i.prev ≠ op)
    (h : takeInputEntries cfg ins bc acc = .ok (bc', acc')) : AL.get bc'.st.utxo op = AL.get bc.st.utxo op := by
  induction ins generalizing bc acc with
  | nil =>
    simp only [takeInputEntries, Outcome.ok.injEq, Prod.mk.injEq] at h
    rw [← h.1]
  | cons i rest ih =>
    rw [takeInputEntries_cons] at h
    split at h
    · rename_i bc1 e h1
      rw [ih bc1 _ (fun i' hi' => hne i' (by simp [hi'])) h]
      rcases takeOne_cases cfg bc i bc1 e h1 with ⟨-, -, ht⟩ | ⟨-, -, -, ht⟩
      · rw [ht]
      · rw [ht]; exact AL.get_erase_ne _ (hne i (by simp))
    · cases h
    · cases h

theorem lostRare_snd (m : List (Nat × SatPoint)) (rs : Ranges) (lost : Nat) :
    (lostRare m rs lost).2 = lost + lenR rs := by
  induction rs generalizing m lost with
  | nil => simp [lostRare, lenR]
  | cons r rs ih =>
    obtain ⟨s, e⟩ := r
    simp only [lostRare, lenR]
    rw [ih]; omega

/-- the null entry and the LostSats statistic through the transactions of a block -/
theorem indexTxs_null (cfg : Cfg) (hs : cfg.indexSats = true) (blk : Block) (insOn : Bool) (l : List (Nat × Tx))
    (hsp : ∀ p ∈ l, p.1 ≠ 0 → ∀ i ∈ p.2.inputs, i.prev.isSpecial = false)
    (bc bc' : BlockCtx) (h : indexTxs cfg blk insOn l bc = .ok bc') :
    AL.get bc'.st.utxo OutPoint.null = AL.get bc.st.utxo OutPoint.null ∧ bc'.st.lostSats = bc.st.lostSats := by
  induction l generalizing bc with
  | nil => simp only [indexTxs, Outcome.ok.injEq] at h; subst h; exact ⟨rfl, rfl⟩
  | cons p l ih =>
    obtain ⟨i, tx⟩ := p
    simp only [indexTxs] at h
    split at h
    · cases h
    · cases h
    · rename_i bc1 h1
      obtain ⟨e1, e2⟩ := ih (fun p hp => hsp p (by simp [hp])) bc1 h
      have eff := indexTx_satEff cfg hs blk insOn i tx bc bc1 h1
      obtain ⟨bc0, inputs, outs, r, htake, -, -, -, hutxo, -⟩ := eff.ex
      refine ⟨e1.trans ?_, e2.trans eff.lostSats⟩
      rw [hutxo]
      by_cases hz : i = 0
      · simp only [hz, if_true] at htake; rw [htake.1]
      · simp only [hz, if_false] at htake
        apply takeInputEntries_get_other cfg _ _ _ _ _ _ _ htake
        intro i' hi' heq
        have := hsp (i, tx) (by simp) hz i' hi'
        rw [heq] at this
        exact absurd this (by decide)

/-- **one block keeps `rangesValue (null entry) = lostSats`** -/
theorem applyBlock_nullLen (cfg : Cfg) (hs : cfg.indexSats = true) (st : State) (blk : Block)
    (st' : State) (evs : List Event) (hb : BlockPlain blk) (inv : NullLen st)
    (h : applyBlock cfg st blk = .ok (st', evs)) : NullLen st' := by
  simp only [applyBlock, hs, Bool.or_true, if_true] at h
  split at h
  · cases h
  · cases h
  · rename_i st1 ev1 h1
    split at h
    · cases h
    · cases h
    · rename_i st2 ev2 hr
      simp only [Outcome.ok.injEq, Prod.mk.injEq] at h
      obtain ⟨rfl, -⟩ := h
      have hss : SatSame st1 st2 := by
        split at hr
        · exact indexRunesBlock_satSame _ _ _ hr
        · simp only [Outcome.ok.injEq, Prod.mk.injEq] at hr
          rw [← hr.1]; exact SatSame.refl _
      show lenR (rangesAt st2.utxo OutPoint.null) = st2.lostSats
      rw [hss.utxo, hss.lostSats]
      rw [indexUtxoEntries_eq] at h1
      split at h1
      · cases h1
      · cases h1
      · rename_i bc hbc
        simp only [Outcome.ok.injEq, Prod.mk.injEq] at h1
        obtain ⟨rfl, -⟩ := h1
        -- through the transactions
        have hspl : ∀ p ∈ blockOrder blk, p.1 ≠ 0 → ∀ i ∈ p.2.inputs, i.prev.isSpecial = false := by
          intro p hp h0 i hi
          cases htx : blk.txs with
          | nil => simp [blockOrder, htx, enumFrom] at hp
          | cons t ts =>
            have ho : blockOrder blk = enumFrom 1 ts ++ [(0, t)] := by simp [blockOrder, htx, enumFrom]
            rw [ho, List.mem_append] at hp
            rcases hp with hp | hp
            · have hm : p.2 ∈ ts := by
                have := List.mem_map_of_mem (f := (·.2)) hp
                rwa [enumFrom_map_snd] at this
              exact hb.noSpecialSpend p.2 (by rw [htx]; simpa using hm) i hi
            · simp only [List.mem_singleton] at hp
              subst hp; exact absurd rfl h0
        obtain ⟨en, el⟩ := indexTxs_null cfg hs blk _ _ hspl _ bc hbc
        have hn0 : NoRanges (bc0A cfg st blk).ins := by simp [NoRanges, bc0A]
        have hnr : NoRanges bc.ins := indexTxs_noRanges cfg hs blk _ _ _ bc hbc hn0
        -- the cache holds no special outpoint
        have hprov : ∀ op, AL.get bc.cache op ≠ none → op.isSpecial = false := by
          have key : ∀ (l : List (Nat × Tx)) (b b' : BlockCtx), (∀ p ∈ l, p.2.txid ≠ 0) →
              (∀ op, AL.get b.cache op ≠ none → op.isSpecial = false) →
              indexTxs cfg blk (insOnOf cfg blk) l b = .ok b' →
              ∀ op, AL.get b'.cache op ≠ none → op.isSpecial = false := by
            intro l
            induction l with
            | nil =>
              intro b b' _ hp hi
              simp only [indexTxs, Outcome.ok.injEq] at hi; subst hi; exact hp
            | cons p l ih =>
              intro b b' hz hp hi
              obtain ⟨i, tx⟩ := p
              simp only [indexTxs] at hi
              split at hi
              · cases hi
              · cases hi
              · rename_i b1 hi1
                refine ih b1 b' (fun p hp => hz p (by simp [hp])) ?_ hi
                obtain ⟨b0, inputs, outs, r, htake, -, -, hcache, -⟩ := (indexTx_satEff cfg hs blk _ i tx b b1 hi1).ex
                intro op hop
                rw [hcache] at hop
                rcases cacheIns_keys _ _ _ _ hop with h1 | h1
                · exact isSpecial_false_of_txid (by rw [h1]; exact hz (i, tx) (by simp))
                · by_cases hz0 : i = 0
                  · simp only [hz0, if_true] at htake; rw [htake.1] at h1; exact hp op h1
                  · simp only [hz0, if_false] at htake
                    exact hp op ((takeInputEntries_mono cfg _ _ _ _ _ htake).1 op h1)
          refine key _ _ bc ?_ (by intro op hop; simp [bc0A, AL.get] at hop) hbc
          intro p hp
          cases htx : blk.txs with
          | nil => simp [blockOrder, htx, enumFrom] at hp
          | cons t ts =>
            have ho : blockOrder blk = enumFrom 1 ts ++ [(0, t)] := by simp [blockOrder, htx, enumFrom]
            rw [ho, List.mem_append] at hp
            rcases hp with hp | hp
            · have hm : p.2 ∈ ts := by
                have := List.mem_map_of_mem (f := (·.2)) hp
                rwa [enumFrom_map_snd] at this
              exact hb.nonzero p.2 (by rw [htx]; simp [hm])
            · simp only [List.mem_singleton] at hp
              subst hp; exact hb.nonzero t (by rw [htx]; simp)
        have hnull : (OutPoint.null).isSpecial = true := by decide
        have hcn : AL.get bc.cache OutPoint.null = none := by
          apply Classical.byContradiction
          intro hcon
          have := hprov _ hcon
          rw [hnull] at this; cases this
        -- keys of the flushed cache are distinct: only needed for `get_flushCache_utxo`, which we
        -- avoid by flushing in two steps (cache first, special rows after)
        rw [flushCache_append]
        have hcache_null : ∀ (c : Cache) (s : State), AL.get c OutPoint.null = none →
            AL.get (flushCache cfg s c).utxo OutPoint.null = AL.get s.utxo OutPoint.null ∧
            (flushCache cfg s c).lostSats = s.lostSats := by
          intro c
          induction c with
          | nil => intro s _; exact ⟨rfl, rfl⟩
          | cons p c ih =>
            intro s hc
            obtain ⟨k, e⟩ := p
            simp only [AL.get] at hc
            have hk : (k == OutPoint.null) = false := by
              cases hkk : (k == OutPoint.null) with
              | false => rfl
              | true => simp [hkk] at hc
            simp only [hk, Bool.false_eq_true, if_false] at hc
            rw [flushCache_cons]
            obtain ⟨i1, i2⟩ := ih (flushEntry cfg s k e) hc
            refine ⟨i1.trans ?_, i2.trans ?_⟩
            · rw [flushEntry_utxo]; exact AL.get_set_ne _ _ (by simpa using hk)
            · have h0 := congrArg State.lostSats (flushEntry_core cfg s k e)
              exact h0
        obtain ⟨f1, f2⟩ := hcache_null bc.cache (endState cfg blk (insOnOf cfg blk) bc).1 hcn
        obtain ⟨hu3, -⟩ := endState_utxo_height cfg blk (insOnOf cfg blk) bc
        rw [hu3, en] at f1
        -- the special rows
        have hr := endState_null_ranges cfg blk (insOnOf cfg blk) bc hnr
        have hlost : (endState cfg blk (insOnOf cfg blk) bc).1.lostSats = st.lostSats + lenR bc.lostRanges := by
          unfold endState
          cases hE : bc.lostRanges.isEmpty
          · simp only [Bool.false_eq_true, if_false, hs, if_true, lostRare_snd]
            cases insOnOf cfg blk <;> simp [el, bc0A]
          · have hl : bc.lostRanges = [] := List.isEmpty_iff.mp hE
            simp only [if_true, hs, hl, lenR]
            cases insOnOf cfg blk <;> simp [el, bc0A]
        generalize hF : flushCache cfg (endState cfg blk (insOnOf cfg blk) bc).1 bc.cache = F at f1 f2 ⊢
        have hFl : F.lostSats = st.lostSats + lenR bc.lostRanges := f2.trans hlost
        -- flushing `specialOf n u` into `F`
        have hsp : ∀ (n u : Option UtxoEntry),
            rangesAt (flushCache cfg F (specialOf n u)).utxo OutPoint.null =
              rangesAt F.utxo OutPoint.null ++ (n.map (·.ranges)).getD [] ∧
            (flushCache cfg F (specialOf n u)).lostSats = F.lostSats := by
          intro n u
          have hne : OutPoint.unbound ≠ OutPoint.null := by decide
          have one : ∀ (s : State) (e : UtxoEntry),
              rangesAt (flushEntry cfg s OutPoint.null e).utxo OutPoint.null = rangesAt s.utxo OutPoint.null ++ e.ranges := by
            intro s e
            rw [flushEntry_utxo]
            unfold rangesAt
            rw [AL.get_set_self]
            unfold eff
            rw [if_pos hnull]
            cases AL.get s.utxo OutPoint.null with
            | none => simp
            | some old => simp [UtxoEntry.merged]
          have other : ∀ (s : State) (e : UtxoEntry),
              rangesAt (flushEntry cfg s OutPoint.unbound e).utxo OutPoint.null = rangesAt s.utxo OutPoint.null := by
            intro s e
            rw [flushEntry_utxo]
            unfold rangesAt
            rw [AL.get_set_ne _ _ hne]
          have lostE : ∀ (s : State) (k : OutPoint) (e : UtxoEntry), (flushEntry cfg s k e).lostSats = s.lostSats := by
            intro s k e
            have h0 := congrArg State.lostSats (flushEntry_core cfg s k e)
            exact h0
          cases n <;> cases u <;> simp only [specialOf, List.nil_append, List.cons_append, flushCache_cons,
            flushCache_nil, Option.map_none, Option.map_some, Option.getD_none, Option.getD_some, List.append_nil]
          · exact ⟨trivial, trivial⟩
          · exact ⟨other _ _, lostE _ _ _⟩
          · exact ⟨one _ _, lostE _ _ _⟩
          · exact ⟨(other _ _).trans (one _ _), (lostE _ _ _).trans (lostE _ _ _)⟩
        obtain ⟨g1, g2⟩ := hsp (endState cfg blk (insOnOf cfg blk) bc).2 bc.ins.unboundEntry
        show lenR (rangesAt (flushCache cfg F _).utxo OutPoint.null) = (flushCache cfg F _).lostSats
        rw [g1, g2, hFl, hr, lenR_append]
        have : rangesAt F.utxo OutPoint.null = rangesAt st.utxo OutPoint.null := by
          unfold rangesAt; rw [f1]; rfl
        rw [this, inv]

/-! ### the FIFO equation, pointwise -/

theorem getElem?_take_drop (l : List Nat) (v k : Nat) :
    (k < v → (l.take v)[k]? = l[k]?) ∧ ((l.drop v)[k]? = l[v + k]?) := by
  constructor
  · intro h; rw [List.getElem?_take]; simp [h]
  · rw [List.getElem?_drop]

/-- `Bip.assignOutputs` pointwise: ordinal number `k` of the inputs goes to the output whose
value interval contains `k`, at offset `k − (sum of the earlier values)` … -/
theorem assignOutputs_pointwise (values : List Nat) (ords : List Nat) (j : Nat) (k : Nat)
    (hj : j < values.length) (hk : k < values[j]) :
    ((Bip.assignOutputs values ords).1[j]?.getD [])[k]? = ords[(values.take j).sum + k]? := by
  induction values generalizing ords j with
  | nil => simp at hj
  | cons v vs ih =>
    cases j with
    | zero =>
      simp only [Bip.assignOutputs, List.getElem?_cons_zero, Option.getD_some, List.take_zero, List.sum_nil,
        Nat.zero_add]
      simp only [List.getElem_cons_zero] at hk
      exact (getElem?_take_drop ords v k).1 hk
    | succ j =>
      simp only [Bip.assignOutputs, List.getElem?_cons_succ, List.take_succ_cons, List.sum_cons]
      simp only [List.length_cons, Nat.add_lt_add_iff_right] at hj
      simp only [List.getElem_cons_succ] at hk
      rw [ih (ords.drop v) j hj hk, (getElem?_take_drop ords v _).2, Nat.add_assoc]

/-- … and what lies at or beyond the total output value goes to the leftover, at
`k − Σ values` -/
theorem assignOutputs_leftover (values : List Nat) (ords : List Nat) (k : Nat) :
    (Bip.assignOutputs values ords).2[k]? = ords[values.sum + k]? := by
  induction values generalizing ords with
  | nil => simp [Bip.assignOutputs]
  | cons v vs ih =>
    simp only [Bip.assignOutputs, List.sum_cons]
    rw [ih, (getElem?_take_drop ords v _).2, Nat.add_assoc]

/-- **FIFO, pointwise** for `index_transaction_sats` on sat ranges -/
theorem fifo_pointwise (values : List Nat) (inputs : Ranges) (t : TxSats)
    (h : indexTransactionSats values inputs = some t) :
    (∀ j k, (hj : j < values.length) → k < values[j] →
      (den (t.outputs[j]?.getD []))[k]? = (den inputs)[(values.take j).sum + k]?) ∧
    (∀ k, (den t.leftover)[k]? = (den inputs)[values.sum + k]?) := by
  have hb := tx_matches_bip values inputs t h
  rw [Bip.assignTx] at hb
  have h1 : t.outputs.map den = (Bip.assignOutputs values (den inputs)).1 := congrArg Prod.fst hb
  have h2 : den t.leftover = (Bip.assignOutputs values (den inputs)).2 := congrArg Prod.snd hb
  refine ⟨fun j k hj hk => ?_, fun k => by rw [h2]; exact assignOutputs_leftover values (den inputs) k⟩
  have := assignOutputs_pointwise values (den inputs) j k hj hk
  rw [← h1] at this
  rw [← this, List.getElem?_map]
  cases t.outputs[j]? <;> simp

end Ord.Index
