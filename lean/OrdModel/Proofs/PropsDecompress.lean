import OrdModel.Codec.Decompress
/-! Lemmas about the bounded decompression loop (C28 clause 4). -/
namespace Ord.Props
open Ord Ord.Cbor

/-- loop invariant: the accumulator never exceeds `max` -/
theorem decompressLoop_le (max : Nat) : ∀ (stream : List ReadResult) (acc out : Bytes),
    acc.length ≤ max → decompressLoop max stream acc = some out → out.length ≤ max := by
  intro stream
  induction stream with
  | nil => intro acc out h e; simp [decompressLoop] at e; subst e; exact h
  | cons r rest ih =>
    intro acc out h e
    cases r with
    | err => simp [decompressLoop] at e
    | data chunk =>
      simp only [decompressLoop] at e
      split at e
      · simp at e; subst e; exact h
      · split at e
        · cases e
        · exact ih (acc ++ chunk) out (by simp; omega) e

/-- what an accepted run returns: the accumulator followed by the chunks read before the first
empty read, in order -/
theorem decompressLoop_prefix (max : Nat) : ∀ (stream : List ReadResult) (acc out : Bytes),
    decompressLoop max stream acc = some out → ∃ tail, out = acc ++ tail := by
  intro stream
  induction stream with
  | nil => intro acc out e; simp [decompressLoop] at e; exact ⟨[], by simp [e]⟩
  | cons r rest ih =>
    intro acc out e
    cases r with
    | err => simp [decompressLoop] at e
    | data chunk =>
      simp only [decompressLoop] at e
      split at e
      · simp at e; exact ⟨[], by simp [e]⟩
      · split at e
        · cases e
        · obtain ⟨t, ht⟩ := ih _ _ e
          exact ⟨chunk ++ t, by simp [ht]⟩

theorem decompressMax_le (n : Nat) :
    decompressMax n ≤ min (MAX_PROPERTIES_COMPRESSION_RATIO * n) MAX_COMPRESSED_PROPERTIES_SIZE := by
  unfold decompressMax sat64 MAX_PROPERTIES_COMPRESSION_RATIO MAX_COMPRESSED_PROPERTIES_SIZE
  split <;> omega

def sizes : List ReadResult → List (Option Nat)
  | [] => []
  | .err :: r => none :: sizes r
  | .data c :: r => some c.length :: sizes r

/-- the length-only loop run by the driver computes the length of the real loop's result -/
theorem decompressLen_spec (max : Nat) : ∀ (stream : List ReadResult) (acc : Bytes),
    decompressLen max (sizes stream) acc.length = (decompressLoop max stream acc).map List.length := by
  intro stream
  induction stream with
  | nil => intro acc; simp [sizes, decompressLen, decompressLoop]
  | cons r rest ih =>
    intro acc
    cases r with
    | err => simp [sizes, decompressLen, decompressLoop]
    | data chunk =>
      simp only [sizes, decompressLen, decompressLoop]
      split
      · simp
      · split
        · simp
        · have := ih (acc ++ chunk)
          simpa using this

/-- a stream whose chunks are the pieces of `data` (each non-empty, each at most… any size) and
which then reports end of stream is accepted iff `data` fits -/
theorem decompressLoop_chunks (max : Nat) : ∀ (chunks : List Bytes) (acc : Bytes),
    (∀ c ∈ chunks, c ≠ []) → acc.length + chunks.flatten.length ≤ max →
    decompressLoop max (chunks.map .data ++ [.data []]) acc = some (acc ++ chunks.flatten) := by
  intro chunks
  induction chunks with
  | nil => intro acc _ _; simp [decompressLoop]
  | cons c cs ih =>
    intro acc hne hlen
    have hc : c ≠ [] := hne c (by simp)
    have hc' : c.length ≠ 0 := by
      intro h; exact hc (List.eq_nil_of_length_eq_zero h)
    simp only [List.map_cons, List.cons_append, decompressLoop]
    simp only [List.flatten_cons, List.length_append] at hlen
    rw [if_neg hc', if_neg (by omega)]
    rw [ih (acc ++ c) (fun x hx => hne x (by simp [hx])) (by simp only [List.length_append]; omega)]
    simp

/-- …and rejected when it does not fit -/
theorem decompressLoop_chunks_reject (max : Nat) : ∀ (chunks : List Bytes) (acc : Bytes),
    (∀ c ∈ chunks, c ≠ []) → acc.length ≤ max → acc.length + chunks.flatten.length > max →
    decompressLoop max (chunks.map .data ++ [.data []]) acc = none := by
  intro chunks
  induction chunks with
  | nil => intro acc _ h1 h2; simp at h2; omega
  | cons c cs ih =>
    intro acc hne hacc hlen
    have hc : c ≠ [] := hne c (by simp)
    have hc' : c.length ≠ 0 := by
      intro h; exact hc (List.eq_nil_of_length_eq_zero h)
    simp only [List.map_cons, List.cons_append, decompressLoop]
    simp only [List.flatten_cons, List.length_append] at hlen
    rw [if_neg hc']
    split
    · rfl
    · exact ih (acc ++ c) (fun x hx => hne x (by simp [hx])) (by simp only [List.length_append]; omega) (by simp only [List.length_append]; omega)

end Ord.Props
