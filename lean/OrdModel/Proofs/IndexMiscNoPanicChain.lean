import OrdModel.Proofs.IndexMiscNoPanic
/-
C16, part 2: from `validChain` to the stateless per-transaction facts, and the chain-level
statement for configurations in which only the rune index is on.
-/
namespace Ord.Index
open Outcome

/-! ### what `validChain` gives for every transaction, without any state -/

theorem runeSafe_of_wellFormed_nodeAnswers (height : Nat) (tx : Tx)
    (hw : Valid.txWellFormed tx = true) (hn : Valid.nodeAnswers height tx = true) : RuneSafe height tx := by
  simp only [Valid.txWellFormed, Bool.and_eq_true] at hw
  refine ⟨?_, hw.1.1.2, hw.1.2⟩
  intro i hi
  right
  simp only [Valid.nodeAnswers, List.all_eq_true] at hn
  have := hn i hi
  split at this
  · rename_i h heq
    exact ⟨h, heq, by simpa using this⟩
  · cases this

theorem runeSafe_of_coinbase (height : Nat) (cb : Tx)
    (hs : Valid.coinbaseShape cb = true) (hw : Valid.txWellFormed cb = true) : RuneSafe height cb := by
  simp only [Valid.txWellFormed, Bool.and_eq_true] at hw
  refine ⟨?_, hw.1.1.2, hw.1.2⟩
  intro i hi
  left
  unfold Valid.coinbaseShape at hs
  split at hs
  · rename_i j hj
    rw [hj] at hi
    simp only [List.mem_singleton] at hi
    subst hi
    simp only [Bool.and_eq_true, List.isEmpty_iff] at hs
    exact hs.2
  · cases hs

theorem checkTxs_runeSafe (height : Nat) (txs : List Tx) (u : Valid.Utxos) (fees : Nat) (r : Valid.Utxos × Nat)
    (h : Valid.checkTxs height txs u fees = some r) : ∀ tx ∈ txs, RuneSafe height tx := by
  induction txs generalizing u fees with
  | nil => intro tx htx; cases htx
  | cons t rest ih =>
    simp only [Valid.checkTxs] at h
    split at h
    · cases h
    · rename_i u' fee hct
      intro tx htx
      rcases List.mem_cons.1 htx with rfl | hmem
      · unfold Valid.checkTx at hct
        split at hct
        · cases hct
        · simp only at hct
          split at hct
          · rename_i hc
            simp only [Bool.and_eq_true] at hc
            exact runeSafe_of_wellFormed_nodeAnswers height tx hc.1.1.1 hc.1.1.2
          · cases hct
      · exact ih u' (fees + fee) h tx hmem

/-- everything `checkBlock` checked, in one place -/
theorem checkBlock_facts (st st' : Valid.VState) (blk : Block) (h : Valid.checkBlock st blk = some st') :
    ∃ cb rest txids u fees, blk.txs = cb :: rest ∧ blk.height = st.height ∧
      blk.txs.length ≤ Valid.maxBlockTxs ∧
      Valid.coinbaseShape cb = true ∧ Valid.txWellFormed cb = true ∧
      Valid.freshTxids st.txids (blk.txs.map (·.txid)) = some txids ∧
      Valid.checkTxs blk.height rest st.utxos 0 = some (u, fees) ∧
      st'.height = st.height + 1 ∧ st'.txids = txids := by
  unfold Valid.checkBlock at h
  split at h
  · cases h
  · rename_i cb rest hb
    split at h
    · cases h
    · rename_i hheight
      split at h
      · cases h
      · rename_i hlen
        split at h
        · cases h
        · rename_i hcb
          split at h
          · cases h
          · rename_i txids hfresh
            split at h
            · cases h
            · rename_i u fees hct
              simp only [] at h
              split at h
              · simp only [Option.some.injEq] at h
                subst h
                have hcb' : (Valid.coinbaseShape cb && Valid.txWellFormed cb) = true := by
                  cases hx : (Valid.coinbaseShape cb && Valid.txWellFormed cb) <;> simp_all
                simp only [Bool.and_eq_true] at hcb'
                refine ⟨cb, rest, txids, u, fees, hb, ?_, ?_, hcb'.1, hcb'.2, hfresh, hct, rfl, rfl⟩
                · simpa using hheight
                · simpa using hlen
              · cases h

theorem checkBlock_runeSafe (st st' : Valid.VState) (blk : Block) (h : Valid.checkBlock st blk = some st') :
    ∀ tx ∈ blk.txs, RuneSafe blk.height tx := by
  obtain ⟨cb, rest, txids, u, fees, hb, _, _, hshape, hwf, _, hct, _, _⟩ := checkBlock_facts st st' blk h
  intro tx htx
  rw [hb] at htx
  rcases List.mem_cons.1 htx with rfl | hmem
  · exact runeSafe_of_coinbase blk.height tx hshape hwf
  · exact checkTxs_runeSafe blk.height rest st.utxos 0 _ hct tx hmem

theorem checkChain_runeSafe (chain : List Block) (st st' : Valid.VState) (h : Valid.checkChain chain st = some st') :
    ∀ b ∈ chain, ∀ tx ∈ b.txs, RuneSafe b.height tx := by
  induction chain generalizing st with
  | nil => intro b hb; cases hb
  | cons b bs ih =>
    simp only [Valid.checkChain] at h
    split at h
    · cases h
    · rename_i st1 hb1
      intro b' hb'
      rcases List.mem_cons.1 hb' with rfl | hmem
      · exact checkBlock_runeSafe st st1 b' hb1
      · exact ih st1 h b' hmem

theorem validChain_runeSafe (chain : List Block) (h : Valid.validChain chain = true) :
    ∀ b ∈ chain, ∀ tx ∈ b.txs, RuneSafe b.height tx := by
  unfold Valid.validChain at h
  cases hc : Valid.checkChain chain {} with
  | none => rw [hc] at h; cases h
  | some st' => exact checkChain_runeSafe chain {} st' hc

/-! ### the chain-level statement with only the rune index on -/

/-- only the rune index may be on -/
def Cfg.runesOnly (cfg : Cfg) : Prop :=
  cfg.indexInscriptions = false ∧ cfg.indexAddresses = false ∧ cfg.indexSats = false

theorem applyBlock_runesOnly_within (cfg : Cfg) (hcfg : cfg.runesOnly) (st : State) (blk : Block)
    (h : ∀ tx ∈ blk.txs, RuneSafe blk.height tx) : Within R (applyBlock cfg st blk) := by
  obtain ⟨hI, hA, hS⟩ := hcfg
  have h1 : Within R (if (cfg.indexRunes && decide (blk.height ≥ cfg.firstRuneHeight)) = true then indexRunesBlock st blk
      else .ok (st, [])) := by
    split
    · exact indexRunesBlock_within st blk h
    · trivial
  unfold applyBlock
  simp only [hI, hA, hS, Bool.or_self, Bool.false_eq_true, if_false]
  split
  · rename_i heq; exact h1.panic_mem heq
  · rename_i heq; exact h1.not_err heq
  · trivial

theorem runFrom_runesOnly_within (cfg : Cfg) (hcfg : cfg.runesOnly) (chain : List Block) (st : State)
    (h : ∀ b ∈ chain, ∀ tx ∈ b.txs, RuneSafe b.height tx) : Within R (runFrom cfg st chain) := by
  induction chain generalizing st with
  | nil => simp [runFrom, WithinP]
  | cons b bs ih =>
    have h1 := applyBlock_runesOnly_within cfg hcfg st b (h b List.mem_cons_self)
    simp only [runFrom]
    split
    · rename_i heq; exact h1.panic_mem heq
    · rename_i heq; exact h1.not_err heq
    · rename_i st1 ev1 _
      have h2 := ih st1 (fun b' hb' => h b' (List.mem_cons_of_mem _ hb'))
      split
      · rename_i heq; exact h2.panic_mem heq
      · rename_i heq; exact h2.not_err heq
      · trivial

end Ord.Index
