import OrdModel.Index.Projection
/-
C15 witness chains (evaluated by the kernel in Theorems/C15.lean; replayed on the real indexer,
on signet, by the `signet` stream of `eng_flagsx`: corpus/C15/signet.s1.txt, signet.s2.txt).

W1 (first inscription height 2): block 1's coinbase claims 1000 sats less than the subsidy;
block 2 inscribes; block 3 spends the inscribed output entirely to fees and its coinbase claims
the subsidy only, so the inscription falls past the coinbase outputs and is lost.  It is put at
`null:(lost_sats + 0)`: `lost_sats` is 1000 with the sat index (the lost sat *ranges* of block 1
were counted) and 0 without (the inscription updater's counter only advances in blocks where
inscriptions are indexed).

W2 (first inscription height 2, first rune height 0): block 1 etches a reserved rune.  A
configuration without sat and address index fetches only the header of block 1
(`first_index_height = first_inscription_height`), so the rune exists only with those indexes.
-/
namespace Ord.Index
open Outcome

/-- inscriptions on, runes off, first inscription height 2 -/
def w1Cfg (sats : Bool) : Cfg := ⟨sats, false, false, true, false, 2, 0, 0⟩

def cbTx (txid : Nat) (value : Nat) : Tx :=
  ⟨txid, [⟨OutPoint.null, false, none, []⟩], [⟨value, false, []⟩], [], none, 0⟩

/-- a plain envelope on input 0 -/
def plainEnvelope : Envelope := ⟨0, 0, false, false, false, false, false, false, false, false, none, []⟩

def w1Chain : List Block :=
  [⟨0, 0, 100, 0, [cbTx 1 5000000000]⟩,
   ⟨1, 0, 101, 0, [cbTx 2 4999999000]⟩,
   ⟨2, 0, 102, 0, [cbTx 3 5000000000,
      ⟨4, [⟨⟨1, 0⟩, false, some 0, []⟩], [⟨5000000000, false, []⟩], [plainEnvelope], none, 0⟩]⟩,
   ⟨3, 0, 103, 0, [cbTx 5 5000000000,
      ⟨6, [⟨⟨4, 0⟩, false, some 2, []⟩], [], [], none, 0⟩]⟩]

def stateAfter' (r : Outcome (State × List Event)) : Option State :=
  match r with
  | .ok (st, _) => some st
  | _ => none

/-- inscriptions and runes on, first inscription height 2, first rune height 0 -/
def w2Cfg (sats addr : Bool) : Cfg := ⟨sats, addr, false, true, true, 2, 0, 0⟩

/-- an etching without a rune name (reserved rune, no commitment needed), premine 1000 -/
def reservedEtching : Artifact :=
  .runestone [] (some ⟨none, some 1000, none, none, none, none, false⟩) none none

def w2Chain : List Block :=
  [⟨0, 0, 100, 0, [cbTx 1 5000000000]⟩,
   ⟨1, 0, 101, 0, [cbTx 2 5000000000,
      ⟨7, [⟨⟨1, 0⟩, false, some 0, []⟩], [⟨5000000000, false, []⟩, ⟨0, true, []⟩], [], some reservedEtching, 0⟩]⟩,
   ⟨2, 0, 102, 0, [cbTx 3 5000000000]⟩]

end Ord.Index
