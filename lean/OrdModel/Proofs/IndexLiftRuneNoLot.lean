import OrdModel.Proofs.IndexLiftRuneSupplyTx
/-
Rune lift, part 3a: under a bound on what each rune has unallocated in a transaction, none of
the `Lot` panic branches of the rune updater fires (function level).

`lotSites` = the three panic strings of the model whose safety is supply conservation
(= `runeResidualSites` of C16): `addLot` overflow, `flushBurned`'s `checked_add` and its
`id_to_entry.get(..).unwrap()`.  `NoLot o` = "if `o` is a panic, it is not one of those".
Functions whose only failure is `addLot` are shown to SUCCEED (`…_total`); functions with other
assert / index panics are shown `NoLot`.
-/
namespace Ord.Index.RuneLift
open Ord.Index Ord.Index.Spec Ord.Index.RS Ord.Index.Oracle Ord.Outcome

/-- the `Lot` / burn-flush panic sites (C16's `runeResidualSites`) -/
def lotSites : List String := [
  "lot overflow",
  "entry.burned.checked_add(burned).unwrap()",
  "id_to_entry.get(rune_id).unwrap()"]

def NoLot {α : Type} (o : Outcome α) : Prop := ∀ s, o = .panic s → s ∉ lotSites

theorem noLot_ok {α : Type} (a : α) : NoLot (.ok a) := fun _ h => by cases h
theorem noLot_err {α : Type} (e : String) : NoLot (.err e : Outcome α) := fun _ h => by cases h
theorem noLot_str {α : Type} {s : String} (h : s ∉ lotSites) : NoLot (.panic s : Outcome α) :=
  fun s' h' => by cases h'; exact h
theorem noLot_of_eq_ok {α : Type} {o : Outcome α} {a : α} (h : o = .ok a) : NoLot o := h ▸ noLot_ok a

/-! ### `addLot` and the functions that can only fail there -/

theorem addLot_total {m : Balances} {id : RuneId} {a : Nat} (h : lk m id + a < U128) :
    addLot m id a = .ok (AL.set m id (lk m id + a)) := by
  unfold addLot
  simp only
  have : (AL.get m id).getD 0 = lk m id := rfl
  rw [this, if_pos h]

theorem lk_cons' (id : RuneId) (b : Nat) (rest : Balances) (r : RuneId) :
    lk ((id, b) :: rest) r = if id = r then b else lk rest r := by
  unfold lk
  by_cases h : id = r
  · subst h; simp [AL.get]
  · have : (id == r) = false := by simpa using h
    simp [AL.get, this, h]

theorem addAll_total : ∀ (bs un : Balances), (keys un).Nodup → (∀ r, lk un r + rowSum bs r < U128) →
    ∃ un', takeInputs.addAll bs un = .ok un' := by
  intro bs
  induction bs with
  | nil => intro un _ _; exact ⟨un, rfl⟩
  | cons p more ih =>
    intro un hn hb
    obtain ⟨id, b⟩ := p
    have h1 : lk un id + b < U128 := by
      have := hb id
      simp only [rowSum, if_true] at this
      omega
    simp only [takeInputs.addAll, addLot_total h1]
    apply ih _ (nodup_set _ _ _ hn)
    intro r
    rw [lk_set]
    have := hb r
    simp only [rowSum] at this
    by_cases hr : id = r
    · subst hr; simp only [if_true] at this ⊢; omega
    · simp only [hr, if_false] at this ⊢; omega

theorem takeInputs_total : ∀ (ins : List TxIn) (st : State) (un : Balances), (keys un).Nodup →
    (∀ r, lk un r + inputRunes st.balances ins r < U128) →
    ∃ res, takeInputs ins st un = .ok res := by
  intro ins
  induction ins with
  | nil => intro st un _ _; exact ⟨(st, un), rfl⟩
  | cons i rest ih =>
    intro st un hn hb
    simp only [takeInputs]
    cases hg : AL.get st.balances i.prev with
    | none =>
      simp only
      apply ih st un hn
      intro r
      have := hb r
      simpa [inputRunes, hg] using this
    | some bs =>
      simp only
      have hb' : ∀ r, lk un r + rowSum bs r + inputRunes (AL.erase st.balances i.prev) rest r < U128 := by
        intro r
        have := hb r
        simp only [inputRunes, hg] at this
        omega
      obtain ⟨un1, h1⟩ := addAll_total bs un hn (fun r => by have := hb' r; omega)
      rw [h1]
      simp only
      obtain ⟨hn1, hl1⟩ := addAll_spec bs un un1 h1 hn
      apply ih _ un1 hn1
      intro r
      rw [hl1 r]
      exact hb' r

theorem addAllTo_total : ∀ (src acc : Balances) (skip : Bool), (keys src).Nodup → (keys acc).Nodup →
    (∀ r, lk acc r + lk src r < U128) → ∃ acc', addAllTo src acc skip = .ok acc' := by
  intro src
  induction src with
  | nil => intro acc skip _ _ _; exact ⟨acc, rfl⟩
  | cons p rest ih =>
    intro acc skip hs ha hb
    obtain ⟨id, b⟩ := p
    simp only [keys_cons, List.nodup_cons] at hs
    have hz : lk rest id = 0 := lk_eq_zero_of_get_none ((get_eq_none_iff rest id).2 hs.1)
    simp only [addAllTo]
    split
    · apply ih acc skip hs.2 ha
      intro r
      have := hb r
      rw [lk_cons'] at this
      by_cases hr : id = r
      · subst hr; rw [hz]; omega
      · simp only [hr, if_false] at this; exact this
    · have h1 : lk acc id + b < U128 := by
        have := hb id
        rw [lk_cons'] at this
        simpa using this
      rw [addLot_total h1]
      simp only
      apply ih _ skip hs.2 (nodup_set _ _ _ ha)
      intro r
      rw [lk_set]
      have := hb r
      rw [lk_cons'] at this
      by_cases hr : id = r
      · subst hr; simp only [if_true] at this ⊢; rw [hz]; omega
      · simp only [hr, if_false] at this ⊢; exact this

/-- Σ over the per-output maps of rune `r` -/
def rowsTotal : List Balances → RuneId → Nat
  | [], _ => 0
  | bs :: rest, r => lk bs r + rowsTotal rest r

theorem sumFrom_shift (g : Nat → Nat) : ∀ (len i : Nat),
    sumFrom (fun v => g (v + 1)) i len = sumFrom g (i + 1) len := by
  intro len
  induction len with
  | zero => intro i; rfl
  | succ n ih => intro i; simp only [sumFrom, ih]

theorem rowsTotal_eq : ∀ (alloc : Allocated) (r : RuneId),
    rowsTotal alloc r = sumFrom (fun v => lk (rowAt alloc v) r) 0 alloc.length := by
  intro alloc
  induction alloc with
  | nil => intro r; rfl
  | cons b rest ih =>
    intro r
    simp only [rowsTotal, List.length_cons, sumFrom]
    rw [ih r]
    have : (fun v => lk (rowAt (b :: rest) (v + 1)) r) = fun v => lk (rowAt rest v) r := by
      funext v; simp [rowAt]
    rw [← sumFrom_shift (fun v => lk (rowAt (b :: rest) v) r), this]
    simp [rowAt]

theorem burnFrom_le (tx : Tx) (r : RuneId) : ∀ (rows : List Balances) (j : Nat),
    burnFrom tx r j rows ≤ rowsTotal rows r := by
  intro rows
  induction rows with
  | nil => intro j; simp [burnFrom, rowsTotal]
  | cons b rest ih =>
    intro j
    simp only [burnFrom, rowsTotal]
    have := ih (j + 1)
    split <;> omega

theorem writeOutputs_total (blk : Block) (tx : Tx) : ∀ (rows : List Balances) (j : Nat) (st : State)
    (burned : Balances) (evs : List Event),
    (keys burned).Nodup → (∀ bs ∈ rows, (keys bs).Nodup) →
    (∀ r, lk burned r + rowsTotal rows r < U128) →
    ∃ res, writeOutputs blk tx (enumFrom j rows) st burned evs = .ok res := by
  intro rows
  induction rows with
  | nil => intro j st burned evs _ _ _; exact ⟨_, rfl⟩
  | cons b rest ih =>
    intro j st burned evs hn hrows hb
    have hbn : (keys b).Nodup := hrows b List.mem_cons_self
    have hrest : ∀ bs ∈ rest, (keys bs).Nodup := fun bs hm => hrows bs (List.mem_cons_of_mem _ hm)
    have hb' : ∀ r, lk burned r + rowsTotal rest r < U128 := by
      intro r; have := hb r; simp only [rowsTotal] at this; omega
    simp only [enumFrom, writeOutputs]
    by_cases hemp : b.isEmpty = true
    · rw [if_pos hemp]; exact ih (j + 1) st burned evs hn hrest hb'
    · rw [if_neg hemp]
      have hburn : ∃ res, (match addAllTo b burned false with
          | .ok burned' => writeOutputs blk tx (enumFrom (j + 1) rest) st burned' evs
          | .panic s => .panic s
          | .err e => .err e) = .ok res := by
        obtain ⟨burned1, h1⟩ := addAllTo_total b burned false hbn hn (fun r => by
          have := hb r; simp only [rowsTotal] at this; omega)
        rw [h1]
        simp only
        obtain ⟨hn1, hl1⟩ := addAllTo_spec b burned burned1 false hbn hn h1
        apply ih (j + 1) st burned1 evs hn1 hrest
        intro r
        rw [hl1 r]
        have := hb r; simp only [rowsTotal] at this; omega
      cases hout : tx.outputs[j]? with
      | none =>
        simp only [Bool.false_eq_true, if_false]
        exact ih (j + 1) _ burned _ hn hrest hb'
      | some o =>
        simp only
        by_cases ho : o.opReturn = true
        · rw [if_pos ho]; exact hburn
        · rw [if_neg ho]; exact ih (j + 1) _ burned _ hn hrest hb'

theorem flushBurned_total : ∀ (bb : Balances) (st : State), (keys bb).Nodup →
    (∀ id, id ∈ keys bb → ∃ e, AL.get st.runeEntries id = some e ∧ e.burned + lk bb id < U128) →
    ∃ st', flushBurned bb st = .ok st' := by
  intro bb
  induction bb with
  | nil => intro st _ _; exact ⟨st, rfl⟩
  | cons p rest ih =>
    intro st hn h
    obtain ⟨id, b⟩ := p
    simp only [keys_cons, List.nodup_cons] at hn
    obtain ⟨e, hg, hlt⟩ := h id (by simp)
    rw [lk_cons'] at hlt
    simp only [if_true] at hlt
    simp only [flushBurned, hg]
    rw [if_neg (by omega)]
    apply ih _ hn.2
    intro id2 hid2
    obtain ⟨e2, hg2, hlt2⟩ := h id2 (by simp [hid2])
    have hne : id ≠ id2 := fun e => hn.1 (e ▸ hid2)
    rw [lk_cons'] at hlt2
    simp only [hne, if_false] at hlt2
    refine ⟨e2, ?_, hlt2⟩
    show AL.get (AL.set st.runeEntries id _) id2 = some e2
    rw [get_set]
    have hb : (id == id2) = false := by simpa using hne
    rw [hb]; exact hg2

/-! ### the edict loop under a bound on every rune's total -/

/-- the maps are well formed, have one row per output, and every rune's unallocated + allocated
units stay below 2^128 -/
def TB (n : Nat) (un : Balances) (alloc : Allocated) : Prop :=
  Good un alloc ∧ alloc.length = n ∧ ∀ r, (absFlow un alloc r).total n < U128

theorem allocate_TB {n : Nat} {un : Balances} {alloc : Allocated} {id : RuneId} {amount output : Nat}
    (h : TB n un alloc) :
    NoLot (allocate un alloc id amount output) ∧
    ∀ un' alloc', allocate un alloc id amount output = .ok (un', alloc') → TB n un' alloc' := by
  obtain ⟨hg, hlen, hb⟩ := h
  by_cases hz : amount = 0
  · have : allocate un alloc id amount output = .ok (un, alloc) := by unfold allocate; rw [if_pos hz]
    rw [this]
    refine ⟨noLot_ok _, fun un' alloc' he => ?_⟩
    simp only [Outcome.ok.injEq, Prod.mk.injEq] at he
    obtain ⟨rfl, rfl⟩ := he
    exact ⟨hg, hlen, hb⟩
  · by_cases hbal : lk un id < amount
    · have : allocate un alloc id amount output = .panic "lot underflow" := by
        unfold allocate; rw [if_neg hz]; simp only
        have : (AL.get un id).getD 0 = lk un id := rfl
        rw [this, if_pos hbal]
      rw [this]
      exact ⟨noLot_str (by decide), fun _ _ he => by cases he⟩
    · cases hm : alloc[output]? with
      | none =>
        have : allocate un alloc id amount output = .panic "allocated[output]" := by
          unfold allocate; rw [if_neg hz]; simp only
          have : (AL.get un id).getD 0 = lk un id := rfl
          rw [this, if_neg hbal, hm]
        rw [this]
        exact ⟨noLot_str (by decide), fun _ _ he => by cases he⟩
      | some m =>
        have ho : output < alloc.length := by
          rcases Nat.lt_or_ge output alloc.length with h1 | h1
          · exact h1
          · rw [List.getElem?_eq_none h1] at hm; exact absurd hm (by simp)
        have hrow : rowAt alloc output = m := by simp [rowAt, hm]
        have hlt : lk m id + amount < U128 := by
          have h1 := hb id
          have h2 := sumFrom_ge (fun v => lk (rowAt alloc v) id) n 0 output (Nat.zero_le _) (by omega)
          simp only [Flow.total, absFlow] at h1
          rw [hrow] at h2
          omega
        have hres : allocate un alloc id amount output =
            .ok (AL.set un id (lk un id - amount), alloc.set output (AL.set m id (lk m id + amount))) := by
          unfold allocate; rw [if_neg hz]; simp only
          have : (AL.get un id).getD 0 = lk un id := rfl
          rw [this, if_neg hbal, hm]
          simp only [addLot_total hlt]
        refine ⟨noLot_of_eq_ok hres, fun un' alloc' he => ?_⟩
        obtain ⟨hg', hl', hf'⟩ := allocate_ok he ⟨hg.1, hg.2⟩
        refine ⟨hg', hl'.trans hlen, fun r => ?_⟩
        rw [hf' r]
        split
        · rename_i hr
          rw [give_total _ _ _ _ (by omega) (by show amount ≤ lk un r; rw [hr]; omega)]
          exact hb r
        · exact hb r

theorem allocateEach_TB {n : Nat} (id : RuneId) : ∀ (L : List (Nat × Nat)) (un : Balances) (alloc : Allocated),
    TB n un alloc →
    NoLot (allocateEach id L un alloc) ∧
    ∀ un' alloc', allocateEach id L un alloc = .ok (un', alloc') → TB n un' alloc' := by
  intro L
  induction L with
  | nil =>
    intro un alloc h
    refine ⟨noLot_ok _, fun un' alloc' he => ?_⟩
    simp only [allocateEach, Outcome.ok.injEq, Prod.mk.injEq] at he
    obtain ⟨rfl, rfl⟩ := he; exact h
  | cons p rest ih =>
    intro un alloc h
    obtain ⟨a, o⟩ := p
    obtain ⟨h1, h2⟩ := allocate_TB (id := id) (amount := a) (output := o) h
    simp only [allocateEach]
    cases hr : allocate un alloc id a o with
    | ok q =>
      obtain ⟨un1, alloc1⟩ := q
      simp only
      exact ih un1 alloc1 (h2 un1 alloc1 hr)
    | panic s =>
      simp only
      exact ⟨noLot_str (h1 s hr), fun _ _ he => by cases he⟩
    | err e => simp only; exact ⟨noLot_err _, fun _ _ he => by cases he⟩

theorem allocateCapped_TB {n : Nat} (id : RuneId) (amount : Nat) : ∀ (dests : List Nat) (un : Balances)
    (alloc : Allocated), TB n un alloc →
    NoLot (allocateCapped id amount dests un alloc) ∧
    ∀ un' alloc', allocateCapped id amount dests un alloc = .ok (un', alloc') → TB n un' alloc' := by
  intro dests
  induction dests with
  | nil =>
    intro un alloc h
    refine ⟨noLot_ok _, fun un' alloc' he => ?_⟩
    simp only [allocateCapped, Outcome.ok.injEq, Prod.mk.injEq] at he
    obtain ⟨rfl, rfl⟩ := he; exact h
  | cons v rest ih =>
    intro un alloc h
    obtain ⟨h1, h2⟩ := allocate_TB (id := id) (amount := min amount ((AL.get un id).getD 0)) (output := v) h
    simp only [allocateCapped]
    cases hr : allocate un alloc id (min amount ((AL.get un id).getD 0)) v with
    | ok q =>
      obtain ⟨un1, alloc1⟩ := q
      simp only
      exact ih un1 alloc1 (h2 un1 alloc1 hr)
    | panic s =>
      simp only
      exact ⟨noLot_str (h1 s hr), fun _ _ he => by cases he⟩
    | err e => simp only; exact ⟨noLot_err _, fun _ _ he => by cases he⟩

theorem applyEdict_TB {n : Nat} (tx : Tx) (etched : Option RuneId) (ed : Edict) (un : Balances) (alloc : Allocated)
    (h : TB n un alloc) :
    NoLot (applyEdict tx etched ed un alloc) ∧
    ∀ un' alloc', applyEdict tx etched ed un alloc = .ok (un', alloc') → TB n un' alloc' := by
  have hsame : ∀ un' alloc', (Outcome.ok (un, alloc) : Outcome (Balances × Allocated)) = .ok (un', alloc') → TB n un' alloc' := by
    intro un' alloc' he
    simp only [Outcome.ok.injEq, Prod.mk.injEq] at he
    obtain ⟨rfl, rfl⟩ := he; exact h
  unfold applyEdict
  simp only
  split
  · exact ⟨noLot_str (by decide), fun _ _ he => by cases he⟩
  · generalize (if ed.id == (⟨0, 0⟩ : RuneId) then etched else some ed.id) = idO
    split
    · exact ⟨noLot_ok _, hsame⟩
    · split
      · exact ⟨noLot_ok _, hsame⟩
      · split
        · split
          · exact ⟨noLot_ok _, hsame⟩
          · split
            · exact allocateEach_TB _ _ _ _ h
            · exact allocateCapped_TB _ _ _ _ _ h
        · exact allocate_TB h

theorem applyEdicts_TB {n : Nat} (tx : Tx) (etched : Option RuneId) : ∀ (edicts : List Edict) (un : Balances)
    (alloc : Allocated), TB n un alloc →
    NoLot (applyEdicts tx etched edicts un alloc) := by
  intro edicts
  induction edicts with
  | nil => intro un alloc _; exact noLot_ok _
  | cons ed rest ih =>
    intro un alloc h
    obtain ⟨h1, h2⟩ := applyEdict_TB tx etched ed un alloc h
    simp only [applyEdicts]
    cases hr : applyEdict tx etched ed un alloc with
    | ok q =>
      obtain ⟨un1, alloc1⟩ := q
      simp only
      exact ih un1 alloc1 (h2 un1 alloc1 hr)
    | panic s => simp only; exact noLot_str (h1 s hr)
    | err e => simp only; exact noLot_err _

/-! ### `etched` never panics at a `Lot` site -/

theorem txCommits_noLot (h rune : Nat) : ∀ (ins : List TxIn), NoLot (txCommitsToRune h rune ins) := by
  intro ins
  induction ins with
  | nil => exact noLot_ok _
  | cons i rest ih =>
    simp only [txCommitsToRune]
    repeat' split
    all_goals first
      | exact ih
      | exact noLot_ok _
      | exact noLot_str (by decide)

theorem etched_noLot (st : State) (blk : Block) (t : Nat) (tx : Tx) (art : Artifact) :
    NoLot (etched st blk t tx art) := by
  cases he : Runemint.etchingOf art with
  | none => rw [Runemint.etched_none st blk t tx art he]; exact noLot_ok _
  | some o =>
    cases o with
    | none => rw [Runemint.etched_unnamed st blk t tx art he]; exact noLot_ok _
    | some rune =>
      rw [Runemint.etched_named st blk t tx art rune he]
      split
      · exact noLot_ok _
      · have := txCommits_noLot blk.height rune tx.inputs
        cases hc : txCommitsToRune blk.height rune tx.inputs with
        | panic s => simp only; exact noLot_str (this s hc)
        | err e => simp only; exact noLot_err _
        | ok b => cases b <;> exact noLot_ok _

end Ord.Index.RuneLift
