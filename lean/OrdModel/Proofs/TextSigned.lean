import OrdModel.Proofs.TextDigits
import OrdModel.Proofs.TextOutgoing
/-! `str::parse::<iN>()`: an accepted string is a signed numeral whose value is in range. -/
namespace Ord.Text

theorem parseDigitsNeg_ok (w : Nat) (acc : Nat) (ds : List Char) (n : Nat)
    (h : parseDigitsNeg w acc ds = .ok n) :
    allDigits ds = true ∧ decFold acc ds = n ∧ (ds ≠ [] → n ≤ 2 ^ (w - 1)) := by
  induction ds generalizing acc with
  | nil => simp [parseDigitsNeg] at h; simp [allDigits, decFold, h]
  | cons c cs ih =>
    rw [parseDigitsNeg] at h
    rw [allDigits_cons, decFold_cons]
    by_cases hc : isDigit c = true
    · simp only [hc, if_true] at h
      by_cases hle : acc * 10 + digitVal c ≤ 2 ^ (w - 1)
      · simp only [hle, if_true] at h
        obtain ⟨h1, h2, h3⟩ := ih _ h
        refine ⟨by simp [hc, h1], h2, fun _ => ?_⟩
        by_cases hcs : cs = []
        · subst hcs; simp [decFold] at h2; omega
        · exact h3 hcs
      · simp [hle] at h
    · simp [hc] at h

theorem map_ok {α β : Type} {f : α → β} {x : Except IntErr α} {b : β} (h : x.map f = .ok b) :
    ∃ a, x = .ok a ∧ f a = b := by
  cases x with
  | error e => simp [Except.map] at h
  | ok a => simp [Except.map] at h; exact ⟨a, rfl, h⟩

/-- `s.parse::<iW>()` accepts only signed numerals and returns their value, which lies in
`[-2^(W-1), 2^(W-1))` -/
theorem parseSigned_ok (w : Nat) (s : List Char) (z : Int) (h : parseSigned w s = .ok z) :
    SignedNumeral s z ∧ -(2 : Int) ^ (w - 1) ≤ z ∧ z < (2 : Int) ^ (w - 1) := by
  unfold parseSigned at h
  match s, h with
  | [], h => cases h
  | c :: cs, h =>
    simp only at h
    by_cases h1 : cs = [] ∧ (c = '+' ∨ c = '-')
    · simp [h1] at h
    · simp only [h1, if_false] at h
      have hpow : ((2 ^ (w - 1) : Nat) : Int) = (2 : Int) ^ (w - 1) := by simp
      by_cases h2 : c = '+'
      · subst h2
        simp only [if_true] at h
        obtain ⟨n, hn, rfl⟩ := map_ok h
        have hof : Int.ofNat n = (n : Int) := rfl
        obtain ⟨ha, hv, hlt⟩ := (parseDigits_ok_iff (w - 1) 0 cs n).1 hn
        have hcs : cs ≠ [] := fun e => h1 ⟨e, Or.inl rfl⟩
        have := hlt hcs
        refine ⟨⟨cs, hcs, ha, Or.inl ⟨Or.inr rfl, by rw [← hv]; rfl⟩⟩, ?_, ?_⟩
        · have : (0 : Int) ≤ (2 : Int) ^ (w - 1) := by rw [← hpow]; omega
          omega
        · rw [← hpow]; omega
      · simp only [h2, if_false] at h
        by_cases h3 : c = '-'
        · subst h3
          simp only [if_true] at h
          obtain ⟨n, hn, rfl⟩ := map_ok h
          have hof : Int.ofNat n = (n : Int) := rfl
          obtain ⟨ha, hv, hle⟩ := parseDigitsNeg_ok w 0 cs n hn
          have hcs : cs ≠ [] := fun e => h1 ⟨e, Or.inr rfl⟩
          have := hle hcs
          refine ⟨⟨cs, hcs, ha, Or.inr ⟨rfl, by rw [← hv]; rfl⟩⟩, ?_, ?_⟩
          · rw [← hpow]; omega
          · have : (0 : Int) < (2 : Int) ^ (w - 1) := by
              rw [← hpow]; have := Nat.pow_pos (n := w - 1) (show 0 < 2 by omega); omega
            omega
        · simp only [h3, if_false] at h
          obtain ⟨n, hn, rfl⟩ := map_ok h
          have hof : Int.ofNat n = (n : Int) := rfl
          obtain ⟨ha, hv, hlt⟩ := (parseDigits_ok_iff (w - 1) 0 (c :: cs) n).1 hn
          have := hlt (by simp)
          refine ⟨⟨c :: cs, by simp, ha, Or.inl ⟨Or.inl rfl, by rw [← hv]; rfl⟩⟩, ?_, ?_⟩
          · have : (0 : Int) ≤ (2 : Int) ^ (w - 1) := by rw [← hpow]; omega
            omega
          · rw [← hpow]; omega

end Ord.Text

namespace Ord.Text.Query
open Ord Ord.Text

theorem parseInscription_ok_number {s : List Char} {z : Int}
    (h : parseInscription s = .ok (.number z)) :
    SignedNumeral s z ∧ -(2 : Int) ^ 31 ≤ z ∧ z < (2 : Int) ^ 31 := by
  unfold parseInscription at h
  split at h
  · split at h <;> cases h
  · split at h
    · cases hp : parseSigned 32 s with
      | error e => simp [hp] at h
      | ok z' =>
        simp only [hp, Outcome.ok.injEq, Inscription.number.injEq] at h
        subst h
        exact parseSigned_ok 32 s z' hp
    · split at h
      · split at h <;> cases h
      · cases h

end Ord.Text.Query
