import OrdModel.Proofs.RuneName
/-! Helper lemmas for C32: commitment bytes, reserved threshold. -/
namespace Ord.Rune

theorem toNat_ofNat_lt {n : Nat} (h : n < 256) : (UInt8.ofNat n).toNat = n := by
  simp [UInt8.toNat_ofNat', Nat.mod_eq_of_lt h]

theorem leValue_leBytes : ∀ (k n : Nat), n < 256 ^ k → leValue (leBytes k n) = n := by
  intro k
  induction k with
  | zero => intro n h; simp at h; subst h; rfl
  | succ k ih =>
    intro n h
    have hd : n / 256 < 256 ^ k := by
      rw [Nat.div_lt_iff_lt_mul (by omega)]; rw [Nat.pow_succ] at h; exact h
    simp only [leBytes, leValue, ih _ hd, toNat_ofNat_lt (Nat.mod_lt n (by omega))]
    omega

theorem leBytes_length (k n : Nat) : (leBytes k n).length = k := by
  induction k generalizing n with
  | zero => rfl
  | succ k ih => simp [leBytes, ih]

theorem stripZeros_eq_nil_value : ∀ bs, stripZeros bs = [] → leValue bs = 0 := by
  intro bs
  induction bs with
  | nil => intro _; rfl
  | cons b bs ih =>
    intro h
    simp only [stripZeros] at h
    split at h
    · rename_i hnil
      split at h
      · rename_i hb
        simp [leValue, ih hnil, hb]
      · cases h
    · cases h

theorem leValue_stripZeros : ∀ bs, leValue (stripZeros bs) = leValue bs := by
  intro bs
  induction bs with
  | nil => rfl
  | cons b bs ih =>
    simp only [stripZeros]
    split
    · rename_i hnil
      have h0 := stripZeros_eq_nil_value bs hnil
      split
      · rename_i hb; simp [leValue, h0, hb]
      · simp [leValue, h0]
    · rename_i r hne
      simp only [leValue, ih]

theorem stripZeros_length_le : ∀ bs, (stripZeros bs).length ≤ bs.length := by
  intro bs
  induction bs with
  | nil => simp [stripZeros]
  | cons b bs ih =>
    simp only [stripZeros]
    split
    · split <;> simp
    · rename_i r hne
      simp only [List.length_cons]
      omega

/-- the stripped string does not end in a zero byte -/
theorem stripZeros_getLast : ∀ bs b, (stripZeros bs).getLast? = some b → b.toNat ≠ 0 := by
  intro bs
  induction bs with
  | nil => intro b h; simp [stripZeros] at h
  | cons a bs ih =>
    intro b h
    simp only [stripZeros] at h
    split at h
    · split at h
      · simp at h
      · rename_i hb
        simp at h; subst h; exact hb
    · rename_i r hne
      cases hr : stripZeros bs with
      | nil => exact absurd hr hne
      | cons x xs =>
        rw [hr, List.getLast?_cons_cons] at h
        exact ih b (by rw [hr]; exact h)

/-- a string without a trailing zero byte is left alone -/
theorem stripZeros_of_last_ne : ∀ bs, (∀ b, bs.getLast? = some b → b.toNat ≠ 0) → stripZeros bs = bs := by
  intro bs
  induction bs with
  | nil => intro _; rfl
  | cons a bs ih =>
    intro h
    cases bs with
    | nil =>
      have := h a (by simp)
      simp [stripZeros, this]
    | cons x xs =>
      have ih' := ih (by intro b hb; exact h b (by rw [List.getLast?_cons_cons]; exact hb))
      simp only [stripZeros] at ih' ⊢
      rw [ih']

/-- little-endian value is injective on strings of equal length -/
theorem leValue_inj_of_length : ∀ (as bs : List UInt8), as.length = bs.length →
    leValue as = leValue bs → as = bs := by
  intro as
  induction as with
  | nil => intro bs hl _; cases bs with | nil => rfl | cons _ _ => simp at hl
  | cons a as ih =>
    intro bs hl hv
    cases bs with
    | nil => simp at hl
    | cons b bs =>
      simp only [leValue] at hv
      have ha := a.toNat_lt
      have hb := b.toNat_lt
      have h1 : a.toNat = b.toNat := by omega
      have h2 : leValue as = leValue bs := by omega
      have := ih bs (by simpa using hl) h2
      rw [this, UInt8.toNat_inj.mp h1]

theorem leValue_lt : ∀ bs : List UInt8, leValue bs < 256 ^ bs.length := by
  intro bs
  induction bs with
  | nil => simp [leValue]
  | cons b bs ih =>
    simp only [leValue, List.length_cons, Nat.pow_succ]
    have := b.toNat_lt
    omega

/-- appending zero bytes does not change the value -/
theorem leValue_append_zeros (bs : List UInt8) (k : Nat) :
    leValue (bs ++ List.replicate k 0) = leValue bs := by
  induction bs with
  | nil =>
    induction k with
    | zero => rfl
    | succ k ih => simp only [List.nil_append] at ih; simp [List.replicate_succ, leValue, ih]
  | cons b bs ih => simp [leValue, ih]

theorem stripZeros_append_zeros (bs : List UInt8) (k : Nat) :
    stripZeros (bs ++ List.replicate k 0) = stripZeros bs := by
  induction bs with
  | nil =>
    induction k with
    | zero => rfl
    | succ k ih =>
      simp only [List.nil_append] at ih
      simp [List.replicate_succ, stripZeros, ih]
  | cons b bs ih => simp [stripZeros, ih]

theorem reserved_const : bij firstReservedName = RESERVED + 1 := by decide

end Ord.Rune
