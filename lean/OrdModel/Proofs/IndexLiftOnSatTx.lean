import OrdModel.Proofs.IndexLiftOnSatPlace
/-
C03 lift to reachable states, part 4: one transaction of `index_utxo_entries` (`indexTx`, sat
index and inscription pass on) preserves the mid-block invariant `BMid`:

* every table row and every cache row lists its inscriptions on their sats (`EntSat`),
* the flotsam saved for the coinbase points at its sats in the ranges queued for the coinbase,
  whose size is the running `reward`,
* the pending null entry lists its inscriptions on their sats in (ranges stored under the null
  outpoint) ++ (the block's lost ranges), the pending unbound entry and the stored unbound row list
  sat-less inscriptions only, every other row lists bound inscriptions only,
* `lostSats` is the size of the ranges stored under the null outpoint.

The block's first transaction (the coinbase, indexed last) turns `BMid` into `BEnd` (the part of
`BMid` the block-end flush needs).
-/
namespace Ord.Index.OnSatLift
open Ord Ord.Index Outcome Sched
open Ord.Index.Insloc hiding den den_nil den_cons den_append

/-- every row lists its inscriptions on their sats -/
@[reducible] def RowsSat (E : List InsEntry) (l : List (OutPoint × UtxoEntry)) : Prop := ∀ p ∈ l, EntSat E p.2

theorem RowsSat.mono {E E' : List InsEntry} {l : List (OutPoint × UtxoEntry)} (h : RowsSat E l) (hx : EntExt E E') :
    RowsSat E' l := fun p hp => (h p hp).mono hx

theorem RowsSat.sub {E : List InsEntry} {l l' : List (OutPoint × UtxoEntry)} (h : RowsSat E l)
    (hs : ∀ p ∈ l', p ∈ l) : RowsSat E l' := fun p hp => h p (hs p hp)

/-- the UTXO table: the unbound pseudo-output lists sat-less inscriptions only, every other row
(real outputs, the null pseudo-output) lists bound inscriptions on their sats -/
@[reducible] def TblSat (E : List InsEntry) (l : List (OutPoint × UtxoEntry)) : Prop :=
  ∀ p ∈ l, (p.1 ≠ OutPoint.unbound → EntSat E p.2) ∧ (p.1 = OutPoint.unbound → InsNone E p.2.ins)

theorem TblSat.mono {E E' : List InsEntry} {l : List (OutPoint × UtxoEntry)} (h : TblSat E l) (hx : EntExt E E') :
    TblSat E' l := fun p hp => ⟨fun hn => ((h p hp).1 hn).mono hx, fun he => ((h p hp).2 he).mono hx⟩

theorem TblSat.sub {E : List InsEntry} {l l' : List (OutPoint × UtxoEntry)} (h : TblSat E l)
    (hs : ∀ p ∈ l', p ∈ l) : TblSat E l' := fun p hp => h p (hs p hp)

theorem ne_unbound_of_not_special {op : OutPoint} (h : op.isSpecial = false) : op ≠ OutPoint.unbound := by
  intro hc
  rw [hc] at h
  exact absurd h (by decide)

/-- what the block-end flush needs -/
structure BEnd (NOld : Ranges) (bc : BlockCtx) : Prop where
  tbl : TblSat bc.st.entries bc.st.utxo
  cache : RowsSat bc.st.entries bc.cache
  cacheNS : ∀ p ∈ bc.cache, p.1.isSpecial = false
  nul : ∀ ne, bc.ins.nullEntry = some ne → InsSat bc.st.entries (NOld ++ bc.lostRanges) ne.ins
  unb : ∀ ue, bc.ins.unboundEntry = some ue → InsNone bc.st.entries ue.ins
  nullAt : rangesAt bc.st.utxo OutPoint.null = NOld

/-- the mid-block invariant (before the coinbase is indexed) -/
structure BMid (NOld : Ranges) (bc : BlockCtx) : Prop extends BEnd NOld bc where
  saved : ∀ f ∈ bc.ins.flotsam, FlOK bc.st.entries bc.coinbaseInputs f
  reward : bc.ins.reward = lenR bc.coinbaseInputs
  lostSats : bc.ins.lostSats = lenR NOld
  lostR : bc.lostRanges = []

/-! ### input lookup -/

theorem takeInputEntries_rows (cfg : Cfg) (ins : List TxIn) (bc : BlockCtx) (acc : List (TxIn × UtxoEntry))
    (bc' : BlockCtx) (r : List (TxIn × UtxoEntry))
    (h : takeInputEntries cfg ins bc acc = .ok (bc', r)) :
    (∀ p ∈ bc'.st.utxo, p ∈ bc.st.utxo) ∧ (∀ p ∈ bc'.cache, p ∈ bc.cache) ∧
    (∀ p ∈ r, p ∈ acc ∨ (p.1.prev, p.2) ∈ bc.cache ∨ (p.1.prev, p.2) ∈ bc.st.utxo) := by
  induction ins generalizing bc acc with
  | nil =>
    simp only [takeInputEntries, Outcome.ok.injEq, Prod.mk.injEq] at h
    obtain ⟨rfl, rfl⟩ := h
    exact ⟨fun _ hp => hp, fun _ hp => hp, fun _ hp => Or.inl hp⟩
  | cons i rest ih =>
    rw [takeInputEntries_cons] at h
    split at h
    · rename_i bc1 e h1
      obtain ⟨_, q2, q3⟩ := InsLift.takeOne_seqs cfg bc i bc1 e h1
      obtain ⟨a, b, c⟩ := ih bc1 _ h
      refine ⟨fun p hp => q2 p (a p hp), fun p hp => q3 p (b p hp), ?_⟩
      intro p hp
      rcases c p hp with h2 | h2 | h2
      · rcases List.mem_append.1 h2 with h3 | h3
        · exact Or.inl h3
        · simp only [List.mem_singleton] at h3
          subst h3
          rcases takeOne_cases cfg bc i bc1 e h1 with ⟨hc, -, -⟩ | ⟨-, ht, -, -⟩
          · exact Or.inr (Or.inl (AL.mem_of_get hc))
          · exact Or.inr (Or.inr (AL.mem_of_get ht))
      · exact Or.inr (Or.inl (q3 _ h2))
      · exact Or.inr (Or.inr (q2 _ h2))
    · cases h
    · cases h

/-! ### the middle of `indexTx` with the sat index and the inscription pass on -/

theorem built_outs_ins (addr : Bool) (os : List TxOut) (rss : List Ranges) :
    ∀ e ∈ (if addr = true then
        List.map (fun (x : UtxoEntry × TxOut) => ({ x.1 with script := x.2.script } : UtxoEntry))
          ((List.map (fun (x : UtxoEntry × Ranges) => ({ x.1 with ranges := x.2 } : UtxoEntry))
            ((List.map (fun _ => UtxoEntry.empty) os).zip rss)).zip os)
      else
        List.map (fun (x : UtxoEntry × Ranges) => ({ x.1 with ranges := x.2 } : UtxoEntry))
          ((List.map (fun _ => UtxoEntry.empty) os).zip rss)), e.ins = [] := by
  have hempty : ∀ e ∈ os.map (fun _ => UtxoEntry.empty), e.ins = [] := by
    intro e he
    obtain ⟨_, _, rfl⟩ := List.mem_map.1 he
    rfl
  have h1 := InsLift.mem_zip_map_empty os rss (fun (p : UtxoEntry × Ranges) => ({ p.1 with ranges := p.2 } : UtxoEntry))
    (fun e b he => he) _ hempty
  cases addr
  · simpa using h1
  · simp only [if_true]
    exact InsLift.mem_zip_map_empty os os (fun (p : UtxoEntry × TxOut) => ({ p.1 with script := p.2.script } : UtxoEntry))
      (fun e b he => he) _ h1

/-- the middle of `indexTx` for a transaction that is not the block's first -/
theorem indexTxMid_on_tx (cfg : Cfg) (hs : cfg.indexSats = true) (blk : Block) (txOffset : Nat) (h0 : txOffset ≠ 0)
    (tx : Tx) (bc1 : BlockCtx) (inputs : List (TxIn × UtxoEntry)) (bc3 : BlockCtx) (outs3 : List UtxoEntry)
    (h : indexTxMid cfg blk true txOffset tx bc1 inputs = .ok (bc3, outs3)) :
    ∃ (r : TxSats) (outs2 : List UtxoEntry) (ls' : LocState),
      indexTransactionSats (tx.outputs.map (·.value)) (entryRanges inputs) = some r ∧
      (∀ e ∈ outs2, e.ins = []) ∧ outs2.map (·.ranges) = r.outputs ∧
      indexInscriptions cfg blk.height blk.time tx inputs (some (entryRanges inputs))
        { st := { bc1.st with sat2sp := setRare tx.txid bc1.st.sat2sp r.rare }, ctx := bc1.ins, outs := outs2 } = .ok ls' ∧
      bc3.st = ls'.st ∧ bc3.ins = ls'.ctx ∧ outs3 = ls'.outs ∧ bc3.cache = bc1.cache ∧
      bc3.coinbaseInputs = bc1.coinbaseInputs ++ r.leftover ∧ bc3.lostRanges = bc1.lostRanges := by
  unfold indexTxMid at h
  simp only [hs, if_true, h0, if_false] at h
  cases hr : indexTransactionSats (tx.outputs.map (·.value)) (inputs.flatMap (fun x => x.2.ranges)) with
  | none => rw [hr] at h; cases h
  | some r =>
    rw [hr] at h
    simp only at h
    have hlen : r.outputs.length = tx.outputs.length := by
      have := (indexTransactionSats_facts _ _ r hr).1
      simpa using this
    have hout := built_outs_map_ranges cfg.indexAddresses tx.outputs r.outputs hlen
    have hins := built_outs_ins cfg.indexAddresses tx.outputs r.outputs
    split at h
    · cases h
    · cases h
    · rename_i ls hii
      simp only [Outcome.ok.injEq, Prod.mk.injEq] at h
      obtain ⟨rfl, rfl⟩ := h
      exact ⟨r, _, ls, hr, hins, hout, hii, rfl, rfl, rfl, rfl, rfl, rfl⟩

/-- the middle of `indexTx` for the block's first transaction -/
theorem indexTxMid_on_cb (cfg : Cfg) (hs : cfg.indexSats = true) (blk : Block)
    (tx : Tx) (bc1 : BlockCtx) (inputs : List (TxIn × UtxoEntry)) (bc3 : BlockCtx) (outs3 : List UtxoEntry)
    (h : indexTxMid cfg blk true 0 tx bc1 inputs = .ok (bc3, outs3)) :
    ∃ (r : TxSats) (outs2 : List UtxoEntry) (ls' : LocState),
      indexTransactionSats (tx.outputs.map (·.value)) bc1.coinbaseInputs = some r ∧
      (∀ e ∈ outs2, e.ins = []) ∧ outs2.map (·.ranges) = r.outputs ∧
      indexInscriptions cfg blk.height blk.time tx inputs (some bc1.coinbaseInputs)
        { st := { bc1.st with sat2sp := setRare tx.txid bc1.st.sat2sp r.rare }, ctx := bc1.ins, outs := outs2 } = .ok ls' ∧
      bc3.st = ls'.st ∧ bc3.ins = ls'.ctx ∧ outs3 = ls'.outs ∧ bc3.cache = bc1.cache ∧
      bc3.coinbaseInputs = bc1.coinbaseInputs ∧ bc3.lostRanges = bc1.lostRanges ++ r.leftover := by
  unfold indexTxMid at h
  simp only [hs, if_true] at h
  cases hr : indexTransactionSats (tx.outputs.map (·.value)) bc1.coinbaseInputs with
  | none => rw [hr] at h; cases h
  | some r =>
    rw [hr] at h
    simp only at h
    have hlen : r.outputs.length = tx.outputs.length := by
      have := (indexTransactionSats_facts _ _ r hr).1
      simpa using this
    have hout := built_outs_map_ranges cfg.indexAddresses tx.outputs r.outputs hlen
    have hins := built_outs_ins cfg.indexAddresses tx.outputs r.outputs
    split at h
    · cases h
    · cases h
    · rename_i ls hii
      simp only [Outcome.ok.injEq, Prod.mk.injEq] at h
      obtain ⟨rfl, rfl⟩ := h
      exact ⟨r, _, ls, rfl, hins, hout, hii, rfl, rfl, rfl, rfl, rfl, rfl⟩

/-! ### cache insertion -/

theorem cacheIns_rows (txid : Txid) (h0 : txid ≠ 0) (outs : List UtxoEntry) (c : Cache) (E : List InsEntry)
    (hc : RowsSat E c) (hns : ∀ p ∈ c, p.1.isSpecial = false) (ho : ∀ e ∈ outs, EntSat E e) :
    RowsSat E (cacheIns txid outs c) ∧ ∀ p ∈ cacheIns txid outs c, p.1.isSpecial = false := by
  rw [cacheIns_eq]
  refine ⟨fun p hp => ?_, fun p hp => ?_⟩
  · rcases InsLift.mem_setAll_sub _ _ _ _ hp with h1 | ⟨q, hq, rfl⟩
    · exact hc p h1
    · exact ho _ (mem_enumFrom _ _ _ hq).2
  · rcases InsLift.mem_setAll_sub _ _ _ _ hp with h1 | ⟨q, hq, rfl⟩
    · exact hns p h1
    · exact isSpecial_false_of_txid h0

theorem isNull_of_special_false {op : OutPoint} (h : op.isSpecial = false) : op.isNull = false :=
  InsLift.isNull_false_of_not_special h

theorem txIsCoinbase_false_of_noSpecial (tx : Tx) (hsp : ∀ i ∈ tx.inputs, i.prev.isSpecial = false) :
    txIsCoinbase tx = false := by
  unfold txIsCoinbase
  cases htx : tx.inputs with
  | nil => rfl
  | cons i0 rest => exact isNull_of_special_false (hsp i0 (by simp [htx]))

/-! ### one transaction that is not the block's first -/

theorem indexTx_noncb_step (cfg : Cfg) (hs : cfg.indexSats = true) (blk : Block) (i : Nat) (hi : i ≠ 0)
    (tx : Tx) (bc bc' : BlockCtx) (NOld : Ranges)
    (h0 : tx.txid ≠ 0) (hsp : ∀ x ∈ tx.inputs, x.prev.isSpecial = false)
    (hinv : BMid NOld bc) (h : indexTx cfg blk true i tx bc = .ok bc') :
    BMid NOld bc' ∧ EntExt bc.st.entries bc'.st.entries := by
  obtain ⟨bc1, inputs, bc3, outs3, hin, hmid, rfl⟩ := InsLift.indexTx_decomp _ _ _ _ _ _ _ h
  simp only [hi, if_false] at hin
  obtain ⟨hins1, hcore1, hmap⟩ := InsLift.takeInputEntries_basic _ _ _ _ _ _ hin
  have hent1 : bc1.st.entries = bc.st.entries := InsLift.core_entries hcore1
  have hte := takeInputEntries_satEff _ _ _ _ _ _ hin
  obtain ⟨sub1, sub2, hrows⟩ := takeInputEntries_rows _ _ _ _ _ _ hin
  have hmap' : inputs.map (·.1) = tx.inputs := by simpa using hmap
  have hmemIn : ∀ p ∈ inputs, p.1 ∈ tx.inputs := fun p hp => by rw [← hmap']; exact List.mem_map_of_mem hp
  have hnull1 : AL.get bc1.st.utxo OutPoint.null = AL.get bc.st.utxo OutPoint.null := by
    apply takeInputEntries_get_other cfg _ _ _ _ _ _ _ hin
    intro i' hi' heq
    have := hsp i' hi'
    rw [heq] at this
    exact absurd this (by decide)
  obtain ⟨r, outs2, ls', hsats, hoi, hor, hii, hst, hins3, rfl, hcache, hcbi, hlost⟩ :=
    indexTxMid_on_tx cfg hs blk i hi tx bc1 inputs bc3 _ hmid
  have hncb := txIsCoinbase_false_of_noSpecial tx hsp
  have hnn : ∀ p ∈ inputs, p.1.prev.isNull = false :=
    fun p hp => isNull_of_special_false (hsp _ (hmemIn p hp))
  have hent : ∀ p ∈ inputs, EntSat bc.st.entries p.2 := by
    intro p hp
    rcases hrows p hp with h1 | h1 | h1
    · cases h1
    · exact hinv.cache _ h1
    · exact (hinv.tbl _ h1).1 (ne_unbound_of_not_special (hsp _ (hmemIn p hp)))
  have hls0 : LsInv (NOld ++ bc.lostRanges)
      { st := { bc1.st with sat2sp := setRare tx.txid bc1.st.sat2sp r.rare }, ctx := bc1.ins, outs := outs2 } := by
    refine ⟨?_, ?_, ?_⟩
    · intro e he; exact EntSat.of_ins_nil (hoi e he)
    · intro ne hne
      show InsSat bc1.st.entries _ _
      rw [hent1]; exact hinv.nul ne (by rw [← hins1]; exact hne)
    · intro ue hue
      show InsNone bc1.st.entries _
      rw [hent1]; exact hinv.unb ue (by rw [← hins1]; exact hue)
  obtain ⟨a, b, c, d, e⟩ := indexInscriptions_noncb_inv cfg hs blk.height blk.time tx inputs r _ ls'
    (NOld ++ bc.lostRanges) bc.coinbaseInputs hsats hii hncb hnn
    (by intro p hp; show EntSat bc1.st.entries p.2; rw [hent1]; exact hent p hp)
    hls0 hor
    (by intro f hf
        show FlOK bc1.st.entries _ f
        rw [hent1]; exact hinv.saved f (by rw [← hins1]; exact hf))
    (by show bc1.ins.reward = _; rw [hins1]; exact hinv.reward)
  have b' : EntExt bc.st.entries ls'.st.entries := by
    have : EntExt bc1.st.entries ls'.st.entries := b
    rw [hent1] at this; exact this
  have hutxo : ls'.st.utxo = bc1.st.utxo := (indexInscriptions_frame _ _ _ _ _ _ _ _ hii).1
  obtain ⟨cr, cn⟩ := cacheIns_rows tx.txid h0 ls'.outs bc3.cache ls'.st.entries
    (by rw [hcache]; exact (hinv.cache.sub sub2).mono b')
    (by rw [hcache]; exact fun p hp => hinv.cacheNS p (sub2 p hp)) a.outs
  refine ⟨⟨⟨?_, ?_, cn, ?_, ?_, ?_⟩, ?_, ?_, ?_, ?_⟩, by show EntExt _ bc3.st.entries; rw [hst]; exact b'⟩
  · show TblSat bc3.st.entries bc3.st.utxo
    rw [hst, hutxo]; exact (hinv.tbl.sub sub1).mono b'
  · show RowsSat bc3.st.entries _
    rw [hst]; exact cr
  · show ∀ ne, bc3.ins.nullEntry = some ne → InsSat bc3.st.entries (NOld ++ bc3.lostRanges) ne.ins
    rw [hst, hins3, hlost, hte.lost]; exact a.nul
  · show ∀ ue, bc3.ins.unboundEntry = some ue → InsNone bc3.st.entries ue.ins
    rw [hst, hins3]; exact a.unb
  · show rangesAt bc3.st.utxo OutPoint.null = NOld
    rw [hst, hutxo]
    unfold rangesAt
    rw [hnull1]
    exact hinv.nullAt
  · show ∀ f ∈ bc3.ins.flotsam, FlOK bc3.st.entries bc3.coinbaseInputs f
    rw [hst, hins3, hcbi, hte.cbi]; exact c
  · show bc3.ins.reward = lenR bc3.coinbaseInputs
    rw [hins3, hcbi, hte.cbi]; exact d
  · show bc3.ins.lostSats = lenR NOld
    rw [hins3, e]
    show bc1.ins.lostSats = _
    rw [hins1]; exact hinv.lostSats
  · show bc3.lostRanges = []
    rw [hlost, hte.lost]; exact hinv.lostR

/-! ### the block's first transaction (the coinbase) -/

theorem indexTx_cb_step (cfg : Cfg) (hs : cfg.indexSats = true) (blk : Block)
    (tx : Tx) (bc bc' : BlockCtx) (NOld : Ranges)
    (h0 : tx.txid ≠ 0) (hcb : txIsCoinbase tx = true)
    (hinv : BMid NOld bc) (h : indexTx cfg blk true 0 tx bc = .ok bc') :
    BEnd NOld bc' ∧ EntExt bc.st.entries bc'.st.entries := by
  obtain ⟨bc1, inputs, bc3, outs3, hin, hmid, rfl⟩ := InsLift.indexTx_decomp _ _ _ _ _ _ _ h
  simp only [if_true] at hin
  obtain ⟨rfl, rfl⟩ := hin
  obtain ⟨r, outs2, ls', hsats, hoi, hor, hii, hst, hins3, rfl, hcache, hcbi, hlost⟩ :=
    indexTxMid_on_cb cfg hs blk tx bc1 _ bc3 _ hmid
  have hNR : NOld ++ bc1.lostRanges = NOld := by rw [hinv.lostR, List.append_nil]
  have hls0 : LsInv (NOld ++ r.leftover)
      { st := { bc1.st with sat2sp := setRare tx.txid bc1.st.sat2sp r.rare }, ctx := bc1.ins, outs := outs2 } := by
    refine ⟨?_, ?_, ?_⟩
    · intro e he; exact EntSat.of_ins_nil (hoi e he)
    · intro ne hne
      have := hinv.nul ne hne
      rw [hNR] at this
      exact this.append_ranges _
    · intro ue hue; exact hinv.unb ue hue
  obtain ⟨a, b⟩ := indexInscriptions_cb_inv cfg blk.height blk.time tx _ bc1.coinbaseInputs r _ ls' NOld hsats hii hcb
    (by intro p hp
        obtain ⟨_, _, rfl⟩ := List.mem_map.1 hp
        rfl)
    hls0 hor hinv.saved hinv.lostSats
  have b' : EntExt bc1.st.entries ls'.st.entries := b
  have hutxo : ls'.st.utxo = bc1.st.utxo := (indexInscriptions_frame _ _ _ _ _ _ _ _ hii).1
  obtain ⟨cr, cn⟩ := cacheIns_rows tx.txid h0 ls'.outs bc3.cache ls'.st.entries
    (by rw [hcache]; exact hinv.cache.mono b') (by rw [hcache]; exact hinv.cacheNS) a.outs
  refine ⟨⟨?_, ?_, cn, ?_, ?_, ?_⟩, by show EntExt _ bc3.st.entries; rw [hst]; exact b'⟩
  · show TblSat bc3.st.entries bc3.st.utxo
    rw [hst, hutxo]; exact hinv.tbl.mono b'
  · show RowsSat bc3.st.entries _
    rw [hst]; exact cr
  · show ∀ ne, bc3.ins.nullEntry = some ne → InsSat bc3.st.entries (NOld ++ bc3.lostRanges) ne.ins
    rw [hst, hins3, hlost, hinv.lostR, List.nil_append]; exact a.nul
  · show ∀ ue, bc3.ins.unboundEntry = some ue → InsNone bc3.st.entries ue.ins
    rw [hst, hins3]; exact a.unb
  · show rangesAt bc3.st.utxo OutPoint.null = NOld
    rw [hst, hutxo]; exact hinv.nullAt

end Ord.Index.OnSatLift
