import OrdModel.Proofs.IndexLiftNoPanicIns
import OrdModel.Proofs.IndexLiftInsTx
/-
C16 lift, part 6: one transaction of `index_utxo_entries` (`indexTx`) under the mid-block invariant
`Mid`: a non-coinbase transaction accepted by `Valid.checkTx` (`indexTx_valid_tx`) and the coinbase
(`indexTx_valid_cb`).  Discharged here: `insufficient inputs for transaction outputs` (value
conservation: the input ranges are worth the spent values, resp. subsidy + fees for the coinbase).
-/
namespace Ord.Index.NoPanic
open Ord Ord.Index Outcome Sched

/-! ### sat ranges -/

theorem rangesValue_append (a b : List (Nat × Nat)) : rangesValue (a ++ b) = rangesValue a + rangesValue b := by
  induction a with
  | nil => simp [rangesValue_nil]
  | cons r rest ih => obtain ⟨s, e⟩ := r; simp only [List.cons_append, rangesValue_cons, ih]; omega

theorem indexTransactionSatsAux_valid (values : List Nat) (vout : Nat) (q : List (Nat × Nat))
    (h : values.sum ≤ rangesValue q) :
    ∃ t, indexTransactionSatsAux values vout q = some t ∧ rangesValue t.leftover = rangesValue q - values.sum := by
  induction values generalizing vout q with
  | nil => exact ⟨_, rfl, by simp⟩
  | cons v vs ih =>
    simp only [List.sum_cons] at h
    obtain ⟨r, hr, hq⟩ := fillOutput_some q v 0 (by omega)
    obtain ⟨t, ht, hl⟩ := ih (vout + 1) r.queue (by omega)
    simp only [indexTransactionSatsAux, hr, ht]
    refine ⟨_, rfl, ?_⟩
    simp only [hl, hq, List.sum_cons]
    omega

theorem indexTransactionSats_valid (values : List Nat) (q : List (Nat × Nat)) (h : values.sum ≤ rangesValue q) :
    ∃ t, indexTransactionSats values q = some t ∧ rangesValue t.leftover = rangesValue q - values.sum :=
  indexTransactionSatsAux_valid values 0 q h

/-! ### the entries handed on for the inputs -/

theorem InRel.sums {cfg : Cfg} {n : Nat} {spent : List Nat} {inputs : List (TxIn × UtxoEntry)}
    (h : InRel cfg n spent inputs) (height : Nat) :
    sumIn cfg height inputs = Valid.sum spent ∧
    (cfg.indexSats = true → rangesValue (inputs.flatMap (fun (p : TxIn × UtxoEntry) => p.2.ranges)) = Valid.sum spent) ∧
    (∀ p ∈ inputs, ∀ q ∈ p.2.ins, q.1 < n) := by
  induction spent generalizing inputs with
  | nil => cases inputs with
    | nil => exact ⟨rfl, fun _ => rfl, fun p hp => by cases hp⟩
    | cons _ _ => exact absurd h (by simp [InRel])
  | cons v vs ih => cases inputs with
    | nil => exact absurd h (by simp [InRel])
    | cons p ps =>
      obtain ⟨txin, e⟩ := p
      simp only [InRel] at h
      obtain ⟨h1, h2, h3⟩ := h
      obtain ⟨i1, i2, i3⟩ := ih h3
      refine ⟨?_, ?_, ?_⟩
      · simp only [sumIn, h1, Bool.false_eq_true, if_false, Valid.sum, i1, h2.1]
      · intro hs
        simp only [List.flatMap_cons, rangesValue_append, i2 hs, Valid.sum]
        have := h2.1
        simp only [UtxoEntry.totalValue, hs, if_true] at this
        rw [this]
      · intro p hp q hq
        rcases List.mem_cons.1 hp with rfl | hp
        · exact h2.2 q hq
        · exact i3 p hp q hq

theorem spendInputs_notNull (ins : List TxIn) (u u' : Valid.Utxos) (spent : List Nat)
    (h : Valid.spendInputs ins u = some (u', spent)) : ∀ i ∈ ins, i.prev.isNull = false := by
  induction ins generalizing u u' spent with
  | nil => intro i hi; cases hi
  | cons a rest ih =>
    simp only [Valid.spendInputs] at h
    split at h
    · cases h
    · rename_i hn
      split at h
      · cases h
      · split at h
        · cases h
        · rename_i u1 vs hrest
          intro i hi
          rcases List.mem_cons.1 hi with rfl | hi
          · simpa using hn
          · exact ih _ _ _ hrest i hi

/-! ### caching the outputs -/

theorem cacheIns_eq_cacheOuts (txid : Txid) (outs : List UtxoEntry) (c : Cache) :
    cacheIns txid outs c = cacheOuts txid (enumFrom 0 outs) c := rfl

theorem urel_cacheIns (cfg : Cfg) (n : Nat) (u0 : Valid.Utxos) (utxo : List (OutPoint × UtxoEntry))
    (s2o : List (List UInt8 × OutPoint)) (cache : Cache) (tx : Tx) (outs3 : List UtxoEntry) (seen : List Txid)
    (hrel : URel cfg n u0 utxo s2o cache) (huwf : UWF seen u0) (hfresh : tx.txid ∉ seen)
    (hpw : PW (fun o e => e.totalValue cfg = o.value) tx.outputs outs3)
    (hseq : ∀ e ∈ outs3, ∀ p ∈ e.ins, p.1 < n) :
    URel cfg n (u0 ++ Valid.newOutputs tx.txid (Valid.outValues tx)) utxo s2o (cacheIns tx.txid outs3 cache) := by
  intro op v hg
  rw [get_append] at hg
  rw [cacheIns_eq_cacheOuts, get_cacheOuts]
  cases h0 : AL.get u0 op with
  | some w =>
    rw [h0] at hg
    simp only [Option.some.injEq] at hg
    subst hg
    have hne : op.txid ≠ tx.txid := fun he => hfresh (he ▸ (huwf.of_get h0).1)
    rw [if_neg (fun h => hne h.1)]
    exact hrel op w h0
  | none =>
    rw [h0] at hg
    simp only at hg
    rw [get_newOutputs] at hg
    split at hg
    · rename_i ht
      have hlen := PW_length hpw
      have hv : op.vout < tx.outputs.length := by
        obtain ⟨h, _⟩ := List.getElem?_eq_some_iff.1 hg
        simpa [Valid.outValues] using h
      rw [if_pos ⟨ht, Nat.zero_le _, by omega⟩]
      simp only [Nat.sub_zero]
      have hlt : op.vout < outs3.length := by omega
      rw [List.getElem?_eq_getElem hlt]
      obtain ⟨o, ho, hval⟩ := PW_index hpw (List.getElem?_eq_getElem hlt)
      left
      refine ⟨_, rfl, ?_, hseq _ (List.getElem_mem hlt)⟩
      rw [hval]
      simp only [Valid.outValues, List.getElem?_map, ho, Option.map_some, Option.some.injEq] at hg
      exact hg
    · cases hg

/-! ### the middle of `indexTx` -/

theorem zipmap_facts {β : Type} (es : List UtxoEntry) (l : List β) (f : UtxoEntry × β → UtxoEntry) (n : Nat)
    (hf : ∀ p, (f p).ins = p.1.ins) (he : es.length = n) (hl : l.length = n) (hins : ∀ e ∈ es, e.ins = []) :
    ((es.zip l).map f).length = n ∧ ∀ e ∈ (es.zip l).map f, e.ins = [] := by
  refine ⟨by simp [he, hl], ?_⟩
  intro e hm
  obtain ⟨p, hp, rfl⟩ := List.mem_map.1 hm
  rw [hf]
  exact hins _ (List.of_mem_zip hp).1

theorem indexTxMid_valid (cfg : Cfg) (blk : Block) (insOn : Bool) (txOffset : Nat) (tx : Tx) (bc1 : BlockCtx)
    (inputs : List (TxIn × UtxoEntry)) (V : Nat) (P : LocState → LocState → Prop)
    (hsats : cfg.indexSats = true →
      rangesValue (if txOffset = 0 then bc1.coinbaseInputs
        else inputs.flatMap (fun (p : TxIn × UtxoEntry) => p.2.ranges)) = V)
    (hout : (tx.outputs.map (·.value)).sum ≤ V)
    (hins : insOn = true → ∀ (st2 : State) (outs2 : List UtxoEntry) (ir : Option (List (Nat × Nat))),
      InsSame bc1.st st2 → outs2.length = tx.outputs.length → (∀ e ∈ outs2, e.ins = []) →
      (∀ rs, ir = some rs → rangesValue rs = V) →
      ∃ ls', indexInscriptions cfg blk.height blk.time tx inputs ir { st := st2, ctx := bc1.ins, outs := outs2 } = .ok ls' ∧
        P { st := st2, ctx := bc1.ins, outs := outs2 } ls') :
    ∃ bc3 outs3, indexTxMid cfg blk insOn txOffset tx bc1 inputs = .ok (bc3, outs3) ∧
      rangesValue bc3.coinbaseInputs = rangesValue bc1.coinbaseInputs +
        (if cfg.indexSats = true ∧ txOffset ≠ 0 then V - (tx.outputs.map (·.value)).sum else 0) ∧
      (insOn = true → ∃ st2 outs2 ls', InsSame bc1.st st2 ∧ P { st := st2, ctx := bc1.ins, outs := outs2 } ls' ∧
        bc3.st = ls'.st ∧ bc3.ins = ls'.ctx ∧ outs3 = ls'.outs) ∧
      (insOn = false → InsSame bc1.st bc3.st ∧ bc3.ins = bc1.ins ∧ ∀ e ∈ outs3, e.ins = []) := by
  have tail : ∀ (bc2 : BlockCtx) (outs2 : List UtxoEntry) (ir : Option (List (Nat × Nat))),
      bc2.ins = bc1.ins → InsSame bc1.st bc2.st → outs2.length = tx.outputs.length → (∀ e ∈ outs2, e.ins = []) →
      (∀ rs, ir = some rs → rangesValue rs = V) →
      ∃ bc3 outs3, (if insOn = true then
        match indexInscriptions cfg blk.height blk.time tx inputs ir { st := bc2.st, ctx := bc2.ins, outs := outs2 } with
        | .panic s => (.panic s : Outcome (BlockCtx × List UtxoEntry))
        | .err e => .err e
        | .ok ls => .ok ({ bc2 with st := ls.st, ins := ls.ctx }, ls.outs)
      else .ok (bc2, outs2)) = .ok (bc3, outs3) ∧ bc3.coinbaseInputs = bc2.coinbaseInputs ∧
      (insOn = true → ∃ st2 outs2 ls', InsSame bc1.st st2 ∧ P { st := st2, ctx := bc1.ins, outs := outs2 } ls' ∧
        bc3.st = ls'.st ∧ bc3.ins = ls'.ctx ∧ outs3 = ls'.outs) ∧
      (insOn = false → InsSame bc1.st bc3.st ∧ bc3.ins = bc1.ins ∧ ∀ e ∈ outs3, e.ins = []) := by
    intro bc2 outs2 ir hi hs hl he hr
    cases hon : insOn with
    | false =>
      simp only [Bool.false_eq_true, if_false]
      exact ⟨bc2, outs2, rfl, rfl, (fun h => by cases h), fun _ => ⟨hs, hi, he⟩⟩
    | true =>
      simp only [if_true]
      rw [hi]
      obtain ⟨ls', h1, h2⟩ := hins hon bc2.st outs2 ir hs hl he hr
      rw [h1]
      exact ⟨_, _, rfl, rfl, fun _ => ⟨bc2.st, outs2, ls', hs, h2, rfl, rfl, rfl⟩, (fun h => by cases h)⟩
  have hempty : ∀ e ∈ tx.outputs.map (fun _ => UtxoEntry.empty), e.ins = [] := by
    intro e he
    obtain ⟨_, _, rfl⟩ := List.mem_map.1 he
    rfl
  have script : ∀ outs1 : List UtxoEntry, outs1.length = tx.outputs.length → (∀ e ∈ outs1, e.ins = []) →
      (if cfg.indexAddresses = true then (outs1.zip tx.outputs).map (fun (p : UtxoEntry × TxOut) => { p.1 with script := p.2.script })
        else outs1).length = tx.outputs.length ∧
      ∀ e ∈ (if cfg.indexAddresses = true then (outs1.zip tx.outputs).map (fun (p : UtxoEntry × TxOut) => { p.1 with script := p.2.script })
        else outs1), e.ins = [] := by
    intro outs1 h1 h2
    split
    · exact zipmap_facts outs1 tx.outputs _ _ (fun _ => rfl) h1 rfl h2
    · exact ⟨h1, h2⟩
  unfold indexTxMid
  simp only []
  cases hS : cfg.indexSats with
  | false =>
    simp only [Bool.false_eq_true, if_false, false_and]
    obtain ⟨z1, z2⟩ := zipmap_facts (tx.outputs.map (fun _ => UtxoEntry.empty)) tx.outputs
      (fun (p : UtxoEntry × TxOut) => { p.1 with value := p.2.value }) tx.outputs.length (fun _ => rfl) (by simp) rfl hempty
    obtain ⟨s1, s2⟩ := script _ z1 z2
    obtain ⟨bc3, outs3, h1, h2, h3, h4⟩ := tail bc1 _ none rfl (InsSame.refl _) s1 s2 (fun rs h => by cases h)
    exact ⟨bc3, outs3, h1, by rw [h2]; simp, h3, h4⟩
  | true =>
    simp only [if_true, true_and]
    have hV := hsats hS
    obtain ⟨r, hr, hleft⟩ := indexTransactionSats_valid (tx.outputs.map (·.value))
      (if txOffset = 0 then bc1.coinbaseInputs else inputs.flatMap (fun (p : TxIn × UtxoEntry) => p.2.ranges))
      (by rw [hV]; exact hout)
    rw [hr]
    simp only []
    have hrl : r.outputs.length = tx.outputs.length := by
      have := indexTransactionSatsAux_length _ _ _ _ hr
      simpa using this
    obtain ⟨z1, z2⟩ := zipmap_facts (tx.outputs.map (fun _ => UtxoEntry.empty)) r.outputs
      (fun (p : UtxoEntry × List (Nat × Nat)) => { p.1 with ranges := p.2 }) tx.outputs.length (fun _ => rfl) (by simp) hrl hempty
    obtain ⟨s1, s2⟩ := script _ z1 z2
    by_cases h0 : txOffset = 0
    · simp only [h0, if_true, ne_eq, not_true_eq_false, if_false] at hV hleft ⊢
      obtain ⟨bc3, outs3, h1, h2, h3, h4⟩ := tail
        { bc1 with st := { bc1.st with sat2sp := setRare tx.txid bc1.st.sat2sp r.rare },
                   lostRanges := bc1.lostRanges ++ r.leftover } _ (some bc1.coinbaseInputs) rfl ⟨rfl, rfl, rfl, rfl⟩ s1 s2
        (fun rs h => by cases h; exact hV)
      exact ⟨bc3, outs3, h1, by rw [h2]; simp, h3, h4⟩
    · simp only [h0, if_false, ne_eq, not_false_eq_true, if_true] at hV hleft ⊢
      obtain ⟨bc3, outs3, h1, h2, h3, h4⟩ := tail
        { bc1 with st := { bc1.st with sat2sp := setRare tx.txid bc1.st.sat2sp r.rare },
                   coinbaseInputs := bc1.coinbaseInputs ++ r.leftover } _
        (some (inputs.flatMap (fun (p : TxIn × UtxoEntry) => p.2.ranges))) rfl ⟨rfl, rfl, rfl, rfl⟩ s1 s2
        (fun rs h => by cases h; exact hV)
      refine ⟨bc3, outs3, h1, ?_, h3, h4⟩
      rw [h2]
      simp only [rangesValue_append, hleft, hV]

/-! ### one transaction -/

/-- what `indexInscriptions_tx` delivers, as the abstract postcondition of `indexTxMid_valid` -/
def PTx (tx : Tx) (V : Nat) (ls ls' : LocState) : Prop :=
  InsOut ls ls' ∧
  ls'.st.cursed + ls'.st.blessed + countNew ls'.ctx.flotsam ≤
    ls.st.cursed + ls.st.blessed + countNew ls.ctx.flotsam + tx.envelopes.length ∧
  ls'.ctx.reward = ls.ctx.reward + (V - (tx.outputs.map (·.value)).sum) ∧
  (∀ f ∈ ls'.ctx.flotsam, NewBound f → f.offset < ls'.ctx.reward)

theorem wellFormed_facts (tx : Tx) (h : Valid.txWellFormed tx = true) : tx.txid ≠ 0 ∧ EnvTail tx.envelopes := by
  simp only [Valid.txWellFormed, Bool.and_eq_true] at h
  refine ⟨?_, envelopesWellFormed_tail tx h.1.1.1.2⟩
  have := h.1.1.1.1
  simpa [Valid.txidNonZero] using this

/-- the value of the output entries after the middle of `indexTx` -/
theorem indexTxMid_pw (cfg : Cfg) (blk : Block) (insOn : Bool) (txOffset : Nat) (tx : Tx) (bc1 : BlockCtx)
    (inputs : List (TxIn × UtxoEntry)) (bc3 : BlockCtx) (outs3 : List UtxoEntry)
    (h : indexTxMid cfg blk insOn txOffset tx bc1 inputs = .ok (bc3, outs3)) :
    PW (fun o e => e.totalValue cfg = o.value) tx.outputs outs3 := by
  obtain ⟨m, outs2, ir, e2, v2, _, hcase⟩ := InsLift.indexTxMid_cases _ _ _ _ _ _ _ _ _ h
  cases hi : insOn with
  | false =>
    simp only [hi, Bool.false_eq_true, if_false] at hcase
    rw [hcase.2.2]; exact v2
  | true =>
    simp only [hi, if_true] at hcase
    obtain ⟨ls', hls, _, _, rfl⟩ := hcase
    obtain ⟨_, _, hbase, _⟩ := indexInscriptions_frame _ _ _ _ _ _ _ _ hls
    exact PW_of_map_base (fun o e e' hb he => (InsLift.totalValue_congr' cfg e e' hb) ▸ he) hbase v2

/-- **a non-coinbase transaction accepted by `Valid.checkTx`** is indexed without failure and keeps
the mid-block invariant (against the spec state after the transaction) -/
theorem indexTx_valid_tx (cfg : Cfg) (blk : Block) (insOn : Bool) (k : Nat) (hk : k ≠ 0) (tx : Tx)
    (u u' : Valid.Utxos) (fee fees budget : Nat) (seen : List Txid) (bc : BlockCtx)
    (hmid : Mid cfg blk.height insOn u fees budget bc) (huwf : UWF seen u)
    (hct : Valid.checkTx blk.height u tx = some (u', fee)) (hfresh : tx.txid ∉ seen)
    (hbud : budget + tx.envelopes.length < 2147483648) :
    ∃ bc', indexTx cfg blk insOn k tx bc = .ok bc' ∧
      Mid cfg blk.height insOn u' (fees + fee) (budget + tx.envelopes.length) bc' ∧ UWF (tx.txid :: seen) u' := by
  obtain ⟨u0, spent, hs, rfl, rfl, hwf, hcons⟩ := checkTx_facts _ _ _ _ _ hct
  obtain ⟨hnz, henv⟩ := wellFormed_facts tx hwf
  have hO : Valid.sum (Valid.outValues tx) = (tx.outputs.map (·.value)).sum := sum_eq _
  rw [hO] at hcons ⊢
  generalize hV : Valid.sum spent = V at hcons ⊢
  generalize hOut : (tx.outputs.map (·.value)).sum = O at hcons ⊢
  obtain ⟨bc1, inputs, htake, hrel1, hcn1, hinrel, hframe, d, hd⟩ := takeInputEntries_valid cfg bc.st.entries.length
    tx.inputs u u0 spent bc [] [] hs huwf.nodup hmid.urel hmid.cnodup trivial
  simp only [List.nil_append] at hinrel
  obtain ⟨hsum1, hsum2, hseqs⟩ := hinrel.sums blk.height
  rw [hV] at hsum1 hsum2
  have huwf0 : UWF seen u0 := hd ▸ huwf.foldl_erase d
  have hsame1 : InsSame bc.st bc1.st := InsSame.of_core hframe.2.2.2
  have hcb : iiCoinbase tx = false := by
    unfold iiCoinbase
    cases hin : tx.inputs with
    | nil => rfl
    | cons i _ => exact spendInputs_notNull _ _ _ _ hs i (by rw [hin]; exact List.mem_cons_self)
  obtain ⟨bc3, outs3, hmidok, hcbv, hon, hoff⟩ := indexTxMid_valid cfg blk insOn k tx bc1 inputs V (PTx tx V)
    (by intro hS; rw [if_neg hk]; exact hsum2 hS)
    (by rw [hOut]; exact hcons)
    (by
      intro _ st2 outs2 ir hss hl he hir
      have hs2 := hsame1.trans hss
      obtain ⟨ls', h1, h2, h3, h4, h5⟩ := indexInscriptions_tx cfg blk.height blk.time tx inputs ir
        ⟨st2, bc1.ins, outs2⟩ V hcb
        ⟨hmid.ids.congr hs2.1 hs2.2.1, fun e he' p hp => by rw [he e he'] at hp; cases hp⟩
        hl
        (fun p hp _ q hq => by
          show q.1 < st2.entries.length
          rw [hs2.1]; exact hseqs p hp q hq)
        hsum1 (by rw [hOut]; exact hcons) hir henv
        (by
          show st2.cursed + st2.blessed + countNew bc1.ins.flotsam + tx.envelopes.length < 2147483648
          rw [hs2.2.2.1, hs2.2.2.2, hframe.1]
          have := hmid.count
          omega)
        (by
          intro f hf
          show OldOK st2.entries.length f
          rw [hs2.1]
          exact hmid.flSeq f (hframe.1 ▸ hf))
        (by
          intro f hf hnb
          show f.offset < bc1.ins.reward
          rw [hframe.1]
          exact hmid.flOff f (hframe.1 ▸ hf) hnb)
      exact ⟨ls', h1, h2, h3, h4, h5⟩)
  have hfr := indexTxMid_frame _ _ _ _ _ _ _ _ _ hmidok
  have hpw := indexTxMid_pw _ _ _ _ _ _ _ _ _ hmidok
  have hutxo : bc3.st.utxo = bc1.st.utxo := congrArg Tri.utxo hfr.1
  have hs2o : bc3.st.script2out = bc1.st.script2out := congrArg Tri.script2out hfr.1
  -- the inscription side, in both modes
  have hside : IdsOK bc3.st ∧ bc.st.entries.length ≤ bc3.st.entries.length ∧
      (∀ e ∈ outs3, ∀ p ∈ e.ins, p.1 < bc3.st.entries.length) ∧
      (∀ f ∈ bc3.ins.flotsam, OldOK bc3.st.entries.length f) ∧
      bc3.st.cursed + bc3.st.blessed + countNew bc3.ins.flotsam ≤ budget + tx.envelopes.length ∧
      (insOn = true → bc3.ins.reward = subsidy blk.height + (fees + (V - O))) ∧
      (∀ f ∈ bc3.ins.flotsam, NewBound f → f.offset < bc3.ins.reward) := by
    cases hi : insOn with
    | true =>
      obtain ⟨st2, outs2, ls', hss, ⟨hio, hcnt, hrew, hfo⟩, e1, e2, e3⟩ := hon hi
      have hs2 := hsame1.trans hss
      rw [e1, e2, e3]
      refine ⟨hio.inv.ids, ?_, hio.inv.outs, hio.flSeq, ?_, ?_, hfo⟩
      · have := hio.len
        simp only at this
        rw [hs2.1] at this
        exact this
      · simp only at hcnt
        rw [hs2.2.2.1, hs2.2.2.2, hframe.1] at hcnt
        have := hmid.count
        omega
      · intro _
        rw [hrew]
        simp only
        rw [hframe.1, hmid.reward hi, hOut]
        omega
    | false =>
      obtain ⟨hs3, hi3, he3⟩ := hoff hi
      have hs2 := hsame1.trans hs3
      rw [hi3, hframe.1]
      refine ⟨hmid.ids.congr hs2.1 hs2.2.1, by rw [hs2.1]; exact Nat.le_refl _, ?_, ?_, ?_, (fun h => by cases h), hmid.flOff⟩
      · intro e he p hp
        rw [he3 e he] at hp; cases hp
      · rw [hs2.1]; exact hmid.flSeq
      · rw [hs2.2.2.1, hs2.2.2.2]
        have := hmid.count
        omega
  obtain ⟨hids3, hlen3, hseq3, hfl3, hcnt3, hrew3, hfo3⟩ := hside
  rw [indexTx_eq, if_neg hk, htake]
  simp only
  rw [hmidok]
  refine ⟨_, rfl, ⟨⟨?_, ?_, hids3, hfl3, hcnt3⟩, ?_, hrew3, hfo3⟩, huwf0.addOutputs tx.txid _ hfresh hnz⟩
  · show URel cfg bc3.st.entries.length _ bc3.st.utxo bc3.st.script2out (cacheIns tx.txid outs3 bc3.cache)
    rw [hutxo, hs2o, hfr.2]
    exact urel_cacheIns cfg _ u0 _ _ _ tx outs3 seen (hrel1.mono hlen3) huwf0 hfresh hpw hseq3
  · show (AL.keys (cacheIns tx.txid outs3 bc3.cache)).Nodup
    rw [cacheIns_eq_cacheOuts, hfr.2]
    exact nodup_cacheOuts _ _ _ hcn1
  · intro hS
    show rangesValue bc3.coinbaseInputs = _
    rw [hcbv, if_pos ⟨hS, hk⟩, hframe.2.1, hmid.cbIn hS, hOut]
    omega

end Ord.Index.NoPanic
