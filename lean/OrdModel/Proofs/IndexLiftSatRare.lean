import OrdModel.Proofs.IndexLiftSatExactChain
import OrdModel.Proofs.IndexSatsArith
/-
Sat-side lift, part 12 (C02, rare sats): sat ranges are only ever split, never merged, so every
range of every entry lies inside one block's subsidy range (`InBlk`), in every reachable state.
Since the only non-common sat of a block's subsidy is its first one (`satRare_in_block`), a
non-common sat held by the table always *starts* a range — the place where the updater writes
its SAT_TO_SATPOINT row.
-/
namespace Ord.Index
open Outcome Ord.Index.Sched

/-! ### the only non-common sat of a block is its first -/

theorem satRare_in_block (h s : Nat) (h1 : startingSat h ≤ s) (h2 : s < startingSat (h + 1)) :
    satRare s = true ↔ s = startingSat h := by
  have hsucc := startingSat_succ h
  have hsub : 0 < subsidy h := by omega
  have he0 : h / 210000 < 33 := by
    unfold subsidy at hsub
    simp only [] at hsub
    by_cases hc : h / 210000 < 33
    · exact hc
    · simp [hc] at hsub
  have hst : startingSat h = epochStartingSat (h / 210000) + (h - h / 210000 * 210000) * (5000000000 >>> (h / 210000)) := by
    unfold startingSat subsidy
    have hm : min (h / 210000) 33 = h / 210000 := by omega
    simp only [he0, if_true, hm]
  have hsv : subsidy h = 5000000000 >>> (h / 210000) := by
    unfold subsidy; simp only [he0, if_true]
  obtain ⟨hle, hb1, hb2⟩ := satEpoch_spec s
  have hnext := epochStartingSat_succ (h / 210000)
  simp only [he0, if_true] at hnext
  have hr : h - h / 210000 * 210000 < 210000 := by omega
  -- the sat's epoch is the block's epoch
  have hep : satEpoch s = h / 210000 := by
    rcases Nat.lt_trichotomy (satEpoch s) (h / 210000) with hlt | heq | hgt
    · exfalso
      have hmono := epochStartingSat_mono (show satEpoch s + 1 ≤ h / 210000 by omega)
      have := hb2 (by omega)
      rw [hst] at h1
      omega
    · exact heq
    · exfalso
      have hmono := epochStartingSat_mono (show h / 210000 + 1 ≤ satEpoch s by omega)
      rw [hsucc, hst, hsv] at h2
      rw [hnext] at hmono
      generalize 5000000000 >>> (h / 210000) = sub at *
      generalize h - h / 210000 * 210000 = r at *
      have : (r + 1) * sub ≤ 210000 * sub := Nat.mul_le_mul_right _ (by omega)
      have hexp : (r + 1) * sub = r * sub + sub := by rw [Nat.add_mul]; simp
      omega
  unfold satRare satThird
  simp only [hep]
  have hne : epochSubsidy (h / 210000) ≠ 0 := by
    unfold epochSubsidy; simp only [he0, if_true]; omega
  simp only [hne, if_false, beq_iff_eq]
  have hes : epochSubsidy (h / 210000) = subsidy h := by
    unfold epochSubsidy; simp only [he0, if_true]; exact hsv.symm
  rw [hes]
  rw [hst] at h1
  rw [hsucc] at h2
  have hd : s - epochStartingSat (h / 210000) = (s - startingSat h) + (h - h / 210000 * 210000) * subsidy h := by
    rw [hst, hsv]; omega
  rw [hd, Nat.add_mul_mod_self_right, Nat.mod_eq_of_lt (by omega)]
  omega

/-! ### ranges stay inside one block's subsidy -/

/-- the range lies inside the subsidy range of one block -/
def InBlk (r : Nat × Nat) : Prop := ∃ h, startingSat h ≤ r.1 ∧ r.2 ≤ startingSat (h + 1)

def AllInBlk (rs : Ranges) : Prop := ∀ r ∈ rs, InBlk r

theorem InBlk.sub {r r' : Nat × Nat} (h : InBlk r') (h1 : r'.1 ≤ r.1) (h2 : r.2 ≤ r'.2) : InBlk r := by
  obtain ⟨b, hb1, hb2⟩ := h
  exact ⟨b, by omega, by omega⟩

/-- a split only produces sub-ranges -/
theorem Splits.subranges {a b : Ranges} (h : Splits a b) : ∀ r ∈ a, ∃ r' ∈ b, r'.1 ≤ r.1 ∧ r.2 ≤ r'.2 := by
  induction h with
  | nil => intro r hr; cases hr
  | keep r0 _ ih =>
    intro r hr
    rcases List.mem_cons.1 hr with rfl | hr
    · exact ⟨_, by simp, Nat.le_refl _, Nat.le_refl _⟩
    · obtain ⟨r', hr', h1, h2⟩ := ih r hr
      exact ⟨r', by simp [hr'], h1, h2⟩
  | @cut s m e a b hsm hme _ ih =>
    intro r hr
    rcases List.mem_cons.1 hr with rfl | hr
    · exact ⟨(s, e), by simp, Nat.le_refl _, by simp; omega⟩
    · obtain ⟨r', hr', h1, h2⟩ := ih r hr
      rcases List.mem_cons.1 hr' with rfl | hr'
      · exact ⟨(s, e), by simp, by simp at h1 ⊢; omega, h2⟩
      · exact ⟨r', by simp [hr'], h1, h2⟩

theorem AllInBlk.of_splits {a b : Ranges} (h : Splits a b) (hb : AllInBlk b) : AllInBlk a := by
  intro r hr
  obtain ⟨r', hr', h1, h2⟩ := h.subranges r hr
  exact (hb r' hr').sub h1 h2

theorem AllInBlk.perm {a b : Ranges} (h : a.Perm b) (ha : AllInBlk a) : AllInBlk b :=
  fun r hr => ha r (h.mem_iff.mpr hr)

theorem AllInBlk.append {a b : Ranges} : AllInBlk (a ++ b) ↔ AllInBlk a ∧ AllInBlk b := by
  constructor
  · intro h; exact ⟨fun r hr => h r (by simp [hr]), fun r hr => h r (by simp [hr])⟩
  · rintro ⟨h1, h2⟩ r hr
    rcases List.mem_append.mp hr with hr | hr
    · exact h1 r hr
    · exact h2 r hr

/-- `index_transaction_sats` only cuts ranges -/
theorem indexTransactionSats_splits (values : List Nat) (inputs : Ranges) (hq : WF inputs) (t : TxSats)
    (h : indexTransactionSats values inputs = some t) : Splits (t.outputs.flatten ++ t.leftover) inputs := by
  rw [indexTransactionSats_spec] at h
  split at h
  · cases h; exact splits_assignOutputsR values inputs hq
  · cases h

/-- one transaction keeps every range of the pool inside one block -/
theorem indexTx_inBlk (cfg : Cfg) (hs : cfg.indexSats = true) (blk : Block) (insOn : Bool) (off : Nat)
    (tx : Tx) (bc bc' : BlockCtx) (hw : WF (poolR bc)) (ha : AllInBlk (poolR bc))
    (h : indexTx cfg blk insOn off tx bc = .ok bc') : AllInBlk (poolR bc') := by
  have eff := indexTx_satEff cfg hs blk insOn off tx bc bc' h
  obtain ⟨bc1, inputs, outs, r, htake, hr, houts, hcache, hutxo, -, hcbi, hlost⟩ := eff.ex
  obtain ⟨d, hd⟩ := cacheIns_pool tx.txid outs bc1.cache
  rw [flatMap_ranges_eq_flatten, houts] at hd
  have hmemc : ∀ x ∈ allRanges bc'.cache, x ∈ allRanges bc1.cache ∨ x ∈ r.outputs.flatten := by
    intro x hx
    rw [hcache] at hx
    have := hd.mem_iff.1 (List.mem_append_left d hx)
    exact List.mem_append.1 this
  by_cases hoff : off = 0
  · subst hoff
    simp only [if_true] at htake hr hcbi hlost
    obtain ⟨rfl, -⟩ := htake
    have hwi : WF bc1.coinbaseInputs := by
      simp only [poolR] at hw
      exact (WF_append.1 (WF_append.1 hw).1).2
    have hsp := AllInBlk.of_splits (indexTransactionSats_splits _ _ hwi r hr)
      (by simp only [poolR] at ha; exact (AllInBlk.append.1 (AllInBlk.append.1 ha).1).2)
    obtain ⟨ho, hl⟩ := AllInBlk.append.1 hsp
    intro x hx
    simp only [poolR, hutxo, hcbi, hlost, List.mem_append] at hx
    rcases hx with ((hx | hx) | hx) | hx
    · exact ha x (by simp [poolR, hx])
    · rcases hmemc x hx with h1 | h1
      · exact ha x (by simp [poolR, h1])
      · exact ho x h1
    · exact ha x (by simp [poolR, hx])
    · rcases hx with hx | hx
      · exact ha x (by simp [poolR, hx])
      · exact hl x hx
  · simp only [hoff, if_false] at htake hr hcbi hlost
    obtain ⟨hperm, -, -, -, -⟩ := takeInputEntries_pool cfg tx.inputs bc [] bc1 inputs htake
    simp only [entryRanges, List.flatMap_nil, List.append_nil] at hperm
    have hin : ∀ x, x ∈ allRanges bc1.st.utxo ∨ x ∈ allRanges bc1.cache ∨ x ∈ List.flatMap (fun p => p.2.ranges) inputs →
        x ∈ poolR bc := by
      intro x hx
      have : x ∈ allRanges bc1.st.utxo ++ allRanges bc1.cache ++ List.flatMap (fun p => p.2.ranges) inputs := by
        simp only [List.mem_append]
        rcases hx with h | h | h
        · exact Or.inl (Or.inl h)
        · exact Or.inl (Or.inr h)
        · exact Or.inr h
      have := hperm.mem_iff.1 this
      simp only [poolR, List.mem_append] at this ⊢
      rcases this with h | h
      · exact Or.inl (Or.inl (Or.inl h))
      · exact Or.inl (Or.inl (Or.inr h))
    have hwi : WF (entryRanges inputs) := fun x hx => hw x (hin x (Or.inr (Or.inr hx)))
    have hai : AllInBlk (entryRanges inputs) := fun x hx => ha x (hin x (Or.inr (Or.inr hx)))
    have hsp := AllInBlk.of_splits (indexTransactionSats_splits _ _ hwi r hr) hai
    obtain ⟨ho, hl⟩ := AllInBlk.append.1 hsp
    intro x hx
    simp only [poolR, hutxo, hcbi, hlost, List.mem_append] at hx
    rcases hx with ((hx | hx) | hx) | hx
    · exact ha x (hin x (Or.inl hx))
    · rcases hmemc x hx with h1 | h1
      · exact ha x (hin x (Or.inr (Or.inl h1)))
      · exact ho x h1
    · rcases hx with hx | hx
      · exact ha x (by simp [poolR, hx])
      · exact hl x hx
    · exact ha x (by simp [poolR, hx])

theorem indexTxs_noncb_inBlk (cfg : Cfg) (hs : cfg.indexSats = true) (blk : Block) (insOn : Bool) (l : List (Nat × Tx))
    (hl : ∀ p ∈ l, p.1 ≠ 0) (bc bc' : BlockCtx) (B : Nat) (g : GoodR B (poolR bc)) (ha : AllInBlk (poolR bc))
    (h : indexTxs cfg blk insOn l bc = .ok bc') : GoodR B (poolR bc') ∧ AllInBlk (poolR bc') := by
  induction l generalizing bc with
  | nil => simp only [indexTxs, Outcome.ok.injEq] at h; subst h; exact ⟨g, ha⟩
  | cons p l ih =>
    obtain ⟨i, tx⟩ := p
    simp only [indexTxs] at h
    split at h
    · cases h
    · cases h
    · rename_i bc1 h1
      obtain ⟨g1, -, -⟩ := indexTx_noncb_full cfg hs blk insOn i (hl (i, tx) (by simp)) tx bc bc1 B g h1
      exact ih (fun p hp => hl p (by simp [hp])) bc1 g1 (indexTx_inBlk cfg hs blk insOn i tx bc bc1 g.1 ha h1) h

/-- **one block keeps every range inside one block's subsidy** -/
theorem applyBlock_inBlk (cfg : Cfg) (hs : cfg.indexSats = true) (st : State) (blk : Block)
    (st' : State) (evs : List Event) (hh : blk.height = st.height) (inv : SatsPartitioned st)
    (ha : AllInBlk (allRanges st.utxo)) (h : applyBlock cfg st blk = .ok (st', evs)) :
    AllInBlk (allRanges st'.utxo) := by
  simp only [applyBlock, hs, Bool.or_true, if_true] at h
  split at h
  · cases h
  · cases h
  · rename_i st1 ev1 h1
    split at h
    · cases h
    · cases h
    · rename_i st2 ev2 hr
      simp only [Outcome.ok.injEq, Prod.mk.injEq] at h
      obtain ⟨rfl, -⟩ := h
      have hss : SatSame st1 st2 := by
        split at hr
        · exact indexRunesBlock_satSame _ _ _ hr
        · simp only [Outcome.ok.injEq, Prod.mk.injEq] at hr
          rw [← hr.1]; exact SatSame.refl _
      show AllInBlk (allRanges st2.utxo)
      rw [hss.utxo]
      rw [indexUtxoEntries_eq] at h1
      have g0 : GoodR (startingSat (st.height + 1)) (poolR (bc0A cfg st blk)) := by
        simp only [poolR, bc0A, coinbaseInputsOf, allRanges_nil, List.append_nil, hs, true_and, hh]
        rw [startingSat_succ]
        split
        · rename_i hpos
          exact ((satsPartitioned_iff_goodR st).mp inv).add_range (by omega)
        · rename_i hz
          have : subsidy st.height = 0 := by omega
          rw [this]; simpa using (satsPartitioned_iff_goodR st).mp inv
      have a0 : AllInBlk (poolR (bc0A cfg st blk)) := by
        simp only [poolR, bc0A, coinbaseInputsOf, allRanges_nil, List.append_nil, hs, true_and]
        refine AllInBlk.append.2 ⟨ha, ?_⟩
        split
        · intro r hr'
          simp only [List.mem_singleton] at hr'
          subst hr'
          exact ⟨blk.height, Nat.le_refl _, by rw [startingSat_succ]; exact Nat.le_refl _⟩
        · intro r hr'; cases hr'
      split at h1
      · cases h1
      · cases h1
      · rename_i bc hbc
        simp only [Outcome.ok.injEq, Prod.mk.injEq] at h1
        obtain ⟨rfl, -⟩ := h1
        -- all ranges of the final pool are in one block
        have hfin : AllInBlk (poolR bc) ∧ NoRanges bc.ins := by
          have hn0 : NoRanges (bc0A cfg st blk).ins := by simp [NoRanges, bc0A]
          refine ⟨?_, indexTxs_noRanges cfg hs blk _ _ _ bc hbc hn0⟩
          cases htx : blk.txs with
          | nil =>
            have : blockOrder blk = [] := by simp [blockOrder, htx, enumFrom]
            rw [this] at hbc
            simp only [indexTxs, Outcome.ok.injEq] at hbc
            subst hbc; exact a0
          | cons t ts =>
            have ho : blockOrder blk = enumFrom 1 ts ++ [(0, t)] := by simp [blockOrder, htx, enumFrom]
            rw [ho] at hbc
            obtain ⟨bc1, hi1, hi2⟩ := indexTxs_append cfg blk _ _ _ _ bc hbc
            obtain ⟨g1, a1⟩ := indexTxs_noncb_inBlk cfg hs blk _ _ (enumFrom_succ_ne_zero 0 ts) _ bc1 _ g0 a0 hi1
            simp only [indexTxs] at hi2
            split at hi2
            · cases hi2
            · cases hi2
            · rename_i bc2 hi3
              simp only [Outcome.ok.injEq] at hi2
              subst hi2
              exact indexTx_inBlk cfg hs blk _ 0 t bc1 bc2 g1.1 a1 hi3
        obtain ⟨hpool, hn⟩ := hfin
        have hsp := special_ranges cfg blk (insOnOf cfg blk) bc hn
        obtain ⟨hu3, -⟩ := endState_utxo_height cfg blk (insOnOf cfg blk) bc
        obtain ⟨⟨d, hd⟩, -⟩ := flushCache_pool cfg
          (bc.cache ++ specialOf (endState cfg blk (insOnOf cfg blk) bc).2 bc.ins.unboundEntry)
          (endState cfg blk (insOnOf cfg blk) bc).1
        intro x hx
        have := hd.mem_iff.1 (List.mem_append_left d hx)
        rw [hu3, allRanges_append, hsp] at this
        apply hpool x
        simp only [poolR, List.mem_append] at this ⊢
        rcases this with h | h | h
        · exact Or.inl (Or.inl (Or.inl h))
        · exact Or.inl (Or.inl (Or.inr h))
        · exact Or.inr h

/-- **in every reachable state every sat range lies inside one block's subsidy range** -/
theorem reachable_inBlk (cfg : Cfg) (hs : cfg.indexSats = true) (chain : List Block) (hc : ChainHeights chain)
    (st : State) (evs : List Event) (h : run cfg chain = .ok (st, evs)) :
    SatsPartitioned st ∧ AllInBlk (allRanges st.utxo) := by
  have := run_induct cfg (fun pre st _ => ChainHeights pre →
      (SatsPartitioned st ∧ st.height = pre.length) ∧ AllInBlk (allRanges st.utxo))
    (fun _ => ⟨⟨satsPartitioned_empty.toSatsPartitioned, rfl⟩, by intro r hr; simp [allRanges] at hr⟩)
    (by
      intro pre st evs b st' ev' ih hb hch
      have hpre : ChainHeights pre := by
        intro i hi'
        have := hch i (by simp; omega)
        simpa [List.getElem_append_left hi'] using this
      obtain ⟨⟨inv, hlen⟩, ha⟩ := ih hpre
      have hbh : b.height = st.height := by
        have := hch pre.length (by simp)
        simpa [hlen] using this
      obtain ⟨inv', hh'⟩ := applyBlock_partition_full cfg hs st b st' ev' hbh inv hb
      exact ⟨⟨inv', by simp [hh', hlen]⟩, applyBlock_inBlk cfg hs st b st' ev' hbh inv ha hb⟩)
    chain st evs h
  exact ⟨(this hc).1.1, (this hc).2⟩

/-! ### a non-common sat starts a range -/

theorem rare_starts_range (rs : Ranges) (ha : AllInBlk rs) (base off s : Nat)
    (hs : (den rs)[off]? = some s) (hr : satRare s = true) : (s, base + off) ∈ rangeStarts rs base := by
  induction rs generalizing base off with
  | nil => simp at hs
  | cons r rs ih =>
    obtain ⟨a, b⟩ := r
    simp only [rangeStarts, List.mem_cons, Prod.mk.injEq]
    rw [den_cons] at hs
    by_cases hlt : off < b - a
    · rw [List.getElem?_append_left (by simpa using hlt), List.getElem?_range' hlt] at hs
      simp only [Nat.one_mul, Option.some.injEq] at hs
      obtain ⟨blk, h1, h2⟩ := ha (a, b) (by simp)
      simp only at h1 h2
      have := (satRare_in_block blk s (by omega) (by omega)).1 hr
      left
      constructor <;> omega
    · rw [List.getElem?_append_right (by simpa using hlt)] at hs
      simp only [List.length_range'] at hs
      right
      have := ih (fun r hr' => ha r (by simp [hr'])) (base + (b - a)) (off - (b - a)) hs
      have he : base + (b - a) + (off - (b - a)) = base + off := by omega
      rwa [he] at this

end Ord.Index
