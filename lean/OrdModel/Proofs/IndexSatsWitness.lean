import OrdModel.Index.Run
import OrdModel.Index.Find
/-
Witness chain for the C02 finding: two blocks with byte-identical coinbases (same txid), sat
index only.  Evaluated by the kernel in Theorems/C02.lean; replayed on the real indexer by the
`dup` stream of `eng_ix_sats` (corpus/C02/dup.stale-rare-row.txt).
-/
namespace Ord.Index
open Outcome

def satsOnlyCfg : Cfg := ⟨true, false, false, false, false, 0, 0, 0⟩

/-- a coinbase paying `value` to one output -/
def coinbaseTx (txid : Nat) (value : Nat) : Tx :=
  ⟨txid, [⟨OutPoint.null, false, none, []⟩], [⟨value, false, []⟩], [], none, 0⟩

/-- blocks 1 and 2 carry identical coinbases, hence the same txid (7) -/
def dupCoinbaseChain : List Block :=
  [⟨0, 0, 100, 0, [coinbaseTx 1 5000000000]⟩,
   ⟨1, 0, 101, 0, [coinbaseTx 7 5000000000]⟩,
   ⟨2, 0, 102, 0, [coinbaseTx 7 5000000000]⟩]

/-- the state after a chain, if indexing succeeds -/
def stateAfter (cfg : Cfg) (chain : List Block) : Option State :=
  match run cfg chain with
  | .ok (st, _) => some st
  | _ => none

end Ord.Index
