import OrdModel.Proofs.IndexRunesupplyEdicts
import OrdModel.Proofs.IndexRunesupplySpec
/-
Group `runesupply` (C09/C08): the allocation core of `indexRunesTx` — from the unallocated map
after the inputs were gathered (`takeInputs`) to the final per-output maps and the leftover burn
(mint, premine, edict loop, pointer / default output / cenotaph) — refines `Spec.allocate`.
`indexRunesTx` is first shown equal to a composition of named phases.
-/
namespace Ord.Index.RS
open Ord.Index Ord.Index.Spec Ord.Outcome

/-- the mint step of `index_runes`, verbatim from `indexRunesTx` -/
def mintStep (st0 : State) (un0 : Balances) (blk : Block) (tx : Tx) (art : Artifact) :
    State × Outcome Balances × List Event :=
  match (match art with | .runestone _ _ m _ => m | .cenotaph _ m => m) with
  | none => (st0, .ok un0, [])
  | some id =>
    match mint st0 blk.height id with
    | (s, none) => (s, .ok un0, [])
    | (s, some amount) => (s, addLot un0 id amount, [.runeMinted amount blk.height id tx.txid])

/-- premine + edict loop, verbatim from `indexRunesTx` -/
def afterEdictsOf (tx : Tx) (art : Artifact) (et : Option (RuneId × Nat)) (un1 : Balances) (alloc0 : Allocated) :
    Outcome (Balances × Allocated) :=
  match art with
  | .cenotaph .. => .ok (un1, alloc0)
  | .runestone edicts etching _ _ =>
    let un2O : Outcome Balances := match et with
      | some (id, _) => addLot un1 id ((etching.bind (·.premine)).getD 0)
      | none => .ok un1
    match un2O with
    | .panic s => .panic s
    | .err e => .err e
    | .ok un2 => applyEdicts tx (et.map (·.1)) edicts un2 alloc0

/-- mint, etching, edicts (the first half of `index_runes`) -/
def phase1 (st0 : State) (un0 : Balances) (alloc0 : Allocated) (blk : Block) (txIndex : Nat) (tx : Tx) :
    Outcome (State × Balances × Allocated × List Event) :=
  match tx.artifact with
  | none => .ok (st0, un0, alloc0, [])
  | some art =>
    match mintStep st0 un0 blk tx art with
    | (st1, un1O, ev1) =>
    match un1O with
    | .panic s => .panic s
    | .err e => .err e
    | .ok un1 =>
      match etched st1 blk txIndex tx art with
      | .panic s => .panic s
      | .err e => .err e
      | .ok (st2, et) =>
        match afterEdictsOf tx art et un1 alloc0 with
        | .panic s => .panic s
        | .err e => .err e
        | .ok (un3, alloc1) =>
          match et with
          | some (id, rune) =>
            match createRuneEntry st2 blk tx art id rune with
            | (st3, ev2) => .ok (st3, un3, alloc1, ev1 ++ ev2)
          | none => .ok (st2, un3, alloc1, ev1)

/-- leftovers (the second half), verbatim from `indexRunesTx` -/
def phase2 (tx : Tx) (un : Balances) (alloc : Allocated) : Outcome (Allocated × Balances) :=
  match tx.artifact with
  | some (.cenotaph ..) =>
    match addAllTo un [] false with
    | .ok b => .ok (alloc, b)
    | .panic s => .panic s
    | .err e => .err e
  | _ =>
    let pointer : Option Nat := match tx.artifact with
      | some (.runestone _ _ _ p) => p
      | _ => none
    let firstNonOpReturn := ((enumFrom 0 tx.outputs).find? (fun (_, o) => !o.opReturn)).map (·.1)
    match pointer with
    | some p =>
      if p ≥ alloc.length then .panic "assert!(pointer < allocated.len())"
      else match addAllTo un (alloc[p]?.getD []) true with
        | .ok m => .ok (alloc.set p m, [])
        | .panic s => .panic s
        | .err e => .err e
    | none =>
      match firstNonOpReturn with
      | some v =>
        match addAllTo un (alloc[v]?.getD []) true with
        | .ok m => .ok (alloc.set v m, [])
        | .panic s => .panic s
        | .err e => .err e
      | none =>
        match addAllTo un [] true with
        | .ok b => .ok (alloc, b)
        | .panic s => .panic s
        | .err e => .err e

/-- `indexRunesTx` is the composition of its phases -/
theorem indexRunesTx_eq (st : State) (blk : Block) (txIndex : Nat) (tx : Tx) (blockBurned : Balances) :
    indexRunesTx st blk txIndex tx blockBurned =
    match takeInputs tx.inputs st [] with
    | .panic s => .panic s
    | .err e => .err e
    | .ok (st0, un0) =>
      match phase1 st0 un0 (tx.outputs.map (fun _ => [])) blk txIndex tx with
      | .panic s => .panic s
      | .err e => .err e
      | .ok (st3, un, alloc, evs) =>
        match phase2 tx un alloc with
        | .panic s => .panic s
        | .err e => .err e
        | .ok (alloc2, burned0) =>
          match writeOutputs blk tx (enumFrom 0 alloc2) st3 burned0 evs with
          | .panic s => .panic s
          | .err e => .err e
          | .ok (st4, burned, evs2) =>
            match addAllTo burned blockBurned false with
            | .panic s => .panic s
            | .err e => .err e
            | .ok bb =>
              .ok (st4, bb, evs2 ++ burned.map (fun (id, a) => Event.runeBurned a blk.height id tx.txid)) := by
  unfold indexRunesTx phase1 phase2 mintStep afterEdictsOf
  rfl

/-! ### what the transaction mints and etches, as the model's `mint` / `etched` say -/

def mintIdOf : Artifact → Option RuneId
  | .runestone _ _ m _ => m
  | .cenotaph _ m => m

/-- `(id, amount)` when the transaction's mint is open (`mint`, C10's subject) -/
def txMint (st : State) (height : Nat) (tx : Tx) : Option (RuneId × Nat) :=
  match tx.artifact with
  | none => none
  | some art =>
    match mintIdOf art with
    | none => none
    | some id => (mint st height id).2.map (fun a => (id, a))

def stAfterMint (st : State) (height : Nat) (tx : Tx) : State :=
  match tx.artifact with
  | none => st
  | some art =>
    match mintIdOf art with
    | none => st
    | some id => (mint st height id).1

/-- the premine an etching brings; "the etched rune has supply zero" in a cenotaph -/
def premineOf : Artifact → Nat
  | .runestone _ e _ _ => (e.bind (·.premine)).getD 0
  | .cenotaph .. => 0

/-- `(id, premine)` when the transaction etches a rune (`etched`, C11's subject) -/
def txEtched (st : State) (blk : Block) (txIndex : Nat) (tx : Tx) : Option (RuneId × Nat) :=
  match tx.artifact with
  | none => none
  | some art =>
    match etched (stAfterMint st blk.height tx) blk txIndex tx art with
    | .ok (_, some (id, _)) => some (id, premineOf art)
    | _ => none

theorem mint_balances (st : State) (h : Nat) (id : RuneId) : (mint st h id).1.balances = st.balances := by
  unfold mint
  split
  · rfl
  · split <;> rfl

theorem etched_balances {st : State} {blk : Block} {i : Nat} {tx : Tx} {art : Artifact} {st2 : State}
    {et : Option (RuneId × Nat)} (h : etched st blk i tx art = .ok (st2, et)) : st2.balances = st.balances := by
  unfold etched at h
  simp only at h
  split at h
  · simp only [Outcome.ok.injEq, Prod.mk.injEq] at h; rw [← h.1]
  · split at h
    · simp only [Outcome.ok.injEq, Prod.mk.injEq] at h; rw [← h.1]
    · split at h
      · exact absurd h (by simp)
      · exact absurd h (by simp)
      · simp only [Outcome.ok.injEq, Prod.mk.injEq] at h; rw [← h.1]
      · simp only [Outcome.ok.injEq, Prod.mk.injEq] at h; rw [← h.1]
  · simp only [Outcome.ok.injEq, Prod.mk.injEq] at h; rw [← h.1]

theorem createRuneEntry_balances (st : State) (blk : Block) (tx : Tx) (art : Artifact) (id : RuneId) (rune : Nat) :
    (createRuneEntry st blk tx art id rune).1.balances = st.balances := by
  unfold createRuneEntry
  simp only
  split <;> rfl

/-- what one rune has unallocated before the edicts -/
def u0Of (st0 : State) (un0 : Balances) (blk : Block) (txIndex : Nat) (tx : Tx) (r : RuneId) : Nat :=
  unallocated (lk un0) (txMint st0 blk.height tx) (txEtched st0 blk txIndex tx) r

theorem start_of_empty (un : Balances) (alloc0 : Allocated) (hrows : ∀ v, rowAt alloc0 v = []) (r : RuneId) :
    absFlow un alloc0 r = Flow.start (lk un r) := by
  apply Flow.ext'
  · rfl
  · intro v; simp [absFlow, Flow.start, hrows v]

theorem mintStep_spec (st0 : State) (un0 : Balances) (blk : Block) (tx : Tx) (art : Artifact)
    (hart : tx.artifact = some art) :
    (mintStep st0 un0 blk tx art).1 = stAfterMint st0 blk.height tx ∧
    ∀ un1, (mintStep st0 un0 blk tx art).2.1 = .ok un1 → (keys un0).Nodup →
      (keys un1).Nodup ∧ ∀ r, lk un1 r = lk un0 r +
        (match txMint st0 blk.height tx with | some (id, a) => if id = r then a else 0 | none => 0) := by
  unfold mintStep stAfterMint txMint
  rw [hart]
  simp only
  cases art with
  | runestone edicts etching m pointer =>
    cases m with
    | none =>
      simp only [mintIdOf]
      refine ⟨trivial, fun un1 h hn => ?_⟩
      simp only [Outcome.ok.injEq] at h
      subst h
      exact ⟨hn, fun r => by simp⟩
    | some id =>
      simp only [mintIdOf]
      cases hmint : mint st0 blk.height id with
      | mk s o =>
        cases o with
        | none =>
          simp only [Option.map_none]
          refine ⟨trivial, fun un1 h hn => ?_⟩
          simp only [Outcome.ok.injEq] at h
          subst h
          exact ⟨hn, fun r => by simp⟩
        | some amount =>
          simp only [Option.map_some]
          refine ⟨trivial, fun un1 h hn => ?_⟩
          exact ⟨addLot_nodup h hn, fun r => addLot_lk h r⟩
  | cenotaph e m =>
    cases m with
    | none =>
      simp only [mintIdOf]
      refine ⟨trivial, fun un1 h hn => ?_⟩
      simp only [Outcome.ok.injEq] at h
      subst h
      exact ⟨hn, fun r => by simp⟩
    | some id =>
      simp only [mintIdOf]
      cases hmint : mint st0 blk.height id with
      | mk s o =>
        cases o with
        | none =>
          simp only [Option.map_none]
          refine ⟨trivial, fun un1 h hn => ?_⟩
          simp only [Outcome.ok.injEq] at h
          subst h
          exact ⟨hn, fun r => by simp⟩
        | some amount =>
          simp only [Option.map_some]
          refine ⟨trivial, fun un1 h hn => ?_⟩
          exact ⟨addLot_nodup h hn, fun r => addLot_lk h r⟩

end Ord.Index.RS
