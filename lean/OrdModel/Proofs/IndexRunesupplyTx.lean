import OrdModel.Proofs.IndexRunesupplyEdicts
import OrdModel.Proofs.IndexRunesupplySpec
/-
Group `runesupply` (C09/C08): the allocation core of `indexRunesTx` — from the unallocated map
after the inputs were gathered (`takeInputs`) to the final per-output maps and the leftover burn
(mint, premine, edict loop, pointer / default output / cenotaph) — refines `Spec.allocate`.
`indexRunesTx` is first shown equal to a composition of named phases.
-/
namespace Ord.Index.RS
open Ord.Index Ord.Index.Spec Ord.Outcome

/-- the mint step of `index_runes`, verbatim from `indexRunesTx` -/
def mintStep (st0 : State) (un0 : Balances) (blk : Block) (tx : Tx) (art : Artifact) :
    State × Outcome Balances × List Event :=
  match (match art with | .runestone _ _ m _ => m | .cenotaph _ m => m) with
  | none => (st0, .ok un0, [])
  | some id =>
    match mint st0 blk.height id with
    | (s, none) => (s, .ok un0, [])
    | (s, some amount) => (s, addLot un0 id amount, [.runeMinted amount blk.height id tx.txid])

/-- premine + edict loop, verbatim from `indexRunesTx` -/
def afterEdictsOf (tx : Tx) (art : Artifact) (et : Option (RuneId × Nat)) (un1 : Balances) (alloc0 : Allocated) :
    Outcome (Balances × Allocated) :=
  match art with
  | .cenotaph .. => .ok (un1, alloc0)
  | .runestone edicts etching _ _ =>
    let un2O : Outcome Balances := match et with
      | some (id, _) => addLot un1 id ((etching.bind (·.premine)).getD 0)
      | none => .ok un1
    match un2O with
    | .panic s => .panic s
    | .err e => .err e
    | .ok un2 => applyEdicts tx (et.map (·.1)) edicts un2 alloc0

/-- mint, etching, edicts (the first half of `index_runes`) -/
def phase1 (st0 : State) (un0 : Balances) (alloc0 : Allocated) (blk : Block) (txIndex : Nat) (tx : Tx) :
    Outcome (State × Balances × Allocated × List Event) :=
  match tx.artifact with
  | none => .ok (st0, un0, alloc0, [])
  | some art =>
    match mintStep st0 un0 blk tx art with
    | (st1, un1O, ev1) =>
    match un1O with
    | .panic s => .panic s
    | .err e => .err e
    | .ok un1 =>
      match etched st1 blk txIndex tx art with
      | .panic s => .panic s
      | .err e => .err e
      | .ok (st2, et) =>
        match afterEdictsOf tx art et un1 alloc0 with
        | .panic s => .panic s
        | .err e => .err e
        | .ok (un3, alloc1) =>
          match et with
          | some (id, rune) =>
            match createRuneEntry st2 blk tx art id rune with
            | (st3, ev2) => .ok (st3, un3, alloc1, ev1 ++ ev2)
          | none => .ok (st2, un3, alloc1, ev1)

/-- leftovers (the second half), verbatim from `indexRunesTx` -/
def phase2 (tx : Tx) (un : Balances) (alloc : Allocated) : Outcome (Allocated × Balances) :=
  match tx.artifact with
  | some (.cenotaph ..) =>
    match addAllTo un [] false with
    | .ok b => .ok (alloc, b)
    | .panic s => .panic s
    | .err e => .err e
  | _ =>
    let pointer : Option Nat := match tx.artifact with
      | some (.runestone _ _ _ p) => p
      | _ => none
    let firstNonOpReturn := ((enumFrom 0 tx.outputs).find? (fun (_, o) => !o.opReturn)).map (·.1)
    match pointer with
    | some p =>
      if p ≥ alloc.length then .panic "assert!(pointer < allocated.len())"
      else match addAllTo un (alloc[p]?.getD []) true with
        | .ok m => .ok (alloc.set p m, [])
        | .panic s => .panic s
        | .err e => .err e
    | none =>
      match firstNonOpReturn with
      | some v =>
        match addAllTo un (alloc[v]?.getD []) true with
        | .ok m => .ok (alloc.set v m, [])
        | .panic s => .panic s
        | .err e => .err e
      | none =>
        match addAllTo un [] true with
        | .ok b => .ok (alloc, b)
        | .panic s => .panic s
        | .err e => .err e

/-- `indexRunesTx` is the composition of its phases -/
theorem indexRunesTx_eq (st : State) (blk : Block) (txIndex : Nat) (tx : Tx) (blockBurned : Balances) :
    indexRunesTx st blk txIndex tx blockBurned =
    match takeInputs tx.inputs st [] with
    | .panic s => .panic s
    | .err e => .err e
    | .ok (st0, un0) =>
      match phase1 st0 un0 (tx.outputs.map (fun _ => [])) blk txIndex tx with
      | .panic s => .panic s
      | .err e => .err e
      | .ok (st3, un, alloc, evs) =>
        match phase2 tx un alloc with
        | .panic s => .panic s
        | .err e => .err e
        | .ok (alloc2, burned0) =>
          match writeOutputs blk tx (enumFrom 0 alloc2) st3 burned0 evs with
          | .panic s => .panic s
          | .err e => .err e
          | .ok (st4, burned, evs2) =>
            match addAllTo burned blockBurned false with
            | .panic s => .panic s
            | .err e => .err e
            | .ok bb =>
              .ok (st4, bb, evs2 ++ burned.map (fun (id, a) => Event.runeBurned a blk.height id tx.txid)) := by
  unfold indexRunesTx phase1 phase2 mintStep afterEdictsOf
  rfl

/-! ### what the transaction mints and etches, as the model's `mint` / `etched` say -/

def mintIdOf : Artifact → Option RuneId
  | .runestone _ _ m _ => m
  | .cenotaph _ m => m

/-- `(id, amount)` when the transaction's mint is open (`mint`, C10's subject) -/
def txMint (st : State) (height : Nat) (tx : Tx) : Option (RuneId × Nat) :=
  match tx.artifact with
  | none => none
  | some art =>
    match mintIdOf art with
    | none => none
    | some id => (mint st height id).2.map (fun a => (id, a))

def stAfterMint (st : State) (height : Nat) (tx : Tx) : State :=
  match tx.artifact with
  | none => st
  | some art =>
    match mintIdOf art with
    | none => st
    | some id => (mint st height id).1

/-- the premine an etching brings; "the etched rune has supply zero" in a cenotaph -/
def premineOf : Artifact → Nat
  | .runestone _ e _ _ => (e.bind (·.premine)).getD 0
  | .cenotaph .. => 0

/-- `(id, premine)` when the transaction etches a rune (`etched`, C11's subject) -/
def txEtched (st : State) (blk : Block) (txIndex : Nat) (tx : Tx) : Option (RuneId × Nat) :=
  match tx.artifact with
  | none => none
  | some art =>
    match etched (stAfterMint st blk.height tx) blk txIndex tx art with
    | .ok (_, some (id, _)) => some (id, premineOf art)
    | _ => none

theorem mint_balances (st : State) (h : Nat) (id : RuneId) : (mint st h id).1.balances = st.balances := by
  unfold mint
  split
  · rfl
  · split <;> rfl

theorem etched_balances {st : State} {blk : Block} {i : Nat} {tx : Tx} {art : Artifact} {st2 : State}
    {et : Option (RuneId × Nat)} (h : etched st blk i tx art = .ok (st2, et)) : st2.balances = st.balances := by
  unfold etched at h
  simp only at h
  split at h
  · simp only [Outcome.ok.injEq, Prod.mk.injEq] at h; rw [← h.1]
  · split at h
    · simp only [Outcome.ok.injEq, Prod.mk.injEq] at h; rw [← h.1]
    · split at h
      · exact absurd h (by simp)
      · exact absurd h (by simp)
      · simp only [Outcome.ok.injEq, Prod.mk.injEq] at h; rw [← h.1]
      · simp only [Outcome.ok.injEq, Prod.mk.injEq] at h; rw [← h.1]
  · simp only [Outcome.ok.injEq, Prod.mk.injEq] at h; rw [← h.1]

theorem createRuneEntry_balances (st : State) (blk : Block) (tx : Tx) (art : Artifact) (id : RuneId) (rune : Nat) :
    (createRuneEntry st blk tx art id rune).1.balances = st.balances := by
  unfold createRuneEntry
  simp only
  split <;> rfl

/-- what one rune has unallocated before the edicts -/
def u0Of (st0 : State) (un0 : Balances) (blk : Block) (txIndex : Nat) (tx : Tx) (r : RuneId) : Nat :=
  unallocated (lk un0) (txMint st0 blk.height tx) (txEtched st0 blk txIndex tx) r

theorem start_of_empty (un : Balances) (alloc0 : Allocated) (hrows : ∀ v, rowAt alloc0 v = []) (r : RuneId) :
    absFlow un alloc0 r = Flow.start (lk un r) := by
  apply Flow.ext'
  · rfl
  · intro v; simp [absFlow, Flow.start, hrows v]

theorem mintStep_spec (st0 : State) (un0 : Balances) (blk : Block) (tx : Tx) (art : Artifact)
    (hart : tx.artifact = some art) :
    (mintStep st0 un0 blk tx art).1 = stAfterMint st0 blk.height tx ∧
    ∀ un1, (mintStep st0 un0 blk tx art).2.1 = .ok un1 → (keys un0).Nodup →
      (keys un1).Nodup ∧ ∀ r, lk un1 r = lk un0 r +
        (match txMint st0 blk.height tx with | some (id, a) => if id = r then a else 0 | none => 0) := by
  unfold mintStep stAfterMint txMint
  rw [hart]
  simp only
  cases art with
  | runestone edicts etching m pointer =>
    cases m with
    | none =>
      simp only [mintIdOf]
      refine ⟨trivial, fun un1 h hn => ?_⟩
      simp only [Outcome.ok.injEq] at h
      subst h
      exact ⟨hn, fun r => by simp⟩
    | some id =>
      simp only [mintIdOf]
      cases hmint : mint st0 blk.height id with
      | mk s o =>
        cases o with
        | none =>
          simp only [Option.map_none]
          refine ⟨trivial, fun un1 h hn => ?_⟩
          simp only [Outcome.ok.injEq] at h
          subst h
          exact ⟨hn, fun r => by simp⟩
        | some amount =>
          simp only [Option.map_some]
          refine ⟨trivial, fun un1 h hn => ?_⟩
          exact ⟨addLot_nodup h hn, fun r => addLot_lk h r⟩
  | cenotaph e m =>
    cases m with
    | none =>
      simp only [mintIdOf]
      refine ⟨trivial, fun un1 h hn => ?_⟩
      simp only [Outcome.ok.injEq] at h
      subst h
      exact ⟨hn, fun r => by simp⟩
    | some id =>
      simp only [mintIdOf]
      cases hmint : mint st0 blk.height id with
      | mk s o =>
        cases o with
        | none =>
          simp only [Option.map_none]
          refine ⟨trivial, fun un1 h hn => ?_⟩
          simp only [Outcome.ok.injEq] at h
          subst h
          exact ⟨hn, fun r => by simp⟩
        | some amount =>
          simp only [Option.map_some]
          refine ⟨trivial, fun un1 h hn => ?_⟩
          exact ⟨addLot_nodup h hn, fun r => addLot_lk h r⟩


theorem stAfterMint_balances (st : State) (h : Nat) (tx : Tx) : (stAfterMint st h tx).balances = st.balances := by
  unfold stAfterMint
  split
  · rfl
  · split
    · rfl
    · exact mint_balances _ _ _

theorem txEtched_of {st0 : State} {blk : Block} {i : Nat} {tx : Tx} {art : Artifact} {st2 : State}
    {et : Option (RuneId × Nat)} (hart : tx.artifact = some art)
    (hE : etched (stAfterMint st0 blk.height tx) blk i tx art = .ok (st2, et)) :
    txEtched st0 blk i tx = et.map (fun p => (p.1, premineOf art)) := by
  unfold txEtched
  rw [hart]
  simp only
  rw [hE]
  cases et with
  | none => rfl
  | some p => obtain ⟨id, rune⟩ := p; rfl

/-- **phase 1 refines the specification**: after mint, premine and the edict loop, rune `r`'s
numbers are the documented flow from `u0 = inputs + mint + premine`. -/
theorem phase1_ok {st0 : State} {un0 : Balances} {alloc0 : Allocated} {blk : Block} {i : Nat} {tx : Tx}
    {st3 : State} {un : Balances} {alloc : Allocated} {evs : List Event}
    (h : phase1 st0 un0 alloc0 blk i tx = .ok (st3, un, alloc, evs))
    (hg : Good un0 alloc0) (hlen : alloc0.length = tx.outputs.length) (hrows : ∀ v, rowAt alloc0 v = []) :
    Good un alloc ∧ alloc.length = tx.outputs.length ∧ st3.balances = st0.balances ∧
    ∀ r, absFlow un alloc r =
      match Message.ofArtifact tx.artifact with
      | .runestone edicts _ =>
        flow (outsOf tx) ((txEtched st0 blk i tx).map (·.1)) r edicts (Flow.start (u0Of st0 un0 blk i tx r))
      | _ => Flow.start (u0Of st0 un0 blk i tx r) := by
  unfold phase1 at h
  cases hart : tx.artifact with
  | none =>
    rw [hart] at h
    simp only [Outcome.ok.injEq, Prod.mk.injEq] at h
    obtain ⟨rfl, rfl, rfl, rfl⟩ := h
    refine ⟨hg, hlen, rfl, fun r => ?_⟩
    simp only [Message.ofArtifact]
    rw [start_of_empty _ _ hrows]
    simp [u0Of, unallocated, txMint, txEtched, hart]
  | some art =>
    rw [hart] at h
    simp only at h
    have hsp := mintStep_spec st0 un0 blk tx art hart
    cases hms : mintStep st0 un0 blk tx art with
    | mk st1 rest =>
      obtain ⟨un1O, ev1⟩ := rest
      rw [hms] at h hsp
      simp only at h hsp
      obtain ⟨hst1, hun1⟩ := hsp
      cases un1O with
      | panic s => exact absurd h (by simp)
      | err e => exact absurd h (by simp)
      | ok un1 =>
        simp only at h
        obtain ⟨hn1, hlk1⟩ := hun1 un1 rfl hg.1
        cases hE : etched st1 blk i tx art with
        | panic s => rw [hE] at h; exact absurd h (by simp)
        | err e => rw [hE] at h; exact absurd h (by simp)
        | ok p2 =>
          obtain ⟨st2, et⟩ := p2
          rw [hE] at h
          simp only at h
          have hst2 : st2.balances = st0.balances := by
            rw [etched_balances hE, hst1, stAfterMint_balances]
          have htE : txEtched st0 blk i tx = et.map (fun p => (p.1, premineOf art)) :=
            txEtched_of hart (hst1 ▸ hE)
          cases hA : afterEdictsOf tx art et un1 alloc0 with
          | panic s => rw [hA] at h; exact absurd h (by simp)
          | err e => rw [hA] at h; exact absurd h (by simp)
          | ok p3 =>
            obtain ⟨un3, alloc1⟩ := p3
            rw [hA] at h
            simp only at h
            -- the result state
            have hres : un = un3 ∧ alloc = alloc1 ∧ st3.balances = st0.balances := by
              cases et with
              | none =>
                simp only [Outcome.ok.injEq, Prod.mk.injEq] at h
                obtain ⟨rfl, rfl, rfl, _⟩ := h
                exact ⟨rfl, rfl, hst2⟩
              | some p =>
                obtain ⟨id, rune⟩ := p
                simp only [Outcome.ok.injEq, Prod.mk.injEq] at h
                obtain ⟨rfl, rfl, rfl, _⟩ := h
                exact ⟨rfl, rfl, by rw [createRuneEntry_balances]; exact hst2⟩
            obtain ⟨rfl, rfl, hb3⟩ := hres
            -- the allocation
            cases art with
            | cenotaph ce cm =>
              simp only [afterEdictsOf, Outcome.ok.injEq, Prod.mk.injEq] at hA
              obtain ⟨rfl, rfl⟩ := hA
              refine ⟨⟨hn1, hg.2⟩, hlen, hb3, fun r => ?_⟩
              simp only [Message.ofArtifact]
              rw [start_of_empty _ _ hrows]
              congr 1
              rw [hlk1 r]
              simp only [u0Of, unallocated, htE]
              cases et with
              | none => simp <;> rfl
              | some p => simp [premineOf] <;> rfl
            | runestone edicts etching m ptr =>
              simp only [afterEdictsOf] at hA
              have key : ∀ un2, (keys un2).Nodup → (∀ r, lk un2 r = u0Of st0 un0 blk i tx r) →
                  applyEdicts tx (et.map (·.1)) edicts un2 alloc0 = .ok (un, alloc) →
                  Good un alloc ∧ alloc.length = tx.outputs.length ∧ st3.balances = st0.balances ∧
                  ∀ r, absFlow un alloc r =
                    match Message.ofArtifact (some (Artifact.runestone edicts etching m ptr)) with
                    | .runestone edicts _ =>
                      flow (outsOf tx) ((txEtched st0 blk i tx).map (·.1)) r edicts (Flow.start (u0Of st0 un0 blk i tx r))
                    | _ => Flow.start (u0Of st0 un0 blk i tx r) := by
                intro un2 hn2 hlk2 hA2
                obtain ⟨hg3, hl3, hf3⟩ := applyEdicts_ok tx (et.map (·.1)) edicts un2 alloc0 un alloc hA2 ⟨hn2, hg.2⟩ hlen
                refine ⟨hg3, hl3.trans hlen, hb3, fun r => ?_⟩
                simp only [Message.ofArtifact]
                rw [hf3 r, start_of_empty _ _ hrows, hlk2 r, htE]
                congr 1
                cases et <;> rfl
              cases et with
              | none =>
                simp only at hA
                refine key un1 hn1 (fun r => ?_) hA
                rw [hlk1 r]
                simp only [u0Of, unallocated, htE]
                simp <;> rfl
              | some p =>
                obtain ⟨id, rune⟩ := p
                simp only at hA
                cases hadd : addLot un1 id ((etching.bind (·.premine)).getD 0) with
                | panic s => rw [hadd] at hA; exact absurd hA (by simp)
                | err e => rw [hadd] at hA; exact absurd hA (by simp)
                | ok un2 =>
                  rw [hadd] at hA
                  simp only at hA
                  refine key un2 (addLot_nodup hadd hn1) (fun r => ?_) hA
                  rw [addLot_lk hadd r, hlk1 r]
                  simp only [u0Of, unallocated, htE]
                  simp [premineOf] <;> rfl


/-- the default output of `settle` -/
def dfltOf (tx : Tx) : Option Nat :=
  match Message.ofArtifact tx.artifact with
  | .runestone _ (some p) => some p
  | _ => (eligible (outsOf tx)).head?

/-- leftovers of one rune: to the default output if there is one -/
def leftover (dflt : Option Nat) (f : Flow) : Flow :=
  match dflt with
  | some v => f.give v f.un
  | none => f

theorem find_first_from : ∀ (outs : List TxOut) (j : Nat),
    ((enumFrom j outs).find? (fun (_, o) => !o.opReturn)).map (·.1)
      = (eligibleFrom j (outs.map (·.opReturn))).head? := by
  intro outs
  induction outs with
  | nil => intro j; simp [enumFrom, eligibleFrom]
  | cons o rest ih =>
    intro j
    simp only [enumFrom, List.map_cons, eligibleFrom, List.find?_cons]
    by_cases h : o.opReturn = true
    · simp [h, ih]
    · have : o.opReturn = false := by simpa using h
      simp [this]

theorem find_first (tx : Tx) :
    ((enumFrom 0 tx.outputs).find? (fun (_, o) => !o.opReturn)).map (·.1) = (eligible (outsOf tx)).head? :=
  find_first_from tx.outputs 0

/-- adding the leftovers `un` to output `v` -/
theorem add_leftovers {un : Balances} {alloc : Allocated} {v : Nat} {m : Balances}
    (h : addAllTo un (alloc[v]?.getD []) true = .ok m) (hg : Good un alloc) (hv : v < alloc.length) :
    (∀ w, (keys (rowAt (alloc.set v m) w)).Nodup) ∧ (alloc.set v m).length = alloc.length ∧
    ∀ r w, lk (rowAt (alloc.set v m) w) r = ((absFlow un alloc r).give v (absFlow un alloc r).un).out w := by
  obtain ⟨hn, hl⟩ := addAllTo_spec un _ m true hg.1 (hg.2 v) h
  refine ⟨fun w => ?_, by simp, fun r w => ?_⟩
  · rw [rowAt_set _ _ _ hv]; split
    · exact hn
    · exact hg.2 w
  · rw [rowAt_set _ _ _ hv]
    by_cases hw : w = v
    · subst hw
      simp only [if_true, Flow.give, absFlow]
      rw [hl r]
    · simp [hw, Flow.give, absFlow]

/-- **phase 2 = the documented leftover rule** -/
theorem phase2_ok {tx : Tx} {un : Balances} {alloc alloc2 : Allocated} {burned0 : Balances}
    (h : phase2 tx un alloc = .ok (alloc2, burned0)) (hg : Good un alloc)
    (hlen : alloc.length = tx.outputs.length) :
    (∀ w, (keys (rowAt alloc2 w)).Nodup) ∧ (keys burned0).Nodup ∧ alloc2.length = tx.outputs.length ∧
    ∀ r,
      match Message.ofArtifact tx.artifact with
      | .cenotaph => (∀ w, lk (rowAt alloc2 w) r = (absFlow un alloc r).out w) ∧ lk burned0 r = (absFlow un alloc r).un
      | _ => (∀ w, lk (rowAt alloc2 w) r = (leftover (dfltOf tx) (absFlow un alloc r)).out w) ∧
             lk burned0 r = (leftover (dfltOf tx) (absFlow un alloc r)).un := by
  unfold phase2 at h
  rw [find_first] at h
  have hnil : (keys ([] : Balances)).Nodup := by simp
  -- the three ways of handling leftovers
  have toBurn : ∀ skip, addAllTo un [] skip = .ok burned0 → alloc2 = alloc →
      (∀ w, (keys (rowAt alloc2 w)).Nodup) ∧ (keys burned0).Nodup ∧ alloc2.length = tx.outputs.length ∧
      ∀ r, (∀ w, lk (rowAt alloc2 w) r = (absFlow un alloc r).out w) ∧ lk burned0 r = (absFlow un alloc r).un := by
    intro skip hb ha
    subst ha
    obtain ⟨hn, hl⟩ := addAllTo_spec un [] burned0 skip hg.1 hnil hb
    exact ⟨hg.2, hn, hlen, fun r => ⟨fun w => rfl, by rw [hl r]; simp [absFlow]⟩⟩
  have toOut : ∀ v m, v < alloc.length → addAllTo un (alloc[v]?.getD []) true = .ok m → alloc2 = alloc.set v m → burned0 = [] →
      (∀ w, (keys (rowAt alloc2 w)).Nodup) ∧ (keys burned0).Nodup ∧ alloc2.length = tx.outputs.length ∧
      ∀ r, (∀ w, lk (rowAt alloc2 w) r = (leftover (some v) (absFlow un alloc r)).out w) ∧
           lk burned0 r = (leftover (some v) (absFlow un alloc r)).un := by
    intro v m hv hm ha hb
    subst ha; subst hb
    obtain ⟨h1, h2, h3⟩ := add_leftovers hm hg hv
    exact ⟨h1, hnil, h2.trans hlen, fun r => ⟨fun w => h3 r w, by simp [leftover, Flow.give]⟩⟩
  cases hart : tx.artifact with
  | none =>
    rw [hart] at h
    simp only at h
    have hd : dfltOf tx = (eligible (outsOf tx)).head? := by simp [dfltOf, hart, Message.ofArtifact]
    simp only [Message.ofArtifact, hd]
    cases hfe : (eligible (outsOf tx)).head? with
    | none =>
      rw [hfe] at h
      simp only at h
      split at h
      · rename_i b hb
        simp only [Outcome.ok.injEq, Prod.mk.injEq] at h
        obtain ⟨rfl, rfl⟩ := h
        exact toBurn true hb rfl
      · exact absurd h (by simp)
      · exact absurd h (by simp)
    | some v =>
      rw [hfe] at h
      simp only at h
      have hv : v < alloc.length := by rw [hlen]; have := head_eligible_lt _ _ hfe; simpa [outsOf] using this
      split at h
      · rename_i m hm
        simp only [Outcome.ok.injEq, Prod.mk.injEq] at h
        exact toOut v m hv hm h.1.symm h.2.symm
      · exact absurd h (by simp)
      · exact absurd h (by simp)
  | some art =>
    cases art with
    | cenotaph ce cm =>
      rw [hart] at h
      simp only at h
      simp only [Message.ofArtifact]
      split at h
      · rename_i b hb
        simp only [Outcome.ok.injEq, Prod.mk.injEq] at h
        obtain ⟨rfl, rfl⟩ := h
        exact toBurn false hb rfl
      · exact absurd h (by simp)
      · exact absurd h (by simp)
    | runestone edicts etching m ptr =>
      rw [hart] at h
      simp only at h
      simp only [Message.ofArtifact]
      cases ptr with
      | some p =>
        have hd : dfltOf tx = some p := by simp [dfltOf, hart, Message.ofArtifact]
        simp only [hd]
        simp only at h
        split at h
        · exact absurd h (by simp)
        · rename_i hp
          split at h
          · rename_i m' hm
            simp only [Outcome.ok.injEq, Prod.mk.injEq] at h
            exact toOut p m' (by omega) hm h.1.symm h.2.symm
          · exact absurd h (by simp)
          · exact absurd h (by simp)
      | none =>
        have hd : dfltOf tx = (eligible (outsOf tx)).head? := by simp [dfltOf, hart, Message.ofArtifact]
        simp only [hd]
        simp only at h
        cases hfe : (eligible (outsOf tx)).head? with
        | none =>
          rw [hfe] at h
          simp only at h
          split at h
          · rename_i b hb
            simp only [Outcome.ok.injEq, Prod.mk.injEq] at h
            obtain ⟨rfl, rfl⟩ := h
            exact toBurn true hb rfl
          · exact absurd h (by simp)
          · exact absurd h (by simp)
        | some v =>
          rw [hfe] at h
          simp only at h
          have hv : v < alloc.length := by rw [hlen]; have := head_eligible_lt _ _ hfe; simpa [outsOf] using this
          split at h
          · rename_i m' hm
            simp only [Outcome.ok.injEq, Prod.mk.injEq] at h
            exact toOut v m' hv hm h.1.symm h.2.symm
          · exact absurd h (by simp)
          · exact absurd h (by simp)


/-- Σ of the entries of a stored row that name rune `r` (= `lk row r` when no id repeats) -/
def rowSum : Balances → RuneId → Nat
  | [], _ => 0
  | (id, b) :: rest, r => (if id = r then b else 0) + rowSum rest r

/-- what the inputs bring of rune `r`: the rows of the spent outpoints, each outpoint once -/
def inputRunes (bals : List (OutPoint × Balances)) : List TxIn → RuneId → Nat
  | [], _ => 0
  | i :: rest, r =>
    match AL.get bals i.prev with
    | none => inputRunes bals rest r
    | some row => rowSum row r + inputRunes (AL.erase bals i.prev) rest r

/-- the balances table after the inputs' rows were removed -/
def spendAll (bals : List (OutPoint × Balances)) : List TxIn → List (OutPoint × Balances)
  | [] => bals
  | i :: rest =>
    match AL.get bals i.prev with
    | none => spendAll bals rest
    | some _ => spendAll (AL.erase bals i.prev) rest

theorem addAll_spec : ∀ (bs un un' : Balances), takeInputs.addAll bs un = .ok un' → (keys un).Nodup →
    (keys un').Nodup ∧ ∀ r, lk un' r = lk un r + rowSum bs r := by
  intro bs
  induction bs with
  | nil =>
    intro un un' h hn
    simp only [takeInputs.addAll, Outcome.ok.injEq] at h
    subst h
    exact ⟨hn, fun r => by simp [rowSum]⟩
  | cons p rest ih =>
    intro un un' h hn
    obtain ⟨id, b⟩ := p
    simp only [takeInputs.addAll] at h
    split at h
    · rename_i un1 hadd
      obtain ⟨hn', hl⟩ := ih un1 un' h (addLot_nodup hadd hn)
      refine ⟨hn', fun r => ?_⟩
      rw [hl r, addLot_lk hadd r]; simp only [rowSum]; omega
    · exact absurd h (by simp)
    · exact absurd h (by simp)

theorem takeInputs_ok : ∀ (ins : List TxIn) (st : State) (un : Balances) (st' : State) (un' : Balances),
    takeInputs ins st un = .ok (st', un') → (keys un).Nodup →
    (keys un').Nodup ∧ (∀ r, lk un' r = lk un r + inputRunes st.balances ins r) ∧
    st' = { st with balances := spendAll st.balances ins } := by
  intro ins
  induction ins with
  | nil =>
    intro st un st' un' h hn
    simp only [takeInputs, Outcome.ok.injEq, Prod.mk.injEq] at h
    obtain ⟨rfl, rfl⟩ := h
    exact ⟨hn, fun r => by simp [inputRunes], rfl⟩
  | cons i rest ih =>
    intro st un st' un' h hn
    simp only [takeInputs] at h
    split at h
    · rename_i hget
      obtain ⟨h1, h2, h3⟩ := ih st un st' un' h hn
      refine ⟨h1, fun r => ?_, ?_⟩
      · rw [h2 r]; simp [inputRunes, hget]
      · rw [h3]; simp [spendAll, hget]
    · rename_i bs hget
      split at h
      · rename_i un1 hadd
        obtain ⟨hn1, hl1⟩ := addAll_spec bs un un1 hadd hn
        obtain ⟨h1, h2, h3⟩ := ih _ un1 st' un' h hn1
        refine ⟨h1, fun r => ?_, ?_⟩
        · rw [h2 r, hl1 r]; simp only [inputRunes, hget]; omega
        · rw [h3]; simp [spendAll, hget]
      · exact absurd h (by simp)
      · exact absurd h (by simp)


/-- output `v` of `tx` is OP_RETURN (absent = no), as `writeOutputs` asks -/
def opretAt (tx : Tx) (v : Nat) : Bool :=
  match tx.outputs[v]? with
  | some o => o.opReturn
  | none => false

/-- what `writeOutputs` burns of rune `r`: the rows sitting on OP_RETURN outputs -/
def burnFrom (tx : Tx) (r : RuneId) : Nat → List Balances → Nat
  | _, [] => 0
  | j, bs :: rest => (if opretAt tx j then lk bs r else 0) + burnFrom tx r (j + 1) rest

theorem writeOutputs_ok (blk : Block) (tx : Tx) : ∀ (rows : List Balances) (j : Nat) (st : State)
    (burned : Balances) (evs : List Event) (st' : State) (burned' : Balances) (evs' : List Event),
    writeOutputs blk tx (enumFrom j rows) st burned evs = .ok (st', burned', evs') →
    (keys burned).Nodup → (∀ bs ∈ rows, (keys bs).Nodup) →
    (keys burned').Nodup ∧
    (∀ r, lk burned' r = lk burned r + burnFrom tx r j rows) ∧
    (∀ o : OutPoint, (o.txid ≠ tx.txid ∨ o.vout < j ∨ o.vout ≥ j + rows.length) →
      AL.get st'.balances o = AL.get st.balances o) ∧
    (∀ k bs, rows[k]? = some bs →
      AL.get st'.balances ⟨tx.txid, j + k⟩ =
        if bs = [] ∨ opretAt tx (j + k) = true then AL.get st.balances ⟨tx.txid, j + k⟩
        else some (sortBalances bs)) := by
  intro rows
  induction rows with
  | nil =>
    intro j st burned evs st' burned' evs' h hn _
    simp only [enumFrom, writeOutputs, Outcome.ok.injEq, Prod.mk.injEq] at h
    obtain ⟨rfl, rfl, rfl⟩ := h
    exact ⟨hn, fun r => by simp [burnFrom], fun _ _ => rfl, fun k bs hk => by simp at hk⟩
  | cons b rest ih =>
    intro j st burned evs st' burned' evs' h hn hrows
    have hb : (keys b).Nodup := hrows b List.mem_cons_self
    have hrest : ∀ bs ∈ rest, (keys bs).Nodup := fun bs hm => hrows bs (List.mem_cons_of_mem _ hm)
    simp only [enumFrom, writeOutputs] at h
    -- common shape of the conclusion given the recursive call's facts
    have finish : ∀ (st1 : State) (burned1 : Balances),
        ((keys burned').Nodup ∧
          (∀ r, lk burned' r = lk burned1 r + burnFrom tx r (j + 1) rest) ∧
          (∀ o : OutPoint, (o.txid ≠ tx.txid ∨ o.vout < j + 1 ∨ o.vout ≥ j + 1 + rest.length) →
            AL.get st'.balances o = AL.get st1.balances o) ∧
          (∀ k bs, rest[k]? = some bs →
            AL.get st'.balances ⟨tx.txid, j + 1 + k⟩ =
              if bs = [] ∨ opretAt tx (j + 1 + k) = true then AL.get st1.balances ⟨tx.txid, j + 1 + k⟩
              else some (sortBalances bs))) →
        (∀ r, lk burned1 r = lk burned r + (if opretAt tx j then lk b r else 0)) →
        (∀ o : OutPoint, (o.txid ≠ tx.txid ∨ o.vout ≠ j) → AL.get st1.balances o = AL.get st.balances o) →
        (AL.get st1.balances ⟨tx.txid, j⟩ =
          if b = [] ∨ opretAt tx j = true then AL.get st.balances ⟨tx.txid, j⟩ else some (sortBalances b)) →
        (keys burned').Nodup ∧
        (∀ r, lk burned' r = lk burned r + burnFrom tx r j (b :: rest)) ∧
        (∀ o : OutPoint, (o.txid ≠ tx.txid ∨ o.vout < j ∨ o.vout ≥ j + (b :: rest).length) →
          AL.get st'.balances o = AL.get st.balances o) ∧
        (∀ k bs, (b :: rest)[k]? = some bs →
          AL.get st'.balances ⟨tx.txid, j + k⟩ =
            if bs = [] ∨ opretAt tx (j + k) = true then AL.get st.balances ⟨tx.txid, j + k⟩
            else some (sortBalances bs)) := by
      intro st1 burned1 hih hb1 hfr hj
      obtain ⟨h1, h2, h3, h4⟩ := hih
      refine ⟨h1, fun r => ?_, fun o ho => ?_, fun k bs hk => ?_⟩
      · rw [h2 r, hb1 r]; simp only [burnFrom]; omega
      · simp only [List.length_cons] at ho
        have ho1 : o.txid ≠ tx.txid ∨ o.vout < j + 1 ∨ o.vout ≥ j + 1 + rest.length := by
          rcases ho with h | h | h
          · exact Or.inl h
          · exact Or.inr (Or.inl (by omega))
          · exact Or.inr (Or.inr (by omega))
        have ho2 : o.txid ≠ tx.txid ∨ o.vout ≠ j := by
          rcases ho with h | h | h
          · exact Or.inl h
          · exact Or.inr (by omega)
          · exact Or.inr (by omega)
        rw [h3 o ho1]
        exact hfr o ho2
      · cases k with
        | zero =>
          simp only [List.getElem?_cons_zero, Option.some.injEq] at hk
          subst hk
          rw [Nat.add_zero, h3 ⟨tx.txid, j⟩ (Or.inr (Or.inl (by simp)))]
          exact hj
        | succ k' =>
          simp only [List.getElem?_cons_succ] at hk
          have e : j + (k' + 1) = j + 1 + k' := by omega
          rw [e, h4 k' bs hk]
          rw [hfr ⟨tx.txid, j + 1 + k'⟩ (Or.inr (by simp; omega))]
    split at h
    · -- empty row: skipped
      rename_i hemp
      have hbe : b = [] := by simpa using hemp
      refine finish st burned (ih (j + 1) st burned evs st' burned' evs' h hn hrest) (fun r => ?_) (fun _ _ => rfl) ?_
      · subst hbe; simp
      · simp [hbe]
    · rename_i hne
      have hbne : ¬ b = [] := by simpa using hne
      cases hout : tx.outputs[j]? with
      | none =>
        rw [hout] at h
        have hop' : opretAt tx j = false := by simp [opretAt, hout]
        simp only [Bool.false_eq_true, if_false] at h
        refine finish _ burned (ih (j + 1) _ burned _ st' burned' evs' h hn hrest) (fun r => ?_) (fun o ho => ?_) ?_
        · simp [hop']
        · show AL.get (AL.set st.balances _ _) o = _
          rw [get_set]
          have : ¬ ((⟨tx.txid, j⟩ : OutPoint) = o) := by
            intro e; subst e; simp at ho
          have hb' : ((⟨tx.txid, j⟩ : OutPoint) == o) = false := by simpa using this
          simp [hb']
        · show AL.get (AL.set st.balances _ _) _ = _
          rw [get_set]
          simp [hbne, hop']
      | some o =>
        rw [hout] at h
        by_cases ho : o.opReturn = true
        · have hop' : opretAt tx j = true := by simp [opretAt, hout, ho]
          simp only [ho, if_true] at h
          split at h
          · rename_i burned1 hadd
            obtain ⟨hn1, hl1⟩ := addAllTo_spec b burned burned1 false hb hn hadd
            refine finish st burned1 (ih (j + 1) st burned1 evs st' burned' evs' h hn1 hrest) (fun r => ?_) (fun _ _ => rfl) ?_
            · rw [hl1 r, hop']; simp
            · simp [hop']
          · exact absurd h (by simp)
          · exact absurd h (by simp)
        · have ho' : o.opReturn = false := by simpa using ho
          have hop' : opretAt tx j = false := by simp [opretAt, hout, ho']
          simp only [ho', Bool.false_eq_true, if_false] at h
          refine finish _ burned (ih (j + 1) _ burned _ st' burned' evs' h hn hrest) (fun r => ?_) (fun o ho => ?_) ?_
          · simp [hop']
          · show AL.get (AL.set st.balances _ _) o = _
            rw [get_set]
            have : ¬ ((⟨tx.txid, j⟩ : OutPoint) = o) := by
              intro e; subst e; simp at ho
            have hb' : ((⟨tx.txid, j⟩ : OutPoint) == o) = false := by simpa using this
            simp [hb']
          · show AL.get (AL.set st.balances _ _) _ = _
            rw [get_set]
            simp [hbne, hop']


theorem burnFrom_eq (tx : Tx) (r : RuneId) (g : Nat → Nat) : ∀ (rows : List Balances) (os : List TxOut) (j : Nat),
    rows.length = os.length → (∀ k (h : k < os.length), tx.outputs[j + k]? = some os[k]) →
    (∀ k (h : k < rows.length), g (j + k) = lk rows[k] r) →
    burnFrom tx r j rows = sumOpReturnFrom g j (os.map (·.opReturn)) := by
  intro rows
  induction rows with
  | nil =>
    intro os j hl _ _
    cases os with
    | nil => rfl
    | cons _ _ => simp at hl
  | cons b rest ih =>
    intro os j hl ho hg
    cases os with
    | nil => simp at hl
    | cons o os' =>
      simp only [burnFrom, List.map_cons, sumOpReturnFrom]
      have h0 : opretAt tx j = o.opReturn := by
        have := ho 0 (by simp)
        simp only [Nat.add_zero, List.getElem_cons_zero] at this
        simp [opretAt, this]
      have hg0 : g j = lk b r := by
        have := hg 0 (by simp)
        simpa using this
      rw [h0, hg0]
      congr 1
      apply ih os' (j + 1) (by simpa using hl)
      · intro k hk
        have := ho (k + 1) (by simp; omega)
        have e : j + 1 + k = j + (k + 1) := by omega
        rw [e]; simpa using this
      · intro k hk
        have := hg (k + 1) (by simp; omega)
        have e : j + 1 + k = j + (k + 1) := by omega
        rw [e]; simpa using this

theorem get_erase_none {κ ν : Type} [BEq κ] [LawfulBEq κ] (l : List (κ × ν)) (k k' : κ)
    (h : AL.get l k' = none) : AL.get (AL.erase l k) k' = none := by
  induction l with
  | nil => simp [AL.erase, AL.get]
  | cons p rest ih =>
    obtain ⟨k0, v0⟩ := p
    simp only [AL.get] at h
    simp only [AL.erase]
    split at h
    · exact absurd h (by simp)
    · rename_i hk0
      split
      · exact h
      · simp only [AL.get, hk0]; exact ih h

theorem get_spendAll_none : ∀ (ins : List TxIn) (bals : List (OutPoint × Balances)) (o : OutPoint),
    AL.get bals o = none → AL.get (spendAll bals ins) o = none := by
  intro ins
  induction ins with
  | nil => intro bals o h; exact h
  | cons i rest ih =>
    intro bals o h
    simp only [spendAll]
    split
    · exact ih bals o h
    · exact ih _ o (get_erase_none _ _ _ h)

theorem sumOpReturnFrom_zero : ∀ (outs : List Bool) (i : Nat), sumOpReturnFrom (fun _ => 0) i outs = 0 := by
  intro outs
  induction outs with
  | nil => intro i; rfl
  | cons b rest ih => intro i; simp [sumOpReturnFrom, ih]

theorem sumOpReturnFrom_congr (g h : Nat → Nat) (hgh : ∀ v, g v = h v) : ∀ (outs : List Bool) (i : Nat),
    sumOpReturnFrom g i outs = sumOpReturnFrom h i outs := by
  have : g = h := funext hgh
  subst this; intro _ _; rfl

/-- the write-out: what ends up in the table and in the block's burn map, in terms of the final
per-rune numbers `F` -/
theorem tail_ok {blk : Block} {tx : Tx} {alloc2 : Allocated} {st3 st4 : State} {burned0 burned bb bb' : Balances}
    {evs evs2 : List Event}
    (hw : writeOutputs blk tx (enumFrom 0 alloc2) st3 burned0 evs = .ok (st4, burned, evs2))
    (hadd : addAllTo burned bb false = .ok bb')
    (hrows : ∀ w, (keys (rowAt alloc2 w)).Nodup) (hb0 : (keys burned0).Nodup) (hbb : (keys bb).Nodup)
    (hlen : alloc2.length = tx.outputs.length)
    (hfresh : ∀ v, AL.get st3.balances ⟨tx.txid, v⟩ = none)
    (r : RuneId) (F : Flow) (hF : ∀ w, lk (rowAt alloc2 w) r = F.out w) (hFun : lk burned0 r = F.un) :
    (∀ v, v < tx.outputs.length →
      lk ((AL.get st4.balances ⟨tx.txid, v⟩).getD []) r = if opReturnAt (outsOf tx) v then 0 else F.out v) ∧
    lk bb' r = lk bb r + (F.un + sumOpReturnFrom F.out 0 (outsOf tx)) ∧ (keys bb').Nodup := by
  have hmem : ∀ bs ∈ alloc2, (keys bs).Nodup := by
    intro bs hm
    obtain ⟨k, hk⟩ := List.mem_iff_getElem?.1 hm
    have := hrows k
    simpa [rowAt, hk] using this
  obtain ⟨hn, hl, _, hget⟩ := writeOutputs_ok blk tx alloc2 0 st3 burned0 evs st4 burned evs2 hw hb0 hmem
  obtain ⟨hnb, hlb⟩ := addAllTo_spec burned bb bb' false hn hbb hadd
  refine ⟨fun v hv => ?_, ?_, hnb⟩
  · have hv2 : v < alloc2.length := by omega
    have hk : alloc2[v]? = some alloc2[v] := by simp [hv2]
    have := hget v alloc2[v] hk
    simp only [Nat.zero_add] at this
    rw [this]
    have hrow : rowAt alloc2 v = alloc2[v] := by simp [rowAt, hv2]
    have hop : opretAt tx v = opReturnAt (outsOf tx) v := by
      simp [opretAt, opReturnAt, outsOf, hv]
    rw [← hop]
    by_cases hc : alloc2[v] = [] ∨ opretAt tx v = true
    · rw [if_pos hc, hfresh v]
      rcases hc with hc | hc
      · have : F.out v = 0 := by rw [← hF v, hrow, hc]; simp
        simp [this]
      · simp [hc]
    · rw [if_neg hc]
      have hc2 : opretAt tx v = false := by
        have : ¬ opretAt tx v = true := fun h => hc (Or.inr h)
        simpa using this
      simp only [Option.getD_some, hc2, Bool.false_eq_true, if_false]
      rw [lk_sort _ (hmem _ (List.getElem_mem hv2)), ← hF v, hrow]
  · rw [hlb r, hl r, hFun]
    have := burnFrom_eq tx r F.out alloc2 tx.outputs 0 hlen
      (fun k h => by simp [h])
      (fun k h => by rw [← hF (0 + k)]; simp [rowAt, h])
    rw [this]; simp only [outsOf]


/-- the state after the inputs' rows were taken -/
def spent (st : State) (tx : Tx) : State := { st with balances := spendAll st.balances tx.inputs }

/-- what rune `r` has unallocated in this transaction before the edicts (R1) -/
def txUnallocated (st : State) (blk : Block) (i : Nat) (tx : Tx) (r : RuneId) : Nat :=
  unallocated (inputRunes st.balances tx.inputs) (txMint (spent st tx) blk.height tx)
    (txEtched (spent st tx) blk i tx) r

/-- what the specification says the transaction does with rune `r` -/
def txSpec (st : State) (blk : Block) (i : Nat) (tx : Tx) (r : RuneId) : Result :=
  Spec.allocate (outsOf tx) (Message.ofArtifact tx.artifact) ((txEtched (spent st tx) blk i tx).map (·.1)) r
    (txUnallocated st blk i tx r)

/-- the default output: the pointer, else the first non-OP_RETURN output -/
def dfltFor (outs : List Bool) (ptr : Option Nat) : Option Nat :=
  match ptr with
  | some p => some p
  | none => (eligible outs).head?

theorem settle_eq_leftover (tx : Tx) (ptr : Option Nat) (f : Flow)
    (hd : dfltOf tx = dfltFor (outsOf tx) ptr) :
    settle (outsOf tx) ptr f =
      ⟨fun v => if opReturnAt (outsOf tx) v then 0 else (leftover (dfltOf tx) f).out v,
       (leftover (dfltOf tx) f).un + sumOpReturnFrom (leftover (dfltOf tx) f).out 0 (outsOf tx)⟩ := by
  rw [hd]
  cases ptr with
  | some p => rfl
  | none => cases h : (eligible (outsOf tx)).head? <;> simp [settle, leftover, dfltFor, h]

/-- **`indexRunesTx` refines `Spec.allocate`.** -/
theorem indexRunesTx_refines {st : State} {blk : Block} {i : Nat} {tx : Tx} {bb : Balances}
    {st' : State} {bb' : Balances} {evs : List Event}
    (hok : indexRunesTx st blk i tx bb = .ok (st', bb', evs))
    (hfresh : ∀ v, AL.get st.balances ⟨tx.txid, v⟩ = none) (hbb : (keys bb).Nodup) (r : RuneId) :
    (∀ v, v < tx.outputs.length →
      lk ((AL.get st'.balances ⟨tx.txid, v⟩).getD []) r = (txSpec st blk i tx r).out v) ∧
    lk bb' r = lk bb r + (txSpec st blk i tx r).burned ∧ (keys bb').Nodup := by
  rw [indexRunesTx_eq] at hok
  cases hti : takeInputs tx.inputs st [] with
  | panic s => rw [hti] at hok; exact absurd hok (by simp)
  | err e => rw [hti] at hok; exact absurd hok (by simp)
  | ok p0 =>
    obtain ⟨st0, un0⟩ := p0
    rw [hti] at hok
    simp only at hok
    obtain ⟨hn0, hl0, hst0⟩ := takeInputs_ok tx.inputs st [] st0 un0 hti (by simp)
    have hst0' : st0 = spent st tx := hst0
    have hrows0 : ∀ v, rowAt (tx.outputs.map (fun _ => ([] : Balances))) v = [] := rowAt_replicate tx.outputs
    cases hp1 : phase1 st0 un0 (tx.outputs.map (fun _ => [])) blk i tx with
    | panic s => rw [hp1] at hok; exact absurd hok (by simp)
    | err e => rw [hp1] at hok; exact absurd hok (by simp)
    | ok p1 =>
      obtain ⟨st3, un, alloc, evs1⟩ := p1
      rw [hp1] at hok
      simp only at hok
      obtain ⟨hg1, hlen1, hb1, hf1⟩ := phase1_ok hp1
        ⟨hn0, fun v => by rw [hrows0 v]; simp⟩ (by simp) hrows0
      cases hp2 : phase2 tx un alloc with
      | panic s => rw [hp2] at hok; exact absurd hok (by simp)
      | err e => rw [hp2] at hok; exact absurd hok (by simp)
      | ok p2 =>
        obtain ⟨alloc2, burned0⟩ := p2
        rw [hp2] at hok
        simp only at hok
        obtain ⟨hr2, hnb0, hlen2, hf2⟩ := phase2_ok hp2 hg1 hlen1
        cases hw : writeOutputs blk tx (enumFrom 0 alloc2) st3 burned0 evs1 with
        | panic s => rw [hw] at hok; exact absurd hok (by simp)
        | err e => rw [hw] at hok; exact absurd hok (by simp)
        | ok p3 =>
          obtain ⟨st4, burned, evs2⟩ := p3
          rw [hw] at hok
          simp only at hok
          cases hadd : addAllTo burned bb false with
          | panic s => rw [hadd] at hok; exact absurd hok (by simp)
          | err e => rw [hadd] at hok; exact absurd hok (by simp)
          | ok bbx =>
            rw [hadd] at hok
            simp only [Outcome.ok.injEq, Prod.mk.injEq] at hok
            obtain ⟨rfl, rfl, _⟩ := hok
            have hfresh3 : ∀ v, AL.get st3.balances ⟨tx.txid, v⟩ = none := by
              intro v
              rw [hb1, hst0]
              exact get_spendAll_none _ _ _ (hfresh v)
            have hu0 : u0Of st0 un0 blk i tx r = txUnallocated st blk i tx r := by
              simp only [u0Of, txUnallocated, unallocated, hst0']
              rw [hl0 r]; simp
            have tail := fun F h1 h2 => tail_ok hw hadd hr2 hnb0 hbb hlen2 hfresh3 r F h1 h2
            have hf1r := hf1 r
            have hf2r := hf2 r
            rw [hu0, hst0'] at hf1r
            unfold txSpec
            cases hmsg : Message.ofArtifact tx.artifact with
            | cenotaph =>
              rw [hmsg] at hf1r hf2r
              simp only at hf1r hf2r
              obtain ⟨h1, h2, h3⟩ := tail (absFlow un alloc r) hf2r.1 hf2r.2
              rw [hf1r] at h1 h2
              refine ⟨fun v hv => ?_, ?_, h3⟩
              · rw [h1 v hv]; simp [Spec.allocate, Flow.start]
              · rw [h2]; simp [Spec.allocate, Flow.start, sumOpReturnFrom_zero]
            | none =>
              rw [hmsg] at hf1r hf2r
              simp only at hf1r hf2r
              obtain ⟨h1, h2, h3⟩ := tail _ hf2r.1 hf2r.2
              rw [hf1r] at h1 h2
              have hd : dfltOf tx = dfltFor (outsOf tx) none := by
                simp [dfltOf, hmsg, dfltFor]
              have hs := settle_eq_leftover tx none (Flow.start (txUnallocated st blk i tx r)) hd
              refine ⟨fun v hv => ?_, ?_, h3⟩
              · rw [h1 v hv]; simp only [Spec.allocate, hs]
              · rw [h2]; simp only [Spec.allocate, hs]
            | runestone edicts ptr =>
              rw [hmsg] at hf1r hf2r
              simp only at hf1r hf2r
              obtain ⟨h1, h2, h3⟩ := tail _ hf2r.1 hf2r.2
              rw [hf1r] at h1 h2
              have hd : dfltOf tx = dfltFor (outsOf tx) ptr := by
                simp only [dfltOf, hmsg, dfltFor]
                cases ptr <;> rfl
              have hs := settle_eq_leftover tx ptr
                (flow (outsOf tx) ((txEtched (spent st tx) blk i tx).map (·.1)) r edicts
                  (Flow.start (txUnallocated st blk i tx r))) hd
              refine ⟨fun v hv => ?_, ?_, h3⟩
              · rw [h1 v hv]; simp only [Spec.allocate, hs]
              · rw [h2]; simp only [Spec.allocate, hs]


/-- the phases of a successful `indexRunesTx` -/
theorem indexRunesTx_parts {st : State} {blk : Block} {i : Nat} {tx : Tx} {bb : Balances}
    {st' : State} {bb' : Balances} {evs : List Event}
    (hok : indexRunesTx st blk i tx bb = .ok (st', bb', evs)) :
    ∃ st0 un0 st3 un alloc evs1 alloc2 burned0 burned evs2,
      takeInputs tx.inputs st [] = .ok (st0, un0) ∧
      phase1 st0 un0 (tx.outputs.map (fun _ => [])) blk i tx = .ok (st3, un, alloc, evs1) ∧
      phase2 tx un alloc = .ok (alloc2, burned0) ∧
      writeOutputs blk tx (enumFrom 0 alloc2) st3 burned0 evs1 = .ok (st', burned, evs2) ∧
      addAllTo burned bb false = .ok bb' := by
  rw [indexRunesTx_eq] at hok
  cases hti : takeInputs tx.inputs st [] with
  | panic s => rw [hti] at hok; exact absurd hok (by simp)
  | err e => rw [hti] at hok; exact absurd hok (by simp)
  | ok p0 =>
    obtain ⟨st0, un0⟩ := p0
    rw [hti] at hok
    simp only at hok
    cases hp1 : phase1 st0 un0 (tx.outputs.map (fun _ => [])) blk i tx with
    | panic s => rw [hp1] at hok; exact absurd hok (by simp)
    | err e => rw [hp1] at hok; exact absurd hok (by simp)
    | ok p1 =>
      obtain ⟨st3, un, alloc, evs1⟩ := p1
      rw [hp1] at hok
      simp only at hok
      cases hp2 : phase2 tx un alloc with
      | panic s => rw [hp2] at hok; exact absurd hok (by simp)
      | err e => rw [hp2] at hok; exact absurd hok (by simp)
      | ok p2 =>
        obtain ⟨alloc2, burned0⟩ := p2
        rw [hp2] at hok
        simp only at hok
        cases hw : writeOutputs blk tx (enumFrom 0 alloc2) st3 burned0 evs1 with
        | panic s => rw [hw] at hok; exact absurd hok (by simp)
        | err e => rw [hw] at hok; exact absurd hok (by simp)
        | ok p3 =>
          obtain ⟨st4, burned, evs2⟩ := p3
          rw [hw] at hok
          simp only at hok
          cases hadd : addAllTo burned bb false with
          | panic s => rw [hadd] at hok; exact absurd hok (by simp)
          | err e => rw [hadd] at hok; exact absurd hok (by simp)
          | ok bbx =>
            rw [hadd] at hok
            simp only [Outcome.ok.injEq, Prod.mk.injEq] at hok
            obtain ⟨rfl, rfl, _⟩ := hok
            exact ⟨st0, un0, st3, un, alloc, evs1, alloc2, burned0, burned, evs2, rfl, hp1, hp2, hw, hadd⟩

/-- **Where rows are written.**  After a successful `indexRunesTx`:
* a row of another transaction's outpoint is what it was after the inputs' rows were removed
  (unchanged, or gone if spent);
* an OP_RETURN output of this transaction has no row (given the txid had none before);
* an output beyond the transaction's outputs has no row. -/
theorem indexRunesTx_rows {st : State} {blk : Block} {i : Nat} {tx : Tx} {bb : Balances}
    {st' : State} {bb' : Balances} {evs : List Event}
    (hok : indexRunesTx st blk i tx bb = .ok (st', bb', evs))
    (hfresh : ∀ v, AL.get st.balances ⟨tx.txid, v⟩ = none) :
    (∀ o : OutPoint, o.txid ≠ tx.txid → AL.get st'.balances o = AL.get (spendAll st.balances tx.inputs) o) ∧
    (∀ v, opretAt tx v = true → AL.get st'.balances ⟨tx.txid, v⟩ = none) ∧
    (∀ v, v ≥ tx.outputs.length → AL.get st'.balances ⟨tx.txid, v⟩ = none) := by
  obtain ⟨st0, un0, st3, un, alloc, evs1, alloc2, burned0, burned, evs2, hti, hp1, hp2, hw, _⟩ :=
    indexRunesTx_parts hok
  obtain ⟨hn0, _, hst0⟩ := takeInputs_ok tx.inputs st [] st0 un0 hti (by simp)
  have hrows0 : ∀ v, rowAt (tx.outputs.map (fun _ => ([] : Balances))) v = [] := rowAt_replicate tx.outputs
  obtain ⟨hg1, hlen1, hb1, _⟩ := phase1_ok hp1 ⟨hn0, fun v => by rw [hrows0 v]; simp⟩ (by simp) hrows0
  obtain ⟨hr2, hnb0, hlen2, _⟩ := phase2_ok hp2 hg1 hlen1
  have hmem : ∀ bs ∈ alloc2, (keys bs).Nodup := by
    intro bs hm
    obtain ⟨k, hk⟩ := List.mem_iff_getElem?.1 hm
    have := hr2 k
    simpa [rowAt, hk] using this
  obtain ⟨_, _, hframe, hget⟩ := writeOutputs_ok blk tx alloc2 0 st3 burned0 evs1 st' burned evs2 hw hnb0 hmem
  have hb3 : st3.balances = spendAll st.balances tx.inputs := by rw [hb1, hst0]
  have hfresh3 : ∀ v, AL.get st3.balances ⟨tx.txid, v⟩ = none := by
    intro v; rw [hb3]; exact get_spendAll_none _ _ _ (hfresh v)
  refine ⟨fun o ho => ?_, fun v hv => ?_, fun v hv => ?_⟩
  · rw [hframe o (Or.inl ho), hb3]
  · rcases Nat.lt_or_ge v alloc2.length with hlt | hge
    · have := hget v alloc2[v] (by simp [hlt])
      simp only [Nat.zero_add] at this
      rw [this, if_pos (Or.inr hv)]
      exact hfresh3 v
    · rw [hframe ⟨tx.txid, v⟩ (Or.inr (Or.inr (by simpa using hge)))]
      exact hfresh3 v
  · rw [hframe ⟨tx.txid, v⟩ (Or.inr (Or.inr (by simp; omega)))]
    exact hfresh3 v

end Ord.Index.RS
