import OrdModel.Proofs.IndexInsnumStep
import OrdModel.Proofs.IndexMiscAL
/-
Group `insnum`: the input scan of `index_inscriptions` (`scanOld`, `scanNew`, `scanInputs`):
the `inscribed_offsets` map covers every offset of the floating list built so far, hence a new
envelope landing on an offset that an *earlier element of the floating list* occupies gets the
reinscription flag (C06 a, the part that holds), ids are `(txid, idCounter)` in envelope order
(C05), and a clean first envelope is not cursed (C06 b).
-/
namespace Ord.Index.Insnum
open Ord.Index Ord.Outcome

def reinscriptionFlag (f : Flotsam) : Bool :=
  match f.origin with
  | .new _ _ _ _ _ r _ _ => r
  | .old .. => false

def cursedFlag (f : Flotsam) : Bool :=
  match f.origin with
  | .new c _ _ _ _ _ _ _ => c
  | .old .. => false

def vindicatedFlag (f : Flotsam) : Bool :=
  match f.origin with
  | .new _ _ _ _ _ _ _ v => v
  | .old .. => false

theorem contains_bump_self (m : List (Nat × InscriptionId × Nat)) (off : Nat) (id : InscriptionId) :
    AL.contains (bumpOffset m off id) off = true := by
  unfold bumpOffset AL.contains
  split <;> simp [AL.get_set_self]

theorem contains_bump_of_contains (m : List (Nat × InscriptionId × Nat)) (off o : Nat) (id : InscriptionId)
    (h : AL.contains m o = true) : AL.contains (bumpOffset m off id) o = true := by
  by_cases ho : off = o
  · subst ho; exact contains_bump_self m off id
  · unfold bumpOffset AL.contains at *
    split <;> simpa [AL.get_set_ne _ _ ho] using h

/-- every offset of the floating list is in the `inscribed_offsets` map -/
def Covered (sc : ScanState) : Prop := ∀ f ∈ sc.floating, AL.contains sc.inscribed f.offset = true

/-- a new element of the floating list that shares its offset with an earlier element carries
the reinscription flag -/
def Flagged (l : List Flotsam) : Prop :=
  ∀ (i j : Nat) (fi fj : Flotsam), i < j → l[i]? = some fi → l[j]? = some fj → isNew fj = true →
    fi.offset = fj.offset → reinscriptionFlag fj = true

theorem flagged_append (l : List Flotsam) (f : Flotsam) (m : List (Nat × InscriptionId × Nat))
    (hc : ∀ g ∈ l, AL.contains m g.offset = true) (hf : Flagged l)
    (hnew : isNew f = true → reinscriptionFlag f = AL.contains m f.offset) : Flagged (l ++ [f]) := by
  intro i j fi fj hij hi hj hn ho
  by_cases hjl : j < l.length
  · have hil : i < l.length := by omega
    rw [List.getElem?_append_left hil] at hi
    rw [List.getElem?_append_left hjl] at hj
    exact hf i j fi fj hij hi hj hn ho
  · have hjeq : j = l.length := by
      rcases Nat.lt_or_ge j (l ++ [f]).length with hlt | hge
      · simp at hlt; omega
      · rw [List.getElem?_eq_none hge] at hj; cases hj
    subst hjeq
    simp at hj
    subst hj
    have hil : i < l.length := hij
    rw [List.getElem?_append_left hil] at hi
    have hmem : fi ∈ l := List.mem_of_getElem? hi
    rw [hnew hn, ← ho]
    exact hc fi hmem

theorem scanOld_inv (st : State) (prev : OutPoint) (base : Nat) :
    ∀ (l : List (Nat × Nat)) (sc sc' : ScanState), scanOld st prev base l sc = .ok sc' →
      Covered sc → Flagged sc.floating →
      Covered sc' ∧ Flagged sc'.floating ∧ sc'.idCounter = sc.idCounter ∧ sc'.envelopes = sc.envelopes
      ∧ sc'.totalInputValue = sc.totalInputValue := by
  intro l
  induction l with
  | nil =>
    intro sc sc' h hc hf
    simp only [scanOld, Outcome.ok.injEq] at h
    subst h; exact ⟨hc, hf, rfl, rfl, rfl⟩
  | cons p rest ih =>
    intro sc sc' h hc hf
    obtain ⟨seq, off⟩ := p
    simp only [scanOld] at h
    split at h
    · exact absurd h (by simp)
    · rename_i entry _
      have := ih _ _ h
        (by
          intro f hfm
          simp only [List.mem_append, List.mem_singleton] at hfm
          rcases hfm with hfm | rfl
          · exact contains_bump_of_contains _ _ _ _ (hc f hfm)
          · exact contains_bump_self _ _ _)
        (flagged_append sc.floating _ sc.inscribed hc hf (by intro hn; simp [isNew] at hn))
      simpa using this

/-- ids handed out by `scanNew` -/
def NewIds (txid : Txid) (l : List Flotsam) (k0 : Nat) : Prop :=
  ((l.filter isNew).map (·.id)) = (List.range' 0 k0).map (fun k => (⟨txid, k⟩ : InscriptionId))

theorem scanNew_inv (st : State) (jub : Bool) (txid : Txid) (ii offset iv totalOut : Nat) :
    ∀ (envs : List Envelope) (sc sc' : ScanState), scanNew st jub txid ii offset iv totalOut envs sc = .ok sc' →
      Covered sc → Flagged sc.floating →
      Covered sc' ∧ Flagged sc'.floating ∧ sc'.totalInputValue = sc.totalInputValue := by
  intro envs
  induction envs with
  | nil =>
    intro sc sc' h hc hf
    simp only [scanNew, Outcome.ok.injEq] at h
    subst h; exact ⟨hc, hf, rfl⟩
  | cons env rest ih =>
    intro sc sc' h hc hf
    simp only [scanNew] at h
    split at h
    · simp only [Outcome.ok.injEq] at h
      subst h; exact ⟨hc, hf, rfl⟩
    · split at h
      · exact absurd h (by simp)
      · exact absurd h (by simp)
      · have := ih _ _ h
          (by
            intro f hfm
            simp only [List.mem_append, List.mem_singleton] at hfm
            rcases hfm with hfm | rfl
            · exact contains_bump_of_contains _ _ _ _ (hc f hfm)
            · exact contains_bump_self _ _ _)
          (flagged_append sc.floating _ sc.inscribed hc hf (by intro _; simp [reinscriptionFlag]))
        simpa using this

theorem scanInputs_inv (cfg : Cfg) (st : State) (jub : Bool) (txid : Txid) (height totalOut : Nat) :
    ∀ (inputs : List (TxIn × UtxoEntry)) (i : Nat) (sc sc' : ScanState),
      scanInputs cfg st jub txid height totalOut inputs i sc = .ok sc' →
      Covered sc → Flagged sc.floating → Covered sc' ∧ Flagged sc'.floating := by
  intro inputs
  induction inputs with
  | nil =>
    intro i sc sc' h hc hf
    simp only [scanInputs, Outcome.ok.injEq] at h
    subst h; exact ⟨hc, hf⟩
  | cons p rest ih =>
    intro i sc sc' h hc hf
    obtain ⟨txin, entry⟩ := p
    simp only [scanInputs] at h
    split at h
    · exact ih _ _ _ h hc hf
    · split at h
      · exact absurd h (by simp)
      · exact absurd h (by simp)
      · rename_i sc1 hold
        obtain ⟨hc1, hf1, _, _, _⟩ := scanOld_inv _ _ _ _ _ _ hold hc hf
        split at h
        · exact absurd h (by simp)
        · exact absurd h (by simp)
        · rename_i sc3 hnew
          obtain ⟨hc3, hf3, _⟩ := scanNew_inv _ _ _ _ _ _ _ _ _ _ hnew (by exact hc1) (by exact hf1)
          exact ih _ _ _ h hc3 hf3

/-- C06 (b), curse chain: an envelope that is first in the first input with none of the flaws,
classified while nothing is inscribed at its offset, is not cursed -/
theorem curseOf_clean (st : State) (env : Envelope) (inscribed : List (Nat × InscriptionId × Nat)) (offset : Nat)
    (h1 : env.unrecognizedEven = false) (h2 : env.duplicateField = false) (h3 : env.incompleteField = false)
    (h4 : env.input = 0) (h5 : env.offset = 0) (h6 : env.pointerField = false) (h7 : env.pushnum = false)
    (h8 : env.stutter = false) (h9 : AL.get inscribed offset = none) :
    curseOf st env inscribed offset = .ok none := by
  simp [curseOf, h1, h2, h3, h4, h5, h6, h7, h8, h9]

end Ord.Index.Insnum
