import OrdModel.Index.Replay
import OrdModel.Proofs.IndexMiscAL
/-
C37 helper lemmas 2: rune existence and mint counts.  `RInv rs st`: the replayed rune list is
the key list of `runeEntries` and the replayed mint counts are the entries' `mints`.  Every step
of `indexRunesTx` that writes `runeEntries` emits the event whose replay keeps `RInv`.
-/
namespace Ord.Index
open Outcome

theorem runeId_beq_iff' (a b : RuneId) : (a == b) = true ↔ a = b := by
  cases a; cases b
  show (_ == _ && _ == _) = true ↔ _
  simp [RuneId.mk.injEq]

instance instLawfulBEqRuneIdMisc : LawfulBEq RuneId where
  eq_of_beq {a b} h := (runeId_beq_iff' a b).1 h
  rfl {a} := (runeId_beq_iff' a a).2 rfl

namespace AL
variable {κ ν : Type} [BEq κ] [LawfulBEq κ]

theorem keys_set (l : List (κ × ν)) (k : κ) (v : ν) : keys (set l k v) = insertUnique (keys l) k := by
  induction l with
  | nil => simp [set, keys, insertUnique]
  | cons p rest ih =>
    obtain ⟨k0, v0⟩ := p
    simp only [set]
    split
    · rename_i h
      have : k0 = k := by simpa using h
      subst this
      simp [keys, insertUnique]
    · rename_i h
      have hne : ¬ k0 = k := by simpa using h
      have hne' : ¬ k = k0 := fun e => hne e.symm
      simp only [keys_cons, ih, insertUnique, List.contains_cons]
      have : (k == k0) = false := by simpa using hne'
      simp only [this, Bool.false_or]
      split <;> simp
end AL

/-- rune existence and mint counts agree -/
structure RInv (rs : ReplayState) (st : State) : Prop where
  runes : rs.runes = AL.keys st.runeEntries
  mints : ∀ id, AL.get rs.mints id = (AL.get st.runeEntries id).map (·.mints)

/-- events whose replay leaves `runes`/`mints` alone -/
def RMNeutral : Event → Prop
  | .runeEtched .. => False
  | .runeMinted .. => False
  | _ => True

theorem applyEvent_neutral (c : List Block) (rs : ReplayState) (e : Event) (h : RMNeutral e) :
    (applyEvent c rs e).runes = rs.runes ∧ (applyEvent c rs e).mints = rs.mints := by
  cases e with
  | inscriptionCreated _ _ _ loc _ _ => cases loc <;> exact ⟨rfl, rfl⟩
  | inscriptionTransferred => exact ⟨rfl, rfl⟩
  | runeBurned => exact ⟨rfl, rfl⟩
  | runeTransferred => exact ⟨rfl, rfl⟩
  | runeEtched => exact absurd h (by simp [RMNeutral])
  | runeMinted => exact absurd h (by simp [RMNeutral])

theorem foldl_neutral (c : List Block) (evs : List Event) (h : ∀ e ∈ evs, RMNeutral e) (rs : ReplayState) :
    (evs.foldl (applyEvent c) rs).runes = rs.runes ∧ (evs.foldl (applyEvent c) rs).mints = rs.mints := by
  induction evs generalizing rs with
  | nil => exact ⟨rfl, rfl⟩
  | cons e rest ih =>
    simp only [List.foldl_cons]
    have h1 := applyEvent_neutral c rs e (h e (by simp))
    have h2 := ih (fun e he => h e (by simp [he])) (applyEvent c rs e)
    exact ⟨h2.1.trans h1.1, h2.2.trans h1.2⟩

theorem RInv.of_eq {rs rs' : ReplayState} {st st' : State} (h : RInv rs st)
    (h1 : rs'.runes = rs.runes) (h2 : rs'.mints = rs.mints) (h3 : st'.runeEntries = st.runeEntries) :
    RInv rs' st' := ⟨by rw [h1, h3]; exact h.runes, by intro id; rw [h2, h3]; exact h.mints id⟩

theorem RInv.neutral {rs : ReplayState} {st st' : State} (c : List Block) (h : RInv rs st) (evs : List Event)
    (hn : ∀ e ∈ evs, RMNeutral e) (h3 : st'.runeEntries = st.runeEntries) :
    RInv (evs.foldl (applyEvent c) rs) st' :=
  h.of_eq (foldl_neutral c evs hn rs).1 (foldl_neutral c evs hn rs).2 h3

/-- `mint`: the entry's `mints` goes up exactly when `RuneMinted` is emitted -/
theorem mint_rinv (c : List Block) {rs : ReplayState} {st : State} (h : RInv rs st) (height : Nat) (id : RuneId)
    (t : Txid) (s : State) (r : Option Nat) (hm : mint st height id = (s, r)) :
    match r with
    | none => RInv rs s
    | some a => RInv (applyEvent c rs (.runeMinted a height id t)) s := by
  unfold mint at hm
  split at hm
  · simp only [Prod.mk.injEq] at hm; obtain ⟨rfl, rfl⟩ := hm; exact h
  · rename_i e he
    split at hm
    · simp only [Prod.mk.injEq] at hm; obtain ⟨rfl, rfl⟩ := hm; exact h
    · rename_i amount _
      simp only [Prod.mk.injEq] at hm; obtain ⟨rfl, rfl⟩ := hm
      refine ⟨?_, ?_⟩
      · show rs.runes = AL.keys (AL.set st.runeEntries id _)
        rw [AL.keys_set, h.runes, insertUnique]
        have hmem := AL.mem_keys_of_mem (AL.mem_of_get he)
        simp [hmem]
      · intro id'
        show AL.get (AL.set rs.mints id _) id' = (AL.get (AL.set st.runeEntries id _) id').map _
        rw [AL.get_set, AL.get_set]
        split
        · have := h.mints id
          rw [he] at this
          simp [this]
        · exact h.mints id'

/-- `create_rune_entry`: the new entry (mints 0) appears exactly with `RuneEtched` -/
theorem createRuneEntry_rinv (c : List Block) {rs : ReplayState} {st : State} (h : RInv rs st) (blk : Block)
    (tx : Tx) (art : Artifact) (id : RuneId) (rune : Nat) :
    RInv ((createRuneEntry st blk tx art id rune).2.foldl (applyEvent c) rs) (createRuneEntry st blk tx art id rune).1 := by
  have hm : ∀ e : RuneEntry, (match art with
      | .cenotaph .. => (⟨id.block, 0, 0, tx.txid, 0, st.runes, 0, rune, 0, none, none, blk.time, false⟩ : RuneEntry)
      | .runestone _ (some e) _ _ =>
        ⟨id.block, 0, e.divisibility.getD 0, tx.txid, 0, st.runes, e.premine.getD 0, rune, e.spacers.getD 0,
          e.symbol, e.terms, blk.time, e.turbo⟩
      | .runestone _ none _ _ => default) = e → e.mints = 0 := by
    intro e he
    subst he
    split <;> rfl
  unfold createRuneEntry
  simp only [List.foldl_cons, List.foldl_nil, applyEvent]
  refine ⟨?_, ?_⟩
  · dsimp only
    split <;> (dsimp only; rw [AL.keys_set, h.runes])
  · intro id'
    dsimp only
    split <;> (dsimp only; rw [AL.get_set, AL.get_set]; split
               · simp only [Option.map_some]; congr 1; exact (hm _ rfl).symm
               · exact h.mints id')

theorem takeInputs_rframe : ∀ (ins : List TxIn) (st : State) (un : Balances) (st' : State) (un' : Balances),
    takeInputs ins st un = .ok (st', un') → st'.runeEntries = st.runeEntries := by
  intro ins
  induction ins with
  | nil => intro st un st' un' h; simp only [takeInputs, Outcome.ok.injEq, Prod.mk.injEq] at h; rw [← h.1]
  | cons i rest ih =>
    intro st un st' un' h
    simp only [takeInputs] at h
    split at h
    · exact ih _ _ _ _ h
    · split at h
      · exact (ih _ _ _ _ h).trans rfl
      · cases h
      · cases h

def IsTransfer (blk : Block) (tx : Tx) (e : Event) : Prop :=
  ∃ a op id, e = .runeTransferred a blk.height op id tx.txid

theorem writeOutputs_rframe (blk : Block) (tx : Tx) : ∀ (l : List (Nat × Balances)) (st : State) (burned : Balances)
    (evs : List Event) (st' : State) (burned' : Balances) (evs' : List Event),
    writeOutputs blk tx l st burned evs = .ok (st', burned', evs') →
    st'.runeEntries = st.runeEntries ∧ ∃ add, evs' = evs ++ add ∧ ∀ e ∈ add, IsTransfer blk tx e := by
  intro l
  induction l with
  | nil =>
    intro st burned evs st' burned' evs' h
    simp only [writeOutputs, Outcome.ok.injEq, Prod.mk.injEq] at h
    obtain ⟨rfl, rfl, rfl⟩ := h
    exact ⟨rfl, [], by simp, by simp⟩
  | cons p rest ih =>
    intro st burned evs st' burned' evs' h
    obtain ⟨vout, bs⟩ := p
    simp only [writeOutputs] at h
    split at h
    · exact ih _ _ _ _ _ _ h
    · split at h <;> split at h
      all_goals first
        | (split at h <;> first | exact ih _ _ _ _ _ _ h | cases h)
        | (obtain ⟨h1, add, h2, h3⟩ := ih _ _ _ _ _ _ h
           refine ⟨h1, (sortBalances bs).map (fun x => Event.runeTransferred x.snd blk.height ⟨tx.txid, vout⟩ x.fst tx.txid) ++ add,
             by rw [h2, List.append_assoc], ?_⟩
           intro e he
           rcases List.mem_append.1 he with he | he
           · obtain ⟨x, _, rfl⟩ := List.mem_map.1 he
             exact ⟨x.2, _, x.1, rfl⟩
           · exact h3 e he)

theorem etched_rframe (st : State) (blk : Block) (i : Nat) (tx : Tx) (art : Artifact) (st' : State)
    (et : Option (RuneId × Nat)) (h : etched st blk i tx art = .ok (st', et)) :
    st'.runeEntries = st.runeEntries := by
  unfold etched at h
  dsimp only at h
  split at h
  · simp only [Outcome.ok.injEq, Prod.mk.injEq] at h; rw [← h.1]
  · split at h
    · simp only [Outcome.ok.injEq, Prod.mk.injEq] at h; rw [← h.1]
    · split at h
      · cases h
      · cases h
      · simp only [Outcome.ok.injEq, Prod.mk.injEq] at h; rw [← h.1]
      · simp only [Outcome.ok.injEq, Prod.mk.injEq] at h; rw [← h.1]
  · simp only [Outcome.ok.injEq, Prod.mk.injEq] at h; rw [← h.1]

theorem flushBurned_rframe : ∀ (bb : Balances) (st st' : State), flushBurned bb st = .ok st' →
    AL.keys st'.runeEntries = AL.keys st.runeEntries ∧
    ∀ id, (AL.get st'.runeEntries id).map (·.mints) = (AL.get st.runeEntries id).map (·.mints) := by
  intro bb
  induction bb with
  | nil => intro st st' h; simp only [flushBurned, Outcome.ok.injEq] at h; subst h; exact ⟨rfl, fun _ => rfl⟩
  | cons p rest ih =>
    intro st st' h
    obtain ⟨id, b⟩ := p
    simp only [flushBurned] at h
    split at h
    · cases h
    · rename_i e he
      split at h
      · cases h
      · obtain ⟨h1, h2⟩ := ih _ _ h
        refine ⟨h1.trans ?_, fun id' => (h2 id').trans ?_⟩
        · show AL.keys (AL.set st.runeEntries id _) = _
          rw [AL.keys_set, insertUnique]
          have hmem := AL.mem_keys_of_mem (AL.mem_of_get he)
          simp [hmem]
        · show (AL.get (AL.set st.runeEntries id _) id').map _ = _
          rw [AL.get_set]
          split
          · rename_i hid
            have : id = id' := by simpa using hid
            subst this
            simp [he]
          · rfl

end Ord.Index
