import OrdModel.Index.Replay
import OrdModel.Proofs.IndexMiscAL
/-
C37 helper lemmas 2: rune existence and mint counts.  `RInv rs st`: the replayed rune list is
the key list of `runeEntries` and the replayed mint counts are the entries' `mints`.  Every step
of `indexRunesTx` that writes `runeEntries` emits the event whose replay keeps `RInv`.
-/
namespace Ord.Index
open Outcome

theorem runeId_beq_iff' (a b : RuneId) : (a == b) = true ↔ a = b := by
  cases a; cases b
  show (_ == _ && _ == _) = true ↔ _
  simp [RuneId.mk.injEq]

instance instLawfulBEqRuneIdMisc : LawfulBEq RuneId where
  eq_of_beq {a b} h := (runeId_beq_iff' a b).1 h
  rfl {a} := (runeId_beq_iff' a a).2 rfl

namespace AL
variable {κ ν : Type} [BEq κ] [LawfulBEq κ]

theorem keys_set (l : List (κ × ν)) (k : κ) (v : ν) : keys (set l k v) = insertUnique (keys l) k := by
  induction l with
  | nil => simp [set, keys, insertUnique]
  | cons p rest ih =>
    obtain ⟨k0, v0⟩ := p
    simp only [set]
    split
    · rename_i h
      have : k0 = k := by simpa using h
      subst this
      simp [keys, insertUnique]
    · rename_i h
      have hne : ¬ k0 = k := by simpa using h
      have hne' : ¬ k = k0 := fun e => hne e.symm
      simp only [keys_cons, ih, insertUnique, List.contains_cons]
      have : (k == k0) = false := by simpa using hne'
      simp only [this, Bool.false_or]
      split <;> simp
end AL

theorem AL.get_map_val {κ ν μ : Type} [BEq κ] (f : ν → μ) (l : List (κ × ν)) (k : κ) :
    AL.get (l.map (fun p => (p.1, f p.2))) k = (AL.get l k).map f := by
  induction l with
  | nil => rfl
  | cons p rest ih =>
    obtain ⟨k0, v0⟩ := p
    simp only [List.map_cons, AL.get]
    split
    · rfl
    · exact ih

/-- rune existence and mint counts agree -/
structure RInv (rs : ReplayState) (st : State) : Prop where
  runes : rs.runes = AL.keys st.runeEntries
  mints : ∀ id, AL.get rs.mints id = (AL.get st.runeEntries id).map (·.mints)

/-- events whose replay leaves `runes`/`mints` alone -/
def RMNeutral : Event → Prop
  | .runeEtched .. => False
  | .runeMinted .. => False
  | _ => True

theorem applyEvent_neutral (c : List Block) (rs : ReplayState) (e : Event) (h : RMNeutral e) :
    (applyEvent c rs e).runes = rs.runes ∧ (applyEvent c rs e).mints = rs.mints := by
  cases e with
  | inscriptionCreated _ _ _ loc _ _ => cases loc <;> exact ⟨rfl, rfl⟩
  | inscriptionTransferred => exact ⟨rfl, rfl⟩
  | runeBurned => exact ⟨rfl, rfl⟩
  | runeTransferred => exact ⟨rfl, rfl⟩
  | runeEtched => exact absurd h (by simp [RMNeutral])
  | runeMinted => exact absurd h (by simp [RMNeutral])

theorem foldl_neutral (c : List Block) (evs : List Event) (h : ∀ e ∈ evs, RMNeutral e) (rs : ReplayState) :
    (evs.foldl (applyEvent c) rs).runes = rs.runes ∧ (evs.foldl (applyEvent c) rs).mints = rs.mints := by
  induction evs generalizing rs with
  | nil => exact ⟨rfl, rfl⟩
  | cons e rest ih =>
    simp only [List.foldl_cons]
    have h1 := applyEvent_neutral c rs e (h e (by simp))
    have h2 := ih (fun e he => h e (by simp [he])) (applyEvent c rs e)
    exact ⟨h2.1.trans h1.1, h2.2.trans h1.2⟩

theorem RInv.of_eq {rs rs' : ReplayState} {st st' : State} (h : RInv rs st)
    (h1 : rs'.runes = rs.runes) (h2 : rs'.mints = rs.mints) (h3 : st'.runeEntries = st.runeEntries) :
    RInv rs' st' := ⟨by rw [h1, h3]; exact h.runes, by intro id; rw [h2, h3]; exact h.mints id⟩

theorem RInv.neutral {rs : ReplayState} {st st' : State} (c : List Block) (h : RInv rs st) (evs : List Event)
    (hn : ∀ e ∈ evs, RMNeutral e) (h3 : st'.runeEntries = st.runeEntries) :
    RInv (evs.foldl (applyEvent c) rs) st' :=
  h.of_eq (foldl_neutral c evs hn rs).1 (foldl_neutral c evs hn rs).2 h3

/-- `mint`: the entry's `mints` goes up exactly when `RuneMinted` is emitted -/
theorem mint_rinv (c : List Block) {rs : ReplayState} {st : State} (h : RInv rs st) (height : Nat) (id : RuneId)
    (t : Txid) (s : State) (r : Option Nat) (hm : mint st height id = (s, r)) :
    match r with
    | none => RInv rs s
    | some a => RInv (applyEvent c rs (.runeMinted a height id t)) s := by
  unfold mint at hm
  split at hm
  · simp only [Prod.mk.injEq] at hm; obtain ⟨rfl, rfl⟩ := hm; exact h
  · rename_i e he
    split at hm
    · simp only [Prod.mk.injEq] at hm; obtain ⟨rfl, rfl⟩ := hm; exact h
    · rename_i amount _
      simp only [Prod.mk.injEq] at hm; obtain ⟨rfl, rfl⟩ := hm
      refine ⟨?_, ?_⟩
      · show rs.runes = AL.keys (AL.set st.runeEntries id _)
        rw [AL.keys_set, h.runes, insertUnique]
        have hmem := AL.mem_keys_of_mem (AL.mem_of_get he)
        simp [hmem]
      · intro id'
        show AL.get (AL.set rs.mints id _) id' = (AL.get (AL.set st.runeEntries id _) id').map _
        rw [AL.get_set, AL.get_set]
        split
        · have := h.mints id
          rw [he] at this
          simp [this]
        · exact h.mints id'

/-- `create_rune_entry`: the new entry (mints 0) appears exactly with `RuneEtched` -/
theorem createRuneEntry_rinv (c : List Block) {rs : ReplayState} {st : State} (h : RInv rs st) (blk : Block)
    (tx : Tx) (art : Artifact) (id : RuneId) (rune : Nat) :
    RInv ((createRuneEntry st blk tx art id rune).2.foldl (applyEvent c) rs) (createRuneEntry st blk tx art id rune).1 := by
  have hm : ∀ e : RuneEntry, (match art with
      | .cenotaph .. => (⟨id.block, 0, 0, tx.txid, 0, st.runes, 0, rune, 0, none, none, blk.time, false⟩ : RuneEntry)
      | .runestone _ (some e) _ _ =>
        ⟨id.block, 0, e.divisibility.getD 0, tx.txid, 0, st.runes, e.premine.getD 0, rune, e.spacers.getD 0,
          e.symbol, e.terms, blk.time, e.turbo⟩
      | .runestone _ none _ _ => default) = e → e.mints = 0 := by
    intro e he
    subst he
    split <;> rfl
  unfold createRuneEntry
  simp only [List.foldl_cons, List.foldl_nil, applyEvent]
  refine ⟨?_, ?_⟩
  · dsimp only
    split <;> (dsimp only; rw [AL.keys_set, h.runes])
  · intro id'
    dsimp only
    split <;> (dsimp only; rw [AL.get_set, AL.get_set]; split
               · simp only [Option.map_some]; congr 1; exact (hm _ rfl).symm
               · exact h.mints id')

theorem takeInputs_rframe : ∀ (ins : List TxIn) (st : State) (un : Balances) (st' : State) (un' : Balances),
    takeInputs ins st un = .ok (st', un') → st'.runeEntries = st.runeEntries := by
  intro ins
  induction ins with
  | nil => intro st un st' un' h; simp only [takeInputs, Outcome.ok.injEq, Prod.mk.injEq] at h; rw [← h.1]
  | cons i rest ih =>
    intro st un st' un' h
    simp only [takeInputs] at h
    split at h
    · exact ih _ _ _ _ h
    · split at h
      · exact (ih _ _ _ _ h).trans rfl
      · cases h
      · cases h

def IsTransfer (blk : Block) (tx : Tx) (e : Event) : Prop :=
  ∃ a op id, e = .runeTransferred a blk.height op id tx.txid

theorem writeOutputs_rframe (blk : Block) (tx : Tx) : ∀ (l : List (Nat × Balances)) (st : State) (burned : Balances)
    (evs : List Event) (st' : State) (burned' : Balances) (evs' : List Event),
    writeOutputs blk tx l st burned evs = .ok (st', burned', evs') →
    st'.runeEntries = st.runeEntries ∧ ∃ add, evs' = evs ++ add ∧ ∀ e ∈ add, IsTransfer blk tx e := by
  intro l
  induction l with
  | nil =>
    intro st burned evs st' burned' evs' h
    simp only [writeOutputs, Outcome.ok.injEq, Prod.mk.injEq] at h
    obtain ⟨rfl, rfl, rfl⟩ := h
    exact ⟨rfl, [], by simp, by simp⟩
  | cons p rest ih =>
    intro st burned evs st' burned' evs' h
    obtain ⟨vout, bs⟩ := p
    simp only [writeOutputs] at h
    split at h
    · exact ih _ _ _ _ _ _ h
    · split at h <;> split at h
      all_goals first
        | (split at h <;> first | exact ih _ _ _ _ _ _ h | cases h)
        | (obtain ⟨h1, add, h2, h3⟩ := ih _ _ _ _ _ _ h
           refine ⟨h1, (sortBalances bs).map (fun x => Event.runeTransferred x.snd blk.height ⟨tx.txid, vout⟩ x.fst tx.txid) ++ add,
             by rw [h2, List.append_assoc], ?_⟩
           intro e he
           rcases List.mem_append.1 he with he | he
           · obtain ⟨x, _, rfl⟩ := List.mem_map.1 he
             exact ⟨x.2, _, x.1, rfl⟩
           · exact h3 e he)

theorem etched_rframe (st : State) (blk : Block) (i : Nat) (tx : Tx) (art : Artifact) (st' : State)
    (et : Option (RuneId × Nat)) (h : etched st blk i tx art = .ok (st', et)) :
    st'.runeEntries = st.runeEntries := by
  unfold etched at h
  dsimp only at h
  split at h
  · simp only [Outcome.ok.injEq, Prod.mk.injEq] at h; rw [← h.1]
  · split at h
    · simp only [Outcome.ok.injEq, Prod.mk.injEq] at h; rw [← h.1]
    · split at h
      · cases h
      · cases h
      · simp only [Outcome.ok.injEq, Prod.mk.injEq] at h; rw [← h.1]
      · simp only [Outcome.ok.injEq, Prod.mk.injEq] at h; rw [← h.1]
  · simp only [Outcome.ok.injEq, Prod.mk.injEq] at h; rw [← h.1]

theorem flushBurned_rframe : ∀ (bb : Balances) (st st' : State), flushBurned bb st = .ok st' →
    AL.keys st'.runeEntries = AL.keys st.runeEntries ∧
    ∀ id, (AL.get st'.runeEntries id).map (·.mints) = (AL.get st.runeEntries id).map (·.mints) := by
  intro bb
  induction bb with
  | nil => intro st st' h; simp only [flushBurned, Outcome.ok.injEq] at h; subst h; exact ⟨rfl, fun _ => rfl⟩
  | cons p rest ih =>
    intro st st' h
    obtain ⟨id, b⟩ := p
    simp only [flushBurned] at h
    split at h
    · cases h
    · rename_i e he
      split at h
      · cases h
      · obtain ⟨h1, h2⟩ := ih _ _ h
        refine ⟨h1.trans ?_, fun id' => (h2 id').trans ?_⟩
        · show AL.keys (AL.set st.runeEntries id _) = _
          rw [AL.keys_set, insertUnique]
          have hmem := AL.mem_keys_of_mem (AL.mem_of_get he)
          simp [hmem]
        · show (AL.get (AL.set st.runeEntries id _) id').map _ = _
          rw [AL.get_set]
          split
          · rename_i hid
            have : id = id' := by simpa using hid
            subst this
            simp [he]
          · rfl

theorem mintTriple_rinv (c : List Block) {rs : ReplayState} {st0 : State} (h0 : RInv rs st0) (mintId : Option RuneId)
    (un0 : Balances) (height : Nat) (txid : Txid) (M : State × Outcome Balances × List Event)
    (hM : (match mintId with
      | none => (st0, Outcome.ok un0, ([] : List Event))
      | some id =>
        match mint st0 height id with
        | (s, none) => (s, Outcome.ok un0, [])
        | (s, some amount) => (s, addLot un0 id amount, [Event.runeMinted amount height id txid])) = M) :
    RInv (M.2.2.foldl (applyEvent c) rs) M.1 := by
  subst hM
  split
  · exact h0
  · rename_i id
    split
    · rename_i s hm
      exact mint_rinv c h0 height id txid s none hm
    · rename_i s amount hm
      exact mint_rinv c h0 height id txid s (some amount) hm

theorem indexRunesTx_rinv (c : List Block) {rs : ReplayState} {st : State} (h : RInv rs st) (blk : Block) (i : Nat)
    (tx : Tx) (bb : Balances) (st' : State) (bb' : Balances) (evs : List Event)
    (hx : indexRunesTx st blk i tx bb = .ok (st', bb', evs)) :
    RInv (evs.foldl (applyEvent c) rs) st' := by
  unfold indexRunesTx at hx
  split at hx
  · cases hx
  · cases hx
  · rename_i st0 un0 hti
    have h0 : RInv rs st0 := h.of_eq rfl rfl (takeInputs_rframe _ _ _ _ _ hti)
    dsimp only at hx
    split at hx
    · cases hx
    · cases hx
    · rename_i st3 un alloc evs1 hp1
      have hp : RInv (evs1.foldl (applyEvent c) rs) st3 := by
        split at hp1
        · simp only [Outcome.ok.injEq, Prod.mk.injEq] at hp1
          obtain ⟨rfl, -, -, rfl⟩ := hp1
          exact h0
        · rename_i art hart
          have hM := fun mid => mintTriple_rinv c h0 mid un0 blk.height tx.txid _ rfl
          split at hp1
          · cases hp1
          · cases hp1
          · split at hp1
            · cases hp1
            · cases hp1
            · rename_i st2 et het
              have h2 := (hM _).of_eq (st' := st2) rfl rfl (etched_rframe _ _ _ _ _ _ _ het)
              split at hp1
              · cases hp1
              · cases hp1
              · split at hp1
                · simp only [Outcome.ok.injEq, Prod.mk.injEq] at hp1
                  obtain ⟨rfl, -, -, rfl⟩ := hp1
                  rw [List.foldl_append]
                  exact createRuneEntry_rinv c h2 blk tx art _ _
                · simp only [Outcome.ok.injEq, Prod.mk.injEq] at hp1
                  obtain ⟨rfl, -, -, rfl⟩ := hp1
                  exact h2
      split at hx
      · cases hx
      · cases hx
      · split at hx
        · cases hx
        · cases hx
        · rename_i st4 burned evs2 hwo
          split at hx
          · cases hx
          · cases hx
          · simp only [Outcome.ok.injEq, Prod.mk.injEq] at hx
            obtain ⟨rfl, -, rfl⟩ := hx
            obtain ⟨hre, add, rfl, hadd⟩ := writeOutputs_rframe blk tx _ _ _ _ _ _ _ hwo
            rw [List.append_assoc, List.foldl_append]
            refine hp.neutral c _ ?_ hre
            intro e he
            rcases List.mem_append.1 he with he | he
            · obtain ⟨a, op, id, rfl⟩ := hadd e he
              trivial
            · obtain ⟨x, _, rfl⟩ := List.mem_map.1 he
              trivial

theorem go_rinv (c : List Block) (blk : Block) : ∀ (l : List (Nat × Tx)) (st : State) (bb : Balances)
    (evs0 : List Event) (st' : State) (bb' : Balances) (evs : List Event) (rs : ReplayState),
    RInv (evs0.foldl (applyEvent c) rs) st → indexRunesBlock.go blk l st bb evs0 = .ok (st', bb', evs) →
    RInv (evs.foldl (applyEvent c) rs) st' := by
  intro l
  induction l with
  | nil =>
    intro st bb evs0 st' bb' evs rs h hg
    simp only [indexRunesBlock.go, Outcome.ok.injEq, Prod.mk.injEq] at hg
    obtain ⟨rfl, -, rfl⟩ := hg
    exact h
  | cons p rest ih =>
    intro st bb evs0 st' bb' evs rs h hg
    obtain ⟨i, tx⟩ := p
    simp only [indexRunesBlock.go] at hg
    split at hg
    · cases hg
    · cases hg
    · rename_i st1 bb1 evs1 htx
      refine ih _ _ _ _ _ _ rs ?_ hg
      rw [List.foldl_append]
      exact indexRunesTx_rinv c h blk i tx bb st1 bb1 evs1 htx

/-- one block of rune indexing keeps rune existence and mint counts in step with the replay -/
theorem indexRunesBlock_rinv (c : List Block) {rs : ReplayState} {st : State} (h : RInv rs st) (blk : Block)
    (st' : State) (evs : List Event) (hb : indexRunesBlock st blk = .ok (st', evs)) :
    RInv (evs.foldl (applyEvent c) rs) st' := by
  unfold indexRunesBlock at hb
  split at hb
  · cases hb
  · cases hb
  · rename_i st1 bb evs1 hgo
    split at hb
    · cases hb
    · cases hb
    · rename_i st2 hfl
      simp only [Outcome.ok.injEq, Prod.mk.injEq] at hb
      obtain ⟨rfl, rfl⟩ := hb
      have h1 := go_rinv c blk _ _ _ _ _ _ _ rs (by simpa using h) hgo
      obtain ⟨hk, hm⟩ := flushBurned_rframe _ _ _ hfl
      exact ⟨by rw [hk]; exact h1.runes, fun id => by rw [hm id]; exact h1.mints id⟩

/-- the UTXO / inscription pass leaves the rune entries alone and emits no rune etch/mint event -/
def UtxoPassFrame (cfg : Cfg) : Prop :=
  ∀ st blk st1 ev1, indexUtxoEntries cfg st blk = .ok (st1, ev1) →
    st1.runeEntries = st.runeEntries ∧ ∀ e ∈ ev1, RMNeutral e

/-- only the rune index is on: `applyBlock` skips the UTXO / inscription pass -/
def RunesOnly (cfg : Cfg) : Prop :=
  cfg.indexInscriptions = false ∧ cfg.indexAddresses = false ∧ cfg.indexSats = false

theorem applyBlock_rinv (c : List Block) (cfg : Cfg) (hf : UtxoPassFrame cfg ∨ RunesOnly cfg) {rs : ReplayState}
    {st : State} (h : RInv rs st) (blk : Block) (st' : State) (evs : List Event)
    (hb : applyBlock cfg st blk = .ok (st', evs)) : RInv (evs.foldl (applyEvent c) rs) st' := by
  unfold applyBlock at hb
  dsimp only at hb
  split at hb
  · cases hb
  · cases hb
  · rename_i st1 ev1 h1
    have hr1 : RInv (ev1.foldl (applyEvent c) rs) st1 := by
      rcases hf with hf | ⟨ha, hb', hc⟩
      · split at h1
        · obtain ⟨hre, hn⟩ := hf _ _ _ _ h1
          exact h.neutral c ev1 hn hre
        · simp only [Outcome.ok.injEq, Prod.mk.injEq] at h1
          obtain ⟨rfl, rfl⟩ := h1
          exact h
      · simp only [ha, hb', hc, Bool.or_self, Bool.false_eq_true, if_false, Outcome.ok.injEq, Prod.mk.injEq] at h1
        obtain ⟨rfl, rfl⟩ := h1
        exact h
    split at hb
    · cases hb
    · cases hb
    · rename_i st2 ev2 h2
      simp only [Outcome.ok.injEq, Prod.mk.injEq] at hb
      obtain ⟨rfl, rfl⟩ := hb
      rw [List.foldl_append]
      split at h2
      · exact (indexRunesBlock_rinv c hr1 blk st2 ev2 h2).of_eq rfl rfl rfl
      · simp only [Outcome.ok.injEq, Prod.mk.injEq] at h2
        obtain ⟨rfl, rfl⟩ := h2
        exact hr1.of_eq rfl rfl rfl

theorem run_rinv (c : List Block) (cfg : Cfg) (hf : UtxoPassFrame cfg ∨ RunesOnly cfg) (chain : List Block)
    (st : State) (evs : List Event) (h : run cfg chain = .ok (st, evs)) :
    RInv (evs.foldl (applyEvent c) {}) st := by
  refine run_induct cfg (fun _ st evs => RInv (evs.foldl (applyEvent c) {}) st) ?_ ?_ chain st evs h
  · exact ⟨rfl, fun _ => rfl⟩
  · intro pre st evs b st' ev' hP hb
    rw [List.foldl_append]
    exact applyBlock_rinv c cfg hf hP b st' ev' hb

end Ord.Index
