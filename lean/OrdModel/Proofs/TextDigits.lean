import OrdModel.Text.RustParse
/-! Digit-level lemmas for the text models: positional value, `parseDigits`/`parseUnsigned`
characterisation, `splitOnce`. -/
namespace Ord.Text

theorem digitVal_le {c : Char} (h : isDigit c = true) : digitVal c ≤ 9 := by
  simp [isDigit] at h; unfold digitVal; omega

theorem decFold_append (acc : Nat) (a b : List Char) :
    decFold acc (a ++ b) = decFold (decFold acc a) b := by
  show List.foldl _ _ _ = List.foldl _ (List.foldl _ _ _) _
  exact List.foldl_append

theorem decFold_cons (acc : Nat) (c : Char) (cs : List Char) :
    decFold acc (c :: cs) = decFold (acc * 10 + digitVal c) cs := by
  unfold decFold; rw [List.foldl_cons]

theorem decFold_eq (acc : Nat) (ds : List Char) :
    decFold acc ds = acc * 10 ^ ds.length + decVal ds := by
  induction ds generalizing acc with
  | nil => simp [decFold, decVal]
  | cons c cs ih =>
    have h1 := ih (acc * 10 + digitVal c)
    have h2 := ih (0 * 10 + digitVal c)
    simp only [decVal, decFold_cons, List.length_cons] at *
    rw [h1, h2, Nat.pow_succ]; grind

theorem le_decFold (acc : Nat) (ds : List Char) : acc ≤ decFold acc ds := by
  rw [decFold_eq]
  have : 1 ≤ 10 ^ ds.length := Nat.pow_pos (by omega)
  calc acc = acc * 1 := by omega
    _ ≤ acc * 10 ^ ds.length := Nat.mul_le_mul_left _ this
    _ ≤ _ := by omega

theorem decVal_append (a b : List Char) : decVal (a ++ b) = decVal a * 10 ^ b.length + decVal b := by
  unfold decVal; rw [decFold_append, decFold_eq]; rfl

theorem allDigits_append (a b : List Char) : allDigits (a ++ b) = (allDigits a && allDigits b) := by
  simp [allDigits]

theorem allDigits_cons (c : Char) (cs : List Char) : allDigits (c :: cs) = (isDigit c && allDigits cs) := by
  simp [allDigits]

theorem decFold_lt (acc : Nat) (ds : List Char) (h : allDigits ds = true) :
    decFold acc ds < (acc + 1) * 10 ^ ds.length := by
  induction ds generalizing acc with
  | nil => simp [decFold]
  | cons c cs ih =>
    rw [allDigits_cons, Bool.and_eq_true] at h
    have hv := digitVal_le h.1
    have := ih (acc * 10 + digitVal c) h.2
    rw [decFold_cons, List.length_cons, Nat.pow_succ]
    have h2 : (acc * 10 + digitVal c + 1) * 10 ^ cs.length ≤ ((acc + 1) * 10) * 10 ^ cs.length :=
      Nat.mul_le_mul_right _ (by omega)
    have : (acc + 1) * 10 * 10 ^ cs.length = (acc + 1) * (10 ^ cs.length * 10) := by grind
    omega

theorem decVal_lt (ds : List Char) (h : allDigits ds = true) : decVal ds < 10 ^ ds.length := by
  have := decFold_lt 0 ds h; simpa [decVal] using this

/-- exact characterisation of the accepting runs of the digit loop -/
theorem parseDigits_ok_iff (w : Nat) (acc : Nat) (ds : List Char) (n : Nat) :
    parseDigits w acc ds = .ok n ↔
      allDigits ds = true ∧ decFold acc ds = n ∧ (ds ≠ [] → n < 2 ^ w) := by
  induction ds generalizing acc with
  | nil => simp [parseDigits, allDigits, decFold]
  | cons c cs ih =>
    rw [parseDigits, allDigits_cons, decFold_cons]
    by_cases hc : isDigit c = true
    · simp only [hc, if_true, Bool.true_and]
      by_cases hlt : acc * 10 + digitVal c < 2 ^ w
      · simp only [hlt, if_true]
        rw [ih]
        constructor
        · rintro ⟨h1, h2, h3⟩
          refine ⟨h1, h2, fun _ => ?_⟩
          by_cases hcs : cs = []
          · subst hcs; simp [decFold] at h2; omega
          · exact h3 hcs
        · rintro ⟨h1, h2, h3⟩
          exact ⟨h1, h2, fun _ => h3 (by simp)⟩
      · simp only [hlt, if_false]
        constructor
        · intro h; cases h
        · rintro ⟨_, h2, h3⟩
          have := le_decFold (acc * 10 + digitVal c) cs
          have := h3 (by simp)
          omega
    · simp [hc]

theorem isDigit_plus : isDigit '+' = false := by decide
theorem isDigit_minus : isDigit '-' = false := by decide

/-- `str::parse::<uW>()` accepts exactly the numerals whose value fits in `W` bits, and returns
that value (never accepts by overflow, never mis-reads). -/
theorem parseUnsigned_ok_iff (w : Nat) (s : List Char) (n : Nat) :
    parseUnsigned w s = .ok n ↔ Numeral s n ∧ n < 2 ^ w := by
  unfold parseUnsigned Numeral
  match s with
  | [] =>
    simp only [reduceCtorEq, false_iff, not_and]
    rintro ⟨ds, h | h, hne, _⟩
    · exact absurd h.symm hne
    · cases h
  | c :: cs =>
    simp only
    by_cases h1 : cs = [] ∧ (c = '+' ∨ c = '-')
    · simp only [h1, and_self, if_true, reduceCtorEq, false_iff, not_and]
      obtain ⟨rfl, hc⟩ := h1
      rintro ⟨ds, h | h, hne, hd, _⟩
      · subst h
        rw [allDigits_cons] at hd
        rcases hc with rfl | rfl <;> simp [isDigit_plus, isDigit_minus] at hd
      · simp at h; simp_all
    · simp only [h1, if_false]
      by_cases h2 : c = '+'
      · subst h2
        have hcs : cs ≠ [] := fun h => h1 ⟨h, Or.inl rfl⟩
        simp only [if_true, parseDigits_ok_iff]
        constructor
        · rintro ⟨ha, hv, hlt⟩
          exact ⟨⟨cs, Or.inr rfl, hcs, ha, hv⟩, hlt hcs⟩
        · rintro ⟨⟨ds, h | h, hne, hd, hv⟩, hlt⟩
          · subst h; rw [allDigits_cons] at hd; simp [isDigit_plus] at hd
          · simp at h; subst h; exact ⟨hd, hv, fun _ => hlt⟩
      · simp only [h2, if_false, parseDigits_ok_iff]
        constructor
        · rintro ⟨ha, hv, hlt⟩
          exact ⟨⟨c :: cs, Or.inl rfl, by simp, ha, hv⟩, hlt (by simp)⟩
        · rintro ⟨⟨ds, h | h, hne, hd, hv⟩, hlt⟩
          · subst h; exact ⟨hd, hv, fun _ => hlt⟩
          · simp at h; exact absurd h.1 h2

/-- a digit string without sign parses to its positional value when it fits -/
theorem parseUnsigned_digits (w : Nat) (ds : List Char) (hne : ds ≠ []) (hd : allDigits ds = true)
    (hlt : decVal ds < 2 ^ w) : parseUnsigned w ds = .ok (decVal ds) :=
  (parseUnsigned_ok_iff w ds _).2 ⟨⟨ds, Or.inl rfl, hne, hd, rfl⟩, hlt⟩

theorem numeralVal?_eq_some (s : List Char) (n : Nat) : numeralVal? s = some n ↔ Numeral s n := by
  have key : ∀ ds : List Char, ((if ds ≠ [] ∧ allDigits ds = true then some (decVal ds) else none) = some n) ↔
      (ds ≠ [] ∧ allDigits ds = true ∧ decVal ds = n) := by
    intro ds
    by_cases h : ds ≠ [] ∧ allDigits ds = true
    · simp only [h, and_self, if_true, Option.some.injEq, ne_eq, not_false_eq_true, true_and]
    · simp only [h, if_false, reduceCtorEq, false_iff]
      intro hh; exact h ⟨hh.1, hh.2.1⟩
  unfold Numeral
  match s with
  | [] =>
    have : numeralVal? [] = none := by simp [numeralVal?, stripPlus]
    rw [this]
    simp only [reduceCtorEq, false_iff]
    rintro ⟨ds, h | h, hne, _⟩
    · exact absurd h.symm hne
    · cases h
  | c :: cs =>
    by_cases hc : c = '+'
    · subst hc
      simp only [numeralVal?, stripPlus, if_true]
      rw [key]
      constructor
      · rintro ⟨h1, h2, h3⟩; exact ⟨cs, Or.inr rfl, h1, h2, h3⟩
      · rintro ⟨ds, h | h, hne, hd, hv⟩
        · subst h; rw [allDigits_cons] at hd; simp [isDigit_plus] at hd
        · simp at h; subst h; exact ⟨hne, hd, hv⟩
    · have : numeralVal? (c :: cs) = (if (c :: cs) ≠ [] ∧ allDigits (c :: cs) = true then some (decVal (c :: cs)) else none) := by
        simp only [numeralVal?, stripPlus, hc, if_false]
      rw [this, key]
      constructor
      · rintro ⟨h1, h2, h3⟩; exact ⟨c :: cs, Or.inl rfl, h1, h2, h3⟩
      · rintro ⟨ds, h | h, hne, hd, hv⟩
        · subst h; exact ⟨hne, hd, hv⟩
        · simp at h; exact absurd h.1 hc

/-! ### `splitOnce` -/

theorem splitOnce_some {sep : Char} {s a b : List Char} (h : splitOnce sep s = some (a, b)) :
    s = a ++ sep :: b ∧ sep ∉ a := by
  induction s generalizing a with
  | nil => simp [splitOnce] at h
  | cons c cs ih =>
    rw [splitOnce] at h
    by_cases hc : c = sep
    · simp [hc] at h; obtain ⟨rfl, rfl⟩ := h; simp [hc]
    · simp only [hc, if_false] at h
      cases hr : splitOnce sep cs with
      | none => simp [hr] at h
      | some p =>
        obtain ⟨a', b'⟩ := p
        simp [hr] at h
        obtain ⟨rfl, rfl⟩ := h
        obtain ⟨h1, h2⟩ := ih hr
        refine ⟨by simp [h1], ?_⟩
        simp only [List.mem_cons, not_or]
        exact ⟨fun h => hc h.symm, h2⟩

theorem splitOnce_none {sep : Char} {s : List Char} (h : splitOnce sep s = none) : sep ∉ s := by
  induction s with
  | nil => simp
  | cons c cs ih =>
    rw [splitOnce] at h
    by_cases hc : c = sep
    · simp [hc] at h
    · simp only [hc, if_false] at h
      cases hr : splitOnce sep cs with
      | none =>
        simp only [List.mem_cons, not_or]
        exact ⟨fun h => hc h.symm, ih hr⟩
      | some p => simp [hr] at h

theorem splitOnce_append {sep : Char} (a b : List Char) (h : sep ∉ a) :
    splitOnce sep (a ++ sep :: b) = some (a, b) := by
  induction a with
  | nil => simp [splitOnce]
  | cons c cs ih =>
    simp only [List.mem_cons, not_or] at h
    have hc : ¬ c = sep := fun e => h.1 e.symm
    simp [splitOnce, hc, ih h.2]

theorem splitOnce_of_not_mem {sep : Char} (s : List Char) (h : sep ∉ s) : splitOnce sep s = none := by
  induction s with
  | nil => rfl
  | cons c cs ih =>
    simp only [List.mem_cons, not_or] at h
    have hc : ¬ c = sep := fun e => h.1 e.symm
    simp [splitOnce, hc, ih h.2]

theorem not_mem_of_allDigits {ds : List Char} {c : Char} (hd : allDigits ds = true)
    (hc : isDigit c = false) : c ∉ ds := by
  intro hm
  have := List.all_eq_true.1 hd c hm
  rw [hc] at this; cases this

end Ord.Text
