import OrdModel.Proofs.IndexLiftNoPanicScan
import OrdModel.Proofs.IndexMiscNoPanicSats
/-
C16 lift, part 4: `update_inscription_location` (`uilStep` / `uilFinish`), `applyLocations`,
`applyLost` under the invariants: none of the entry lookups, the `calculate_sat` call, the `i32`
conversion of the inscription count, the output-entry indexing and the special-outpoint assert fails;
`IdsOK` and the bound on listed sequence numbers are kept (`LInv`), and the counters move by the
number of new inscriptions (`LRel`).
-/
namespace Ord.Index.NoPanic
open Ord Ord.Index Outcome Sched

instance instLawfulBEqInscriptionIdNoPanic : LawfulBEq InscriptionId where
  eq_of_beq {a b} h := by
    cases a; cases b
    have : (_ == _ && _ == _) = true := h
    simp_all
  rfl {a} := by
    cases a
    show (_ == _ && _ == _) = true
    simp

structure LInv (ls : LocState) : Prop where
  ids : IdsOK ls.st
  outs : ∀ e ∈ ls.outs, ∀ p ∈ e.ins, p.1 < ls.st.entries.length

/-- what the location updates do to the things the no-panic argument tracks; `k` = number of new
inscriptions among the flotsam handled -/
structure LRel (k : Nat) (ls ls' : LocState) : Prop where
  len : ls.st.entries.length ≤ ls'.st.entries.length
  cnt : ls'.st.cursed + ls'.st.blessed = ls.st.cursed + ls.st.blessed + k
  outsLen : ls'.outs.length = ls.outs.length
  flotsam : ls'.ctx.flotsam = ls.ctx.flotsam
  reward : ls'.ctx.reward = ls.ctx.reward
  lost : ls'.ctx.lostSats = ls.ctx.lostSats

theorem LRel.refl (ls : LocState) : LRel 0 ls ls := ⟨Nat.le_refl _, rfl, rfl, rfl, rfl, rfl⟩

theorem LRel.trans {a b : Nat} {x y z : LocState} (h1 : LRel a x y) (h2 : LRel b y z) : LRel (a + b) x z :=
  ⟨Nat.le_trans h1.len h2.len, by rw [h2.cnt, h1.cnt]; omega, h2.outsLen.trans h1.outsLen,
   h2.flotsam.trans h1.flotsam, h2.reward.trans h1.reward, h2.lost.trans h1.lost⟩

/-! ### `linkParents` -/

theorem linkParents_same (seq : Nat) (ps : List InscriptionId) (st : State) (ids : List InscriptionId) (seqs : List Nat)
    (r : State × List InscriptionId × List Nat) (h : linkParents seq ps st ids seqs = .ok r) : InsSame st r.1 := by
  induction ps generalizing st ids seqs with
  | nil => simp only [linkParents, Outcome.ok.injEq] at h; subst h; exact InsSame.refl _
  | cons p rest ih =>
    simp only [linkParents] at h
    split at h
    · exact ih _ _ _ h
    · split at h
      · cases h
      · have := ih _ _ _ h
        split at this <;> exact ⟨this.1, this.2.1, this.2.2.1, this.2.2.2⟩

theorem linkParents_valid (seq : Nat) (ps : List InscriptionId) (st : State) (ids : List InscriptionId) (seqs : List Nat)
    (hlt : ∀ (id : InscriptionId) (s : Nat), AL.get st.id2seq id = some s → s < st.entries.length) :
    ∃ r, linkParents seq ps st ids seqs = .ok r := by
  induction ps generalizing st ids seqs with
  | nil => exact ⟨_, rfl⟩
  | cons p rest ih =>
    simp only [linkParents]
    split
    · exact ih st ids seqs hlt
    · rename_i pseq hp
      have := hlt p pseq hp
      rw [List.getElem?_eq_getElem this]
      simp only
      split
      · exact ih _ _ _ hlt
      · exact ih _ _ _ hlt

/-! ### `uilStep` -/

theorem nsSat_valid (ir : Option (List (Nat × Nat))) (unbound : Bool) (offset : Nat)
    (h : ∀ rs, ir = some rs → unbound = false → offset < rangesValue rs) : ∃ sat, nsSat ir unbound offset = .ok sat := by
  unfold nsSat
  cases unbound with
  | true => exact ⟨none, rfl⟩
  | false =>
    simp only [Bool.false_eq_true, if_false]
    cases ir with
    | none => exact ⟨none, rfl⟩
    | some rs =>
      obtain ⟨n, hn⟩ := calculateSat_ok rs 0 offset (Nat.zero_le _) (by have := h rs rfl rfl; omega)
      simp only [hn]
      exact ⟨some n, rfl⟩

theorem nsA_facts (cursed : Bool) (st : State) :
    (nsA cursed st).entries = st.entries ∧ (nsA cursed st).id2seq = st.id2seq ∧
    (nsA cursed st).cursed + (nsA cursed st).blessed = st.cursed + st.blessed + 1 := by
  cases cursed
  · refine ⟨rfl, rfl, ?_⟩
    show st.cursed + (st.blessed + 1) = _
    omega
  · refine ⟨rfl, rfl, ?_⟩
    show (st.cursed + 1) + st.blessed = _
    omega

theorem nsB_same (sat : Option Nat) (seq : Nat) (st : State) : InsSame st (nsB sat seq st) := by
  cases sat <;> exact ⟨rfl, rfl, rfl, rfl⟩

theorem nsC_facts (gallery hidden : Bool) (entry : InsEntry) (id : InscriptionId) (seq hc : Nat) (st : State) :
    (nsC gallery hidden entry id seq hc st).1.entries = st.entries ++ [entry] ∧
    (nsC gallery hidden entry id seq hc st).1.id2seq = AL.set st.id2seq id seq ∧
    (nsC gallery hidden entry id seq hc st).1.cursed = st.cursed ∧
    (nsC gallery hidden entry id seq hc st).1.blessed = st.blessed := by
  unfold nsC
  cases gallery <;> cases hidden <;> by_cases h : hc = 100 <;> simp [h]

/-- the first half of `update_inscription_location`, bundled result -/
structure StepOK (k : Nat) (ls : LocState) (r : Bool × Nat × State × InsCtx) : Prop where
  ids : IdsOK r.2.2.1
  seq : r.2.1 < r.2.2.1.entries.length
  len : ls.st.entries.length ≤ r.2.2.1.entries.length
  cnt : r.2.2.1.cursed + r.2.2.1.blessed = ls.st.cursed + ls.st.blessed + k
  flotsam : r.2.2.2.flotsam = ls.ctx.flotsam
  reward : r.2.2.2.reward = ls.ctx.reward
  lost : r.2.2.2.lostSats = ls.ctx.lostSats

theorem uilStep_valid (height time : Nat) (ir : Option (List (Nat × Nat))) (fl : Flotsam) (sp : SatPoint) (opr : Bool)
    (ls : LocState) (hids : IdsOK ls.st) (hold : OldOK ls.st.entries.length fl)
    (hcnt : isNew fl = true → ls.st.cursed + ls.st.blessed < 2147483648)
    (hsat : ∀ rs, ir = some rs → NewBound fl → fl.offset < rangesValue rs) :
    ∃ r, uilStep height time ir fl sp opr ls = .ok r ∧ StepOK (if isNew fl = true then 1 else 0) ls r := by
  obtain ⟨id, offset, origin⟩ := fl
  cases origin with
  | old seq oldSp =>
    have hlt : seq < ls.st.entries.length := hold seq oldSp rfl
    unfold uilStep
    simp only
    rw [List.getElem?_eq_getElem hlt]
    simp only
    refine ⟨_, rfl, ?_⟩
    cases opr with
    | false =>
      exact ⟨hids, hlt, Nat.le_refl _, by simp [isNew], rfl, rfl, rfl⟩
    | true =>
      simp only [if_true]
      refine ⟨⟨?_, ?_⟩, by simpa using hlt, by simp, by simp [isNew], rfl, rfl, rfl⟩
      · intro e he
        simp only at he
        rcases List.mem_or_eq_of_mem_set he with he | he
        · exact hids.has e he
        · subst he
          exact hids.has (ls.st.entries[seq]) (List.getElem_mem hlt)
      · intro i s hi
        simp only [List.length_set]
        exact hids.lt i s hi
  | new cursed fee gallery hidden parents reinscription unbound vindicated =>
    rw [uilStep_new]
    have hc := hcnt rfl
    have hlim : ¬ (if cursed = true then ls.st.cursed else ls.st.blessed) ≥ 2147483648 := by
      split <;> omega
    rw [if_neg hlim]
    obtain ⟨sat, hsat'⟩ := nsSat_valid ir unbound offset (by
      intro rs hrs hu
      subst hu
      exact hsat rs hrs ⟨_, _, _, _, _, _, _, rfl⟩)
    rw [hsat']
    simp only
    obtain ⟨hA1, hA2, hA3⟩ := nsA_facts cursed ls.st
    have hB := nsB_same sat (nsA cursed ls.st).entries.length (nsA cursed ls.st)
    obtain ⟨⟨st3, pids, pseqs⟩, hlp⟩ := linkParents_valid (nsA cursed ls.st).entries.length parents
      (nsB sat (nsA cursed ls.st).entries.length (nsA cursed ls.st)) [] [] (by
        intro i s hi
        rw [hB.1, hA1]
        rw [hB.2.1, hA2] at hi
        exact hids.lt i s hi)
    have hsame := linkParents_same _ _ _ _ _ _ hlp
    simp only at hsame
    rw [hlp]
    simp only
    have he3 : st3.entries = ls.st.entries := hsame.1.trans (hB.1.trans hA1)
    have hi3 : st3.id2seq = ls.st.id2seq := hsame.2.1.trans (hB.2.1.trans hA2)
    have hc3 : st3.cursed + st3.blessed = ls.st.cursed + ls.st.blessed + 1 := by
      rw [hsame.2.2.1, hsame.2.2.2, hB.2.2.1, hB.2.2.2]; exact hA3
    generalize hentry : (⟨nsCharms cursed reinscription opr unbound vindicated sp sat, fee, height, hidden, id,
              nsNumber cursed ls.st, pseqs, sat, (nsA cursed ls.st).entries.length, time⟩ : InsEntry) = entry
    have hid : entry.id = id := by rw [← hentry]
    obtain ⟨hC1, hC2, hC3, hC4⟩ := nsC_facts gallery hidden entry id (nsA cursed ls.st).entries.length ls.ctx.homeCount st3
    cases hnc : nsC gallery hidden entry id (nsA cursed ls.st).entries.length ls.ctx.homeCount st3 with
    | mk st6 homeCount =>
      rw [hnc] at hC1 hC2 hC3 hC4
      simp only at hC1 hC2 hC3 hC4
      refine ⟨_, rfl, ?_⟩
      have hn : (nsA cursed ls.st).entries.length = ls.st.entries.length := by rw [hA1]
      refine ⟨⟨?_, ?_⟩, ?_, ?_, ?_, rfl, rfl, rfl⟩
      · intro e he
        simp only at he ⊢
        rw [hC1] at he
        rw [hC2, AL.get_set]
        rcases List.mem_append.1 he with he | he
        · rw [he3] at he
          obtain ⟨s, hs⟩ := hids.has e he
          split
          · exact ⟨_, rfl⟩
          · rw [hi3]; exact ⟨s, hs⟩
        · simp only [List.mem_singleton] at he
          subst he
          rw [hid]
          simp
      · intro i s hi
        simp only at hi ⊢
        rw [hC2, AL.get_set] at hi
        rw [hC1, List.length_append, he3]
        split at hi
        · simp only [Option.some.injEq] at hi
          subst hi
          rw [hn]; simp
        · rw [hi3] at hi
          have := hids.lt i s hi
          simp; omega
      · simp only
        rw [hC1, List.length_append, he3, hn]; simp
      · simp only
        rw [hC1, List.length_append, he3]; omega
      · simp only [isNew, if_true]
        rw [hC3, hC4]; exact hc3

/-! ### `uilFinish` -/

theorem uilFinish_valid (sp : SatPoint) (tgt : Target) (k : Nat) (ls : LocState) (r : Bool × Nat × State × InsCtx)
    (hr : StepOK k ls r) (houts : ∀ e ∈ ls.outs, ∀ p ∈ e.ins, p.1 < ls.st.entries.length)
    (hsp : tgt = .null → sp.outpoint.isSpecial = true) (hv : ∀ v, tgt = .output v → v < ls.outs.length) :
    ∃ ls', uilFinish sp tgt ls.outs r = .ok ls' ∧ LInv ls' ∧ LRel k ls ls' := by
  obtain ⟨unbound, seq, st, ctx⟩ := r
  have hold : ∀ e ∈ ls.outs, ∀ p ∈ e.ins, p.1 < st.entries.length :=
    fun e he p hp => Nat.lt_of_lt_of_le (houts e he p hp) hr.len
  unfold uilFinish
  simp only
  cases unbound with
  | true =>
    simp only [if_true]
    exact ⟨_, rfl, ⟨hr.ids.congr rfl rfl, hold⟩, ⟨hr.len, hr.cnt, rfl, hr.flotsam, hr.reward, hr.lost⟩⟩
  | false =>
    simp only [Bool.false_eq_true, if_false]
    cases tgt with
    | output vout =>
      simp only
      have hlt := hv vout rfl
      rw [List.getElem?_eq_getElem hlt]
      simp only
      refine ⟨_, rfl, ⟨hr.ids, ?_⟩, ⟨hr.len, hr.cnt, by simp, hr.flotsam, hr.reward, hr.lost⟩⟩
      intro e he p hp
      simp only at he ⊢
      rcases List.mem_or_eq_of_mem_set he with he | he
      · exact hold e he p hp
      · subst he
        simp only [pushIns, List.mem_append, List.mem_singleton] at hp
        rcases hp with hp | hp
        · exact hold _ (List.getElem_mem hlt) p hp
        · subst hp; exact hr.seq
    | null =>
      simp only
      rw [hsp rfl]
      simp only [Bool.not_true, Bool.false_eq_true, if_false]
      exact ⟨_, rfl, ⟨hr.ids, hold⟩, ⟨hr.len, hr.cnt, rfl, hr.flotsam, hr.reward, hr.lost⟩⟩

theorem uil_valid (cfg : Cfg) (height time : Nat) (ir : Option (List (Nat × Nat))) (fl : Flotsam) (sp : SatPoint)
    (opr : Bool) (tgt : Target) (ls : LocState) (hinv : LInv ls) (hold : OldOK ls.st.entries.length fl)
    (hcnt : isNew fl = true → ls.st.cursed + ls.st.blessed < 2147483648)
    (hsat : ∀ rs, ir = some rs → NewBound fl → fl.offset < rangesValue rs)
    (hsp : tgt = .null → sp.outpoint.isSpecial = true) (hv : ∀ v, tgt = .output v → v < ls.outs.length) :
    ∃ ls', updateInscriptionLocation cfg height time ir fl sp opr tgt ls = .ok ls' ∧ LInv ls' ∧
      LRel (if isNew fl = true then 1 else 0) ls ls' := by
  rw [uil_eq]
  obtain ⟨r, hr, hok⟩ := uilStep_valid height time ir fl sp opr ls hinv.ids hold hcnt hsat
  rw [hr]
  obtain ⟨b, s, st, ctx⟩ := r
  exact uilFinish_valid sp tgt _ ls _ hok hinv.outs hsp hv

/-! ### the two loops -/

theorem applyLocations_valid (cfg : Cfg) (height time : Nat) (ir : Option (List (Nat × Nat)))
    (l : List (SatPoint × Flotsam × Bool)) (ls : LocState) (hinv : LInv ls)
    (hold : ∀ p ∈ l, OldOK ls.st.entries.length p.2.1)
    (hcnt : ls.st.cursed + ls.st.blessed + countNew (l.map (·.2.1)) < 2147483648)
    (hsat : ∀ p ∈ l, ∀ rs, ir = some rs → NewBound p.2.1 → p.2.1.offset < rangesValue rs)
    (hv : ∀ p ∈ l, p.1.outpoint.vout < ls.outs.length) :
    ∃ ls', applyLocations cfg height time ir l ls = .ok ls' ∧ LInv ls' ∧ LRel (countNew (l.map (·.2.1))) ls ls' := by
  induction l generalizing ls with
  | nil => exact ⟨ls, rfl, hinv, LRel.refl _⟩
  | cons p rest ih =>
    obtain ⟨sp, fl, opr⟩ := p
    simp only [applyLocations]
    simp only [List.map_cons, countNew_cons] at hcnt ⊢
    obtain ⟨ls1, h1, i1, r1⟩ := uil_valid cfg height time ir fl sp opr (.output sp.outpoint.vout) ls hinv
      (hold _ List.mem_cons_self)
      (by intro hn; rw [if_pos hn] at hcnt; omega)
      (hsat _ List.mem_cons_self) (fun h => by cases h)
      (fun v hv' => by cases hv'; exact hv _ List.mem_cons_self)
    rw [h1]
    simp only
    obtain ⟨ls2, h2, i2, r2⟩ := ih ls1 i1
      (fun p hp s sp' hs => Nat.lt_of_lt_of_le (hold p (List.mem_cons_of_mem _ hp) s sp' hs) r1.len)
      (by rw [r1.cnt]; omega)
      (fun p hp => hsat p (List.mem_cons_of_mem _ hp))
      (fun p hp => by rw [r1.outsLen]; exact hv p (List.mem_cons_of_mem _ hp))
    exact ⟨ls2, h2, i2, r1.trans r2⟩

theorem applyLost_valid (cfg : Cfg) (height time : Nat) (ir : Option (List (Nat × Nat))) (ov : Nat)
    (l : List Flotsam) (ls : LocState) (hinv : LInv ls)
    (hold : ∀ f ∈ l, OldOK ls.st.entries.length f)
    (hcnt : ls.st.cursed + ls.st.blessed + countNew l < 2147483648)
    (hsat : ∀ f ∈ l, ∀ rs, ir = some rs → NewBound f → f.offset < rangesValue rs) :
    ∃ ls', applyLost cfg height time ir ov l ls = .ok ls' ∧ LInv ls' ∧ LRel (countNew l) ls ls' := by
  induction l generalizing ls with
  | nil => exact ⟨ls, rfl, hinv, LRel.refl _⟩
  | cons fl rest ih =>
    simp only [applyLost]
    simp only [countNew_cons] at hcnt ⊢
    obtain ⟨ls1, h1, i1, r1⟩ := uil_valid cfg height time ir fl ⟨OutPoint.null, ls.ctx.lostSats + fl.offset - ov⟩ false
      .null ls hinv (hold _ List.mem_cons_self)
      (by intro hn; rw [if_pos hn] at hcnt; omega)
      (hsat _ List.mem_cons_self) (fun _ => rfl) (fun v hv' => by cases hv')
    rw [h1]
    simp only
    obtain ⟨ls2, h2, i2, r2⟩ := ih ls1 i1
      (fun f hf s sp' hs => Nat.lt_of_lt_of_le (hold f (List.mem_cons_of_mem _ hf) s sp' hs) r1.len)
      (by rw [r1.cnt]; omega)
      (fun f hf => hsat f (List.mem_cons_of_mem _ hf))
    exact ⟨ls2, h2, i2, r1.trans r2⟩

end Ord.Index.NoPanic
