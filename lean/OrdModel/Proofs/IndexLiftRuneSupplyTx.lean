import OrdModel.Proofs.IndexLiftRuneSupplyAL
import OrdModel.Proofs.IndexRunemintChain
/-
Rune lift, part 2b: the C08 supply invariant `SInv` through ONE transaction of the rune pass
(`indexRunesTx`), given C11's table invariant `RInv` (fresh ids `(H, t)`) and a txid that has
not occurred before (fresh outpoints).

Built on `indexRunesTx_refines` / `allocate_conserves` (C09 / C08, per transaction), `tx_step`
(C10 / C11: what one transaction does to the entries) and the list-level facts of
`IndexLiftRuneSupplyAL.lean`.
-/
namespace Ord.Index.RuneLift
open Ord.Index Ord.Index.Spec Ord.Index.RS Ord.Index.Oracle Ord.Outcome
open Ord.Index.Runemint (RInv)

/-- every stored row: no repeated id, not empty, positive balances of existing runes, on an
output of a transaction seen so far that is not an OP_RETURN output -/
def RowsOK (seen : List Tx) (ents : List (RuneId × RuneEntry)) (bals : List (OutPoint × Balances)) : Prop :=
  ∀ o row, (o, row) ∈ bals →
    (keys row).Nodup ∧ row ≠ [] ∧ (∀ id b, (id, b) ∈ row → 0 < b ∧ AL.get ents id ≠ none) ∧
    o.txid ∈ seen.map (·.txid) ∧ (∀ tx ∈ seen, tx.txid = o.txid → opretAt tx o.vout = false)

/-- The supply invariant while a block is being indexed: `seen` = the transactions indexed so
far (earlier blocks and the part of this block already done), `bb` = the block's burn
accumulator (`RuneUpdater::burned`; empty between blocks). -/
structure SInv (seen : List Tx) (st : State) (bb : Balances) : Prop where
  entNodup : (keys st.runeEntries).Nodup
  bbNodup : (keys bb).Nodup
  /-- C08, first sentence, with the not yet flushed burns of this block -/
  supply : ∀ id e, AL.get st.runeEntries id = some e →
    supplyIn st.balances id + e.burned + lk bb id = e.premine + e.mints * mintAmount e
  bbZero : ∀ id, AL.get st.runeEntries id = none → lk bb id = 0
  rows : RowsOK seen st.runeEntries st.balances

theorem SInv_empty : SInv [] {} [] :=
  ⟨by simp [keys], by simp [keys], fun id e h => by simp [AL.get] at h, fun _ _ => rfl,
   fun o row h => by simp at h⟩

/-! ### the mint and the etching of a transaction, in C10's / C11's terms -/

theorem amountOf_eq (e : RuneEntry) : Runemint.amountOf e = mintAmount e := by
  unfold Runemint.amountOf mintAmount
  cases e.terms <;> rfl

theorem mintIdOf_eq (art : Artifact) : mintIdOf art = Runemint.artMint art := by cases art <;> rfl

theorem txMint_eq (s : State) (h : Nat) (tx : Tx) :
    RS.txMint s h tx = match Runemint.txMint tx with
      | none => none
      | some id => match AL.get s.runeEntries id with
        | none => none
        | some e => if Runemint.mintOpen e h = true then some (id, mintAmount e) else none := by
  unfold RS.txMint Runemint.txMint
  cases tx.artifact with
  | none => rfl
  | some art =>
    simp only [Option.bind_some, mintIdOf_eq]
    cases Runemint.artMint art with
    | none => rfl
    | some id =>
      simp only
      cases hg : AL.get s.runeEntries id with
      | none => rw [Runemint.mint_of_absent s h id hg]; rfl
      | some e =>
        cases ho : Runemint.mintOpen e h with
        | false => rw [Runemint.mint_of_closed s h id e hg ho]; simp [ho]
        | true => rw [Runemint.mint_of_open s h id e hg ho]; simp [amountOf_eq, ho]

/-- what the mint adds to rune `r` -/
def mintPart (s : State) (h : Nat) (tx : Tx) (r : RuneId) : Nat :=
  match RS.txMint s h tx with
  | some (id, a) => if id = r then a else 0
  | none => 0

theorem mintPart_eq (s : State) (h : Nat) (tx : Tx) (r : RuneId) :
    mintPart s h tx r = match AL.get s.runeEntries r with
      | none => 0
      | some e => if Runemint.txMint tx = some r ∧ Runemint.mintOpen e h = true then mintAmount e else 0 := by
  unfold mintPart
  rw [txMint_eq]
  cases hm : Runemint.txMint tx with
  | none => cases AL.get s.runeEntries r <;> simp
  | some id =>
    simp only
    by_cases hid : id = r
    · subst hid
      cases AL.get s.runeEntries id with
      | none => rfl
      | some e => by_cases ho : Runemint.mintOpen e h = true <;> simp [ho]
    · have h1 : (match AL.get s.runeEntries id with
          | none => (none : Option (RuneId × Nat))
          | some e => if Runemint.mintOpen e h = true then some (id, mintAmount e) else none) = none ∨
          ∃ a, (match AL.get s.runeEntries id with
          | none => (none : Option (RuneId × Nat))
          | some e => if Runemint.mintOpen e h = true then some (id, mintAmount e) else none) = some (id, a) := by
        cases AL.get s.runeEntries id with
        | none => exact Or.inl rfl
        | some e => by_cases ho : Runemint.mintOpen e h = true <;> simp [ho]
      have h2 : (match AL.get s.runeEntries r with
          | none => 0
          | some e => if some id = some r ∧ Runemint.mintOpen e h = true then mintAmount e else 0) = 0 := by
        cases AL.get s.runeEntries r with
        | none => rfl
        | some e => simp [hid]
      rw [h2]
      rcases h1 with h1 | ⟨a, h1⟩ <;> rw [h1] <;> simp [hid]

/-- what the etching adds to rune `r` -/
def etchPart (s : State) (blk : Block) (t : Nat) (tx : Tx) (r : RuneId) : Nat :=
  match RS.txEtched s blk t tx with
  | some (id, p) => if id = r then p else 0
  | none => 0

theorem txUnallocated_eq (st : State) (blk : Block) (t : Nat) (tx : Tx) (r : RuneId) :
    txUnallocated st blk t tx r =
      inputRunes st.balances tx.inputs r + mintPart (spent st tx) blk.height tx r + etchPart (spent st tx) blk t tx r := by
  unfold txUnallocated unallocated mintPart etchPart
  cases RS.txMint (spent st tx) blk.height tx <;> cases RS.txEtched (spent st tx) blk t tx <;> rfl

theorem stAfterMint_eq (s : State) (h : Nat) (tx : Tx) (art : Artifact) (hart : tx.artifact = some art) :
    RS.stAfterMint s h tx = Runemint.mintStep s h art := by
  unfold RS.stAfterMint Runemint.mintStep
  rw [hart]
  simp only [mintIdOf_eq]
  cases Runemint.artMint art <;> rfl

theorem txEtched_some {s : State} {blk : Block} {t : Nat} {tx : Tx} {id : RuneId} {p : Nat}
    (h : RS.txEtched s blk t tx = some (id, p)) :
    ∃ art, tx.artifact = some art ∧ id = ⟨blk.height, t⟩ ∧ p = premineOf art ∧
      Runemint.ValidEtching (Runemint.mintStep s blk.height art) blk tx art := by
  unfold RS.txEtched at h
  cases hart : tx.artifact with
  | none => rw [hart] at h; simp at h
  | some art =>
    rw [hart] at h
    simp only at h
    rw [stAfterMint_eq s blk.height tx art hart] at h
    cases he : etched (Runemint.mintStep s blk.height art) blk t tx art with
    | panic x => rw [he] at h; simp at h
    | err x => rw [he] at h; simp at h
    | ok q =>
      obtain ⟨st2, et⟩ := q
      rw [he] at h
      obtain ⟨_, hcase⟩ := Runemint.etched_cases _ st2 blk t tx art et he
      rcases hcase with ⟨rfl, _⟩ | ⟨rfl, hv⟩
      · simp at h
      · simp only [Option.some.injEq, Prod.mk.injEq] at h
        exact ⟨art, rfl, h.1.symm, h.2.symm, hv⟩

theorem txEtched_of_valid {s : State} {blk : Block} {t : Nat} {tx : Tx} {art : Artifact}
    (hart : tx.artifact = some art)
    (hv : Runemint.ValidEtching (Runemint.mintStep s blk.height art) blk tx art) :
    RS.txEtched s blk t tx = some (⟨blk.height, t⟩, premineOf art) := by
  unfold RS.txEtched
  rw [hart]
  simp only
  rw [stAfterMint_eq s blk.height tx art hart]
  cases heo : Runemint.etchingOf art with
  | none => simp [Runemint.ValidEtching, heo] at hv
  | some o =>
    cases o with
    | none => rw [Runemint.etched_unnamed _ blk t tx art heo]
    | some rune =>
      simp only [Runemint.ValidEtching, heo] at hv
      have := (Runemint.etched_named_iff (Runemint.mintStep s blk.height art) _ blk t tx art rune heo
        ⟨blk.height, t⟩ rune).2 ⟨rfl, rfl, rfl, hv.1, hv.2.1, hv.2.2.1, hv.2.2.2⟩
      rw [this]

/-! ### shape of the entries table after one transaction -/

theorem mintStep_entries_shape (st : State) (h : Nat) (art : Artifact) :
    (Runemint.mintStep st h art).runeEntries = st.runeEntries ∨
    ∃ id e0 e', AL.get st.runeEntries id = some e0 ∧
      (Runemint.mintStep st h art).runeEntries = AL.set st.runeEntries id e' := by
  unfold Runemint.mintStep
  cases Runemint.artMint art with
  | none => exact Or.inl rfl
  | some id =>
    simp only
    cases hg : AL.get st.runeEntries id with
    | none => rw [Runemint.mint_of_absent st h id hg]; exact Or.inl rfl
    | some e =>
      cases ho : Runemint.mintOpen e h with
      | false => rw [Runemint.mint_of_closed st h id e hg ho]; exact Or.inl rfl
      | true => rw [Runemint.mint_of_open st h id e hg ho]; exact Or.inr ⟨id, e, _, hg, rfl⟩

theorem tx_entries_shape {st : State} {blk : Block} {t : Nat} {tx : Tx} {bb : Balances}
    {st' : State} {bb' : Balances} {evs : List Event}
    (hok : indexRunesTx st blk t tx bb = .ok (st', bb', evs)) :
    ∃ l1, (l1 = st.runeEntries ∨ ∃ id e0 e', AL.get st.runeEntries id = some e0 ∧ l1 = AL.set st.runeEntries id e') ∧
      (st'.runeEntries = l1 ∨ ∃ art st2 rune, tx.artifact = some art ∧ Runemint.etchingOf art ≠ none ∧
          st'.runeEntries = AL.set l1 ⟨blk.height, t⟩ (Runemint.newEntry st2 blk tx art ⟨blk.height, t⟩ rune)) := by
  obtain ⟨b0, b1, hd⟩ := Runemint.indexRunesTx_decomp st blk t tx bb st' bb' evs hok
  cases hart : tx.artifact with
  | none =>
    simp only [hart] at hd
    subst hd
    exact ⟨st.runeEntries, Or.inl rfl, Or.inl rfl⟩
  | some art =>
    simp only [hart] at hd
    obtain ⟨st2, et, he, hst4⟩ := hd
    obtain ⟨⟨n, hst2⟩, hcase⟩ := Runemint.etched_cases _ st2 blk t tx art et he
    refine ⟨(Runemint.mintStep { st with balances := b0 } blk.height art).runeEntries,
      mintStep_entries_shape { st with balances := b0 } blk.height art, ?_⟩
    rcases hcase with ⟨rfl, _⟩ | ⟨rfl, hv⟩
    · left
      subst hst4; subst hst2; rfl
    · right
      have hne : Runemint.etchingOf art ≠ none := by
        intro hn; simp [Runemint.ValidEtching, hn] at hv
      refine ⟨art, st2, Runemint.etchedName blk t art, rfl, hne, ?_⟩
      subst hst4
      show (createRuneEntry st2 blk tx art _ _).1.runeEntries = _
      rw [(Runemint.createRuneEntry_tables st2 blk tx art _ _).1, hst2]

theorem newEntry_supply (st : State) (blk : Block) (tx : Tx) (art : Artifact) (id : RuneId) (rune : Nat)
    (he : Runemint.etchingOf art ≠ none) :
    (Runemint.newEntry st blk tx art id rune).burned = 0 ∧ (Runemint.newEntry st blk tx art id rune).mints = 0 ∧
    (Runemint.newEntry st blk tx art id rune).premine = premineOf art := by
  unfold Runemint.newEntry premineOf
  cases art with
  | cenotaph r m => exact ⟨rfl, rfl, rfl⟩
  | runestone eds e m p =>
    cases e with
    | none => simp [Runemint.etchingOf] at he
    | some e => exact ⟨rfl, rfl, rfl⟩

/-- a transaction the model accepts is a well-formed message (the model asserts it) -/
theorem wf_of_phases {st0 : State} {un0 : Balances} {blk : Block} {i : Nat} {tx : Tx}
    {st3 : State} {un : Balances} {alloc : Allocated} {evs : List Event} {alloc2 : Allocated} {burned0 : Balances}
    (hp1 : phase1 st0 un0 (tx.outputs.map (fun _ => [])) blk i tx = .ok (st3, un, alloc, evs))
    (hp2 : phase2 tx un alloc = .ok (alloc2, burned0)) (hlen : alloc.length = tx.outputs.length) :
    PosAlloc alloc ∧ WellFormed tx.outputs.length (Message.ofArtifact tx.artifact) := by
  have hpos0 : PosAlloc (tx.outputs.map (fun _ => ([] : Balances))) := by
    intro m hm
    simp only [List.mem_map] at hm
    obtain ⟨_, _, rfl⟩ := hm
    exact posRow_nil
  rcases phase1_alloc hp1 with ⟨hart, rfl⟩ | ⟨art, et, un1, hart, hA⟩
  · exact ⟨hpos0, by rw [hart]; trivial⟩
  · obtain ⟨hpos, hed⟩ := afterEdictsOf_pos hA hpos0
    refine ⟨hpos, ?_⟩
    rw [hart]
    cases art with
    | cenotaph ce cm => trivial
    | runestone edicts e m ptr =>
      refine ⟨hed edicts e m ptr rfl, fun p hp => ?_⟩
      subst hp
      have := (phase2_shape hp2).2 edicts e m p hart
      omega

/-! ### one transaction -/

theorem tx_supply {seen : List Tx} {st : State} {bb : Balances} {H t : Nat}
    (hS : SInv seen st bb) (hR : RInv st H t) (blk : Block) (tx : Tx)
    (st' : State) (bb' : Balances) (evs : List Event) (hH : blk.height = H) (ht : t < 4294967296)
    (hnew : tx.txid ∉ seen.map (·.txid))
    (hok : indexRunesTx st blk t tx bb = .ok (st', bb', evs)) :
    SInv (seen ++ [tx]) st' bb' := by
  subst hH
  -- no row of this txid yet
  have hfresh : ∀ v, AL.get st.balances ⟨tx.txid, v⟩ = none := by
    intro v
    cases hg : AL.get st.balances ⟨tx.txid, v⟩ with
    | none => rfl
    | some row => exact absurd (hS.rows _ _ (mem_of_get hg)).2.2.2.1 hnew
  -- the phases
  obtain ⟨st0, un0, st3, un, alloc, evs1, alloc2, burned0, burned, evs2, hti, hp1, hp2, hw, hadd⟩ :=
    indexRunesTx_parts hok
  obtain ⟨hn0, _, hst0⟩ := takeInputs_ok tx.inputs st [] st0 un0 hti (by simp)
  have hrows0 : ∀ v, rowAt (tx.outputs.map (fun _ => ([] : Balances))) v = [] := rowAt_replicate tx.outputs
  obtain ⟨hg1, hlen1, hb1, _⟩ := phase1_ok hp1 ⟨hn0, fun v => by rw [hrows0 v]; simp⟩ (by simp) hrows0
  obtain ⟨hr2, hnb0, hlen2, _⟩ := phase2_ok hp2 hg1 hlen1
  have hb3 : st3.balances = spendAll st.balances tx.inputs := by rw [hb1, hst0]
  have hfresh3 : ∀ v, AL.get st3.balances ⟨tx.txid, v⟩ = none := by
    intro v; rw [hb3]; exact get_spendAll_none _ _ _ (hfresh v)
  have hmem2 : ∀ bs ∈ alloc2, (keys bs).Nodup := by
    intro bs hm
    obtain ⟨k, hk⟩ := List.mem_iff_getElem?.1 hm
    have := hr2 k
    simpa [rowAt, hk] using this
  obtain ⟨_, _, _, hget⟩ := writeOutputs_ok blk tx alloc2 0 st3 burned0 evs1 st' burned evs2 hw hnb0 hmem2
  have hbal : st'.balances = spendAll st.balances tx.inputs ++ newRows tx 0 alloc2 := by
    rw [writeOutputs_balances blk tx alloc2 0 st3 burned0 evs1 st' burned evs2 hw (fun v _ => hfresh3 v), hb3]
  obtain ⟨hpos1, hwf⟩ := wf_of_phases hp1 hp2 hlen1
  have hpos2 : PosAlloc alloc2 := phase2_pos hp2 hpos1
  -- per-transaction conservation (C08/C09)
  have href := fun r => indexRunesTx_refines hok hfresh hS.bbNodup r
  have hcons : ∀ r, sumFrom (fun v => lk ((AL.get st'.balances ⟨tx.txid, v⟩).getD []) r) 0 tx.outputs.length + lk bb' r
      = lk bb r + txUnallocated st blk t tx r := by
    intro r
    obtain ⟨h1, h2, _⟩ := href r
    have hc := allocate_conserves (outsOf tx) (Message.ofArtifact tx.artifact)
      ((txEtched (spent st tx) blk t tx).map (·.1)) r (txUnallocated st blk t tx r) (by simpa [outsOf] using hwf)
    have hs : sumFrom (fun v => lk ((AL.get st'.balances ⟨tx.txid, v⟩).getD []) r) 0 tx.outputs.length
        = sumFrom (txSpec st blk t tx r).out 0 tx.outputs.length :=
      sumFrom_congr _ _ _ _ (fun v _ hv => h1 v (by omega))
    rw [hs, h2]
    have : (outsOf tx).length = tx.outputs.length := by simp [outsOf]
    rw [this] at hc
    unfold txSpec
    omega
  have hnewsum : ∀ r, supplyIn (newRows tx 0 alloc2) r =
      sumFrom (fun v => lk ((AL.get st'.balances ⟨tx.txid, v⟩).getD []) r) 0 tx.outputs.length := by
    intro r
    rw [← hlen2]
    apply supplyIn_newRows
    intro k hk
    have h1 := hget k alloc2[k] (by simp [hk])
    simp only [Nat.zero_add] at h1 ⊢
    rw [h1]
    by_cases hc : alloc2[k] = [] ∨ opretAt tx k = true
    · have hc' : alloc2[k].isEmpty = true ∨ opretAt tx k = true := by
        rcases hc with hc | hc
        · exact Or.inl (by rw [hc]; rfl)
        · exact Or.inr hc
      rw [if_pos hc, if_pos hc', hfresh3 k]; rfl
    · have hc' : ¬ (alloc2[k].isEmpty = true ∨ opretAt tx k = true) := by
        intro h
        rcases h with h | h
        · exact hc (Or.inl (List.isEmpty_iff.1 h))
        · exact hc (Or.inr h)
      rw [if_neg hc, if_neg hc']; rfl
  have hrowsN : ∀ p ∈ st.balances, (keys p.2).Nodup := fun p hp => (hS.rows p.1 p.2 hp).1
  have hsup : ∀ r, supplyIn st'.balances r + lk bb' r =
      supplyIn st.balances r + lk bb r + mintPart (spent st tx) blk.height tx r + etchPart (spent st tx) blk t tx r := by
    intro r
    have h1 := hcons r
    have h2 := spendAll_supply tx.inputs st.balances hrowsN r
    rw [hbal, supplyIn_append, hnewsum r]
    rw [txUnallocated_eq] at h1
    omega
  have hbbmono : ∀ r, lk bb r ≤ lk bb' r := fun r => by rw [(href r).2.1]; omega
  -- the entries (C10/C11)
  obtain ⟨hR', hother, hnewcase⟩ := Runemint.tx_step hR blk tx bb st' bb' evs rfl ht hok
  have habsent : AL.get st.runeEntries ⟨blk.height, t⟩ = none := by
    cases hg : AL.get st.runeEntries ⟨blk.height, t⟩ with
    | none => rfl
    | some e =>
      have := (hR.ids _ e hg).2.2
      unfold Runemint.idBefore at this; simp at this
  have hpersist : ∀ id, AL.get st.runeEntries id ≠ none → AL.get st'.runeEntries id ≠ none := by
    intro id h
    have hne : id ≠ ⟨blk.height, t⟩ := fun e => h (e ▸ habsent)
    rw [hother id hne]
    cases hg : AL.get st.runeEntries id with
    | none => exact absurd hg h
    | some e => simp
  have hvalid : ∀ art, tx.artifact = some art →
      (Runemint.ValidEtching (Runemint.mintStep (spent st tx) blk.height art) blk tx art ↔
        Runemint.ValidEtching st blk tx art) := by
    intro art _
    apply Runemint.ValidEtching_congr
    rw [Runemint.mintStep_rune2id]; rfl
  -- where the etching part can be non-zero
  have hE : ∀ r, etchPart (spent st tx) blk t tx r ≠ 0 → r = ⟨blk.height, t⟩ ∧ AL.get st'.runeEntries r ≠ none := by
    intro r hr
    unfold etchPart at hr
    cases hte : RS.txEtched (spent st tx) blk t tx with
    | none => rw [hte] at hr; simp at hr
    | some q =>
      obtain ⟨id, p⟩ := q
      rw [hte] at hr
      simp only at hr
      obtain ⟨art, hart, hid, _, hv⟩ := txEtched_some hte
      have hidr : id = r := by
        by_cases h : id = r
        · exact h
        · simp [h] at hr
      subst hidr
      refine ⟨hid, ?_⟩
      rcases hnewcase with ⟨_, _, _, _, e, hge, _⟩ | ⟨hnv, _⟩
      · rw [hid, hge]; simp
      · exact absurd ((hvalid art hart).1 hv) (hnv art hart)
  have hinputs : ∀ r, 0 < inputRunes st.balances tx.inputs r → AL.get st.runeEntries r ≠ none := by
    intro r hr
    obtain ⟨o, row, b, hm, hb⟩ := inputRunes_pos tx.inputs st.balances r hr
    exact ((hS.rows o row hm).2.2.1 r b hb).2
  have hMzero : ∀ r, AL.get st.runeEntries r = none → mintPart (spent st tx) blk.height tx r = 0 := by
    intro r hr
    rw [mintPart_eq]
    show (match AL.get st.runeEntries r with | none => 0 | some e => _) = 0
    rw [hr]
  refine ⟨?_, (href ⟨0, 0⟩).2.2, ?_, ?_, ?_⟩
  · -- entries keep distinct keys
    obtain ⟨l1, hl1, hl2⟩ := tx_entries_shape hok
    have hn1 : (keys l1).Nodup := by
      rcases hl1 with rfl | ⟨id, e0, e', _, rfl⟩
      · exact hS.entNodup
      · exact nodup_set _ _ _ hS.entNodup
    rcases hl2 with h | ⟨art, st2, rune, _, _, h⟩
    · rw [h]; exact hn1
    · rw [h]; exact nodup_set _ _ _ hn1
  · -- the supply equation
    intro id e' hg'
    have hs := hsup id
    by_cases hid : id = ⟨blk.height, t⟩
    · subst hid
      rcases hnewcase with ⟨art, hart, hv, _, e, hge, _, _, _, _, _⟩ | ⟨_, hnone, _⟩
      · -- the entry etched by this transaction
        have hee : e = e' := by rw [hge] at hg'; exact Option.some.inj hg'
        subst hee
        obtain ⟨l1, hl1, hl2⟩ := tx_entries_shape hok
        have hl1none : AL.get l1 ⟨blk.height, t⟩ = none := by
          rcases hl1 with rfl | ⟨id, e0, e', hg0, rfl⟩
          · exact habsent
          · rw [get_set]
            have : ¬ id = ⟨blk.height, t⟩ := by
              intro h; rw [h, habsent] at hg0; simp at hg0
            have hb : (id == (⟨blk.height, t⟩ : RuneId)) = false := by simpa using this
            rw [hb]; exact habsent
        have hfields : e.burned = 0 ∧ e.mints = 0 ∧ e.premine = premineOf art := by
          rcases hl2 with h | ⟨art', st2, rune, hart', hne, h⟩
          · rw [h, hl1none] at hge; simp at hge
          · have : art' = art := by rw [hart] at hart'; exact (Option.some.inj hart').symm
            subst this
            rw [h, get_set] at hge
            simp only [beq_self_eq_true, if_true, Option.some.injEq] at hge
            rw [← hge]
            exact newEntry_supply st2 blk tx art' _ rune hne
        have hsz : supplyIn st.balances ⟨blk.height, t⟩ = 0 := by
          apply supplyIn_zero
          intro p hp hk
          obtain ⟨q, hq, hq1⟩ := List.mem_map.1 hk
          have := ((hS.rows p.1 p.2 hp).2.2.1 q.1 q.2 hq).2
          rw [hq1] at this
          exact this habsent
        have hbz := hS.bbZero _ habsent
        have hMz := hMzero _ habsent
        have hEv : etchPart (spent st tx) blk t tx ⟨blk.height, t⟩ = premineOf art := by
          unfold etchPart
          rw [txEtched_of_valid hart ((hvalid art hart).2 hv)]
          simp
        rw [hsz, hbz, hMz, hEv] at hs
        rw [hfields.1, hfields.2.1, hfields.2.2]
        omega
      · rw [hnone] at hg'; simp at hg'
    · -- an entry that existed before
      have hEz : etchPart (spent st tx) blk t tx id = 0 := by
        cases h : etchPart (spent st tx) blk t tx id with
        | zero => rfl
        | succ n => exact absurd (hE id (by rw [h]; simp)).1 hid
      rw [hother id hid] at hg'
      cases hg : AL.get st.runeEntries id with
      | none => rw [hg] at hg'; simp at hg'
      | some e =>
        rw [hg] at hg'
        simp only [Option.map_some, Option.some.injEq] at hg'
        have hM : mintPart (spent st tx) blk.height tx id =
            if Runemint.txMint tx = some id ∧ Runemint.mintOpen e blk.height = true then mintAmount e else 0 := by
          rw [mintPart_eq]
          show (match AL.get st.runeEntries id with | none => 0 | some e => _) = _
          rw [hg]
        have h0 := hS.supply id e hg
        rw [hEz, hM] at hs
        subst hg'
        unfold Runemint.afterMint
        by_cases hc : Runemint.txMint tx = some id ∧ Runemint.mintOpen e blk.height = true
        · rw [if_pos hc] at hs ⊢
          show supplyIn st'.balances id + e.burned + lk bb' id = e.premine + (e.mints + 1) * mintAmount e
          rw [Nat.succ_mul]
          omega
        · rw [if_neg hc] at hs ⊢
          omega
  · -- burns only of existing runes
    intro id hg'
    have hg : AL.get st.runeEntries id = none := by
      cases h : AL.get st.runeEntries id with
      | none => rfl
      | some e => exact absurd hg' (hpersist id (by rw [h]; simp))
    have hEz : etchPart (spent st tx) blk t tx id = 0 := by
      cases h : etchPart (spent st tx) blk t tx id with
      | zero => rfl
      | succ n => exact absurd hg' (hE id (by rw [h]; simp)).2
    have hIz : inputRunes st.balances tx.inputs id = 0 := by
      cases h : inputRunes st.balances tx.inputs id with
      | zero => rfl
      | succ n => exact absurd hg (hinputs id (by rw [h]; omega))
    have h1 := hcons id
    rw [txUnallocated_eq] at h1
    have hMz := hMzero id hg
    have := hbbmono id
    have := hS.bbZero id hg
    omega
  · -- the rows
    intro o row hm
    rw [hbal] at hm
    rcases List.mem_append.1 hm with hm | hm
    · obtain ⟨h1, h2, h3, h4, h5⟩ := hS.rows o row (mem_spendAll _ _ _ hm)
      refine ⟨h1, h2, fun id b hb => ⟨(h3 id b hb).1, hpersist id (h3 id b hb).2⟩, ?_, ?_⟩
      · simp only [List.map_append, List.mem_append]; exact Or.inl h4
      · intro tx' htx' he
        rcases List.mem_append.1 htx' with htx' | htx'
        · exact h5 tx' htx' he
        · simp only [List.mem_singleton] at htx'
          subst htx'
          exact absurd (he ▸ h4) hnew
    · obtain ⟨k, bs, hk, hne, hop, hp⟩ := mem_newRows tx alloc2 0 (o, row) hm
      simp only [Nat.zero_add, Prod.mk.injEq] at hp hop
      obtain ⟨rfl, rfl⟩ := hp
      have hbsmem : bs ∈ alloc2 := List.mem_of_getElem? hk
      have hbsn : (keys bs).Nodup := hmem2 bs hbsmem
      have hklt : k < tx.outputs.length := by
        rw [← hlen2]
        rcases Nat.lt_or_ge k alloc2.length with h | h
        · exact h
        · rw [List.getElem?_eq_none h] at hk; simp at hk
      have hgetk : AL.get st'.balances ⟨tx.txid, k⟩ = some (sortBalances bs) := by
        have := hget k bs hk
        simp only [Nat.zero_add] at this
        rw [this, if_neg]
        intro hc
        rcases hc with hc | hc
        · exact hne hc
        · rw [hop] at hc; simp at hc
      refine ⟨nodup_sort bs hbsn, sort_ne_nil hne, fun id b hb => ?_, ?_, ?_⟩
      · have hb' : (id, b) ∈ bs := (mem_sort bs (id, b)).1 hb
        have hbpos : 0 < b := hpos2 bs hbsmem (id, b) hb'
        refine ⟨hbpos, ?_⟩
        -- the rune has something unallocated in this transaction, so it exists
        have hlk : lk (sortBalances bs) id = b := lk_of_mem (nodup_sort bs hbsn) hb
        obtain ⟨h1, _, _⟩ := href id
        have hout : (txSpec st blk t tx id).out k = b := by
          rw [← h1 k hklt, hgetk]; exact hlk
        have hc := allocate_conserves (outsOf tx) (Message.ofArtifact tx.artifact)
          ((txEtched (spent st tx) blk t tx).map (·.1)) id (txUnallocated st blk t tx id) (by simpa [outsOf] using hwf)
        have hlen : (outsOf tx).length = tx.outputs.length := by simp [outsOf]
        rw [hlen] at hc
        have hge := sumFrom_ge (txSpec st blk t tx id).out tx.outputs.length 0 k (Nat.zero_le _) (by omega)
        unfold txSpec at hout hge
        have hU : 0 < txUnallocated st blk t tx id := by omega
        rw [txUnallocated_eq] at hU
        by_cases hI : 0 < inputRunes st.balances tx.inputs id
        · exact hpersist id (hinputs id hI)
        · by_cases hMp : mintPart (spent st tx) blk.height tx id = 0
          · have hEp : etchPart (spent st tx) blk t tx id ≠ 0 := by
              omega
            exact (hE id hEp).2
          · apply hpersist id
            intro hn
            exact hMp (hMzero id hn)
      · simp
      · intro tx' htx' he
        rcases List.mem_append.1 htx' with htx' | htx'
        · exact absurd (List.mem_map.2 ⟨tx', htx', he⟩) hnew
        · simp only [List.mem_singleton] at htx'
          subst htx'
          exact hop

end Ord.Index.RuneLift
