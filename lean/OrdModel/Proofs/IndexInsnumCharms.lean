import OrdModel.Index.OracleInsnum
/-
Group `insnum`: charm-bit arithmetic.  `setCharm`/`hasCharm` are `/`,`%` by numerals, so every
fact about fixed bits is linear arithmetic once the `if`s are split.
-/
namespace Ord.Index.Insnum
open Ord.Index

/-- the charm word `update_inscription_location` computes for a new inscription -/
def newCharms (cursed reinscription : Bool) (sat : Option Nat) (opReturn isNull unbound vindicated : Bool) : Nat :=
  let c0 := if cursed then charmCursed else 0
  let c1 := if reinscription then setCharm c0 charmReinscription else c0
  let c2 := match sat with | some s => c1 + satCharms s | none => c1
  let c3 := if opReturn then setCharm c2 charmBurned else c2
  let c4 := if isNull then setCharm c3 charmLost else c3
  let c5 := if unbound then setCharm c4 charmUnbound else c4
  if vindicated then setCharm c5 charmVindicated else c5

/-- `Sat::charms` only ever has the sat-attribute bits -/
theorem satCharms_form (s : Nat) : ∃ a b c d : Nat, satCharms s = a + b + c + d ∧
    (a = 32 ∨ a = 0) ∧ (b = 8192 ∨ b = 0) ∧ (c = 1 ∨ c = 0) ∧
    (d = 2048 ∨ d = 8 ∨ d = 4 ∨ d = 64 ∨ d = 512 ∨ d = 0) := by
  refine ⟨_, _, _, rarityCharm s, rfl, ?_, ?_, ?_, ?_⟩
  · split <;> simp [charmNineball]
  · split <;> simp [charmPalindrome]
  · split <;> simp [charmCoin]
  · unfold rarityCharm
    simp only [charmMythic, charmLegendary, charmEpic, charmRare, charmUncommon]
    split <;> (try split) <;> (try split) <;> (try split) <;> (try split) <;> simp

theorem newCharms_cursed (c r : Bool) (sat : Option Nat) (o n u v : Bool) :
    hasCharm (newCharms c r sat o n u v) charmCursed = c := by
  unfold newCharms
  cases sat with
  | none =>
    simp only [hasCharm, setCharm, charmCursed, charmReinscription, charmBurned, charmLost, charmUnbound, charmVindicated]
    cases c <;> cases r <;> cases o <;> cases n <;> cases u <;> cases v <;> decide
  | some s =>
    obtain ⟨a, b, cc, d, hs, ha, hb, hc, hd⟩ := satCharms_form s
    simp only [hs, hasCharm, setCharm, charmCursed, charmReinscription, charmBurned, charmLost, charmUnbound, charmVindicated]
    rcases ha with rfl | rfl <;> rcases hb with rfl | rfl <;> rcases hc with rfl | rfl <;>
      rcases hd with rfl | rfl | rfl | rfl | rfl | rfl <;>
      cases c <;> cases r <;> cases o <;> cases n <;> cases u <;> cases v <;> decide

theorem newCharms_reinscription (c r : Bool) (sat : Option Nat) (o n u v : Bool) :
    hasCharm (newCharms c r sat o n u v) charmReinscription = r := by
  unfold newCharms
  cases sat with
  | none =>
    simp only [hasCharm, setCharm, charmCursed, charmReinscription, charmBurned, charmLost, charmUnbound, charmVindicated]
    cases c <;> cases r <;> cases o <;> cases n <;> cases u <;> cases v <;> decide
  | some s =>
    obtain ⟨a, b, cc, d, hs, ha, hb, hc, hd⟩ := satCharms_form s
    simp only [hs, hasCharm, setCharm, charmCursed, charmReinscription, charmBurned, charmLost, charmUnbound, charmVindicated]
    rcases ha with rfl | rfl <;> rcases hb with rfl | rfl <;> rcases hc with rfl | rfl <;>
      rcases hd with rfl | rfl | rfl | rfl | rfl | rfl <;>
      cases c <;> cases r <;> cases o <;> cases n <;> cases u <;> cases v <;> decide

theorem newCharms_vindicated (c r : Bool) (sat : Option Nat) (o n u v : Bool) :
    hasCharm (newCharms c r sat o n u v) charmVindicated = v := by
  unfold newCharms
  cases sat with
  | none =>
    simp only [hasCharm, setCharm, charmCursed, charmReinscription, charmBurned, charmLost, charmUnbound, charmVindicated]
    cases c <;> cases r <;> cases o <;> cases n <;> cases u <;> cases v <;> decide
  | some s =>
    obtain ⟨a, b, cc, d, hs, ha, hb, hc, hd⟩ := satCharms_form s
    simp only [hs, hasCharm, setCharm, charmCursed, charmReinscription, charmBurned, charmLost, charmUnbound, charmVindicated]
    rcases ha with rfl | rfl <;> rcases hb with rfl | rfl <;> rcases hc with rfl | rfl <;>
      rcases hd with rfl | rfl | rfl | rfl | rfl | rfl <;>
      cases c <;> cases r <;> cases o <;> cases n <;> cases u <;> cases v <;> decide

/-- setting the Burned bit (an old inscription landing in an OP_RETURN output) leaves the
Cursed / Reinscription / Vindicated bits alone -/
theorem hasCharm_setBurned (c bit : Nat) (hb : bit = charmCursed ∨ bit = charmReinscription ∨ bit = charmVindicated) :
    hasCharm (setCharm c charmBurned) bit = hasCharm c bit := by
  rcases hb with rfl | rfl | rfl <;>
    simp only [hasCharm, setCharm, charmBurned, charmCursed, charmReinscription, charmVindicated] <;>
    by_cases h : c / 4096 % 2 = 1 <;> simp only [h, if_true, if_false]
  · have : (c + 4096) / 2 % 2 = c / 2 % 2 := by omega
    rw [this]
  · have : (c + 4096) / 128 % 2 = c / 128 % 2 := by omega
    rw [this]
  · have : (c + 4096) / 1024 % 2 = c / 1024 % 2 := by omega
    rw [this]

end Ord.Index.Insnum
