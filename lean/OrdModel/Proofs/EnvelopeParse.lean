import OrdModel.Codec.Envelope
import OrdModel.Proofs.EnvelopeTotal
/-! A declarative description of `ParsedEnvelope::from(RawEnvelope)` (model `parse`): every
output field as a function of the payload pushes. -/
namespace Ord.Envelope
open Ord Ord.ScriptW5

/-! ### the field map, extensionally -/

def keys (m : FieldMap) : List Bytes := m.map Prod.fst

/-- distinct keys, no empty value list (what `entry().or_default().push()` maintains) -/
def WF (m : FieldMap) : Prop := (keys m).Nodup ∧ ∀ kv ∈ m, kv.2 ≠ []

/-- the values recorded under a key (`[]` if the key is absent) -/
def vals (m : FieldMap) (k : Bytes) : List Bytes := (m.get k).getD []

theorem get_mem : ∀ (m : FieldMap) (k : Bytes) (vs : List Bytes), m.get k = some vs → (k, vs) ∈ m := by
  intro m
  induction m with
  | nil => intro k vs h; simp [FieldMap.get] at h
  | cons kv m ih =>
    intro k vs h
    obtain ⟨k', vs'⟩ := kv
    simp only [FieldMap.get] at h
    split at h
    · rename_i he; simp only [Option.some.injEq] at h; subst he; subst h; simp
    · simp [ih k vs h]

theorem get_none_iff : ∀ (m : FieldMap) (k : Bytes), m.get k = none ↔ k ∉ keys m := by
  intro m
  induction m with
  | nil => intro k; simp [FieldMap.get, keys]
  | cons kv m ih =>
    intro k
    obtain ⟨k', vs'⟩ := kv
    simp only [FieldMap.get, keys, List.map_cons, List.mem_cons, not_or]
    split
    · rename_i he; subst he; simp
    · rename_i he
      rw [ih k]
      simp only [keys]
      constructor
      · intro h; exact ⟨fun e => he e.symm, h⟩
      · intro h; exact h.2

theorem mem_get (m : FieldMap) (hm : (keys m).Nodup) :
    ∀ (k : Bytes) (vs : List Bytes), (k, vs) ∈ m → m.get k = some vs := by
  induction m with
  | nil => intro k vs h; simp at h
  | cons kv m ih =>
    intro k vs h
    obtain ⟨k', vs'⟩ := kv
    simp only [keys, List.map_cons, List.nodup_cons] at hm
    simp only [List.mem_cons, Prod.mk.injEq] at h
    simp only [FieldMap.get]
    rcases h with ⟨rfl, rfl⟩ | h
    · simp
    · have : k' ≠ k := by
        intro e; subst e
        exact hm.1 (List.mem_map.mpr ⟨(k', vs), h, rfl⟩)
      simp only [this, if_false]
      exact ih hm.2 k vs h

theorem WF_get_ne_nil (m : FieldMap) (hm : WF m) (k : Bytes) (vs : List Bytes)
    (h : m.get k = some vs) : vs ≠ [] := hm.2 _ (get_mem m k vs h)

theorem vals_eq_nil_iff (m : FieldMap) (hm : WF m) (k : Bytes) : vals m k = [] ↔ m.get k = none := by
  unfold vals
  cases h : m.get k with
  | none => simp
  | some vs => simp [WF_get_ne_nil m hm k vs h]

theorem get_of_vals (m : FieldMap) (hm : WF m) (k : Bytes) :
    m.get k = if vals m k = [] then none else some (vals m k) := by
  unfold vals
  cases h : m.get k with
  | none => simp
  | some vs => simp [WF_get_ne_nil m hm k vs h]

/-! push -/

theorem keys_push : ∀ (m : FieldMap) (k v : Bytes),
    keys (m.push k v) = if k ∈ keys m then keys m else keys m ++ [k] := by
  intro m
  induction m with
  | nil => intro k v; simp [FieldMap.push, keys]
  | cons kv m ih =>
    intro k v
    obtain ⟨k', vs'⟩ := kv
    simp only [FieldMap.push]
    split
    · rename_i he; subst he; simp [keys]
    · rename_i he
      have := ih k v
      simp only [keys, List.map_cons, List.mem_cons] at this ⊢
      rw [this]
      have hne : ¬ k = k' := fun e => he e.symm
      simp only [hne, false_or]
      split <;> rename_i h <;> simp [h]

theorem vals_push : ∀ (m : FieldMap) (k v k' : Bytes),
    vals (m.push k v) k' = if k' = k then vals m k ++ [v] else vals m k' := by
  intro m
  induction m with
  | nil =>
    intro k v k'
    simp only [FieldMap.push, vals, FieldMap.get]
    by_cases h : k = k'
    · subst h; simp
    · have : ¬ k' = k := fun e => h e.symm
      simp [h, this]
  | cons kv m ih =>
    intro k v k'
    obtain ⟨k0, vs0⟩ := kv
    have ih' := ih k v k'
    simp only [vals] at ih' ⊢
    simp only [FieldMap.push]
    by_cases h0 : k0 = k
    · subst h0
      simp only [if_true, FieldMap.get]
      by_cases h1 : k0 = k'
      · subst h1; simp
      · have : ¬ k' = k0 := fun e => h1 e.symm
        simp [h1, this]
    · simp only [h0, if_false, FieldMap.get]
      by_cases h1 : k0 = k'
      · subst h1
        have : ¬ k0 = k := h0
        simp [this]
      · simp only [h1, if_false]
        exact ih'

theorem WF_push (m : FieldMap) (hm : WF m) (k v : Bytes) : WF (m.push k v) := by
  constructor
  · rw [keys_push]
    split
    · exact hm.1
    · rename_i h
      exact List.nodup_append.mpr ⟨hm.1, by simp, by
        intro a ha b hb
        simp only [List.mem_singleton] at hb
        subst hb
        intro e; subst e; exact h ha⟩
  · have : ∀ (m : FieldMap), (∀ kv ∈ m, kv.2 ≠ []) → ∀ kv ∈ m.push k v, kv.2 ≠ [] := by
      intro m
      induction m with
      | nil => intro _ kv h; simp [FieldMap.push] at h; subst h; simp
      | cons kv0 m ih =>
        intro h0 kv h
        obtain ⟨k0, vs0⟩ := kv0
        simp only [FieldMap.push] at h
        split at h
        · simp only [List.mem_cons] at h
          rcases h with h | h
          · subst h; simp
          · exact h0 kv (by simp [h])
        · simp only [List.mem_cons] at h
          rcases h with h | h
          · subst h; exact h0 _ (by simp)
          · exact ih (fun kv hkv => h0 kv (by simp [hkv])) kv h
    exact this m hm.2

/-! remove -/

theorem remove_sub : ∀ (m : FieldMap) (k : Bytes), ∀ kv ∈ m.remove k, kv ∈ m := by
  intro m
  induction m with
  | nil => intro k kv h; simp [FieldMap.remove] at h
  | cons kv0 m ih =>
    intro k kv h
    obtain ⟨k0, vs0⟩ := kv0
    simp only [FieldMap.remove] at h
    split at h
    · simp [h]
    · simp only [List.mem_cons] at h
      rcases h with h | h
      · simp [h]
      · simp [ih k kv h]

theorem keys_remove_sublist : ∀ (m : FieldMap) (k : Bytes), (keys (m.remove k)).Sublist (keys m) := by
  intro m
  induction m with
  | nil => intro k; simp [FieldMap.remove, keys]
  | cons kv0 m ih =>
    intro k
    obtain ⟨k0, vs0⟩ := kv0
    simp only [FieldMap.remove]
    split
    · simp [keys]
    · simp only [keys, List.map_cons]
      exact List.Sublist.cons₂ _ (ih k)

theorem WF_remove (m : FieldMap) (hm : WF m) (k : Bytes) : WF (m.remove k) :=
  ⟨List.Sublist.nodup (keys_remove_sublist m k) hm.1, fun kv h => hm.2 kv (remove_sub m k kv h)⟩

theorem get_remove : ∀ (m : FieldMap), (keys m).Nodup → ∀ (k k' : Bytes),
    (m.remove k).get k' = if k' = k then none else m.get k' := by
  intro m
  induction m with
  | nil => intro _ k k'; simp [FieldMap.remove, FieldMap.get]
  | cons kv0 m ih =>
    intro hm k k'
    obtain ⟨k0, vs0⟩ := kv0
    simp only [keys, List.map_cons, List.nodup_cons] at hm
    simp only [FieldMap.remove]
    by_cases h0 : k0 = k
    · subst h0
      simp only [if_true, FieldMap.get]
      by_cases h1 : k' = k0
      · subst h1
        simp only [if_true]
        exact (get_none_iff m k').mpr hm.1
      · have : ¬ k0 = k' := fun e => h1 e.symm
        simp [h1, this]
    · simp only [h0, if_false, FieldMap.get]
      by_cases h1 : k0 = k'
      · subst h1
        have : ¬ k0 = k := h0
        simp [this]
      · simp only [h1, if_false]
        exact ih hm.2 k k'

theorem vals_remove (m : FieldMap) (hm : WF m) (k k' : Bytes) :
    vals (m.remove k) k' = if k' = k then [] else vals m k' := by
  unfold vals
  rw [get_remove m hm.1]
  split <;> simp

/-! set -/

theorem keys_set : ∀ (m : FieldMap) (k : Bytes) (new : List Bytes), keys (m.set k new) = keys m := by
  intro m
  induction m with
  | nil => intro k new; simp [FieldMap.set]
  | cons kv0 m ih =>
    intro k new
    obtain ⟨k0, vs0⟩ := kv0
    simp only [FieldMap.set]
    split
    · simp [keys]
    · simp only [keys, List.map_cons] at ih ⊢
      rw [ih k new]

theorem get_set : ∀ (m : FieldMap) (k k' : Bytes) (new : List Bytes),
    (m.set k new).get k' = if k' = k then (m.get k).map (fun _ => new) else m.get k' := by
  intro m
  induction m with
  | nil => intro k k' new; simp [FieldMap.set, FieldMap.get]
  | cons kv0 m ih =>
    intro k k' new
    obtain ⟨k0, vs0⟩ := kv0
    simp only [FieldMap.set]
    by_cases h0 : k0 = k
    · subst h0
      simp only [if_true, FieldMap.get]
      by_cases h1 : k' = k0
      · subst h1; simp
      · have : ¬ k0 = k' := fun e => h1 e.symm
        simp [h1, this]
    · simp only [h0, if_false, FieldMap.get]
      by_cases h1 : k0 = k'
      · subst h1
        have : ¬ k0 = k := h0
        simp [this]
      · simp only [h1, if_false]
        rw [ih k k' new]

theorem mem_set : ∀ (m : FieldMap) (k : Bytes) (new : List Bytes), ∀ kv ∈ m.set k new,
    kv ∈ m ∨ kv.2 = new := by
  intro m
  induction m with
  | nil => intro k new kv h; simp [FieldMap.set] at h
  | cons kv0 m ih =>
    intro k new kv h
    obtain ⟨k0, vs0⟩ := kv0
    simp only [FieldMap.set] at h
    split at h
    · simp only [List.mem_cons] at h
      rcases h with h | h
      · subst h; simp
      · simp [h]
    · simp only [List.mem_cons] at h
      rcases h with h | h
      · subst h; simp
      · rcases ih k new kv h with h | h
        · simp [h]
        · simp [h]

theorem WF_set (m : FieldMap) (hm : WF m) (k : Bytes) (new : List Bytes) (hn : new ≠ []) :
    WF (m.set k new) := by
  refine ⟨by rw [keys_set]; exact hm.1, ?_⟩
  intro kv h
  rcases mem_set m k new kv h with h | h
  · exact hm.2 kv h
  · rw [h]; exact hn

/-! ### `collectFields` -/

/-- the values that follow key `k` in a `key value key value …` list -/
def F : List Bytes → Bytes → List Bytes
  | k' :: v :: rest, k => (if k' = k then [v] else []) ++ F rest k
  | [_], _ => []
  | [], _ => []

theorem collectFields_spec : ∀ (n : Nat) (l : List Bytes) (m : FieldMap), l.length ≤ n → WF m →
    WF (collectFields l m).1 ∧ (∀ k, vals (collectFields l m).1 k = vals m k ++ F l k) ∧
    (collectFields l m).2 = decide (l.length % 2 = 1) := by
  intro n
  induction n with
  | zero =>
    intro l m hl hm
    have : l = [] := List.length_eq_zero_iff.mp (by omega)
    subst this
    simp [collectFields, F, hm]
  | succ n ih =>
    intro l m hl hm
    match l with
    | [] => simp [collectFields, F, hm]
    | [_] => simp [collectFields, F, hm]
    | k' :: v :: rest =>
      simp only [List.length_cons] at hl
      obtain ⟨h1, h2, h3⟩ := ih rest (m.push k' v) (by omega) (WF_push m hm k' v)
      simp only [collectFields]
      refine ⟨h1, ?_, ?_⟩
      · intro k
        rw [h2 k, vals_push]
        simp only [F]
        by_cases h : k = k'
        · subst h; simp
        · have : ¬ k' = k := fun e => h e.symm
          simp [h, this]
      · rw [h3]
        simp only [List.length_cons]
        congr 1
        apply propext
        omega

theorem WF_nil : WF [] := by simp [WF, keys]

/-! ### the three ways of taking a tag -/

theorem take_plain (t : UInt8) (hc : chunked t = false) (m : FieldMap) (hm : WF m) :
    (take t m).1 = (vals m [t]).head? ∧ WF (take t m).2 ∧
    ∀ k, vals (take t m).2 k = if k = [t] then (vals m [t]).tail else vals m k := by
  unfold take
  simp only [hc, Bool.false_eq_true, if_false]
  cases hg : m.get [t] with
  | none =>
    have hv : vals m [t] = [] := by simp [vals, hg]
    dsimp only
    refine ⟨by simp [hv], hm, ?_⟩
    intro k
    split
    · rename_i h; subst h; simp [hv]
    · rfl
  | some vs =>
    have hv : vals m [t] = vs := by simp [vals, hg]
    cases vs with
    | nil => exact absurd rfl (WF_get_ne_nil m hm _ _ hg)
    | cons v rest =>
      simp only
      cases rest with
      | nil =>
        simp only [List.isEmpty_nil, if_true]
        refine ⟨by simp [hv], WF_remove m hm _, ?_⟩
        intro k
        rw [vals_remove m hm]
        split <;> simp [hv]
      | cons r rs =>
        simp only [List.isEmpty_cons, Bool.false_eq_true, if_false]
        refine ⟨by simp [hv], WF_set m hm _ _ (by simp), ?_⟩
        intro k
        simp only [vals, get_set, hg]
        split
        · simp [hv]
        · rfl

theorem take_chunked (t : UInt8) (hc : chunked t = true) (m : FieldMap) (hm : WF m) :
    (take t m).1 = (if vals m [t] = [] then none else some (vals m [t]).flatten) ∧ WF (take t m).2 ∧
    ∀ k, vals (take t m).2 k = if k = [t] then [] else vals m k := by
  unfold take
  simp only [hc, if_true]
  cases hg : m.get [t] with
  | none =>
    have hv : vals m [t] = [] := by simp [vals, hg]
    dsimp only
    refine ⟨by simp [hv], hm, ?_⟩
    intro k
    split
    · rename_i h; subst h; simp [hv]
    · rfl
  | some vs =>
    have hv : vals m [t] = vs := by simp [vals, hg]
    have hne := WF_get_ne_nil m hm _ _ hg
    have he : vs.isEmpty = false := by cases vs <;> simp_all
    simp only [he, Bool.false_eq_true, if_false, hv, hne]
    refine ⟨trivial, WF_remove m hm _, ?_⟩
    intro k
    rw [vals_remove m hm]

theorem takeArray_spec (t : UInt8) (m : FieldMap) (hm : WF m) :
    (takeArray t m).1 = vals m [t] ∧ WF (takeArray t m).2 ∧
    ∀ k, vals (takeArray t m).2 k = if k = [t] then [] else vals m k := by
  unfold takeArray
  cases hg : m.get [t] with
  | none =>
    have hv : vals m [t] = [] := by simp [vals, hg]
    dsimp only
    refine ⟨by simp [hv], hm, ?_⟩
    intro k
    split
    · rename_i h; subst h; simp [hv]
    · rfl
  | some vs =>
    have hv : vals m [t] = vs := by simp [vals, hg]
    dsimp only
    refine ⟨by simp [hv], WF_remove m hm _, ?_⟩
    intro k
    rw [vals_remove m hm]

/-- `m.any p` for a predicate on entries, through `vals` -/
theorem any_iff (m : FieldMap) (hm : WF m) (p : Bytes × List Bytes → Bool) :
    m.any p = true ↔ ∃ k, vals m k ≠ [] ∧ p (k, vals m k) = true := by
  rw [List.any_eq_true]
  constructor
  · rintro ⟨⟨k, vs⟩, hmem, hp⟩
    have hg := mem_get m hm.1 k vs hmem
    have hne := hm.2 _ hmem
    refine ⟨k, ?_, ?_⟩
    · simpa [vals, hg] using hne
    · simpa [vals, hg] using hp
  · rintro ⟨k, hne, hp⟩
    have hg : m.get k = some (vals m k) := by
      rw [get_of_vals m hm k]; simp [hne]
    exact ⟨(k, vals m k), get_mem m k _ hg, hp⟩

end Ord.Envelope
