import OrdModel.Proofs.IndexLiftRuneNoLot
/-
Rune lift, part 3b: one transaction of the rune pass fires no `Lot` panic when, for every rune,
the block's burn accumulator plus what the rune has unallocated in this transaction (inputs +
open mint + premine) stays below 2^128.
-/
namespace Ord.Index.RuneLift
open Ord.Index Ord.Index.Spec Ord.Index.RS Ord.Index.Oracle Ord.Outcome

theorem mintStep_total {st0 : State} {un0 : Balances} {blk : Block} {i : Nat} {tx : Tx} {art : Artifact}
    (hart : tx.artifact = some art) (hb : ∀ r, u0Of st0 un0 blk i tx r < U128) :
    ∃ un1, (mintStep st0 un0 blk tx art).2.1 = .ok un1 := by
  have key : ∀ id, mintIdOf art = some id → ∀ s amount, mint st0 blk.height id = (s, some amount) →
      lk un0 id + amount < U128 := by
    intro id hid s amount hm
    have := hb id
    simp only [u0Of, unallocated, RS.txMint, hart, hid, hm, Option.map_some, if_true] at this
    omega
  cases art with
  | runestone edicts etching m ptr =>
    cases m with
    | none => exact ⟨un0, rfl⟩
    | some id =>
      simp only [mintStep]
      cases hmint : mint st0 blk.height id with
      | mk s o =>
        cases o with
        | none => exact ⟨un0, rfl⟩
        | some amount =>
          simp only
          exact ⟨_, addLot_total (key id rfl s amount hmint)⟩
  | cenotaph ce m =>
    cases m with
    | none => exact ⟨un0, rfl⟩
    | some id =>
      simp only [mintStep]
      cases hmint : mint st0 blk.height id with
      | mk s o =>
        cases o with
        | none => exact ⟨un0, rfl⟩
        | some amount =>
          simp only
          exact ⟨_, addLot_total (key id rfl s amount hmint)⟩

theorem u0Of_eq (st0 : State) (un0 : Balances) (blk : Block) (i : Nat) (tx : Tx) (r : RuneId) :
    u0Of st0 un0 blk i tx r = lk un0 r + mintPart st0 blk.height tx r + etchPart st0 blk i tx r := by
  unfold u0Of unallocated mintPart etchPart
  cases RS.txMint st0 blk.height tx <;> cases RS.txEtched st0 blk i tx <;> rfl

theorem TB_start {tx : Tx} {un : Balances} (hn : (keys un).Nodup) (hb : ∀ r, lk un r < U128) :
    TB tx.outputs.length un (tx.outputs.map (fun _ => ([] : Balances))) := by
  have hrows0 : ∀ v, rowAt (tx.outputs.map (fun _ => ([] : Balances))) v = [] := rowAt_replicate tx.outputs
  refine ⟨⟨hn, fun v => by rw [hrows0 v]; simp⟩, by simp, fun r => ?_⟩
  rw [start_of_empty _ _ hrows0, start_total]
  exact hb r

theorem afterEdictsOf_noLot {st0 : State} {un0 : Balances} {blk : Block} {i : Nat} {tx : Tx} {art : Artifact}
    {et : Option (RuneId × Nat)} {un1 : Balances}
    (hn1 : (keys un1).Nodup)
    (hlk1 : ∀ r, lk un1 r = lk un0 r + mintPart st0 blk.height tx r)
    (htE : txEtched st0 blk i tx = et.map (fun p => (p.1, premineOf art)))
    (hb : ∀ r, u0Of st0 un0 blk i tx r < U128) :
    NoLot (afterEdictsOf tx art et un1 (tx.outputs.map (fun _ => []))) := by
  cases art with
  | cenotaph ce cm => exact noLot_ok _
  | runestone edicts etching m ptr =>
    simp only [afterEdictsOf]
    cases et with
    | none =>
      simp only
      apply applyEdicts_TB
      apply TB_start hn1
      intro r
      have := hb r
      rw [hlk1 r]
      rw [u0Of_eq] at this
      omega
    | some p =>
      obtain ⟨id, rune⟩ := p
      simp only
      have hu : ∀ r, lk un1 r + (if id = r then (etching.bind (·.premine)).getD 0 else 0) = u0Of st0 un0 blk i tx r := by
        intro r
        rw [hlk1 r, u0Of_eq]
        have : etchPart st0 blk i tx r = if id = r then (etching.bind (·.premine)).getD 0 else 0 := by
          unfold etchPart
          rw [htE]
          rfl
        rw [this]
      have hadd : lk un1 id + (etching.bind (·.premine)).getD 0 < U128 := by
        have h1 := hu id
        have h2 := hb id
        simp only [if_true] at h1
        omega
      rw [addLot_total hadd]
      simp only
      apply applyEdicts_TB
      apply TB_start (nodup_set _ _ _ hn1)
      intro r
      rw [lk_set]
      have h1 := hu r
      have h2 := hb r
      by_cases hr : id = r
      · subst hr; simp only [if_true] at h1 ⊢; omega
      · simp only [hr, if_false] at h1 ⊢; omega

theorem phase1_noLot {st0 : State} {un0 : Balances} {blk : Block} {i : Nat} {tx : Tx}
    (hn0 : (keys un0).Nodup) (hb : ∀ r, u0Of st0 un0 blk i tx r < U128) :
    NoLot (phase1 st0 un0 (tx.outputs.map (fun _ => [])) blk i tx) := by
  unfold phase1
  cases hart : tx.artifact with
  | none => exact noLot_ok _
  | some art =>
    simp only
    obtain ⟨un1, hun1⟩ := mintStep_total (i := i) hart hb
    have hsp := mintStep_spec st0 un0 blk tx art hart
    cases hms : mintStep st0 un0 blk tx art with
    | mk st1 rest =>
      obtain ⟨un1O, ev1⟩ := rest
      rw [hms] at hun1 hsp
      simp only at hun1 hsp ⊢
      subst hun1
      simp only
      obtain ⟨hst1, hun1'⟩ := hsp
      obtain ⟨hn1, hlk1raw⟩ := hun1' un1 rfl hn0
      have hlk1 : ∀ r, lk un1 r = lk un0 r + mintPart st0 blk.height tx r := by
        intro r
        rw [hlk1raw r]
        unfold mintPart
        cases RS.txMint st0 blk.height tx <;> rfl
      have hE := etched_noLot st1 blk i tx art
      cases he : etched st1 blk i tx art with
      | panic s => simp only; exact noLot_str (hE s he)
      | err e => simp only; exact noLot_err _
      | ok p2 =>
        obtain ⟨st2, et⟩ := p2
        simp only
        have htE : txEtched st0 blk i tx = et.map (fun p => (p.1, premineOf art)) :=
          txEtched_of hart (hst1 ▸ he)
        have hA := afterEdictsOf_noLot (blk := blk) (i := i) (tx := tx) (art := art) (et := et) hn1 hlk1 htE hb
        cases hA' : afterEdictsOf tx art et un1 (tx.outputs.map (fun _ => [])) with
        | panic s => simp only; exact noLot_str (hA s hA')
        | err e => simp only; exact noLot_err _
        | ok p3 =>
          obtain ⟨un3, alloc1⟩ := p3
          simp only
          cases et with
          | none => exact noLot_ok _
          | some p => exact noLot_ok _

theorem lk_rowAt_le (alloc : Allocated) (r : RuneId) (v : Nat) :
    lk (rowAt alloc v) r ≤ sumFrom (fun w => lk (rowAt alloc w) r) 0 alloc.length := by
  rcases Nat.lt_or_ge v alloc.length with h | h
  · exact sumFrom_ge (fun w => lk (rowAt alloc w) r) alloc.length 0 v (Nat.zero_le _) (by omega)
  · have : rowAt alloc v = [] := by simp [rowAt, List.getElem?_eq_none h]
    rw [this]; simp

theorem phase2_noLot {tx : Tx} {un : Balances} {alloc : Allocated} (hg : Good un alloc)
    (hb : ∀ r, (absFlow un alloc r).total alloc.length < U128) : NoLot (phase2 tx un alloc) := by
  have hnil : (keys ([] : Balances)).Nodup := by simp
  have toBurn : ∀ skip, ∃ b, addAllTo un [] skip = .ok b := by
    intro skip
    apply addAllTo_total un [] skip hg.1 hnil
    intro r
    have := hb r
    simp only [Flow.total, absFlow] at this
    simp only [lk_nil]; omega
  have toOut : ∀ v : Nat, ∃ m, addAllTo un (alloc[v]?.getD []) true = .ok m := by
    intro v
    apply addAllTo_total un _ true hg.1 (hg.2 v)
    intro r
    have h1 := hb r
    have h2 := lk_rowAt_le alloc r v
    simp only [Flow.total, absFlow] at h1
    show lk (rowAt alloc v) r + lk un r < U128
    omega
  unfold phase2
  cases hart : tx.artifact with
  | none =>
    simp only
    cases hf : Option.map (fun x => x.fst) (List.find? (fun x => !x.snd.opReturn) (enumFrom 0 tx.outputs)) with
    | none =>
      simp only
      obtain ⟨b, hb⟩ := toBurn true
      rw [hb]; exact noLot_ok _
    | some v =>
      simp only
      obtain ⟨m, hm⟩ := toOut v
      rw [hm]; exact noLot_ok _
  | some art =>
    cases art with
    | cenotaph ce cm =>
      simp only
      obtain ⟨b, hb⟩ := toBurn false
      rw [hb]; exact noLot_ok _
    | runestone edicts etching m ptr =>
      simp only
      cases ptr with
      | some p =>
        simp only
        split
        · exact noLot_str (by decide)
        · obtain ⟨m', hm⟩ := toOut p
          rw [hm]; exact noLot_ok _
      | none =>
        simp only
        cases hf : Option.map (fun x => x.fst) (List.find? (fun x => !x.snd.opReturn) (enumFrom 0 tx.outputs)) with
        | none =>
          simp only
          obtain ⟨b, hb⟩ := toBurn true
          rw [hb]; exact noLot_ok _
        | some v =>
          simp only
          obtain ⟨m', hm⟩ := toOut v
          rw [hm]; exact noLot_ok _

theorem leftover_total (dflt : Option Nat) (f : Flow) (n : Nat) (hd : ∀ v, dflt = some v → v < n) :
    (leftover dflt f).total n = f.total n := by
  cases dflt with
  | none => rfl
  | some v => exact give_total f v f.un n (hd v rfl) (Nat.le_refl _)

theorem dfltOf_lt {tx : Tx} {un : Balances} {alloc alloc2 : Allocated} {burned0 : Balances}
    (h : phase2 tx un alloc = .ok (alloc2, burned0)) (hlen : alloc.length = tx.outputs.length) :
    ∀ v, dfltOf tx = some v → v < tx.outputs.length := by
  intro v hv
  have hhead : (eligible (outsOf tx)).head? = some v → v < tx.outputs.length := by
    intro hh
    have := head_eligible_lt _ _ hh
    simpa [outsOf] using this
  unfold dfltOf at hv
  cases hart : tx.artifact with
  | none => rw [hart] at hv; exact hhead hv
  | some art =>
    cases art with
    | cenotaph ce cm => rw [hart] at hv; exact hhead hv
    | runestone edicts e m ptr =>
      rw [hart] at hv
      cases ptr with
      | none => exact hhead hv
      | some p =>
        simp only [Message.ofArtifact, Option.some.injEq] at hv
        subst hv
        have := (phase2_shape h).2 edicts e m p hart
        omega

/-- **One transaction fires no `Lot` panic** under the supply bound. -/
theorem tx_noLot {st : State} {blk : Block} {t : Nat} {tx : Tx} {bb : Balances}
    (hbb : (keys bb).Nodup) (hB1 : ∀ r, lk bb r + txUnallocated st blk t tx r < U128) :
    NoLot (indexRunesTx st blk t tx bb) := by
  rw [RS.indexRunesTx_eq]
  obtain ⟨⟨st0, un0⟩, hti⟩ := takeInputs_total tx.inputs st [] (by simp) (fun r => by
    have := hB1 r
    rw [txUnallocated_eq] at this
    simp only [lk_nil]; omega)
  rw [hti]
  simp only
  obtain ⟨hn0, hl0, hst0⟩ := takeInputs_ok tx.inputs st [] st0 un0 hti (by simp)
  have hst0' : st0 = spent st tx := hst0
  have hu0 : ∀ r, u0Of st0 un0 blk t tx r = txUnallocated st blk t tx r := by
    intro r
    simp only [u0Of, txUnallocated, unallocated, hst0']
    rw [hl0 r]; simp
  have hp1N := phase1_noLot (blk := blk) (i := t) (tx := tx) (st0 := st0) hn0 (fun r => by
    rw [hu0]; have := hB1 r; omega)
  have hrows0 : ∀ v, rowAt (tx.outputs.map (fun _ => ([] : Balances))) v = [] := rowAt_replicate tx.outputs
  cases hp1 : phase1 st0 un0 (tx.outputs.map (fun _ => [])) blk t tx with
  | panic s => simp only; exact noLot_str (hp1N s hp1)
  | err e => simp only; exact noLot_err _
  | ok p1 =>
    obtain ⟨st3, un, alloc, evs1⟩ := p1
    simp only
    obtain ⟨hg1, hlen1, _, hf1⟩ := phase1_ok hp1 ⟨hn0, fun v => by rw [hrows0 v]; simp⟩ (by simp) hrows0
    have hol : (outsOf tx).length = tx.outputs.length := by simp [outsOf]
    have htot : ∀ r, (absFlow un alloc r).total tx.outputs.length = txUnallocated st blk t tx r := by
      intro r
      rw [hf1 r, ← hu0 r]
      cases Message.ofArtifact tx.artifact with
      | none => simp only; rw [start_total]
      | cenotaph => simp only; rw [start_total]
      | runestone edicts ptr => simp only; rw [← hol, flow_total, start_total]
    have hp2N := phase2_noLot (tx := tx) hg1 (fun r => by rw [hlen1, htot]; have := hB1 r; omega)
    cases hp2 : phase2 tx un alloc with
    | panic s => simp only; exact noLot_str (hp2N s hp2)
    | err e => simp only; exact noLot_err _
    | ok p2 =>
      obtain ⟨alloc2, burned0⟩ := p2
      simp only
      obtain ⟨hr2, hnb0, hlen2, hf2⟩ := phase2_ok hp2 hg1 hlen1
      have hmem2 : ∀ bs ∈ alloc2, (keys bs).Nodup := by
        intro bs hm
        obtain ⟨k, hk⟩ := List.mem_iff_getElem?.1 hm
        have := hr2 k
        simpa [rowAt, hk] using this
      have hd := dfltOf_lt hp2 hlen1
      have hsum : ∀ r, lk burned0 r + rowsTotal alloc2 r = txUnallocated st blk t tx r := by
        intro r
        rw [← htot r, rowsTotal_eq, hlen2]
        have hf2r := hf2 r
        cases hmsg : Message.ofArtifact tx.artifact with
        | cenotaph =>
          rw [hmsg] at hf2r
          simp only at hf2r
          rw [sumFrom_congr _ _ _ _ (fun v _ _ => hf2r.1 v), hf2r.2]
          rfl
        | none =>
          rw [hmsg] at hf2r
          simp only at hf2r
          rw [sumFrom_congr _ _ _ _ (fun v _ _ => hf2r.1 v), hf2r.2]
          rw [← leftover_total (dfltOf tx) (absFlow un alloc r) tx.outputs.length hd]
          rfl
        | runestone edicts ptr =>
          rw [hmsg] at hf2r
          simp only at hf2r
          rw [sumFrom_congr _ _ _ _ (fun v _ _ => hf2r.1 v), hf2r.2]
          rw [← leftover_total (dfltOf tx) (absFlow un alloc r) tx.outputs.length hd]
          rfl
      obtain ⟨⟨st4, burned, evs2⟩, hw⟩ := writeOutputs_total blk tx alloc2 0 st3 burned0 evs1 hnb0 hmem2
        (fun r => by rw [hsum]; have := hB1 r; omega)
      rw [hw]
      simp only
      obtain ⟨hn, hl, _, _⟩ := writeOutputs_ok blk tx alloc2 0 st3 burned0 evs1 st4 burned evs2 hw hnb0 hmem2
      obtain ⟨bb', hadd⟩ := addAllTo_total burned bb false hn hbb (fun r => by
        rw [hl r]
        have h1 := burnFrom_le tx r alloc2 0
        have h2 := hsum r
        have h3 := hB1 r
        omega)
      rw [hadd]
      exact noLot_ok _

end Ord.Index.RuneLift
