import OrdModel.Proofs.IndexSchedDefs
namespace Ord.Index.Sched
open Ord Ord.Index Outcome

/-! The rune pass commutes with `W` (it neither reads nor writes `utxo`/`seq2sp`/`script2out`). -/

theorem mint_W (st : State) (x : Tri) (h : Nat) (id : RuneId) :
    mint (W st x) h id = (W (mint st h id).1 x, (mint st h id).2) := by
  unfold mint
  show (match AL.get st.runeEntries id with
    | none => (W st x, none)
    | some e =>
      match e.mintable h with
      | none => (W st x, none)
      | some amount =>
        (W { st with runeEntries := AL.set st.runeEntries id { e with mints := e.mints + 1 } } x, some amount)) = _
  cases AL.get st.runeEntries id with
  | none => rfl
  | some e =>
    simp only
    cases e.mintable h with
    | none => rfl
    | some a => rfl

theorem etched_W (st : State) (x : Tri) (blk : Block) (i : Nat) (tx : Tx) (art : Artifact) :
    etched (W st x) blk i tx art = omap (fun r => (W r.1 x, r.2)) (etched st blk i tx art) := by
  unfold etched
  extract_lets named
  clear_value named
  match named with
  | none => rfl
  | some none => rfl
  | some (some rune) =>
    simp only
    show (if rune < blk.minimumRune ∨ rune ≥ RESERVED ∨ AL.contains st.rune2id rune = true then _ else _) = _
    split
    · rfl
    · cases txCommitsToRune blk.height rune tx.inputs with
      | panic s => rfl
      | err e => rfl
      | ok b => cases b <;> rfl

theorem createRuneEntry_W (st : State) (x : Tri) (blk : Block) (tx : Tx) (art : Artifact) (id : RuneId)
    (rune : Nat) :
    createRuneEntry (W st x) blk tx art id rune =
      (W (createRuneEntry st blk tx art id rune).1 x, (createRuneEntry st blk tx art id rune).2) := by
  unfold createRuneEntry
  simp only
  show (match AL.get st.id2seq ⟨tx.txid, 0⟩ with
    | some seq => _
    | none => _, _) = _
  cases AL.get st.id2seq ⟨tx.txid, 0⟩ with
  | none => rfl
  | some seq => rfl

theorem takeInputs_W (ins : List TxIn) (st : State) (x : Tri) (un : Balances) :
    takeInputs ins (W st x) un = omap (fun r => (W r.1 x, r.2)) (takeInputs ins st un) := by
  induction ins generalizing st un with
  | nil => rfl
  | cons i rest ih =>
    simp only [takeInputs]
    show (match AL.get st.balances i.prev with
      | none => _
      | some bs => _) = _
    cases AL.get st.balances i.prev with
    | none => exact ih _ _
    | some bs =>
      simp only
      cases takeInputs.addAll bs un with
      | panic s => rfl
      | err e => rfl
      | ok un' => exact ih { st with balances := AL.erase st.balances i.prev } un'

theorem writeOutputs_W (blk : Block) (tx : Tx) (l : List (Nat × Balances)) (st : State) (x : Tri)
    (burned : Balances) (evs : List Event) :
    writeOutputs blk tx l (W st x) burned evs =
      omap (fun r => (W r.1 x, r.2)) (writeOutputs blk tx l st burned evs) := by
  induction l generalizing st burned evs with
  | nil => rfl
  | cons p rest ih =>
    obtain ⟨vout, bs⟩ := p
    simp only [writeOutputs]
    split
    · exact ih _ _ _
    · have hF := ih { st with balances := AL.set st.balances ⟨tx.txid, vout⟩ (sortBalances bs) } burned
        (evs ++ (sortBalances bs).map (fun (id, b) => Event.runeTransferred b blk.height ⟨tx.txid, vout⟩ id tx.txid))
      have hT : (match addAllTo bs burned false with
          | .ok burned' => writeOutputs blk tx rest (W st x) burned' evs
          | .panic s => .panic s
          | .err e => .err e) = omap (fun r => (W r.1 x, r.2)) (match addAllTo bs burned false with
          | .ok burned' => writeOutputs blk tx rest st burned' evs
          | .panic s => .panic s
          | .err e => .err e) := by
        cases addAllTo bs burned false with
        | panic s => rfl
        | err e => rfl
        | ok b => exact ih st b evs
      cases tx.outputs[vout]? with
      | none =>
        simp only [Bool.false_eq_true, if_false]
        exact hF
      | some o =>
        simp only
        by_cases ho : o.opReturn = true
        · rw [if_pos ho, if_pos ho]; exact hT
        · rw [if_neg ho, if_neg ho]; exact hF

theorem flushBurned_W (bb : Balances) (st : State) (x : Tri) :
    flushBurned bb (W st x) = omap (fun r => W r x) (flushBurned bb st) := by
  induction bb generalizing st with
  | nil => rfl
  | cons p rest ih =>
    obtain ⟨id, b⟩ := p
    simp only [flushBurned]
    show (match AL.get st.runeEntries id with
      | none => _
      | some e => _) = _
    cases AL.get st.runeEntries id with
    | none => rfl
    | some e =>
      simp only
      split
      · rfl
      · exact ih { st with runeEntries := AL.set st.runeEntries id { e with burned := e.burned + b } }

/-- the mint stage of `indexRunesTx` -/
def rtxMint (st0 : State) (un0 : Balances) (blk : Block) (tx : Tx) (mintId : Option RuneId) :
    State × Outcome Balances × List Event :=
  match mintId with
  | none => (st0, .ok un0, [])
  | some id =>
    match mint st0 blk.height id with
    | (s, none) => (s, .ok un0, [])
    | (s, some amount) => (s, addLot un0 id amount, [.runeMinted amount blk.height id tx.txid])

/-- the premine / edicts stage of `indexRunesTx` (state independent) -/
def rtxEdicts (tx : Tx) (art : Artifact) (alloc0 : Allocated) (un1 : Balances) (et : Option (RuneId × Nat)) :
    Outcome (Balances × Allocated) :=
  match art with
  | .cenotaph .. => .ok (un1, alloc0)
  | .runestone edicts etching _ _ =>
    let un2O : Outcome Balances := match et with
      | some (id, _) => addLot un1 id ((etching.bind (·.premine)).getD 0)
      | none => .ok un1
    match un2O with
    | .panic s => .panic s
    | .err e => .err e
    | .ok un2 => applyEdicts tx (et.map (·.1)) edicts un2 alloc0

/-- the etching / edicts stage of `indexRunesTx` -/
def rtxEtch (blk : Block) (txIndex : Nat) (tx : Tx) (art : Artifact) (alloc0 : Allocated)
    (st1 : State) (un1O : Outcome Balances) (ev1 : List Event) :
    Outcome (State × Balances × Allocated × List Event) :=
  match un1O with
  | .panic s => .panic s
  | .err e => .err e
  | .ok un1 =>
    match etched st1 blk txIndex tx art with
    | .panic s => .panic s
    | .err e => .err e
    | .ok (st2, et) =>
      match rtxEdicts tx art alloc0 un1 et with
      | .panic s => .panic s
      | .err e => .err e
      | .ok (un3, alloc1) =>
        match et with
        | some (id, rune) =>
          let (st3, ev2) := createRuneEntry st2 blk tx art id rune
          .ok (st3, un3, alloc1, ev1 ++ ev2)
        | none => .ok (st2, un3, alloc1, ev1)

/-- the mint / etching / edicts stage of `indexRunesTx`, as a function of the state after `takeInputs` -/
def rtxPhase1 (st0 : State) (un0 : Balances) (blk : Block) (txIndex : Nat) (tx : Tx) :
    Outcome (State × Balances × Allocated × List Event) :=
  let alloc0 : Allocated := tx.outputs.map (fun _ => [])
  match tx.artifact with
  | none => .ok (st0, un0, alloc0, [])
  | some art =>
    let mintId := match art with | .runestone _ _ m _ => m | .cenotaph _ m => m
    let (st1, un1O, ev1) := rtxMint st0 un0 blk tx mintId
    rtxEtch blk txIndex tx art alloc0 st1 un1O ev1

/-- the leftovers stage of `indexRunesTx` (state independent) -/
def rtxPhase2 (tx : Tx) (un : Balances) (alloc : Allocated) : Outcome (Allocated × Balances) :=
  match tx.artifact with
  | some (.cenotaph ..) =>
    match addAllTo un [] false with
    | .ok b => .ok (alloc, b)
    | .panic s => .panic s
    | .err e => .err e
  | _ =>
    let pointer : Option Nat := match tx.artifact with
      | some (.runestone _ _ _ p) => p
      | _ => none
    let firstNonOpReturn := ((enumFrom 0 tx.outputs).find? (fun (_, o) => !o.opReturn)).map (·.1)
    match pointer with
    | some p =>
      if p ≥ alloc.length then .panic "assert!(pointer < allocated.len())"
      else match addAllTo un (alloc[p]?.getD []) true with
        | .ok m => .ok (alloc.set p m, [])
        | .panic s => .panic s
        | .err e => .err e
    | none =>
      match firstNonOpReturn with
      | some v =>
        match addAllTo un (alloc[v]?.getD []) true with
        | .ok m => .ok (alloc.set v m, [])
        | .panic s => .panic s
        | .err e => .err e
      | none =>
        match addAllTo un [] true with
        | .ok b => .ok (alloc, b)
        | .panic s => .panic s
        | .err e => .err e

/-- everything of `indexRunesTx` after `phase1` -/
def rtxRest (blk : Block) (tx : Tx) (blockBurned : Balances) (st3 : State) (un : Balances) (alloc : Allocated)
    (evs : List Event) : Outcome (State × Balances × List Event) :=
  match rtxPhase2 tx un alloc with
  | .panic s => .panic s
  | .err e => .err e
  | .ok (alloc2, burned0) =>
    match writeOutputs blk tx (enumFrom 0 alloc2) st3 burned0 evs with
    | .panic s => .panic s
    | .err e => .err e
    | .ok (st4, burned, evs2) =>
      match addAllTo burned blockBurned false with
      | .panic s => .panic s
      | .err e => .err e
      | .ok bb =>
        .ok (st4, bb, evs2 ++ burned.map (fun (id, a) => Event.runeBurned a blk.height id tx.txid))

theorem indexRunesTx_eq (st : State) (blk : Block) (txIndex : Nat) (tx : Tx) (blockBurned : Balances) :
    indexRunesTx st blk txIndex tx blockBurned =
      match takeInputs tx.inputs st [] with
      | .panic s => .panic s
      | .err e => .err e
      | .ok (st0, un0) =>
        match rtxPhase1 st0 un0 blk txIndex tx with
        | .panic s => .panic s
        | .err e => .err e
        | .ok (st3, un, alloc, evs) => rtxRest blk tx blockBurned st3 un alloc evs := rfl

theorem rtxMint_W (st0 : State) (x : Tri) (un0 : Balances) (blk : Block) (tx : Tx) (mintId : Option RuneId) :
    rtxMint (W st0 x) un0 blk tx mintId =
      (W (rtxMint st0 un0 blk tx mintId).1 x, (rtxMint st0 un0 blk tx mintId).2) := by
  unfold rtxMint
  cases mintId with
  | none => rfl
  | some id =>
    simp only
    rw [mint_W]
    cases mint st0 blk.height id with
    | mk s o => cases o <;> rfl

theorem rtxEtch_W (blk : Block) (txIndex : Nat) (tx : Tx) (art : Artifact) (alloc0 : Allocated)
    (st1 : State) (x : Tri) (un1O : Outcome Balances) (ev1 : List Event) :
    rtxEtch blk txIndex tx art alloc0 (W st1 x) un1O ev1 =
      omap (fun q => (W q.1 x, q.2)) (rtxEtch blk txIndex tx art alloc0 st1 un1O ev1) := by
  unfold rtxEtch
  cases un1O with
  | panic s => rfl
  | err e => rfl
  | ok un1 =>
    simp only
    rw [etched_W]
    cases etched st1 blk txIndex tx art with
    | panic s => rfl
    | err e => rfl
    | ok r =>
      obtain ⟨st2, et⟩ := r
      simp only [omap_ok]
      cases rtxEdicts tx art alloc0 un1 et with
      | panic s => rfl
      | err e => rfl
      | ok r2 =>
        obtain ⟨un3, alloc1⟩ := r2
        cases et with
        | none => rfl
        | some p =>
          obtain ⟨id, rune⟩ := p
          simp only
          rw [createRuneEntry_W]
          rfl

theorem rtxPhase1_W (st0 : State) (x : Tri) (un0 : Balances) (blk : Block) (txIndex : Nat) (tx : Tx) :
    rtxPhase1 (W st0 x) un0 blk txIndex tx =
      omap (fun q => (W q.1 x, q.2)) (rtxPhase1 st0 un0 blk txIndex tx) := by
  unfold rtxPhase1
  cases tx.artifact with
  | none => rfl
  | some art =>
    simp only
    rw [rtxMint_W]
    exact rtxEtch_W _ _ _ _ _ _ _ _ _

theorem rtxRest_W (blk : Block) (tx : Tx) (bb : Balances) (st3 : State) (x : Tri) (un : Balances)
    (alloc : Allocated) (evs : List Event) :
    rtxRest blk tx bb (W st3 x) un alloc evs =
      omap (fun r => (W r.1 x, r.2)) (rtxRest blk tx bb st3 un alloc evs) := by
  unfold rtxRest
  cases rtxPhase2 tx un alloc with
  | panic s => rfl
  | err e => rfl
  | ok r =>
    obtain ⟨alloc2, burned0⟩ := r
    simp only
    rw [writeOutputs_W]
    cases writeOutputs blk tx (enumFrom 0 alloc2) st3 burned0 evs with
    | panic s => rfl
    | err e => rfl
    | ok r2 =>
      obtain ⟨st4, burned, evs2⟩ := r2
      simp only [omap_ok]
      cases addAllTo burned bb false with
      | panic s => rfl
      | err e => rfl
      | ok b => rfl

theorem indexRunesTx_W (st : State) (x : Tri) (blk : Block) (txIndex : Nat) (tx : Tx) (bb : Balances) :
    indexRunesTx (W st x) blk txIndex tx bb =
      omap (fun r => (W r.1 x, r.2)) (indexRunesTx st blk txIndex tx bb) := by
  rw [indexRunesTx_eq, indexRunesTx_eq, takeInputs_W]
  cases takeInputs tx.inputs st [] with
  | panic s => rfl
  | err e => rfl
  | ok r =>
    obtain ⟨st0, un0⟩ := r
    simp only [omap_ok]
    rw [rtxPhase1_W]
    cases rtxPhase1 st0 un0 blk txIndex tx with
    | panic s => rfl
    | err e => rfl
    | ok q =>
      obtain ⟨st3, un, alloc, evs⟩ := q
      simp only [omap_ok]
      exact rtxRest_W _ _ _ _ _ _ _ _

theorem indexRunesBlock_go_W (blk : Block) (l : List (Nat × Tx)) (st : State) (x : Tri) (bb : Balances)
    (evs : List Event) :
    indexRunesBlock.go blk l (W st x) bb evs =
      omap (fun r => (W r.1 x, r.2)) (indexRunesBlock.go blk l st bb evs) := by
  induction l generalizing st bb evs with
  | nil => rfl
  | cons p rest ih =>
    obtain ⟨i, tx⟩ := p
    simp only [indexRunesBlock.go]
    rw [indexRunesTx_W]
    cases indexRunesTx st blk i tx bb with
    | panic s => rfl
    | err e => rfl
    | ok r =>
      obtain ⟨st', bb', evs'⟩ := r
      exact ih st' bb' (evs ++ evs')

/-- the rune pass neither reads nor writes `utxo`/`seq2sp`/`script2out` -/
theorem indexRunesBlock_W (st : State) (x : Tri) (blk : Block) :
    indexRunesBlock (W st x) blk = omap (fun r => (W r.1 x, r.2)) (indexRunesBlock st blk) := by
  unfold indexRunesBlock
  rw [indexRunesBlock_go_W]
  cases indexRunesBlock.go blk (enumFrom 0 blk.txs) st [] [] with
  | panic s => rfl
  | err e => rfl
  | ok r =>
    obtain ⟨st1, bb, evs⟩ := r
    simp only [omap_ok]
    rw [flushBurned_W]
    cases flushBurned bb st1 with
    | panic s => rfl
    | err e => rfl
    | ok st2 => rfl

end Ord.Index.Sched
