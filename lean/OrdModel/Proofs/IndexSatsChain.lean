import OrdModel.Index.OracleSats
/-
Facts about `subsidy` / `startingSat` (Chain.lean) needed by C01/C02, proved locally from the
definitions: they are the BIP's `subsidy` / `first_ordinal`.
-/
namespace Ord.Index

theorem subsidy_eq_bip (h : Nat) : subsidy h = Bip.subsidy h := by
  unfold subsidy Bip.subsidy
  simp only []
  split
  · rfl
  · rename_i he
    have h33 : (2:Nat) ^ 33 ≤ 2 ^ (h / 210000) := Nat.pow_le_pow_right (by omega) (by omega)
    have : (50 * 100000000 : Nat) < 2 ^ 33 := by decide
    rw [Nat.shiftRight_eq_div_pow, Nat.div_eq_of_lt (by omega)]

theorem epochStartingSat_succ (e : Nat) :
    epochStartingSat (e + 1) = epochStartingSat e + 210000 * (if e < 33 then 5000000000 >>> e else 0) := rfl

theorem startingSat_zero : startingSat 0 = 0 := by
  simp [startingSat, epochStartingSat]

theorem startingSat_succ (h : Nat) : startingSat (h + 1) = startingSat h + subsidy h := by
  unfold startingSat subsidy
  simp only []
  by_cases hb : (h + 1) / 210000 = h / 210000
  · rw [hb]
    have hr : h + 1 - h / 210000 * 210000 = (h - h / 210000 * 210000) + 1 := by omega
    generalize h / 210000 = e at *
    by_cases he : e < 33
    · simp only [he, if_true]
      rw [hr, Nat.succ_mul]
      omega
    · simp [he]
  · have hb' : (h + 1) / 210000 = h / 210000 + 1 := by omega
    have hr : h - h / 210000 * 210000 = 209999 := by omega
    have hr' : h + 1 - (h / 210000 + 1) * 210000 = 0 := by omega
    rw [hb', hr, hr']
    generalize h / 210000 = e at *
    by_cases he : e < 33
    · have hm : min e 33 = e := by omega
      have hm' : min (e + 1) 33 = e + 1 := by omega
      rw [hm, hm', epochStartingSat_succ]
      simp only [he, if_true, Nat.zero_mul]
      split <;> omega
    · have hm : min e 33 = 33 := by omega
      have hm' : min (e + 1) 33 = 33 := by omega
      have he' : ¬ e + 1 < 33 := by omega
      rw [hm, hm']
      simp [he, he']

/-- the BIP's `first_ordinal` is `Height::starting_sat` -/
theorem firstOrdinal_eq_startingSat (h : Nat) : Bip.firstOrdinal h = startingSat h := by
  induction h with
  | zero => simp [Bip.firstOrdinal, startingSat_zero]
  | succ h ih => rw [Bip.firstOrdinal, startingSat_succ, ih, subsidy_eq_bip]

theorem startingSat_mono {a b : Nat} (h : a ≤ b) : startingSat a ≤ startingSat b := by
  induction h with
  | refl => exact Nat.le_refl _
  | step _ ih => rw [startingSat_succ]; omega

end Ord.Index
