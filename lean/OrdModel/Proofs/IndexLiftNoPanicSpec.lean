import OrdModel.Proofs.IndexMiscNoPanicLift
/-
C16 lift, part 1 (spec side): the UTXO set threaded by `Valid.validChain` as a finite map
(`Valid.lookup` / `Valid.remove` are `AL.get` / `AL.erase`), its well-formedness (`UWF`: no outpoint
twice, every outpoint's txid has been seen and is not zero), and everything `checkTx` /
`checkBlock` / `checkChain` checked, in the shape the index-side induction consumes.
-/
namespace Ord.Index.NoPanic
open Ord Ord.Index

theorem lookup_eq_get (u : Valid.Utxos) (op : OutPoint) : Valid.lookup u op = AL.get u op := by
  induction u with
  | nil => rfl
  | cons p rest ih => obtain ⟨o, v⟩ := p; simp only [Valid.lookup, AL.get, ih]

theorem remove_eq_erase (u : Valid.Utxos) (op : OutPoint) : Valid.remove u op = AL.erase u op := by
  induction u with
  | nil => rfl
  | cons p rest ih => obtain ⟨o, v⟩ := p; simp only [Valid.remove, AL.erase, ih]

theorem sum_eq (l : List Nat) : Valid.sum l = l.sum := by
  induction l with
  | nil => rfl
  | cons a rest ih => simp [Valid.sum, ih]

theorem get_append {ν : Type} (a b : List (OutPoint × ν)) (op : OutPoint) :
    AL.get (a ++ b) op = match AL.get a op with | some v => some v | none => AL.get b op := by
  induction a with
  | nil => rfl
  | cons p rest ih =>
    obtain ⟨k, v⟩ := p
    simp only [List.cons_append, AL.get]
    split
    · rfl
    · exact ih

theorem keys_append {ν : Type} (a b : List (OutPoint × ν)) : AL.keys (a ++ b) = AL.keys a ++ AL.keys b := by
  simp [AL.keys]

/-- well-formed spec UTXO set: no outpoint twice; every outpoint belongs to a seen, non-zero txid -/
structure UWF (seen : List Txid) (u : Valid.Utxos) : Prop where
  nodup : (AL.keys u).Nodup
  seen : ∀ op ∈ AL.keys u, op.txid ∈ seen
  nz : ∀ op ∈ AL.keys u, op.txid ≠ 0

theorem UWF.nil (seen : List Txid) : UWF seen [] := ⟨by simp, by simp, by simp⟩

theorem UWF.erase {seen : List Txid} {u : Valid.Utxos} (h : UWF seen u) (op : OutPoint) :
    UWF seen (AL.erase u op) :=
  ⟨AL.nodup_erase _ _ h.nodup, fun o ho => h.seen o (AL.keys_erase_subset _ _ _ ho),
   fun o ho => h.nz o (AL.keys_erase_subset _ _ _ ho)⟩

theorem UWF.mono {seen seen' : List Txid} {u : Valid.Utxos} (h : UWF seen u) (hs : ∀ t ∈ seen, t ∈ seen') :
    UWF seen' u := ⟨h.nodup, fun o ho => hs _ (h.seen o ho), h.nz⟩

theorem UWF.of_get {seen : List Txid} {u : Valid.Utxos} (h : UWF seen u) {op : OutPoint} {v : Nat}
    (hg : AL.get u op = some v) : op.txid ∈ seen ∧ op.txid ≠ 0 :=
  have hm := AL.mem_keys_of_mem (AL.mem_of_get hg)
  ⟨h.seen op hm, h.nz op hm⟩

/-! ### the outputs a transaction adds -/

theorem newOutputs_aux (txid : Txid) (outs : List Nat) (k : Nat) (op : OutPoint) :
    AL.get (((List.range' k outs.length).zip outs).map (fun (p : Nat × Nat) => ((⟨txid, p.1⟩ : OutPoint), p.2))) op =
      if op.txid = txid ∧ k ≤ op.vout then outs[op.vout - k]? else none := by
  induction outs generalizing k with
  | nil => simp [AL.get]
  | cons v vs ih =>
    simp only [List.length_cons, List.range'_succ, List.zip_cons_cons, List.map_cons, AL.get]
    obtain ⟨t, w⟩ := op
    by_cases h1 : t = txid ∧ w = k
    · obtain ⟨rfl, rfl⟩ := h1
      simp
    · have hne : ((⟨txid, k⟩ : OutPoint) == ⟨t, w⟩) = false := by
        simp only [beq_eq_false_iff_ne, ne_eq, OutPoint.mk.injEq]
        intro ⟨a, b⟩; exact h1 ⟨a.symm, b.symm⟩
      rw [hne]
      simp only [Bool.false_eq_true, if_false]
      rw [ih (k + 1)]
      by_cases h2 : t = txid ∧ k + 1 ≤ w
      · have h3 : t = txid ∧ k ≤ w := ⟨h2.1, by omega⟩
        rw [if_pos h2, if_pos h3]
        have : w - k = (w - (k + 1)) + 1 := by omega
        rw [this]; simp
      · rw [if_neg h2]
        have h3 : ¬ (t = txid ∧ k ≤ w) := by
          intro ⟨a, b⟩
          by_cases hw : w = k
          · exact h1 ⟨a, hw⟩
          · exact h2 ⟨a, by omega⟩
        rw [if_neg h3]

theorem get_newOutputs (txid : Txid) (outs : List Nat) (op : OutPoint) :
    AL.get (Valid.newOutputs txid outs) op = if op.txid = txid then outs[op.vout]? else none := by
  have := newOutputs_aux txid outs 0 op
  simp only [Nat.zero_le, and_true, Nat.sub_zero] at this
  unfold Valid.newOutputs
  rw [List.range_eq_range']
  exact this

theorem keys_newOutputs (txid : Txid) (outs : List Nat) :
    AL.keys (Valid.newOutputs txid outs) = (List.range outs.length).map (fun v => (⟨txid, v⟩ : OutPoint)) := by
  unfold Valid.newOutputs AL.keys
  rw [List.map_map]
  have : ((fun (x : OutPoint × Nat) => x.1) ∘ fun (x : Nat × Nat) => ((⟨txid, x.1⟩ : OutPoint), x.2)) =
      (fun v => (⟨txid, v⟩ : OutPoint)) ∘ Prod.fst := rfl
  rw [this, ← List.map_map, List.map_fst_zip]
  simp

theorem UWF.addOutputs {seen : List Txid} {u : Valid.Utxos} (h : UWF seen u) (txid : Txid) (outs : List Nat)
    (hf : txid ∉ seen) (h0 : txid ≠ 0) : UWF (txid :: seen) (u ++ Valid.newOutputs txid outs) := by
  refine ⟨?_, ?_, ?_⟩
  · rw [keys_append, List.nodup_append]
    refine ⟨h.nodup, ?_, ?_⟩
    · rw [keys_newOutputs]
      exact List.Pairwise.map _ (fun a b hab h => hab (OutPoint.mk.inj h).2) List.nodup_range
    · intro a ha b hb hab
      subst hab
      rw [keys_newOutputs] at hb
      obtain ⟨v, _, rfl⟩ := List.mem_map.1 hb
      exact hf (h.seen _ ha)
  · intro op hop
    rw [keys_append] at hop
    rcases List.mem_append.1 hop with hop | hop
    · exact List.mem_cons_of_mem _ (h.seen op hop)
    · rw [keys_newOutputs] at hop
      obtain ⟨v, _, rfl⟩ := List.mem_map.1 hop
      exact List.mem_cons_self
  · intro op hop
    rw [keys_append] at hop
    rcases List.mem_append.1 hop with hop | hop
    · exact h.nz op hop
    · rw [keys_newOutputs] at hop
      obtain ⟨v, _, rfl⟩ := List.mem_map.1 hop
      exact h0

/-! ### what `checkTx` / `checkBlock` / `checkChain` checked -/

theorem checkTx_facts (height : Nat) (u u' : Valid.Utxos) (tx : Tx) (fee : Nat)
    (h : Valid.checkTx height u tx = some (u', fee)) :
    ∃ u0 spent, Valid.spendInputs tx.inputs u = some (u0, spent) ∧
      u' = u0 ++ Valid.newOutputs tx.txid (Valid.outValues tx) ∧
      fee = Valid.sum spent - Valid.sum (Valid.outValues tx) ∧
      Valid.txWellFormed tx = true ∧ Valid.sum (Valid.outValues tx) ≤ Valid.sum spent := by
  unfold Valid.checkTx at h
  split at h
  · cases h
  · rename_i u0 spent hs
    simp only at h
    split at h
    · rename_i hc
      simp only [Bool.and_eq_true] at hc
      simp only [Option.some.injEq, Prod.mk.injEq] at h
      refine ⟨u0, spent, hs, h.1.symm, h.2.symm, hc.1.1.1, ?_⟩
      simpa [Valid.conserves] using hc.1.2
    · cases h

/-- everything `checkBlock` checked, including the coinbase amount, the envelope budget and the
resulting state -/
theorem checkBlock_full (st st' : Valid.VState) (blk : Block) (h : Valid.checkBlock st blk = some st') :
    ∃ cb rest txids u fees, blk.txs = cb :: rest ∧
      Valid.coinbaseShape cb = true ∧ Valid.txWellFormed cb = true ∧
      Valid.freshTxids st.txids (blk.txs.map (·.txid)) = some txids ∧
      Valid.checkTxs blk.height rest st.utxos 0 = some (u, fees) ∧
      Valid.coinbaseWithinReward blk.height fees cb = true ∧
      st.envelopes + Valid.sum (blk.txs.map (·.envelopes.length)) < Valid.maxInscriptions ∧
      st' = { height := st.height + 1, utxos := u ++ Valid.newOutputs cb.txid (Valid.outValues cb),
              txids := txids, envelopes := st.envelopes + Valid.sum (blk.txs.map (·.envelopes.length)) } := by
  unfold Valid.checkBlock at h
  split at h
  · cases h
  · rename_i cb rest hb
    split at h
    · cases h
    · split at h
      · cases h
      · split at h
        · cases h
        · rename_i hcb
          split at h
          · cases h
          · rename_i txids hfresh
            split at h
            · cases h
            · rename_i u fees hct
              simp only [] at h
              split at h
              · rename_i hfin
                simp only [Option.some.injEq] at h
                have hcb' : (Valid.coinbaseShape cb && Valid.txWellFormed cb) = true := by
                  cases hx : (Valid.coinbaseShape cb && Valid.txWellFormed cb) <;> simp_all
                simp only [Bool.and_eq_true, decide_eq_true_eq] at hcb' hfin
                exact ⟨cb, rest, txids, u, fees, hb, hcb'.1, hcb'.2, hfresh, hct, hfin.1, hfin.2, h.symm⟩
              · cases h

theorem checkChain_snoc (pre : List Block) (b : Block) (s s' : Valid.VState)
    (h : Valid.checkChain (pre ++ [b]) s = some s') :
    ∃ s1, Valid.checkChain pre s = some s1 ∧ Valid.checkBlock s1 b = some s' := by
  induction pre generalizing s with
  | nil =>
    simp only [List.nil_append, Valid.checkChain] at h
    split at h
    · cases h
    · rename_i s1 hb
      simp only [Option.some.injEq] at h
      subst h
      exact ⟨s, rfl, hb⟩
  | cons c cs ih =>
    simp only [List.cons_append, Valid.checkChain] at h ⊢
    split at h
    · cases h
    · rename_i s1 hc
      exact ih s1 h

end Ord.Index.NoPanic
