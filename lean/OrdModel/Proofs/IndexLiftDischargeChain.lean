import OrdModel.Proofs.IndexLiftInsChain
/-
The step of `InsLift.run_chainInv` stated on its own (shared by the C15 / C37 discharge files):
from the chain invariant at a state and the chain hypotheses of the chain extended by one block,
the per-block hypotheses of `applyBlock_sinv`, and the chain invariant after the block.
-/
namespace Ord.Index.InsLift
open Ord Ord.Index Outcome Sched Insloc

/-- the per-block hypotheses of `applyBlock_sinv`, from the chain invariant and the chain
hypotheses of the extended chain -/
theorem blockIns_of_chainInv (cfg : Cfg) (pre : List Block) (st : State) (b : Block)
    (hq : InsChainOK [] (pre ++ [b])) (hP : ChainInv cfg pre st) :
    BlockIns cfg (seenChain [] pre) st b := by
  obtain ⟨_, q2, q3, q4⟩ := hq.snoc
  obtain ⟨_, hE⟩ := hP
  refine ⟨q2, q3, ?_⟩
  intro hi
  apply Classical.byContradiction
  intro hne
  obtain ⟨hidx, x, hx, hxh⟩ := hE (Nat.pos_of_ne_zero hne)
  have := q4 x hx
  have : insOnOf cfg b = true := by
    simp only [insOnOf, hidx, Bool.and_true, decide_eq_true_eq]
    omega
  rw [this] at hi; cases hi

/-- one block preserves the chain invariant (the step of `run_chainInv`, stated on its own) -/
theorem chainInv_step (cfg : Cfg) (pre : List Block) (st : State) (b : Block) (st' : State) (ev' : List Event)
    (hq : InsChainOK [] (pre ++ [b])) (hP : ChainInv cfg pre st)
    (hb : applyBlock cfg st b = .ok (st', ev')) : ChainInv cfg (pre ++ [b]) st' := by
  have hbi := blockIns_of_chainInv cfg pre st b hq hP
  obtain ⟨hS, hE⟩ := hP
  obtain ⟨s1, _, s3⟩ := applyBlock_sinv cfg _ st b st' ev' hS hbi hb
  refine ⟨?_, ?_⟩
  · have : seenChain [] (pre ++ [b]) = b.txs.map (·.txid) ++ seenChain [] pre := by
      rw [seenChain_append]; rfl
    rw [this]; exact s1
  · intro hpos
    cases hi : insOnOf cfg b with
    | true =>
      simp only [insOnOf, Bool.and_eq_true, decide_eq_true_eq] at hi
      exact ⟨hi.2, b, by simp, hi.1⟩
    | false =>
      rw [s3 hi] at hpos
      obtain ⟨h1, x, hx, hxh⟩ := hE hpos
      exact ⟨h1, x, List.mem_append_left _ hx, hxh⟩

end Ord.Index.InsLift
