import OrdModel.Proofs.WalletRunesSend
import OrdModel.Proofs.IndexRunesupplySpec
/- C22 helper lemmas, part 3: `sendOrBurn` unfolded, and the allocation on its transactions. -/
namespace Ord.Wallet.RuneTx
open Ord Ord.Index Ord.Index.Spec

/-- what a successful `sendOrBurn` with a non-zero amount returns -/
theorem sendOrBurn_ok {zf : Bool} {inv : List WOut} {ids : Nat → RuneId} {r amount postage : Nat} {dest : Bool}
    {tx : Tx} (hpos : 0 < amount) (h : sendOrBurn zf inv ids r amount dest postage = .ok tx) :
    amount ≤ total tx.inputs r ∧
    tx.inputs = selectSend r amount (runicBalances inv) [] ∧
    ((decide (total tx.inputs r > amount) || decide ((names tx.inputs).length > 1)) = true →
      (dest = true → tx.stone = true ∧ tx.edicts = [⟨ids r, amount, 2⟩] ∧ tx.outs = [.stone, .change postage, .dest 0 postage]) ∧
      (dest = false → tx.stone = true ∧ tx.edicts = [⟨ids r, amount, 0⟩] ∧ tx.outs = [.stone, .change postage])) ∧
    ((decide (total tx.inputs r > amount) || decide ((names tx.inputs).length > 1)) = false →
      (dest = true → tx.stone = false ∧ tx.outs = [.dest 0 postage]) ∧
      (dest = false → tx.stone = true ∧ tx.edicts = [⟨ids r, amount, 0⟩] ∧ tx.outs = [.stone])) := by
  unfold sendOrBurn at h
  have hz : (zf && amount == 0) = false := by
    have : (amount == 0) = false := by simp; omega
    simp [this]
  rw [hz] at h
  simp only [Bool.false_eq_true, if_false] at h
  split at h
  · cases h
  · rename_i hlt
    cases dest with
    | true =>
      simp only [if_true] at h
      have := Outcome.ok.inj h
      subst this
      refine ⟨by simp only; omega, rfl, ?_, ?_⟩
      · intro hn; simp [hn]
      · intro hn; simp [hn]
    | false =>
      simp only [Bool.false_eq_true, if_false] at h
      have := Outcome.ok.inj h
      subst this
      refine ⟨by simp only; omega, rfl, ?_, ?_⟩
      · intro hn; simp [hn]
      · intro hn; simp [hn]

end Ord.Wallet.RuneTx

namespace Ord.Wallet.RuneTx
open Ord Ord.Index Ord.Index.Spec

theorem want_le {ids : Nat → RuneId} (hg : GoodIds ids) (sel : List Input) (r amount : Nat) (q : RuneId)
    (h : amount ≤ total sel r) : (if q = ids r then amount else 0) ≤ inputOf ids sel q := by
  by_cases hq : q = ids r
  · subst hq; rw [if_pos rfl, inputOf_ids hg]; exact h
  · rw [if_neg hq]; omega

/-- the allocation on a `send` transaction (funded shape `tx.opret ++ extra`) -/
theorem send_alloc (zf : Bool) (inv : List WOut) (ids : Nat → RuneId) (hg : GoodIds ids)
    (r amount postage : Nat) (tx : Tx) (hpos : 0 < amount)
    (hok : sendOrBurn zf inv ids r amount true postage = .ok tx)
    (extra : List Bool) (added : RuneId → Nat) (hadded : ∀ q, added q = 0) (q : RuneId) :
    (if q = ids r then amount else 0) ≤ inputOf ids tx.inputs q + added q ∧
    (Spec.allocate (tx.opret ++ extra) tx.msg none q (inputOf ids tx.inputs q + added q)).burned = 0 ∧
    ((tx.outs = [.stone, .change postage, .dest 0 postage] ∧
      (Spec.allocate (tx.opret ++ extra) tx.msg none q (inputOf ids tx.inputs q + added q)).out 2
        = (if q = ids r then amount else 0) ∧
      (Spec.allocate (tx.opret ++ extra) tx.msg none q (inputOf ids tx.inputs q + added q)).out 1
        = inputOf ids tx.inputs q + added q - (if q = ids r then amount else 0) ∧
      ∀ v, v ≠ 1 → v ≠ 2 →
        (Spec.allocate (tx.opret ++ extra) tx.msg none q (inputOf ids tx.inputs q + added q)).out v = 0) ∨
     (tx.outs = [.dest 0 postage] ∧
      (Spec.allocate (tx.opret ++ extra) tx.msg none q (inputOf ids tx.inputs q + added q)).out 0
        = (if q = ids r then amount else 0) ∧
      inputOf ids tx.inputs q + added q = (if q = ids r then amount else 0) ∧
      ∀ v, v ≠ 0 →
        (Spec.allocate (tx.opret ++ extra) tx.msg none q (inputOf ids tx.inputs q + added q)).out v = 0)) := by
  rw [hadded q, Nat.add_zero]
  obtain ⟨hcov, _, hch, hnch⟩ := sendOrBurn_ok hpos hok
  have hwant := want_le hg tx.inputs r amount q hcov
  refine ⟨hwant, ?_⟩
  cases hn : (decide (total tx.inputs r > amount) || decide ((names tx.inputs).length > 1)) with
  | true =>
    obtain ⟨hst, hed, houts⟩ := (hch hn).1 rfl
    have hop : tx.opret = [true, false, false] := by simp [Tx.opret, houts]
    have hmsg : tx.msg = .runestone [⟨ids r, amount, 2⟩] none := by simp [Tx.msg, hst, hed]
    rw [hop, hmsg]
    have hsum : sumFor q [⟨ids r, amount, 2⟩] = (if q = ids r then amount else 0) := by
      simp only [sumFor, Nat.add_zero]
      by_cases hq : q = ids r
      · simp [hq]
      · have : ¬ ids r = q := fun h => hq h.symm
        simp [hq, this]
    have hA := alloc_plain [true, false, false] extra [⟨ids r, amount, 2⟩] q (inputOf ids tx.inputs q) 1
      (by intro e he; simp at he; subst he; exact ⟨by simp, by simp; omega, hg.nz r⟩)
      (by rw [hsum]; exact hwant)
      (by simp [eligible, eligibleFrom]) (by simp) (by decide)
      (by intro e he; simp at he; subst he; rfl)
    refine ⟨hA.2, Or.inl ⟨houts, ?_, ?_, ?_⟩⟩
    · rw [hA.1 2]; simp only [sumAt, Nat.add_zero]
      by_cases hq : q = ids r
      · simp [hq]
      · have : ¬ ids r = q := fun h => hq h.symm
        simp [hq, this]
    · rw [hA.1 1, hsum]; simp [sumAt]
    · intro v h1 h2
      rw [hA.1 v]
      have : ¬ (2 = v) := fun h => h2 h.symm
      simp [sumAt, h1, this]
  | false =>
    obtain ⟨hst, houts⟩ := (hnch hn).1 rfl
    have hop : tx.opret = [false] := by simp [Tx.opret, houts]
    have hmsg : tx.msg = .none := by simp [Tx.msg, hst]
    rw [hop, hmsg]
    simp only [Bool.or_eq_false_iff, decide_eq_false_iff_not] at hn
    have htot : total tx.inputs r = amount := by omega
    have hu0 : inputOf ids tx.inputs q = (if q = ids r then amount else 0) := by
      by_cases hq : q = ids r
      · subst hq; rw [if_pos rfl, inputOf_ids hg, htot]
      · rw [if_neg hq]
        exact inputOf_other_zero hg tx.inputs r q (by omega) (by omega) hq
    have hs := settle_default ([false] ++ extra) (Flow.start (inputOf ids tx.inputs q)) 0
      (by simp [eligible, eligibleFrom])
    have hout : ∀ v, (Spec.allocate ([false] ++ extra) .none none q (inputOf ids tx.inputs q)).out v
        = if v = 0 then inputOf ids tx.inputs q else 0 := by
      intro v
      show (settle ([false] ++ extra) none (Flow.start (inputOf ids tx.inputs q))).out v = _
      rw [hs.1]
      by_cases hv : v = 0
      · subst hv; simp [opReturnAt, Flow.give, Flow.start]
      · simp [Flow.give, Flow.start, hv]
    refine ⟨?_, Or.inr ⟨houts, ?_, hu0, ?_⟩⟩
    · show (settle ([false] ++ extra) none (Flow.start (inputOf ids tx.inputs q))).burned = 0
      rw [hs.2]
      have : ((Flow.start (inputOf ids tx.inputs q)).give 0 (Flow.start (inputOf ids tx.inputs q)).un).un = 0 := by
        simp [Flow.give, Flow.start]
      rw [this, Nat.zero_add]
      apply sumOpReturnFrom_zero
      intro j hj
      cases j with
      | zero => simp at hj
      | succ k => simp [Flow.give, Flow.start]
    · rw [hout 0, if_pos rfl, hu0]
    · intro v hv; rw [hout v, if_neg hv]

end Ord.Wallet.RuneTx

namespace Ord.Wallet.RuneTx
open Ord Ord.Index Ord.Index.Spec

/-- the allocation on a `burn` transaction (funded shape `tx.opret ++ extra`) -/
theorem burn_alloc (zf : Bool) (inv : List WOut) (ids : Nat → RuneId) (hg : GoodIds ids)
    (r amount postage : Nat) (tx : Tx) (hpos : 0 < amount)
    (hok : sendOrBurn zf inv ids r amount false postage = .ok tx)
    (extra : List Bool) (added : RuneId → Nat) (hadded : ∀ q, added q = 0) (q : RuneId) :
    (if q = ids r then amount else 0) ≤ inputOf ids tx.inputs q + added q ∧
    (Spec.allocate (tx.opret ++ extra) tx.msg none q (inputOf ids tx.inputs q + added q)).burned
      = (if q = ids r then amount else 0) ∧
    ((tx.outs = [.stone, .change postage] ∧
      (Spec.allocate (tx.opret ++ extra) tx.msg none q (inputOf ids tx.inputs q + added q)).out 1
        = inputOf ids tx.inputs q + added q - (if q = ids r then amount else 0) ∧
      ∀ v, v ≠ 1 →
        (Spec.allocate (tx.opret ++ extra) tx.msg none q (inputOf ids tx.inputs q + added q)).out v = 0) ∨
     (tx.outs = [.stone] ∧
      inputOf ids tx.inputs q + added q = (if q = ids r then amount else 0) ∧
      ∀ v, (Spec.allocate (tx.opret ++ extra) tx.msg none q (inputOf ids tx.inputs q + added q)).out v = 0)) := by
  rw [hadded q, Nat.add_zero]
  obtain ⟨hcov, _, hch, hnch⟩ := sendOrBurn_ok hpos hok
  have hwant := want_le hg tx.inputs r amount q hcov
  refine ⟨hwant, ?_⟩
  have hsum : sumFor q [⟨ids r, amount, 0⟩] = (if q = ids r then amount else 0) := by
    simp only [sumFor, Nat.add_zero]
    by_cases hq : q = ids r
    · simp [hq]
    · have : ¬ ids r = q := fun h => hq h.symm
      simp [hq, this]
  have hat : ∀ v, sumAt q v [⟨ids r, amount, 0⟩] = if v = 0 then (if q = ids r then amount else 0) else 0 := by
    intro v
    simp only [sumAt, Nat.add_zero]
    by_cases hv : v = 0
    · subst hv
      by_cases hq : q = ids r
      · simp [hq]
      · have : ¬ ids r = q := fun h => hq h.symm
        simp [hq, this]
    · have : ¬ (0 = v) := fun h => hv h.symm
      simp [hv, this]
  -- the flow, for any funded output list with at least one output
  have hflow : ∀ outs : List Bool, 0 < outs.length →
      (flow outs none q [⟨ids r, amount, 0⟩] (Flow.start (inputOf ids tx.inputs q))).un
        = inputOf ids tx.inputs q - (if q = ids r then amount else 0) ∧
      ∀ v, (flow outs none q [⟨ids r, amount, 0⟩] (Flow.start (inputOf ids tx.inputs q))).out v
        = if v = 0 then (if q = ids r then amount else 0) else 0 := by
    intro outs hlen
    have := flow_plain outs q [⟨ids r, amount, 0⟩] (Flow.start (inputOf ids tx.inputs q))
      (by intro e he; simp at he; subst he; exact ⟨hlen, by simp; omega, hg.nz r⟩)
      (by rw [hsum]; exact hwant)
    refine ⟨by rw [this.1, hsum]; rfl, fun v => ?_⟩
    rw [this.2 v, hat v]; simp [Flow.start]
  cases hn : (decide (total tx.inputs r > amount) || decide ((names tx.inputs).length > 1)) with
  | true =>
    obtain ⟨hst, hed, houts⟩ := (hch hn).2 rfl
    have hop : tx.opret = [true, false] := by simp [Tx.opret, houts]
    have hmsg : tx.msg = .runestone [⟨ids r, amount, 0⟩] none := by simp [Tx.msg, hst, hed]
    rw [hop, hmsg, allocate_runestone]
    obtain ⟨hf1, hf2⟩ := hflow ([true, false] ++ extra) (by simp)
    have hs := settle_default ([true, false] ++ extra)
      (flow ([true, false] ++ extra) none q [⟨ids r, amount, 0⟩] (Flow.start (inputOf ids tx.inputs q))) 1
      (by simp [eligible, eligibleFrom])
    have hg' : ∀ v, ((flow ([true, false] ++ extra) none q [⟨ids r, amount, 0⟩] (Flow.start (inputOf ids tx.inputs q))).give 1
        (flow ([true, false] ++ extra) none q [⟨ids r, amount, 0⟩] (Flow.start (inputOf ids tx.inputs q))).un).out v
        = if v = 0 then (if q = ids r then amount else 0)
          else if v = 1 then inputOf ids tx.inputs q - (if q = ids r then amount else 0) else 0 := by
      intro v
      simp only [Flow.give, hf2 v, hf1]
      by_cases h0 : v = 0
      · subst h0; simp
      · by_cases h1 : v = 1
        · subst h1; simp
        · simp [h0, h1]
    refine ⟨?_, Or.inl ⟨houts, ?_, ?_⟩⟩
    · rw [hs.2]
      have hun : ((flow ([true, false] ++ extra) none q [⟨ids r, amount, 0⟩] (Flow.start (inputOf ids tx.inputs q))).give 1
          (flow ([true, false] ++ extra) none q [⟨ids r, amount, 0⟩] (Flow.start (inputOf ids tx.inputs q))).un).un = 0 := by
        simp [Flow.give]
      rw [hun, Nat.zero_add]
      show sumOpReturnFrom _ 0 (true :: false :: extra) = _
      simp only [sumOpReturnFrom, if_true, Bool.false_eq_true, if_false, Nat.zero_add]
      rw [hg' 0, if_pos rfl]
      have : sumOpReturnFrom ((flow ([true, false] ++ extra) none q [⟨ids r, amount, 0⟩] (Flow.start (inputOf ids tx.inputs q))).give 1
          (flow ([true, false] ++ extra) none q [⟨ids r, amount, 0⟩] (Flow.start (inputOf ids tx.inputs q))).un).out (0 + 1 + 1) extra = 0 := by
        apply sumOpReturnFrom_zero
        intro j _
        rw [hg']
        have h0 : ¬ (0 + 1 + 1 + j = 0) := by omega
        have h1 : ¬ (0 + 1 + 1 + j = 1) := by omega
        simp [h0, h1]
      rw [this]; omega
    · rw [hs.1]
      have : opReturnAt ([true, false] ++ extra) 1 = false := rfl
      simp only [this, Bool.false_eq_true, if_false]
      rw [hg' 1]; simp
    · intro v hv
      rw [hs.1]
      by_cases hop : opReturnAt ([true, false] ++ extra) v = true
      · show (if opReturnAt ([true, false] ++ extra) v = true then 0 else _) = _
        rw [if_pos hop]
      · show (if opReturnAt ([true, false] ++ extra) v = true then 0 else _) = _
        rw [if_neg hop]
        rw [hg' v]
        by_cases h0 : v = 0
        · subst h0; exact absurd rfl hop
        · simp [h0, hv]
  | false =>
    obtain ⟨hst, hed, houts⟩ := (hnch hn).2 rfl
    have hop : tx.opret = [true] := by simp [Tx.opret, houts]
    have hmsg : tx.msg = .runestone [⟨ids r, amount, 0⟩] none := by simp [Tx.msg, hst, hed]
    rw [hop, hmsg, allocate_runestone]
    simp only [Bool.or_eq_false_iff, decide_eq_false_iff_not] at hn
    have htot : total tx.inputs r = amount := by omega
    have hu0 : inputOf ids tx.inputs q = (if q = ids r then amount else 0) := by
      by_cases hq : q = ids r
      · subst hq; rw [if_pos rfl, inputOf_ids hg, htot]
      · rw [if_neg hq]
        exact inputOf_other_zero hg tx.inputs r q (by omega) (by omega) hq
    obtain ⟨hf1, hf2⟩ := hflow ([true] ++ extra) (by simp)
    have hun0 : (flow ([true] ++ extra) none q [⟨ids r, amount, 0⟩] (Flow.start (inputOf ids tx.inputs q))).un = 0 := by
      rw [hf1, hu0]; omega
    -- whatever the default output is, it receives nothing
    have hsettle : (settle ([true] ++ extra) none
          (flow ([true] ++ extra) none q [⟨ids r, amount, 0⟩] (Flow.start (inputOf ids tx.inputs q)))).burned
          = (if q = ids r then amount else 0) ∧
        ∀ v, (settle ([true] ++ extra) none
          (flow ([true] ++ extra) none q [⟨ids r, amount, 0⟩] (Flow.start (inputOf ids tx.inputs q)))).out v = 0 := by
      cases hd : (eligible ([true] ++ extra)).head? with
      | none =>
        have hs := settle_nodefault _ (flow ([true] ++ extra) none q [⟨ids r, amount, 0⟩] (Flow.start (inputOf ids tx.inputs q))) hd
        refine ⟨?_, fun v => ?_⟩
        · rw [hs.2, hun0, Nat.zero_add]
          show sumOpReturnFrom _ 0 (true :: extra) = _
          simp only [sumOpReturnFrom, if_true]
          rw [hf2 0, if_pos rfl]
          have : sumOpReturnFrom (flow ([true] ++ extra) none q [⟨ids r, amount, 0⟩] (Flow.start (inputOf ids tx.inputs q))).out (0 + 1) extra = 0 := by
            apply sumOpReturnFrom_zero
            intro j _
            rw [hf2]
            have h0 : ¬ (0 + 1 + j = 0) := by omega
            simp [h0]
          rw [this]; omega
        · rw [hs.1]
          by_cases hop : opReturnAt ([true] ++ extra) v = true
          · show (if opReturnAt ([true] ++ extra) v = true then 0 else _) = _
            rw [if_pos hop]
          · show (if opReturnAt ([true] ++ extra) v = true then 0 else _) = _
            rw [if_neg hop]
            rw [hf2 v]
            by_cases h0 : v = 0
            · subst h0; exact absurd rfl hop
            · simp [h0]
      | some c =>
        have hs := settle_default _ (flow ([true] ++ extra) none q [⟨ids r, amount, 0⟩] (Flow.start (inputOf ids tx.inputs q))) c hd
        have hgv : ∀ v, ((flow ([true] ++ extra) none q [⟨ids r, amount, 0⟩] (Flow.start (inputOf ids tx.inputs q))).give c
            (flow ([true] ++ extra) none q [⟨ids r, amount, 0⟩] (Flow.start (inputOf ids tx.inputs q))).un).out v
            = if v = 0 then (if q = ids r then amount else 0) else 0 := by
          intro v
          simp only [Flow.give, hun0, Nat.add_zero, ite_self]
          exact hf2 v
        refine ⟨?_, fun v => ?_⟩
        · rw [hs.2]
          have : ((flow ([true] ++ extra) none q [⟨ids r, amount, 0⟩] (Flow.start (inputOf ids tx.inputs q))).give c
              (flow ([true] ++ extra) none q [⟨ids r, amount, 0⟩] (Flow.start (inputOf ids tx.inputs q))).un).un = 0 := by
            simp [Flow.give]
          rw [this, Nat.zero_add]
          show sumOpReturnFrom _ 0 (true :: extra) = _
          simp only [sumOpReturnFrom, if_true]
          rw [hgv 0, if_pos rfl]
          have : sumOpReturnFrom ((flow ([true] ++ extra) none q [⟨ids r, amount, 0⟩] (Flow.start (inputOf ids tx.inputs q))).give c
              (flow ([true] ++ extra) none q [⟨ids r, amount, 0⟩] (Flow.start (inputOf ids tx.inputs q))).un).out (0 + 1) extra = 0 := by
            apply sumOpReturnFrom_zero
            intro j _
            rw [hgv]
            have h0 : ¬ (0 + 1 + j = 0) := by omega
            simp [h0]
          rw [this]; omega
        · rw [hs.1]
          by_cases hop : opReturnAt ([true] ++ extra) v = true
          · show (if opReturnAt ([true] ++ extra) v = true then 0 else _) = _
            rw [if_pos hop]
          · show (if opReturnAt ([true] ++ extra) v = true then 0 else _) = _
            rw [if_neg hop]
            rw [hgv v]
            by_cases h0 : v = 0
            · subst h0; exact absurd rfl hop
            · simp [h0]
    exact ⟨hsettle.1, Or.inr ⟨houts, hu0, hsettle.2⟩⟩

end Ord.Wallet.RuneTx
