import OrdModel.Proofs.IndexRunemintInv
/-
Group `runemint`, helper lemmas 5: the invariant through a whole block (`indexRunesBlock`:
all transactions, then `flushBurned`).
-/
namespace Ord.Index.Runemint
open Ord.Index

/-- an entry with the burn counter blanked: what `flushBurned` cannot change -/
def strip (e : RuneEntry) : RuneEntry := { e with burned := 0 }

theorem go_inv (blk : Block) : ∀ (txs : List Tx) (t0 : Nat) (st : State) (bb : Balances) (evs : List Event)
    (st' : State) (bb' : Balances) (evs' : List Event),
    RInv st blk.height t0 → t0 + txs.length ≤ 4294967296 →
    indexRunesBlock.go blk (enumFrom t0 txs) st bb evs = .ok (st', bb', evs') →
    RInv st' blk.height (t0 + txs.length)
  | [], t0, st, bb, evs, st', bb', evs', h, _, hr => by
    simp only [enumFrom, indexRunesBlock.go, Outcome.ok.injEq, Prod.mk.injEq] at hr
    simpa [← hr.1] using h
  | tx :: rest, t0, st, bb, evs, st', bb', evs', h, hlen, hr => by
    simp only [enumFrom, indexRunesBlock.go] at hr
    cases htx : indexRunesTx st blk t0 tx bb with
    | panic s => simp [htx] at hr
    | err e => simp [htx] at hr
    | ok r =>
      obtain ⟨st1, bb1, evs1⟩ := r
      simp only [htx] at hr
      simp only [List.length_cons] at hlen
      have h1 := (tx_step h blk tx bb st1 bb1 evs1 rfl (by omega) htx).1
      have := go_inv blk rest (t0 + 1) st1 bb1 _ st' bb' evs' h1 (by omega) hr
      simpa [List.length_cons, Nat.add_assoc, Nat.add_comm 1] using this

theorem flushBurned_inv : ∀ (bb : Balances) (st st' : State) (H T : Nat),
    RInv st H T → flushBurned bb st = .ok st' →
    RInv st' H T ∧ st'.rune2id = st.rune2id ∧ st'.runes = st.runes ∧
      ∀ id, (AL.get st'.runeEntries id).map strip = (AL.get st.runeEntries id).map strip
  | [], st, st', H, T, h, hr => by
    simp only [flushBurned, Outcome.ok.injEq] at hr
    subst hr; exact ⟨h, rfl, rfl, fun _ => rfl⟩
  | (id, b) :: rest, st, st', H, T, h, hr => by
    simp only [flushBurned] at hr
    cases hg : AL.get st.runeEntries id with
    | none => simp [hg] at hr
    | some e =>
      simp only [hg] at hr
      split at hr
      · simp at hr
      · have h1 : RInv { st with runeEntries := AL.set st.runeEntries id { e with burned := e.burned + b } } H T :=
          RInv_update h id e _ hg rfl rfl rfl (h.cap id e hg)
        obtain ⟨h2, hr2, hn2, he2⟩ := flushBurned_inv rest _ st' H T h1 hr
        refine ⟨h2, hr2, hn2, ?_⟩
        intro id2
        rw [he2 id2]
        show (AL.get (AL.set st.runeEntries id _) id2).map strip = _
        rw [al_get_set]
        by_cases heq : id = id2
        · subst heq; simp [hg, strip]
        · simp [heq]

/-- **One block.**  `indexRunesBlock` keeps the invariant and moves it to the next block. -/
theorem block_inv {st : State} {H : Nat} (h : RInv st H 0) (blk : Block) (st' : State) (evs : List Event)
    (hH : blk.height = H) (hlen : blk.txs.length ≤ 4294967296)
    (hr : indexRunesBlock st blk = .ok (st', evs)) : RInv st' (H + 1) 0 := by
  subst hH
  unfold indexRunesBlock at hr
  cases hgo : indexRunesBlock.go blk (enumFrom 0 blk.txs) st [] [] with
  | panic s => simp [hgo] at hr
  | err e => simp [hgo] at hr
  | ok r =>
    obtain ⟨st1, bb, evs1⟩ := r
    simp only [hgo] at hr
    have h1 := go_inv blk blk.txs 0 st [] [] st1 bb evs1 h (by omega) hgo
    cases hf : flushBurned bb st1 with
    | panic s => simp [hf] at hr
    | err e => simp [hf] at hr
    | ok st2 =>
      simp only [hf, Outcome.ok.injEq, Prod.mk.injEq] at hr
      obtain ⟨rfl, _⟩ := hr
      exact RInv_next (flushBurned_inv bb st1 st2 _ _ h1 hf).1

end Ord.Index.Runemint
