import OrdModel.Proofs.IndexSatsPartition
import OrdModel.Proofs.IndexSatsTx
/-
Generic tools for the block-level invariant: `GoodR` (a list of ranges is well-formed, its
ordinals are distinct and below a bound), its closure under permutation / dropping /
ordinal-preserving replacement, and how `AL.get/set/erase` act on the ranges of a table.
-/
namespace Ord.Index

def GoodR (B : Nat) (rs : Ranges) : Prop := WF rs ∧ (den rs).Nodup ∧ ∀ s ∈ den rs, s < B

theorem WF_perm {a b : Ranges} (h : a.Perm b) (hw : WF a) : WF b :=
  fun r hr => hw r (h.mem_iff.mpr hr)

theorem GoodR.perm {B : Nat} {a b : Ranges} (h : a.Perm b) (g : GoodR B a) : GoodR B b := by
  obtain ⟨w, n, m⟩ := g
  have hp := den_perm h
  exact ⟨WF_perm h w, hp.nodup_iff.mp n, fun s hs => m s (hp.mem_iff.mpr hs)⟩

theorem GoodR.left {B : Nat} {a d : Ranges} (g : GoodR B (a ++ d)) : GoodR B a := by
  obtain ⟨w, n, m⟩ := g
  rw [den_append] at n m
  exact ⟨(WF_append.mp w).1, (List.nodup_append.mp n).1, fun s hs => m s (List.mem_append_left _ hs)⟩

/-- `a` is `b` minus some dropped ranges, up to order -/
theorem GoodR.sub {B : Nat} {a b d : Ranges} (h : (a ++ d).Perm b) (g : GoodR B b) : GoodR B a :=
  (g.perm h.symm).left

/-- replacing a sub-list of ranges by one denoting the same ordinals -/
theorem GoodR.replace {B : Nat} {a x y : Ranges} (hden : den y = den x) (hw : WF y)
    (g : GoodR B (a ++ x)) : GoodR B (a ++ y) := by
  obtain ⟨w, n, m⟩ := g
  rw [den_append] at n m
  refine ⟨WF_append.mpr ⟨(WF_append.mp w).1, hw⟩, ?_, ?_⟩ <;> rw [den_append, hden]
  · exact n
  · exact m

theorem GoodR.mono {B B' : Nat} {a : Ranges} (h : B ≤ B') (g : GoodR B a) : GoodR B' a :=
  ⟨g.1, g.2.1, fun s hs => Nat.lt_of_lt_of_le (g.2.2 s hs) h⟩

/-- a fresh range above the bound can be added -/
theorem GoodR.add_range {B : Nat} {a : Ranges} {e : Nat} (g : GoodR B a) (hbe : B < e) :
    GoodR e (a ++ [(B, e)]) := by
  obtain ⟨w, n, m⟩ := g
  refine ⟨WF_append.mpr ⟨w, WF_cons.mpr ⟨hbe, WF_nil⟩⟩, ?_, ?_⟩
  · rw [den_append]
    refine List.nodup_append.mpr ⟨n, by simp [List.nodup_range'], ?_⟩
    intro s hs t ht hst
    subst hst
    simp only [den_cons, den_nil, List.append_nil, List.mem_range'_1] at ht
    have := m s hs; omega
  · intro s hs
    rw [den_append] at hs
    rcases List.mem_append.mp hs with hs | hs
    · have := m s hs; omega
    · simp only [den_cons, den_nil, List.append_nil, List.mem_range'_1] at hs; omega

/-! ### tables -/

theorem allRanges_nil : allRanges [] = [] := rfl

theorem allRanges_cons (op : OutPoint) (e : UtxoEntry) (u : List (OutPoint × UtxoEntry)) :
    allRanges ((op, e) :: u) = e.ranges ++ allRanges u := by simp [allRanges]

theorem allRanges_append (u v : List (OutPoint × UtxoEntry)) :
    allRanges (u ++ v) = allRanges u ++ allRanges v := by simp [allRanges]

/-- what `AL.get = some` means structurally, and what `set` / `erase` then do -/
theorem AL_get_some_split {l : List (OutPoint × UtxoEntry)} {k : OutPoint} {old : UtxoEntry}
    (h : AL.get l k = some old) (v : UtxoEntry) :
    ∃ pre post k', l = pre ++ (k', old) :: post ∧ AL.set l k v = pre ++ (k, v) :: post ∧
      AL.erase l k = pre ++ post := by
  induction l with
  | nil => simp [AL.get] at h
  | cons p l ih =>
    obtain ⟨k1, v1⟩ := p
    simp only [AL.get] at h
    by_cases hk : (k1 == k) = true
    · simp only [hk, if_true, Option.some.injEq] at h
      subst h
      exact ⟨[], l, k1, by simp, by simp [AL.set, hk], by simp [AL.erase, hk]⟩
    · simp only [hk, if_false] at h
      obtain ⟨pre, post, k', h1, h2, h3⟩ := ih h
      refine ⟨(k1, v1) :: pre, post, k', by simp [h1], ?_, ?_⟩
      · simp only [AL.set, hk, if_false, h2]; simp
      · simp only [AL.erase, hk, if_false, h3]; simp

theorem AL_get_none_set {l : List (OutPoint × UtxoEntry)} {k : OutPoint}
    (h : AL.get l k = none) (v : UtxoEntry) : AL.set l k v = l ++ [(k, v)] := by
  induction l with
  | nil => simp [AL.set]
  | cons p l ih =>
    obtain ⟨k1, v1⟩ := p
    simp only [AL.get] at h
    by_cases hk : (k1 == k) = true
    · simp [hk] at h
    · simp only [hk, if_false] at h
      simp only [AL.set, hk, if_false, ih h]; simp

/-- erasing a present key moves exactly that entry's ranges out of the table -/
theorem allRanges_erase {l : List (OutPoint × UtxoEntry)} {k : OutPoint} {old : UtxoEntry}
    (h : AL.get l k = some old) : (allRanges (AL.erase l k) ++ old.ranges).Perm (allRanges l) := by
  obtain ⟨pre, post, k', h1, _, h3⟩ := AL_get_some_split h old
  rw [h3, h1]
  simp only [allRanges_append, allRanges_cons]
  rw [List.perm_iff_count]
  intro a
  simp only [List.count_append]
  omega

/-- setting a key adds the new ranges and drops the displaced ones (if any) -/
theorem allRanges_set (l : List (OutPoint × UtxoEntry)) (k : OutPoint) (v : UtxoEntry) :
    ∃ d, (allRanges (AL.set l k v) ++ d).Perm (allRanges l ++ v.ranges) := by
  cases h : AL.get l k with
  | none =>
    refine ⟨[], ?_⟩
    rw [AL_get_none_set h]
    simp [allRanges_append, allRanges_cons, allRanges_nil]
  | some old =>
    obtain ⟨pre, post, k', h1, h2, _⟩ := AL_get_some_split h v
    refine ⟨old.ranges, ?_⟩
    rw [h2, h1]
    simp only [allRanges_append, allRanges_cons]
    rw [List.perm_iff_count]
    intro a
    simp only [List.count_append]
    omega

/-- setting a present key to its old ranges followed by new ones (the `merged` of the special
outpoints) just adds the new ones -/
theorem allRanges_set_merged {l : List (OutPoint × UtxoEntry)} {k : OutPoint} {old v : UtxoEntry}
    (h : AL.get l k = some old) (add : Ranges) (hv : v.ranges = old.ranges ++ add) :
    (allRanges (AL.set l k v)).Perm (allRanges l ++ add) := by
  obtain ⟨pre, post, k', h1, h2, _⟩ := AL_get_some_split h v
  rw [h2, h1]
  simp only [allRanges_append, allRanges_cons, hv]
  rw [List.perm_iff_count]
  intro a
  simp only [List.count_append]
  omega

end Ord.Index
