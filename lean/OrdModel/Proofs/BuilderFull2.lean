import OrdModel.Proofs.BuilderFull
/-! `Good` is established by `align_outgoing` and preserved by `pad_alignment_output` and `add_value`. -/
namespace Ord.Builder
open Ord Ord.Outcome

/-- `alignOutgoing_shape` with the alignment condition made explicit -/
theorem alignOutgoing_shape' {env : Env} {w : Wallet} {r : Request} (wf : WF12 env w r)
    {s1 s2 : St} (h1 : selectOutgoing env w r (initial w r) = .ok s1) (h2 : alignOutgoing w r s1 = .ok s2) :
    ∃ amount, w.amounts.lookup r.outgoing.1 = some amount ∧ r.outgoing.2 < amount ∧
      s2.utxos = (w.amounts.map (·.1)).erase r.outgoing.1 ∧ s2.inputs = [r.outgoing.1] ∧
      ((r.outgoing.2 = 0 ∧ s2.outputs = [(r.recipient, amount)] ∧ s2.unused = [r.change1, r.change0]) ∨
       (s2.outputs = [(r.change1, r.outgoing.2), (r.recipient, amount - r.outgoing.2)] ∧
        s2.unused = [r.change0])) := by
  obtain ⟨c, amount, _, _, ha, hoff, rfl⟩ := selectOutgoing_ok h1
  have hlt := wf.values_u64 amount ha
  have h0 : r.outgoing.2 < U64 := by omega
  refine ⟨amount, ha, hoff, ?_⟩
  unfold alignOutgoing at h2
  simp only [initial, List.nil_append, bind_def, List.length_cons, List.length_nil, Nat.zero_add,
    beq_self_eq_true, assert, if_true, Outcome.bind, decide_true, calcSatOffset, u64Add, h0] at h2
  split at h2
  · rename_i hz
    simp only [Outcome.ok.injEq] at h2; subst h2; simp [hz]
  · have : r.outgoing.2 ≤ amount := by omega
    simp only [updLast, subW, this, if_true, Outcome.ok.injEq] at h2
    subst h2; simp

theorem good_after_align {env : Env} {w : Wallet} {r : Request} (wf : WF12 env w r)
    (hnd : (w.amounts.map (·.1)).Nodup)
    {s1 s2 : St} (h1 : selectOutgoing env w r (initial w r) = .ok s1) (h2 : alignOutgoing w r s1 = .ok s2) :
    Good w r s2 ∧ ∃ amount, w.amounts.lookup r.outgoing.1 = some amount ∧ r.outgoing.2 < amount := by
  obtain ⟨amount, ha, hoff, hu, hin, hshape⟩ := alignOutgoing_shape' wf h1 h2
  refine ⟨?_, amount, ha, hoff⟩
  have hmem := mem_keys_of_lookup _ _ _ ha
  have he := inSum_erase w _ _ hmem
  have hv : inVal w r.outgoing.1 = amount := inVal_of_lookup ha
  refine ⟨⟨?_, ?_, ?_, ?_, ?_, ?_⟩, ?_⟩
  · intro u hu'
    rw [hu] at hu'
    exact lookup_isSome_of_mem_keys _ _ (List.mem_of_mem_erase hu')
  · rw [hu]; exact List.Nodup.not_mem_erase hnd
  · intro u hu'
    rw [hin] at hu'
    simp only [List.mem_singleton] at hu'
    subst hu'; simp [ha]
  · rw [hin]; simp
  · rw [hu]
    unfold walletTotal
    rcases hshape with ⟨_, ho, _⟩ | ⟨ho, _⟩ <;> simp only [ho, outSum] <;> omega
  · rw [hin]
    rcases hshape with ⟨_, ho, _⟩ | ⟨ho, _⟩ <;> simp only [ho, outSum, inSum, hv] <;> omega
  · rcases hshape with ⟨hz, ho, hun⟩ | ⟨ho, hun⟩
    · exact ⟨[], amount, by simp [ho], by simp [hin, prefixBefore, outSum, hz], Or.inl ⟨rfl, hun⟩⟩
    · exact ⟨[(r.change1, r.outgoing.2)], amount - r.outgoing.2, by simp [ho],
        by simp [hin, prefixBefore, outSum], Or.inr ⟨_, rfl, hun⟩⟩

/-- one more cardinal input: facts about the selected utxo -/
theorem select_facts {w : Wallet} {r : Request} {st : St} (c : Core w r st) {t : Nat} {pu : Bool}
    {utxo size : Nat} {utxos' : List Nat} (hsel : selectCardinal w st.utxos t pu = .ok (utxo, size, utxos')) :
    utxos' = st.utxos.erase utxo ∧ utxo ∈ st.utxos ∧ utxo ≠ r.outgoing.1 ∧ inVal w utxo = size ∧
      (w.amounts.lookup utxo).isSome ∧ inSum w (st.utxos.erase utxo) + size = inSum w st.utxos := by
  obtain ⟨_, hlk, hmem, rfl⟩ := selectCardinal_ok hsel
  have hv := inVal_of_lookup hlk
  refine ⟨rfl, hmem, ?_, hv, by simp [hlk], ?_⟩
  · intro h; exact c.out_not_utxo (h ▸ hmem)
  · have := inSum_erase w st.utxos utxo hmem; omega

theorem padLoop_good (w : Wallet) (r : Request) (d : Nat) :
    ∀ (fuel : Nat) (st st' : St) (P R : Nat), padLoop w d fuel st = .ok st' → Core w r st →
      st.outputs = [(r.change1, P), (r.recipient, R)] → st.unused = [r.change0] →
      P = prefixBefore w r.outgoing.1 st.inputs + r.outgoing.2 → Good w r st' := by
  intro fuel
  induction fuel with
  | zero => intro st st' P R h; simp [padLoop] at h
  | succ n ih =>
    intro st st' P R h c ho hun hP
    unfold padLoop at h
    rw [ho] at h
    simp only at h
    split at h
    · split at h
      · simp at h
      · simp at h
      · rename_i utxo size utxos' hsel
        obtain ⟨rfl, hmem, hne, hv, hsome, hsum⟩ := select_facts c hsel
        split at h
        · simp at h
        · simp at h
        · rename_i v hadd
          simp only [amountAdd_eq_ok] at hadd
          obtain ⟨_, rfl⟩ := hadd
          have hb := c.budget
          have hc := c.conserve
          rw [ho] at hb hc
          simp only [outSum] at hb hc
          have hbeq : (utxo == r.outgoing.1) = false := by simp [hne]
          refine ih _ _ (P + size) R h ⟨?_, ?_, ?_, ?_, ?_, ?_⟩ rfl hun ?_
          · intro u hu; exact c.utxos_keys u (List.mem_of_mem_erase hu)
          · intro hu; exact c.out_not_utxo (List.mem_of_mem_erase hu)
          · intro u hu
            rcases List.mem_cons.1 hu with rfl | hu
            · exact hsome
            · exact c.inputs_keys u hu
          · show ((utxo :: st.inputs).filter (fun i => i == r.outgoing.1)).length = 1
            simp only [List.filter_cons, hbeq, Bool.false_eq_true, if_false]; exact c.out_once
          · show outSum [(r.change1, P + size), (r.recipient, R)] + inSum w (st.utxos.erase utxo) ≤ walletTotal w
            simp only [outSum]; omega
          · show inSum w (utxo :: st.inputs) = outSum [(r.change1, P + size), (r.recipient, R)]
            simp only [inSum, outSum, hv]; omega
          · show P + size = prefixBefore w r.outgoing.1 (utxo :: st.inputs) + r.outgoing.2
            simp only [prefixBefore, hne, if_false, hv]; omega
    · simp only [Outcome.ok.injEq] at h; subst h
      exact ⟨c, [(r.change1, P)], R, by simp [ho], by simp [outSum, hP], Or.inr ⟨P, rfl, hun⟩⟩

theorem padAlignmentOutput_good {env : Env} {w : Wallet} {r : Request} {s2 s3 : St}
    (hrc : r.recipient ≠ r.change1)
    (h3 : padAlignmentOutput env w r s2 = .ok s3) (g : Good w r s2) : Good w r s3 := by
  obtain ⟨pre, R, ho, hpre, hshape⟩ := g.shape
  unfold padAlignmentOutput at h3
  rcases hshape with ⟨rfl, hun⟩ | ⟨P, rfl, hun⟩
  · simp only [ho, List.nil_append, if_true, Outcome.ok.injEq] at h3
    subst h3; exact g
  · simp only [ho, List.cons_append, List.nil_append, hun, List.head?_cons] at h3
    rw [if_neg (fun h => hrc h.symm)] at h3
    exact padLoop_good w r _ _ _ _ P R h3 g.core (by simp [ho]) hun (by simpa [outSum] using hpre)

theorem addLoop_good (env : Env) (w : Wallet) (r : Request) :
    ∀ (fuel deficit : Nat) (st st' : St), addLoop env w fuel deficit st = .ok st' →
      Good w r st → Good w r st' := by
  intro fuel
  induction fuel with
  | zero => intro d st st' h; simp [addLoop] at h
  | succ n ih =>
    intro d st st' h g
    unfold addLoop at h
    split at h
    · simp only at h
      split at h
      · split at h
        · simp at h
        · simp at h
        · rename_i utxo value utxos' hsel
          obtain ⟨rfl, hmem, hne, hv, hsome, hsum⟩ := select_facts g.core hsel
          split at h
          · simp at h
          · obtain ⟨pre, R, ho, hpre, hshape⟩ := g.shape
            split at h
            · simp at h
            · simp at h
            · rename_i outs hupd
              have hb := g.core.budget
              have hc := g.core.conserve
              rw [ho, outSum_append] at hb hc
              simp only [outSum] at hb hc
              rw [ho, updLast_snoc_all] at hupd
              simp only [amountAdd] at hupd
              split at hupd
              · simp only [Outcome.bind, Outcome.ok.injEq] at hupd
                subst hupd
                have hin := mem_of_filter_one g.core.out_once
                have hbeq : (utxo == r.outgoing.1) = false := by simp [hne]
                refine ih _ _ _ h ⟨⟨?_, ?_, ?_, ?_, ?_, ?_⟩, pre, R + value, rfl, ?_, hshape⟩
                · intro u hu; exact g.core.utxos_keys u (List.mem_of_mem_erase hu)
                · intro hu; exact g.core.out_not_utxo (List.mem_of_mem_erase hu)
                · intro u hu
                  rcases List.mem_append.1 hu with hu | hu
                  · exact g.core.inputs_keys u hu
                  · simp only [List.mem_singleton] at hu; subst hu; exact hsome
                · show ((st.inputs ++ [utxo]).filter (fun i => i == r.outgoing.1)).length = 1
                  simp only [List.filter_append, List.filter_cons, hbeq, Bool.false_eq_true, if_false,
                    List.filter_nil, List.append_nil]
                  exact g.core.out_once
                · show outSum (pre ++ [(r.recipient, R + value)]) + inSum w (st.utxos.erase utxo) ≤ walletTotal w
                  rw [outSum_append]; simp only [outSum]; omega
                · show inSum w (st.inputs ++ [utxo]) = outSum (pre ++ [(r.recipient, R + value)])
                  rw [inSum_append, outSum_append]; simp only [inSum, outSum, hv]; omega
                · show outSum pre = prefixBefore w r.outgoing.1 (st.inputs ++ [utxo]) + r.outgoing.2
                  rw [prefixBefore_append_of_mem w _ _ _ hin]; exact hpre
              · simp [Outcome.bind] at hupd
      · simp at h
    · simp only [Outcome.ok.injEq] at h; subst h; exact g

end Ord.Builder

namespace Ord.Builder
open Ord Ord.Outcome

theorem addValue_good {env : Env} {w : Wallet} {r : Request} {st st' : St}
    (h : addValue env w r st = .ok st') (g : Good w r st) : Good w r st' := by
  unfold addValue at h
  simp only [bind_def] at h
  obtain ⟨last, _, h⟩ := bind_eq_ok.1 h
  split at h
  · split at h
    · exact addLoop_good env w r _ _ _ _ h g
    · simp only [Outcome.ok.injEq] at h; subst h; exact g
  · simp at h

/-- `precheck` accepted: the recipient differs from both change scripts (needs: a change address
is never an `OP_RETURN` script) and the change scripts differ -/
theorem precheck_distinct {env : Env} {r : Request} (h : precheck env r = .ok ())
    (hc0 : r.change0.opReturn = false) (hc1 : r.change1.opReturn = false) :
    r.change0 ≠ r.change1 ∧ r.recipient ≠ r.change0 ∧ r.recipient ≠ r.change1 := by
  unfold precheck at h
  split at h
  · simp at h
  · rename_i hne
    refine ⟨hne, ?_⟩
    split at h
    · rename_i hop
      constructor <;> intro he <;> simp [he, hc0, hc1] at hop
    · split at h
      · simp at h
      · split at h
        · simp at h
        · rename_i hn; exact ⟨fun he => hn (Or.inl he), fun he => hn (Or.inr he)⟩

/-- the state after the first four stages -/
theorem good_after_stage4 {env : Env} {w : Wallet} {r : Request} (wf : WF12 env w r)
    (hnd : (w.amounts.map (·.1)).Nodup) (hrc : r.recipient ≠ r.change1)
    {s1 s2 s3 s4 : St} (h1 : selectOutgoing env w r (initial w r) = .ok s1)
    (h2 : alignOutgoing w r s1 = .ok s2) (h3 : padAlignmentOutput env w r s2 = .ok s3)
    (h4 : addValue env w r s3 = .ok s4) :
    Good w r s4 ∧ ∃ amount, w.amounts.lookup r.outgoing.1 = some amount ∧ r.outgoing.2 < amount := by
  obtain ⟨g2, ham⟩ := good_after_align wf hnd h1 h2
  exact ⟨addValue_good h4 (padAlignmentOutput_good hrc h3 g2), ham⟩

end Ord.Builder
