/-
Helper lemmas for C19, part 2: what each handler can answer.
-/
import OrdModel.Proofs.ContentLayers

namespace Ord.Server.Content
open Ord.Server.Csp

/-- `r` is a content answer built from the body of inscription `x` (whose record is `i`) -/
structure BuiltFrom (cfg : Config) (view : View) (req : Request) (x : Id) (i : Ins) (cache : Bool)
    (r : Response) : Prop where
  served : r.served = some x
  status : r.status = 200
  ct : r.contentType = i.ctHeader
  cc : r.cacheControl = some (if cache then .immutable else .noStore)
  csp : contentCsp cfg.origin = some r.csp
  enc : ∃ b, i.body = some b ∧
    match i.ceHeader with
    | none => r.contentEncoding = none ∧ r.body = .raw b
    | some e =>
      if acceptable (aeString req.acceptEncoding) e then r.contentEncoding = some e ∧ r.body = .raw b
      else cfg.decompress = true ∧ e = brotliName ∧ r.contentEncoding = none ∧
        ∃ d, view.brotli b = some d ∧ r.body = .raw d

/-- `r` carries no inscription bytes; a 406 is justified by the encoding table for `cands` -/
structure NoContent (cfg : Config) (req : Request) (cands : List Ins) (r : Response) : Prop where
  served : r.served = none
  noRaw : ∀ bs, r.body ≠ .raw bs
  notOk : r.status = 200 → r.body = .tmpl "unknown" none ∨ ∃ k id, r.body = .tmpl k (some id)
  refusal : r.status = 406 → ∃ i ∈ cands, ∃ e, i.ceHeader = some e ∧
    acceptable (aeString req.acceptEncoding) e = false ∧ ¬ (cfg.decompress = true ∧ e = brotliName)
  notImmutable : r.cacheControl ≠ some .immutable

theorem noContent_mono {cfg req c1 c2 r} (h : NoContent cfg req c1 r) (hs : ∀ i ∈ c1, i ∈ c2) :
    NoContent cfg req c2 r :=
  { served := h.served, noRaw := h.noRaw, notOk := h.notOk, notImmutable := h.notImmutable,
    refusal := fun h6 => by
      obtain ⟨i, hi, e, he⟩ := h.refusal h6
      exact ⟨i, hs i hi, e, he⟩ }

theorem noContent_notFound (cfg req c m) : NoContent cfg req c (notFound m) := by
  constructor <;> simp [notFound]

theorem noContent_internal (cfg req c) : NoContent cfg req c internalError := by
  constructor <;> simp [internalError]

theorem noContent_bad (cfg req c) : NoContent cfg req c badRequest := by
  constructor <;> simp [badRequest]

theorem noContent_unknown (cfg req c) : NoContent cfg req c previewUnknownBare := by
  constructor <;> simp [previewUnknownBare]

/-- `content_response` -/
theorem contentResponse_spec (cfg : Config) (view : View) (x : Id) (i : Ins) (req : Request) (cache : Bool) :
    let r := orContentNotFound y (contentResponse cfg view x i req cache)
    NoContent cfg req [i] r ∨ BuiltFrom cfg view req x i cache r := by
  intro r
  simp only [r, contentResponse]
  split
  · left; exact noContent_internal ..
  · rename_i csp hcsp
    split
    · rename_i e he
      split
      · -- acceptable
        rename_i hacc
        split
        · left; exact noContent_notFound ..
        · rename_i b hb
          right
          simp only [orContentNotFound]
          refine ⟨rfl, rfl, rfl, rfl, by simpa using hcsp, b, hb, ?_⟩
          simp [he, hacc]
      · rename_i hacc
        split
        · rename_i hdec
          split
          · left; exact noContent_notFound ..
          · rename_i b hb
            split
            · left; exact noContent_internal ..
            · rename_i d hd
              right
              simp only [Bool.and_eq_true, beq_iff_eq] at hdec
              obtain ⟨hd1, hd2⟩ := hdec
              subst hd2
              simp only [orContentNotFound]
              refine ⟨rfl, rfl, rfl, rfl, by simpa using hcsp, b, hb, ?_⟩
              simp [he, hacc, hd1, hd]
        · rename_i hdec
          left
          refine ⟨by simp [orContentNotFound, notAcceptable], by simp [orContentNotFound, notAcceptable],
            by simp [orContentNotFound, notAcceptable], ?_, by simp [orContentNotFound, notAcceptable]⟩
          intro _
          refine ⟨i, by simp, e, he, by simpa using hacc, ?_⟩
          simpa [Bool.and_eq_true, beq_iff_eq] using hdec
    · rename_i he
      split
      · left; exact noContent_notFound ..
      · rename_i b hb
        right
        simp only [orContentNotFound]
        refine ⟨rfl, rfl, rfl, rfl, by simpa using hcsp, b, hb, ?_⟩
        simp [he]

/-- which inscription a delegate-following handler may serve for the requested `id` -/
def Source (cfg : Config) (view : View) (fixed : Bool) (id x : Id) (i : Ins) : Prop :=
  ¬ cfg.hidden.contains id = true ∧ view.ins x = some i ∧
  ∃ ri, view.ins id = some ri ∧
    ((ri.delegate = none ∧ x = id) ∨ (ri.delegate = some x ∧ (fixed = true → ¬ cfg.hidden.contains x = true)))

/-- `content_inner` -/
theorem contentInner_spec (cfg : Config) (view : View) (id : Id) (req : Request) (cache : Bool) :
    let r := contentInner cfg view id req cache
    NoContent cfg req (candidates view true id) r ∨
      ∃ x i, Source cfg view cfg.fixes.contentInner id x i ∧ BuiltFrom cfg view req x i cache r := by
  intro r
  simp only [r, contentInner]
  split
  · left; exact noContent_unknown ..
  · rename_i hh
    split
    · left; exact noContent_notFound ..
    · rename_i ri hri
      split
      · rename_i d hd
        split
        · left; exact noContent_unknown ..
        · rename_i hfix
          split
          · left; exact noContent_notFound ..
          · rename_i di hdi
            rcases contentResponse_spec (y := id) cfg view d di req cache with h | h
            · left; exact noContent_mono h (by simp [candidates, hri, hd, hdi])
            · right
              refine ⟨d, di, ⟨hh, hdi, ri, hri, Or.inr ⟨hd, ?_⟩⟩, h⟩
              intro hf
              simpa [hf] using hfix
      · rename_i hd
        rcases contentResponse_spec (y := id) cfg view id ri req cache with h | h
        · left; exact noContent_mono h (by simp [candidates, hri, hd])
        · right
          exact ⟨id, ri, ⟨hh, hri, ri, hri, Or.inl ⟨hd, rfl⟩⟩, h⟩

/-- `undelegated_content` -/
theorem undelegated_spec (cfg : Config) (view : View) (id : Id) (req : Request) :
    let r := undelegated cfg view id req
    NoContent cfg req (candidates view false id) r ∨
      ∃ i, ¬ cfg.hidden.contains id = true ∧ view.ins id = some i ∧ BuiltFrom cfg view req id i true r := by
  intro r
  simp only [r, undelegated]
  split
  · left; exact noContent_unknown ..
  · rename_i hh
    split
    · left; exact noContent_notFound ..
    · rename_i ri hri
      rcases contentResponse_spec (y := id) cfg view id ri req true with h | h
      · left; exact noContent_mono h (by simp [candidates, hri])
      · right; exact ⟨ri, hh, hri, h⟩

theorem noContent_previewPage (cfg req c id m) : NoContent cfg req c (previewPage cfg id m) := by
  simp only [previewPage]
  split
  · exact noContent_internal ..
  · constructor <;> simp
    · cases m <;> simp
    · cases m <;> simp

/-- `Server::preview` -/
theorem preview_spec (cfg : Config) (view : View) (id : Id) (req : Request) :
    let r := preview cfg view id req
    NoContent cfg req (candidates view true id) r ∨
      ∃ x i, Source cfg view cfg.fixes.preview id x i ∧ i.media = .iframe ∧ BuiltFrom cfg view req x i true r := by
  intro r
  simp only [r, preview]
  split
  · left; exact noContent_unknown ..
  · rename_i hh
    split
    · left; exact noContent_notFound ..
    · rename_i ri hri
      split
      · rename_i d hd
        split
        · left; exact noContent_unknown ..
        · rename_i hfix
          split
          · left; exact noContent_notFound ..
          · rename_i di hdi
            split
            · rename_i hm
              rcases contentResponse_spec (y := id) cfg view d di req true with h | h
              · left; exact noContent_mono h (by simp [candidates, hri, hd, hdi])
              · right
                refine ⟨d, di, ⟨hh, hdi, ri, hri, Or.inr ⟨hd, ?_⟩⟩, hm, h⟩
                intro hf
                simpa [hf] using hfix
            · left; exact noContent_previewPage ..
      · rename_i hd
        split
        · rename_i hm
          rcases contentResponse_spec (y := id) cfg view id ri req true with h | h
          · left; exact noContent_mono h (by simp [candidates, hri, hd])
          · right; exact ⟨id, ri, ⟨hh, hri, ri, hri, Or.inl ⟨hd, rfl⟩⟩, hm, h⟩
        · left; exact noContent_previewPage ..

end Ord.Server.Content
