import OrdModel.Proofs.IndexLiftInsChain
import OrdModel.Proofs.IndexInsnumLists
import OrdModel.Proofs.IndexInsnumJubilee
/-
Lift of the inscription-side invariants, part 7 (C05): the numbering invariant `Inv5` and the
jubilee discipline through one run of `index_inscriptions`.  Needs the freshness of the ids
`(txid, k)` handed out by the input scan: they are `(txid, 0), (txid, 1), …`, so they are new as
long as no entry and no saved flotsam carries an id of the same txid.
-/
namespace Ord.Index.InsLift
open Ord Ord.Index Outcome Sched Insloc Insnum

/-! ### `newIds` -/

theorem newIds_append (a b : List Flotsam) : newIds (a ++ b) = newIds a ++ newIds b := by
  simp [newIds, List.filter_append]

theorem newIds_perm {a b : List Flotsam} (h : a.Perm b) : (newIds a).Perm (newIds b) :=
  (h.filter _).map _

theorem newIds_map (g : Flotsam → Flotsam) (hid : ∀ f, (g f).id = f.id) (hnew : ∀ f, isNew (g f) = isNew f)
    (l : List Flotsam) : newIds (l.map g) = newIds l := by
  induction l with
  | nil => rfl
  | cons f rest ih => rw [List.map_cons, newIds_cons, newIds_cons, ih, hid, hnew]

theorem newIds_of_newCount_zero (l : List Flotsam) (h : newCount l = 0) : newIds l = [] := by
  unfold newCount at h
  unfold newIds
  rw [List.length_eq_zero_iff.1 h]; rfl

theorem newIds_length (l : List Flotsam) : (newIds l).length = newCount l := by
  simp [newIds, newCount]

theorem mem_newIds {l : List Flotsam} {id : InscriptionId} (h : id ∈ newIds l) : ∃ f ∈ l, isNew f = true ∧ f.id = id := by
  unfold newIds at h
  obtain ⟨f, hf, rfl⟩ := List.mem_map.1 h
  rw [List.mem_filter] at hf
  exact ⟨f, hf.1, hf.2, rfl⟩

/-- ids `(txid, k0), …, (txid, k0 + n - 1)` -/
def idRange (txid : Txid) (k0 n : Nat) : List InscriptionId := (List.range' k0 n).map (fun k => (⟨txid, k⟩ : InscriptionId))

theorem idRange_append (txid : Txid) (k0 m n : Nat) :
    idRange txid k0 m ++ idRange txid (k0 + m) n = idRange txid k0 (m + n) := by
  simp [idRange, ← List.map_append, List.range'_append_1]

theorem idRange_nodup (txid : Txid) (k0 n : Nat) : (idRange txid k0 n).Nodup := by
  unfold idRange
  have h : (List.range' k0 n).Nodup := List.nodup_range'
  exact List.Pairwise.map _ (fun a b hab heq => hab (by simpa using heq)) h

theorem idRange_txid {txid : Txid} {k0 n : Nat} {id : InscriptionId} (h : id ∈ idRange txid k0 n) : id.txid = txid := by
  unfold idRange at h
  obtain ⟨k, _, rfl⟩ := List.mem_map.1 h
  rfl

/-! ### the ids handed out by the input scan -/

theorem scanNew_newIds (st : State) (jub : Bool) (txid : Txid) (i off iv totalOut : Nat)
    (envs : List Envelope) (sc sc' : ScanState)
    (h : scanNew st jub txid i off iv totalOut envs sc = .ok sc') :
    ∃ F, sc'.floating = sc.floating ++ F ∧ newIds F = idRange txid sc.idCounter (newCount F) ∧
      sc'.idCounter = sc.idCounter + newCount F := by
  induction envs generalizing sc with
  | nil => simp [scanNew] at h; subst h; exact ⟨[], by simp [newIds, idRange]⟩
  | cons env rest ih =>
    simp only [scanNew] at h
    split at h
    · simp only [ok.injEq] at h; subst h; exact ⟨[], by simp [newIds, idRange]⟩
    · split at h
      · simp at h
      · simp at h
      · next curse hc =>
        obtain ⟨F, h1, h2, h3⟩ := ih _ h
        simp only at h1 h2 h3
        let off' : Nat := match env.pointer with
          | some p => if p < totalOut then p else off
          | none => off
        let x : Flotsam := ⟨⟨txid, sc.idCounter⟩, off',
          .new (curse.isSome && !jub) 0 env.gallery env.hidden env.parents (AL.contains sc.inscribed off')
            (iv == 0 || curse == some .unrecognizedEvenField || env.unrecognizedEven) (curse.isSome && jub)⟩
        have hx : isNew x = true := rfl
        have h1' : sc'.floating = sc.floating ++ (x :: F) := by
          rw [h1]; simp only [List.append_assoc]; rfl
        have hc' : newCount (x :: F) = newCount F + 1 := (oldSeqs_cons_new _ _ hx).2
        refine ⟨x :: F, h1', ?_, by rw [h3, hc']; omega⟩
        rw [newIds_cons, hx, if_pos rfl, h2, hc']
        show [(⟨txid, sc.idCounter⟩ : InscriptionId)] ++ _ = _
        have := idRange_append txid sc.idCounter 1 (newCount F)
        rw [show 1 + newCount F = newCount F + 1 by omega] at this
        rw [← this]
        rfl

theorem scanInputs_newIds (cfg : Cfg) (st : State) (jub : Bool) (txid : Txid) (height totalOut : Nat)
    (inputs : List (TxIn × UtxoEntry)) (i : Nat) (sc sc' : ScanState)
    (h : scanInputs cfg st jub txid height totalOut inputs i sc = .ok sc') :
    ∃ F, sc'.floating = sc.floating ++ F ∧ newIds F = idRange txid sc.idCounter (newCount F) ∧
      sc'.idCounter = sc.idCounter + newCount F := by
  induction inputs generalizing i sc with
  | nil => simp [scanInputs] at h; subst h; exact ⟨[], by simp [newIds, idRange]⟩
  | cons p rest ih =>
    obtain ⟨txin, entry⟩ := p
    simp only [scanInputs] at h
    split at h
    · obtain ⟨F, h1, h2, h3⟩ := ih _ _ h
      exact ⟨F, h1, h2, h3⟩
    · split at h
      · simp at h
      · simp at h
      · next sc1 hs1 =>
        split at h
        · simp at h
        · simp at h
        · next sc3 hs3 =>
          obtain ⟨F1, a1, _, a3, _, a5, _, _⟩ := scanOld_spec _ _ _ _ _ _ hs1
          obtain ⟨F2, b1, b2, b3⟩ := scanNew_newIds _ _ _ _ _ _ _ _ _ _ hs3
          obtain ⟨F3, c1, c2, c3⟩ := ih _ _ h
          simp only at b1 b2 b3
          refine ⟨F1 ++ (F2 ++ F3), by rw [c1, b1, a1]; simp, ?_, ?_⟩
          · rw [newIds_append, newIds_append, newIds_of_newCount_zero F1 a3, List.nil_append, b2, c2, b3, a5,
              newCount_append, newCount_append, a3, Nat.zero_add]
            exact idRange_append _ _ _ _
          · rw [c3, b3, a5, newCount_append, newCount_append, a3]; omega

theorem txFloating_newIds (tx : Tx) (sc : ScanState) : newIds (txFloating tx sc) = newIds sc.floating := by
  unfold txFloating
  apply newIds_map
  · intro f; cases ho : f.origin <;> simp [ho]
  · intro f; cases ho : f.origin <;> simp [isNew, ho]

/-! ### the jubilee discipline on the entry table -/

/-- every negatively numbered (cursed) entry was created below the jubilee height -/
def JInv (jubH : Nat) (es : List InsEntry) : Prop := ∀ e ∈ es, e.number < 0 → e.height < jubH

/-- the flotsam of a block at `height` respect the jubilee -/
def FlJ (jubH height : Nat) (l : List Flotsam) : Prop := ∀ f ∈ l, cursedFlag f = true → height < jubH

theorem uloc_jinv {cfg : Cfg} {height time : Nat} {ir : Option (List (Nat × Nat))} {fl : Flotsam} {sp : SatPoint}
    {opr : Bool} {tgt : Target} {ls ls' : LocState} (jubH : Nat)
    (h : updateInscriptionLocation cfg height time ir fl sp opr tgt ls = .ok ls')
    (hinv : JInv jubH ls.st.entries) (hfl : cursedFlag fl = true → height < jubH) :
    JInv jubH ls'.st.entries := by
  rw [uloc_unfold] at h
  obtain ⟨ub, seq, st, ctx, hstep⟩ := finish_ok h
  rw [hstep] at h
  obtain ⟨htabs, _⟩ := finish_inv h
  have hent : ls'.st.entries = st.entries := congrArg Tabs.entries htabs
  rw [hent]
  cases hfo : fl.origin with
  | old oseq oldSp =>
    rw [hfo] at hstep
    simp only at hstep
    obtain ⟨_, hcase⟩ := oldStep_inv hstep
    rcases hcase with ht | ⟨entry, he, ht⟩
    · rw [show st.entries = ls.st.entries from congrArg Tabs.entries ht]; exact hinv
    · rw [show st.entries = _ from congrArg Tabs.entries ht]
      intro e hm hneg
      rcases List.mem_or_eq_of_mem_set hm with hm | rfl
      · exact hinv e hm hneg
      · exact hinv entry (List.mem_of_getElem? he) hneg
  | new c fee g hid ps r u v =>
    rw [hfo] at hstep
    simp only at hstep
    obtain ⟨sat, st3, pids, pseqs, _, _, hlink, _, _, _, ht⟩ := newStep_inv hstep
    have ht3 := linkParents_tabs hlink
    rw [allocState_tabs] at ht3
    have hE : st.entries = ls.st.entries ++ [⟨newCharms c r sat opr sp.outpoint.isNull u v, fee, height, hid, fl.id,
        numberOf ls.st c, pseqs, sat, ls.st.entries.length, time⟩] := by
      have h1 := congrArg Tabs.entries ht; have h3 := congrArg Tabs.entries ht3
      simp only [tabs] at h1 h3; rw [h1, h3]
    rw [hE]
    intro e hm hneg
    rcases List.mem_append.1 hm with hm | hm
    · exact hinv e hm hneg
    · simp only [List.mem_singleton] at hm
      subst hm
      simp only at hneg ⊢
      have hc : c = true := by
        cases c with
        | true => rfl
        | false => simp [numberOf] at hneg; omega
      exact hfl (by simp [cursedFlag, hfo, hc])

theorem applyLocations_jinv (cfg : Cfg) (height time : Nat) (ir : Option (List (Nat × Nat))) (jubH : Nat)
    (locs : List (SatPoint × Flotsam × Bool)) (ls ls' : LocState)
    (h : applyLocations cfg height time ir locs ls = .ok ls') (hinv : JInv jubH ls.st.entries)
    (hfl : FlJ jubH height (locs.map (·.2.1))) : JInv jubH ls'.st.entries := by
  induction locs generalizing ls with
  | nil => simp [applyLocations] at h; subst h; exact hinv
  | cons x rest ih =>
    obtain ⟨sp, fl, opr⟩ := x
    simp only [applyLocations] at h
    split at h
    · simp at h
    · simp at h
    · next ls1 h1 =>
      exact ih ls1 h (uloc_jinv jubH h1 hinv (hfl fl (by simp))) (fun f hf => hfl f (by simp [hf]))

theorem applyLost_jinv (cfg : Cfg) (height time : Nat) (ir : Option (List (Nat × Nat))) (ov : Nat) (jubH : Nat)
    (fls : List Flotsam) (ls ls' : LocState)
    (h : applyLost cfg height time ir ov fls ls = .ok ls') (hinv : JInv jubH ls.st.entries)
    (hfl : FlJ jubH height fls) : JInv jubH ls'.st.entries := by
  induction fls generalizing ls with
  | nil => simp [applyLost] at h; subst h; exact hinv
  | cons fl rest ih =>
    simp only [applyLost] at h
    split at h
    · simp at h
    · simp at h
    · next ls1 h1 =>
      exact ih ls1 h (uloc_jinv jubH h1 hinv (hfl fl List.mem_cons_self)) (fun f hf => hfl f (List.mem_cons_of_mem _ hf))

/-! ### everything after the input scan -/

/-- what the numbering / id / jubilee invariants say about a location state: the tables satisfy
`Inv5`, cursed entries are older than the jubilee, the new ids pending in the saved flotsam are
pairwise distinct and not yet entry ids, and the saved flotsam respect the jubilee -/
structure NumInv (jubH height : Nat) (st : State) (ctx : InsCtx) : Prop where
  inv5 : Inv5T (tabs st)
  jinv : JInv jubH st.entries
  nodup : (newIds ctx.flotsam).Nodup
  fresh : ∀ id ∈ newIds ctx.flotsam, id ∉ st.entries.map (·.id)
  flj : FlJ jubH height ctx.flotsam

theorem nodup_append_comm3 {α : Type} {a b c : List α} (h : (a ++ b ++ c).Nodup) : (c ++ b).Nodup := by
  have h1 : (a ++ (b ++ c)).Nodup := by rwa [List.append_assoc] at h
  have h2 : (b ++ c).Nodup := (List.nodup_append.1 h1).2.1
  exact (List.perm_append_comm.nodup_iff).1 h2

theorem placeTx_numInv (cfg : Cfg) (height time : Nat) (tx : Tx) (rs : Option (List (Nat × Nat)))
    (cb : Bool) (totalIn : Nat) (floating : List Flotsam) (st1 : State) (ls ls' : LocState) (jubH : Nat)
    (ht : tabs st1 = tabs ls.st)
    (hinv : NumInv jubH height ls.st ls.ctx)
    (hnd : (newIds floating ++ newIds ls.ctx.flotsam).Nodup)
    (hfr : ∀ id ∈ newIds floating, id ∉ ls.st.entries.map (·.id))
    (hflj : FlJ jubH height floating)
    (h : placeTx cfg height time tx rs cb totalIn floating st1 ls = .ok ls') :
    NumInv jubH height ls'.st ls'.ctx ∧
    (∀ id, id ∈ ls'.st.entries.map (·.id) ++ newIds ls'.ctx.flotsam →
      id ∈ ls.st.entries.map (·.id) ++ newIds ls.ctx.flotsam ∨ id ∈ newIds floating) := by
  have he1 : st1.entries = ls.st.entries := congrArg Tabs.entries ht
  have hfrAll : ∀ id ∈ newIds floating ++ newIds ls.ctx.flotsam, id ∉ ls.st.entries.map (·.id) := by
    intro id hid
    rcases List.mem_append.1 hid with hid | hid
    · exact hfr id hid
    · exact hinv.fresh id hid
  cases cb with
  | true =>
    simp only [placeTx, ↓reduceIte] at h
    split at h
    · simp at h
    · simp at h
    · next ls2 h2 =>
      split at h
      · simp at h
      · simp at h
      · next ls3 h3 =>
        split at h
        · simp at h
        · simp only [ok.injEq] at h; subst h
          obtain ⟨hc, _⟩ := assignOutputs_conserve tx.txid tx.outputs 0 0
            (sortByKey (·.offset) (floating ++ ls.ctx.flotsam)) []
          simp only [List.map_nil, List.nil_append] at hc
          have hsp := sortByKey_perm (·.offset) (floating ++ ls.ctx.flotsam)
          rw [← hc] at hsp
          have hids := newIds_perm hsp
          rw [newIds_append, newIds_append] at hids
          generalize hL : (assignOutputs tx.txid tx.outputs 0 0 (sortByKey (·.offset) (floating ++ ls.ctx.flotsam)) []).1 = L at *
          generalize hR : (assignOutputs tx.txid tx.outputs 0 0 (sortByKey (·.offset) (floating ++ ls.ctx.flotsam)) []).2.1 = R at *
          have hndLR : (newIds (L.map (·.2.1)) ++ newIds R).Nodup := hids.nodup_iff.2 hnd
          have hmemLR : ∀ f, f ∈ L.map (·.2.1) ++ R → f ∈ floating ++ ls.ctx.flotsam := fun f hf => hsp.mem_iff.1 hf
          have hfljLR : FlJ jubH height (L.map (·.2.1) ++ R) := by
            intro f hf
            rcases List.mem_append.1 (hmemLR f hf) with hm | hm
            · exact hflj f hm
            · exact hinv.flj f hm
          obtain ⟨i2, ids2⟩ := applyLocations_inv5 cfg height time rs L _ ls2 h2 (by rw [show tabs _ = tabs st1 from rfl, ht]; exact hinv.inv5)
            (List.nodup_append.1 hndLR).1
            (by
              intro id hid
              simp only [he1]
              exact hfrAll id (hids.mem_iff.1 (List.mem_append_left _ hid)))
          have j2 := applyLocations_jinv cfg height time rs jubH L _ ls2 h2 (by simp only [he1]; exact hinv.jinv)
            (fun f hf => hfljLR f (List.mem_append_left _ hf))
          simp only [he1] at ids2
          obtain ⟨i3, ids3⟩ := applyLost_inv5 cfg height time rs _ R ls2 ls3 h3 i2 (List.nodup_append.1 hndLR).2.1
            (by
              intro id hid hmem
              rw [ids2, List.mem_append] at hmem
              rcases hmem with hmem | hmem
              · exact hfrAll id (hids.mem_iff.1 (List.mem_append_right _ hid)) hmem
              · exact (List.nodup_append.1 hndLR).2.2 id hmem id hid rfl)
          have j3 := applyLost_jinv cfg height time rs _ jubH R ls2 ls3 h3 j2
            (fun f hf => hfljLR f (List.mem_append_right _ hf))
          obtain ⟨_, _, _, _, _, _, f2, _⟩ := (applyLocations_steps _ _ _ _ _ _ _ h2).conserve
          obtain ⟨_, _, _, _, _, _, f3, _⟩ := (applyLost_steps _ _ _ _ _ _ _ _ h3).conserve
          have hfl3 : ls3.ctx.flotsam = [] := by rw [f3, f2]
          refine ⟨⟨i3, j3, by simp [hfl3, newIds], by simp [hfl3, newIds], by simp [hfl3, FlJ]⟩, ?_⟩
          intro id hid
          simp only [hfl3, newIds, List.filter_nil, List.map_nil, List.append_nil] at hid
          rw [ids3, ids2, List.append_assoc, List.mem_append] at hid
          rcases hid with hid | hid
          · exact Or.inl (List.mem_append_left _ hid)
          · rcases List.mem_append.1 (hids.mem_iff.1 hid) with hid | hid
            · exact Or.inr hid
            · exact Or.inl (List.mem_append_right _ hid)
  | false =>
    simp only [placeTx, Bool.false_eq_true, ↓reduceIte] at h
    split at h
    · simp at h
    · simp at h
    · next ls2 h2 =>
      split at h
      · simp at h
      · simp only [ok.injEq] at h; subst h
        obtain ⟨hc, _⟩ := assignOutputs_conserve tx.txid tx.outputs 0 0 (sortByKey (·.offset) floating) []
        simp only [List.map_nil, List.nil_append] at hc
        have hsp := sortByKey_perm (·.offset) floating
        rw [← hc] at hsp
        have hids := newIds_perm hsp
        rw [newIds_append] at hids
        generalize hL : (assignOutputs tx.txid tx.outputs 0 0 (sortByKey (·.offset) floating) []).1 = L at *
        generalize hR : (assignOutputs tx.txid tx.outputs 0 0 (sortByKey (·.offset) floating) []).2.1 = R at *
        generalize hV : (assignOutputs tx.txid tx.outputs 0 0 (sortByKey (·.offset) floating) []).2.2 = V at *
        have hndAll : (newIds (L.map (·.2.1)) ++ newIds R ++ newIds ls.ctx.flotsam).Nodup :=
          (List.Perm.append_right _ hids).nodup_iff.2 hnd
        have hndLR : (newIds (L.map (·.2.1)) ++ newIds R).Nodup := (List.nodup_append.1 hndAll).1
        have hmemLR : ∀ f, f ∈ L.map (·.2.1) ++ R → f ∈ floating := fun f hf => hsp.mem_iff.1 hf
        obtain ⟨i2, ids2⟩ := applyLocations_inv5 cfg height time rs L _ ls2 h2 (by rw [show tabs _ = tabs st1 from rfl, ht]; exact hinv.inv5)
          (List.nodup_append.1 hndLR).1
          (by
            intro id hid
            simp only [he1]
            exact hfr id (hids.mem_iff.1 (List.mem_append_left _ hid)))
        have j2 := applyLocations_jinv cfg height time rs jubH L _ ls2 h2 (by simp only [he1]; exact hinv.jinv)
          (fun f hf => hflj f (hmemLR f (List.mem_append_left _ hf)))
        simp only [he1] at ids2
        obtain ⟨_, _, _, _, _, _, f2, r2, _⟩ := (applyLocations_steps _ _ _ _ _ _ _ h2).conserve
        simp only at f2
        have hcar : newIds (R.map (fun f => { f with offset := ls2.ctx.reward + f.offset - V })) = newIds R :=
          newIds_map (fun f => { f with offset := ls2.ctx.reward + f.offset - V }) (fun _ => rfl) (fun _ => rfl) R
        refine ⟨⟨i2, j2, ?_, ?_, ?_⟩, ?_⟩
        · show (newIds (ls2.ctx.flotsam ++ _)).Nodup
          rw [newIds_append, hcar, f2]
          exact nodup_append_comm3 hndAll
        · intro id hid
          have hid' : id ∈ newIds ls.ctx.flotsam ++ newIds R := by
            have : id ∈ newIds (ls2.ctx.flotsam ++ R.map (fun f => { f with offset := ls2.ctx.reward + f.offset - V })) := hid
            rwa [newIds_append, hcar, f2] at this
          show id ∉ ls2.st.entries.map (·.id)
          rw [ids2, List.mem_append]
          rintro (hmem | hmem)
          · rcases List.mem_append.1 hid' with h1 | h1
            · exact hinv.fresh id h1 hmem
            · exact hfr id (hids.mem_iff.1 (List.mem_append_right _ h1)) hmem
          · rcases List.mem_append.1 hid' with h1 | h1
            · exact (List.nodup_append.1 hndAll).2.2 id (List.mem_append_left _ hmem) id h1 rfl
            · exact (List.nodup_append.1 hndLR).2.2 id hmem id h1 rfl
        · intro f hf
          have hf' : f ∈ ls2.ctx.flotsam ++ R.map (fun f => { f with offset := ls2.ctx.reward + f.offset - V }) := hf
          rcases List.mem_append.1 hf' with hm | hm
          · rw [f2] at hm; exact hinv.flj f hm
          · obtain ⟨g, hg, rfl⟩ := List.mem_map.1 hm
            intro hcf
            exact hflj g (hmemLR g (List.mem_append_right _ hg)) (by simpa [cursedFlag] using hcf)
        · intro id hid
          have hid' : id ∈ ls2.st.entries.map (·.id) ++ (newIds ls.ctx.flotsam ++ newIds R) := by
            have : id ∈ ls2.st.entries.map (·.id) ++
                newIds (ls2.ctx.flotsam ++ R.map (fun f => { f with offset := ls2.ctx.reward + f.offset - V })) := hid
            rwa [newIds_append, hcar, f2] at this
          rw [ids2] at hid'
          simp only [List.mem_append] at hid' ⊢
          rcases hid' with (h1 | h1) | h1 | h1
          · exact Or.inl (Or.inl h1)
          · exact Or.inr (hids.mem_iff.1 (List.mem_append_left _ h1))
          · exact Or.inl (Or.inr h1)
          · exact Or.inr (hids.mem_iff.1 (List.mem_append_right _ h1))

/-- **`index_inscriptions` preserves the numbering / jubilee invariants**, provided no entry id
and no pending new id carries this transaction's txid. -/
theorem indexInscriptions_numInv (cfg : Cfg) (height time : Nat) (tx : Tx)
    (inputs : List (TxIn × UtxoEntry)) (rs : Option (List (Nat × Nat))) (ls ls' : LocState)
    (hinv : NumInv cfg.jubileeHeight height ls.st ls.ctx)
    (htx : ∀ id ∈ ls.st.entries.map (·.id) ++ newIds ls.ctx.flotsam, id.txid ≠ tx.txid)
    (hok : indexInscriptions cfg height time tx inputs rs ls = .ok ls') :
    NumInv cfg.jubileeHeight height ls'.st ls'.ctx ∧
    (∀ id, id ∈ ls'.st.entries.map (·.id) ++ newIds ls'.ctx.flotsam →
      id ∈ ls.st.entries.map (·.id) ++ newIds ls.ctx.flotsam ∨ id.txid = tx.txid) := by
  rw [Insloc.indexInscriptions_eq] at hok
  split at hok
  · simp at hok
  · simp at hok
  · next sc hsc =>
    split at hok
    · simp at hok
    · split at hok
      · simp at hok
      · obtain ⟨F, f1, f2, _⟩ := scanInputs_newIds _ _ _ _ _ _ _ _ _ _ hsc
        simp only [List.nil_append] at f1 f2
        have hjub := scanInputs_jub cfg ls.st (decide (height ≥ cfg.jubileeHeight)) tx.txid height (txTotalOut tx) inputs 0
          _ sc hsc (by intro g hg; simp at hg)
        have hnew : newIds (txFloating tx sc) = idRange tx.txid 0 (newCount F) := by
          rw [txFloating_newIds, f1, f2]
        have hflj : FlJ cfg.jubileeHeight height (txFloating tx sc) := by
          intro f hf hcf
          unfold txFloating at hf
          obtain ⟨g, hg, rfl⟩ := List.mem_map.1 hf
          have hcg : cursedFlag g = true := by
            cases ho : g.origin <;> simp [cursedFlag, ho] at hcf ⊢
            exact hcf
          have := (hjub g hg).1
          apply Classical.byContradiction
          intro hlt
          have hge : height ≥ cfg.jubileeHeight := by omega
          rw [this (by simpa using hge)] at hcg
          cases hcg
        obtain ⟨r1, r2⟩ := placeTx_numInv cfg height time tx rs (txIsCoinbase tx) sc.totalInputValue (txFloating tx sc) _
          ls ls' cfg.jubileeHeight (by split <;> rfl) hinv
          (by
            rw [hnew, List.nodup_append]
            refine ⟨idRange_nodup _ _ _, hinv.nodup, ?_⟩
            intro a ha b hb hab
            subst hab
            exact htx a (List.mem_append_right _ hb) (idRange_txid ha))
          (by
            intro id hid hmem
            rw [hnew] at hid
            exact htx id (List.mem_append_left _ hmem) (idRange_txid hid))
          hflj hok
        refine ⟨r1, ?_⟩
        intro id hid
        rcases r2 id hid with h1 | h1
        · exact Or.inl h1
        · rw [hnew] at h1; exact Or.inr (idRange_txid h1)

end Ord.Index.InsLift
