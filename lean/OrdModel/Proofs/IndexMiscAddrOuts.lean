import OrdModel.Proofs.IndexMiscAddrFrame
/-
Group `ixmisc`, C17: the output entries a transaction puts into the UTXO cache carry the script
and the value of the transaction's outputs.
-/
namespace Ord.Index
open Outcome

/-- pointwise relation between the outputs of a transaction and the entries built for them -/
def PW (R : TxOut → UtxoEntry → Prop) : List TxOut → List UtxoEntry → Prop
  | [], [] => True
  | o :: os, e :: es => R o e ∧ PW R os es
  | _, _ => False

theorem PW_index {R : TxOut → UtxoEntry → Prop} {os : List TxOut} {es : List UtxoEntry} (h : PW R os es)
    {v : Nat} {e : UtxoEntry} (he : es[v]? = some e) : ∃ o, os[v]? = some o ∧ R o e := by
  induction os generalizing es v with
  | nil => cases es with
    | nil => simp at he
    | cons _ _ => exact absurd h (by simp [PW])
  | cons o os ih =>
    cases es with
    | nil => simp at he
    | cons e0 es =>
      simp only [PW] at h
      cases v with
      | zero => simp at he; subst he; exact ⟨o, by simp, h.1⟩
      | succ v => simp at he; obtain ⟨o', ho', hr⟩ := ih h.2 he; exact ⟨o', by simpa using ho', hr⟩

theorem PW_length {R : TxOut → UtxoEntry → Prop} {os : List TxOut} {es : List UtxoEntry} (h : PW R os es) :
    es.length = os.length := by
  induction os generalizing es with
  | nil => cases es with
    | nil => rfl
    | cons _ _ => exact absurd h (by simp [PW])
  | cons o os ih =>
    cases es with
    | nil => exact absurd h (by simp [PW])
    | cons e0 es => simp only [PW] at h; simp [ih h.2]

theorem PW_mono {R R' : TxOut → UtxoEntry → Prop} (hr : ∀ o e, R o e → R' o e) {os : List TxOut} {es : List UtxoEntry}
    (h : PW R os es) : PW R' os es := by
  induction os generalizing es with
  | nil => cases es with
    | nil => trivial
    | cons _ _ => exact absurd h (by simp [PW])
  | cons o os ih =>
    cases es with
    | nil => exact absurd h (by simp [PW])
    | cons e0 es => simp only [PW] at h ⊢; exact ⟨hr _ _ h.1, ih h.2⟩

/-- `(es.zip os).map f` keeps the relation when `f` does -/
theorem PW_zip_map {R R' : TxOut → UtxoEntry → Prop} (f : UtxoEntry × TxOut → UtxoEntry)
    (hf : ∀ o e, R o e → R' o (f (e, o))) {os : List TxOut} {es : List UtxoEntry} (h : PW R os es) :
    PW R' os ((es.zip os).map f) := by
  induction os generalizing es with
  | nil => cases es with
    | nil => trivial
    | cons _ _ => exact absurd h (by simp [PW])
  | cons o os ih =>
    cases es with
    | nil => exact absurd h (by simp [PW])
    | cons e0 es => simp only [PW] at h; simp only [List.zip_cons_cons, List.map_cons, PW]; exact ⟨hf _ _ h.1, ih h.2⟩

/-- the relation only looks at value / ranges / script -/
theorem PW_of_map_base {R : TxOut → UtxoEntry → Prop} (hR : ∀ o e e', e.base = e'.base → R o e → R o e')
    {os : List TxOut} {es es' : List UtxoEntry} (hb : es'.map UtxoEntry.base = es.map UtxoEntry.base) (h : PW R os es) :
    PW R os es' := by
  induction os generalizing es es' with
  | nil => cases es with
    | nil => cases es' with
      | nil => trivial
      | cons _ _ => simp at hb
    | cons _ _ => exact absurd h (by simp [PW])
  | cons o os ih =>
    cases es with
    | nil => exact absurd h (by simp [PW])
    | cons e0 es =>
      cases es' with
      | nil => simp at hb
      | cons e0' es' =>
        simp only [List.map_cons, List.cons.injEq] at hb
        simp only [PW] at h ⊢
        exact ⟨hR _ _ _ hb.1.symm h.1, ih hb.2 h.2⟩

/-! sat ranges assigned to an output add up to its value -/

theorem foldl_rangesValue' (rs : List (Nat × Nat)) (a : Nat) :
    rs.foldl (fun acc r => acc + (r.2 - r.1)) a = a + rangesValue rs := by
  unfold rangesValue
  induction rs generalizing a with
  | nil => simp
  | cons r rs ih => simp only [List.foldl_cons]; rw [ih, ih (0 + _)]; omega

theorem rangesValue_cons' (s e : Nat) (rs : List (Nat × Nat)) : rangesValue ((s, e) :: rs) = (e - s) + rangesValue rs := by
  show List.foldl _ _ _ = _
  simp only [List.foldl_cons]
  rw [foldl_rangesValue']; omega

theorem fillOutput_value (q : List (Nat × Nat)) (rem done : Nat) (r : FillResult)
    (h : fillOutput q rem done = some r) : rangesValue r.assigned = rem := by
  induction q generalizing rem done r with
  | nil =>
    cases rem with
    | zero => simp [fillOutput] at h; subst h; rfl
    | succ n => simp [fillOutput] at h
  | cons p rest ih =>
    obtain ⟨s, e⟩ := p
    cases rem with
    | zero => simp [fillOutput] at h; subst h; rfl
    | succ n =>
      simp only [fillOutput] at h
      split at h
      · simp only [Option.some.injEq] at h; subst h
        simp only [rangesValue_cons']
        show (s + (n + 1) - s) + rangesValue [] = n + 1
        simp [rangesValue]
      · rename_i hle
        split at h
        · simp at h
        · rename_i r' hr'
          simp only [Option.some.injEq] at h; subst h
          have := ih _ _ _ hr'
          simp only [rangesValue_cons', this]; omega

/-- with the sat index: the entries built from `index_transaction_sats` -/
theorem PW_sats (os : List TxOut) (vout : Nat) (q : List (Nat × Nat)) (t : TxSats)
    (h : indexTransactionSatsAux (os.map (·.value)) vout q = some t) :
    PW (fun o e => rangesValue e.ranges = o.value)
      os (((os.map (fun _ => UtxoEntry.empty)).zip t.outputs).map (fun (e, rs) => { e with ranges := rs })) := by
  induction os generalizing vout q t with
  | nil => simp [indexTransactionSatsAux] at h; subst h; simp [PW]
  | cons o os ih =>
    simp only [List.map_cons, indexTransactionSatsAux] at h
    split at h
    · simp at h
    · rename_i r hr
      split at h
      · simp at h
      · rename_i t' ht'
        simp only [Option.some.injEq] at h; subst h
        simp only [List.map_cons, List.zip_cons_cons, PW]
        exact ⟨fillOutput_value _ _ _ _ hr, ih _ _ _ ht'⟩

/-- without the sat index: the stored values -/
theorem PW_values (os : List TxOut) :
    PW (fun o e => e.value = o.value)
      os (((os.map (fun _ => UtxoEntry.empty)).zip os).map (fun (e, o) => { e with value := o.value })) := by
  induction os with
  | nil => simp [PW]
  | cons o os ih => simp only [List.map_cons, List.zip_cons_cons, PW]; exact ⟨trivial, ih⟩

/-! the cache after a transaction's outputs were inserted -/

def cacheOuts (txid : Txid) (outs : List (Nat × UtxoEntry)) (c : Cache) : Cache :=
  outs.foldl (fun c (vout, e) => AL.set c ⟨txid, vout⟩ e) c

theorem get_cacheOuts (txid : Txid) (outs : List UtxoEntry) (n : Nat) (c : Cache) (o : OutPoint) :
    AL.get (cacheOuts txid (enumFrom n outs) c) o =
      if o.txid = txid ∧ n ≤ o.vout ∧ o.vout < n + outs.length then outs[o.vout - n]? else AL.get c o := by
  induction outs generalizing n c with
  | nil => simp [cacheOuts, enumFrom]; intro _ _; omega
  | cons e es ih =>
    simp only [enumFrom, cacheOuts, List.foldl_cons]
    have := ih (n + 1) (AL.set c ⟨txid, n⟩ e)
    simp only [cacheOuts] at this
    rw [this, AL.get_set]
    obtain ⟨t, v⟩ := o
    simp only [List.length_cons]
    by_cases h1 : t = txid ∧ n + 1 ≤ v ∧ v < n + 1 + es.length
    · have h2 : t = txid ∧ n ≤ v ∧ v < n + (es.length + 1) := ⟨h1.1, by omega, by omega⟩
      rw [if_pos h1, if_pos h2]
      have : v - n = (v - (n + 1)) + 1 := by omega
      rw [this]; simp
    · rw [if_neg h1]
      by_cases h3 : t = txid ∧ v = n
      · obtain ⟨rfl, rfl⟩ := h3
        simp
      · have hne : ((⟨txid, n⟩ : OutPoint) == ⟨t, v⟩) = false := by
          simp only [beq_eq_false_iff_ne, ne_eq, OutPoint.mk.injEq]
          intro ⟨a, b⟩; exact h3 ⟨a.symm, b.symm⟩
        rw [hne]
        have h2 : ¬(t = txid ∧ n ≤ v ∧ v < n + (es.length + 1)) := by
          intro ⟨a, b, c⟩
          by_cases hv : v = n
          · exact h3 ⟨a, hv⟩
          · exact h1 ⟨a, by omega, by omega⟩
        simp [h2]

theorem nodup_cacheOuts (txid : Txid) (outs : List (Nat × UtxoEntry)) (c : Cache) (h : (AL.keys c).Nodup) :
    (AL.keys (cacheOuts txid outs c)).Nodup := by
  induction outs generalizing c with
  | nil => exact h
  | cons p rest ih => exact ih _ (AL.nodup_set _ _ _ h)

end Ord.Index
