import OrdModel.Store.Protocol

namespace Ord.Store

/-- `a` is a prefix of `b`, stated pointwise -/
def IsPre (a b : List Nat) : Prop := ∀ (i : Nat) (x : Nat), a[i]? = some x → b[i]? = some x

theorem IsPre.refl (a : List Nat) : IsPre a a := fun _ _ h => h

theorem IsPre.trans {a b c : List Nat} (h1 : IsPre a b) (h2 : IsPre b c) : IsPre a c :=
  fun i x h => h2 i x (h1 i x h)

theorem IsPre.length_le {a b : List Nat} (h : IsPre a b) : a.length ≤ b.length := by
  rcases Nat.lt_or_ge b.length a.length with hlt | hge
  · exfalso
    have hx : a[b.length]? = some a[b.length] := List.getElem?_eq_getElem hlt
    have := h _ _ hx
    simp at this
  · exact hge

theorem IsPre.append_getElem {w node : List Nat} (h : IsPre w node) {b : Nat}
    (hb : node[w.length]? = some b) : IsPre (w ++ [b]) node := by
  intro i x hx
  rcases Nat.lt_or_ge i w.length with hlt | hge
  · rw [List.getElem?_append_left hlt] at hx; exact h i x hx
  · rw [List.getElem?_append_right hge] at hx
    rcases Nat.eq_or_lt_of_le hge with heq | hgt
    · subst heq; simp at hx; subst hx; exact hb
    · have : i - w.length ≥ 1 := by omega
      rw [List.getElem?_eq_none (by simp; omega)] at hx; cases hx

theorem IsPre.eq_of_length {a b : List Nat} (h : IsPre a b) (hl : b.length ≤ a.length) : a = b := by
  apply List.ext_getElem?
  intro i
  rcases Nat.lt_or_ge i a.length with hlt | hge
  · have hx : a[i]? = some a[i] := List.getElem?_eq_getElem hlt
    rw [hx, h i _ hx]
  · rw [List.getElem?_eq_none hge, List.getElem?_eq_none (by omega)]

/-- no reorg is detected while the committed chain is a prefix of the node's chain -/
theorem detectReorg_ok_of_prefix (s : Settings) {committed node : List Nat} (h : Nat)
    (hp : IsPre committed node) : detectReorg s committed node h = .ok := by
  unfold detectReorg
  split
  · rfl
  · split
    · rfl
    · rename_i ih hih
      have := hp _ _ hih
      simp [this]

theorem commit_chain (s : Settings) (hd : Nat) (db : Db) (w : List Nat) :
    (commit s hd db w).1.cur.chain = w := by
  unfold commit updateSavepoints
  simp only
  split
  · rfl
  · split
    · simp
    · rfl

/-- Indexing from a working chain that is a prefix of the node's chain (with the committed
chain a prefix of it) runs to completion and leaves exactly the node's chain committed —
whatever the savepoints, settings and bookkeeping are. -/
theorem updateIndex_of_prefix (s : Settings) (hd : Nat) (node : List Nat) :
    ∀ (fuel : Nat) (db : Db) (w : List Nat) (unc : Nat) (evs : List Ev),
      IsPre w node → IsPre db.cur.chain w → node.length - w.length < fuel →
      (unc = 0 → db.cur.chain = w) →
      ∃ db' evs', updateIndex s hd node fuel db w unc evs = .done db' evs' ∧ db'.cur.chain = node := by
  intro fuel
  induction fuel with
  | zero => intro db w unc evs _ _ hf; omega
  | succ fuel ih =>
    intro db w unc evs hw hc hf hu
    unfold updateIndex
    simp only
    cases hb : node[w.length]? with
    | none =>
      have hlen : node.length ≤ w.length := by
        rcases Nat.lt_or_ge w.length node.length with hlt | hge
        · rw [List.getElem?_eq_getElem hlt] at hb; cases hb
        · exact hge
      have hwn : w = node := hw.eq_of_length hlen
      simp only
      split
      · exact ⟨_, _, rfl, by rw [commit_chain]; exact hwn⟩
      · rename_i hunc
        have : unc = 0 := by omega
        exact ⟨_, _, rfl, by rw [hu this]; exact hwn⟩
    | some b =>
      simp only
      have hdet := detectReorg_ok_of_prefix s w.length (hc.trans hw)
      rw [hdet]
      simp only
      have hw' : IsPre (w ++ [b]) node := hw.append_getElem hb
      have hlen' : (w ++ [b]).length = w.length + 1 := by simp
      have hlt : w.length < node.length := by
        rcases Nat.lt_or_ge w.length node.length with hlt | hge
        · exact hlt
        · rw [List.getElem?_eq_none hge] at hb; cases hb
      split
      · -- commit now
        have hcc := commit_chain s hd db (w ++ [b])
        obtain ⟨db', evs', h1, h2⟩ := ih (commit s hd db (w ++ [b])).1 (w ++ [b]) 0 _ hw'
          (by rw [hcc]; exact IsPre.refl _) (by rw [hlen']; omega) (by intro _; exact hcc)
        exact ⟨db', evs', h1, h2⟩
      · have hcw : IsPre db.cur.chain (w ++ [b]) := by
          intro i x hx
          have := hc i x hx
          have hi : i < w.length := by
            rcases Nat.lt_or_ge i w.length with h | h
            · exact h
            · rw [List.getElem?_eq_none h] at this; cases this
          rw [List.getElem?_append_left hi]; exact this
        obtain ⟨db', evs', h1, h2⟩ := ih db (w ++ [b]) (unc + 1) evs hw' hcw (by rw [hlen']; omega)
          (by intro h; omega)
        exact ⟨db', evs', h1, h2⟩

end Ord.Store

namespace Ord.Store

/-- hash chaining: two chains that agree at a height agree below it (block ids stand for block
hashes, and a hash commits to its ancestors) -/
def Linked (a b : List Nat) : Prop :=
  ∀ n, n > 0 → a[n - 1]? ≠ none → a[n - 1]? = b[n - 1]? → ∀ (i : Nat) (x : Nat), i < n → a[i]? = some x → b[i]? = some x

theorem isPre_of_tip {a b : List Nat} (hl : Linked a b) (ht : a.length > 0 → a[a.length - 1]? = b[a.length - 1]?) :
    IsPre a b := by
  intro i x hx
  have hi : i < a.length := by
    rcases Nat.lt_or_ge i a.length with h | h
    · exact h
    · rw [List.getElem?_eq_none h] at hx; cases hx
  have hpos : a.length > 0 := by omega
  have hne : a[a.length - 1]? ≠ none := by
    rw [List.getElem?_eq_getElem (by omega)]; simp
  exact hl a.length hpos hne (ht hpos) i x hi hx

/-- one round from a committed chain that is a prefix of the node's chain: done, equal -/
theorem update_of_prefix (s : Settings) (hd : Nat) (node : List Nat) (rounds : Nat) (db : Db) (evs : List Ev)
    (hp : IsPre db.cur.chain node) :
    ∃ db' evs', update s hd node (rounds + 1) db evs = (db', evs', .ok) ∧ db'.cur.chain = node := by
  obtain ⟨db', e, h1, h2⟩ := updateIndex_of_prefix s hd node (node.length + 2) db db.cur.chain 0 []
    hp (IsPre.refl _) (by omega) (by intro _; rfl)
  refine ⟨db', evs ++ e, ?_, h2⟩
  unfold update
  rw [h1]

theorem search_ne_ok (c node : List Nat) (h md : Nat) :
    ∀ fuel depth, detectReorg.search c node h md fuel depth ≠ .ok := by
  intro fuel
  induction fuel with
  | zero => intro depth; simp [detectReorg.search]
  | succ f ihf =>
    intro depth
    unfold detectReorg.search
    dsimp only
    repeat' split
    all_goals first | exact ihf _ | simp

/-- `detect_reorg` answering "no reorg" at the first block after the committed chain means the
committed chain is on the node's chain (by hash chaining) -/
theorem prefix_of_detect_ok (s : Settings) (c node : List Nat) (hl : Linked c node)
    (hdet : detectReorg s c node c.length = .ok) : IsPre c node := by
  apply isPre_of_tip hl
  intro hpos
  unfold detectReorg at hdet
  have hne : ¬ c.length = 0 := by omega
  simp only [hne, if_false] at hdet
  have hx : c[c.length - 1]? = some c[c.length - 1] := List.getElem?_eq_getElem (by omega)
  rw [hx] at hdet
  simp only at hdet
  split at hdet
  · rename_i heq; rw [hx]; exact heq
  · exact absurd hdet (search_ne_ok _ _ _ _ _ _)

/-- if the first round completes without a reorg although the node's chain is longer than the
index's, the index was on the node's chain -/
theorem done_implies_prefix (s : Settings) (hd : Nat) (node : List Nat) (fuel : Nat) (db db' : Db) (e : List Ev)
    (hl : Linked db.cur.chain node) (hlen : db.cur.chain.length < node.length)
    (h : updateIndex s hd node (fuel + 1) db db.cur.chain 0 [] = .done db' e) :
    IsPre db.cur.chain node := by
  unfold updateIndex at h
  simp only at h
  obtain ⟨b, hb⟩ : ∃ b, node[db.cur.chain.length]? = some b := ⟨_, List.getElem?_eq_getElem hlen⟩
  rw [hb] at h
  simp only at h
  cases hdet : detectReorg s db.cur.chain node db.cur.chain.length with
  | ok => exact prefix_of_detect_ok s _ _ hl hdet
  | recoverable a c => rw [hdet] at h; cases h
  | unrecoverable => rw [hdet] at h; cases h

/-- a reorg can only be reported at the first block of an update call (before anything was
committed), so the database it is reported with is the one the call started from -/
theorem reorg_at_first (s : Settings) (hd : Nat) (node : List Nat) (db db1 : Db) (e : List Ev) (d : Detect)
    (hl : Linked db.cur.chain node)
    (h : updateIndex s hd node (node.length + 2) db db.cur.chain 0 [] = .reorg db1 e d) :
    db1 = db ∧ e = [] := by
  have h0 := h
  unfold updateIndex at h
  simp only at h
  cases hb : node[db.cur.chain.length]? with
  | none => rw [hb] at h; simp only at h; split at h <;> cases h
  | some b =>
    rw [hb] at h
    simp only at h
    cases hdet : detectReorg s db.cur.chain node db.cur.chain.length with
    | ok =>
      have hp := prefix_of_detect_ok s _ _ hl hdet
      obtain ⟨db2, e2, h1, _⟩ := updateIndex_of_prefix s hd node (node.length + 2) db db.cur.chain 0 []
        hp (IsPre.refl _) (by omega) (by intro _; rfl)
      rw [h1] at h0; cases h0
    | recoverable a c => rw [hdet] at h; injection h with h1 h2 _; exact ⟨h1.symm, h2.symm⟩
    | unrecoverable => rw [hdet] at h; injection h with h1 h2 _; exact ⟨h1.symm, h2.symm⟩

/-- Stopping the indexing loop after any number of steps (a crash loses the uncommitted work)
leaves a committed chain that is a prefix of the node's chain. -/
theorem updateIndex_any_fuel_prefix (s : Settings) (hd : Nat) (node : List Nat) :
    ∀ (fuel : Nat) (db : Db) (w : List Nat) (unc : Nat) (evs : List Ev),
      IsPre w node → IsPre db.cur.chain w →
      ∃ db' evs', updateIndex s hd node fuel db w unc evs = .done db' evs' ∧ IsPre db'.cur.chain node := by
  intro fuel
  induction fuel with
  | zero => intro db w unc evs hw hc; exact ⟨db, evs, rfl, hc.trans hw⟩
  | succ fuel ih =>
    intro db w unc evs hw hc
    unfold updateIndex
    simp only
    cases hb : node[w.length]? with
    | none =>
      simp only
      split
      · exact ⟨_, _, rfl, by rw [commit_chain]; exact hw⟩
      · exact ⟨_, _, rfl, hc.trans hw⟩
    | some b =>
      simp only
      rw [detectReorg_ok_of_prefix s w.length (hc.trans hw)]
      simp only
      have hw' : IsPre (w ++ [b]) node := hw.append_getElem hb
      split
      · exact ih _ _ _ _ hw' (by rw [commit_chain]; exact IsPre.refl _)
      · refine ih _ _ _ _ hw' ?_
        intro i x hx
        have := hc i x hx
        have hi : i < w.length := by
          rcases Nat.lt_or_ge i w.length with h | h
          · exact h
          · rw [List.getElem?_eq_none h] at this; cases this
        rw [List.getElem?_append_left hi]; exact this

/-- the rollback loop as it was before the repair (no check of the restored tip) -/
def updateNoCheck (s : Settings) (headers : Nat) (node : List Nat) : (rounds : Nat) → Db → Db × Outcome
  | 0, db => (db, .outOfFuel)
  | rounds + 1, db =>
    match updateIndex s headers node (node.length + 2) db db.cur.chain 0 [] with
    | .done db' _ => (db', .ok)
    | .reorg db' _ (.recoverable _ _) =>
      match handleReorg db' with
      | none => (db', .unrecoverable)
      | some db'' => updateNoCheck s headers node rounds db''
    | .reorg db' _ _ => (db', .unrecoverable)

end Ord.Store
