import OrdModel.Proofs.TextDigits
import OrdModel.Num.Pile
/-! Lemmas about printing (`natDigits`, `stripZeros`, `padZeros`, `printScaled`) and the
print → parse → convert round trip of `Decimal` / `Pile`. -/
namespace Ord.Decimal
open Ord Ord.Text

theorem digitChar_spec (n : Nat) :
    isDigit (digitChar n) = true ∧ digitVal (digitChar n) = n % 10 ∧
      (n % 10 ≠ 0 → digitChar n ≠ '0') := by
  unfold digitChar
  have h : n % 10 < 10 := Nat.mod_lt _ (by omega)
  generalize n % 10 = m at h ⊢
  match m, h with
  | 0, _ | 1, _ | 2, _ | 3, _ | 4, _ | 5, _ | 6, _ | 7, _ | 8, _ | 9, _ => decide
  | k + 10, h => omega

theorem decVal_singleton (c : Char) : decVal [c] = digitVal c := by
  simp [decVal, decFold]

theorem natDigits_spec (n : Nat) :
    allDigits (natDigits n) = true ∧ decVal (natDigits n) = n ∧
      ∃ init, natDigits n = init ++ [digitChar n] := by
  induction n using Nat.strongRecOn with
  | _ n ih =>
    rw [natDigits]
    split
    · rename_i h
      have := digitChar_spec n
      refine ⟨by simp [allDigits, this.1], ?_, [], rfl⟩
      rw [decVal_singleton, this.2.1]; omega
    · rename_i h
      obtain ⟨h1, h2, _⟩ := ih (n / 10) (by omega)
      have := digitChar_spec n
      refine ⟨by rw [allDigits_append, h1]; simp [allDigits, this.1], ?_, _, rfl⟩
      rw [decVal_append, h2, decVal_singleton, this.2.1]; simp; omega

theorem natDigits_ne_nil (n : Nat) : natDigits n ≠ [] := by
  obtain ⟨_, _, init, h⟩ := natDigits_spec n
  rw [h]; simp

theorem natDigits_length_le (n k : Nat) (hk : 1 ≤ k) (hn : n < 10 ^ k) : (natDigits n).length ≤ k := by
  induction n using Nat.strongRecOn generalizing k with
  | _ n ih =>
    rw [natDigits]
    split
    · simpa using hk
    · rename_i h
      have hk2 : 2 ≤ k := by
        rcases Nat.lt_or_ge k 2 with h2 | h2
        · have : k = 1 := by omega
          subst this; omega
        · exact h2
      have hp : 10 ^ k = 10 ^ (k - 1) * 10 := by rw [← Nat.pow_succ]; congr 1; omega
      have := ih (n / 10) (by omega) (k - 1) (by omega) (by omega)
      simp only [List.length_append, List.length_cons, List.length_nil]; omega

theorem dot_not_mem_natDigits (n : Nat) : '.' ∉ natDigits n :=
  not_mem_of_allDigits (natDigits_spec n).1 (by decide)

theorem stripZeros_spec (fuel frac width : Nat) (h0 : 0 < frac) (hf : frac ≤ fuel)
    (hw : frac < 10 ^ width) :
    ∃ f w, stripZeros fuel frac width = .ok (f, w) ∧ f % 10 ≠ 0 ∧ w ≤ width ∧ 0 < w ∧
      f * 10 ^ (width - w) = frac ∧ f < 10 ^ w := by
  induction fuel generalizing frac width with
  | zero => omega
  | succ fuel ih =>
    have hwpos : 0 < width := by
      rcases Nat.eq_zero_or_pos width with h | h
      · subst h; simp at hw; omega
      · exact h
    rw [stripZeros]
    by_cases hm : frac % 10 = 0
    · simp only [hm, if_true]
      have : ¬ width = 0 := by omega
      simp only [this, if_false]
      have hp : 10 ^ width = 10 ^ (width - 1) * 10 := by rw [← Nat.pow_succ]; congr 1; omega
      obtain ⟨f, w, h1, h2, h3, h4, h5, h6⟩ := ih (frac / 10) (width - 1) (by omega) (by omega) (by omega)
      refine ⟨f, w, h1, h2, by omega, h4, ?_, h6⟩
      have : width - w = (width - 1 - w) + 1 := by omega
      rw [this, Nat.pow_succ, ← Nat.mul_assoc, h5]; omega
    · simp only [hm, if_false]
      exact ⟨frac, width, rfl, hm, Nat.le_refl _, hwpos, by simp, hw⟩

theorem decVal_replicate_zero (k : Nat) : decVal (List.replicate k '0') = 0 := by
  induction k with
  | zero => rfl
  | succ k ih =>
    rw [List.replicate_succ, show '0' :: List.replicate k '0' = ['0'] ++ List.replicate k '0' from rfl,
      decVal_append, ih, decVal_singleton]
    have : digitVal '0' = 0 := by decide
    rw [this]; simp

theorem allDigits_replicate_zero (k : Nat) : allDigits (List.replicate k '0') = true := by
  simp [allDigits, List.all_replicate]; right; decide

theorem padZeros_spec (w : Nat) (ds : List Char) (hd : allDigits ds = true) (hl : ds.length ≤ w) :
    allDigits (padZeros w ds) = true ∧ decVal (padZeros w ds) = decVal ds ∧ (padZeros w ds).length = w := by
  unfold padZeros
  refine ⟨by rw [allDigits_append, allDigits_replicate_zero, hd]; rfl, ?_, by simp; omega⟩
  rw [decVal_append, decVal_replicate_zero]; simp

theorem trailingZeros_snoc (xs : List Char) (c : Char) (hc : c ≠ '0') : trailingZeros (xs ++ [c]) = 0 := by
  unfold trailingZeros
  simp [List.reverse_append, hc]

theorem pow_lt_U128 {d : Nat} (h : 10 ^ d < U128) : d ≤ 38 := by
  rcases Nat.lt_or_ge d 39 with h1 | h1
  · omega
  · have : 10 ^ 39 ≤ 10 ^ d := Nat.pow_le_pow_right (by omega) h1
    have : U128 ≤ 10 ^ 39 := by decide
    omega

theorem pow_le_U128 {d : Nat} (h : d ≤ 38) : 10 ^ d < U128 := by
  have : 10 ^ d ≤ 10 ^ 38 := Nat.pow_le_pow_right (by omega) h
  have : 10 ^ 38 < U128 := by decide
  omega

/-- the string printed for `amount` at `scale` decimals parses to a decimal whose conversion back
to `scale` decimals is exactly `amount` -/
theorem fromStr_printScaled (a d : Nat) (ha : a < U128) (hd : 10 ^ d < U128) :
    ∃ s dec, printScaled a d = .ok s ∧ fromStr s = .ok dec ∧ dec.scale ≤ d ∧
      dec.value * 10 ^ (d - dec.scale) = a := by
  have hd38 := pow_lt_U128 hd
  have hpos : 0 < 10 ^ d := Nat.pow_pos (by omega)
  have hdm := Nat.div_add_mod a (10 ^ d)
  have hwhole_le : a / 10 ^ d ≤ a := Nat.div_le_self _ _
  obtain ⟨hwd, hwv, _⟩ := natDigits_spec (a / 10 ^ d)
  have hwne := natDigits_ne_nil (a / 10 ^ d)
  have hparse_whole : parseUnsigned 128 (natDigits (a / 10 ^ d)) = .ok (a / 10 ^ d) := by
    have := parseUnsigned_digits 128 _ hwne hwd (by rw [hwv]; unfold U128 at ha; omega)
    rwa [hwv] at this
  unfold printScaled
  by_cases hfrac : a % 10 ^ d = 0
  · simp only [hfrac, if_true]
    refine ⟨_, ⟨a / 10 ^ d, 0⟩, rfl, ?_, Nat.zero_le _, ?_⟩
    · unfold fromStr
      rw [splitOnce_of_not_mem _ (dot_not_mem_natDigits _), hparse_whole]
    · simp only [Nat.sub_zero]; rw [Nat.mul_comm]; omega
  · simp only [hfrac, if_false]
    obtain ⟨f, w, hs, hf10, hwle, hwpos, hfe, hflt⟩ :=
      stripZeros_spec (a % 10 ^ d) (a % 10 ^ d) d (by omega) (Nat.le_refl _) (Nat.mod_lt _ hpos)
    rw [hs]
    obtain ⟨hfd, hfv, init, hinit⟩ := natDigits_spec f
    have hflen : (natDigits f).length ≤ w := natDigits_length_le f w hwpos hflt
    obtain ⟨hpd, hpv, hpl⟩ := padZeros_spec w (natDigits f) hfd hflen
    have hw38 : w ≤ 38 := by omega
    have hpw := pow_le_U128 hw38
    have hFne : padZeros w (natDigits f) ≠ [] := by
      intro h; rw [h] at hpl; simp at hpl; omega
    have htz : trailingZeros (padZeros w (natDigits f)) = 0 := by
      unfold padZeros; rw [hinit, ← List.append_assoc]
      exact trailingZeros_snoc _ _ ((digitChar_spec f).2.2 hf10)
    have hparseF : parseUnsigned 128 (padZeros w (natDigits f)) = .ok f := by
      have := parseUnsigned_digits 128 _ hFne hpd (by rw [hpv, hfv]; unfold U128 at hpw; omega)
      rwa [hpv, hfv] at this
    have hfrac' : parseFraction (padZeros w (natDigits f)) = .ok (f, w) := by
      unfold parseFraction
      simp only [hFne, if_false, htz, hparseF, hpl, Nat.sub_zero, Nat.pow_zero, Nat.div_one]
      have h1 : ¬ 2 ^ 32 ≤ 0 := by decide
      have h2 : ¬ U128 ≤ 1 := by decide
      have h3 : ¬ 256 ≤ w := by omega
      simp only [h1, h2, h3, if_false]
    -- the value fits: (whole * 10^w + f) * 10^(d-w) = a
    have hval : (a / 10 ^ d * 10 ^ w + f) * 10 ^ (d - w) = a := by
      have hp : 10 ^ d = 10 ^ w * 10 ^ (d - w) := by rw [← Nat.pow_add]; congr 1; omega
      have : (a / 10 ^ d * 10 ^ w + f) * 10 ^ (d - w) = a / 10 ^ d * (10 ^ w * 10 ^ (d - w)) + f * 10 ^ (d - w) := by
        grind
      rw [this, ← hp, hfe, Nat.mul_comm]; exact hdm
    have hpos2 : 0 < 10 ^ (d - w) := Nat.pow_pos (by omega)
    have hle : a / 10 ^ d * 10 ^ w + f ≤ a := by
      calc a / 10 ^ d * 10 ^ w + f = (a / 10 ^ d * 10 ^ w + f) * 1 := by omega
        _ ≤ (a / 10 ^ d * 10 ^ w + f) * 10 ^ (d - w) := Nat.mul_le_mul_left _ hpos2
        _ = a := hval
    refine ⟨_, ⟨a / 10 ^ d * 10 ^ w + f, w⟩, rfl, ?_, hwle, hval⟩
    unfold fromStr
    rw [splitOnce_append _ _ (dot_not_mem_natDigits _)]
    have h1 : ¬ (natDigits (a / 10 ^ d) = [] ∧ padZeros w (natDigits f) = []) := fun h => hwne h.1
    simp only [hwne, if_false, hparse_whole, hfrac', false_and]
    have h2 : ¬ U128 ≤ 10 ^ w := by omega
    have h3 : ¬ U128 ≤ a / 10 ^ d * 10 ^ w := by omega
    have h4 : ¬ U128 ≤ a / 10 ^ d * 10 ^ w + f := by omega
    simp only [h2, h3, h4, if_false]

end Ord.Decimal

namespace Ord.Decimal
open Ord Ord.Text

/-! ### `denotation?` is the executable form of `Denotes` -/

theorem dot_not_mem_of_numeral {s : List Char} {n : Nat} (h : Numeral s n) : '.' ∉ s := by
  obtain ⟨ds, h | h, _, hd, _⟩ := h
  · subst h; exact not_mem_of_allDigits hd (by decide)
  · subst h
    simp only [List.mem_cons, not_or]
    exact ⟨by decide, not_mem_of_allDigits hd (by decide)⟩

theorem denotation?_iff (s : List Char) (num den : Nat) :
    denotation? s = some (num, den) ↔ Denotes s num den := by
  unfold denotation? Denotes
  constructor
  · intro h
    cases hs : splitOnce '.' s with
    | none =>
      rw [hs] at h
      simp only [Option.map_eq_some_iff, Prod.mk.injEq] at h
      obtain ⟨a, ha, rfl, rfl⟩ := h
      exact Or.inl ⟨(numeralVal?_eq_some s a).1 ha, rfl⟩
    | some p =>
      obtain ⟨i, f⟩ := p
      rw [hs] at h
      simp only at h
      obtain ⟨hsf, _⟩ := splitOnce_some hs
      by_cases h1 : i = [] ∧ f = []
      · simp [h1] at h
      · simp only [h1, if_false] at h
        by_cases h2 : allDigits f = true
        · simp only [h2, Bool.not_true, Bool.false_eq_true, if_false] at h
          by_cases hi : i = []
          · simp only [hi, if_true, Option.some.injEq, Prod.mk.injEq] at h
            refine Or.inr ⟨i, f, hsf, h2, h.2.symm, h1, 0, Or.inl ⟨hi, rfl⟩, h.1.symm⟩
          · simp only [hi, if_false] at h
            cases hn : numeralVal? i with
            | none => simp [hn] at h
            | some iv =>
              simp only [hn, Option.some.injEq, Prod.mk.injEq] at h
              exact Or.inr ⟨i, f, hsf, h2, h.2.symm, h1, iv,
                Or.inr ((numeralVal?_eq_some i iv).1 hn), h.1.symm⟩
        · simp [h2] at h
  · rintro (⟨hn, rfl⟩ | ⟨i, f, rfl, hf, rfl, hne, iv, hi, rfl⟩)
    · rw [splitOnce_of_not_mem _ (dot_not_mem_of_numeral hn), (numeralVal?_eq_some s num).2 hn]; rfl
    · have hdot : '.' ∉ i := by
        rcases hi with ⟨rfl, _⟩ | hi
        · simp
        · exact dot_not_mem_of_numeral hi
      rw [splitOnce_append _ _ hdot]
      simp only [hne, if_false, hf, Bool.not_true, Bool.false_eq_true]
      rcases hi with ⟨rfl, rfl⟩ | hi
      · simp
      · have hi0 : i ≠ [] := by
          obtain ⟨ds, h | h, hne', _⟩ := hi
          · subst h; exact hne'
          · subst h; simp
        simp only [hi0, if_false, (numeralVal?_eq_some i iv).2 hi]

/-! ### trailing zeros -/

theorem mem_takeWhile_imp' {p : Char → Bool} {l : List Char} {b : Char} (h : b ∈ l.takeWhile p) :
    p b = true := by
  induction l with
  | nil => simp at h
  | cons a l ih =>
    rw [List.takeWhile_cons] at h
    by_cases ha : p a = true
    · simp only [ha, if_true, List.mem_cons] at h
      rcases h with rfl | h
      · exact ha
      · exact ih h
    · simp [ha] at h

theorem trailingZeros_split (s : List Char) :
    ∃ pre, s = pre ++ List.replicate (trailingZeros s) '0' := by
  unfold trailingZeros
  refine ⟨(s.reverse.dropWhile (· == '0')).reverse, ?_⟩
  have h1 : s.reverse = s.reverse.takeWhile (· == '0') ++ s.reverse.dropWhile (· == '0') :=
    List.takeWhile_append_dropWhile.symm
  have h2 : s.reverse.takeWhile (· == '0') = List.replicate (s.reverse.takeWhile (· == '0')).length '0' := by
    apply List.eq_replicate_iff.2
    refine ⟨rfl, fun b hb => ?_⟩
    have := mem_takeWhile_imp' hb
    simpa using this
  have h3 : s = (s.reverse.dropWhile (· == '0')).reverse ++ (s.reverse.takeWhile (· == '0')).reverse := by
    rw [← List.reverse_append, ← h1, List.reverse_reverse]
  conv => lhs; rw [h3]
  rw [h2, List.reverse_replicate, List.length_replicate]

theorem trailingZeros_le (s : List Char) : trailingZeros s ≤ s.length := by
  obtain ⟨pre, h⟩ := trailingZeros_split s
  have := congrArg List.length h
  simp at this; omega

theorem decVal_trailingZeros (s : List Char) :
    ∃ q, decVal s = q * 10 ^ trailingZeros s := by
  obtain ⟨pre, h⟩ := trailingZeros_split s
  refine ⟨decVal pre, ?_⟩
  conv => lhs; rw [h]
  rw [decVal_append, decVal_replicate_zero, List.length_replicate]; simp

theorem numeral_lt {s : List Char} {n : Nat} (h : Numeral s n) : n < 10 ^ s.length := by
  obtain ⟨ds, h | h, _, hd, rfl⟩ := h
  · subst h; exact decVal_lt _ hd
  · subst h
    have := decVal_lt _ hd
    rw [List.length_cons, Nat.pow_succ]; omega

/-- **soundness of the fractional part** when it does not start with `+` -/
theorem parseFraction_ok {f : List Char} {dv sc : Nat} (h : parseFraction f = .ok (dv, sc))
    (hplus : f.head? ≠ some '+') :
    allDigits f = true ∧ sc + trailingZeros f = f.length ∧ decVal f = dv * 10 ^ trailingZeros f ∧
      sc < 256 ∧ 10 ^ trailingZeros f < U128 := by
  unfold parseFraction at h
  by_cases hf : f = []
  · subst hf; simp at h; obtain ⟨rfl, rfl⟩ := h
    simp [allDigits, trailingZeros, decVal, decFold, U128]
  · simp only [hf, if_false] at h
    cases hp : parseUnsigned 128 f with
    | error e => simp [hp] at h
    | ok fv =>
      simp only [hp] at h
      by_cases h1 : 2 ^ 32 ≤ trailingZeros f
      · simp [h1] at h
      · simp only [h1, if_false] at h
        by_cases h2 : U128 ≤ 10 ^ trailingZeros f
        · simp [h2] at h
        · simp only [h2, if_false] at h
          by_cases h3 : 256 ≤ f.length - trailingZeros f
          · simp [h3] at h
          · simp only [h3, if_false, Outcome.ok.injEq, Prod.mk.injEq] at h
            obtain ⟨rfl, rfl⟩ := h
            obtain ⟨⟨ds, hds | hds, _, hd, hv⟩, _⟩ := (parseUnsigned_ok_iff 128 f fv).1 hp
            · subst hds
              obtain ⟨q, hq⟩ := decVal_trailingZeros f
              have hle := trailingZeros_le f
              refine ⟨hd, by omega, ?_, by omega, by omega⟩
              rw [← hv, hq, Nat.mul_div_cancel _ (Nat.pow_pos (by omega))]
            · subst hds; simp at hplus

end Ord.Decimal

namespace Ord.Decimal
open Ord Ord.Text

/-- the guard under which the unchanged `from_str` is sound: the fractional part does not start
with a `+` (the only way `str::parse::<u128>` accepts a non-digit character) -/
def FractionUnsigned (s : List Char) : Prop :=
  ∀ i f, splitOnce '.' s = some (i, f) → f.head? ≠ some '+'

theorem fromStr_ok_denotes {s : List Char} {dec : Dec} (h : fromStr s = .ok dec)
    (hg : FractionUnsigned s) :
    ∃ num den, Denotes s num den ∧ dec.value * 10 ^ den = num * 10 ^ dec.scale ∧
      dec.value < U128 ∧ dec.scale < 256 := by
  unfold fromStr at h
  cases hs : splitOnce '.' s with
  | none =>
    rw [hs] at h
    cases hp : parseUnsigned 128 s with
    | error e => simp [hp] at h
    | ok v =>
      simp only [hp, Outcome.ok.injEq] at h
      subst h
      obtain ⟨hn, hlt⟩ := (parseUnsigned_ok_iff 128 s v).1 hp
      exact ⟨v, 0, Or.inl ⟨hn, rfl⟩, by simp, hlt, by simp⟩
  | some p =>
    obtain ⟨i, f⟩ := p
    rw [hs] at h
    simp only at h
    obtain ⟨hsf, _⟩ := splitOnce_some hs
    have hplus := hg i f hs
    by_cases h1 : i = [] ∧ f = []
    · simp [h1] at h
    · simp only [h1, if_false] at h
      -- integer part
      have hi : ∃ iv, (if i = [] then Except.ok 0 else parseUnsigned 128 i) = .ok iv ∧
          (i = [] ∧ iv = 0 ∨ Numeral i iv) := by
        cases hp : (if i = [] then Except.ok 0 else parseUnsigned 128 i) with
        | error e => rw [hp] at h; simp at h
        | ok iv =>
          refine ⟨iv, rfl, ?_⟩
          by_cases hi0 : i = []
          · simp [hi0] at hp; exact Or.inl ⟨hi0, hp.symm⟩
          · simp only [hi0, if_false] at hp
            exact Or.inr ((parseUnsigned_ok_iff 128 i iv).1 hp).1
      obtain ⟨iv, hiv, hin⟩ := hi
      rw [hiv] at h
      simp only at h
      cases hpf : parseFraction f with
      | err e => simp [hpf] at h
      | panic e => simp [hpf] at h
      | ok r =>
        obtain ⟨dv, sc⟩ := r
        simp only [hpf] at h
        by_cases c1 : U128 ≤ 10 ^ sc
        · simp [c1] at h
        · simp only [c1, if_false] at h
          by_cases c2 : U128 ≤ iv * 10 ^ sc
          · simp [c2] at h
          · simp only [c2, if_false] at h
            by_cases c3 : U128 ≤ iv * 10 ^ sc + dv
            · simp [c3] at h
            · simp only [c3, if_false, Outcome.ok.injEq] at h
              subst h
              obtain ⟨hfd, hlen, hval, hsc, _⟩ := parseFraction_ok hpf hplus
              refine ⟨iv * 10 ^ f.length + decVal f, f.length,
                Or.inr ⟨i, f, hsf, hfd, rfl, h1, iv, hin, rfl⟩, ?_, by simp only; omega, hsc⟩
              simp only
              rw [hval, ← hlen, Nat.pow_add]
              generalize 10 ^ sc = A
              generalize 10 ^ trailingZeros f = B
              grind

theorem parseFraction_bounds {f : List Char} {dv sc : Nat} (h : parseFraction f = .ok (dv, sc)) :
    sc ≤ f.length ∧ dv < 10 ^ sc ∨ (sc = 0 ∧ dv = 0) := by
  unfold parseFraction at h
  by_cases hf : f = []
  · subst hf; simp at h; exact Or.inr ⟨h.2.symm, h.1.symm⟩
  · simp only [hf, if_false] at h
    cases hp : parseUnsigned 128 f with
    | error e => simp [hp] at h
    | ok fv =>
      simp only [hp] at h
      split at h
      · cases h
      · split at h
        · cases h
        · split at h
          · cases h
          · simp only [Outcome.ok.injEq, Prod.mk.injEq] at h
            obtain ⟨rfl, rfl⟩ := h
            left
            refine ⟨by omega, ?_⟩
            have hlt := numeral_lt ((parseUnsigned_ok_iff 128 f fv).1 hp).1
            have hle := trailingZeros_le f
            have hp10 : 10 ^ f.length = 10 ^ (f.length - trailingZeros f) * 10 ^ trailingZeros f := by
              rw [← Nat.pow_add]; congr 1; omega
            rw [hp10] at hlt
            exact Nat.div_lt_of_lt_mul (by rw [Nat.mul_comm]; exact hlt)

/-- strings of at most 38 characters never reach a panic site of the unchanged `from_str` -/
theorem fromStr_no_panic_short (s : List Char) (hlen : s.length ≤ 38) (site : String) :
    fromStr s ≠ .panic site := by
  unfold fromStr
  cases hs : splitOnce '.' s with
  | none =>
    simp only
    cases parseUnsigned 128 s <;> simp
  | some p =>
    obtain ⟨i, f⟩ := p
    simp only
    obtain ⟨hsf, _⟩ := splitOnce_some hs
    have hl : i.length + f.length + 1 = s.length := by rw [hsf]; simp; omega
    split
    · simp
    · cases hiv : (if i = [] then Except.ok 0 else parseUnsigned 128 i) with
      | error e => simp
      | ok iv =>
        simp only
        have hivlt : iv < 10 ^ i.length := by
          by_cases hi0 : i = []
          · simp [hi0] at hiv; subst hiv; exact Nat.pow_pos (by omega)
          · simp only [hi0, if_false] at hiv
            exact numeral_lt ((parseUnsigned_ok_iff 128 i iv).1 hiv).1
        cases hpf : parseFraction f with
        | err e => simp
        | panic e =>
          exfalso
          unfold parseFraction at hpf
          have hle := trailingZeros_le f
          by_cases hf : f = []
          · simp [hf] at hpf
          · simp only [hf, if_false] at hpf
            cases hp : parseUnsigned 128 f with
            | error e => simp [hp] at hpf
            | ok fv =>
              simp only [hp] at hpf
              have h232 : (2:Nat) ^ 32 = 4294967296 := by decide
              have c1 : ¬ 2 ^ 32 ≤ trailingZeros f := by omega
              have c3 : ¬ 256 ≤ f.length - trailingZeros f := by omega
              simp only [c1, c3, if_false] at hpf
              split at hpf <;> cases hpf
        | ok r =>
          obtain ⟨dv, sc⟩ := r
          simp only
          have hb := parseFraction_bounds hpf
          have hsum : iv * 10 ^ sc + dv < 10 ^ (i.length + sc) ∧ sc ≤ f.length := by
            rcases hb with ⟨h1, h2⟩ | ⟨rfl, rfl⟩
            · refine ⟨?_, h1⟩
              rw [Nat.pow_add]
              have : (iv + 1) * 10 ^ sc ≤ 10 ^ i.length * 10 ^ sc := Nat.mul_le_mul_right _ hivlt
              have : (iv + 1) * 10 ^ sc = iv * 10 ^ sc + 10 ^ sc := by grind
              omega
            · simp; omega
          have h38 : 10 ^ (i.length + sc) ≤ 10 ^ 38 := Nat.pow_le_pow_right (by omega) (by omega)
          have hsc38 : 10 ^ sc ≤ 10 ^ 38 := Nat.pow_le_pow_right (by omega) (by omega)
          have hU : 10 ^ 38 < U128 := by decide
          have hpos : 0 < 10 ^ sc := Nat.pow_pos (by omega)
          have c1 : ¬ U128 ≤ 10 ^ sc := by omega
          have c2 : ¬ U128 ≤ iv * 10 ^ sc := by omega
          have c3 : ¬ U128 ≤ iv * 10 ^ sc + dv := by omega
          simp [c1, c2, c3]

end Ord.Decimal
