import OrdModel.Proofs.IndexSatsChain
/-
`Sat::height` (SatAttr.lean) against `Height::starting_sat` (Chain.lean): a sat below the first
sat of height `h` has a height below `h` — so `find`'s height check lets every sat of the
partition through.
-/
namespace Ord.Index

theorem epochStartingSat_mono {a b : Nat} (h : a ≤ b) : epochStartingSat a ≤ epochStartingSat b := by
  induction h with
  | refl => exact Nat.le_refl _
  | step _ ih => rw [epochStartingSat_succ]; omega

theorem epochSubsidy_pos : ∀ e, e < 33 → 0 < 5000000000 >>> e := by decide

theorem satEpochAux_spec (s : Nat) (fuel e : Nat) (he : e ≤ 33) (hs : epochStartingSat e ≤ s)
    (hf : 33 - e ≤ fuel) :
    let r := satEpochAux s fuel e
    r ≤ 33 ∧ epochStartingSat r ≤ s ∧ (r < 33 → s < epochStartingSat (r + 1)) := by
  induction fuel generalizing e with
  | zero =>
    simp only [satEpochAux]
    exact ⟨he, hs, fun h => by omega⟩
  | succ fuel ih =>
    simp only [satEpochAux]
    split
    · rename_i h
      exact ih (e + 1) (by omega) h.2 (by omega)
    · rename_i h
      refine ⟨he, hs, fun h33 => ?_⟩
      by_cases hle : epochStartingSat (e + 1) ≤ s
      · exact absurd ⟨h33, hle⟩ h
      · omega

theorem satEpoch_spec (s : Nat) :
    satEpoch s ≤ 33 ∧ epochStartingSat (satEpoch s) ≤ s ∧
    (satEpoch s < 33 → s < epochStartingSat (satEpoch s + 1)) :=
  satEpochAux_spec s 33 0 (by omega) (by simp [epochStartingSat]) (by omega)

/-- within an epoch below 33 a sat's height is below the next epoch's first height -/
theorem satHeight_lt_next_epoch (s : Nat) (he : satEpoch s < 33) :
    satHeight s < (satEpoch s + 1) * 210000 := by
  obtain ⟨_, h1, h2⟩ := satEpoch_spec s
  have h2 := h2 he
  have hpos := epochSubsidy_pos _ he
  rw [epochStartingSat_succ] at h2
  simp only [he, if_true] at h2
  unfold satHeight epochSubsidy
  simp only [he, if_true]
  have hne : 5000000000 >>> satEpoch s ≠ 0 := by omega
  simp only [hne, if_false]
  generalize 5000000000 >>> satEpoch s = sub at *
  generalize epochStartingSat (satEpoch s) = base at *
  have : (s - base) / sub < 210000 := by
    apply Nat.div_lt_of_lt_mul
    rw [Nat.mul_comm]; omega
  omega

theorem startingSat_le_supply (h : Nat) : startingSat h ≤ epochStartingSat 33 := by
  unfold startingSat subsidy
  simp only []
  by_cases he : h / 210000 < 33
  · have hm : min (h / 210000) 33 = h / 210000 := by omega
    simp only [he, if_true, hm]
    have hr : h - h / 210000 * 210000 < 210000 := by omega
    have hmono := epochStartingSat_mono (show h / 210000 + 1 ≤ 33 by omega)
    rw [epochStartingSat_succ] at hmono
    simp only [he, if_true] at hmono
    generalize 5000000000 >>> (h / 210000) = sub at *
    generalize h - h / 210000 * 210000 = r at *
    have : r * sub ≤ 210000 * sub := Nat.mul_le_mul_right _ (by omega)
    omega
  · have hm : min (h / 210000) 33 = 33 := by omega
    simp [he, hm]

/-- **mined sats pass `find`'s height check**: a sat below the first sat of height `h` is below
the supply and its height is below `h` -/
theorem satHeight_lt_of_lt_startingSat (s h : Nat) (hs : s < startingSat h) :
    epochSubsidy (satEpoch s) ≠ 0 ∧ satHeight s < h := by
  obtain ⟨hle, hb1, hb2⟩ := satEpoch_spec s
  have hsup := startingSat_le_supply h
  have he : satEpoch s < 33 := by
    rcases Nat.lt_or_ge (satEpoch s) 33 with h1 | h1
    · exact h1
    · have : satEpoch s = 33 := by omega
      rw [this] at hb1; omega
  have hpos := epochSubsidy_pos _ he
  refine ⟨by unfold epochSubsidy; simp only [he, if_true]; omega, ?_⟩
  have hnext := satHeight_lt_next_epoch s he
  by_cases heh : h / 210000 < 33
  · -- same arithmetic as `startingSat`
    have hst : startingSat h = epochStartingSat (h / 210000) + (h - h / 210000 * 210000) * (5000000000 >>> (h / 210000)) := by
      unfold startingSat subsidy
      have hm : min (h / 210000) 33 = h / 210000 := by omega
      simp only [heh, if_true, hm]
    rcases Nat.lt_trichotomy (satEpoch s) (h / 210000) with hlt | heq | hgt
    · have : (satEpoch s + 1) * 210000 ≤ h / 210000 * 210000 := Nat.mul_le_mul_right _ (by omega)
      omega
    · -- same epoch: compare positions
      rw [hst, ← heq] at hs
      unfold satHeight epochSubsidy
      simp only [he, if_true]
      have hne : 5000000000 >>> satEpoch s ≠ 0 := by omega
      simp only [hne, if_false]
      generalize 5000000000 >>> satEpoch s = sub at *
      generalize epochStartingSat (satEpoch s) = base at *
      have hq : (s - base) / sub < h - satEpoch s * 210000 := by
        apply Nat.div_lt_of_lt_mul
        rw [Nat.mul_comm]; omega
      omega
    · -- a later epoch would start above `s`
      exfalso
      have hmono := epochStartingSat_mono (show h / 210000 + 1 ≤ satEpoch s by omega)
      rw [epochStartingSat_succ] at hmono
      simp only [heh, if_true] at hmono
      rw [hst] at hs
      have hr : h - h / 210000 * 210000 < 210000 := by omega
      generalize 5000000000 >>> (h / 210000) = sub at *
      generalize h - h / 210000 * 210000 = r at *
      have : r * sub ≤ 210000 * sub := Nat.mul_le_mul_right _ (by omega)
      omega
  · have : (satEpoch s + 1) * 210000 ≤ 33 * 210000 := Nat.mul_le_mul_right _ (by omega)
    omega

end Ord.Index
