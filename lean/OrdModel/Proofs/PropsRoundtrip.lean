import OrdModel.Proofs.PropsHead
/-! Schema-level round-trips (C28 clause 1): traits, attributes, ids, items, the gallery,
`Properties`, and `from_cbor ∘ to_inline_cbor`, `from_cbor ∘ to_packed_cbor`. -/
namespace Ord.Props
open Ord Ord.Cbor

@[simp] theorem bind_ok {α β : Type} (a : α) (f : α → Outcome β) : (Outcome.ok a).bind f = f a := rfl

theorem wfStr_iff (s : Bytes) : wfStr s = true ↔ validUtf8 s = true ∧ s.length < 2 ^ 64 := by
  simp [wfStr]

/-! ## Trait -/

theorem decTrait_enc (v : Trait) (h : wfTrait v = true) (rest : Bytes) :
    decTrait (encTrait v ++ rest) = .ok (v, rest) := by
  cases v with
  | bool b =>
    cases b <;> simp [encTrait, encBool, decTrait, probe, decBool]
  | null => simp [encTrait, encNull, decTrait, probe, decNull]
  | int i =>
    simp only [wfTrait, decide_eq_true_eq] at h
    have hdec := decI64_enc i h.1 h.2 rest
    have hhead : ∃ (b : UInt8) (t : Bytes), encI64 i ++ rest = b :: t ∧
        (b.toNat ≤ 0x1b ∨ (0x20 ≤ b.toNat ∧ b.toNat ≤ 0x3b)) ∧ (0x38 ≤ b.toNat → t ≠ []) := by
      unfold encI64
      split
      · obtain ⟨b, t, he, h1, h2, h3⟩ := typeLen_head 0 i.toNat (by omega) (by omega) rest
        exact ⟨b, t, he, by omega, fun h => by omega⟩
      · obtain ⟨b, t, he, h1, h2, h3⟩ := typeLen_head 1 (-1 - i).toNat (by omega) (by omega) rest
        exact ⟨b, t, he, by omega, fun h => h3 (by omega)⟩
    obtain ⟨b, t, he, hb, hne⟩ := hhead
    simp only [encTrait]
    unfold decTrait
    rw [he, probe_cons b t (by
      by_cases h38 : 0x38 ≤ b.toNat
      · exact Or.inr (hne h38)
      · exact Or.inl (fun h => h38 h.1)), bind_ok, if_pos hb, ← he, hdec, bind_ok]
  | str s =>
    simp only [wfTrait, wfStr_iff] at h
    have hdec := decStr_enc s h.2 h.1 rest
    obtain ⟨b, t, he, h1, h2, h3⟩ := typeLen_head 3 s.length (by omega) h.2 (s ++ rest)
    simp only [encTrait]
    unfold decTrait
    have he' : encStr s ++ rest = b :: t := by unfold encStr; rw [List.append_assoc]; exact he
    rw [he', probe_cons b t (Or.inl (by omega)), bind_ok, if_neg (by omega), if_pos (by omega),
      ← he', hdec, bind_ok]

/-! ## Traits -/

def names (ts : List (Bytes × Trait)) : List Bytes := ts.map (·.1)

theorem any_name_false (acc : List (Bytes × Trait)) (n : Bytes) (h : n ∉ names acc) :
    acc.any (fun p => p.1 == n) = false := by
  induction acc with
  | nil => rfl
  | cons a acc ih =>
    simp only [names, List.map_cons, List.mem_cons, not_or] at h
    simp only [List.any_cons, Bool.or_eq_false_iff]
    refine ⟨?_, ih h.2⟩
    simp only [beq_eq_false_iff_ne, ne_eq]
    intro e; exact h.1 e.symm

theorem traitsLoop_enc : ∀ (ts acc : List (Bytes × Trait)) (rest : Bytes),
    (∀ p ∈ ts, wfStr p.1 = true ∧ wfTrait p.2 = true) →
    namesNodup (names ts) = true → (∀ n ∈ names ts, n ∉ names acc) →
    traitsLoop ts.length acc (encTraitsBody ts ++ rest) = .ok (acc.reverse ++ ts, rest) := by
  intro ts
  induction ts with
  | nil => intro acc rest _ _ _; simp [traitsLoop, encTraitsBody]
  | cons p ts ih =>
    intro acc rest hwf hnd hdisj
    obtain ⟨n, v⟩ := p
    have hp := hwf (n, v) (by simp)
    simp only [wfStr_iff] at hp
    simp only [names, List.map_cons, namesNodup, Bool.and_eq_true, Bool.not_eq_true',
      List.contains_eq_mem, decide_eq_false_iff_not] at hnd
    simp only [List.length_cons, traitsLoop, encTraitsBody, List.append_assoc]
    rw [decStr_enc n hp.1.2 hp.1.1, bind_ok]
    rw [any_name_false acc n (hdisj n (by simp [names]))]
    simp only [Bool.false_eq_true, if_false]
    rw [decTrait_enc v hp.2, bind_ok]
    rw [ih ((n, v) :: acc) rest (fun q hq => hwf q (by simp [hq])) hnd.2 (by
      intro m hm
      simp only [names, List.map_cons, List.mem_cons, not_or]
      refine ⟨?_, hdisj m (by simp only [names, List.map_cons, List.mem_cons]; exact Or.inr hm)⟩
      intro e; subst e; exact hnd.1 hm)]
    simp

theorem decTraits_enc (ts : List (Bytes × Trait)) (rest : Bytes)
    (hwf : ∀ p ∈ ts, wfStr p.1 = true ∧ wfTrait p.2 = true)
    (hnd : namesNodup (names ts) = true) (hlen : ts.length < 2 ^ 64) :
    decTraits (encTraits ts ++ rest) = .ok (ts, rest) := by
  unfold decTraits encTraits encMapHdr
  rw [List.append_assoc, decLenHdr_enc 5 ts.length (by omega) hlen, bind_ok]
  simp only
  rw [traitsLoop_enc ts [] rest hwf hnd (by intro n _; simp [names])]
  simp

/-! ## generic pieces -/

theorem decOption_some {α : Type} (dec : Bytes → Outcome (α × Bytes)) (b : UInt8) (t : Bytes) (v : α)
    (r : Bytes) (h1 : b.toNat ≠ 0xf6) (h2 : ¬ (0x38 ≤ b.toNat ∧ b.toNat ≤ 0x3b))
    (hd : dec (b :: t) = .ok (v, r)) : decOption dec (b :: t) = .ok (some v, r) := by
  unfold decOption
  rw [probe_cons b t (Or.inl h2), bind_ok, if_neg h1, hd, bind_ok]

theorem decStruct_enc {σ : Type} (field : Int → σ → Bytes → Outcome (σ × Bytes)) (init res : σ)
    (n : Nat) (hn : n < 2 ^ 64) (body rest : Bytes)
    (h : mapDefLoop field n init (body ++ rest) = .ok (res, rest)) :
    decStruct field init (encMapHdr n ++ (body ++ rest)) = .ok (res, rest) := by
  unfold decStruct encMapHdr
  rw [decLenHdr_enc 5 n (by omega) hn, bind_ok]
  exact h

theorem decStruct_hdr {σ : Type} (field : Int → σ → Bytes → Outcome (σ × Bytes)) (init : σ)
    (n : Nat) (hn : n < 2 ^ 64) (tail : Bytes) :
    decStruct field init (encMapHdr n ++ tail) = mapDefLoop field n init tail := by
  unfold decStruct encMapHdr
  rw [decLenHdr_enc 5 n (by omega) hn, bind_ok]

theorem mapDefLoop_step {σ : Type} (field : Int → σ → Bytes → Outcome (σ × Bytes)) (n : Nat)
    (acc acc' : σ) (k : Int) (hk1 : -(2 : Int) ^ 63 ≤ k) (hk2 : k < (2 : Int) ^ 63) (val rest : Bytes)
    (hf : field k acc (val ++ rest) = .ok (acc', rest)) :
    mapDefLoop field (n + 1) acc (encI64 k ++ (val ++ rest)) = mapDefLoop field n acc' rest := by
  simp only [mapDefLoop]
  rw [decI64_enc k hk1 hk2, bind_ok]
  simp only
  rw [hf, bind_ok]

/-! ## Attributes -/

theorem wfAttrs_iff (a : Attributes) : wfAttrs a = true ↔
    (∀ t, a.title = some t → wfStr t = true) ∧
    (∀ p ∈ a.traits, wfStr p.1 = true ∧ wfTrait p.2 = true) ∧
    namesNodup (names a.traits) = true ∧ a.traits.length < 2 ^ 64 := by
  unfold wfAttrs names
  cases a.title <;> simp [List.all_eq_true, and_assoc]

theorem attrField_title (acc : Attributes) (t : Bytes) (hw : wfStr t = true) (rest : Bytes) :
    attrField 0 acc (encStr t ++ rest) = .ok ({ acc with title := some t }, rest) := by
  rw [wfStr_iff] at hw
  obtain ⟨b, tl, he, h1, h2, _⟩ := typeLen_head 3 t.length (by omega) hw.2 (t ++ rest)
  have he' : encStr t ++ rest = b :: tl := by unfold encStr; rw [List.append_assoc]; exact he
  unfold attrField
  rw [if_pos rfl, he', decOption_some decStr b tl t rest (by omega) (by omega)
    (by rw [← he']; exact decStr_enc t hw.2 hw.1 rest), bind_ok]

theorem attrField_traits (acc : Attributes) (ts : List (Bytes × Trait)) (rest : Bytes)
    (hwf : ∀ p ∈ ts, wfStr p.1 = true ∧ wfTrait p.2 = true)
    (hnd : namesNodup (names ts) = true) (hlen : ts.length < 2 ^ 64) :
    attrField 1 acc (encTraits ts ++ rest) = .ok ({ acc with traits := ts }, rest) := by
  unfold attrField
  rw [if_neg (by decide), if_pos rfl, decTraits_enc ts rest hwf hnd hlen, bind_ok]

theorem decAttributes_enc (a : Attributes) (hwf : wfAttrs a = true) (rest : Bytes) :
    decAttributes (encAttributes a ++ rest) = .ok (a, rest) := by
  rw [wfAttrs_iff] at hwf
  obtain ⟨ht, hts, hnd, hlen⟩ := hwf
  obtain ⟨title, traits⟩ := a
  unfold decAttributes
  cases title with
  | none =>
    cases traits with
    | nil =>
      have := decStruct_enc attrField {} {} 0 (by omega) [] rest (by simp [mapDefLoop])
      simpa [encAttributes, b2n] using this
    | cons p ts =>
      have hstep := mapDefLoop_step attrField 0 {} { traits := p :: ts } 1 (by omega) (by omega)
        (encTraits (p :: ts)) rest (attrField_traits {} (p :: ts) rest hts hnd hlen)
      have := decStruct_enc attrField {} { traits := p :: ts } 1 (by omega)
        (encI64 1 ++ encTraits (p :: ts)) rest (by
          rw [List.append_assoc, hstep]; simp [mapDefLoop])
      simpa [encAttributes, b2n, List.append_assoc] using this
  | some t =>
    have hwt := ht t rfl
    cases traits with
    | nil =>
      have hstep := mapDefLoop_step attrField 0 {} { title := some t } 0 (by omega) (by omega)
        (encStr t) rest (attrField_title {} t hwt rest)
      have := decStruct_enc attrField {} { title := some t } 1 (by omega)
        (encI64 0 ++ encStr t) rest (by
          rw [List.append_assoc, hstep]; simp [mapDefLoop])
      simpa [encAttributes, b2n, List.append_assoc] using this
    | cons p ts =>
      have hstep2 := mapDefLoop_step attrField 0 { title := some t } { title := some t, traits := p :: ts }
        1 (by omega) (by omega) (encTraits (p :: ts)) rest
        (attrField_traits { title := some t } (p :: ts) rest hts hnd hlen)
      have hstep1 := mapDefLoop_step attrField 1 {} { title := some t } 0 (by omega) (by omega)
        (encStr t) (encI64 1 ++ (encTraits (p :: ts) ++ rest))
        (attrField_title {} t hwt _)
      have := decStruct_enc attrField {} { title := some t, traits := p :: ts } 2 (by omega)
        (encI64 0 ++ (encStr t ++ (encI64 1 ++ encTraits (p :: ts)))) rest (by
          simp only [List.append_assoc]
          rw [hstep1, hstep2]; simp [mapDefLoop])
      simpa [encAttributes, b2n, List.append_assoc] using this

/-! ## InscriptionId -/

theorem leTrim_zero : leTrim 0 = [] := by rw [leTrim]; simp

theorem leTrim_pos (n : Nat) (h : n ≠ 0) : leTrim n = UInt8.ofNat (n % 256) :: leTrim (n / 256) := by
  rw [leTrim]; simp [h]

theorem leTrim_length : ∀ (k n : Nat), n < 256 ^ k → (leTrim n).length ≤ k := by
  intro k
  induction k with
  | zero => intro n h; have : n = 0 := by simpa using h
            subst this; simp [leTrim_zero]
  | succ k ih =>
    intro n h
    by_cases h0 : n = 0
    · subst h0; simp [leTrim_zero]
    · rw [leTrim_pos n h0]
      have : n / 256 < 256 ^ k := by
        rw [Nat.div_lt_iff_lt_mul (by omega)]; rw [Nat.pow_succ] at h; exact h
      have := ih _ this
      simp; omega

theorem leNat_leTrim (n : Nat) : leNat (leTrim n) = n := by
  induction n using Nat.strongRecOn with
  | _ n ih =>
    by_cases h0 : n = 0
    · subst h0; simp [leTrim_zero, leNat]
    · rw [leTrim_pos n h0]
      simp only [leNat]
      rw [ih (n / 256) (by omega), toNat_ofNat_lt (by omega)]
      omega

theorem leTrim_getLast (n : Nat) : ∀ l, (leTrim n).getLast? = some l → l.toNat ≠ 0 := by
  induction n using Nat.strongRecOn with
  | _ n ih =>
    intro l hl
    by_cases h0 : n = 0
    · subst h0; simp [leTrim_zero] at hl
    · rw [leTrim_pos n h0] at hl
      by_cases h1 : n / 256 = 0
      · rw [h1, leTrim_zero] at hl
        simp at hl; subst hl
        rw [toNat_ofNat_lt (by omega)]; omega
      · have hne : leTrim (n / 256) ≠ [] := by rw [leTrim_pos _ h1]; simp
        rw [List.getLast?_cons_of_ne_nil hne] at hl
        exact ih (n / 256) (by omega) l hl

theorem idFromValue_value (id : InscriptionId) (h1 : id.txid.length = 32) (h2 : id.index < 2 ^ 32) :
    idFromValue (idValue id) = .ok (some id) := by
  have hl := leTrim_length 4 id.index (by simpa using h2)
  have htake : (id.txid ++ leTrim id.index).take 32 = id.txid := by
    rw [← h1]; simp
  have hdrop : (id.txid ++ leTrim id.index).drop 32 = leTrim id.index := by
    rw [← h1]; simp
  unfold idFromValue idValue
  rw [if_neg (by simp; omega), if_neg (by simp; omega)]
  simp only [htake, hdrop]
  cases hg : (leTrim id.index).getLast? with
  | none => simp [h1, leNat_leTrim]
  | some l =>
    have := leTrim_getLast _ _ hg
    simp [this, h1, leNat_leTrim]

theorem decId_enc (id : InscriptionId) (h1 : id.txid.length = 32) (h2 : id.index < 2 ^ 32) (rest : Bytes) :
    decId (encBytes (idValue id) ++ rest) = .ok (id, rest) := by
  have hl := leTrim_length 4 id.index (by simpa using h2)
  unfold decId
  rw [decBytes_enc _ (by simp [idValue]; omega), bind_ok]
  simp only
  rw [idFromValue_value id h1 h2, bind_ok]

/-! ## Item -/

/-- what the encoders require of an item (inline items have an id and no index; packed items have
no id and possibly an index) -/
def ItemEnc (i : Item) : Prop :=
  (∀ id, i.id = some id → id.txid.length = 32 ∧ id.index < 2 ^ 32) ∧
  (∀ n, i.index = some n → n < 2 ^ 32) ∧ wfAttrs i.attributes = true

theorem attrsIsDefault_eq (a : Attributes) (h : attrsIsDefault a = true) : a = {} := by
  obtain ⟨t, ts⟩ := a
  simp only [attrsIsDefault, Bool.and_eq_true, Option.isNone_iff_eq_none, List.isEmpty_iff] at h
  obtain ⟨rfl, rfl⟩ := h
  rfl

theorem loop_zero {σ : Type} (field : Int → σ → Bytes → Outcome (σ × Bytes)) (acc : σ) (bs : Bytes) :
    mapDefLoop field 0 acc bs = .ok (acc, bs) := rfl

def segId (o : Option InscriptionId) : Bytes :=
  match o with | some id => encI64 0 ++ encBytes (idValue id) | none => []

def segIdx (o : Option Nat) : Bytes :=
  match o with | some k => encI64 2 ++ encU32 k | none => []

theorem encItem_eq (i : Item) : encItem i =
    encMapHdr (b2n i.id.isSome + b2n (!attrsIsDefault i.attributes) + b2n i.index.isSome)
    ++ segId i.id
    ++ (if attrsIsDefault i.attributes then [] else encI64 1 ++ encAttributes i.attributes)
    ++ segIdx i.index := rfl

theorem item_seg_id (n : Nat) (acc : Item) (o : Option InscriptionId) (hacc : acc.id = none)
    (hw : ∀ id, o = some id → id.txid.length = 32 ∧ id.index < 2 ^ 32) (rest : Bytes) :
    mapDefLoop itemField (n + b2n o.isSome) acc
      (segId o ++ rest)
      = mapDefLoop itemField n { acc with id := o } rest := by
  cases o with
  | none =>
    obtain ⟨a, b, c⟩ := acc
    simp only at hacc; subst hacc
    simp [b2n, segId]
  | some id =>
    obtain ⟨h1, h2⟩ := hw id rfl
    have hl := leTrim_length 4 id.index (by simpa using h2)
    obtain ⟨b, tl, he, hb1, hb2, _⟩ := typeLen_head 2 (idValue id).length (by omega)
      (by simp [idValue]; omega) (idValue id ++ rest)
    have he' : encBytes (idValue id) ++ rest = b :: tl := by
      unfold encBytes; rw [List.append_assoc]; exact he
    have hf : itemField 0 acc (encBytes (idValue id) ++ rest) = .ok ({ acc with id := some id }, rest) := by
      unfold itemField
      rw [if_pos rfl, he', decOption_some decId b tl id rest (by omega) (by omega)
        (by rw [← he']; exact decId_enc id h1 h2 rest), bind_ok]
    have := mapDefLoop_step itemField n acc _ 0 (by omega) (by omega) _ rest hf
    simpa [b2n, segId, List.append_assoc] using this

theorem item_seg_attrs (n : Nat) (acc : Item) (a : Attributes) (hacc : acc.attributes = {})
    (hw : wfAttrs a = true) (rest : Bytes) :
    mapDefLoop itemField (n + b2n (!attrsIsDefault a)) acc
      ((if attrsIsDefault a then [] else encI64 1 ++ encAttributes a) ++ rest)
      = mapDefLoop itemField n { acc with attributes := a } rest := by
  by_cases hd : attrsIsDefault a = true
  · have := attrsIsDefault_eq a hd
    subst this
    obtain ⟨x, y, z⟩ := acc
    simp only at hacc; subst hacc
    simp [b2n, attrsIsDefault]
  · have hf : itemField 1 acc (encAttributes a ++ rest) = .ok ({ acc with attributes := a }, rest) := by
      unfold itemField
      rw [if_neg (by decide), if_pos rfl, decAttributes_enc a hw rest, bind_ok]
    have := mapDefLoop_step itemField n acc _ 1 (by omega) (by omega) _ rest hf
    simp only [Bool.not_eq_true] at hd
    simpa [b2n, hd, List.append_assoc] using this

theorem item_seg_index (n : Nat) (acc : Item) (o : Option Nat) (hacc : acc.index = none)
    (hw : ∀ k, o = some k → k < 2 ^ 32) (rest : Bytes) :
    mapDefLoop itemField (n + b2n o.isSome) acc
      (segIdx o ++ rest)
      = mapDefLoop itemField n { acc with index := o } rest := by
  cases o with
  | none =>
    obtain ⟨a, b, c⟩ := acc
    simp only at hacc; subst hacc
    simp [b2n, segIdx]
  | some k =>
    have hk := hw k rfl
    obtain ⟨b, tl, he, hb1, hb2, _⟩ := typeLen_head 0 k (by omega) (by omega) rest
    have hf : itemField 2 acc (encU32 k ++ rest) = .ok ({ acc with index := some k }, rest) := by
      unfold itemField
      rw [if_neg (by decide), if_neg (by decide), if_pos rfl]
      have he' : encU32 k ++ rest = b :: tl := he
      rw [he', decOption_some decU32 b tl k rest (by omega) (by omega)
        (by rw [← he']; exact decU32_enc k hk rest), bind_ok]
    have := mapDefLoop_step itemField n acc _ 2 (by omega) (by omega) _ rest hf
    simpa [b2n, segIdx, List.append_assoc] using this

theorem decItem_enc (i : Item) (hw : ItemEnc i) (rest : Bytes) :
    decItem (encItem i ++ rest) = .ok (i, rest) := by
  obtain ⟨hid, hidx, ha⟩ := hw
  obtain ⟨id, attrs, index⟩ := i
  simp only at hid hidx ha
  unfold decItem
  rw [encItem_eq]
  simp only [List.append_assoc]
  have hcnt : b2n id.isSome + b2n (!attrsIsDefault attrs) + b2n index.isSome
      = (b2n index.isSome + b2n (!attrsIsDefault attrs)) + b2n id.isSome := by omega
  have hlt : (b2n index.isSome + b2n (!attrsIsDefault attrs)) + b2n id.isSome < 2 ^ 64 := by
    simp only [b2n]; repeat' split
    all_goals omega
  rw [hcnt, decStruct_hdr _ _ _ hlt]
  have h3 := item_seg_index 0 { id := id, attributes := attrs, index := none } index rfl hidx rest
  rw [Nat.zero_add] at h3
  rw [item_seg_id _ {} id rfl hid, item_seg_attrs _ _ attrs rfl ha, h3, loop_zero]

/-! ## Gallery and Properties -/

theorem arrayDefLoop_enc : ∀ (items acc : List Item) (rest : Bytes), (∀ i ∈ items, ItemEnc i) →
    arrayDefLoop decItem items.length acc (encItems items ++ rest) = .ok (acc.reverse ++ items, rest) := by
  intro items
  induction items with
  | nil => intro acc rest _; simp [arrayDefLoop, encItems]
  | cons i r ih =>
    intro acc rest hw
    simp only [List.length_cons, arrayDefLoop, encItems, List.append_assoc]
    rw [decItem_enc i (hw i (by simp)), bind_ok]
    simp only
    rw [ih (i :: acc) rest (fun j hj => hw j (by simp [hj]))]
    simp

theorem decVec_enc (items : List Item) (hlen : items.length < 2 ^ 64) (hw : ∀ i ∈ items, ItemEnc i)
    (rest : Bytes) :
    decVec decItem (encArrayHdr items.length ++ (encItems items ++ rest)) = .ok (items, rest) := by
  unfold decVec encArrayHdr
  rw [decLenHdr_enc 4 _ (by omega) hlen, bind_ok]
  simp only
  rw [arrayDefLoop_enc items [] rest hw]
  simp

def PropsEnc (p : Properties) : Prop :=
  (∀ i ∈ p.gallery, ItemEnc i) ∧ p.gallery.length < 2 ^ 64 ∧ wfAttrs p.attributes = true ∧
  p.txids.length < 2 ^ 64

theorem props_seg_gallery (n : Nat) (acc : Properties) (g : List Item) (hacc : acc.gallery = [])
    (hlen : g.length < 2 ^ 64) (hw : ∀ i ∈ g, ItemEnc i) (rest : Bytes) :
    mapDefLoop propsField (n + b2n (!g.isEmpty)) acc
      ((if g.isEmpty then [] else encI64 0 ++ encArrayHdr g.length ++ encItems g) ++ rest)
      = mapDefLoop propsField n { acc with gallery := g } rest := by
  cases g with
  | nil =>
    obtain ⟨a, b, c⟩ := acc
    simp only at hacc; subst hacc
    simp [b2n]
  | cons i r =>
    have hf : propsField 0 acc (encArrayHdr (i :: r).length ++ (encItems (i :: r) ++ rest))
        = .ok ({ acc with gallery := i :: r }, rest) := by
      unfold propsField
      rw [if_pos rfl, decVec_enc (i :: r) hlen hw rest, bind_ok]
    have := mapDefLoop_step propsField n acc _ 0 (by omega) (by omega)
      (encArrayHdr (i :: r).length ++ encItems (i :: r)) rest (by rw [List.append_assoc]; exact hf)
    simpa [b2n, List.append_assoc] using this

theorem props_seg_attrs (n : Nat) (acc : Properties) (a : Attributes) (hacc : acc.attributes = {})
    (hw : wfAttrs a = true) (rest : Bytes) :
    mapDefLoop propsField (n + b2n (!attrsIsDefault a)) acc
      ((if attrsIsDefault a then [] else encI64 1 ++ encAttributes a) ++ rest)
      = mapDefLoop propsField n { acc with attributes := a } rest := by
  by_cases hd : attrsIsDefault a = true
  · have := attrsIsDefault_eq a hd
    subst this
    obtain ⟨x, y, z⟩ := acc
    simp only at hacc; subst hacc
    simp [b2n, attrsIsDefault]
  · have hf : propsField 1 acc (encAttributes a ++ rest) = .ok ({ acc with attributes := a }, rest) := by
      unfold propsField
      rw [if_neg (by decide), if_pos rfl, decAttributes_enc a hw rest, bind_ok]
    have := mapDefLoop_step propsField n acc _ 1 (by omega) (by omega) _ rest hf
    simp only [Bool.not_eq_true] at hd
    simpa [b2n, hd, List.append_assoc] using this

theorem props_seg_txids (n : Nat) (acc : Properties) (tx : Bytes) (hacc : acc.txids = [])
    (hlen : tx.length < 2 ^ 64) (rest : Bytes) :
    mapDefLoop propsField (n + b2n (!tx.isEmpty)) acc
      ((if tx.isEmpty then [] else encI64 2 ++ encBytes tx) ++ rest)
      = mapDefLoop propsField n { acc with txids := tx } rest := by
  cases tx with
  | nil =>
    obtain ⟨a, b, c⟩ := acc
    simp only at hacc; subst hacc
    simp [b2n]
  | cons x r =>
    have hf : propsField 2 acc (encBytes (x :: r) ++ rest) = .ok ({ acc with txids := x :: r }, rest) := by
      unfold propsField
      rw [if_neg (by decide), if_neg (by decide), if_pos rfl, decBytes_enc _ hlen rest, bind_ok]
    have := mapDefLoop_step propsField n acc _ 2 (by omega) (by omega) _ rest hf
    simpa [b2n, List.append_assoc] using this

theorem decProperties_enc (p : Properties) (hw : PropsEnc p) (rest : Bytes) :
    decProperties (encProperties p ++ rest) = .ok p := by
  obtain ⟨hg, hgl, ha, htl⟩ := hw
  obtain ⟨g, attrs, tx⟩ := p
  simp only at hg hgl ha htl
  unfold decProperties encProperties
  simp only [List.append_assoc]
  have hcnt : b2n (!g.isEmpty) + b2n (!attrsIsDefault attrs) + b2n (!tx.isEmpty)
      = (b2n (!tx.isEmpty) + b2n (!attrsIsDefault attrs)) + b2n (!g.isEmpty) := by omega
  have hlt : (b2n (!tx.isEmpty) + b2n (!attrsIsDefault attrs)) + b2n (!g.isEmpty) < 2 ^ 64 := by
    simp only [b2n]; repeat' split
    all_goals omega
  rw [hcnt, decStruct_hdr _ _ _ hlt]
  have h3 := props_seg_txids 0 { gallery := g, attributes := attrs, txids := [] } tx rfl htl rest
  rw [Nat.zero_add] at h3
  have h1 := props_seg_gallery (b2n (!tx.isEmpty) + b2n (!attrsIsDefault attrs)) {} g rfl hgl hg
  simp only [List.append_assoc] at h1
  rw [h1, props_seg_attrs _ _ attrs rfl ha, h3, loop_zero, bind_ok]

/-! ## from_cbor -/

theorem wfItem_iff (i : Item) : wfItem i = true ↔
    (∃ id, i.id = some id ∧ id.txid.length = 32 ∧ id.index < 2 ^ 32) ∧ i.index = none ∧
      wfAttrs i.attributes = true := by
  unfold wfItem
  cases i.id with
  | none => simp
  | some id => simp [and_assoc]

theorem wfItem_enc (i : Item) (h : wfItem i = true) : ItemEnc i := by
  rw [wfItem_iff] at h
  obtain ⟨⟨id, hid, h1, h2⟩, hidx, ha⟩ := h
  refine ⟨?_, ?_, ha⟩
  · intro id' e; rw [hid] at e; cases e; exact ⟨h1, h2⟩
  · intro n e; rw [hidx] at e; cases e

theorem wfProps_iff (p : Properties) : wfProps p = true ↔
    p.txids = [] ∧ (∀ i ∈ p.gallery, wfItem i = true) ∧ wfAttrs p.attributes = true ∧
      p.gallery.length < 2 ^ 64 := by
  simp [wfProps, List.all_eq_true, and_assoc]

theorem applyTxids_nil (g : List Item) : applyTxids g [] = .ok g := by
  cases g with
  | nil => rfl
  | cons i r => simp [applyTxids]

theorem finish_wf (g : List Item) (h : ∀ i ∈ g, wfItem i = true) :
    (let g2 := g.map fun i => { i with index := none }
     if g2.any (fun i => i.id.isNone) then [] else g2) = g := by
  have hmap : g.map (fun i => { i with index := none }) = g := by
    induction g with
    | nil => rfl
    | cons i r ih =>
      have hi := (wfItem_iff i).1 (h i (by simp))
      obtain ⟨x, y, z⟩ := i
      simp only at hi
      obtain ⟨_, rfl, _⟩ := hi
      simp [ih (fun j hj => h j (by simp [hj]))]
  simp only [hmap]
  have hany : g.any (fun i => i.id.isNone) = false := by
    rw [List.any_eq_false]
    intro i hi
    obtain ⟨⟨id, hid, _⟩, _⟩ := (wfItem_iff i).1 (h i hi)
    simp [hid]
  simp [hany]

theorem fromCbor_inline (p : Properties) (hw : wfProps p = true) :
    fromCbor (encProperties p) = .ok p := by
  have hw' := (wfProps_iff p).1 hw
  obtain ⟨htx, hg, ha, hl⟩ := hw'
  have henc : PropsEnc p := ⟨fun i hi => wfItem_enc i (hg i hi), hl, ha, by simp [htx]⟩
  have hd := decProperties_enc p henc []
  rw [List.append_nil] at hd
  unfold fromCbor
  rw [hd]
  simp only [bind_ok, htx, applyTxids_nil]
  have := finish_wf p.gallery hg
  simp only at this
  obtain ⟨g, a, t⟩ := p
  simp only at htx this ⊢
  subst htx
  rw [this]

/-- `to_packed_cbor`'s loop, and what `from_cbor`'s first loop makes of its result -/
theorem packItems_spec : ∀ (g : List Item), (∀ i ∈ g, wfItem i = true) →
    ∃ tx items, packItems g = .ok (tx, items) ∧ (∀ i ∈ items, ItemEnc i) ∧
      items.length = g.length ∧ tx.length = 32 * g.length ∧
      ∃ g1, applyTxids items tx = .ok g1 ∧ g1.map (fun i => { i with index := none }) = g := by
  intro g
  induction g with
  | nil => intro _; exact ⟨[], [], rfl, by simp, rfl, rfl, [], rfl, rfl⟩
  | cons i r ih =>
    intro hw
    obtain ⟨tx, items, hp, hie, hil, htl, g1, hat, hg1⟩ := ih (fun j hj => hw j (by simp [hj]))
    have hi := (wfItem_iff i).1 (hw i (by simp))
    obtain ⟨oid, attrs, idx⟩ := i
    simp only at hi
    obtain ⟨⟨id, rfl, h32, hidx⟩, rfl, ha⟩ := hi
    refine ⟨id.txid ++ tx,
      (Item.mk none attrs (if id.index = 0 then none else some id.index)) :: items, ?_, ?_, ?_, ?_, ?_⟩
    · simp [packItems, hp]
    · intro j hj
      rcases List.mem_cons.1 hj with rfl | hj
      · refine ⟨(by intro x e; cases e), ?_, ha⟩
        intro n e
        simp only at e
        split at e
        · cases e
        · cases e; exact hidx
      · exact hie j hj
    · simp [hil]
    · simp [htl, h32]; omega
    · refine ⟨(Item.mk (some id) attrs (if id.index = 0 then none else some id.index)) :: g1, ?_, ?_⟩
      · have hlen : ¬ (id.txid ++ tx).length < 32 := by simp; omega
        have htake : (id.txid ++ tx).take 32 = id.txid := by rw [← h32]; simp
        have hdrop : (id.txid ++ tx).drop 32 = tx := by rw [← h32]; simp
        simp only [applyTxids, if_neg hlen, htake, hdrop, hat, bind_ok]
        rw [if_neg (by omega)]
        have hidx' : (if id.index = 0 then none else some id.index : Option Nat).getD 0 = id.index := by
          split
          · rename_i h0; simp [h0]
          · simp
        simp only [hidx']
      · simp [hg1]

theorem propsIsDefault_eq (p : Properties) (h : propsIsDefault p = true) : p = {} := by
  obtain ⟨g, a, t⟩ := p
  simp only [propsIsDefault, Bool.and_eq_true, List.isEmpty_iff] at h
  obtain ⟨⟨rfl, ha⟩, rfl⟩ := h
  rw [attrsIsDefault_eq a ha]

theorem fromCbor_packed (p : Properties) (hw : wfProps p = true)
    (hmem : p.gallery.length * 32 < 2 ^ 64) (bs : Bytes) (h : toPacked p = .ok (some bs)) :
    fromCbor bs = .ok p := by
  have hw' := (wfProps_iff p).1 hw
  obtain ⟨htx, hg, ha, hl⟩ := hw'
  obtain ⟨tx, items, hp, hie, hil, htl, g1, hat, hg1⟩ := packItems_spec p.gallery hg
  unfold toPacked at h
  rw [htx] at h
  simp only [List.isEmpty_nil, Bool.not_true, Bool.false_eq_true, if_false, hp, bind_ok] at h
  split at h
  · cases h
  · simp only [Outcome.ok.injEq, Option.some.injEq] at h
    subst h
    have henc : PropsEnc { gallery := items, attributes := p.attributes, txids := tx } :=
      ⟨hie, by simp only [hil]; exact hl, ha, by simp only [htl]; omega⟩
    have hd := decProperties_enc _ henc []
    rw [List.append_nil] at hd
    unfold fromCbor
    rw [hd]
    simp only [bind_ok, hat]
    have hwf1 : ∀ i ∈ g1.map (fun i => { i with index := none }), wfItem i = true := by
      rw [hg1]; exact hg
    have := finish_wf (g1.map fun i => { i with index := none }) hwf1
    simp only [List.map_map] at this
    have hcomp : ((fun (i : Item) => { i with index := none }) ∘ fun (i : Item) => { i with index := none })
        = fun (i : Item) => { i with index := none } := by
      funext i; rfl
    rw [hcomp] at this
    rw [this, hg1]
    obtain ⟨g, a, t⟩ := p
    simp only at htx ⊢
    subst htx
    rfl

end Ord.Props
