import OrdModel.Proofs.IndexLiftInsPass
/-
Lift of the inscription-side invariants, part 3: one transaction of `index_utxo_entries`
(`indexTx`) split into input lookup, middle (sat ranges / scripts / inscriptions) and cache
insertion, and the mid-block invariant `MInv` (C04 accounting over table + cache + pending
special entries + saved flotsam) preserved by it.
-/
namespace Ord.Index.InsLift
open Ord Ord.Index Outcome Sched Insloc

/-! ### decomposition of `indexTx` -/

theorem indexTx_decomp (cfg : Cfg) (blk : Block) (insOn : Bool) (txOffset : Nat) (tx : Tx) (bc bc' : BlockCtx)
    (h : indexTx cfg blk insOn txOffset tx bc = .ok bc') :
    ∃ bc1 inputs bc3 outs3,
      (if txOffset = 0 then bc1 = bc ∧ inputs = tx.inputs.map (fun i => (i, UtxoEntry.empty))
       else takeInputEntries cfg tx.inputs bc [] = .ok (bc1, inputs)) ∧
      indexTxMid cfg blk insOn txOffset tx bc1 inputs = .ok (bc3, outs3) ∧
      bc' = { bc3 with cache := cacheIns tx.txid outs3 bc3.cache } := by
  rw [indexTx_eq] at h
  have mid : ∀ (bc1 : BlockCtx) (inputs : List (TxIn × UtxoEntry)),
      (match indexTxMid cfg blk insOn txOffset tx bc1 inputs with
        | .panic s => .panic s
        | .err e => .err e
        | .ok (bc3, outs3) => Outcome.ok { bc3 with cache := cacheIns tx.txid outs3 bc3.cache } : Outcome BlockCtx) = .ok bc' →
      ∃ bc3 outs3, indexTxMid cfg blk insOn txOffset tx bc1 inputs = .ok (bc3, outs3) ∧
        bc' = { bc3 with cache := cacheIns tx.txid outs3 bc3.cache } := by
    intro bc1 inputs h1
    cases hm : indexTxMid cfg blk insOn txOffset tx bc1 inputs with
    | panic s => rw [hm] at h1; cases h1
    | err e => rw [hm] at h1; cases h1
    | ok r =>
      obtain ⟨bc3, outs3⟩ := r
      rw [hm] at h1
      simp only [Outcome.ok.injEq] at h1
      exact ⟨bc3, outs3, rfl, h1.symm⟩
  by_cases hz : txOffset = 0
  · subst hz
    simp only [if_true] at h
    obtain ⟨bc3, outs3, h1, h2⟩ := mid _ _ h
    exact ⟨bc, _, bc3, outs3, by simp, h1, h2⟩
  · simp only [hz, if_false] at h
    cases ht : takeInputEntries cfg tx.inputs bc [] with
    | panic s => rw [ht] at h; cases h
    | err e => rw [ht] at h; cases h
    | ok r =>
      obtain ⟨bc1, inputs⟩ := r
      rw [ht] at h
      simp only at h
      obtain ⟨bc3, outs3, h1, h2⟩ := mid _ _ h
      exact ⟨bc1, inputs, bc3, outs3, by simp [hz], h1, h2⟩

theorem totalValue_congr' (cfg : Cfg) (e e' : UtxoEntry) (h : e.base = e'.base) :
    e.totalValue cfg = e'.totalValue cfg := by
  simp only [UtxoEntry.base, Prod.mk.injEq] at h
  simp [UtxoEntry.totalValue, h.1, h.2.1]

theorem mem_zip_map_empty {β : Type} (os : List TxOut) (l : List β) (f : UtxoEntry × β → UtxoEntry)
    (hf : ∀ e b, e.ins = [] → (f (e, b)).ins = [])
    (es : List UtxoEntry) (hes : ∀ e ∈ es, e.ins = []) :
    ∀ e ∈ (es.zip l).map f, e.ins = [] := by
  intro e he
  obtain ⟨p, hp, rfl⟩ := List.mem_map.1 he
  obtain ⟨e0, b⟩ := p
  exact hf e0 b (hes e0 (List.of_mem_zip hp).1)

/-- the middle of `indexTx`: the output entries handed to the inscription pass list nothing and
carry the outputs' values; the state handed to it differs from the incoming one in `sat2sp` only -/
theorem indexTxMid_cases (cfg : Cfg) (blk : Block) (insOn : Bool) (txOffset : Nat) (tx : Tx) (bc1 : BlockCtx)
    (inputs : List (TxIn × UtxoEntry)) (bc3 : BlockCtx) (outs3 : List UtxoEntry)
    (h : indexTxMid cfg blk insOn txOffset tx bc1 inputs = .ok (bc3, outs3)) :
    ∃ (m : List (Nat × SatPoint)) (outs2 : List UtxoEntry) (ir : Option (List (Nat × Nat))),
      (∀ e ∈ outs2, e.ins = []) ∧
      PW (fun o e => e.totalValue cfg = o.value) tx.outputs outs2 ∧
      bc3.cache = bc1.cache ∧
      (if insOn then
        ∃ ls', indexInscriptions cfg blk.height blk.time tx inputs ir
            { st := { bc1.st with sat2sp := m }, ctx := bc1.ins, outs := outs2 } = .ok ls' ∧
          bc3.st = ls'.st ∧ bc3.ins = ls'.ctx ∧ outs3 = ls'.outs
       else bc3.st = { bc1.st with sat2sp := m } ∧ bc3.ins = bc1.ins ∧ outs3 = outs2) := by
  have hcache := (indexTxMid_frame _ _ _ _ _ _ _ _ _ h).2
  have hempty : ∀ e ∈ tx.outputs.map (fun _ => UtxoEntry.empty), e.ins = [] := by
    intro e he
    obtain ⟨_, _, rfl⟩ := List.mem_map.1 he
    rfl
  -- the script stage keeps both facts
  have script : ∀ outs1 : List UtxoEntry, (∀ e ∈ outs1, e.ins = []) →
      PW (fun o e => e.totalValue cfg = o.value) tx.outputs outs1 →
      (∀ e ∈ (if cfg.indexAddresses then (outs1.zip tx.outputs).map (fun (e, o) => { e with script := o.script }) else outs1), e.ins = []) ∧
      PW (fun o e => e.totalValue cfg = o.value) tx.outputs
        (if cfg.indexAddresses then (outs1.zip tx.outputs).map (fun (e, o) => { e with script := o.script }) else outs1) := by
    intro outs1 h1 h2
    cases cfg.indexAddresses with
    | false => exact ⟨h1, h2⟩
    | true =>
      simp only [if_true]
      refine ⟨mem_zip_map_empty tx.outputs _ _ (fun e b he => he) _ h1, PW_zip_map _ ?_ h2⟩
      intro o e he
      simpa [UtxoEntry.totalValue] using he
  unfold indexTxMid at h
  cases hs : cfg.indexSats with
  | false =>
    simp only [hs, Bool.false_eq_true, if_false] at h
    have hv : PW (fun o e => e.totalValue cfg = o.value) tx.outputs
        (((tx.outputs.map (fun _ => UtxoEntry.empty)).zip tx.outputs).map (fun (e, o) => { e with value := o.value })) := by
      refine PW_mono ?_ (PW_values tx.outputs)
      intro o e he
      simp [UtxoEntry.totalValue, hs, he]
    have he1 := mem_zip_map_empty tx.outputs tx.outputs (fun (p : UtxoEntry × TxOut) => { p.1 with value := p.2.value })
      (fun e b he => he) _ hempty
    obtain ⟨s1, s2⟩ := script _ he1 hv
    refine ⟨bc1.st.sat2sp, _, none, s1, s2, hcache, ?_⟩
    cases insOn with
    | false =>
      simp only [Bool.false_eq_true, if_false, Outcome.ok.injEq, Prod.mk.injEq] at h ⊢
      obtain ⟨rfl, rfl⟩ := h
      exact ⟨rfl, rfl, rfl⟩
    | true =>
      simp only [if_true] at h ⊢
      split at h
      · cases h
      · cases h
      · rename_i ls hls
        simp only [Outcome.ok.injEq, Prod.mk.injEq] at h
        obtain ⟨rfl, rfl⟩ := h
        exact ⟨ls, hls, rfl, rfl, rfl⟩
  | true =>
    simp only [hs, if_true] at h
    cases hr : indexTransactionSats (tx.outputs.map (·.value))
        (if txOffset = 0 then bc1.coinbaseInputs else inputs.flatMap (fun (_, e) => e.ranges)) with
    | none => rw [hr] at h; cases h
    | some r =>
      rw [hr] at h
      simp only at h
      have hv : PW (fun o e => e.totalValue cfg = o.value) tx.outputs
          (((tx.outputs.map (fun _ => UtxoEntry.empty)).zip r.outputs).map (fun (e, rs) => { e with ranges := rs })) := by
        refine PW_mono ?_ (PW_sats tx.outputs 0 _ r hr)
        intro o e he
        simp [UtxoEntry.totalValue, hs, he]
      have he1 := mem_zip_map_empty tx.outputs r.outputs (fun (p : UtxoEntry × List (Nat × Nat)) => { p.1 with ranges := p.2 })
        (fun e b he => he) _ hempty
      obtain ⟨s1, s2⟩ := script _ he1 hv
      refine ⟨setRare tx.txid bc1.st.sat2sp r.rare, _,
        some (if txOffset = 0 then bc1.coinbaseInputs else inputs.flatMap (fun (_, e) => e.ranges)), s1, s2, hcache, ?_⟩
      cases insOn with
      | false =>
        simp only [Bool.false_eq_true, if_false, Outcome.ok.injEq, Prod.mk.injEq] at h ⊢
        obtain ⟨rfl, rfl⟩ := h
        by_cases h0 : txOffset = 0 <;> simp [h0]
      | true =>
        simp only [if_true] at h ⊢
        by_cases h0 : txOffset = 0
        · simp only [h0, if_true] at h ⊢
          split at h
          · cases h
          · cases h
          · rename_i ls hls
            simp only [Outcome.ok.injEq, Prod.mk.injEq] at h
            obtain ⟨rfl, rfl⟩ := h
            exact ⟨ls, hls, rfl, rfl, rfl⟩
        · simp only [h0, if_false] at h ⊢
          split at h
          · cases h
          · cases h
          · rename_i ls hls
            simp only [Outcome.ok.injEq, Prod.mk.injEq] at h
            obtain ⟨rfl, rfl⟩ := h
            exact ⟨ls, hls, rfl, rfl, rfl⟩

/-! ### input lookup -/

theorem takeOne_seqs (cfg : Cfg) (bc : BlockCtx) (i : TxIn) (bc' : BlockCtx) (e : UtxoEntry)
    (h : takeOne cfg bc i = .ok (bc', e)) :
    (allSeqs bc.st.utxo ++ allSeqs bc.cache).Perm (entSeqs e ++ (allSeqs bc'.st.utxo ++ allSeqs bc'.cache)) ∧
    (∀ p ∈ bc'.st.utxo, p ∈ bc.st.utxo) ∧ (∀ p ∈ bc'.cache, p ∈ bc.cache) := by
  unfold takeOne at h
  split at h
  · rename_i e0 hc
    simp only [Outcome.ok.injEq, Prod.mk.injEq] at h
    obtain ⟨rfl, rfl⟩ := h
    refine ⟨?_, fun p hp => hp, fun p hp => mem_erase_sub _ _ p hp⟩
    exact (List.Perm.append_left _ (allSeqs_erase _ _ _ hc)).trans (List.perm_append_comm_assoc _ _ _)
  · split at h
    · rename_i e0 ht
      simp only at h
      have hp : (allSeqs bc.st.utxo ++ allSeqs bc.cache).Perm
          (entSeqs e0 ++ (allSeqs (AL.erase bc.st.utxo i.prev) ++ allSeqs bc.cache)) := by
        rw [← List.append_assoc]
        exact List.Perm.append_right _ (allSeqs_erase _ _ _ ht)
      split at h
      · split at h
        · simp only [Outcome.ok.injEq, Prod.mk.injEq] at h
          obtain ⟨rfl, rfl⟩ := h
          exact ⟨hp, fun p hp => mem_erase_sub _ _ p hp, fun p hp => hp⟩
        · cases h
      · simp only [Outcome.ok.injEq, Prod.mk.injEq] at h
        obtain ⟨rfl, rfl⟩ := h
        exact ⟨hp, fun p hp => mem_erase_sub _ _ p hp, fun p hp => hp⟩
    · cases h

theorem takeInputEntries_lift (cfg : Cfg) (seen : List Txid) (inputs : List TxIn)
    (hsp : ∀ i ∈ inputs, i.prev.isSpecial = false)
    (bc : BlockCtx) (acc : List (TxIn × UtxoEntry)) (bc' : BlockCtx) (r : List (TxIn × UtxoEntry))
    (hinv : BInv cfg seen (tri bc.st) bc.cache)
    (h : takeInputEntries cfg inputs bc acc = .ok (bc', r)) :
    BInv cfg seen (tri bc'.st) bc'.cache ∧
    (allSeqs bc.st.utxo ++ allSeqs bc.cache ++ inputSeqs acc).Perm
      (allSeqs bc'.st.utxo ++ allSeqs bc'.cache ++ inputSeqs r) ∧
    bc'.ins = bc.ins ∧ core bc'.st = core bc.st ∧
    (∀ p ∈ bc'.st.utxo, p ∈ bc.st.utxo) ∧ (∀ p ∈ bc'.cache, p ∈ bc.cache) ∧
    r.map (·.1) = acc.map (·.1) ++ inputs := by
  induction inputs generalizing bc acc with
  | nil =>
    simp only [takeInputEntries, Outcome.ok.injEq, Prod.mk.injEq] at h
    obtain ⟨rfl, rfl⟩ := h
    exact ⟨hinv, List.Perm.refl _, rfl, rfl, fun _ hp => hp, fun _ hp => hp, by simp⟩
  | cons i rest ih =>
    rw [takeInputEntries_cons] at h
    split at h
    · rename_i bc1 e h1
      have hs := takeOne_spec cfg seen bc i hinv
      cases hov : ovN bc.st.utxo bc.cache i.prev with
      | none => rw [hov] at hs; simp only at hs; rw [hs] at h1; cases h1
      | some e0 =>
        rw [hov] at hs
        simp only at hs
        obtain ⟨bc0, hb0, eff⟩ := hs
        rw [hb0] at h1
        simp only [Outcome.ok.injEq, Prod.mk.injEq] at h1
        obtain ⟨rfl, rfl⟩ := h1
        obtain ⟨q1, q2, q3⟩ := takeOne_seqs cfg bc i bc0 e0 hb0
        obtain ⟨i1, i2, i3, i4, i5, i6, i7⟩ := ih (fun j hj => hsp j (List.mem_cons_of_mem _ hj)) bc0
          (acc ++ [(i, e0)]) eff.inv h
        refine ⟨i1, ?_, i3.trans eff.ins, i4.trans eff.core, fun p hp => q2 p (i5 p hp),
          fun p hp => q3 p (i6 p hp), by rw [i7]; simp⟩
        have hnull : i.prev.isNull = false := isNull_false_of_not_special (hsp i List.mem_cons_self)
        rw [inputSeqs_append] at i2
        simp only [inputSeqs, hnull, Bool.false_eq_true, if_false, List.append_nil] at i2
        rw [List.perm_iff_count] at q1 i2 ⊢
        intro a
        have c1 := q1 a
        have c2 := i2 a
        simp only [List.count_append] at c1 c2 ⊢
        omega
    · cases h
    · cases h

/-! ### the mid-block invariant -/

/-- offsets listed on real outputs are below the output's value -/
def EntOK (cfg : Cfg) (l : List (OutPoint × UtxoEntry)) : Prop :=
  ∀ (o : OutPoint) (e : UtxoEntry), (o, e) ∈ l → o.isSpecial = false →
    ∀ (s off : Nat), (s, off) ∈ e.ins → off < e.totalValue cfg

/-- every sequence number the block context knows about: listed in the table, in the cache, in
the pending special entries, or saved (old flotsam) for the coinbase -/
def ctxSeqs (bc : BlockCtx) : List Nat :=
  allSeqs bc.st.utxo ++ allSeqs bc.cache ++ (optSeqs bc.ins.nullEntry ++ optSeqs bc.ins.unboundEntry) ++
    oldSeqs bc.ins.flotsam

structure MInv (cfg : Cfg) (seen : List Txid) (bc : BlockCtx) : Prop where
  binv : BInv cfg seen (tri bc.st) bc.cache
  perm : (ctxSeqs bc).Perm (List.range bc.st.entries.length)
  tblOK : EntOK cfg bc.st.utxo
  cacheOK : EntOK cfg bc.cache

theorem perm_range_extend (l l' : List Nat) (n n' : Nat) (hle : n ≤ n') (h : l.Perm (List.range n))
    (h' : l'.Perm (l ++ List.range' n (n' - n))) : l'.Perm (List.range n') := by
  refine h'.trans ?_
  have : List.range n' = List.range' 0 n ++ List.range' (0 + n) (n' - n) := by
    rw [List.range'_append_1, List.range_eq_range']
    congr 1; omega
  rw [this, Nat.zero_add, ← List.range_eq_range']
  exact List.Perm.append_right _ h

theorem flatMap_entSeqs_nil (outs : List UtxoEntry) (h : ∀ e ∈ outs, e.ins = []) : outs.flatMap entSeqs = [] := by
  induction outs with
  | nil => rfl
  | cons e es ih =>
    rw [List.flatMap_cons, ih (fun x hx => h x (List.mem_cons_of_mem _ hx))]
    simp [entSeqs, h e List.mem_cons_self]

theorem EntOK.sub {cfg : Cfg} {l l' : List (OutPoint × UtxoEntry)} (h : EntOK cfg l) (hs : ∀ p ∈ l', p ∈ l) :
    EntOK cfg l' := fun o e hm => h o e (hs _ hm)

theorem core_entries {a b : State} (h : core a = core b) : a.entries = b.entries := by
  have := congrArg State.entries h
  exact this

/-- **One transaction of `index_utxo_entries` preserves the mid-block invariant.**  `seen` = txids
indexed so far; the transaction's txid is new and non-zero; a non-first transaction spends no
special outpoint; and if the inscription pass is off there are no inscriptions yet. -/
theorem indexTx_minv (cfg : Cfg) (blk : Block) (insOn : Bool) (txOffset : Nat) (tx : Tx) (seen : List Txid)
    (bc bc' : BlockCtx) (hinv : MInv cfg seen bc)
    (h0 : tx.txid ≠ 0) (hfresh : tx.txid ∉ seen)
    (hsp : txOffset ≠ 0 → ∀ i ∈ tx.inputs, i.prev.isSpecial = false)
    (hoff : insOn = false → bc.st.entries.length = 0)
    (h : indexTx cfg blk insOn txOffset tx bc = .ok bc') :
    MInv cfg (tx.txid :: seen) bc' ∧ bc.st.entries.length ≤ bc'.st.entries.length ∧
    (insOn = true → txIsCoinbase tx = true → bc'.ins.flotsam = []) ∧
    (insOn = false → bc'.st.entries = bc.st.entries ∧ bc'.ins.flotsam = bc.ins.flotsam) := by
  obtain ⟨bc1, inputs, bc3, outs3, hin, hmid, rfl⟩ := indexTx_decomp _ _ _ _ _ _ _ h
  -- input lookup
  have hin' : BInv cfg seen (tri bc1.st) bc1.cache ∧
      (allSeqs bc.st.utxo ++ allSeqs bc.cache).Perm (allSeqs bc1.st.utxo ++ allSeqs bc1.cache ++ inputSeqs inputs) ∧
      bc1.ins = bc.ins ∧ core bc1.st = core bc.st ∧
      (∀ p ∈ bc1.st.utxo, p ∈ bc.st.utxo) ∧ (∀ p ∈ bc1.cache, p ∈ bc.cache) := by
    by_cases hz : txOffset = 0
    · simp only [hz, if_true] at hin
      obtain ⟨rfl, rfl⟩ := hin
      refine ⟨hinv.binv, ?_, rfl, rfl, fun _ hp => hp, fun _ hp => hp⟩
      rw [inputSeqs_empty, List.append_nil]
    · simp only [hz, if_false] at hin
      obtain ⟨i1, i2, i3, i4, i5, i6, _⟩ := takeInputEntries_lift cfg seen tx.inputs (hsp hz) bc [] bc1 inputs hinv.binv hin
      refine ⟨i1, ?_, i3, i4, i5, i6⟩
      simpa [inputSeqs] using i2
  obtain ⟨b1, p1, hins1, hcore1, sub1, sub2⟩ := hin'
  have hent1 : bc1.st.entries = bc.st.entries := core_entries hcore1
  obtain ⟨m, outs2, ir, e2, v2, hcache, hcase⟩ := indexTxMid_cases _ _ _ _ _ _ _ _ _ hmid
  obtain ⟨htri, _⟩ := indexTxMid_frame _ _ _ _ _ _ _ _ _ hmid
  have hutxo : bc3.st.utxo = bc1.st.utxo := congrArg Tri.utxo htri
  -- freshness of the new cache keys
  have hkeys : ∀ op ∈ AL.keys bc1.cache, op.txid = tx.txid → op.vout < 0 := by
    intro op hm ht
    have hne : ovN bc1.st.utxo bc1.cache op ≠ none := by
      unfold ovN
      cases hg : AL.get bc1.cache op with
      | some e => simp
      | none => exact absurd hm ((AL.get_eq_none_iff _ _).1 hg)
    rcases b1.prov op hne with h1 | h1
    · exact absurd (ht ▸ h1) h0
    · exact absurd (ht ▸ h1) hfresh
  have hnew : allSeqs (cacheIns tx.txid outs3 bc3.cache) = allSeqs bc1.cache ++ outs3.flatMap entSeqs := by
    rw [cacheIns_eq, hcache]
    exact allSeqs_setAll_fresh _ _ _ _ hkeys
  have hbinv : BInv cfg (tx.txid :: seen) (tri bc3.st) (cacheIns tx.txid outs3 bc3.cache) := by
    rw [cacheIns_eq, htri, hcache]
    exact BInv.setAll b1 _ _ h0 hfresh
  -- the new cache entries are fine whenever the outputs are
  have hcacheOK : OutsOK tx.outputs outs3 → PW (fun o e => e.totalValue cfg = o.value) tx.outputs outs3 →
      EntOK cfg (cacheIns tx.txid outs3 bc3.cache) := by
    intro ho hv o e hm hsp' s off hs
    rw [cacheIns_eq, hcache] at hm
    rcases mem_setAll_sub _ _ _ _ hm with hm | ⟨q, hq, hp⟩
    · exact hinv.cacheOK o e (sub2 _ hm) hsp' s off hs
    · obtain ⟨_, hget⟩ := mem_enumFrom_get _ _ _ hq
      simp only [Nat.sub_zero] at hget
      simp only [Prod.mk.injEq] at hp
      obtain ⟨_, rfl⟩ := hp
      obtain ⟨o1, ho1, hlt⟩ := ho q.1 q.2 hget s off hs
      obtain ⟨o2, ho2, hval⟩ := PW_index hv hget
      rw [ho1] at ho2
      simp only [Option.some.injEq] at ho2
      subst ho2
      rw [hval]; exact hlt
  cases hi : insOn with
  | false =>
    simp only [hi, Bool.false_eq_true, if_false] at hcase
    obtain ⟨hst, hins3, rfl⟩ := hcase
    have hent3 : bc3.st.entries = bc.st.entries := by rw [hst]; exact hent1
    have hz := hoff hi
    have hnil : ctxSeqs bc = [] := by
      have := hinv.perm
      rw [hz] at this
      exact List.perm_nil.1 (by simpa using this)
    have hnil1 : allSeqs bc1.st.utxo ++ allSeqs bc1.cache = [] := by
      have hA : allSeqs bc.st.utxo ++ allSeqs bc.cache = [] := by
        simp only [ctxSeqs, List.append_eq_nil_iff] at hnil
        simp [hnil.1.1]
      rw [hA] at p1
      have := List.nil_perm.1 p1
      simp only [List.append_eq_nil_iff] at this
      simp [this.1]
    refine ⟨⟨hbinv, ?_, hinv.tblOK.sub (by rw [hutxo]; exact sub1), ?_⟩, by rw [hent3]; exact Nat.le_refl _,
      (fun hc => by cases hc), fun _ => ⟨hent3, by rw [hins3, hins1]⟩⟩
    · show (ctxSeqs _).Perm _
      simp only [ctxSeqs, hent3, hz]
      rw [hnew, hutxo, hins3, hins1, flatMap_entSeqs_nil _ e2]
      simp only [ctxSeqs, List.append_eq_nil_iff] at hnil
      simp only [List.append_eq_nil_iff] at hnil1
      simp [hnil1.1, hnil1.2, hnil.1.2, hnil.2]
    · apply hcacheOK
      · intro j e hj s off hs
        rw [e2 e (List.mem_of_getElem? hj)] at hs; cases hs
      · exact v2
  | true =>
    simp only [hi, if_true] at hcase
    obtain ⟨ls', hls, hst, hins3, rfl⟩ := hcase
    obtain ⟨consumed, remaining, _, hperm, _, hcb, hu, _⟩ :=
      indexInscriptions_conserve _ _ _ _ _ _ _ _ hls
    have hmono := indexInscriptions_mono _ _ _ _ _ _ _ _ hls
    simp only at hperm hmono hu
    obtain ⟨_, _, hbase, _⟩ := indexInscriptions_frame _ _ _ _ _ _ _ _ hls
    simp only at hbase
    have hoOK := indexInscriptions_outsOK _ _ _ _ _ _ _ _ hls (by
      intro j e hj s off hs
      simp only at hj
      rw [e2 e (List.mem_of_getElem? hj)] at hs; cases hs)
    have hv3 : PW (fun o e => e.totalValue cfg = o.value) tx.outputs ls'.outs :=
      PW_of_map_base (fun o e e' hb he => (totalValue_congr' cfg e e' hb) ▸ he) hbase v2
    have hlen : bc.st.entries.length ≤ ls'.st.entries.length := by rw [← hent1]; exact hmono
    refine ⟨⟨hbinv, ?_, hinv.tblOK.sub (by rw [hutxo]; exact sub1), hcacheOK hoOK hv3⟩, by rw [hst]; exact hlen,
      fun _ hc => by rw [hins3]; exact hcb hc, fun hc => by cases hc⟩
    show (ctxSeqs _).Perm _
    simp only [hst]
    apply perm_range_extend (ctxSeqs bc) _ bc.st.entries.length _ hlen hinv.perm
    simp only [ctxSeqs]
    rw [hnew, hu, hins3]
    rw [hent1] at hperm
    simp only [located, flatMap_entSeqs_nil _ e2, List.nil_append, hins1] at hperm
    rw [List.perm_iff_count] at hperm p1 ⊢
    intro a
    have c1 := hperm a
    have c2 := p1 a
    simp only [located, List.count_append] at c1 c2 ⊢
    omega

end Ord.Index.InsLift
