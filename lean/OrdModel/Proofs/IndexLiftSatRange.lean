import OrdModel.Proofs.IndexLiftSatExactChain
import OrdModel.Proofs.IndexSatsRange
import OrdModel.Proofs.IndexSatsArith
/-
Sat-side lift, part 15 (C02, `find_range` completeness): on a table in which no sat occurs twice
`find_range` never trips over its `remaining_sats` accounting, and the sizes of the hits it
returns add up to the number of table sats inside the requested range — with soundness
(`c02_find_range_sound_partial`: every hit is a genuine overlap) that is "all overlaps are
returned".  On an exactly partitioned table (no duplicate txids) the sizes add up to the length
of the request.
-/
namespace Ord.Index
open Outcome

/-- sats of one range inside `[rs, re)` -/
def ovl (rs re : Nat) (r : Nat × Nat) : Nat := min r.2 re - max r.1 rs

/-- sats of a range list inside `[rs, re)` -/
def cntR (rs re : Nat) (R : Ranges) : Nat := (R.map (ovl rs re)).sum

theorem cntR_nil (rs re : Nat) : cntR rs re [] = 0 := rfl
theorem cntR_cons (rs re : Nat) (r : Nat × Nat) (R : Ranges) : cntR rs re (r :: R) = ovl rs re r + cntR rs re R := by
  simp [cntR]
theorem cntR_append (rs re : Nat) (a b : Ranges) : cntR rs re (a ++ b) = cntR rs re a + cntR rs re b := by
  simp [cntR]

/-- `cntR` counts the ordinals inside the request -/
theorem filter_range'_length (rs re s n : Nat) :
    ((List.range' s n).filter (fun x => decide (rs ≤ x ∧ x < re))).length = min (s + n) re - max s rs := by
  induction n with
  | zero => simp; omega
  | succ n ih =>
    rw [List.range'_concat, List.filter_append, List.length_append, ih]
    by_cases hp : rs ≤ s + n ∧ s + n < re
    · have : (List.filter (fun x => decide (rs ≤ x ∧ x < re)) [s + 1 * n]).length = 1 := by simp [hp]
      rw [this]; omega
    · have : (List.filter (fun x => decide (rs ≤ x ∧ x < re)) [s + 1 * n]).length = 0 := by simp [hp]
      rw [this]; omega

theorem cntR_eq_filter (rs re : Nat) (R : Ranges) (hw : WF R) :
    cntR rs re R = ((den R).filter (fun x => decide (rs ≤ x ∧ x < re))).length := by
  induction R with
  | nil => rfl
  | cons r R ih =>
    obtain ⟨s, e⟩ := r
    obtain ⟨hse, hw'⟩ := WF_cons.1 hw
    rw [cntR_cons, den_cons, List.filter_append, List.length_append, filter_range'_length, ih hw']
    simp only [ovl]
    have : s + (e - s) = e := by omega
    rw [this]

/-! ### the scan -/

theorem findRangeEntry_complete (rs re : Nat) (op : OutPoint) (R : Ranges) (hw : WF R) (off rem : Nat)
    (hle : cntR rs re R ≤ rem) :
    ∃ hits, findRangeEntry rs re op R off rem = .ok (rem - cntR rs re R, hits) ∧
      (hits.map (·.size)).sum = cntR rs re R := by
  induction R generalizing off rem with
  | nil => exact ⟨[], by simp [findRangeEntry, cntR_nil], by simp [cntR_nil]⟩
  | cons r R ih =>
    obtain ⟨s, e⟩ := r
    obtain ⟨hse, hw'⟩ := WF_cons.1 hw
    rw [cntR_cons] at hle ⊢
    simp only [findRangeEntry]
    by_cases hov : e > rs ∧ s < re
    · simp only [hov, and_self, if_true]
      have ho : ovl rs re (s, e) = min e re - max s rs := rfl
      have hnp : ¬ rem < min e re - max s rs := by omega
      simp only [hnp, if_false]
      by_cases hz : rem - (min e re - max s rs) = 0
      · simp only [hz, if_true]
        have hc0 : cntR rs re R = 0 := by omega
        refine ⟨[⟨max s rs, min e re - max s rs, ⟨op, off + max s rs - s⟩⟩], ?_, ?_⟩
        · congr 2; omega
        · simp [ho, hc0]
      · simp only [hz, if_false]
        obtain ⟨hits, h1, h2⟩ := ih hw' (off + (e - s)) (rem - (min e re - max s rs)) (by omega)
        rw [h1]
        refine ⟨⟨max s rs, min e re - max s rs, ⟨op, off + max s rs - s⟩⟩ :: hits, ?_, ?_⟩
        · simp only [Outcome.ok.injEq, Prod.mk.injEq, and_true]; omega
        · simp [h2, ho]
    · simp only [hov, if_false]
      have ho : ovl rs re (s, e) = 0 := by simp only [ovl]; omega
      obtain ⟨hits, h1, h2⟩ := ih hw' (off + (e - s)) rem (by omega)
      exact ⟨hits, by rw [h1, ho]; simp, by rw [h2, ho]; simp⟩

theorem findRangeUtxo_complete (rs re : Nat) (u : List (OutPoint × UtxoEntry)) (hw : WF (allRanges u)) (rem : Nat)
    (hle : cntR rs re (allRanges u) ≤ rem) :
    ∃ hits, findRangeUtxo rs re u rem = .ok hits ∧ (hits.map (·.size)).sum = cntR rs re (allRanges u) := by
  induction u generalizing rem with
  | nil => exact ⟨[], rfl, by simp [allRanges_nil, cntR_nil]⟩
  | cons p u ih =>
    obtain ⟨op, e⟩ := p
    rw [allRanges_cons] at hw hle ⊢
    rw [cntR_append] at hle ⊢
    obtain ⟨hits1, h1, s1⟩ := findRangeEntry_complete rs re op e.ranges (WF_append.1 hw).1 0 rem (by omega)
    obtain ⟨hits2, h2, s2⟩ := ih (WF_append.1 hw).2 (rem - cntR rs re e.ranges) (by omega)
    refine ⟨hits1 ++ hits2, ?_, by simp [s1, s2]⟩
    simp only [findRangeUtxo, h1, h2]

theorem length_filter_split (l : List Nat) (p : Nat → Bool) :
    (l.filter p).length + (l.filter (fun x => !p x)).length = l.length := by
  induction l with
  | nil => rfl
  | cons x l ih =>
    simp only [List.filter_cons]
    cases hp : p x <;> simp [hp] <;> omega

theorem nodup_filter_eq_length (l : List Nat) (hn : l.Nodup) (v : Nat) : (l.filter (fun x => x == v)).length ≤ 1 := by
  induction l with
  | nil => simp
  | cons x l ih =>
    simp only [List.nodup_cons] at hn
    simp only [List.filter_cons]
    by_cases hx : x = v
    · subst hx
      have : l.filter (fun y => y == x) = [] := by
        rw [List.filter_eq_nil_iff]
        intro a ha hc
        have : a = x := by simpa using hc
        subst this; exact hn.1 ha
      simp [this]
    · have : (x == v) = false := by simpa using hx
      simp only [this, Bool.false_eq_true, if_false]
      exact ih hn.2

/-- a duplicate-free list of naturals from `[a, a + n)` has at most `n` elements -/
theorem nodup_bounded_length (l : List Nat) (hn : l.Nodup) (a n : Nat) (h : ∀ x ∈ l, a ≤ x ∧ x < a + n) :
    l.length ≤ n := by
  induction n generalizing l with
  | zero =>
    cases l with
    | nil => simp
    | cons x l => have := h x (by simp); omega
  | succ n ih =>
    have h1 := ih (l.filter (fun x => !(x == a + n))) (hn.sublist List.filter_sublist) (by
      intro x hx
      simp only [List.mem_filter, Bool.not_eq_true', beq_eq_false_iff_ne, ne_eq] at hx
      have := h x hx.1
      omega)
    have h2 := nodup_filter_eq_length l hn (a + n)
    have h3 := length_filter_split l (fun x => x == a + n)
    omega

/-- in a duplicate-free list of naturals at most `re − rs` lie in `[rs, re)` -/
theorem filter_nodup_length_le (l : List Nat) (hn : l.Nodup) (rs re : Nat) :
    (l.filter (fun x => decide (rs ≤ x ∧ x < re))).length ≤ re - rs := by
  have hsub : ∀ x ∈ l.filter (fun x => decide (rs ≤ x ∧ x < re)), x ∈ List.range' rs (re - rs) := by
    intro x hx
    simp only [List.mem_filter, decide_eq_true_eq] at hx
    simp only [List.mem_range'_1]; omega
  have hnd : (l.filter (fun x => decide (rs ≤ x ∧ x < re))).Nodup := hn.sublist List.filter_sublist
  apply nodup_bounded_length _ hnd rs (re - rs)
  intro x hx
  have := hsub x hx
  simp only [List.mem_range'_1] at this
  omega

theorem filter_perm_range_length (l : List Nat) (N : Nat) (hp : l.Perm (List.range N)) (rs re : Nat)
    (hle : rs ≤ re) (hre : re ≤ N) : (l.filter (fun x => decide (rs ≤ x ∧ x < re))).length = re - rs := by
  rw [(hp.filter _).length_eq, List.range_eq_range', filter_range'_length]
  omega

/-- **`find_range` is complete on a partitioned table**: it does not panic, and the sizes of its
hits add up to the number of table sats inside the request -/
theorem findRange_complete (st : State) (inv : SatsPartitioned st) (rs re : Nat) (hle : rs ≤ re) (h0 : re ≠ 0)
    (hs : epochSubsidy (satEpoch (re - 1)) ≠ 0) (hh : satHeight (re - 1) < st.height) :
    ∃ hits, findRange st rs re = .ok (some hits) ∧
      (hits.map (·.size)).sum = ((allSats st.utxo).filter (fun x => decide (rs ≤ x ∧ x < re))).length := by
  have hcnt := cntR_eq_filter rs re (allRanges st.utxo) inv.wf
  have hbound := filter_nodup_length_le (allSats st.utxo) inv.nodup rs re
  obtain ⟨hits, h1, h2⟩ := findRangeUtxo_complete rs re st.utxo inv.wf (re - rs) (by rw [hcnt]; exact hbound)
  refine ⟨hits, ?_, by rw [h2, hcnt]; rfl⟩
  have hn1 : ¬ st.height < satHeight (re - 1) + 1 := by omega
  have hn2 : ¬ re < rs := by omega
  simp [findRange, h0, satHeightO, hs, hn1, hn2, h1]

/-- … and on an exactly partitioned table a fully mined request is covered completely -/
theorem findRange_exact (st : State) (inv : SatsPartitionedExact st) (rs re : Nat) (hlt : rs < re)
    (hm : re ≤ startingSat st.height) :
    ∃ hits, findRange st rs re = .ok (some hits) ∧ (hits.map (·.size)).sum = re - rs := by
  obtain ⟨h1, h2⟩ := satHeight_lt_of_lt_startingSat (re - 1) st.height (by omega)
  obtain ⟨hits, hf, hsum⟩ := findRange_complete st inv.toSatsPartitioned rs re (by omega) (by omega) h1 h2
  refine ⟨hits, hf, ?_⟩
  rw [hsum]
  exact filter_perm_range_length _ _ inv.perm rs re (by omega) hm

end Ord.Index
