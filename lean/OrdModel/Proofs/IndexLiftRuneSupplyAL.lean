import OrdModel.Proofs.IndexRunesupplyTx
import OrdModel.Index.OracleRunesupply
/-
Rune lift, part 2a: list-level facts about the balances table needed to carry the C08 supply
equation (`Oracle.supplyIn`, a sum over the stored rows) through one transaction:

* `AL.set` on an absent key appends, `AL.erase` removes the row `AL.get` finds;
* `spendAll` removes exactly what `inputRunes` counts;
* `writeOutputs` appends exactly `newRows` (one sorted row per non-empty, non-OP_RETURN output);
* rows written by a transaction contain no zero balance (`PosAlloc` through `allocate`,
  the edict loop and the leftover rule);
* a transaction that `indexRunesTx` accepts is well formed (edict outputs ≤ n, pointer < n): the
  model asserts both, so `Spec.WellFormed` is not a hypothesis of the chain-level theorem.
Builds on `Proofs/IndexRunesupply*.lean` (C08/C09), imported.
-/
namespace Ord.Index.RuneLift
open Ord.Index Ord.Index.Spec Ord.Index.RS Ord.Index.Oracle Ord.Outcome

section generic
variable {κ ν : Type} [BEq κ] [LawfulBEq κ]

theorem al_set_absent (l : List (κ × ν)) (k : κ) (v : ν) (h : AL.get l k = none) :
    AL.set l k v = l ++ [(k, v)] := by
  induction l with
  | nil => rfl
  | cons p rest ih =>
    obtain ⟨k0, v0⟩ := p
    simp only [AL.get] at h
    split at h
    · simp at h
    · rename_i hk
      simp [AL.set, hk, ih h]

theorem mem_of_get {l : List (κ × ν)} {k : κ} {v : ν} (h : AL.get l k = some v) : (k, v) ∈ l := by
  induction l with
  | nil => simp [AL.get] at h
  | cons p rest ih =>
    obtain ⟨k0, v0⟩ := p
    simp only [AL.get] at h
    split at h
    · rename_i hk
      have : k0 = k := by simpa using hk
      simp only [Option.some.injEq] at h
      subst this; subst h
      exact List.mem_cons_self
    · exact List.mem_cons_of_mem _ (ih h)

theorem get_of_mem_nodup {l : List (κ × ν)} {k : κ} {v : ν} (hn : (keys l).Nodup) (h : (k, v) ∈ l) :
    AL.get l k = some v := by
  induction l with
  | nil => simp at h
  | cons p rest ih =>
    obtain ⟨k0, v0⟩ := p
    simp only [keys_cons, List.nodup_cons] at hn
    rcases List.mem_cons.1 h with h | h
    · simp only [Prod.mk.injEq] at h
      obtain ⟨rfl, rfl⟩ := h
      simp [AL.get]
    · have hne : ¬ k0 = k := by
        intro e; subst e
        exact hn.1 (List.mem_map.2 ⟨(k0, v), h, rfl⟩)
      have hb : (k0 == k) = false := by simpa using hne
      simp only [AL.get, hb]
      exact ih hn.2 h

theorem mem_erase {l : List (κ × ν)} {k : κ} {p : κ × ν} (h : p ∈ AL.erase l k) : p ∈ l := by
  induction l with
  | nil => simp [AL.erase] at h
  | cons q rest ih =>
    obtain ⟨k0, v0⟩ := q
    simp only [AL.erase] at h
    split at h
    · exact List.mem_cons_of_mem _ h
    · rcases List.mem_cons.1 h with h | h
      · exact h ▸ List.mem_cons_self
      · exact List.mem_cons_of_mem _ (ih h)

theorem mem_set {l : List (κ × ν)} {k : κ} {v : ν} {p : κ × ν} (h : p ∈ AL.set l k v) : p = (k, v) ∨ p ∈ l := by
  induction l with
  | nil => simp [AL.set] at h; exact Or.inl h
  | cons q rest ih =>
    obtain ⟨k0, v0⟩ := q
    simp only [AL.set] at h
    split at h
    · rcases List.mem_cons.1 h with h | h
      · exact Or.inl h
      · exact Or.inr (List.mem_cons_of_mem _ h)
    · rcases List.mem_cons.1 h with h | h
      · exact Or.inr (h ▸ List.mem_cons_self)
      · rcases ih h with h | h
        · exact Or.inl h
        · exact Or.inr (List.mem_cons_of_mem _ h)

theorem get_ne_none_of_mem_keys {l : List (κ × ν)} {k : κ} (h : k ∈ keys l) : AL.get l k ≠ none :=
  fun hn => (get_eq_none_iff l k).1 hn h

theorem get_set_ne_none {l : List (κ × ν)} {k k' : κ} {v : ν} (h : AL.get l k' ≠ none) :
    AL.get (AL.set l k v) k' ≠ none := by
  rw [get_set]; split
  · simp
  · exact h

end generic

/-! ### `supplyIn` -/

theorem supplyIn_append (a b : List (OutPoint × Balances)) (r : RuneId) :
    supplyIn (a ++ b) r = supplyIn a r + supplyIn b r := by
  induction a with
  | nil => simp [supplyIn]
  | cons p rest ih =>
    obtain ⟨o, row⟩ := p
    simp only [List.cons_append, supplyIn, ih]; omega

theorem supplyIn_erase {bal : List (OutPoint × Balances)} {o : OutPoint} {row : Balances}
    (h : AL.get bal o = some row) (r : RuneId) :
    supplyIn bal r = supplyIn (AL.erase bal o) r + lk row r := by
  induction bal with
  | nil => simp [AL.get] at h
  | cons p rest ih =>
    obtain ⟨o0, row0⟩ := p
    simp only [AL.get] at h
    split at h
    · rename_i hk
      simp only [Option.some.injEq] at h
      subst h
      simp only [AL.erase, hk, if_true, supplyIn]; omega
    · rename_i hk
      simp only [AL.erase, hk, supplyIn]
      rw [ih h]; simp only [Bool.false_eq_true, if_false, supplyIn]; omega

theorem supplyIn_zero {bal : List (OutPoint × Balances)} {r : RuneId}
    (h : ∀ p ∈ bal, r ∉ keys p.2) : supplyIn bal r = 0 := by
  induction bal with
  | nil => rfl
  | cons p rest ih =>
    obtain ⟨o, row⟩ := p
    simp only [supplyIn]
    have h1 : lk row r = 0 :=
      lk_eq_zero_of_get_none ((get_eq_none_iff row r).2 (h (o, row) List.mem_cons_self))
    rw [h1, ih (fun p hp => h p (List.mem_cons_of_mem _ hp))]

theorem rowSum_eq_lk (row : Balances) (hn : (keys row).Nodup) (r : RuneId) : rowSum row r = lk row r := by
  induction row with
  | nil => rfl
  | cons p rest ih =>
    obtain ⟨id, b⟩ := p
    simp only [keys_cons, List.nodup_cons] at hn
    simp only [rowSum, ih hn.2]
    by_cases hr : id = r
    · subst hr
      have : AL.get rest id = none := (get_eq_none_iff rest id).2 hn.1
      simp [lk, AL.get, this]
    · have : (id == r) = false := by simpa using hr
      simp [lk, AL.get, this, hr]

theorem rowSum_pos {row : Balances} {r : RuneId} (h : 0 < rowSum row r) : ∃ b, (r, b) ∈ row := by
  induction row with
  | nil => simp [rowSum] at h
  | cons p rest ih =>
    obtain ⟨id, b⟩ := p
    simp only [rowSum] at h
    by_cases hr : id = r
    · subst hr; exact ⟨b, List.mem_cons_self⟩
    · simp only [hr, if_false, Nat.zero_add] at h
      obtain ⟨b', hb'⟩ := ih h
      exact ⟨b', List.mem_cons_of_mem _ hb'⟩

/-- a row's lookup equals the member's value when no id repeats -/
theorem lk_of_mem {row : Balances} {id : RuneId} {b : Nat} (hn : (keys row).Nodup) (h : (id, b) ∈ row) :
    lk row id = b := lk_of_get_some (get_of_mem_nodup hn h)

/-! ### `spendAll` / `inputRunes` -/

theorem mem_spendAll : ∀ (ins : List TxIn) (bal : List (OutPoint × Balances)) (p : OutPoint × Balances),
    p ∈ spendAll bal ins → p ∈ bal := by
  intro ins
  induction ins with
  | nil => intro bal p h; exact h
  | cons i rest ih =>
    intro bal p h
    simp only [spendAll] at h
    split at h
    · exact ih bal p h
    · exact mem_erase (ih _ p h)

theorem spendAll_supply : ∀ (ins : List TxIn) (bal : List (OutPoint × Balances)),
    (∀ p ∈ bal, (keys p.2).Nodup) → ∀ r,
    supplyIn bal r = supplyIn (spendAll bal ins) r + inputRunes bal ins r := by
  intro ins
  induction ins with
  | nil => intro bal _ r; simp [spendAll, inputRunes]
  | cons i rest ih =>
    intro bal hrows r
    simp only [spendAll, inputRunes]
    cases hg : AL.get bal i.prev with
    | none => simp only; exact ih bal hrows r
    | some row =>
      simp only
      have hrow : (keys row).Nodup := hrows (i.prev, row) (mem_of_get hg)
      rw [supplyIn_erase hg r, ih (AL.erase bal i.prev) (fun p hp => hrows p (mem_erase hp)) r,
        rowSum_eq_lk row hrow r]
      omega

theorem inputRunes_pos : ∀ (ins : List TxIn) (bal : List (OutPoint × Balances)) (r : RuneId),
    0 < inputRunes bal ins r → ∃ o row b, (o, row) ∈ bal ∧ (r, b) ∈ row := by
  intro ins
  induction ins with
  | nil => intro bal r h; simp [inputRunes] at h
  | cons i rest ih =>
    intro bal r h
    simp only [inputRunes] at h
    cases hg : AL.get bal i.prev with
    | none =>
      rw [hg] at h
      exact ih bal r h
    | some row =>
      rw [hg] at h
      simp only at h
      by_cases h1 : 0 < rowSum row r
      · obtain ⟨b, hb⟩ := rowSum_pos h1
        exact ⟨i.prev, row, b, mem_of_get hg, hb⟩
      · have h2 : 0 < inputRunes (AL.erase bal i.prev) rest r := by omega
        obtain ⟨o, row', b, hm, hb⟩ := ih _ r h2
        exact ⟨o, row', b, mem_erase hm, hb⟩

/-! ### `sortBalances` keeps members -/

theorem mem_ins (a : RuneId × Nat) (l : Balances) (x : RuneId × Nat) :
    x ∈ sortBalances.ins a l ↔ x = a ∨ x ∈ l := by
  induction l with
  | nil => simp [sortBalances.ins]
  | cons b rest ih =>
    simp only [sortBalances.ins]
    split
    · simp
    · simp only [List.mem_cons, ih]
      constructor
      · rintro (h | h | h)
        · exact Or.inr (Or.inl h)
        · exact Or.inl h
        · exact Or.inr (Or.inr h)
      · rintro (h | h | h)
        · exact Or.inr (Or.inl h)
        · exact Or.inl h
        · exact Or.inr (Or.inr h)

theorem mem_sort (l : Balances) (x : RuneId × Nat) : x ∈ sortBalances l ↔ x ∈ l := by
  induction l with
  | nil => simp [sortBalances]
  | cons a rest ih => rw [sortBalances_cons, mem_ins, ih]; simp

theorem nodup_ins (a : RuneId × Nat) (l : Balances) (ha : a.1 ∉ keys l) (hn : (keys l).Nodup) :
    (keys (sortBalances.ins a l)).Nodup := by
  induction l with
  | nil => simp [sortBalances.ins, keys]
  | cons b rest ih =>
    obtain ⟨kb, vb⟩ := b
    obtain ⟨ka, va⟩ := a
    simp only [keys_cons, List.mem_cons, not_or] at ha
    simp only [keys_cons, List.nodup_cons] at hn
    simp only [sortBalances.ins]
    split
    · simp only [keys_cons, List.nodup_cons, List.mem_cons, not_or]
      exact ⟨⟨ha.1, ha.2⟩, hn.1, hn.2⟩
    · simp only [keys_cons, List.nodup_cons]
      refine ⟨fun hm => ?_, ih ha.2 hn.2⟩
      rcases (mem_keys_ins (ka, va) rest kb).1 hm with h | h
      · exact ha.1 h.symm
      · exact hn.1 h

theorem nodup_sort (l : Balances) (hn : (keys l).Nodup) : (keys (sortBalances l)).Nodup := by
  induction l with
  | nil => simp [sortBalances, keys]
  | cons a rest ih =>
    obtain ⟨ka, va⟩ := a
    simp only [keys_cons, List.nodup_cons] at hn
    rw [sortBalances_cons]
    exact nodup_ins (ka, va) _ (by rw [mem_keys_sort]; exact hn.1) (ih hn.2)

theorem sort_ne_nil {l : Balances} (h : l ≠ []) : sortBalances l ≠ [] := by
  cases l with
  | nil => exact absurd rfl h
  | cons a rest =>
    intro hs
    have : a ∈ sortBalances (a :: rest) := (mem_sort _ _).2 List.mem_cons_self
    rw [hs] at this; simp at this

/-! ### what `writeOutputs` appends -/

/-- the rows one transaction writes: one sorted row per non-empty allocation on a non-OP_RETURN output -/
def newRows (tx : Tx) : Nat → List Balances → List (OutPoint × Balances)
  | _, [] => []
  | j, bs :: rest =>
    (if bs.isEmpty = true ∨ opretAt tx j = true then [] else [(⟨tx.txid, j⟩, sortBalances bs)]) ++
      newRows tx (j + 1) rest

theorem writeOutputs_balances (blk : Block) (tx : Tx) : ∀ (rows : List Balances) (j : Nat) (st : State)
    (burned : Balances) (evs : List Event) (st' : State) (burned' : Balances) (evs' : List Event),
    writeOutputs blk tx (enumFrom j rows) st burned evs = .ok (st', burned', evs') →
    (∀ v, j ≤ v → AL.get st.balances ⟨tx.txid, v⟩ = none) →
    st'.balances = st.balances ++ newRows tx j rows := by
  intro rows
  induction rows with
  | nil =>
    intro j st burned evs st' burned' evs' h _
    simp only [enumFrom, writeOutputs, Outcome.ok.injEq, Prod.mk.injEq] at h
    obtain ⟨rfl, _, _⟩ := h
    simp [newRows]
  | cons b rest ih =>
    intro j st burned evs st' burned' evs' h hfresh
    simp only [enumFrom, writeOutputs] at h
    have hfresh1 : ∀ v, j + 1 ≤ v → AL.get st.balances ⟨tx.txid, v⟩ = none := fun v hv => hfresh v (by omega)
    by_cases hemp : b.isEmpty = true
    · rw [if_pos hemp] at h
      rw [ih (j + 1) st burned evs st' burned' evs' h hfresh1]
      simp [newRows, hemp]
    · rw [if_neg hemp] at h
      have hwrite : ∀ evs1, opretAt tx j = false →
          writeOutputs blk tx (enumFrom (j + 1) rest)
            { st with balances := AL.set st.balances ⟨tx.txid, j⟩ (sortBalances b) } burned evs1
            = .ok (st', burned', evs') →
          st'.balances = st.balances ++ newRows tx j (b :: rest) := by
        intro evs1 hopr h
        have hset : AL.set st.balances ⟨tx.txid, j⟩ (sortBalances b) =
            st.balances ++ [(⟨tx.txid, j⟩, sortBalances b)] := al_set_absent _ _ _ (hfresh j (Nat.le_refl _))
        have hfresh2 : ∀ v, j + 1 ≤ v →
            AL.get ({ st with balances := AL.set st.balances ⟨tx.txid, j⟩ (sortBalances b) } : State).balances
              ⟨tx.txid, v⟩ = none := by
          intro v hv
          show AL.get (AL.set st.balances _ _) _ = none
          rw [get_set]
          have : ¬ ((⟨tx.txid, j⟩ : OutPoint) = ⟨tx.txid, v⟩) := by
            intro e
            have := congrArg OutPoint.vout e
            simp at this; omega
          have hb : ((⟨tx.txid, j⟩ : OutPoint) == ⟨tx.txid, v⟩) = false := by simpa using this
          rw [hb]; exact hfresh1 v hv
        rw [ih (j + 1) _ burned _ st' burned' evs' h hfresh2]
        show AL.set st.balances _ _ ++ _ = _
        rw [hset]
        simp [newRows, hemp, hopr]
      cases hout : tx.outputs[j]? with
      | none =>
        rw [hout] at h
        simp only [Bool.false_eq_true, if_false] at h
        exact hwrite _ (by simp [opretAt, hout]) h
      | some o =>
        rw [hout] at h
        by_cases ho : o.opReturn = true
        · have hopr : opretAt tx j = true := by simp [opretAt, hout, ho]
          simp only [ho, if_true] at h
          split at h
          · rename_i burned1 hadd
            rw [ih (j + 1) st burned1 evs st' burned' evs' h hfresh1]
            simp [newRows, hopr]
          · exact absurd h (by simp)
          · exact absurd h (by simp)
        · have ho' : o.opReturn = false := by simpa using ho
          simp only [ho', Bool.false_eq_true, if_false] at h
          exact hwrite _ (by simp [opretAt, hout, ho']) h

theorem mem_newRows (tx : Tx) : ∀ (rows : List Balances) (j : Nat) (p : OutPoint × Balances),
    p ∈ newRows tx j rows →
    ∃ k bs, rows[k]? = some bs ∧ bs ≠ [] ∧ opretAt tx (j + k) = false ∧ p = (⟨tx.txid, j + k⟩, sortBalances bs) := by
  intro rows
  induction rows with
  | nil => intro j p h; simp [newRows] at h
  | cons b rest ih =>
    intro j p h
    simp only [newRows, List.mem_append] at h
    rcases h with h | h
    · by_cases hc : b.isEmpty = true ∨ opretAt tx j = true
      · rw [if_pos hc] at h; exact absurd h (by simp)
      · rw [if_neg hc] at h
        simp only [not_or] at hc
        simp only [List.mem_singleton] at h
        refine ⟨0, b, by simp, ?_, by simpa using hc.2, by simpa using h⟩
        intro hb; subst hb; simp at hc
    · obtain ⟨k, bs, hk, hne, hop, hp⟩ := ih (j + 1) p h
      refine ⟨k + 1, bs, by simpa using hk, hne, ?_, ?_⟩
      · have e : j + (k + 1) = j + 1 + k := by omega
        rw [e]; exact hop
      · have e : j + (k + 1) = j + 1 + k := by omega
        rw [e]; exact hp

theorem supplyIn_newRows (tx : Tx) (r : RuneId) (g : Nat → Nat) : ∀ (rows : List Balances) (j : Nat),
    (∀ k (h : k < rows.length), g (j + k) =
      if rows[k].isEmpty = true ∨ opretAt tx (j + k) = true then 0 else lk (sortBalances rows[k]) r) →
    supplyIn (newRows tx j rows) r = sumFrom g j rows.length := by
  intro rows
  induction rows with
  | nil => intro j _; rfl
  | cons b rest ih =>
    intro j hg
    simp only [newRows, List.length_cons, sumFrom, supplyIn_append]
    have h0 := hg 0 (by simp)
    simp only [Nat.add_zero, List.getElem_cons_zero] at h0
    rw [h0, ih (j + 1) (fun k hk => by
      have := hg (k + 1) (by simp; omega)
      have e : j + (k + 1) = j + 1 + k := by omega
      rw [e] at this
      simpa using this)]
    congr 1
    by_cases hc : b.isEmpty = true ∨ opretAt tx j = true
    · rw [if_pos hc, if_pos hc]; rfl
    · rw [if_neg hc, if_neg hc]; simp [supplyIn]

theorem sumFrom_ge (g : Nat → Nat) : ∀ (len i v : Nat), i ≤ v → v < i + len → g v ≤ sumFrom g i len := by
  intro len
  induction len with
  | zero => intro i v h1 h2; omega
  | succ n ih =>
    intro i v h1 h2
    simp only [sumFrom]
    by_cases hv : v = i
    · subst hv; omega
    · have := ih (i + 1) v (by omega) (by omega); omega

/-! ### no zero balance in a written row -/

def PosRow (m : Balances) : Prop := ∀ p ∈ m, 0 < p.2
def PosAlloc (alloc : Allocated) : Prop := ∀ m ∈ alloc, PosRow m

theorem posRow_nil : PosRow [] := fun _ h => by simp at h

theorem addLot_pos {m m' : Balances} {id : RuneId} {a : Nat} (h : addLot m id a = .ok m') (hm : PosRow m)
    (ha : 0 < a) : PosRow m' := by
  rw [addLot_ok h]
  intro p hp
  rcases mem_set hp with rfl | hp
  · show 0 < lk m id + a; omega
  · exact hm p hp

theorem allocate_pos {un : Balances} {alloc : Allocated} {id : RuneId} {amount output : Nat}
    {un' : Balances} {alloc' : Allocated}
    (h : allocate un alloc id amount output = .ok (un', alloc')) (hp : PosAlloc alloc) : PosAlloc alloc' := by
  unfold allocate at h
  split at h
  · simp only [Outcome.ok.injEq, Prod.mk.injEq] at h
    obtain ⟨_, rfl⟩ := h; exact hp
  · rename_i hnz
    simp only at h
    split at h
    · exact absurd h (by simp)
    · split at h
      · exact absurd h (by simp)
      · rename_i m hm
        split at h
        · rename_i m' hadd
          simp only [Outcome.ok.injEq, Prod.mk.injEq] at h
          obtain ⟨_, rfl⟩ := h
          intro x hx
          rcases List.mem_or_eq_of_mem_set hx with hx | rfl
          · exact hp x hx
          · exact addLot_pos hadd (hp m (List.mem_of_getElem? hm)) (by omega)
        · exact absurd h (by simp)
        · exact absurd h (by simp)

theorem allocateEach_pos (id : RuneId) : ∀ (L : List (Nat × Nat)) (un : Balances) (alloc : Allocated)
    (un' : Balances) (alloc' : Allocated),
    allocateEach id L un alloc = .ok (un', alloc') → PosAlloc alloc → PosAlloc alloc' := by
  intro L
  induction L with
  | nil =>
    intro un alloc un' alloc' h hp
    simp only [allocateEach, Outcome.ok.injEq, Prod.mk.injEq] at h
    obtain ⟨_, rfl⟩ := h; exact hp
  | cons p rest ih =>
    intro un alloc un' alloc' h hp
    obtain ⟨a, o⟩ := p
    simp only [allocateEach] at h
    split at h
    · rename_i un1 alloc1 h1
      exact ih un1 alloc1 un' alloc' h (allocate_pos h1 hp)
    · exact absurd h (by simp)
    · exact absurd h (by simp)

theorem allocateCapped_pos (id : RuneId) (amount : Nat) : ∀ (dests : List Nat) (un : Balances) (alloc : Allocated)
    (un' : Balances) (alloc' : Allocated),
    allocateCapped id amount dests un alloc = .ok (un', alloc') → PosAlloc alloc → PosAlloc alloc' := by
  intro dests
  induction dests with
  | nil =>
    intro un alloc un' alloc' h hp
    simp only [allocateCapped, Outcome.ok.injEq, Prod.mk.injEq] at h
    obtain ⟨_, rfl⟩ := h; exact hp
  | cons v rest ih =>
    intro un alloc un' alloc' h hp
    simp only [allocateCapped] at h
    split at h
    · rename_i un1 alloc1 h1
      exact ih un1 alloc1 un' alloc' h (allocate_pos h1 hp)
    · exact absurd h (by simp)
    · exact absurd h (by simp)

theorem applyEdict_pos {tx : Tx} {etched : Option RuneId} {ed : Edict} {un : Balances} {alloc : Allocated}
    {un' : Balances} {alloc' : Allocated}
    (h : applyEdict tx etched ed un alloc = .ok (un', alloc')) (hp : PosAlloc alloc) :
    PosAlloc alloc' ∧ ed.output ≤ tx.outputs.length := by
  unfold applyEdict at h
  simp only at h
  split at h
  · exact absurd h (by simp)
  · rename_i hout
    refine ⟨?_, by omega⟩
    generalize (if ed.id == (⟨0, 0⟩ : RuneId) then etched else some ed.id) = idO at h
    split at h
    · simp only [Outcome.ok.injEq, Prod.mk.injEq] at h
      obtain ⟨_, rfl⟩ := h; exact hp
    · split at h
      · simp only [Outcome.ok.injEq, Prod.mk.injEq] at h
        obtain ⟨_, rfl⟩ := h; exact hp
      · split at h
        · split at h
          · simp only [Outcome.ok.injEq, Prod.mk.injEq] at h
            obtain ⟨_, rfl⟩ := h; exact hp
          · split at h
            · exact allocateEach_pos _ _ _ _ _ _ h hp
            · exact allocateCapped_pos _ _ _ _ _ _ _ h hp
        · exact allocate_pos h hp

theorem applyEdicts_pos (tx : Tx) (etched : Option RuneId) : ∀ (edicts : List Edict) (un : Balances)
    (alloc : Allocated) (un' : Balances) (alloc' : Allocated),
    applyEdicts tx etched edicts un alloc = .ok (un', alloc') → PosAlloc alloc →
    PosAlloc alloc' ∧ ∀ ed ∈ edicts, ed.output ≤ tx.outputs.length := by
  intro edicts
  induction edicts with
  | nil =>
    intro un alloc un' alloc' h hp
    simp only [applyEdicts, Outcome.ok.injEq, Prod.mk.injEq] at h
    obtain ⟨_, rfl⟩ := h; exact ⟨hp, fun _ h => by simp at h⟩
  | cons ed rest ih =>
    intro un alloc un' alloc' h hp
    simp only [applyEdicts] at h
    split at h
    · rename_i un1 alloc1 h1
      obtain ⟨hp1, ho1⟩ := applyEdict_pos h1 hp
      obtain ⟨hp2, ho2⟩ := ih un1 alloc1 un' alloc' h hp1
      refine ⟨hp2, fun e he => ?_⟩
      rcases List.mem_cons.1 he with rfl | he
      · exact ho1
      · exact ho2 e he
    · exact absurd h (by simp)
    · exact absurd h (by simp)

theorem addAllTo_pos : ∀ (src acc acc' : Balances), addAllTo src acc true = .ok acc' → PosRow acc → PosRow acc' := by
  intro src
  induction src with
  | nil =>
    intro acc acc' h hp
    simp only [addAllTo, Outcome.ok.injEq] at h
    subst h; exact hp
  | cons p rest ih =>
    intro acc acc' h hp
    obtain ⟨id, b⟩ := p
    simp only [addAllTo] at h
    split at h
    · exact ih acc acc' h hp
    · rename_i hz
      have hb : 0 < b := by
        simp only [Bool.true_and, beq_iff_eq] at hz; omega
      split at h
      · rename_i acc1 hadd
        exact ih acc1 acc' h (addLot_pos hadd hp hb)
      · exact absurd h (by simp)
      · exact absurd h (by simp)

/-- what `phase1` hands on: the initial maps, or the result of the premine / edict stage -/
theorem phase1_alloc {st0 : State} {un0 : Balances} {alloc0 : Allocated} {blk : Block} {i : Nat} {tx : Tx}
    {st3 : State} {un : Balances} {alloc : Allocated} {evs : List Event}
    (h : phase1 st0 un0 alloc0 blk i tx = .ok (st3, un, alloc, evs)) :
    (tx.artifact = none ∧ alloc = alloc0) ∨
    ∃ art et un1, tx.artifact = some art ∧ afterEdictsOf tx art et un1 alloc0 = .ok (un, alloc) := by
  unfold phase1 at h
  cases hart : tx.artifact with
  | none =>
    rw [hart] at h
    simp only [Outcome.ok.injEq, Prod.mk.injEq] at h
    exact Or.inl ⟨rfl, h.2.2.1.symm⟩
  | some art =>
    rw [hart] at h
    simp only at h
    cases hms : mintStep st0 un0 blk tx art with
    | mk st1 rest =>
      obtain ⟨un1O, ev1⟩ := rest
      rw [hms] at h
      simp only at h
      cases un1O with
      | panic s => exact absurd h (by simp)
      | err e => exact absurd h (by simp)
      | ok un1 =>
        simp only at h
        cases hE : etched st1 blk i tx art with
        | panic s => rw [hE] at h; exact absurd h (by simp)
        | err e => rw [hE] at h; exact absurd h (by simp)
        | ok p2 =>
          obtain ⟨st2, et⟩ := p2
          rw [hE] at h
          simp only at h
          cases hA : afterEdictsOf tx art et un1 alloc0 with
          | panic s => rw [hA] at h; exact absurd h (by simp)
          | err e => rw [hA] at h; exact absurd h (by simp)
          | ok p3 =>
            obtain ⟨un3, alloc1⟩ := p3
            rw [hA] at h
            simp only at h
            refine Or.inr ⟨art, et, un1, rfl, ?_⟩
            cases et with
            | none =>
              simp only [Outcome.ok.injEq, Prod.mk.injEq] at h
              obtain ⟨_, rfl, rfl, _⟩ := h
              exact hA
            | some p =>
              obtain ⟨id, rune⟩ := p
              simp only [Outcome.ok.injEq, Prod.mk.injEq] at h
              obtain ⟨_, rfl, rfl, _⟩ := h
              exact hA

theorem afterEdictsOf_pos {tx : Tx} {art : Artifact} {et : Option (RuneId × Nat)} {un1 : Balances}
    {alloc0 : Allocated} {un : Balances} {alloc : Allocated}
    (h : afterEdictsOf tx art et un1 alloc0 = .ok (un, alloc)) (hp : PosAlloc alloc0) :
    PosAlloc alloc ∧ ∀ edicts e m p, art = .runestone edicts e m p → ∀ ed ∈ edicts, ed.output ≤ tx.outputs.length := by
  cases art with
  | cenotaph ce cm =>
    simp only [afterEdictsOf, Outcome.ok.injEq, Prod.mk.injEq] at h
    obtain ⟨_, rfl⟩ := h
    exact ⟨hp, fun _ _ _ _ h => by cases h⟩
  | runestone edicts etching m ptr =>
    simp only [afterEdictsOf] at h
    split at h
    · exact absurd h (by simp)
    · exact absurd h (by simp)
    · rename_i un2 _
      obtain ⟨h1, h2⟩ := applyEdicts_pos tx _ edicts un2 alloc0 un alloc h hp
      refine ⟨h1, fun edicts' e' m' p' he => ?_⟩
      cases he
      exact h2

theorem phase2_shape {tx : Tx} {un : Balances} {alloc alloc2 : Allocated} {burned0 : Balances}
    (h : phase2 tx un alloc = .ok (alloc2, burned0)) :
    (alloc2 = alloc ∨ ∃ v m, addAllTo un (alloc[v]?.getD []) true = .ok m ∧ alloc2 = alloc.set v m) ∧
    (∀ edicts e m p, tx.artifact = some (.runestone edicts e m (some p)) → p < alloc.length) := by
  constructor
  · unfold phase2 at h
    split at h
    · split at h
      · simp only [Outcome.ok.injEq, Prod.mk.injEq] at h
        exact Or.inl h.1.symm
      · exact absurd h (by simp)
      · exact absurd h (by simp)
    · simp only at h
      split at h
      · split at h
        · exact absurd h (by simp)
        · split at h
          · rename_i m hm
            simp only [Outcome.ok.injEq, Prod.mk.injEq] at h
            exact Or.inr ⟨_, m, hm, h.1.symm⟩
          · exact absurd h (by simp)
          · exact absurd h (by simp)
      · split at h
        · split at h
          · rename_i m hm
            simp only [Outcome.ok.injEq, Prod.mk.injEq] at h
            exact Or.inr ⟨_, m, hm, h.1.symm⟩
          · exact absurd h (by simp)
          · exact absurd h (by simp)
        · split at h
          · simp only [Outcome.ok.injEq, Prod.mk.injEq] at h
            exact Or.inl h.1.symm
          · exact absurd h (by simp)
          · exact absurd h (by simp)
  · intro edicts e m p hart
    unfold phase2 at h
    rw [hart] at h
    simp only at h
    split at h
    · exact absurd h (by simp)
    · omega

theorem phase2_pos {tx : Tx} {un : Balances} {alloc alloc2 : Allocated} {burned0 : Balances}
    (h : phase2 tx un alloc = .ok (alloc2, burned0)) (hp : PosAlloc alloc) : PosAlloc alloc2 := by
  rcases (phase2_shape h).1 with rfl | ⟨v, m, hm, rfl⟩
  · exact hp
  · intro x hx
    rcases List.mem_or_eq_of_mem_set hx with hx | rfl
    · exact hp x hx
    · apply addAllTo_pos _ _ _ hm
      cases hv : alloc[v]? with
      | none => exact posRow_nil
      | some row => exact hp row (List.mem_of_getElem? hv)

end Ord.Index.RuneLift
