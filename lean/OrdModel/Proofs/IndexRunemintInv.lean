import OrdModel.Proofs.IndexRunemintTx
/-
Group `runemint`, helper lemmas 4: the invariant of the rune tables (`RInv`) and its preservation
by `mint`, `etched`, `createRuneEntry`, one transaction, `flushBurned`, one block.
-/
namespace Ord.Index.Runemint
open Ord.Index

/-- id strictly before position `(H, T)` in (block, transaction) order -/
def idBefore (id : RuneId) (H T : Nat) : Prop := id.block < H ∨ (id.block = H ∧ id.tx < T)

/-- Invariant of the rune tables while block `H` is being indexed and transactions `< T` are
done (between blocks: `T = 0`). -/
structure RInv (st : State) (H T : Nat) : Prop where
  /-- an entry's id is (its etching block, a 32-bit tx index) and lies before `(H, T)` -/
  ids : ∀ id e, AL.get st.runeEntries id = some e →
    e.block = id.block ∧ id.tx < 4294967296 ∧ idBefore id H T
  /-- name → id inverts id → entry … -/
  fwd : ∀ id e, AL.get st.runeEntries id = some e → AL.get st.rune2id e.rune = some id
  /-- … and conversely -/
  bwd : ∀ r id, AL.get st.rune2id r = some id → ∃ e, AL.get st.runeEntries id = some e ∧ e.rune = r
  /-- numbers are 0, 1, 2, … in creation order and `runes` counts the entries -/
  numbers : st.runeEntries.map (fun p => p.2.number) = List.range st.runes
  /-- the mint counter never exceeds the cap; without terms it is zero -/
  cap : ∀ id e, AL.get st.runeEntries id = some e → e.mints ≤ capOf e ∧ (e.terms = none → e.mints = 0)
  /-- a name is either below `RESERVED` or the reserved name of its id -/
  names : ∀ id e, AL.get st.runeEntries id = some e →
    e.rune < RESERVED ∨ e.rune = reservedRune id.block id.tx

theorem RInv_empty (H T : Nat) : RInv {} H T := by
  constructor <;> intros <;> simp_all [AL.get]

theorem RInv_balances {st : State} {H T : Nat} (b : List (OutPoint × List (RuneId × Nat)))
    (h : RInv st H T) : RInv { st with balances := b } H T :=
  ⟨h.ids, h.fwd, h.bwd, h.numbers, h.cap, h.names⟩

theorem idBefore_mono {id : RuneId} {H T T' : Nat} (hT : T ≤ T') (h : idBefore id H T) : idBefore id H T' := by
  unfold idBefore at *; omega

theorem idBefore_next {id : RuneId} {H T : Nat} (h : idBefore id H T) : idBefore id (H + 1) 0 := by
  unfold idBefore at *; omega

theorem RInv_mono {st : State} {H T T' : Nat} (hT : T ≤ T') (h : RInv st H T) : RInv st H T' :=
  ⟨fun id e hg => ⟨(h.ids id e hg).1, (h.ids id e hg).2.1, idBefore_mono hT (h.ids id e hg).2.2⟩,
   h.fwd, h.bwd, h.numbers, h.cap, h.names⟩

theorem RInv_next {st : State} {H T : Nat} (h : RInv st H T) : RInv st (H + 1) 0 :=
  ⟨fun id e hg => ⟨(h.ids id e hg).1, (h.ids id e hg).2.1, idBefore_next (h.ids id e hg).2.2⟩,
   h.fwd, h.bwd, h.numbers, h.cap, h.names⟩

/-! association-list facts about replacing / appending -/

theorem al_set_map_of_get {β : Type} (f : RuneEntry → β) (l : List (RuneId × RuneEntry)) (k : RuneId)
    (e v : RuneEntry) (hg : AL.get l k = some e) (hf : f v = f e) :
    (AL.set l k v).map (fun p => f p.2) = l.map (fun p => f p.2) := by
  induction l with
  | nil => simp [AL.get] at hg
  | cons p rest ih =>
    obtain ⟨k0, v0⟩ := p
    by_cases h0 : k0 = k
    · subst h0
      simp only [AL.get, beq_self_eq_true, if_true, Option.some.injEq] at hg
      subst hg
      simp [AL.set, hf]
    · have hb : (k0 == k) = false := by simpa using h0
      simp only [AL.get, hb] at hg
      simp [AL.set, hb, ih hg]

theorem al_set_of_absent {ν : Type} (l : List (RuneId × ν)) (k : RuneId) (v : ν)
    (hg : AL.get l k = none) : AL.set l k v = l ++ [(k, v)] := by
  induction l with
  | nil => rfl
  | cons p rest ih =>
    obtain ⟨k0, v0⟩ := p
    by_cases h0 : k0 = k
    · subst h0; simp [AL.get] at hg
    · have hb : (k0 == k) = false := by simpa using h0
      simp only [AL.get, hb] at hg
      simp [AL.set, hb, ih hg]

/-- replacing an existing entry by one that differs only in counters keeps the invariant -/
theorem RInv_update {st : State} {H T : Nat} (h : RInv st H T) (id : RuneId) (e e' : RuneEntry)
    (hg : AL.get st.runeEntries id = some e)
    (hb : e'.block = e.block) (hr : e'.rune = e.rune) (hn : e'.number = e.number)
    (hc : e'.mints ≤ capOf e' ∧ (e'.terms = none → e'.mints = 0)) :
    RInv { st with runeEntries := AL.set st.runeEntries id e' } H T := by
  constructor
  · intro id2 e2 hg2
    simp only [al_get_set] at hg2
    split at hg2
    · rename_i heq; subst heq
      simp only [Option.some.injEq] at hg2; subst hg2
      have := h.ids id e hg
      exact ⟨by rw [hb]; exact this.1, this.2⟩
    · exact h.ids id2 e2 hg2
  · intro id2 e2 hg2
    simp only [al_get_set] at hg2
    split at hg2
    · rename_i heq; subst heq
      simp only [Option.some.injEq] at hg2; subst hg2
      show AL.get st.rune2id e'.rune = some id
      rw [hr]; exact h.fwd id e hg
    · exact h.fwd id2 e2 hg2
  · intro r id2 hg2
    obtain ⟨e2, he2, hr2⟩ := h.bwd r id2 hg2
    by_cases heq : id = id2
    · subst heq
      rw [hg] at he2; simp only [Option.some.injEq] at he2; subst he2
      exact ⟨e', by simp [al_get_set], by rw [hr, hr2]⟩
    · exact ⟨e2, by simp [al_get_set, heq, he2], hr2⟩
  · show (AL.set st.runeEntries id e').map (fun p => p.2.number) = List.range st.runes
    rw [al_set_map_of_get (fun x => x.number) _ id e e' hg hn]
    exact h.numbers
  · intro id2 e2 hg2
    simp only [al_get_set] at hg2
    split at hg2
    · simp only [Option.some.injEq] at hg2; subst hg2; exact hc
    · exact h.cap id2 e2 hg2
  · intro id2 e2 hg2
    simp only [al_get_set] at hg2
    split at hg2
    · rename_i heq; subst heq
      simp only [Option.some.injEq] at hg2; subst hg2
      rw [hr]; exact h.names id e hg
    · exact h.names id2 e2 hg2

theorem mintOpen_terms {e : RuneEntry} {h : Nat} (ho : mintOpen e h = true) :
    e.terms ≠ none ∧ e.mints < capOf e := by
  unfold mintOpen windowOpen at ho
  cases ht : e.terms with
  | none => simp [ht] at ho
  | some t => simp only [ht, Bool.and_eq_true, decide_eq_true_eq] at ho; exact ⟨by simp, ho.2⟩

theorem RInv_mint {st : State} {H T : Nat} (h : RInv st H T) (height : Nat) (id : RuneId) :
    RInv (mint st height id).1 H T := by
  cases hg : AL.get st.runeEntries id with
  | none => rw [mint_of_absent st height id hg]; exact h
  | some e =>
    cases ho : mintOpen e height with
    | false => rw [mint_of_closed st height id e hg ho]; exact h
    | true =>
      rw [mint_of_open st height id e hg ho]
      have ⟨hne, hlt⟩ := mintOpen_terms ho
      refine RInv_update h id e _ hg rfl rfl rfl ⟨?_, ?_⟩
      · show e.mints + 1 ≤ capOf { e with mints := e.mints + 1 }
        have : capOf { e with mints := e.mints + 1 } = capOf e := rfl
        omega
      · intro hn; exact absurd hn hne

theorem RInv_mintStep {st : State} {H T : Nat} (h : RInv st H T) (height : Nat) (art : Artifact) :
    RInv (mintStep st height art) H T := by
  unfold mintStep
  cases artMint art with
  | none => exact h
  | some id => exact RInv_mint h height id

/-- `mint` and the mint step leave every table but `runeEntries` alone -/
theorem mint_rune2id (st : State) (height : Nat) (id : RuneId) : (mint st height id).1.rune2id = st.rune2id := by
  unfold mint
  cases AL.get st.runeEntries id with
  | none => rfl
  | some e => simp only; cases e.mintable height <;> rfl

theorem mintStep_rune2id (st : State) (height : Nat) (art : Artifact) :
    (mintStep st height art).rune2id = st.rune2id := by
  unfold mintStep
  cases artMint art with
  | none => rfl
  | some id => exact mint_rune2id st height id


theorem mint_runes (st : State) (height : Nat) (id : RuneId) : (mint st height id).1.runes = st.runes := by
  unfold mint
  cases AL.get st.runeEntries id with
  | none => rfl
  | some e => simp only; cases e.mintable height <;> rfl

theorem mintStep_runes (st : State) (height : Nat) (art : Artifact) :
    (mintStep st height art).runes = st.runes := by
  unfold mintStep
  cases artMint art with
  | none => rfl
  | some id => exact mint_runes st height id

/-! ### `etched` and `createRuneEntry` -/

theorem RInv_reserved {st : State} {H T : Nat} (n : Nat) (h : RInv st H T) :
    RInv { st with reservedRunes := n } H T :=
  ⟨h.ids, h.fwd, h.bwd, h.numbers, h.cap, h.names⟩

/-- the validity conditions of the etching of `art` in state `st` (the documented ones) -/
def ValidEtching (st : State) (blk : Block) (tx : Tx) (art : Artifact) : Prop :=
  match etchingOf art with
  | none => False
  | some none => True
  | some (some rune) =>
    blk.minimumRune ≤ rune ∧ rune < RESERVED ∧ AL.get st.rune2id rune = none ∧
      txCommitsToRune blk.height rune tx.inputs = .ok true

/-- the name a valid etching obtains -/
def etchedName (blk : Block) (t : Nat) (art : Artifact) : Nat :=
  match etchingOf art with
  | some (some rune) => rune
  | _ => reservedRune blk.height t

/-- everything `etched` can answer -/
theorem etched_cases (st st2 : State) (blk : Block) (t : Nat) (tx : Tx) (art : Artifact)
    (et : Option (RuneId × Nat)) (h : etched st blk t tx art = .ok (st2, et)) :
    (∃ n, st2 = { st with reservedRunes := n }) ∧
    ((et = none ∧ ¬ ValidEtching st blk tx art) ∨
     (et = some (⟨blk.height, t⟩, etchedName blk t art) ∧ ValidEtching st blk tx art)) := by
  cases he : etchingOf art with
  | none =>
    rw [etched_none st blk t tx art he] at h
    simp only [Outcome.ok.injEq, Prod.mk.injEq] at h
    exact ⟨⟨st.reservedRunes, h.1 ▸ rfl⟩, Or.inl ⟨h.2.symm, by simp [ValidEtching, he]⟩⟩
  | some o =>
    cases o with
    | none =>
      rw [etched_unnamed st blk t tx art he] at h
      simp only [Outcome.ok.injEq, Prod.mk.injEq] at h
      exact ⟨⟨_, h.1.symm⟩, Or.inr ⟨by simp [← h.2, etchedName, he], by simp [ValidEtching, he]⟩⟩
    | some rune =>
      have hiff := fun id r => etched_named_iff st st2 blk t tx art rune he id r
      cases et with
      | none =>
        refine ⟨?_, Or.inl ⟨rfl, ?_⟩⟩
        · rw [etched_named st blk t tx art rune he] at h
          split at h
          · simp only [Outcome.ok.injEq, Prod.mk.injEq] at h; exact ⟨st.reservedRunes, h.1 ▸ rfl⟩
          · split at h <;> simp only [Outcome.ok.injEq, Prod.mk.injEq, reduceCtorEq] at h
            · exact ⟨st.reservedRunes, h.1 ▸ rfl⟩
            · exact absurd h.2 (by simp)
        · intro hv
          simp only [ValidEtching, he] at hv
          have := (etched_named_iff st st blk t tx art rune he ⟨blk.height, t⟩ rune).2
            ⟨rfl, rfl, rfl, hv.1, hv.2.1, hv.2.2.1, hv.2.2.2⟩
          rw [h] at this
          simp at this
      | some p =>
        obtain ⟨id, r⟩ := p
        obtain ⟨rfl, rfl, rfl, h1, h2, h3, h4⟩ := (hiff id r).1 h
        exact ⟨⟨st2.reservedRunes, rfl⟩, Or.inr ⟨by simp [etchedName, he], by simp [ValidEtching, he, h1, h2, h3, h4]⟩⟩


/-- the entry `createRuneEntry` writes -/
def newEntry (st : State) (blk : Block) (tx : Tx) (art : Artifact) (id : RuneId) (rune : Nat) : RuneEntry :=
  match art with
  | .cenotaph .. => ⟨id.block, 0, 0, tx.txid, 0, st.runes, 0, rune, 0, none, none, blk.time, false⟩
  | .runestone _ (some e) _ _ =>
    ⟨id.block, 0, e.divisibility.getD 0, tx.txid, 0, st.runes, e.premine.getD 0, rune, e.spacers.getD 0,
      e.symbol, e.terms, blk.time, e.turbo⟩
  | .runestone _ none _ _ => default

theorem createRuneEntry_tables (st : State) (blk : Block) (tx : Tx) (art : Artifact) (id : RuneId) (rune : Nat) :
    (createRuneEntry st blk tx art id rune).1.runeEntries = AL.set st.runeEntries id (newEntry st blk tx art id rune) ∧
    (createRuneEntry st blk tx art id rune).1.rune2id = AL.set st.rune2id rune id ∧
    (createRuneEntry st blk tx art id rune).1.runes = st.runes + 1 ∧
    (createRuneEntry st blk tx art id rune).1.txid2rune = AL.set st.txid2rune tx.txid rune ∧
    (createRuneEntry st blk tx art id rune).1.reservedRunes = st.reservedRunes := by
  unfold createRuneEntry newEntry
  simp only
  split <;> (refine ⟨?_, rfl, rfl, rfl, rfl⟩; cases art with
    | cenotaph r m => rfl
    | runestone eds e m p => cases e <;> rfl)

theorem newEntry_fields (st : State) (blk : Block) (tx : Tx) (art : Artifact) (id : RuneId) (rune : Nat)
    (he : etchingOf art ≠ none) :
    (newEntry st blk tx art id rune).block = id.block ∧ (newEntry st blk tx art id rune).rune = rune ∧
    (newEntry st blk tx art id rune).number = st.runes ∧ (newEntry st blk tx art id rune).mints = 0 ∧
    (newEntry st blk tx art id rune).etching = tx.txid := by
  unfold newEntry
  cases art with
  | cenotaph r m => exact ⟨rfl, rfl, rfl, rfl, rfl⟩
  | runestone eds e m p =>
    cases e with
    | none => simp [etchingOf] at he
    | some e => exact ⟨rfl, rfl, rfl, rfl, rfl⟩

/-- creating the entry of a fresh name at position `(H, T)` keeps the invariant and moves on -/
theorem RInv_create {st : State} {H T : Nat} (h : RInv st H T) (blk : Block) (tx : Tx) (art : Artifact)
    (rune : Nat) (hT : T < 4294967296) (he : etchingOf art ≠ none)
    (hfresh : AL.get st.rune2id rune = none)
    (hname : rune < RESERVED ∨ rune = reservedRune H T) :
    RInv (createRuneEntry st blk tx art ⟨H, T⟩ rune).1 H (T + 1) := by
  obtain ⟨hE, hR, hN, _, _⟩ := createRuneEntry_tables st blk tx art ⟨H, T⟩ rune
  obtain ⟨fb, fr, fn, fm, _⟩ := newEntry_fields st blk tx art ⟨H, T⟩ rune he
  generalize newEntry st blk tx art ⟨H, T⟩ rune = ne at *
  generalize (createRuneEntry st blk tx art ⟨H, T⟩ rune).1 = st' at *
  have habsent : AL.get st.runeEntries ⟨H, T⟩ = none := by
    cases hg : AL.get st.runeEntries ⟨H, T⟩ with
    | none => rfl
    | some e =>
      have := (h.ids _ e hg).2.2
      unfold idBefore at this; simp at this
  constructor
  · intro id e hg
    rw [hE, al_get_set] at hg
    split at hg
    · rename_i heq; subst heq
      simp only [Option.some.injEq] at hg; subst hg
      exact ⟨fb, hT, Or.inr ⟨rfl, by simp⟩⟩
    · have := h.ids id e hg
      exact ⟨this.1, this.2.1, idBefore_mono (Nat.le_succ T) this.2.2⟩
  · intro id e hg
    rw [hE, al_get_set] at hg
    rw [hR, al_get_set_nat]
    split at hg
    · rename_i heq; subst heq
      simp only [Option.some.injEq] at hg; subst hg
      simp [fr]
    · have hf := h.fwd id e hg
      have hne : rune ≠ e.rune := by
        intro heq; rw [← heq, hfresh] at hf; simp at hf
      simp [hne, hf]
  · intro r id hg
    rw [hR, al_get_set_nat] at hg
    split at hg
    · rename_i heq; subst heq
      simp only [Option.some.injEq] at hg; subst hg
      exact ⟨ne, by rw [hE, al_get_set]; simp, fr⟩
    · obtain ⟨e, he1, he2⟩ := h.bwd r id hg
      refine ⟨e, ?_, he2⟩
      rw [hE, al_get_set]
      have : (⟨H, T⟩ : RuneId) ≠ id := by
        intro heq; rw [← heq, habsent] at he1; simp at he1
      simp [this, he1]
  · rw [hE, al_set_of_absent _ _ _ habsent, hN]
    simp [List.range_succ, h.numbers, fn]
  · intro id e hg
    rw [hE, al_get_set] at hg
    split at hg
    · simp only [Option.some.injEq] at hg; subst hg
      exact ⟨by omega, fun _ => fm⟩
    · exact h.cap id e hg
  · intro id e hg
    rw [hE, al_get_set] at hg
    split at hg
    · rename_i heq; subst heq
      simp only [Option.some.injEq] at hg; subst hg
      rw [fr]; exact hname
    · exact h.names id e hg

/-- a reserved name of the current position is not in `rune2id` yet -/
theorem reserved_fresh {st : State} {H T : Nat} (h : RInv st H T) (hT : T < 4294967296) :
    AL.get st.rune2id (reservedRune H T) = none := by
  cases hg : AL.get st.rune2id (reservedRune H T) with
  | none => rfl
  | some id =>
    obtain ⟨e, he1, he2⟩ := h.bwd _ id hg
    have hid := h.ids id e he1
    rcases h.names id e he1 with hlt | heq
    · have := reservedRune_ge H T; omega
    · rw [he2] at heq
      obtain ⟨hb, ht⟩ := reservedRune_inj H T id.block id.tx hT hid.2.1 heq
      have := hid.2.2
      unfold idBefore at this; omega


/-! ### one transaction -/

theorem ValidEtching_congr {st st' : State} (blk : Block) (tx : Tx) (art : Artifact)
    (h : st'.rune2id = st.rune2id) : ValidEtching st' blk tx art ↔ ValidEtching st blk tx art := by
  unfold ValidEtching; rw [h]

/-- the mint an transaction attempts -/
def txMint (tx : Tx) : Option RuneId := tx.artifact.bind artMint

/-- entry `e` of id `id` after the mint step of a transaction minting `m` at height `H` -/
def afterMint (e : RuneEntry) (id : RuneId) (m : Option RuneId) (H : Nat) : RuneEntry :=
  if m = some id ∧ mintOpen e H = true then { e with mints := e.mints + 1 } else e

theorem mint_entries (st : State) (H : Nat) (m id : RuneId) :
    AL.get (mint st H m).1.runeEntries id =
      (AL.get st.runeEntries id).map (fun e => afterMint e id (some m) H) := by
  cases hg : AL.get st.runeEntries m with
  | none =>
    rw [mint_of_absent st H m hg]
    cases hg2 : AL.get st.runeEntries id with
    | none => rfl
    | some e =>
      have : m ≠ id := by intro heq; rw [heq, hg2] at hg; simp at hg
      simp [afterMint, this]
  | some em =>
    cases ho : mintOpen em H with
    | false =>
      rw [mint_of_closed st H m em hg ho]
      cases hg2 : AL.get st.runeEntries id with
      | none => rfl
      | some e =>
        by_cases heq : m = id
        · subst heq; rw [hg] at hg2; simp only [Option.some.injEq] at hg2; subst hg2
          simp [afterMint, ho]
        · simp [afterMint, heq]
    | true =>
      rw [mint_of_open st H m em hg ho]
      simp only [al_get_set]
      by_cases heq : m = id
      · subst heq; simp [hg, afterMint, ho]
      · simp only [heq, if_false]
        cases AL.get st.runeEntries id with
        | none => rfl
        | some e => simp [afterMint, heq]

theorem mintStep_entries (st : State) (H : Nat) (art : Artifact) (id : RuneId) :
    AL.get (mintStep st H art).runeEntries id =
      (AL.get st.runeEntries id).map (fun e => afterMint e id (artMint art) H) := by
  unfold mintStep
  cases hm : artMint art with
  | none =>
    cases AL.get st.runeEntries id with
    | none => rfl
    | some e => simp [afterMint]
  | some m => exact mint_entries st H m id

/-- **One transaction.**  Invariant preserved; entries of other ids only change by the mint
step; the entry of `(H, t)` exists afterwards iff the transaction carries a valid etching, and
then it is `newEntry` with the etched name and the next number. -/
theorem tx_step {st : State} {H t : Nat} (h : RInv st H t) (blk : Block) (tx : Tx) (bb : Balances)
    (st4 : State) (bb' : Balances) (evs : List Event) (hH : blk.height = H) (ht : t < 4294967296)
    (hr : indexRunesTx st blk t tx bb = .ok (st4, bb', evs)) :
    RInv st4 H (t + 1) ∧
    (∀ id, id ≠ ⟨H, t⟩ → AL.get st4.runeEntries id =
      (AL.get st.runeEntries id).map (fun e => afterMint e id (txMint tx) H)) ∧
    ((∃ art, tx.artifact = some art ∧ ValidEtching st blk tx art ∧
        st4.runes = st.runes + 1 ∧
        ∃ e, AL.get st4.runeEntries ⟨H, t⟩ = some e ∧ e.rune = etchedName blk t art ∧ e.number = st.runes ∧
          e.mints = 0 ∧ e.etching = tx.txid ∧ AL.get st4.rune2id e.rune = some ⟨H, t⟩) ∨
     ((∀ art, tx.artifact = some art → ¬ ValidEtching st blk tx art) ∧
        AL.get st4.runeEntries ⟨H, t⟩ = none ∧ st4.runes = st.runes ∧ st4.rune2id = st.rune2id)) := by
  subst hH
  have habsent : AL.get st.runeEntries ⟨blk.height, t⟩ = none := by
    cases hg : AL.get st.runeEntries ⟨blk.height, t⟩ with
    | none => rfl
    | some e =>
      have := (h.ids _ e hg).2.2
      unfold idBefore at this; simp at this
  obtain ⟨b0, b1, hd⟩ := indexRunesTx_decomp st blk t tx bb st4 bb' evs hr
  cases hart : tx.artifact with
  | none =>
    simp only [hart] at hd
    subst hd
    refine ⟨RInv_mono (Nat.le_succ t) (RInv_balances b1 h), ?_, Or.inr ⟨by simp, habsent, rfl, rfl⟩⟩
    intro id _
    show AL.get st.runeEntries id = _
    cases AL.get st.runeEntries id with
    | none => rfl
    | some e => simp [afterMint, txMint, hart]
  | some art =>
    simp only [hart] at hd
    obtain ⟨st2, et, he, hst4⟩ := hd
    have h0 : RInv { st with balances := b0 } blk.height t := RInv_balances b0 h
    have h1 := RInv_mintStep h0 blk.height art
    generalize hst1 : mintStep { st with balances := b0 } blk.height art = st1 at he h1
    have hst1e : ∀ id, AL.get st1.runeEntries id =
        (AL.get st.runeEntries id).map (fun e => afterMint e id (txMint tx) blk.height) := by
      intro id; rw [← hst1, mintStep_entries]; simp [txMint, hart]
    have hst1r : st1.rune2id = st.rune2id := by rw [← hst1, mintStep_rune2id]
    have hst1n : st1.runes = st.runes := by rw [← hst1, mintStep_runes]
    obtain ⟨⟨n, hst2⟩, hcase⟩ := etched_cases st1 st2 blk t tx art et he
    have h2 : RInv st2 blk.height t := hst2 ▸ RInv_reserved n h1
    rcases hcase with ⟨rfl, hnv⟩ | ⟨rfl, hv⟩
    · -- nothing etched
      simp only [createStep] at hst4
      subst hst4
      refine ⟨RInv_mono (Nat.le_succ t) (RInv_balances b1 h2), ?_, Or.inr ⟨?_, ?_, ?_, ?_⟩⟩
      · intro id _
        show AL.get st2.runeEntries id = _
        rw [hst2]; exact hst1e id
      · intro art' ha
        have hae : art' = art := (Option.some.inj ha).symm
        rw [hae]
        exact fun hv => hnv ((ValidEtching_congr blk tx art hst1r).2 hv)
      · show AL.get st2.runeEntries _ = none
        rw [hst2]; show AL.get st1.runeEntries _ = none
        rw [hst1e, habsent]; rfl
      · show st2.runes = st.runes
        rw [hst2]; exact hst1n
      · show st2.rune2id = st.rune2id
        rw [hst2]; exact hst1r
    · -- etched
      simp only [createStep] at hst4
      have hne : etchingOf art ≠ none := by
        intro hn; simp [ValidEtching, hn] at hv
      have hfresh : AL.get st2.rune2id (etchedName blk t art) = none := by
        unfold etchedName
        cases heo : etchingOf art with
        | none => exact absurd heo hne
        | some o =>
          cases o with
          | none => exact reserved_fresh h2 ht
          | some rune =>
            simp only [ValidEtching, heo] at hv
            rw [hst2]; exact hv.2.2.1
      have hname : etchedName blk t art < RESERVED ∨ etchedName blk t art = reservedRune blk.height t := by
        unfold etchedName
        cases heo : etchingOf art with
        | none => exact Or.inr rfl
        | some o =>
          cases o with
          | none => exact Or.inr rfl
          | some rune =>
            simp only [ValidEtching, heo] at hv
            exact Or.inl hv.2.1
      have h3 := RInv_create h2 blk tx art (etchedName blk t art) ht hne hfresh hname
      obtain ⟨hE, hR, hN, _, _⟩ := createRuneEntry_tables st2 blk tx art ⟨blk.height, t⟩ (etchedName blk t art)
      obtain ⟨_, fr, fn, fm, fe⟩ := newEntry_fields st2 blk tx art ⟨blk.height, t⟩ (etchedName blk t art) hne
      subst hst4
      refine ⟨RInv_balances b1 h3, ?_, Or.inl ⟨art, rfl, (ValidEtching_congr blk tx art hst1r).1 hv, ?_, ?_⟩⟩
      · intro id hid
        show AL.get (createRuneEntry st2 blk tx art _ _).1.runeEntries id = _
        rw [hE, al_get_set]
        have : (⟨blk.height, t⟩ : RuneId) ≠ id := fun heq => hid heq.symm
        simp only [this, if_false]
        rw [hst2]; exact hst1e id
      · show (createRuneEntry st2 blk tx art _ _).1.runes = _
        rw [hN, hst2]; show st1.runes + 1 = _; rw [hst1n]
      · refine ⟨newEntry st2 blk tx art ⟨blk.height, t⟩ (etchedName blk t art), ?_, fr, ?_, fm, fe, ?_⟩
        · show AL.get (createRuneEntry st2 blk tx art _ _).1.runeEntries _ = _
          rw [hE, al_get_set]; simp
        · rw [fn, hst2]; exact hst1n
        · show AL.get (createRuneEntry st2 blk tx art _ _).1.rune2id _ = _
          rw [hR, fr, al_get_set_nat]; simp

end Ord.Index.Runemint
