import OrdModel.Proofs.RunestoneDecipher
/-! Helper lemmas for C25: exact bookkeeping of which values `decipher` consumes per tag. -/
namespace Ord.Runestone
open Ord Ord.Script

/-- 1 if `Tag::take::<1>` with closure `w` succeeds on the value list `l` of its tag, else 0 -/
def took {α : Type} (w : Nat → Option α) (l : List Nat) : Nat :=
  if (l.head?.bind w).isSome then 1 else 0

theorem vals_take1 {α : Type} (t' t : Nat) (w : Nat → Option α) (fs : Fields) :
    vals t' (take1 t w fs).2
      = if t' = t then (vals t fs).drop (took w (vals t fs)) else vals t' fs := by
  by_cases h : t' = t
  · subst h
    simp only [if_true, vals_take1_same, took]
    split <;> simp
  · simp [h, vals_take1_ne h]

def cTerms (flags : Nat) (fs : Fields) (t : Nat) : Nat :=
  if flags.testBit 1 then
    if t = 8 ∨ t = 10 then took wAny (vals t fs)
    else if t = 12 ∨ t = 14 ∨ t = 16 ∨ t = 18 then took wU64 (vals t fs) else 0
  else 0

theorem vals_takeTerms (t flags : Nat) (fs : Fields) :
    vals t (takeTerms flags fs).2.2 = (vals t fs).drop (cTerms flags fs t) := by
  unfold takeTerms takeFlag cTerms
  by_cases hf : flags.testBit 1
  · simp only [hf, if_true, vals_take1]
    by_cases h8 : t = 8
    · subst h8; simp
    by_cases h10 : t = 10
    · subst h10; simp
    by_cases h12 : t = 12
    · subst h12; simp
    by_cases h14 : t = 14
    · subst h14; simp
    by_cases h16 : t = 16
    · subst h16; simp
    by_cases h18 : t = 18
    · subst h18; simp
    simp [*]
  · simp [hf]

def cEtch (flags : Nat) (fs : Fields) (t : Nat) : Nat :=
  if flags.testBit 0 then
    if t = 1 then took wDivisibility (vals 1 fs)
    else if t = 6 ∨ t = 4 then took wAny (vals t fs)
    else if t = 3 then took wSpacers (vals 3 fs)
    else if t = 5 then took wSymbol (vals 5 fs)
    else cTerms (flags - 1) fs t
  else 0

theorem vals_takeEtching (t flags : Nat) (fs : Fields) :
    vals t (takeEtching flags fs).2.2 = (vals t fs).drop (cEtch flags fs t) := by
  unfold takeEtching takeFlag cEtch
  by_cases hf : flags.testBit 0
  · simp only [hf, if_true, vals_takeTerms, vals_take1, cTerms]
    by_cases h1 : t = 1
    · subst h1; simp
    by_cases h3 : t = 3
    · subst h3; simp
    by_cases h4 : t = 4
    · subst h4; simp
    by_cases h5 : t = 5
    · subst h5; simp
    by_cases h6 : t = 6
    · subst h6; simp
    by_cases h8 : t = 8
    · subst h8; simp
    by_cases h10 : t = 10
    · subst h10; simp
    by_cases h12 : t = 12
    · subst h12; simp
    by_cases h14 : t = 14
    · subst h14; simp
    by_cases h16 : t = 16
    · subst h16; simp
    by_cases h18 : t = 18
    · subst h18; simp
    simp [*]
  · simp [hf]

theorem vals_take2 {α : Type} (t' t : Nat) (w : Nat → Nat → Option α) (fs : Fields) :
    vals t' (take2 t w fs).2
      = if t' = t then (vals t fs).drop (if (take2 t w fs).1.isSome then 2 else 0)
        else vals t' fs := by
  by_cases h : t' = t
  · subst h
    simp only [if_true, vals_take2_same]
    split <;> simp
  · simp [h, vals_take2_ne h]

/-- how many leading values of tag `t` `decipher` consumes -/
def cAll (n : Nat) (fs : Fields) (t : Nat) : Nat :=
  if t = 2 then took wAny (vals 2 fs)
  else if t = 20 then (if (specMint fs).isSome then 2 else 0)
  else if t = 22 then took (wPointer n) (vals 22 fs)
  else cEtch (specFlags fs) fs t

theorem vals_parseFields (n : Nat) (fs : Fields) (t : Nat) :
    vals t (parseFields n fs).fields = (vals t fs).drop (cAll n fs t) := by
  have hm := parseFields_mint n fs
  simp only [parseFields, take_flags] at hm
  simp only [parseFields, vals_take1, vals_take2, hm, vals_takeEtching, take_flags, cAll, cEtch,
    cTerms]
  by_cases h2 : t = 2
  · subst h2; simp
  by_cases h20 : t = 20
  · subst h20; simp
  by_cases h22 : t = 22
  · subst h22; simp
  by_cases h1 : t = 1
  · subst h1; simp
  by_cases h3 : t = 3
  · subst h3; simp
  by_cases h4 : t = 4
  · subst h4; simp
  by_cases h5 : t = 5
  · subst h5; simp
  by_cases h6 : t = 6
  · subst h6; simp
  by_cases h8 : t = 8
  · subst h8; simp
  by_cases h10 : t = 10
  · subst h10; simp
  by_cases h12 : t = 12
  · subst h12; simp
  by_cases h14 : t = 14
  · subst h14; simp
  by_cases h16 : t = 16
  · subst h16; simp
  by_cases h18 : t = 18
  · subst h18; simp
  simp [*]

/-! ### the declarative even-tag characterisation -/

theorem took_eq {α : Type} (w : Nat → Option α) (ok : Nat → Bool) (h : ∀ v, (w v).isSome = ok v)
    (l : List Nat) :
    took w l = oneIf ok l := by
  unfold took oneIf
  cases l.head? with
  | none => rfl
  | some v => simp [h v]

theorem cAll_eq_consumed (n : Nat) (fs : Fields) (t : Nat) (ht : t % 2 = 0) :
    cAll n fs t = consumed n fs t := by
  have hAny := took_eq wAny (fun _ => true) (fun v => by simp [wAny])
  have hU64 := took_eq wU64 (fun v => decide (v < 2 ^ 64)) (fun v => by unfold wU64; split <;> simp [*])
  have hPtr := took_eq (wPointer n) (fun v => decide (v < 2 ^ 32) && decide (v < n))
    (fun v => by
      unfold wPointer
      by_cases h1 : v < 2 ^ 32
      · by_cases h2 : v < n <;> simp [h1, h2]
      · simp [h1])
  unfold cAll consumed cEtch cTerms
  by_cases h0 : (specFlags fs).testBit 0
  · have hb := testBit1_pred _ h0
    by_cases h1 : (specFlags fs).testBit 1
    · rw [h1] at hb
      simp only [h0, h1, hb, hAny, hU64, hPtr, if_true, Bool.and_self]
      by_cases h2 : t = 2
      · subst h2; simp
      by_cases h4 : t = 4
      · subst h4; simp
      by_cases h6 : t = 6
      · subst h6; simp
      by_cases h8 : t = 8
      · subst h8; simp
      by_cases h10 : t = 10
      · subst h10; simp
      by_cases h12 : t = 12
      · subst h12; simp
      by_cases h14 : t = 14
      · subst h14; simp
      by_cases h16 : t = 16
      · subst h16; simp
      by_cases h18 : t = 18
      · subst h18; simp
      by_cases h20 : t = 20
      · subst h20; simp
      by_cases h22 : t = 22
      · subst h22; simp
      have : t ≠ 1 := by omega
      have : t ≠ 3 := by omega
      have : t ≠ 5 := by omega
      simp [*]
    · have h1' : (specFlags fs).testBit 1 = false := by simpa using h1
      rw [h1'] at hb
      simp only [h0, h1', hb, hAny, hU64, hPtr, if_true]
      by_cases h2 : t = 2
      · subst h2; simp
      by_cases h4 : t = 4
      · subst h4; simp
      by_cases h6 : t = 6
      · subst h6; simp
      by_cases h20 : t = 20
      · subst h20; simp
      by_cases h22 : t = 22
      · subst h22; simp
      have : t ≠ 1 := by omega
      have : t ≠ 3 := by omega
      have : t ≠ 5 := by omega
      simp [*]
  · have h0' : (specFlags fs).testBit 0 = false := by simpa using h0
    simp only [h0', hAny, hU64, hPtr]
    by_cases h2 : t = 2
    · subst h2; simp
    by_cases h20 : t = 20
    · subst h20; simp
    by_cases h22 : t = 22
    · subst h22; simp
    simp [*]

theorem hasEvenTag_iff (fs : Fields) :
    hasEvenTag fs = true ↔ ∃ t, t % 2 = 0 ∧ vals t fs ≠ [] := by
  induction fs with
  | nil => simp [hasEvenTag, vals]
  | cons p fs ih =>
    obtain ⟨k, v⟩ := p
    unfold hasEvenTag at ih ⊢
    simp only [List.any_cons, Bool.or_eq_true, ih, beq_iff_eq]
    constructor
    · rintro (h | ⟨t, ht, hv⟩)
      · exact ⟨k, h, by simp [vals]⟩
      · refine ⟨t, ht, ?_⟩
        unfold vals; split
        · simp
        · exact hv
    · rintro ⟨t, ht, hv⟩
      by_cases hk : k = t
      · subst hk; exact Or.inl ht
      · right; exact ⟨t, ht, by simpa [vals, hk] using hv⟩

theorem any_tag_iff (q : Nat → Bool) (fs : Fields) :
    fs.any (fun p => q p.1) = true ↔ ∃ t, vals t fs ≠ [] ∧ q t = true := by
  induction fs with
  | nil => simp [vals]
  | cons p fs ih =>
    obtain ⟨k, v⟩ := p
    simp only [List.any_cons, Bool.or_eq_true, ih]
    constructor
    · rintro (h | ⟨t, hv, hq⟩)
      · exact ⟨k, by simp [vals], h⟩
      · refine ⟨t, ?_, hq⟩
        unfold vals; split
        · simp
        · exact hv
    · rintro ⟨t, hv, hq⟩
      by_cases hk : k = t
      · subst hk; exact Or.inl hq
      · right; exact ⟨t, by simpa [vals, hk] using hv, hq⟩

/-- the code's "an even tag is left over" is the declarative "some even tag has more values than
`decipher` consumes" -/
theorem leftoverEvenTag_eq_spec (n : Nat) (fs : Fields) :
    leftoverEvenTag n fs = specEvenTag n fs := by
  rw [Bool.eq_iff_iff]
  unfold leftoverEvenTag specEvenTag
  rw [hasEvenTag_iff, any_tag_iff (fun t => t % 2 == 0 && decide (consumed n fs t < (vals t fs).length))]
  constructor
  · rintro ⟨t, ht, hv⟩
    rw [vals_parseFields, cAll_eq_consumed n fs t ht] at hv
    have hlt : consumed n fs t < (vals t fs).length := by
      rcases Nat.lt_or_ge (consumed n fs t) (vals t fs).length with h | h
      · exact h
      · exact absurd (List.drop_eq_nil_of_le h) hv
    refine ⟨t, ?_, by simp [ht, hlt]⟩
    intro h; rw [h] at hlt; simp at hlt
  · rintro ⟨t, _, hq⟩
    simp only [Bool.and_eq_true, beq_iff_eq, decide_eq_true_eq] at hq
    refine ⟨t, hq.1, ?_⟩
    rw [vals_parseFields, cAll_eq_consumed n fs t hq.1]
    intro h
    have := List.drop_eq_nil_iff.mp h
    omega

end Ord.Runestone
