import OrdModel.Proofs.IndexLiftOnSatTx
/-
C03 lift to reachable states, part 5: one block.

* the invariant at block boundaries: `UtxoSat st` — the unbound pseudo-output lists sat-less
  inscriptions only, every other row of the UTXO table (real outputs, the null pseudo-output)
  lists bound inscriptions, each on its sat (`EntSat`);
* it starts the mid-block invariant (`BMid.start`, with `NullLen`: the ranges stored under the
  null outpoint have size `lostSats`, and `bc0A_reward`: the subsidy range has size `reward`);
* the non-first transactions keep `BMid`, the coinbase turns it into `BEnd` (part 4);
* the block-end flush (`flushCache`): a fresh row is written as it is; the pending null entry is
  merged behind the stored one — ranges appended (stored ranges ++ lost ranges of the block),
  lists appended, so stored offsets stay valid and the new ones were computed against exactly
  this concatenation; the pending unbound entry lists unbound inscriptions only;
* the rune pass and the header write do not touch the table or the inscription entries.
-/
namespace Ord.Index.OnSatLift
open Ord Ord.Index Outcome Sched
open Ord.Index.Insloc hiding den den_nil den_cons den_append

/-- **the block-boundary invariant**: the unbound pseudo-output lists sat-less inscriptions only;
every other row of the UTXO table (real outputs, the null pseudo-output) lists bound inscriptions,
each on its sat -/
@[reducible] def UtxoSat (st : State) : Prop := TblSat st.entries st.utxo

/-! ### start of the block -/

theorem BMid.start (cfg : Cfg) (hs : cfg.indexSats = true) (st : State) (blk : Block)
    (hU : UtxoSat st) (hnl : NullLen st) :
    BMid (rangesAt st.utxo OutPoint.null) (bc0A cfg st blk) := by
  refine ⟨⟨hU, ?_, ?_, ?_, ?_, rfl⟩, ?_, bc0A_reward cfg hs st blk, ?_, rfl⟩
  · intro p hp; cases hp
  · intro p hp; cases hp
  · intro ne hne; cases hne
  · intro ue hue; cases hue
  · intro f hf; cases hf
  · exact hnl.symm

/-! ### the transactions -/

theorem indexTxs_noncb_steps (cfg : Cfg) (hs : cfg.indexSats = true) (blk : Block) (l : List (Nat × Tx))
    (hl : ∀ p ∈ l, p.1 ≠ 0 ∧ p.2.txid ≠ 0 ∧ ∀ x ∈ p.2.inputs, x.prev.isSpecial = false)
    (bc bc' : BlockCtx) (NOld : Ranges) (hinv : BMid NOld bc)
    (h : indexTxs cfg blk true l bc = .ok bc') :
    BMid NOld bc' ∧ EntExt bc.st.entries bc'.st.entries := by
  induction l generalizing bc with
  | nil =>
    simp only [indexTxs, Outcome.ok.injEq] at h
    subst h
    exact ⟨hinv, EntExt.refl _⟩
  | cons p l ih =>
    obtain ⟨i, tx⟩ := p
    simp only [indexTxs] at h
    split at h
    · cases h
    · cases h
    · rename_i bc1 h1
      obtain ⟨hi, h0, hsp⟩ := hl (i, tx) List.mem_cons_self
      obtain ⟨m1, x1⟩ := indexTx_noncb_step cfg hs blk i hi tx bc bc1 NOld h0 hsp hinv h1
      obtain ⟨m2, x2⟩ := ih (fun p hp => hl p (List.mem_cons_of_mem _ hp)) bc1 m1 h
      exact ⟨m2, x1.trans x2⟩

/-! ### the block-end flush -/

theorem flushEntry_rows (cfg : Cfg) (st : State) (op : OutPoint) (e : UtxoEntry) (E : List InsEntry)
    (hst : TblSat E st.utxo)
    (he : (op ≠ OutPoint.unbound → EntSat E (eff st.utxo op e)) ∧
      (op = OutPoint.unbound → InsNone E (eff st.utxo op e).ins)) :
    TblSat E (flushEntry cfg st op e).utxo := by
  rw [flushEntry_utxo]
  intro p hp
  rcases InsLift.mem_set_sub _ _ _ _ hp with h1 | h1
  · subst h1; exact he
  · exact hst p h1

/-- flushing rows of real outputs: written as they are; the special rows are not touched -/
theorem flushCache_rows_nonspecial (cfg : Cfg) (c : Cache) (st : State) (E : List InsEntry)
    (hst : TblSat E st.utxo) (hc : RowsSat E c) (hns : ∀ p ∈ c, p.1.isSpecial = false) :
    TblSat E (flushCache cfg st c).utxo ∧
    ∀ op, op.isSpecial = true → AL.get (flushCache cfg st c).utxo op = AL.get st.utxo op := by
  induction c generalizing st with
  | nil => exact ⟨hst, fun _ _ => rfl⟩
  | cons p rest ih =>
    obtain ⟨k, v⟩ := p
    rw [flushCache_cons]
    have hk : k.isSpecial = false := hns (k, v) List.mem_cons_self
    have h1 : TblSat E (flushEntry cfg st k v).utxo :=
      flushEntry_rows cfg st k v E hst
        ⟨fun _ => by rw [eff_nonspecial v hk]; exact hc (k, v) List.mem_cons_self,
         fun hu => absurd hu (ne_unbound_of_not_special hk)⟩
    obtain ⟨a, b⟩ := ih (flushEntry cfg st k v) h1 (fun p hp => hc p (List.mem_cons_of_mem _ hp))
      (fun p hp => hns p (List.mem_cons_of_mem _ hp))
    refine ⟨a, fun op hop => ?_⟩
    rw [b op hop, flushEntry_utxo]
    apply AL.get_set_ne
    intro hcon
    rw [hcon, hop] at hk
    cases hk

theorem null_isSpecial : OutPoint.null.isSpecial = true := by decide
theorem unbound_isSpecial : OutPoint.unbound.isSpecial = true := by decide
theorem null_ne_unbound' : OutPoint.null ≠ OutPoint.unbound := by decide

/-- the pending null entry is merged behind the stored one -/
theorem flushEntry_null_rows (cfg : Cfg) (F : State) (E : List InsEntry) (ne : UtxoEntry)
    (hF : TblSat E F.utxo)
    (hn : InsSat E (rangesAt F.utxo OutPoint.null ++ ne.ranges) ne.ins) :
    TblSat E (flushEntry cfg F OutPoint.null ne).utxo := by
  apply flushEntry_rows cfg F _ _ E hF
  refine ⟨fun _ => ?_, fun hc => absurd hc null_ne_unbound'⟩
  unfold eff
  rw [if_pos null_isSpecial]
  unfold rangesAt at hn
  cases hg : AL.get F.utxo OutPoint.null with
  | none =>
    rw [hg] at hn
    simpa using hn
  | some old =>
    rw [hg] at hn
    simp only [Option.map_some, Option.getD_some] at hn
    show InsSat E (old.ranges ++ ne.ranges) (old.ins ++ ne.ins)
    exact InsSat.append (((hF _ (AL.mem_of_get hg)).1 null_ne_unbound').append_ranges _) hn

/-- the pending unbound entry lists sat-less inscriptions only -/
theorem flushEntry_unbound_rows (cfg : Cfg) (F : State) (E : List InsEntry) (ue : UtxoEntry)
    (hF : TblSat E F.utxo) (hu : InsNone E ue.ins) :
    TblSat E (flushEntry cfg F OutPoint.unbound ue).utxo := by
  apply flushEntry_rows cfg F _ _ E hF
  refine ⟨fun hc => absurd rfl hc, fun _ => ?_⟩
  unfold eff
  rw [if_pos unbound_isSpecial]
  cases hg : AL.get F.utxo OutPoint.unbound with
  | none => exact hu
  | some old =>
    show InsNone E (old.ins ++ ue.ins)
    exact InsNone.append ((hF _ (AL.mem_of_get hg)).2 rfl) hu

theorem flush_special_rows (cfg : Cfg) (F : State) (E : List InsEntry) (n u : Option UtxoEntry)
    (hF : TblSat E F.utxo)
    (hn : ∀ ne, n = some ne → InsSat E (rangesAt F.utxo OutPoint.null ++ ne.ranges) ne.ins)
    (hu : ∀ ue, u = some ue → InsNone E ue.ins) :
    TblSat E (flushCache cfg F (specialOf n u)).utxo := by
  cases n with
  | none =>
    cases u with
    | none => exact hF
    | some ue =>
      simp only [specialOf, List.nil_append, flushCache_cons, flushCache_nil]
      exact flushEntry_unbound_rows cfg F E ue hF (hu ue rfl)
  | some ne =>
    have h1 := flushEntry_null_rows cfg F E ne hF (hn ne rfl)
    cases u with
    | none =>
      simp only [specialOf, List.append_nil, flushCache_cons, flushCache_nil]
      exact h1
    | some ue =>
      simp only [specialOf, List.cons_append, List.nil_append, flushCache_cons, flushCache_nil]
      exact flushEntry_unbound_rows cfg _ E ue h1 (hu ue rfl)

/-- the null entry handed to the flush: the pending one with the block's lost ranges -/
theorem endState_null_spec (cfg : Cfg) (blk : Block) (insOn : Bool) (bc : BlockCtx) (hn : NoRanges bc.ins) :
    ∀ ne', (endState cfg blk insOn bc).2 = some ne' →
      ne'.ranges = bc.lostRanges ∧ ∀ x ∈ ne'.ins, ∃ ne, bc.ins.nullEntry = some ne ∧ x ∈ ne.ins := by
  intro ne' h
  unfold endState at h
  cases hE : bc.lostRanges.isEmpty with
  | true =>
    have hl : bc.lostRanges = [] := List.isEmpty_iff.mp hE
    simp only [hE, if_true] at h
    exact ⟨by rw [hn.1 ne' h, hl], fun x hx => ⟨ne', h, hx⟩⟩
  | false =>
    simp only [hE, Bool.false_eq_true, if_false, Option.some.injEq] at h
    subst h
    cases hne : bc.ins.nullEntry with
    | none =>
      refine ⟨by simp [UtxoEntry.merged, UtxoEntry.empty], fun x hx => ?_⟩
      simp [UtxoEntry.merged, UtxoEntry.empty] at hx
    | some e =>
      refine ⟨by simp [UtxoEntry.merged, hn.1 e hne], fun x hx => ⟨e, rfl, ?_⟩⟩
      simpa [UtxoEntry.merged] using hx

/-! ### one block -/

theorem blockOrder_mem_rest (blk : Block) (cb : Tx) (rest : List Tx) (htx : blk.txs = cb :: rest)
    (hb : BlockPlain blk) :
    ∀ p ∈ enumFrom 1 rest, p.1 ≠ 0 ∧ p.2.txid ≠ 0 ∧ ∀ x ∈ p.2.inputs, x.prev.isSpecial = false := by
  intro p hp
  have hm := mem_enumFrom _ _ _ hp
  have hmem : p.2 ∈ blk.txs.drop 1 := by rw [htx]; simpa using hm.2
  exact ⟨by omega, hb.nonzero p.2 (by rw [htx]; exact List.mem_cons_of_mem _ hm.2), hb.noSpecialSpend p.2 hmem⟩

/-- **`index_utxo_entries` + commit keeps every row on its sats** (sat index on, inscription pass
on; `BlockPlain`; the block starts with a coinbase) -/
theorem indexUtxoEntries_utxoSat (cfg : Cfg) (hs : cfg.indexSats = true) (st : State) (blk : Block)
    (st1 : State) (ev : List Event) (hb : BlockPlain blk)
    (hcb : ∃ cb rest, blk.txs = cb :: rest ∧ txIsCoinbase cb = true)
    (hon : insOnOf cfg blk = true) (hnl : NullLen st) (hU : UtxoSat st)
    (h : indexUtxoEntries cfg st blk = .ok (st1, ev)) : UtxoSat st1 := by
  rw [indexUtxoEntries_eq, hon] at h
  obtain ⟨cb, rest, htx, hcbt⟩ := hcb
  rw [blockOrder_cons blk cb rest htx] at h
  split at h
  · cases h
  · cases h
  · rename_i bc hbc
    simp only [Outcome.ok.injEq, Prod.mk.injEq] at h
    obtain ⟨rfl, -⟩ := h
    have hn0 : NoRanges (bc0A cfg st blk).ins := by simp [NoRanges, bc0A]
    have hnr : NoRanges bc.ins := indexTxs_noRanges cfg hs blk _ _ _ bc hbc hn0
    obtain ⟨bcM, hM, hC⟩ := indexTxs_append cfg blk true _ _ _ bc hbc
    obtain ⟨mM, _⟩ := indexTxs_noncb_steps cfg hs blk _ (blockOrder_mem_rest blk cb rest htx hb) _ bcM _
      (BMid.start cfg hs st blk hU hnl) hM
    simp only [indexTxs] at hC
    split at hC
    · cases hC
    · cases hC
    · rename_i bcE hE
      obtain rfl := Outcome.ok.inj hC
      obtain ⟨mE, _⟩ := indexTx_cb_step cfg hs blk cb bcM bcE _ (hb.nonzero cb (by rw [htx]; simp)) hcbt mM hE
      -- the flush
      have htri := endState_tri cfg blk true bcE
      have hEu : (endState cfg blk true bcE).1.utxo = bcE.st.utxo := congrArg Tri.utxo htri
      have hEe := InsLift.endState_entries cfg blk true bcE
      show TblSat (flushCache cfg _ _).entries (flushCache cfg _ _).utxo
      rw [InsLift.flushCache_entries, hEe, flushCache_append]
      obtain ⟨f1, f2⟩ := flushCache_rows_nonspecial cfg bcE.cache (endState cfg blk true bcE).1 bcE.st.entries
        (by rw [hEu]; exact mE.tbl) mE.cache mE.cacheNS
      apply flush_special_rows cfg _ _ _ _ f1
      · intro ne' hne'
        obtain ⟨hr, hi⟩ := endState_null_spec cfg blk true bcE hnr ne' hne'
        have hra : rangesAt (flushCache cfg (endState cfg blk true bcE).1 bcE.cache).utxo OutPoint.null =
            rangesAt bcE.st.utxo OutPoint.null := by
          unfold rangesAt
          rw [f2 _ null_isSpecial, hEu]
        rw [hra, mE.nullAt, hr]
        intro seq off hm
        obtain ⟨ne, hne, hx⟩ := hi _ hm
        exact mE.nul ne hne seq off hx
      · exact mE.unb

/-- **one block keeps every row on its sats** -/
theorem applyBlock_utxoSat (cfg : Cfg) (hs : cfg.indexSats = true) (st : State) (blk : Block)
    (st' : State) (ev : List Event) (hb : BlockPlain blk)
    (hcb : ∃ cb rest, blk.txs = cb :: rest ∧ txIsCoinbase cb = true)
    (hon : insOnOf cfg blk = true) (hnl : NullLen st) (hU : UtxoSat st)
    (h : applyBlock cfg st blk = .ok (st', ev)) : UtxoSat st' := by
  unfold applyBlock at h
  have hflags : (cfg.indexInscriptions || cfg.indexAddresses || cfg.indexSats) = true := by simp [hs]
  simp only [hflags, if_true] at h
  cases hu : indexUtxoEntries cfg st blk with
  | panic e => rw [hu] at h; cases h
  | err e => rw [hu] at h; cases h
  | ok r =>
    obtain ⟨a1, ev1⟩ := r
    rw [hu] at h
    simp only at h
    have hc := InsLift.applyBlock_after cfg blk a1 ev1 st' ev h
    have h1 := indexUtxoEntries_utxoSat cfg hs st blk a1 ev1 hb hcb hon hnl hU hu
    show TblSat st'.entries st'.utxo
    rw [InsLift.insCore_utxo hc, InsLift.insCore_entries hc]
    exact h1

end Ord.Index.OnSatLift
